import Gen.C51Gen
import Proofs.C51Sums

/-!
  Proofs/C51GenEq.lean — the definitions `harness/py2lean_c51.py` generates from the source text of
  `RainbowDQN.__init__ / _dqn_loss / learn` (`Gen/C51Gen.lean`) are equal to the hand-written `Model/C51.lean`:

    delta_z0 N vmax vmin, support0 N vmax vmin   = Cfg.delta, supportList          (`__init__`)
    pos Δ N vmax vmin r d γ z_j                  = bpos c r d γ j                  (fractional atom position)
    scatter0 N b x, scatter1 N b x               = (l, x·(u - b)), (u, x·(b - l)),  (l, u) = lowUp N b
    project Δ N support vmax vmin r d γ p        = projOne c γ ⟨r, d, p⟩
    target_dist actor actor_target ns            = (Sample.row s).p                (greedy action of the ONLINE
                                                   q-values selects the TARGET network's distribution)
    dqn_loss …                                   = -dot (projOne …) (log p of the action taken)
    learn_ret0/1/2 …                             = the row's loss term / index / priority of `learn`

  plus two facts about the model that the restated theorems of `Props/C18.lean` use: the projection written
  with the triangular kernel `Λ(t) = max 0 (1 - |t|)`, and the projection of a terminal transition.
-/

-- fallback alternatives of `first` are there for harmless rewrites of the source, not for today's text
set_option linter.unusedTactic false
set_option linter.unreachableTactic false
set_option linter.unusedSimpArgs false

namespace C51
open Finset

/-! ### prelude -/

theorem gen_addAt_eq (v : List Rat) (i : Int) (x : Rat) : C51Gen.addAt v i x = addAt v i x := rfl

theorem gen_indexAdd_eq (v : List Rat) (ops : List (Int × Rat)) : C51Gen.indexAdd v ops = indexAdd v ops := rfl

theorem gen_clampT_eq (x lo hi : Rat) : C51Gen.clampT x lo hi = clamp lo hi x := rfl

theorem gen_argmaxFrom_eq (l : List Rat) (i : Nat) (m : Rat) (b : Nat) :
    C51Gen.argmaxFrom l i m b = argmaxFrom l i m b := by
  induction l generalizing i m b with
  | nil => rfl
  | cons x xs ih => simp only [C51Gen.argmaxFrom, argmaxFrom, ih]

theorem gen_argmaxFirst_eq (l : List Rat) : C51Gen.argmaxFirst l = argmaxFirst l := by
  cases l with
  | nil => rfl
  | cons x xs => simp only [C51Gen.argmaxFirst, argmaxFirst, gen_argmaxFrom_eq]

/-! ### `__init__` -/

theorem gen_delta_z0_eq (c : Cfg) : C51Gen.delta_z0 c.N c.vmax c.vmin = c.delta := by
  unfold C51Gen.delta_z0 Cfg.delta
  push_cast
  first | rfl | ring

theorem gen_support0_eq (c : Cfg) : C51Gen.support0 c.N c.vmax c.vmin = supportList c := by
  unfold C51Gen.support0 C51Gen.linspace supportList
  apply List.map_congr_left
  intro j _
  unfold C51Gen.linElem Cfg.z Cfg.delta
  first | rfl | ring

theorem getD_supportList (c : Cfg) (j : Nat) (hj : j < c.N) : (supportList c).getD j 0 = c.z j :=
  getD_map_range _ _ _ hj

/-! ### one entry: position and the two neighbours -/

theorem gen_pos_eq (c : Cfg) (r d g : Rat) (j : Nat) :
    C51Gen.pos c.delta c.N c.vmax c.vmin r d g (c.z j) = bpos c r d g j := by
  unfold C51Gen.pos bpos tz C51Gen.clampT clamp
  push_cast
  first | rfl | ring_nf

theorem gen_scatter0_eq (N : Nat) (b x : Rat) :
    C51Gen.scatter0 N b x = ((lowUp N b).1, x * (((lowUp N b).2 : Rat) - b)) := by
  first
    | rfl
    | (simp only [C51Gen.scatter0, lowUp, gt_iff_lt]; first | rfl | (congr 1; ring))

theorem gen_scatter1_eq (N : Nat) (b x : Rat) :
    C51Gen.scatter1 N b x = ((lowUp N b).2, x * (b - ((lowUp N b).1 : Rat))) := by
  first
    | rfl
    | (simp only [C51Gen.scatter1, lowUp, gt_iff_lt]; first | rfl | (congr 1; ring))

/-! ### one row -/

theorem gen_project_eq (c : Cfg) (g r d : Rat) (p : List Rat) :
    C51Gen.project c.delta c.N (supportList c) c.vmax c.vmin r d g p = projOne c g ⟨r, d, p⟩ := by
  unfold C51Gen.project projOne
  rw [gen_indexAdd_eq, gen_indexAdd_eq]
  congr 1
  · congr 1
    unfold rowOps
    apply List.map_congr_left
    intro j hj
    rw [getD_supportList c j (List.mem_range.mp hj), gen_pos_eq, gen_scatter0_eq]
    simp
  · unfold rowOps
    apply List.map_congr_left
    intro j hj
    rw [getD_supportList c j (List.mem_range.mp hj), gen_pos_eq, gen_scatter1_eq]
    simp

/-- the model's sample built from the three forward passes the generated code names -/
def sampleOf {Obs : Type} (actor : Obs → List Rat) (actorLog actorT : Obs → List (List Rat))
    (e : C51Gen.Row Obs) : Sample :=
  { r := e.reward, d := e.done, a := e.action, idx := e.idxs,
    q := actor e.next_obs, pT := actorT e.next_obs, logp := actorLog e.obs }

/-- the ONLINE network's q-values of the NEXT observation pick the action, the TARGET network's distributions
    of the NEXT observation are indexed with it -/
theorem gen_target_dist_eq {Obs : Type} (actor : Obs → List Rat) (actorLog actorT : Obs → List (List Rat))
    (e : C51Gen.Row Obs) :
    C51Gen.target_dist actor actorT e.next_obs = (sampleOf actor actorLog actorT e).row.p := by
  unfold C51Gen.target_dist Sample.row sampleOf
  simp only [gen_argmaxFirst_eq]

/-- cross-entropy of the projected target of a sample and the online log-distribution of the action taken -/
def ce (c : Cfg) (g : Rat) (s : Sample) : Rat := - dot (projOne c g s.row) s.logpA

theorem gen_dqn_loss_eq {Obs : Type} (c : Cfg) (g : Rat) (actor : Obs → List Rat)
    (actorLog actorT : Obs → List (List Rat)) (e : C51Gen.Row Obs)
    (hlog : ((actorLog e.obs).getD e.action []).length = c.N) :
    C51Gen.dqn_loss actor actorLog actorT c.delta c.N (supportList c) c.vmax c.vmin
        e.obs e.action e.reward e.next_obs e.done g
      = ce c g (sampleOf actor actorLog actorT e) := by
  unfold C51Gen.dqn_loss ce
  rw [gen_target_dist_eq actor actorLog actorT e, gen_project_eq, list_range_sum,
      dot_eq_sum _ _ c.N (length_projOne c g _) (by simpa [Sample.logpA, sampleOf] using hlog)]
  first
    | rfl
    | (congr 1; apply Finset.sum_congr rfl; intro j _; first | rfl | exact mul_comm _ _)

/-! ### `learn`, one row -/

section learn
variable {Obs : Type} (actor : Obs → List Rat) (actorLog actorT : Obs → List (List Rat))

/-- the shape assumption on the online log-distributions: `num_atoms` entries for the action taken -/
def LogOK (c : Cfg) (e : C51Gen.Row Obs) : Prop := ((actorLog e.obs).getD e.action []).length = c.N

/-- element-wise loss of one row as `learn` combines it: 1-step alone (`γ`), n-step alone (`γ ^ n`), or both -/
def rowLoss (h : Hyper) (s : Sample) : Option Sample → Rat
  | none => ce h.cfg h.gamma s
  | some t => if h.combined then ce h.cfg h.gamma s + ce h.cfg (h.gamma ^ h.nStep) t else ce h.cfg (h.gamma ^ h.nStep) t

theorem gen_learn_ret2_eq (h : Hyper) (e : C51Gen.Row Obs) (ne : Option (C51Gen.Row Obs)) (per : Bool)
    (he : LogOK actorLog h.cfg e) (hne : ∀ x, ne = some x → LogOK actorLog h.cfg x) :
    C51Gen.learn_ret2 actor actorLog actorT h.combined h.cfg.delta h.gamma h.nStep h.cfg.N h.priorEps
        (supportList h.cfg) h.cfg.vmax h.cfg.vmin e ne per
      = if per then some (rowLoss h (sampleOf actor actorLog actorT e) (ne.map (sampleOf actor actorLog actorT))
                            + h.priorEps)
        else none := by
  unfold C51Gen.learn_ret2
  cases ne with
  | none =>
    cases per <;> first
      | (simp [rowLoss, gen_dqn_loss_eq h.cfg _ actor actorLog actorT e he]; done)
      | (simp [rowLoss, gen_dqn_loss_eq h.cfg _ actor actorLog actorT e he]; ring)
  | some x =>
    have hx := hne x rfl
    cases per <;> cases hcomb : h.combined <;> first
      | (simp [rowLoss, hcomb, gen_dqn_loss_eq h.cfg _ actor actorLog actorT e he,
            gen_dqn_loss_eq h.cfg _ actor actorLog actorT x hx]; done)
      | (simp [rowLoss, hcomb, gen_dqn_loss_eq h.cfg _ actor actorLog actorT e he,
            gen_dqn_loss_eq h.cfg _ actor actorLog actorT x hx]; ring)

theorem gen_learn_ret0_eq (h : Hyper) (e : C51Gen.Row Obs) (ne : Option (C51Gen.Row Obs))
    (he : LogOK actorLog h.cfg e) (hne : ∀ x, ne = some x → LogOK actorLog h.cfg x) :
    C51Gen.learn_ret0 actor actorLog actorT h.combined h.cfg.delta h.gamma h.nStep h.cfg.N
        (supportList h.cfg) h.cfg.vmax h.cfg.vmin e ne false
      = some (rowLoss h (sampleOf actor actorLog actorT e) (ne.map (sampleOf actor actorLog actorT))) := by
  unfold C51Gen.learn_ret0
  cases ne with
  | none =>
    first
      | (simp [rowLoss, gen_dqn_loss_eq h.cfg _ actor actorLog actorT e he]; done)
      | (simp [rowLoss, gen_dqn_loss_eq h.cfg _ actor actorLog actorT e he]; ring)
  | some x =>
    have hx := hne x rfl
    cases hcomb : h.combined <;> first
      | (simp [rowLoss, hcomb, gen_dqn_loss_eq h.cfg _ actor actorLog actorT e he,
            gen_dqn_loss_eq h.cfg _ actor actorLog actorT x hx]; done)
      | (simp [rowLoss, hcomb, gen_dqn_loss_eq h.cfg _ actor actorLog actorT e he,
            gen_dqn_loss_eq h.cfg _ actor actorLog actorT x hx]; ring)

/-- the indices handed back are those of the 1-step batch, under PER or with an n-step batch -/
theorem gen_learn_ret1_eq (e : C51Gen.Row Obs) (ne : Option (C51Gen.Row Obs)) (per : Bool) :
    C51Gen.learn_ret1 e ne per = if per || ne.isSome then some e.idxs else none := by
  unfold C51Gen.learn_ret1
  cases ne <;> cases per <;> rfl

end learn

/-! ### the model's `learn`, row by row (what the per-row definitions are compared with) -/

theorem dqnLoss_eq_ce (c : Cfg) (hN : 2 ≤ c.N) (g : Rat) (batch : List Sample) :
    dqnLoss c g batch = batch.map (ce c g) := by
  unfold dqnLoss
  apply List.ext_getElem
  · simp
  · intro i h1 h2
    have hi : i < batch.length := by simpa using h2
    simp only [List.getElem_map, List.getElem_zipIdx, Nat.zero_add, ce]
    rw [projRow_eq_projOne c hN g _ i (by simpa using hi)]
    simp

theorem zipWith_snd {α β γ : Type} (f : β → γ) :
    ∀ (a : List α) (b : List β), a.length = b.length → List.zipWith (fun _ t => f t) a b = b.map f
  | [], [], _ => rfl
  | [], _ :: _, h => by simp at h
  | _ :: _, [], h => by simp at h
  | _ :: xs, y :: ys, h => by
    simp only [List.zipWith_cons_cons, List.map_cons]
    rw [zipWith_snd f xs ys (by simpa using h)]

theorem zipWith_congr_mem {α β γ : Type} (f g : α → β → γ) :
    ∀ (a : List α) (b : List β), (∀ x ∈ a, ∀ y ∈ b, f x y = g x y) → List.zipWith f a b = List.zipWith g a b
  | [], _, _ => by simp
  | _ :: _, [], _ => by simp
  | x :: xs, y :: ys, h => by
    simp only [List.zipWith_cons_cons]
    rw [h x (by simp) y (by simp), zipWith_congr_mem f g xs ys (fun x' hx y' hy => h x' (by simp [hx]) y' (by simp [hy]))]

theorem learn_elementwise_rows (h : Hyper) (hN : 2 ≤ h.cfg.N) (per : Bool) (one nb : List Sample)
    (hlen : one.length = nb.length) :
    (learn h per one none).elementwise = one.map (fun s => rowLoss h s none) ∧
    (learn h per one (some nb)).elementwise = List.zipWith (fun s t => rowLoss h s (some t)) one nb := by
  constructor
  · simp [learn, dqnLoss_eq_ce _ hN, rowLoss]
  · cases hcomb : h.combined
    · simp only [learn, hcomb, dqnLoss_eq_ce _ hN, rowLoss, Bool.false_eq_true, if_false]
      exact (zipWith_snd _ one nb hlen).symm
    · simp only [learn, hcomb, dqnLoss_eq_ce _ hN, rowLoss, if_true]
      rw [List.zipWith_map_left, List.zipWith_map_right]

/-! ### the projection written with the triangular kernel -/

/-- `Λ(t) = max 0 (1 - |t|)`: the weight an atom at distance `t` (in units of `Δ`) receives -/
def tri (t : Rat) : Rat := max 0 (1 - |t|)

theorem tri_split (l k : Nat) (b x : Rat) (h1 : (l : Rat) ≤ b) (h2 : b ≤ (l : Rat) + 1) :
    (if l = k then x * ((l : Rat) + 1 - b) else 0) + (if l + 1 = k then x * (b - (l : Rat)) else 0)
      = x * tri (b - (k : Rat)) := by
  unfold tri
  by_cases e1 : l = k
  · subst e1
    have e2 : ¬ (l + 1 = l) := by omega
    rw [if_pos rfl, if_neg e2, add_zero, abs_of_nonneg (by linarith), max_eq_right (by linarith)]
    ring
  · by_cases e2 : l + 1 = k
    · subst e2
      rw [if_neg e1, if_pos rfl, zero_add]
      push_cast
      rw [abs_of_nonpos (by linarith), max_eq_right (by linarith)]
      ring
    · rw [if_neg e1, if_neg e2, add_zero]
      have : (1 : Rat) ≤ |b - (k : Rat)| := by
        rcases Nat.lt_or_gt_of_ne e1 with hlt | hgt
        · have : l + 2 ≤ k := by omega
          have : (l : Rat) + 2 ≤ (k : Rat) := by exact_mod_cast this
          rw [abs_of_nonpos (by linarith)]; linarith
        · have : k + 1 ≤ l := by omega
          have : (k : Rat) + 1 ≤ (l : Rat) := by exact_mod_cast this
          rw [abs_of_nonneg (by linarith)]; linarith
      rw [max_eq_left (by linarith), mul_zero]

theorem lowNat_brackets (c : Cfg) (hN : 2 ≤ c.N) (r d g : Rat) (j : Nat) :
    ((lowNat c r d g j : Nat) : Rat) ≤ bpos c r d g j ∧ bpos c r d g j ≤ ((lowNat c r d g j : Nat) : Rat) + 1 := by
  obtain ⟨b0, _⟩ := bpos_range c (by omega) r d g j
  obtain ⟨e1, e2, _⟩ := lowUp_nat c hN r d g j
  obtain ⟨h1, h2⟩ := lowUp_brackets c.N hN _ b0
  rw [e1] at h1
  rw [e2] at h2
  push_cast at h1 h2
  exact ⟨h1, h2⟩

/-- **triangular weights**: atom `k` of the projection receives from source atom `j` the mass `p_j · Λ(b_j - k)`,
    `b_j` the position of the shifted atom in units of `Δ` — i.e. every source atom's mass goes to its two
    neighbouring atoms, linearly in the distance, and nowhere else -/
theorem getD_projOne_tri (c : Cfg) (hN : 2 ≤ c.N) (g : Rat) (row : Row) (k : Nat) (hk : k < c.N) :
    (projOne c g row).getD k 0 = ∑ j ∈ range c.N, row.p.getD j 0 * tri (bpos c row.r row.d g j - (k : Rat)) := by
  rw [getD_projOne c g row k hk, contrib_low c hN, contrib_up c hN, ← Finset.sum_add_distrib]
  apply Finset.sum_congr rfl
  intro j _
  obtain ⟨h1, h2⟩ := lowNat_brackets c hN row.r row.d g j
  exact tri_split _ k _ _ h1 h2

/-- a terminal transition (`done = 1`): every shifted atom sits at `clamp(r)`, whatever `γ` and the support -/
theorem tz_done (c : Cfg) (r g : Rat) (j : Nat) : tz c r 1 g j = clamp c.vmin c.vmax r := by
  unfold tz
  congr 1
  ring

theorem bpos_done (c : Cfg) (r g : Rat) (j : Nat) :
    bpos c r 1 g j = clamp 0 ((c.N : Rat) - 1) ((clamp c.vmin c.vmax r - c.vmin) / c.delta) := by
  unfold bpos
  rw [tz_done]

/-- … so its projection is the point mass at `clamp(r)` carrying the whole source mass: spread over the two
    atoms next to `clamp(r)` with the triangular weights (one atom when `clamp(r)` is an atom) -/
theorem projOne_done (c : Cfg) (hN : 2 ≤ c.N) (g r : Rat) (p : List Rat) (hp : p.length = c.N) (k : Nat)
    (hk : k < c.N) :
    (projOne c g ⟨r, 1, p⟩).getD k 0 =
      p.sum * tri (clamp 0 ((c.N : Rat) - 1) ((clamp c.vmin c.vmax r - c.vmin) / c.delta) - (k : Rat)) := by
  rw [getD_projOne_tri c hN g _ k hk, sum_getD, hp, Finset.sum_mul]
  apply Finset.sum_congr rfl
  intro j _
  simp only [bpos_done]

end C51
