import Mathlib.Algebra.BigOperators.Group.Finset.Basic
import Mathlib.Algebra.BigOperators.Group.Finset.Sigma
import Mathlib.Algebra.BigOperators.Ring.Finset
import Mathlib.Algebra.Order.Field.Rat
import Mathlib.Data.List.GetD
import Mathlib.Tactic.Ring
import Mathlib.Tactic.Linarith
import Model.C51

/-!
  Proofs/C51Lemmas.lean — list/scatter lemmas behind C18: what `index_add_` does to one entry of
  the flat buffer, and bridges between `List.sum` and `Finset.sum`.
-/
namespace C51
open Finset

theorem list_range_sum (n : Nat) (f : Nat → Rat) :
    ((List.range n).map f).sum = ∑ k ∈ range n, f k := by
  induction n with
  | zero => simp
  | succ n ih =>
    rw [List.range_succ, List.map_append, List.sum_append, ih, Finset.sum_range_succ]; simp

theorem sum_getD (v : List Rat) : v.sum = ∑ k ∈ range v.length, v.getD k 0 := by
  induction v with
  | nil => simp
  | cons x xs ih =>
    rw [List.length_cons, Finset.sum_range_succ', List.sum_cons, ih]
    simp [add_comm]

theorem getD_zipWith_mul (a b : List Rat) (k : Nat) :
    (List.zipWith (· * ·) a b).getD k 0 = a.getD k 0 * b.getD k 0 := by
  induction a generalizing b k with
  | nil => simp
  | cons x xs ih =>
    cases b with
    | nil => simp
    | cons y ys =>
      cases k with
      | zero => simp
      | succ k => simpa using ih ys k

theorem dot_eq_sum (a b : List Rat) (n : Nat) (ha : a.length = n) (hb : b.length = n) :
    dot a b = ∑ k ∈ range n, a.getD k 0 * b.getD k 0 := by
  unfold dot
  rw [sum_getD]
  have : (List.zipWith (· * ·) a b).length = n := by simp [ha, hb]
  rw [this]
  exact Finset.sum_congr rfl (fun k _ => getD_zipWith_mul a b k)

/-- total of the values an op list sends to flat position `k` -/
def contrib (ops : List (Int × Rat)) (k : Nat) : Rat :=
  (ops.map fun o => if o.1 = (k : Int) then o.2 else 0).sum

@[simp] theorem contrib_nil (k : Nat) : contrib [] k = 0 := rfl

theorem contrib_cons (o : Int × Rat) (os : List (Int × Rat)) (k : Nat) :
    contrib (o :: os) k = (if o.1 = (k : Int) then o.2 else 0) + contrib os k := by
  simp [contrib]

theorem contrib_append (a b : List (Int × Rat)) (k : Nat) :
    contrib (a ++ b) k = contrib a k + contrib b k := by
  simp [contrib]

theorem length_addAt (v : List Rat) (i : Int) (x : Rat) : (addAt v i x).length = v.length := by
  unfold addAt; split <;> simp

theorem getD_addAt (v : List Rat) (i : Int) (x : Rat) (k : Nat) (hk : k < v.length) :
    (addAt v i x).getD k 0 = v.getD k 0 + (if i = (k : Int) then x else 0) := by
  unfold addAt
  split
  · next h0 =>
    have hk' : k < (v.modify i.toNat (· + x)).length := by simpa using hk
    rw [List.getD_eq_getElem _ _ hk', List.getD_eq_getElem _ _ hk, List.getElem_modify]
    by_cases e : i = (k : Int)
    · simp [e]
    · have : ¬ i.toNat = k := by omega
      simp [e, this]
  · next h0 =>
    have : ¬ i = (k : Int) := by omega
    simp [this]

theorem length_indexAdd (v : List Rat) (ops : List (Int × Rat)) :
    (indexAdd v ops).length = v.length := by
  unfold indexAdd
  induction ops generalizing v with
  | nil => rfl
  | cons o os ih => rw [List.foldl_cons, ih, length_addAt]

/-- `index_add_` entry by entry: position `k` receives exactly the values whose index is `k` -/
theorem getD_indexAdd (v : List Rat) (ops : List (Int × Rat)) (k : Nat) (hk : k < v.length) :
    (indexAdd v ops).getD k 0 = v.getD k 0 + contrib ops k := by
  unfold indexAdd
  induction ops generalizing v with
  | nil => simp
  | cons o os ih =>
    rw [List.foldl_cons, ih _ (by rw [length_addAt]; exact hk), getD_addAt _ _ _ _ hk, contrib_cons]
    ring

theorem getD_replicate_zero (n k : Nat) : (List.replicate n (0 : Rat)).getD k 0 = 0 := by
  simp [List.getD_eq_getElem?_getD, List.getElem?_replicate]
  split <;> rfl

end C51
