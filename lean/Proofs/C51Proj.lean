import Proofs.C51Lemmas
import Proofs.C51Adj

/-!
  Proofs/C51Proj.lean — the batched scatter of `_dqn_loss` row by row: the flattened offsets never
  mix batch rows, every index is in range, and each row of the result is the projection of that
  row alone (`projOne`), whose weighted sums are computed in closed form.
-/
namespace C51
open Finset

/-! ### one row's ops -/

theorem mem_rowOps (c : Cfg) (hN : 2 ≤ c.N) (g : Rat) (up : Bool) (off : Nat) (row : Row)
    (o : Int × Rat) (ho : o ∈ rowOps c g up off row) :
    (off : Int) ≤ o.1 ∧ o.1 < (off : Int) + c.N := by
  simp only [rowOps, List.mem_map, List.mem_range] at ho
  obtain ⟨j, _, rfl⟩ := ho
  obtain ⟨e1, e2, e3⟩ := lowUp_nat c hN row.r row.d g j
  cases up <;> simp only [Bool.false_eq_true, if_false, if_true] <;> omega

theorem contrib_eq_zero (ops : List (Int × Rat)) (k : Nat) (h : ∀ o ∈ ops, o.1 ≠ (k : Int)) :
    contrib ops k = 0 := by
  induction ops with
  | nil => rfl
  | cons o os ih =>
    rw [contrib_cons, ih (fun o' ho' => h o' (List.mem_cons_of_mem _ ho'))]
    simp [h o (List.mem_cons_self)]

theorem contrib_rowOps_shift (c : Cfg) (g : Rat) (up : Bool) (off : Nat) (row : Row) (k : Nat) :
    contrib (rowOps c g up off row) (off + k) = contrib (rowOps c g up 0 row) k := by
  unfold contrib rowOps
  rw [List.map_map, List.map_map]
  congr 1
  apply List.map_congr_left
  intro j _
  cases up <;> simp only [Function.comp, Bool.false_eq_true, if_false, if_true] <;>
    (congr 1; apply propext; push_cast; constructor <;> intro h <;> omega)

/-! ### all rows: offsets keep rows apart -/

theorem allOps_append (c : Cfg) (g : Rat) (up : Bool) (s : Nat) (a b : List Row) :
    allOps c g up s (a ++ b) = allOps c g up s a ++ allOps c g up (s + a.length) b := by
  induction a generalizing s with
  | nil => simp [allOps]
  | cons x xs ih =>
    simp only [List.cons_append, allOps, ih, List.append_assoc, List.length_cons]
    congr 3; omega

theorem row_sep (N s t k : Nat) (x : Int) (hk : k < N) (h1 : ((s * N : Nat) : Int) ≤ x)
    (h2 : x < ((s * N : Nat) : Int) + N) (hx : x = ((t * N + k : Nat) : Int)) : s = t := by
  by_contra hne
  push_cast at hx h1 h2
  rcases Nat.lt_or_gt_of_ne hne with hlt | hgt
  · have h3 : ((s : Int) + 1) * (N : Int) ≤ (t : Int) * (N : Int) := by
      exact_mod_cast Nat.mul_le_mul_right N (show s + 1 ≤ t from hlt)
    rw [add_mul, one_mul] at h3
    generalize (s : Int) * (N : Int) = A at *; generalize (t : Int) * (N : Int) = B at *; omega
  · have h3 : ((t : Int) + 1) * (N : Int) ≤ (s : Int) * (N : Int) := by
      exact_mod_cast Nat.mul_le_mul_right N (show t + 1 ≤ s from hgt)
    rw [add_mul, one_mul] at h3
    generalize (s : Int) * (N : Int) = A at *; generalize (t : Int) * (N : Int) = B at *; omega

/-- rows other than `t` contribute nothing to the `t`-th block of the flat buffer -/
theorem contrib_allOps_other (c : Cfg) (hN : 2 ≤ c.N) (g : Rat) (up : Bool) (s : Nat) (rows : List Row)
    (t k : Nat) (hk : k < c.N) (ht : t < s ∨ s + rows.length ≤ t) :
    contrib (allOps c g up s rows) (t * c.N + k) = 0 := by
  induction rows generalizing s with
  | nil => simp [allOps]
  | cons row rest ih =>
    simp only [allOps, contrib_append]
    rw [ih (s + 1) (by simp only [List.length_cons] at ht; omega), add_zero]
    apply contrib_eq_zero
    intro o ho hx
    obtain ⟨h1, h2⟩ := mem_rowOps c hN g up (s * c.N) row o ho
    have := row_sep c.N s t k o.1 hk h1 h2 hx
    simp only [List.length_cons] at ht
    omega

/-- the `t`-th block of the flat buffer receives exactly row `t`'s own ops -/
theorem contrib_allOps_row (c : Cfg) (hN : 2 ≤ c.N) (g : Rat) (up : Bool) (pre post : List Row)
    (row : Row) (k : Nat) (hk : k < c.N) :
    contrib (allOps c g up 0 (pre ++ row :: post)) (pre.length * c.N + k) =
      contrib (rowOps c g up 0 row) k := by
  rw [allOps_append, contrib_append, Nat.zero_add]
  rw [contrib_allOps_other c hN g up 0 pre _ k hk (Or.inr (by omega)), zero_add]
  simp only [allOps, contrib_append]
  rw [contrib_allOps_other c hN g up _ post _ k hk (Or.inl (by omega)), add_zero]
  exact contrib_rowOps_shift c g up _ row k

/-- every flat index written by either `index_add_` lies inside the `B·N` buffer -/
theorem allOps_inRange (c : Cfg) (hN : 2 ≤ c.N) (g : Rat) (up : Bool) (s : Nat) (rows : List Row)
    (o : Int × Rat) (ho : o ∈ allOps c g up s rows) :
    ((s * c.N : Nat) : Int) ≤ o.1 ∧ o.1 < (((s + rows.length) * c.N : Nat) : Int) := by
  induction rows generalizing s with
  | nil => simp [allOps] at ho
  | cons row rest ih =>
    simp only [allOps, List.mem_append] at ho
    rcases ho with ho | ho
    · obtain ⟨h1, h2⟩ := mem_rowOps c hN g up (s * c.N) row o ho
      refine ⟨h1, ?_⟩
      simp only [List.length_cons]
      have : (s + (rest.length + 1)) * c.N = s * c.N + c.N + rest.length * c.N := by ring
      rw [this]; push_cast; push_cast at h2
      have : (0 : Int) ≤ (rest.length : Int) * (c.N : Int) := by positivity
      omega
    · obtain ⟨h1, h2⟩ := ih (s + 1) ho
      simp only [List.length_cons]
      have e : (s + (rest.length + 1)) * c.N = (s + 1 + rest.length) * c.N := by ring
      rw [e]
      refine ⟨?_, h2⟩
      have : (s + 1) * c.N = s * c.N + c.N := by ring
      rw [this] at h1; push_cast at h1 ⊢; omega

theorem projOK_of_valid (c : Cfg) (hN : 2 ≤ c.N) (g : Rat) (rows : List Row) :
    projOK c g rows = true := by
  unfold projOK opsInRange
  simp only [Bool.and_eq_true, List.all_eq_true, decide_eq_true_eq]
  constructor <;> intro o ho <;>
    (have := allOps_inRange c hN g _ 0 rows o ho; simp only [Nat.zero_mul, Nat.zero_add] at this
     exact ⟨by exact_mod_cast this.1, this.2⟩)

/-! ### entries of the result -/

theorem getD_projOne (c : Cfg) (g : Rat) (row : Row) (k : Nat) (hk : k < c.N) :
    (projOne c g row).getD k 0 =
      contrib (rowOps c g false 0 row) k + contrib (rowOps c g true 0 row) k := by
  unfold projOne
  rw [getD_indexAdd _ _ _ (by rw [length_indexAdd]; simpa using hk),
      getD_indexAdd _ _ _ (by simpa using hk), getD_replicate_zero, zero_add]

theorem length_projOne (c : Cfg) (g : Rat) (row : Row) : (projOne c g row).length = c.N := by
  simp [projOne, length_indexAdd]

theorem length_projFlat (c : Cfg) (g : Rat) (rows : List Row) :
    (projFlat c g rows).length = rows.length * c.N := by
  simp [projFlat, length_indexAdd]

theorem block_lt (B N bi k : Nat) (hbi : bi < B) (hk : k < N) : bi * N + k < B * N := by
  have := Nat.mul_le_mul_right N (show bi + 1 ≤ B from hbi)
  rw [Nat.add_mul] at this
  generalize bi * N = A at *; generalize B * N = C at *; omega

theorem getD_projFlat (c : Cfg) (hN : 2 ≤ c.N) (g : Rat) (pre post : List Row) (row : Row)
    (k : Nat) (hk : k < c.N) :
    (projFlat c g (pre ++ row :: post)).getD (pre.length * c.N + k) 0 =
      contrib (rowOps c g false 0 row) k + contrib (rowOps c g true 0 row) k := by
  have hlt : pre.length * c.N + k < (pre ++ row :: post).length * c.N :=
    block_lt _ _ _ _ (by simp) hk
  unfold projFlat
  rw [getD_indexAdd _ _ _ (by rw [length_indexAdd]; simpa using hlt),
      getD_indexAdd _ _ _ (by simpa using hlt), getD_replicate_zero, zero_add,
      contrib_allOps_row c hN g false pre post row k hk,
      contrib_allOps_row c hN g true pre post row k hk]

theorem length_projRow (c : Cfg) (g : Rat) (rows : List Row) (bi : Nat) (hbi : bi < rows.length) :
    (projRow c g rows bi).length = c.N := by
  unfold projRow
  rw [List.length_take, List.length_drop, length_projFlat]
  have := Nat.mul_le_mul_right c.N (show bi + 1 ≤ rows.length from hbi)
  rw [Nat.add_mul] at this
  generalize bi * c.N = A at *; generalize rows.length * c.N = C at *; omega

/-- **rows never mix**: row `bi` of the batched, offset-based scatter is the projection of
    transition `bi` alone -/
theorem projRow_eq_projOne (c : Cfg) (hN : 2 ≤ c.N) (g : Rat) (rows : List Row) (bi : Nat)
    (hbi : bi < rows.length) : projRow c g rows bi = projOne c g rows[bi] := by
  have hsplit : rows = rows.take bi ++ rows[bi] :: rows.drop (bi + 1) := by
    rw [List.getElem_cons_drop, List.take_append_drop]
  have hpre : (rows.take bi).length = bi := by rw [List.length_take]; omega
  apply List.ext_getElem
  · rw [length_projRow c g rows bi hbi, length_projOne]
  · intro k h1 h2
    have hk : k < c.N := by rw [length_projOne] at h2; exact h2
    have e1 : (projRow c g rows bi)[k] = (projFlat c g rows).getD (bi * c.N + k) 0 := by
      have hlt : bi * c.N + k < (projFlat c g rows).length := by
        rw [length_projFlat]; exact block_lt _ _ _ _ hbi hk
      rw [List.getD_eq_getElem _ _ hlt]
      simp only [projRow, List.getElem_take, List.getElem_drop]
    rw [e1, ← List.getD_eq_getElem _ 0 h2, getD_projOne c g _ k hk]
    have := getD_projFlat c hN g (rows.take bi) (rows.drop (bi + 1)) rows[bi] k hk
    rw [hpre, ← hsplit] at this
    exact this

end C51
