import Proofs.C51Proj

/-!
  Proofs/C51Sums.lean — weighted sums of one projected row in closed form; mass and mean follow by
  choosing the weight `1` resp. the support `z`.
-/
namespace C51
open Finset

theorem contrib_low (c : Cfg) (hN : 2 ≤ c.N) (g : Rat) (row : Row) (k : Nat) :
    contrib (rowOps c g false 0 row) k =
      ∑ j ∈ range c.N, if lowNat c row.r row.d g j = k then
        row.p.getD j 0 * (((lowNat c row.r row.d g j : Nat) : Rat) + 1 - bpos c row.r row.d g j) else 0 := by
  unfold contrib rowOps
  rw [List.map_map, list_range_sum]
  apply Finset.sum_congr rfl
  intro j _
  obtain ⟨e1, e2, _⟩ := lowUp_nat c hN row.r row.d g j
  simp only [Function.comp, Bool.false_eq_true, if_false, e1, e2]
  push_cast
  have : ((lowNat c row.r row.d g j : Int) + 0 = (k : Int)) ↔ lowNat c row.r row.d g j = k := by omega
  simp only [this]

theorem contrib_up (c : Cfg) (hN : 2 ≤ c.N) (g : Rat) (row : Row) (k : Nat) :
    contrib (rowOps c g true 0 row) k =
      ∑ j ∈ range c.N, if lowNat c row.r row.d g j + 1 = k then
        row.p.getD j 0 * (bpos c row.r row.d g j - ((lowNat c row.r row.d g j : Nat) : Rat)) else 0 := by
  unfold contrib rowOps
  rw [List.map_map, list_range_sum]
  apply Finset.sum_congr rfl
  intro j _
  obtain ⟨e1, e2, _⟩ := lowUp_nat c hN row.r row.d g j
  simp only [Function.comp, if_true, e1, e2]
  push_cast
  have : ((lowNat c row.r row.d g j : Int) + 1 + 0 = (k : Int)) ↔ lowNat c row.r row.d g j + 1 = k := by omega
  simp only [this]

/-- weighted sum of a projected row, for an arbitrary weight on the atoms -/
theorem wsum_projOne (c : Cfg) (hN : 2 ≤ c.N) (g : Rat) (row : Row) (w : Nat → Rat) :
    ∑ k ∈ range c.N, (projOne c g row).getD k 0 * w k =
      ∑ j ∈ range c.N, row.p.getD j 0 *
        ((((lowNat c row.r row.d g j : Nat) : Rat) + 1 - bpos c row.r row.d g j) * w (lowNat c row.r row.d g j)
         + (bpos c row.r row.d g j - ((lowNat c row.r row.d g j : Nat) : Rat)) * w (lowNat c row.r row.d g j + 1)) := by
  have step : ∀ k ∈ range c.N, (projOne c g row).getD k 0 * w k =
      ∑ j ∈ range c.N,
        ((if lowNat c row.r row.d g j = k then
            row.p.getD j 0 * (((lowNat c row.r row.d g j : Nat) : Rat) + 1 - bpos c row.r row.d g j) * w k else 0)
         + (if lowNat c row.r row.d g j + 1 = k then
            row.p.getD j 0 * (bpos c row.r row.d g j - ((lowNat c row.r row.d g j : Nat) : Rat)) * w k else 0)) := by
    intro k hk
    rw [getD_projOne c g row k (Finset.mem_range.mp hk), contrib_low c hN, contrib_up c hN,
        ← Finset.sum_add_distrib, Finset.sum_mul]
    apply Finset.sum_congr rfl
    intro j _
    rw [add_mul, ite_mul, ite_mul, zero_mul]
  rw [Finset.sum_congr rfl step, Finset.sum_comm]
  apply Finset.sum_congr rfl
  intro j _
  obtain ⟨_, _, e3⟩ := lowUp_nat c hN row.r row.d g j
  rw [Finset.sum_add_distrib, Finset.sum_ite_eq, Finset.sum_ite_eq]
  rw [if_pos (Finset.mem_range.mpr (by omega)), if_pos (Finset.mem_range.mpr e3)]
  ring

/-- probability mass of a projected row = mass of the source distribution -/
theorem mass_projOne (c : Cfg) (hN : 2 ≤ c.N) (g : Rat) (row : Row) (hp : row.p.length = c.N) :
    (projOne c g row).sum = row.p.sum := by
  rw [sum_getD, sum_getD, length_projOne, hp]
  have := wsum_projOne c hN g row (fun _ => 1)
  simp only [mul_one] at this
  rw [this]
  apply Finset.sum_congr rfl
  intro j _
  ring

theorem getD_map_range (n : Nat) (f : Nat → Rat) (k : Nat) (hk : k < n) :
    ((List.range n).map f).getD k 0 = f k := by
  rw [List.getD_eq_getElem _ _ (by simpa using hk)]; simp

/-- mean of a projected row = mean of the clipped targets under the source distribution -/
theorem mean_projOne (c : Cfg) (h : c.Valid) (g : Rat) (row : Row) (hp : row.p.length = c.N) :
    dot (projOne c g row) (supportList c) = dot row.p (tzList c g row) := by
  rw [dot_eq_sum _ _ c.N (length_projOne c g row) (by simp [supportList]),
      dot_eq_sum _ _ c.N hp (by simp [tzList])]
  have e1 : ∀ k ∈ range c.N, (projOne c g row).getD k 0 * (supportList c).getD k 0 =
      (projOne c g row).getD k 0 * c.z k := by
    intro k hk
    rw [supportList, getD_map_range _ _ _ (Finset.mem_range.mp hk)]
  rw [Finset.sum_congr rfl e1, wsum_projOne c h.1 g row c.z]
  apply Finset.sum_congr rfl
  intro j hj
  rw [tzList, getD_map_range _ _ _ (Finset.mem_range.mp hj)]
  have hb := delta_mul_bpos c h row.r row.d g j
  congr 1
  unfold Cfg.z
  push_cast
  have : tz c row.r row.d g j = c.vmin + c.delta * bpos c row.r row.d g j := by rw [hb]; ring
  rw [this]; ring

end C51
