import Gen.CkptGen
import Proofs.HeapCkptAlias

/-!
  Proofs/CkptGenEq.lean — the tables GENERATED from the checkpoint code of AgileRL (`Gen/CkptGen.lean`, by
  harness/py2lean_ckpt.py) are equal to the explicit tables of the hand-written model (`Model/HeapCkpt.lean`,
  section "the checkpoint table").  The vocabularies are translated one to one (`toGen`); every equality is
  decided by evaluating the generated steps with the evaluator of the generated file's prelude, so a harmless
  rewrite of the source (renamed locals, reordered independent statements) re-evaluates to the same tables, while
  a dropped `load_state_dict`, a skipped attribute or a swapped merge order changes a table entry.
-/
namespace CkptGenEq
open HeapCkpt

def ObjCls.toGen : HeapCkpt.ObjCls → CkptGen.ObjCls
  | .optimizerWrapper => .optimizerWrapper
  | .evolvableModule => .evolvableModule
  | .optimizedModule => .optimizedModule
  | .moduleList c => .moduleList c
  | .other => .other

def Part.toGen : HeapCkpt.Part → CkptGen.Part
  | .cls => .cls | .init => .init | .weights => .weights | .detached => .detached
  | .optCls => .optCls | .optState => .optState | .optNetworks => .optNetworks | .optLr => .optLr
  | .optKwargs => .optKwargs | .optMultiagent => .optMultiagent | .optParams => .optParams | .value => .value

def Part.ofGen : CkptGen.Part → HeapCkpt.Part
  | .cls => .cls | .init => .init | .weights => .weights | .detached => .detached
  | .optCls => .optCls | .optState => .optState | .optNetworks => .optNetworks | .optLr => .optLr
  | .optKwargs => .optKwargs | .optMultiagent => .optMultiagent | .optParams => .optParams | .value => .value

def Cls.toGen : HeapCkpt.Cls → CkptGen.Cls
  | .evolvable o => .evolvable (ObjCls.toGen o)
  | .plain => .plain
  | .subRef => .subRef
  | .wrapperAttr => .wrapperAttr

def LoadPath.toGen : HeapCkpt.LoadPath → CkptGen.LoadPath
  | .inplace => .inplace
  | .new => .new
  | .wrapperInplace => .wrapperInplace

/-- `saved` stays `saved`; a part nobody assigns (the receiver's / the constructor's value) is `kept`; anything
    else — unresolved tests, a raise, a value from another file entry — is `lost` -/
def fateOf : CkptGen.Outcome → Fate
  | .saved => .saved
  | .other .old => .kept
  | .other .ctor => .kept
  | .other _ => .lost

/-- the fate table derived from the SOURCE, in the model's vocabulary -/
def genFate (p : LoadPath) (c : Cls) (q : Part) : Fate :=
  if q ∈ c.parts then fateOf (CkptGen.fate (LoadPath.toGen p) (Cls.toGen c) (Part.toGen q)) else .lost

def Phase.ofGen : CkptGen.Phase → HeapCkpt.Phase
  | .readFile => .readFile | .buildNetworks => .buildNetworks | .setNetworks => .setNetworks | .hook => .hook
  | .loadWeights => .loadWeights | .loadDetached => .loadDetached | .buildOptimizers => .buildOptimizers
  | .loadOptState => .loadOptState | .setOptimizers => .setOptimizers | .setAttributes => .setAttributes
  | .newAgent => .newAgent | .setKey k => .setKey k | .ckptSet k => .ckptSet k | .ckptPop k => .ckptPop k
  | .check c => .check c | .selfCall m => .selfCall m | .agentLoad => .agentLoad | .buildWrapper => .buildWrapper
  | .setWrapperAttrs => .setWrapperAttrs | .other w => .other w

def Member.toGen (a : Member) : CkptGen.Attr :=
  ⟨a.routine, a.startsUnderscore, a.endsUnderscore, a.evolvable, a.tensorDict, a.ctorParam⟩

def MemberName.toGen : MemberName → CkptGen.AttrName
  | .generic => .generic | .accelerator => .accelerator | .lrScheduler => .lrScheduler
  | .networkInfo => .networkInfo | .agilerlVersion => .agilerlVersion

def AKind.toGen : AKind → CkptGen.AKind
  | .evolvable o => .evolvable (ObjCls.toGen o)
  | .member n a => .member (MemberName.toGen n) (Member.toGen a)

def Saved.ofGen : CkptGen.Saved → Saved
  | .byValue ps => .byValue (ps.map Part.ofGen)
  | .notSaved => .notSaved
  | .stateDictIfNotNone => .stateDictIfNotNone
  | .shadowed => .shadowed
  | .error c => .error c

def heldSource : CkptGen.Held → WSource
  | .val (.classOf "self") [] => .wrapperClass
  | .val (.attrs "self" true) ["agent"] => .wrapperCtorArgs
  | .val (.attrs "self" false) ["agent"] => .wrapperAttrs
  | .bulk (.ckptDict "self.agent") => .agentEntry
  | .absent => .absent
  | _ => .absent

/-- the rule writes at least one part by value -/
def savesByValue : CkptGen.Saved → Bool
  | .byValue (_ :: _) => true
  | _ => false

/-! ### saving -/

/-- `inspect_attributes` as translated = the model's filter -/
theorem gen_inspect_keep_eq (b : Bool) (a : Member) :
    CkptGen.inspect_keep b (Member.toGen a) = inspectKeep b a := by
  obtain ⟨r, s, e, ev, td, cp⟩ := a
  cases b <;> cases r <;> cases s <;> cases e <;> cases ev <;> cases td <;> cases cp <;> rfl

/-- THE RULE TABLE: which kind of attribute is saved by value (and which parts), which is not -/
theorem gen_ckptRule_eq (k : AKind) : Saved.ofGen (CkptGen.ckptRule (AKind.toGen k)) = ckptRule k := by
  cases k with
  | evolvable o => cases o with
    | moduleList c => cases c <;> decide
    | _ => decide
  | member n a =>
    obtain ⟨r, s, e, ev, td, cp⟩ := a
    cases n <;> cases r <;> cases s <;> cases e <;> cases ev <;> cases td <;> cases cp <;> decide

/-- what goes to `torch.save`: the dict of `get_checkpoint_dict(self)`, pickled by dill (by value) — for the agent
    and for the wrapper -/
theorem gen_save_checkpoint_eq :
    CkptGen.save_checkpoint_value = .ckptDict "self" ∧ CkptGen.save_checkpoint_pickle = "dill" ∧
    CkptGen.wrapper_save_pickle = "dill" := by decide

/-- the helpers whose contracts the prelude assumes still have the signatures it assumes -/
theorem gen_helper_signatures_eq :
    CkptGen.helper_signatures =
      [("get_detached_tensors", ["module"]), ("load_detached_tensors", ["module", "detached"]),
       ("remove_compile_prefix", ["state_dict"]), ("chkpt_attribute_to_device", ["chkpt_dict", "device"])] := by
  decide

/-! ### the load paths -/

/-- the in-place path `load_checkpoint`: every part of every attribute class has the model's fate -/
theorem gen_load_checkpoint_fate_eq (c : Cls) (q : Part) : genFate .inplace c q = fate .inplace c q := by
  cases c with
  | evolvable o => cases o with
    | moduleList b => cases b <;> cases q <;> decide +kernel
    | _ => cases q <;> decide +kernel
  | _ => cases q <;> decide +kernel

/-- the new-agent path `load` -/
theorem gen_load_fate_eq (c : Cls) (q : Part) : genFate .new c q = fate .new c q := by
  cases c with
  | evolvable o => cases o with
    | moduleList b => cases b <;> cases q <;> decide +kernel
    | _ => cases q <;> decide +kernel
  | _ => cases q <;> decide +kernel

/-- `AgentWrapper.load_checkpoint` (with the agent's in-place path spliced in) -/
theorem gen_wrapper_load_checkpoint_fate_eq (c : Cls) (q : Part) :
    genFate .wrapperInplace c q = fate .wrapperInplace c q := by
  cases c with
  | evolvable o => cases o with
    | moduleList b => cases b <;> cases q <;> decide +kernel
    | _ => cases q <;> decide +kernel
  | _ => cases q <;> decide +kernel

theorem gen_fate_eq : genFate = fate := by
  funext p c q
  cases p
  · exact gen_load_checkpoint_fate_eq c q
  · exact gen_load_fate_eq c q
  · exact gen_wrapper_load_checkpoint_fate_eq c q

/-- order of the phases of `load_checkpoint` -/
theorem gen_load_checkpoint_phases_eq :
    CkptGen.load_checkpoint_phases.map Phase.ofGen = loadCheckpointPhases := by decide +kernel

/-- order of the phases of `load` -/
theorem gen_load_phases_eq : CkptGen.load_phases.map Phase.ofGen = loadPhases := by decide +kernel

/-- order of the phases of `AgentWrapper.load_checkpoint`: the agent first, then the wrapper's attributes -/
theorem gen_wrapper_load_checkpoint_phases_eq :
    CkptGen.wrapper_load_checkpoint_phases.map Phase.ofGen = wrapperLoadCheckpointPhases := by decide +kernel

/-- WRAPPER MERGE ORDER on saving: for the keys the code mentions and for a generic key (""), whether or not the
    inner agent has an attribute of that name, the file holds what the model says -/
theorem gen_wrapper_merge_eq (agentHas : Bool) :
    ∀ k ∈ ["wrapper_cls", "wrapper_init_dict", "wrapper_attrs", "learn", "get_action", "network_info", "registry", ""],
      heldSource (CkptGen.wrapper_file agentHas k) = wrapperFile agentHas k := by
  cases agentHas <;> decide +kernel

/-! ### from the table to the model's `Spec` -/

theorem specOf_saved (f : Cls → Part → Fate) (junk : Nat → Nat → Nat) (lay : Layout)
    (h : ∀ cp ∈ lay, ∀ q ∈ cp.2, f cp.1 q = .saved) : specOf f junk lay = [] := by
  unfold specOf
  rw [List.flatten_eq_nil_iff]
  intro l hl
  rw [List.mem_mapIdx] at hl
  obtain ⟨k, hk, rfl⟩ := hl
  rw [List.flatten_eq_nil_iff]
  intro l' hl'
  rw [List.mem_mapIdx] at hl'
  obtain ⟨c, hc, rfl⟩ := hl'
  rw [if_pos (h _ (List.getElem_mem hk) _ (List.getElem_mem hc))]

theorem fate_saved_of_savable (p : LoadPath) (lay : Layout) (h : lay.Savable p) :
    ∀ cp ∈ lay, ∀ q ∈ cp.2, fate p cp.1 q = .saved := by
  intro cp hcp q hq
  obtain ⟨h1, h2, h3, h4⟩ := h cp hcp
  have hm := h4 q hq
  obtain ⟨c, ps⟩ := cp
  simp only at h1 h2 h3 hm ⊢
  unfold fate
  rw [if_pos hm]
  cases c with
  | evolvable o => cases o <;> first | rfl | exact absurd rfl h3
  | plain => rfl
  | subRef => exact absurd rfl h1
  | wrapperAttr =>
    have := h2 rfl
    cases p <;> first | rfl | exact absurd rfl this

/-- with the GENERATED table no cell of a savable layout is an exception: the spec is empty -/
theorem gen_spec_eq (p : LoadPath) (junk : Nat → Nat → Nat) (lay : Layout) (h : lay.Savable p) :
    specOf (genFate p) junk lay = [] := by
  rw [gen_fate_eq]
  exact specOf_saved _ junk lay (fate_saved_of_savable p lay h)

end CkptGenEq
