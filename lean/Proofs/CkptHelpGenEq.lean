import Gen.CkptHelpGen
import Model.HeapCkpt

/-!
  Proofs/CkptHelpGenEq.lean — the checkpoint HELPERS generated from the source text of
  `agilerl/utils/algo_utils.py` (`Gen/CkptHelpGen.lean`, by harness/py2lean_ckpthelp.py) are equal, for all inputs, to
  the hand-written model (`Model/HeapCkpt.lean`, namespace `HeapCkpt.Mod`): `gen_get_detached_tensors_eq`,
  `gen_load_detached_tensors_eq`, `gen_remove_compile_prefix_eq` — plus the lemmas about the model that
  `Props/C07.lean` uses: `rpartition_dotKey` / `dotKey_inj` (dotted names), `tensorAt_treeCopy` (a write changes
  exactly its location), `loop_spec` (the loop of `load_detached_tensors`), `getDetached_eq` (what
  `get_detached_tensors` collects), `removeCompilePrefix_compiled / _plain`.
-/
namespace CkptHelpGenEq
open HeapCkpt HeapCkpt.Mod

theorem gen_get_detached_tensors_eq (m : Obj) : CkptHelpGen.get_detached_tensors m = getDetached m := rfl

theorem except_eta {ε α} (x : Except ε α) :
    (match x with | .error e => Except.error e | .ok r => Except.ok r) = x := by cases x <;> rfl

theorem gen_load_detached_tensors_eq (m : Obj) (d : Option (Dict Val)) :
    CkptHelpGen.load_detached_tensors m d = loadDetached m d := by
  show (if (!pyOptDictTruthy d) = true then Except.ok m else
      match List.foldlM (m := Except Exn) loadDetachedStep (if m.1 = true then pyOrigMod m else m) (d.getD []) with
      | .error e => Except.error e
      | .ok r => Except.ok r) = _
  unfold loadDetached
  split
  · rfl
  · generalize List.foldlM (m := Except Exn) loadDetachedStep _ _ = x
    cases x <;> rfl

theorem gen_remove_compile_prefix_eq {α : Type} (sd : Dict α) :
    CkptHelpGen.remove_compile_prefix sd = removeCompilePrefix sd := rfl


/-! ### strings -/

theorem takeWhile_all (l : List Char) (c : Char) (h : ∀ x ∈ l, x ≠ c) : l.takeWhile (· != c) = l := by
  induction l with
  | nil => rfl
  | cons a r ih =>
    have ha : a ≠ c := h a (by simp)
    simp only [List.takeWhile_cons, bne_iff_ne, ne_eq, ha, not_false_eq_true, if_true]
    rw [ih (fun x hx => h x (by simp [hx]))]

theorem dropWhile_all (l : List Char) (c : Char) (h : ∀ x ∈ l, x ≠ c) : l.dropWhile (· != c) = [] := by
  induction l with
  | nil => rfl
  | cons a r ih =>
    have ha : a ≠ c := h a (by simp)
    simp only [List.dropWhile_cons, bne_iff_ne, ne_eq, ha, not_false_eq_true, if_true]
    exact ih (fun x hx => h x (by simp [hx]))

theorem takeWhile_sep (l r : List Char) (c : Char) (h : ∀ x ∈ l, x ≠ c) : (l ++ c :: r).takeWhile (· != c) = l := by
  rw [List.takeWhile_append_of_pos (by intro a ha; simpa using h a ha)]
  simp

theorem dropWhile_sep (l r : List Char) (c : Char) (h : ∀ x ∈ l, x ≠ c) : (l ++ c :: r).dropWhile (· != c) = c :: r := by
  rw [List.dropWhile_append_of_pos (by intro a ha; simpa using h a ha)]
  simp

/-- `key.rpartition(".")` recovers (prefix, name) from `f"{prefix}.{name}" if prefix else name` when the attribute name
    has no dot -/
theorem rpartition_dotKey (p n : Name) (hn : ∀ x ∈ n, x ≠ '.') :
    (pyRpartition (dotKey p n) '.').1 = p ∧ (pyRpartition (dotKey p n) '.').2.2 = n := by
  have hr : ∀ x ∈ n.reverse, x ≠ '.' := fun x hx => hn x (by simpa using hx)
  unfold pyRpartition dotKey
  cases p with
  | nil =>
    simp only [List.isEmpty_nil, if_true]
    rw [dropWhile_all _ _ hr]
    exact ⟨rfl, rfl⟩
  | cons a q =>
    simp only [List.isEmpty_cons, Bool.false_eq_true, if_false]
    have e : ((a :: q) ++ '.' :: n).reverse = n.reverse ++ '.' :: (a :: q).reverse := by
      simp [List.reverse_append, List.reverse_cons]
    rw [e, dropWhile_sep _ _ _ hr, takeWhile_sep _ _ _ hr]
    simp

theorem dotKey_inj (p n p' n' : Name) (hn : ∀ x ∈ n, x ≠ '.') (hn' : ∀ x ∈ n', x ≠ '.')
    (h : dotKey p n = dotKey p' n') : p = p' ∧ n = n' := by
  have h1 := rpartition_dotKey p n hn
  have h2 := rpartition_dotKey p' n' hn'
  rw [h] at h1
  exact ⟨h1.1.symm.trans h2.1, h1.2.symm.trans h2.2⟩

/-! ### association lists -/

theorem lookup_map_upd {β} (l : List (Name × β)) (k k' : Name) (g : β → β) :
    (l.map fun e => if e.1 == k then (e.1, g e.2) else e).lookup k' =
      if k' == k then (l.lookup k').map g else l.lookup k' := by
  induction l with
  | nil => simp
  | cons e rest ih =>
    obtain ⟨a, b⟩ := e
    simp only [List.map_cons, List.lookup_cons]
    by_cases h1 : a = k
    · by_cases h2 : k' = a
      · subst h1; subst h2; simp
      · subst h1
        have : (k' == a) = false := by simpa using h2
        simp only [beq_self_eq_true, if_true, List.lookup_cons, this]
        simpa [this] using ih
    · have h1' : (a == k) = false := by simpa using h1
      simp only [h1', Bool.false_eq_true, if_false, List.lookup_cons]
      by_cases h2 : k' = a
      · subst h2
        have : (k' == k) = false := by simpa using h1
        simp [this]
      · have : (k' == a) = false := by simpa using h2
        simp only [this]
        exact ih

theorem getattr_subCopy (s : Sub) (n n' : Name) (v : Tensor) :
    pyGetattr (subCopy s n v) n' = if n' == n then (pyGetattr s n').map (fun _ => v) else pyGetattr s n' := by
  unfold subCopy
  cases h : s.2.lookup n with
  | none =>
    simp only [pyGetattr]
    have := lookup_map_upd s.1 n n' (fun _ => v)
    by_cases hn : n' = n
    · subst hn
      simp only [h, beq_self_eq_true, if_true] at this ⊢
      exact this
    · have hb : (n' == n) = false := by simpa using hn
      simp only [hb, Bool.false_eq_true, if_false] at this ⊢
      rw [this]
  | some x =>
    simp only [pyGetattr]
    have := lookup_map_upd s.2 n n' (fun val => val.map fun _ => v)
    by_cases hn : n' = n
    · subst hn
      simp only [h, beq_self_eq_true, if_true] at this ⊢
      rw [this]; rfl
    · have hb : (n' == n) = false := by simpa using hn
      simp only [hb, Bool.false_eq_true, if_false] at this ⊢
      rw [this]

theorem tensorAt_treeCopy (t : Tree) (p n p' n' : Name) (v : Tensor) :
    tensorAt (treeCopy t p n v) p' n' =
      if p' == p && n' == n then (tensorAt t p' n').map (fun _ => v) else tensorAt t p' n' := by
  unfold tensorAt treeCopy
  have := lookup_map_upd t p p' (fun s => subCopy s n v)
  rw [this]
  by_cases hp : p' = p
  · subst hp
    simp only [beq_self_eq_true, if_true, Bool.true_and]
    cases t.lookup p' with
    | none => simp
    | some s => simp only [Option.map_some]; exact getattr_subCopy s n n' v
  · have hb : (p' == p) = false := by simpa using hp
    simp [hb]


/-! ### `load_detached_tensors` -/

theorem foldlM_step_cons (m : Obj) (kv : Name × Val) (rest : List (Name × Val)) :
    List.foldlM (m := Except Exn) loadDetachedStep m (kv :: rest) =
      match loadDetachedStep m kv with
      | .error e => .error e
      | .ok m' => List.foldlM (m := Except Exn) loadDetachedStep m' rest := by
  rw [List.foldlM_cons]
  cases loadDetachedStep m kv <;> rfl

/-- one iteration whose target exists with the saved shape writes the saved tensor there -/
theorem step_hit (t : Tree) (p n : Name) (hn : ∀ x ∈ n, x ≠ '.') (v cur : Tensor)
    (hcur : tensorAt t p n = some cur) (hs : cur.1 = v.1) :
    loadDetachedStep (false, t) (dotKey p n, some v) = .ok (false, treeCopy t p n v) := by
  obtain ⟨h1, h2⟩ := rpartition_dotKey p n hn
  unfold loadDetachedStep
  simp only [h1, h2]
  unfold tensorAt at hcur
  unfold pyGetSubmodule pyNamedModules
  simp only [Bool.false_eq_true, if_false]
  cases hl : t.lookup p with
  | none => rw [hl] at hcur; cases hcur
  | some s =>
    rw [hl] at hcur
    simp only [hcur, pyIsTensor, pyShape, Option.isSome_some, Option.map_some, hs, beq_self_eq_true, Bool.and_self,
      if_true, pyCopyInto, Bool.false_eq_true, if_false]

/-- THE LOOP: distinct locations, every target present with the saved shape ⇒ no raise, every location holds the saved
    tensor, every other location is untouched, shapes never change -/
theorem loop_spec (L : List ((Name × Name) × Tensor)) :
    ∀ (t : Tree), (∀ x ∈ L, ∀ c ∈ x.1.2, c ≠ '.') → (L.map (·.1)).Nodup →
      (∀ x ∈ L, ∃ cur, tensorAt t x.1.1 x.1.2 = some cur ∧ cur.1 = x.2.1) →
      ∃ r, List.foldlM (m := Except Exn) loadDetachedStep (false, t) (L.map entryOf) = .ok (false, r) ∧
        (∀ x ∈ L, tensorAt r x.1.1 x.1.2 = some x.2) ∧
        (∀ p n, (p, n) ∉ L.map (·.1) → tensorAt r p n = tensorAt t p n) ∧
        (∀ p n, (tensorAt r p n).map (·.1) = (tensorAt t p n).map (·.1)) := by
  induction L with
  | nil => intro t _ _ _; exact ⟨t, rfl, by simp, fun _ _ _ => rfl, fun _ _ => rfl⟩
  | cons x rest ih =>
    intro t hdot hnd htgt
    obtain ⟨⟨p, n⟩, v⟩ := x
    obtain ⟨cur, hcur, hs⟩ := htgt ((p, n), v) (by simp)
    have hn : ∀ c ∈ n, c ≠ '.' := hdot ((p, n), v) (by simp)
    simp only [List.map_cons, List.nodup_cons] at hnd
    obtain ⟨hnotin, hnd'⟩ := hnd
    have hstep := step_hit t p n hn v cur hcur hs
    have hat := tensorAt_treeCopy t p n
    -- targets of the rest are untouched by the first write
    have htgt' : ∀ y ∈ rest, ∃ c, tensorAt (treeCopy t p n v) y.1.1 y.1.2 = some c ∧ c.1 = y.2.1 := by
      intro y hy
      obtain ⟨c, hc, hcs⟩ := htgt y (by simp [hy])
      refine ⟨c, ?_, hcs⟩
      rw [hat]
      have hne : ¬ (y.1.1 = p ∧ y.1.2 = n) := by
        intro ⟨e1, e2⟩
        apply hnotin
        have : y.1 = (p, n) := by rw [← e1, ← e2]
        rw [← this]; exact List.mem_map_of_mem hy
      have : (y.1.1 == p && y.1.2 == n) = false := by
        cases h1 : (y.1.1 == p) <;> cases h2 : (y.1.2 == n) <;> simp_all
      simp only [this, Bool.false_eq_true, if_false]; exact hc
    obtain ⟨r, hr, hall, hframe, hshape⟩ :=
      ih (treeCopy t p n v) (fun y hy => hdot y (by simp [hy])) hnd' htgt'
    refine ⟨r, ?_, ?_, ?_, ?_⟩
    · show List.foldlM (m := Except Exn) loadDetachedStep (false, t) (entryOf ((p, n), v) :: rest.map entryOf) = _
      rw [foldlM_step_cons]
      show (match loadDetachedStep (false, t) (dotKey p n, some v) with | .error e => _ | .ok m' => _) = _
      rw [hstep]
      exact hr
    · intro y hy
      simp only [List.mem_cons] at hy
      rcases hy with rfl | hy
      · show tensorAt r p n = some v
        rw [hframe p n hnotin, hat]
        simp [hcur]
      · exact hall y hy
    · intro p' n' hnot
      simp only [List.map_cons, List.mem_cons, not_or] at hnot
      rw [hframe p' n' hnot.2, hat]
      have : (p' == p && n' == n) = false := by
        have : ¬ (p' = p ∧ n' = n) := fun ⟨a, b⟩ => hnot.1 (by rw [a, b])
        cases h1 : (p' == p) <;> cases h2 : (n' == n) <;> simp_all
      simp [this]
    · intro p' n'
      rw [hshape p' n', hat]
      by_cases hh : (p' == p && n' == n) = true
      · simp only [hh, if_true]
        simp only [Bool.and_eq_true, beq_iff_eq] at hh
        obtain ⟨rfl, rfl⟩ := hh
        simp [hcur, hs]
      · simp [hh]

/-! ### `get_detached_tensors` -/

theorem foldl_dictSet_nodup {α} (l : List (Name × α)) :
    ∀ d : Dict α, ((d ++ l).map (·.1)).Nodup → l.foldl (fun d e => pyDictSet d e.1 e.2) d = d ++ l := by
  induction l with
  | nil => intro d _; simp
  | cons e rest ih =>
    intro d hnd
    have hnot : d.any (·.1 == e.1) = false := by
      rw [List.map_append, List.map_cons] at hnd
      have := (List.nodup_append.mp hnd).2.2
      cases h : d.any (·.1 == e.1) with
      | false => rfl
      | true =>
        exfalso
        obtain ⟨x, hx, hxe⟩ := List.any_eq_true.mp h
        exact this x.1 (List.mem_map_of_mem hx) e.1 (by simp) (by simpa using hxe)
    have hset : pyDictSet d e.1 e.2 = d ++ [e] := by simp [pyDictSet, hnot]
    simp only [List.foldl_cons, hset]
    rw [ih (d ++ [e]) (by simpa using hnd)]
    simp

theorem inner_fold (pfx : Name) (vars : List (Name × Val)) :
    ∀ d : Dict Val,
      vars.foldl (fun d nv =>
        if (pyIsTensor nv.2 && !(pyStartsWith nv.1 ['_'])) = true then
          pyDictSet d (if pyTruthy pfx = true then pfx ++ ['.'] ++ nv.1 else nv.1) nv.2
        else d) d =
      (vars.filterMap fun nv =>
        if pyIsTensor nv.2 && !(pyStartsWith nv.1 ['_']) then some (dotKey pfx nv.1, nv.2) else none).foldl
        (fun d e => pyDictSet d e.1 e.2) d := by
  have hk : ∀ n, (if pyTruthy pfx = true then pfx ++ ['.'] ++ n else n) = dotKey pfx n := by
    intro n
    unfold pyTruthy dotKey
    cases pfx <;> simp
  simp only [hk]
  induction vars with
  | nil => intro d; rfl
  | cons nv rest ih =>
    intro d
    simp only [List.foldl_cons, List.filterMap_cons]
    by_cases hc : (pyIsTensor nv.2 && !(pyStartsWith nv.1 ['_'])) = true
    · simp only [hc, if_true, List.foldl_cons]; exact ih _
    · simp only [hc, Bool.false_eq_true, if_false]; exact ih _

/-- **what `get_detached_tensors` collects**: exactly the public tensor attributes of `vars()` of every sub-module the
    module lists (every nesting depth), under their dotted names, in module / attribute order — compiled or not -/
theorem getDetached_eq (b : Bool) (t : Tree) (hnd : ((publicEntries t).map (·.1)).Nodup) :
    getDetached (b, t) = publicEntries t := by
  have hmod : pyNamedModules (if (b, t).1 = true then pyOrigMod (b, t) else (b, t)) = t := by
    cases b <;> simp [pyNamedModules, pyOrigMod]
  unfold getDetached
  simp only [hmod]
  have : ∀ (d : Dict Val),
      t.foldl (fun detached ps => ps.2.2.foldl (fun detached nv =>
        if (pyIsTensor nv.2 && !(pyStartsWith nv.1 ['_'])) = true then
          pyDictSet detached (if pyTruthy ps.1 = true then ps.1 ++ ['.'] ++ nv.1 else nv.1) nv.2
        else detached) detached) d =
      (publicEntries t).foldl (fun d e => pyDictSet d e.1 e.2) d := by
    unfold publicEntries
    induction t with
    | nil => intro d; rfl
    | cons ps rest ih =>
      intro d
      simp only [List.foldl_cons, List.flatMap_cons, List.foldl_append]
      rw [inner_fold]
      have hnd' : ((publicEntries rest).map (·.1)).Nodup := by
        unfold publicEntries at hnd ⊢
        simp only [List.flatMap_cons, List.map_append] at hnd
        exact (List.nodup_append.mp hnd).2.1
      exact ih hnd' (by cases b <;> simp [pyNamedModules, pyOrigMod]) _
  rw [this []]
  simpa using foldl_dictSet_nodup (publicEntries t) [] (by simpa using hnd)

theorem publicEntries_eq_locs (t : Tree) : publicEntries t = (publicLocs t).map entryOf := by
  unfold publicEntries publicLocs
  rw [List.map_flatMap]
  congr 1
  funext ps
  rw [List.map_filterMap]
  congr 1
  funext nv
  cases h : nv.2 with
  | none => simp [pyIsTensor]
  | some tv => cases h2 : pyStartsWith nv.1 ['_'] <;> simp [pyIsTensor, entryOf]


/-! ### `remove_compile_prefix` -/

theorem mapM_ok {α β : Type} (f : α → Except Exn β) (g : α → β) (l : List α) (h : ∀ e ∈ l, f e = .ok (g e)) :
    List.mapM (m := Except Exn) f l = .ok (l.map g) := by
  induction l with
  | nil => rfl
  | cons a r ih =>
    rw [List.mapM_cons, h a (by simp), ih (fun e he => h e (by simp [he]))]
    rfl

/-- every key under the compile prefix loses exactly `_orig_mod.` -/
theorem removeCompilePrefix_compiled {α : Type} (sd : Dict α) :
    removeCompilePrefix (sd.map fun e => (origMod ++ '.' :: e.1, e.2)) = .ok (pyDictOf sd) := by
  unfold removeCompilePrefix
  rw [mapM_ok _ (fun e => ((e.1.drop 10), e.2))]
  · simp only [List.map_map]
    congr 2
    have : ((fun e : Name × α => (List.drop 10 e.1, e.2)) ∘ fun e => (origMod ++ '.' :: e.1, e.2)) = id := by
      funext e; rfl
    rw [this]; simp
  · intro e he
    obtain ⟨x, _, rfl⟩ := List.mem_map.mp he
    rfl

/-- keys that do not start with `_orig_mod` are kept -/
theorem removeCompilePrefix_plain {α : Type} (sd : Dict α) (h : ∀ e ∈ sd, pyStartsWith e.1 origMod = false) :
    removeCompilePrefix sd = .ok (pyDictOf sd) := by
  unfold removeCompilePrefix
  rw [mapM_ok _ id]
  · simp
  · intro e he
    have := h e he
    unfold origMod at this
    simp [this]

theorem pyDictOf_nodup {α : Type} (sd : Dict α) (h : (sd.map (·.1)).Nodup) : pyDictOf sd = sd := by
  unfold pyDictOf
  simpa using foldl_dictSet_nodup sd [] (by simpa using h)


end CkptHelpGenEq
