import Model.Heap
import Gen.CloneGen

/-!
# `Gen/CloneGen.lean` (generated from the source text of `EvolvableAlgorithm.{inspect_attributes,
  copy_attributes, clone}` and `AgentWrapper.clone`) = the explicit clone semantics of `Model/Heap.lean`

1. model consistency: the compact rule table `ruleOf` that the driver uses IS what the semantics `deriveRule`
   derives from the model's phase list `clonePhases` and decision table `copyAction`
   (`ruleOf_eq_derive`, `derive_faithful`, `wrapper_rule`);
2. type bridges between the generated file's own types and the model's (`clsOf`, `actionOf`, `shareOf`, `semOf`);
3. `gen_*_eq`: the generated decision function, loop domain, listing predicate and phase lists equal the model's;
4. the rule table obtained by running the model's semantics on the GENERATED data (`genRule?`, `genRules`)
   equals `ruleOf false` (`gen_rule_eq`, `gen_rules_eq`).
-/
namespace Heap

/-! ## 1. the model's rule table is derived from its phases and its copy table -/

/-- hypothesis `h`: no registered hook re-binds a constructor argument (bandits: `sigma_inv`, `theta_0` are not
    constructor arguments; DQN's hook touches the target network only) -/
theorem ruleOf_eq_derive (optByRef : Bool) (a : AttrSpec) (hw eq : Bool) (h : a.ctorArg = true → hw = false) :
    deriveRule (clonePhases optByRef) copyAction a hw eq = ruleOf optByRef a := by
  obtain ⟨k, c⟩ := a
  cases k <;> cases c <;> cases hw <;> cases eq <;> cases optByRef <;> first | rfl | simp at h

/-- every attribute but a callable ends up holding the parent's values (the parent's online network for a
    re-synchronised target), whatever the hooks re-bind and whatever the constructor's defaults are -/
theorem derive_faithful (optByRef : Bool) (a : AttrSpec) (hw eq : Bool) (hk : a.kind ≠ .callable) :
    deriveFaithful (clonePhases optByRef) copyAction a hw eq = true := by
  obtain ⟨k, c⟩ := a
  cases k <;> cases c <;> cases hw <;> cases eq <;> cases optByRef <;> first | rfl | simp at hk

/-- the attributes of a wrapper object follow the same table -/
theorem wrapper_rule (a : AttrSpec) (eq : Bool) (hk : a.kind.evolvable = false) :
    deriveRule wrapperPhases copyAction a false eq = ruleOf false a := by
  obtain ⟨k, c⟩ := a
  cases k <;> cases c <;> cases eq <;> first | rfl | simp [Kind.evolvable] at hk

theorem wrapper_faithful (a : AttrSpec) (eq : Bool) (hk : a.kind.evolvable = false) (hc : a.kind ≠ .callable) :
    deriveFaithful wrapperPhases copyAction a false eq = true := by
  obtain ⟨k, c⟩ := a
  cases k <;> cases c <;> cases eq <;> first | rfl | (exact absurd rfl hc) | simp [Kind.evolvable] at hk

/-! ## 2. bridges -/

/-- the Python class behind a model kind (an immutable value is an object of none of the tested classes; the
    evolvable kinds are never listed by `inspect_attributes`) -/
def clsOf : Kind → Option CloneGen.Cls
  | .callable => some .callable
  | .tensor => some .tensor
  | .ndarray => some .ndarray
  | .list => some .list
  | .registry => some .registry
  | .other => some .other
  | .immutable => some .other
  | .network | .optimizer | .target _ => none

def actionOf : CloneGen.Action → Option Action
  | .skip => some .skip
  | .keepOwn => some .keepOwn
  | .freshDeep => some .freshDeep
  | .freshPerElement => some .freshPerElement
  | .byRef => some .byRef
  | .invalid => none

def shareOf : CloneGen.Share → Option Share
  | .fresh => some .fresh
  | .parent => some .byRef
  | .own => none

/-- `none`: an effect the model has no phase for; `some none`: no effect on the heap -/
def semOf : CloneGen.Sem → Option (Option Phase)
  | .construct a => (shareOf a).map fun s => some (.construct s)
  | .modules s l =>
    match shareOf s, shareOf l with
    | some s, some l => some (some (.modules s l))
    | _, _ => none
  | .hook => some (some .hook)
  | .optimizers c st => (shareOf st).map fun s => some (.optimizers (if c then .cloned else .parents) s)
  | .copyAttrs => some (some .copyAttrs)
  | .index => some (some .index)
  | .identity => some none
  | .unknown => none

def phasesOf (l : List CloneGen.Sem) : Option (List Phase) := (l.mapM semOf).map (·.filterMap id)

/-! ## 3. generated = model -/

/-- the decision function generated from the if-chain of `copy_attributes` is the model's table, kind by kind -/
theorem gen_copyRule_eq (k : Kind) (c : CloneGen.Cls) (eq : Bool) (h : clsOf k = some c) :
    actionOf (CloneGen.copyRule c eq) = some (copyAction k eq) := by
  cases k <;> cases eq <;> simp only [clsOf, Option.some.injEq, reduceCtorEq] at h <;> subst h <;> rfl

/-- an attribute the clone's constructor did not create is deep-copied, whatever its class -/
theorem gen_copyAbsent_eq (c : CloneGen.Cls) (eq : Bool) : actionOf (CloneGen.copyAbsent c eq) = some copyAbsent := by
  cases c <;> cases eq <;> rfl

/-- the loop of `copy_attributes` runs over ALL listed attributes of the parent and returns the clone -/
theorem gen_copyAttr_domain_eq : CloneGen.copyAttrDomain = (.self, false) ∧ CloneGen.copyAttrReturns = .clone := by
  decide

/-- which members `inspect_attributes` lists -/
theorem gen_inspectListed_eq (b : Bool) (m : CloneGen.Member) :
    CloneGen.inspectListed b m =
      inspectListed b m.routine m.evolvable m.tensorDict m.leadingUnderscore m.trailingUnderscore m.ctorParam := by
  obtain ⟨r, e, t, l, tr, c⟩ := m
  cases b <;> cases r <;> cases e <;> cases t <;> cases l <;> cases tr <;> cases c <;> rfl

/-- the values `inspect_attributes` hands out are the parent's own objects (constructor arguments are passed by
    reference) -/
theorem gen_inspectValue_eq (b : Bool) : shareOf (CloneGen.inspectValue b).share = some Share.byRef := by
  cases b <;> rfl

/-- the phases of `clone`, in source order, are the model's (repaired optimizer handling) -/
theorem gen_clonePhases_eq : phasesOf CloneGen.cloneSem = some (clonePhases false) := by
  decide

/-- the phases of `AgentWrapper.clone` are the model's -/
theorem gen_wrapperPhases_eq : phasesOf CloneGen.wrapperCloneSem = some wrapperPhases := by
  decide

/-! ## 4. the rule table obtained from the generated data -/

/-- the generated decision table over model kinds (`byRef`, the worst case, where the generated action is
    `invalid`; the evolvable kinds are never looked up) -/
def genCopy (k : Kind) (eq : Bool) : Action :=
  match clsOf k with
  | some c => (actionOf (CloneGen.copyRule c eq)).getD .byRef
  | none => .skip

theorem gen_copy_eq : genCopy = copyAction := by
  funext k eq
  cases k <;> cases eq <;> rfl

/-- the rule of an attribute, obtained by running the model's semantics on the generated phase list and the
    generated decision table; `none` if a phase is not understood -/
def genRule? (a : AttrSpec) (hookWrites eq : Bool) : Option Rule :=
  (phasesOf CloneGen.cloneSem).map fun ps => deriveRule ps genCopy a hookWrites eq

def genFaithful? (a : AttrSpec) (hookWrites eq : Bool) : Option Bool :=
  (phasesOf CloneGen.cloneSem).map fun ps => deriveFaithful ps genCopy a hookWrites eq

def genWrapperRule? (a : AttrSpec) (eq : Bool) : Option Rule :=
  (phasesOf CloneGen.wrapperCloneSem).map fun ps => deriveRule ps genCopy a false eq

def genWrapperFaithful? (a : AttrSpec) (eq : Bool) : Option Bool :=
  (phasesOf CloneGen.wrapperCloneSem).map fun ps => deriveFaithful ps genCopy a false eq

/-- the rule table for a list of attributes, each with its two unknowns (`hookWrites`, `eq`) -/
def genRules (specs : List (AttrSpec × Bool × Bool)) : Option (List Rule) :=
  specs.mapM fun x => genRule? x.1 x.2.1 x.2.2

theorem gen_rule_eq (a : AttrSpec) (hw eq : Bool) (h : a.ctorArg = true → hw = false) :
    genRule? a hw eq = some (ruleOf false a) := by
  simp only [genRule?, gen_clonePhases_eq, gen_copy_eq, Option.map_some, ruleOf_eq_derive false a hw eq h]

theorem gen_faithful_eq (a : AttrSpec) (hw eq : Bool) (hk : a.kind ≠ .callable) :
    genFaithful? a hw eq = some true := by
  simp only [genFaithful?, gen_clonePhases_eq, gen_copy_eq, Option.map_some, derive_faithful false a hw eq hk]

theorem gen_wrapper_rule_eq (a : AttrSpec) (eq : Bool) (hk : a.kind.evolvable = false) :
    genWrapperRule? a eq = some (ruleOf false a) := by
  simp only [genWrapperRule?, gen_wrapperPhases_eq, gen_copy_eq, Option.map_some, wrapper_rule a eq hk]

theorem gen_wrapper_faithful_eq (a : AttrSpec) (eq : Bool) (hk : a.kind.evolvable = false) (hc : a.kind ≠ .callable) :
    genWrapperFaithful? a eq = some true := by
  simp only [genWrapperFaithful?, gen_wrapperPhases_eq, gen_copy_eq, Option.map_some, wrapper_faithful a eq hk hc]

theorem gen_rules_eq (specs : List (AttrSpec × Bool × Bool))
    (h : ∀ x ∈ specs, x.1.ctorArg = true → x.2.1 = false) :
    genRules specs = some (specs.map fun x => ruleOf false x.1) := by
  unfold genRules
  induction specs with
  | nil => rfl
  | cons x xs ih =>
    have hx := gen_rule_eq x.1 x.2.1 x.2.2 (h x (List.mem_cons_self ..))
    have hxs := ih (fun y hy => h y (List.mem_cons_of_mem _ hy))
    simp only [List.mapM_cons, hx, hxs, List.map_cons]
    rfl

/-- the kinds of attribute `clone` deliberately passes by reference -/
def ByRefSpec (a : AttrSpec) : Prop :=
  a.ctorArg = true ∧ (a.kind = Kind.tensor ∨ a.kind = Kind.ndarray ∨ a.kind = Kind.other ∨ a.kind = Kind.callable)

theorem ruleOf_byRef_iff (a : AttrSpec) : ruleOf false a = Rule.byRef ↔ ByRefSpec a := by
  obtain ⟨kind, ctor⟩ := a
  cases kind <;> cases ctor <;> simp [ruleOf, ByRefSpec]

/-- hypothesis of the generated table: no registered hook re-binds a constructor argument -/
def HooksSpareCtorArgs (specs : List (AttrSpec × Bool × Bool)) : Prop :=
  ∀ x ∈ specs, x.1.ctorArg = true → x.2.1 = false

theorem genRules_getElem? {specs : List (AttrSpec × Bool × Bool)} {rules : List Rule}
    (hs : HooksSpareCtorArgs specs) (hg : genRules specs = some rules) (k : Nat) :
    rules[k]? = (specs[k]?).map fun x => ruleOf false x.1 := by
  rw [gen_rules_eq specs hs] at hg
  cases hg
  simp [List.getElem?_map]

theorem genRules_private {specs : List (AttrSpec × Bool × Bool)} {rules : List Rule}
    (hs : HooksSpareCtorArgs specs) (hg : genRules specs = some rules) (k : Nat)
    (hpriv : ∀ x, specs[k]? = some x → ¬ ByRefSpec x.1) : rules[k]? ≠ some Rule.byRef := by
  rw [genRules_getElem? hs hg k]
  cases hx : specs[k]? with
  | none => simp
  | some x =>
    simp only [Option.map_some, ne_eq, Option.some.injEq]
    intro h
    exact hpriv x hx ((ruleOf_byRef_iff x.1).mp h)

/-- the hypotheses are met by a concrete attribute list (a DQN-like agent: two networks, the second a target
    re-synchronised with the first, an optimizer, score list, registry, net_config passed to the constructor,
    a loss object, a counter, a tensor that a hook re-binds) and the generated table is the expected one -/
example :
    genRules [(⟨.network, false⟩, false, false), (⟨.target 0, false⟩, false, false), (⟨.optimizer, false⟩, false, true),
              (⟨.list, false⟩, false, true), (⟨.registry, false⟩, false, false), (⟨.other, true⟩, false, true),
              (⟨.callable, false⟩, false, false), (⟨.immutable, false⟩, false, false), (⟨.tensor, false⟩, true, false)]
      = some [.fresh, .resync 0, .fresh, .fresh, .fresh, .byRef, .fresh, .fresh, .fresh] := by
  decide

end Heap
