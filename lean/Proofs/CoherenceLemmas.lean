import Model.Coherence

/-!
  Proofs/CoherenceLemmas.lean — basic facts about the wiring model of C02: the coherence
  predicates, frame lemmas for optimizers, and what the mutation hook does to parameters.
-/
namespace Coherence

/-! ### predicates -/

/-- optimizer `o` steps exactly the current parameters of its registered networks, group by group
    and in order, with the agent's current learning rate -/
def OptCoherent (nets : List NetAttr) (lrs : List Rat) (o : Opt) : Prop :=
  o.groups.map (·.cells) = expected nets o ∧ ∀ g ∈ o.groups, g.lr = lrs.getD o.lr 0

/-- every shared network has the architecture of the evaluation network it shadows -/
def SharedArch (nets : List NetAttr) : Prop :=
  ∀ (k : Nat) (n : NetAttr) (src : Nat), nets[k]? = some n → n.role = Role.shared src →
    ∃ e, nets[src]? = some e ∧ n.mods.map (·.arch) = e.mods.map (·.arch)

/-- right after a mutation the shared networks also hold the weights of what they shadow -/
def SharedWeights (nets : List NetAttr) : Prop :=
  ∀ (k : Nat) (n : NetAttr) (src : Nat), nets[k]? = some n → n.role = Role.shared src →
    ∃ e, nets[src]? = some e ∧
      n.mods.map (fun m => (m.wEnc, m.wHead)) = e.mods.map (fun m => (m.wEnc, m.wHead))

def Coherent (a : Agent) : Prop :=
  (∀ o ∈ a.opts, OptCoherent a.nets a.lrs o) ∧ SharedArch a.nets

/-- evaluation networks carry exactly the detachment the agent's hook installs -/
def DetExact (nets : List NetAttr) (h : Hook) : Prop :=
  ∀ (k : Nat) (n : NetAttr), nets[k]? = some n → n.role.isEval = true → ∀ m ∈ n.mods, m.det = h.det k

def roles (nets : List NetAttr) : List Role := nets.map (·.role)

def evalAt (rs : List Role) (k : Nat) : Prop := ∃ b, rs[k]? = some (Role.eval b)

/-- the part of an agent no operation changes -/
def desc (a : Agent) : List Role × List (List Nat) × Hook × Bool :=
  (roles a.nets, a.opts.map (·.nets), a.hook, a.actExempt)

/-- well-formed registry: optimizers are registered for evaluation networks, shared networks shadow
    evaluation networks, and an algorithm whose hook detaches part of an evaluation network is
    exempt from activation mutations (true of every algorithm in the library: PPO, DDPG, TD3) -/
structure DescOK (d : List Role × List (List Nat) × Hook × Bool) : Prop where
  optsEval : ∀ ks ∈ d.2.1, ∀ k ∈ ks, evalAt d.1 k
  srcEval  : ∀ (k src : Nat), d.1[k]? = some (Role.shared src) → evalAt d.1 src
  actSafe  : d.2.2.2 = true ∨ ∀ k ∈ d.2.2.1.targets, ¬ evalAt d.1 k

def Inv (a : Agent) : Prop := DescOK (desc a) ∧ Coherent a ∧ DetExact a.nets a.hook

/-! ### list helpers -/

theorem map_mapIdx_of {α β γ} (l : List α) (f : Nat → α → β) (g : β → γ) (g' : α → γ)
    (h : ∀ j m, l[j]? = some m → g (f j m) = g' m) : (l.mapIdx f).map g = l.map g' := by
  apply List.ext_getElem?
  intro i
  simp only [List.getElem?_map, List.getElem?_mapIdx]
  cases hi : l[i]? with
  | none => rfl
  | some m => simp [h i m hi]

theorem mapIdx_eq_self_of {α} (l : List α) (f : Nat → α → α)
    (h : ∀ j m, l[j]? = some m → f j m = m) : l.mapIdx f = l := by
  apply List.ext_getElem?
  intro i
  simp only [List.getElem?_mapIdx]
  cases hi : l[i]? with
  | none => rfl
  | some m => simp [h i m hi]

theorem flatMap_congr' {α β} (l : List α) (f g : α → List β) (h : ∀ x ∈ l, f x = g x) :
    l.flatMap f = l.flatMap g := by
  induction l with
  | nil => rfl
  | cons x r ih =>
    simp only [List.flatMap_cons]
    rw [h x (by simp), ih (fun y hy => h y (by simp [hy]))]

theorem mem_of_getElem? {α} {l : List α} {i : Nat} {a : α} (h : l[i]? = some a) : a ∈ l :=
  List.mem_iff_getElem?.mpr ⟨i, h⟩

/-! ### roles -/

theorem roles_mapIdx (nets : List NetAttr) (F : Nat → NetAttr → NetAttr)
    (h : ∀ k n, (F k n).role = n.role) : roles (nets.mapIdx F) = roles nets := by
  unfold roles
  exact map_mapIdx_of nets F _ _ (fun k n _ => h k n)

theorem roles_applyHook (h : Hook) (nets : List NetAttr) : roles (applyHook h nets) = roles nets := by
  unfold applyHook
  apply roles_mapIdx
  intro k n
  split <;> rfl

theorem roles_getElem? (nets : List NetAttr) (k : Nat) : (roles nets)[k]? = (nets[k]?).map (·.role) := by
  simp [roles]

theorem evalAt_iff (nets : List NetAttr) (k : Nat) :
    evalAt (roles nets) k ↔ ∃ n, nets[k]? = some n ∧ n.role.isEval = true := by
  unfold evalAt
  rw [roles_getElem?]
  constructor
  · rintro ⟨b, hb⟩
    cases hn : nets[k]? with
    | none => simp [hn] at hb
    | some n =>
      simp only [hn, Option.map_some, Option.some.injEq] at hb
      exact ⟨n, rfl, by simp [hb, Role.isEval]⟩
  · rintro ⟨n, hn, he⟩
    cases hr : n.role with
    | eval b => exact ⟨b, by simp [hn, hr]⟩
    | shared s => simp [hr, Role.isEval] at he

/-! ### optimizers -/

theorem optCoherent_rebuild (nets : List NetAttr) (lrs : List Rat) (o : Opt) :
    OptCoherent nets lrs (rebuildOpt nets lrs o) := by
  constructor
  · simp [rebuildOpt, expected, List.map_map, Function.comp_def]
  · intro g hg
    simp only [rebuildOpt, List.mem_map] at hg
    obtain ⟨cs, _, rfl⟩ := hg
    rfl

theorem expected_congr (nets nets' : List NetAttr) (o : Opt)
    (h : ∀ k ∈ o.nets, paramsOf nets' k = paramsOf nets k) : expected nets' o = expected nets o := by
  unfold expected
  exact flatMap_congr' _ _ _ h

theorem optCoherent_congr (nets nets' : List NetAttr) (lrs lrs' : List Rat) (o : Opt)
    (h : ∀ k ∈ o.nets, paramsOf nets' k = paramsOf nets k) (hl : lrs'.getD o.lr 0 = lrs.getD o.lr 0)
    (hc : OptCoherent nets lrs o) : OptCoherent nets' lrs' o := by
  refine ⟨?_, ?_⟩
  · rw [expected_congr nets nets' o h]; exact hc.1
  · intro g hg; rw [hl]; exact hc.2 g hg

theorem rebuildOpt_nets (nets : List NetAttr) (lrs : List Rat) (o : Opt) : (rebuildOpt nets lrs o).nets = o.nets := rfl

/-! ### parameters under `mapIdx` -/

theorem paramsOf_mapIdx (nets : List NetAttr) (F : Nat → NetAttr → NetAttr) (k : Nat)
    (h : ∀ n, nets[k]? = some n → (F k n).mods.map Mod.params = n.mods.map Mod.params) :
    paramsOf (nets.mapIdx F) k = paramsOf nets k := by
  unfold paramsOf
  rw [List.getElem?_mapIdx]
  cases hn : nets[k]? with
  | none => rfl
  | some n => simpa using h n hn

/-! ### the hook -/

theorem Hook.det_of_not_mem (h : Hook) (k : Nat) (hk : k ∉ h.targets) : h.det k = Det.none := by
  cases h <;> simp_all [Hook.det, Hook.targets]

theorem hookMod_det (h : Hook) (p : List Mod) (j k : Nat) (m : Mod) (hk : k ∈ h.targets) :
    (hookMod h p j m).det = h.det k := by
  cases h with
  | none => simp [Hook.targets] at hk
  | shareEnc s ts => simp_all [hookMod, Hook.det, Hook.targets]
  | detachAll s ts =>
    simp only [Hook.targets] at hk
    simp only [hookMod, Hook.det, hk, if_true]
    split
    · split <;> rfl
    · rfl

theorem hookMod_params (h : Hook) (p : List Mod) (j k : Nat) (m : Mod) (hk : k ∈ h.targets)
    (hd : m.det = h.det k) : (hookMod h p j m).params = m.params := by
  cases h with
  | none => simp [Hook.targets] at hk
  | shareEnc s ts =>
    simp only [Hook.targets] at hk
    simp only [Hook.det, hk, if_true] at hd
    simp [hookMod, Mod.params, hd]
  | detachAll s ts =>
    simp only [Hook.targets] at hk
    simp only [Hook.det, hk, if_true] at hd
    simp only [hookMod]
    split
    · split <;> simp [Mod.params, hd]
    · simp [Mod.params, hd]

theorem hookMod_arch (h : Hook) (p : List Mod) (j : Nat) (m : Mod) : (hookMod h p j m).arch = m.arch := by
  cases h with
  | none => rfl
  | shareEnc s ts => rfl
  | detachAll s ts =>
    simp only [hookMod]
    split
    · split <;> rfl
    · rfl

theorem hookMod_lastMut (h : Hook) (p : List Mod) (j : Nat) (m : Mod) : (hookMod h p j m).lastMut = m.lastMut := by
  cases h with
  | none => rfl
  | shareEnc s ts => rfl
  | detachAll s ts =>
    simp only [hookMod]
    split
    · split <;> rfl
    · rfl

theorem applyHook_getElem? (h : Hook) (nets : List NetAttr) (k : Nat) :
    (applyHook h nets)[k]? = (nets[k]?).map fun n =>
      if k ∈ h.targets then { n with mods := n.mods.mapIdx (hookMod h (modsAt nets h.src)) } else n := by
  unfold applyHook
  rw [List.getElem?_mapIdx]

/-- on a network that already carries the hook's detachment, the hook changes no parameter -/
theorem paramsOf_applyHook (h : Hook) (nets : List NetAttr) (k : Nat)
    (hd : ∀ n, nets[k]? = some n → ∀ m ∈ n.mods, m.det = h.det k) :
    paramsOf (applyHook h nets) k = paramsOf nets k := by
  unfold applyHook
  apply paramsOf_mapIdx
  intro n hn
  split
  · rename_i hk
    exact map_mapIdx_of _ _ _ _ (fun j m hj => hookMod_params h _ j k m hk (hd n hn m (mem_of_getElem? hj)))
  · rfl

theorem archs_applyHook (h : Hook) (nets : List NetAttr) (k : Nat) :
    ((applyHook h nets)[k]?).map (fun n => n.mods.map (·.arch)) = (nets[k]?).map (fun n => n.mods.map (·.arch)) := by
  rw [applyHook_getElem?]
  cases nets[k]? with
  | none => rfl
  | some n =>
    simp only [Option.map_some, Option.some.injEq]
    split
    · exact map_mapIdx_of _ _ _ _ (fun j m _ => hookMod_arch h _ j m)
    · rfl

/-- after the hook every evaluation network carries the hook's detachment, provided the
    evaluation networks the hook does not touch carry none -/
theorem detExact_applyHook (h : Hook) (nets : List NetAttr)
    (hn : ∀ k n, nets[k]? = some n → n.role.isEval = true → k ∉ h.targets → ∀ m ∈ n.mods, m.det = Det.none) :
    DetExact (applyHook h nets) h := by
  intro k n' hk he m' hm'
  rw [applyHook_getElem?] at hk
  cases hnk : nets[k]? with
  | none => simp [hnk] at hk
  | some n =>
    simp only [hnk, Option.map_some, Option.some.injEq] at hk
    by_cases ht : k ∈ h.targets
    · simp only [ht, if_true] at hk
      subst hk
      simp only [List.mem_mapIdx] at hm'
      obtain ⟨j, hj, rfl⟩ := hm'
      exact hookMod_det h _ j k _ ht
    · simp only [ht, if_false] at hk
      subst hk
      rw [Hook.det_of_not_mem h k ht]
      exact hn k n hnk he ht m' hm'

end Coherence
