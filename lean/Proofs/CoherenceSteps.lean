import Proofs.CoherenceLemmas

/-!
  Proofs/CoherenceSteps.lean — every step of a generation preserves the invariant
  `Inv` = well-formed registry ∧ `Coherent` ∧ "evaluation networks carry the hook's detachment".
-/
namespace Coherence

/-! ### transformations that only touch values -/

def wiring (m : Mod) : Tag × List Nat × List Nat × Det := (m.arch, m.enc, m.head, m.det)

def netWiring (n : NetAttr) : Role × List (Tag × List Nat × List Nat × Det) := (n.role, n.mods.map wiring)

def paramsW (w : Tag × List Nat × List Nat × Det) : List Nat :=
  match w.2.2.2 with
  | .none => w.2.1 ++ w.2.2.1
  | .enc => w.2.2.1
  | .all => []

theorem params_eq_paramsW (m : Mod) : m.params = paramsW (wiring m) := by
  unfold Mod.params paramsW wiring
  cases m.det <;> rfl

/-- same roles, cells, detachment and architectures everywhere (weights may differ) -/
def SameWiring (nets nets' : List NetAttr) : Prop := nets'.map netWiring = nets.map netWiring

theorem SameWiring.get {nets nets' : List NetAttr} (h : SameWiring nets nets') (k : Nat) (n' : NetAttr)
    (hk : nets'[k]? = some n') : ∃ n, nets[k]? = some n ∧ netWiring n = netWiring n' := by
  have := congrArg (fun l => l[k]?) h
  simp only [List.getElem?_map, hk, Option.map_some] at this
  cases hn : nets[k]? with
  | none => simp [hn] at this
  | some n =>
    simp only [hn, Option.map_some, Option.some.injEq] at this
    exact ⟨n, rfl, this.symm⟩

theorem SameWiring.roles {nets nets' : List NetAttr} (h : SameWiring nets nets') : roles nets' = roles nets := by
  have := congrArg (fun l => l.map Prod.fst) h
  simpa [Coherence.roles, netWiring, List.map_map, Function.comp_def] using this

theorem SameWiring.paramsOf {nets nets' : List NetAttr} (h : SameWiring nets nets') (k : Nat) :
    paramsOf nets' k = paramsOf nets k := by
  unfold Coherence.paramsOf
  cases hk : nets'[k]? with
  | none =>
    have hl : nets'.length = nets.length := by simpa using congrArg List.length h
    have : nets[k]? = none := by
      rw [List.getElem?_eq_none_iff] at hk ⊢; omega
    simp [this]
  | some n' =>
    obtain ⟨n, hn, hw⟩ := h.get k n' hk
    simp only [hn]
    have : n.mods.map wiring = n'.mods.map wiring := congrArg Prod.snd hw
    have e1 : n.mods.map Mod.params = (n.mods.map wiring).map paramsW := by
      simp [List.map_map, Function.comp_def, params_eq_paramsW]
    have e2 : n'.mods.map Mod.params = (n'.mods.map wiring).map paramsW := by
      simp [List.map_map, Function.comp_def, params_eq_paramsW]
    rw [e1, e2, this]

theorem SameWiring.sharedArch {nets nets' : List NetAttr} (h : SameWiring nets nets') (hs : SharedArch nets) :
    SharedArch nets' := by
  intro k n' src hk hr
  obtain ⟨n, hn, hw⟩ := h.get k n' hk
  have hrole : n.role = Role.shared src := by rw [← hr]; exact congrArg Prod.fst hw
  obtain ⟨e, he, ha⟩ := hs k n src hn hrole
  have hl : nets'.length = nets.length := by simpa using congrArg List.length h
  have hsrc : src < nets'.length := by
    rw [hl]; exact (List.getElem?_eq_some_iff.mp he).1
  obtain ⟨e', he'⟩ : ∃ e', nets'[src]? = some e' := ⟨nets'[src], List.getElem?_eq_getElem hsrc⟩
  obtain ⟨e2, he2, hw2⟩ := h.get src e' he'
  rw [he] at he2
  cases he2
  refine ⟨e', he', ?_⟩
  have a1 : ∀ x : NetAttr, x.mods.map (·.arch) = (netWiring x).2.map (·.1) := by
    intro x; simp [netWiring, wiring, List.map_map, Function.comp_def]
  rw [a1 n', a1 e', ← hw, ← hw2, ← a1, ← a1]
  exact ha

theorem SameWiring.detExact {nets nets' : List NetAttr} (h : SameWiring nets nets') (hk : Hook)
    (hd : DetExact nets hk) : DetExact nets' hk := by
  intro k n' hn' he m' hm'
  obtain ⟨n, hn, hw⟩ := h.get k n' hn'
  have hrole : n.role = n'.role := congrArg Prod.fst hw
  have hmods : n.mods.map wiring = n'.mods.map wiring := congrArg Prod.snd hw
  have : wiring m' ∈ n.mods.map wiring := by rw [hmods]; exact List.mem_map_of_mem hm'
  obtain ⟨m, hm, hwm⟩ := List.mem_map.mp this
  have hdet : m.det = m'.det := congrArg (fun w => w.2.2.2) hwm
  rw [← hdet]
  exact hd k n hn (by rw [hrole]; exact he) m hm

/-- a per-module update that keeps the wiring of every module -/
theorem sameWiring_mapIdx (nets : List NetAttr) (F : Nat → NetAttr → NetAttr)
    (h : ∀ k n, netWiring (F k n) = netWiring n) : SameWiring nets (nets.mapIdx F) := by
  unfold SameWiring
  exact map_mapIdx_of nets F _ _ (fun k n _ => h k n)

theorem netWiring_mods (n : NetAttr) (f : Nat → Mod → Mod) (h : ∀ j m, wiring (f j m) = wiring m) :
    netWiring { n with mods := n.mods.mapIdx f } = netWiring n := by
  unfold netWiring
  simp only [Prod.mk.injEq, true_and]
  exact map_mapIdx_of _ _ _ _ (fun j m _ => h j m)

/-- an agent whose networks only changed in value and whose optimizers were left alone -/
theorem inv_of_sameWiring (a : Agent) (nets' : List NetAttr) (h : SameWiring a.nets nets') (hi : Inv a) :
    Inv { a with nets := nets' } := by
  obtain ⟨hd, ⟨hc, hs⟩, hx⟩ := hi
  refine ⟨?_, ⟨?_, h.sharedArch hs⟩, h.detExact a.hook hx⟩
  · have : desc { a with nets := nets' } = desc a := by simp [desc, h.roles]
    rw [this]; exact hd
  · intro o ho
    exact optCoherent_congr a.nets nets' a.lrs a.lrs o (fun k _ => h.paramsOf k) rfl (hc o ho)

/-! ### the tail of `Mutations.mutation`: shared networks re-created, hook -/

def reShared (fresh : Fresh) (stamp : Nat) (nets : List NetAttr) : List NetAttr :=
  nets.mapIdx fun k n =>
    match n.role with
    | .shared src =>
      match nets[src]? with
      | some e => { n with mods := e.mods.mapIdx fun j m => copyMod (stamp, k, j) (fresh.at k j) m }
      | none => n
    | .eval _ => n

theorem finish_eq (fresh : Fresh) (stamp : Nat) (a : Agent) :
    finish fresh stamp a = { a with nets := applyHook a.hook (reShared fresh stamp a.nets) } := rfl

theorem roles_reShared (fresh : Fresh) (stamp : Nat) (nets : List NetAttr) :
    roles (reShared fresh stamp nets) = roles nets := by
  unfold reShared
  apply roles_mapIdx
  intro k n
  split
  · split <;> rfl
  · rfl

theorem reShared_eval (fresh : Fresh) (stamp : Nat) (nets : List NetAttr) (k : Nat) (n : NetAttr)
    (hk : nets[k]? = some n) (he : n.role.isEval = true) : (reShared fresh stamp nets)[k]? = some n := by
  unfold reShared
  rw [List.getElem?_mapIdx, hk]
  cases hr : n.role with
  | eval b => simp [hr]
  | shared s => simp [hr, Role.isEval] at he

theorem reShared_eval' (fresh : Fresh) (stamp : Nat) (nets : List NetAttr) (k : Nat) (n' : NetAttr)
    (hk : (reShared fresh stamp nets)[k]? = some n') (he : n'.role.isEval = true) : nets[k]? = some n' := by
  unfold reShared at hk
  rw [List.getElem?_mapIdx] at hk
  cases hn : nets[k]? with
  | none => simp [hn] at hk
  | some n =>
    simp only [hn, Option.map_some, Option.some.injEq] at hk
    cases hr : n.role with
    | eval b => simp only [hr] at hk; rw [← hk]
    | shared s =>
      simp only [hr] at hk
      have : n'.role = Role.shared s := by
        split at hk <;> (rw [← hk]; try exact hr)
      simp [this, Role.isEval] at he

theorem copyMod_arch (t : Tag) (fr : List Nat × List Nat) (m : Mod) : (copyMod t fr m).arch = m.arch := rfl
theorem copyMod_det (t : Tag) (fr : List Nat × List Nat) (m : Mod) : (copyMod t fr m).det = Det.none := rfl

theorem finish_inv (fresh : Fresh) (stamp : Nat) (a : Agent) (hd : DescOK (desc a))
    (hc : ∀ o ∈ a.opts, OptCoherent a.nets a.lrs o) (hx : DetExact a.nets a.hook) :
    Inv (finish fresh stamp a) := by
  rw [finish_eq]
  have hroles : roles (applyHook a.hook (reShared fresh stamp a.nets)) = roles a.nets := by
    rw [roles_applyHook, roles_reShared]
  have hx1 : DetExact (reShared fresh stamp a.nets) a.hook := by
    intro k n' hk he m hm
    exact hx k n' (reShared_eval' fresh stamp a.nets k n' hk he) he m hm
  refine ⟨?_, ⟨?_, ?_⟩, ?_⟩
  · have : desc { a with nets := applyHook a.hook (reShared fresh stamp a.nets) } = desc a := by
      simp [desc, hroles]
    rw [this]; exact hd
  · intro o ho
    refine optCoherent_congr a.nets _ a.lrs a.lrs o ?_ rfl (hc o ho)
    intro k hk
    have hev := hd.optsEval o.nets (List.mem_map_of_mem (f := (·.nets)) ho) k hk
    obtain ⟨n, hn, he⟩ := (evalAt_iff a.nets k).mp hev
    have h1 : (reShared fresh stamp a.nets)[k]? = some n := reShared_eval fresh stamp a.nets k n hn he
    rw [paramsOf_applyHook a.hook _ k (fun n' hn' m hm => hx1 k n' hn' (by rw [h1] at hn'; cases hn'; exact he) m hm)]
    unfold paramsOf
    rw [h1, hn]
  · -- shared networks have the architecture of their evaluation network
    intro k n' src hk hr
    have harch := archs_applyHook a.hook (reShared fresh stamp a.nets) k
    rw [hk] at harch
    cases h1 : (reShared fresh stamp a.nets)[k]? with
    | none => simp [h1] at harch
    | some n1 =>
      simp only [h1, Option.map_some, Option.some.injEq] at harch
      have hrole1 : n1.role = Role.shared src := by
        have := congrArg (fun l => l[k]?) (roles_applyHook a.hook (reShared fresh stamp a.nets))
        simp only [roles_getElem?, hk, h1, Option.map_some, Option.some.injEq] at this
        rw [← this]; exact hr
      -- the network before re-creation
      have h1' := h1
      unfold reShared at h1'
      rw [List.getElem?_mapIdx] at h1'
      cases h0 : a.nets[k]? with
      | none => simp [h0] at h1'
      | some n0 =>
        simp only [h0, Option.map_some, Option.some.injEq] at h1'
        have hrole0 : n0.role = Role.shared src := by
          have := congrArg (fun l => l[k]?) (roles_reShared fresh stamp a.nets)
          simp only [roles_getElem?, h1, h0, Option.map_some, Option.some.injEq] at this
          rw [← this]; exact hrole1
        have hsrc := hd.srcEval k src (by rw [show (desc a).1 = roles a.nets from rfl, roles_getElem?, h0]; simp [hrole0])
        obtain ⟨e, he, hee⟩ := (evalAt_iff a.nets src).mp hsrc
        simp only [hrole0, he] at h1'
        have he1 : (reShared fresh stamp a.nets)[src]? = some e := reShared_eval fresh stamp a.nets src e he hee
        have harch2 := archs_applyHook a.hook (reShared fresh stamp a.nets) src
        rw [he1] at harch2
        cases h2 : (applyHook a.hook (reShared fresh stamp a.nets))[src]? with
        | none => simp [h2] at harch2
        | some e' =>
          simp only [h2, Option.map_some, Option.some.injEq] at harch2
          refine ⟨e', rfl, ?_⟩
          rw [harch, harch2, ← h1']
          exact map_mapIdx_of _ _ _ _ (fun j m _ => rfl)
  · apply detExact_applyHook
    intro k n' hk he ht m hm
    rw [← Hook.det_of_not_mem a.hook k ht]
    exact hx1 k n' hk he m hm

/-! ### the five kinds -/

theorem desc_rebuildAll (a : Agent) : desc (rebuildAll a) = desc a := by
  simp [desc, rebuildAll, List.map_map, Function.comp_def, rebuildOpt]

theorem opts_rebuildAll (a : Agent) : ∀ o ∈ (rebuildAll a).opts, OptCoherent (rebuildAll a).nets (rebuildAll a).lrs o := by
  intro o ho
  simp only [rebuildAll, List.mem_map] at ho
  obtain ⟨o0, _, rfl⟩ := ho
  exact optCoherent_rebuild a.nets a.lrs o0

theorem roles_mapEval (f : Nat → NetAttr → NetAttr) (nets : List NetAttr) (h : ∀ k n, (f k n).role = n.role) :
    roles (mapEval f nets) = roles nets := by
  unfold mapEval
  apply roles_mapIdx
  intro k n
  split
  · exact h k n
  · rfl

theorem mapEval_getElem? (f : Nat → NetAttr → NetAttr) (nets : List NetAttr) (k : Nat) :
    (mapEval f nets)[k]? = (nets[k]?).map fun n => if n.role.isEval then f k n else n := by
  unfold mapEval
  rw [List.getElem?_mapIdx]

/-- after re-creating every evaluation network (all detachment gone) and running the hook, the
    evaluation networks carry exactly the hook's detachment -/
theorem detExact_after_recreate (h : Hook) (f : Nat → NetAttr → NetAttr) (nets : List NetAttr)
    (_hr : ∀ k n, (f k n).role = n.role) (hdet : ∀ k n, ∀ m ∈ (f k n).mods, m.det = Det.none) :
    DetExact (applyHook h (mapEval f nets)) h := by
  apply detExact_applyHook
  intro k n' hk he _ m hm
  rw [mapEval_getElem?] at hk
  cases hn : nets[k]? with
  | none => simp [hn] at hk
  | some n =>
    simp only [hn, Option.map_some, Option.some.injEq] at hk
    by_cases hev : n.role.isEval = true
    · simp only [hev, if_true] at hk
      subst hk
      exact hdet k n m hm
    · simp only [hev] at hk
      simp only [Bool.false_eq_true, if_false] at hk
      subst hk
      exact absurd he hev

theorem cloneMutate_det (stamp k : Nat) (applied : List (Option Change)) (fr : List (List Nat × List Nat))
    (j : Nat) (m : Mod) : (cloneMutate stamp k applied fr j m).det = Det.none := by
  unfold cloneMutate
  simp only
  split <;> rfl

def archF (stamp : Nat) (applied : List (Option Change)) (fresh : Fresh) : Nat → NetAttr → NetAttr :=
  fun k n => { n with mods := n.mods.mapIdx (cloneMutate stamp k applied (fresh.getD k [])) }

theorem archStep_eq (applied : List (Option Change)) (fresh : Fresh) (stamp : Nat) (a : Agent) :
    archStep applied fresh stamp a =
      rebuildAll { a with nets := applyHook a.hook (mapEval (archF stamp applied fresh) a.nets),
                          label := archLabel applied } := rfl

theorem archStep_pre (applied : List (Option Change)) (fresh : Fresh) (stamp : Nat) (a : Agent) (hi : Inv a) :
    DescOK (desc (archStep applied fresh stamp a)) ∧
    (∀ o ∈ (archStep applied fresh stamp a).opts,
      OptCoherent (archStep applied fresh stamp a).nets (archStep applied fresh stamp a).lrs o) ∧
    DetExact (archStep applied fresh stamp a).nets (archStep applied fresh stamp a).hook := by
  obtain ⟨hd, _, _⟩ := hi
  rw [archStep_eq]
  refine ⟨?_, opts_rebuildAll _, ?_⟩
  · rw [desc_rebuildAll]
    have : roles (applyHook a.hook (mapEval (archF stamp applied fresh) a.nets)) = roles a.nets := by
      rw [roles_applyHook, roles_mapEval (archF stamp applied fresh) a.nets (fun _ _ => rfl)]
    simp only [desc, this]
    exact hd
  · show DetExact (applyHook a.hook (mapEval (archF stamp applied fresh) a.nets)) a.hook
    apply detExact_after_recreate a.hook (archF stamp applied fresh) a.nets (fun _ _ => rfl)
    intro k n m hm
    simp only [archF, List.mem_mapIdx] at hm
    obtain ⟨j, _, rfl⟩ := hm
    exact cloneMutate_det ..

theorem paramStep_pre (stamp : Nat) (a : Agent) (hi : Inv a) :
    DescOK (desc (paramStep stamp a)) ∧
    (∀ o ∈ (paramStep stamp a).opts, OptCoherent (paramStep stamp a).nets (paramStep stamp a).lrs o) ∧
    DetExact (paramStep stamp a).nets (paramStep stamp a).hook := by
  obtain ⟨hd, _, hx⟩ := hi
  unfold paramStep
  have hw : SameWiring a.nets (a.nets.mapIdx fun k n =>
      if n.role = Role.eval true then
        { n with mods := n.mods.mapIdx fun j m => { m with wEnc := (stamp, k, j), wHead := (stamp, k, j) } }
      else n) := by
    apply sameWiring_mapIdx
    intro k n
    split
    · exact netWiring_mods n _ (fun _ _ => rfl)
    · rfl
  refine ⟨?_, opts_rebuildAll _, ?_⟩
  · rw [desc_rebuildAll]
    simp only [desc, hw.roles]
    exact hd
  · exact hw.detExact a.hook hx

def actF (stamp : Nat) (fresh : Fresh) : Nat → NetAttr → NetAttr :=
  fun k n => { n with mods := n.mods.mapIdx fun j m =>
      { copyMod (stamp, k, j) (fresh.at k j) m with arch := (stamp, k, j), wEnc := m.wEnc, wHead := m.wHead } }

theorem actStep_eq (fresh : Fresh) (stamp : Nat) (a : Agent) :
    actStep fresh stamp a = if a.actExempt then { a with label := "None" } else
      rebuildAll { a with nets := mapEval (actF stamp fresh) a.nets, label := "act" } := rfl

theorem actStep_pre (fresh : Fresh) (stamp : Nat) (a : Agent) (hi : Inv a) :
    DescOK (desc (actStep fresh stamp a)) ∧
    (∀ o ∈ (actStep fresh stamp a).opts, OptCoherent (actStep fresh stamp a).nets (actStep fresh stamp a).lrs o) ∧
    DetExact (actStep fresh stamp a).nets (actStep fresh stamp a).hook := by
  obtain ⟨hd, ⟨hc, _⟩, hx⟩ := hi
  rw [actStep_eq]
  by_cases hex : a.actExempt = true
  · rw [if_pos hex]
    exact ⟨hd, hc, hx⟩
  · rw [if_neg hex]
    have hr : roles (mapEval (actF stamp fresh) a.nets) = roles a.nets :=
      roles_mapEval (actF stamp fresh) a.nets (fun _ _ => rfl)
    refine ⟨?_, opts_rebuildAll _, ?_⟩
    · rw [desc_rebuildAll]
      show DescOK (roles (mapEval (actF stamp fresh) a.nets), a.opts.map (·.nets), a.hook, a.actExempt)
      rw [hr]
      exact hd
    · -- no evaluation network is a hook target (actSafe), so "all detachment gone" is exact
      show DetExact (mapEval (actF stamp fresh) a.nets) a.hook
      intro k n' hk he m hm
      have hsafe : ∀ k ∈ a.hook.targets, ¬ evalAt (roles a.nets) k := by
        rcases hd.actSafe with h | h
        · exact absurd h hex
        · exact h
      rw [mapEval_getElem?] at hk
      cases hn : a.nets[k]? with
      | none => simp [hn] at hk
      | some n =>
        simp only [hn, Option.map_some, Option.some.injEq] at hk
        by_cases hev : n.role.isEval = true
        · simp only [hev, if_true] at hk
          subst hk
          have hnt : k ∉ a.hook.targets := fun ht => hsafe k ht ((evalAt_iff a.nets k).mpr ⟨n, hn, hev⟩)
          rw [Hook.det_of_not_mem a.hook k hnt]
          simp only [actF, List.mem_mapIdx] at hm
          obtain ⟨j, _, rfl⟩ := hm
          rfl
        · simp only [hev] at hk
          simp only [Bool.false_eq_true, if_false] at hk
          subst hk
          exact absurd he hev

theorem getD_set_ne (l : List Rat) (i j : Nat) (v : Rat) (h : j ≠ i) : (l.set i v).getD j 0 = l.getD j 0 := by
  simp only [List.getD_eq_getElem?_getD, List.getElem?_set]
  split
  · rename_i e; exact absurd e.symm h
  · rfl

theorem hpStep_pre (name : String) (lr : Option (Nat × Rat)) (a : Agent) (hi : Inv a) :
    DescOK (desc (hpStep false name lr a)) ∧
    (∀ o ∈ (hpStep false name lr a).opts, OptCoherent (hpStep false name lr a).nets (hpStep false name lr a).lrs o) ∧
    DetExact (hpStep false name lr a).nets (hpStep false name lr a).hook := by
  obtain ⟨hd, ⟨hc, _⟩, hx⟩ := hi
  unfold hpStep
  cases lr with
  | none => exact ⟨hd, hc, hx⟩
  | some iv =>
    obtain ⟨i, v⟩ := iv
    simp only [Bool.false_eq_true, if_false]
    refine ⟨?_, ?_, hx⟩
    · have : (a.opts.map fun o => if o.lr = i then rebuildOpt a.nets (a.lrs.set i v) o else o).map (·.nets) = a.opts.map (·.nets) := by
        rw [List.map_map]
        apply List.map_congr_left
        intro o _
        simp only [Function.comp]
        split <;> rfl
      simp only [desc, this]
      exact hd
    · intro o' ho'
      simp only [List.mem_map] at ho'
      obtain ⟨o, ho, rfl⟩ := ho'
      by_cases hl : o.lr = i
      · simp only [hl, if_true]
        have := optCoherent_rebuild a.nets (a.lrs.set i v) o
        simpa [hl] using this
      · simp only [hl, if_false]
        exact optCoherent_congr a.nets a.nets a.lrs _ o (fun _ _ => rfl) (getD_set_ne a.lrs i o.lr v hl) (hc o ho)

theorem mutate1_inv (c : Choice) (a : Agent) (hi : Inv a) : Inv (mutate1 false c a) := by
  unfold mutate1
  have pre : DescOK (desc (kindStep false c a)) ∧
      (∀ o ∈ (kindStep false c a).opts, OptCoherent (kindStep false c a).nets (kindStep false c a).lrs o) ∧
      DetExact (kindStep false c a).nets (kindStep false c a).hook := by
    unfold kindStep
    cases c.kind with
    | none => exact ⟨hi.1, hi.2.1.1, hi.2.2⟩
    | arch applied => exact archStep_pre applied c.fresh c.stamp a hi
    | param => exact paramStep_pre c.stamp a hi
    | act => exact actStep_pre c.fresh c.stamp a hi
    | hp name lr => exact hpStep_pre name lr a hi
  exact finish_inv c.fresh (c.stamp + 1) _ pre.1 pre.2.1 pre.2.2

/-! ### clone and learn -/

def cloneNets (fresh : Fresh) (stamp : Nat) (nets : List NetAttr) : List NetAttr :=
  nets.mapIdx fun k n => { n with mods := n.mods.mapIdx fun j m => copyMod (stamp, k, j) (fresh.at k j) m }

def cloneOpt (nets2 : List NetAttr) (lrs : List Rat) (o : Opt) : Opt :=
  { o with groups := (expected nets2 o).mapIdx fun i cs =>
      { cells := cs, lr := match o.groups[i]? with | some g => g.lr | none => lrs.getD o.lr 0 } }

theorem cloneAgent_eq (index : Nat) (fresh : Fresh) (stamp : Nat) (a : Agent) :
    cloneAgent index fresh stamp a =
      { a with index := index, nets := applyHook a.hook (cloneNets fresh stamp a.nets),
               opts := a.opts.map (cloneOpt (applyHook a.hook (cloneNets fresh stamp a.nets)) a.lrs) } := rfl

theorem archs_cloneNets (fresh : Fresh) (stamp : Nat) (nets : List NetAttr) (k : Nat) :
    ((cloneNets fresh stamp nets)[k]?).map (fun n => n.mods.map (·.arch)) = (nets[k]?).map (fun n => n.mods.map (·.arch)) := by
  unfold cloneNets
  rw [List.getElem?_mapIdx]
  cases nets[k]? with
  | none => rfl
  | some n =>
    simp only [Option.map_some, Option.some.injEq]
    exact map_mapIdx_of _ _ _ _ (fun _ _ _ => rfl)

theorem cloneAgent_inv (index : Nat) (fresh : Fresh) (stamp : Nat) (a : Agent) (hi : Inv a) :
    Inv (cloneAgent index fresh stamp a) := by
  obtain ⟨hd, ⟨hc, hs⟩, _⟩ := hi
  rw [cloneAgent_eq]
  have hroles1 : roles (cloneNets fresh stamp a.nets) = roles a.nets :=
    roles_mapIdx _ _ (fun _ _ => rfl)
  refine ⟨?_, ⟨?_, ?_⟩, ?_⟩
  · have : (a.opts.map (cloneOpt (applyHook a.hook (cloneNets fresh stamp a.nets)) a.lrs)).map (·.nets) = a.opts.map (·.nets) := by
      rw [List.map_map]; rfl
    show DescOK (roles (applyHook a.hook (cloneNets fresh stamp a.nets)), _, a.hook, a.actExempt)
    rw [this, roles_applyHook, hroles1]
    exact hd
  · intro o' ho'
    simp only [List.mem_map] at ho'
    obtain ⟨o, ho, rfl⟩ := ho'
    constructor
    · show ((expected _ o).mapIdx _).map Group.cells = expected _ o
      rw [map_mapIdx_of _ _ Group.cells id (fun _ _ _ => rfl)]
      simp
    · intro g hg
      simp only [cloneOpt, List.mem_mapIdx] at hg
      obtain ⟨i, _, rfl⟩ := hg
      show (match o.groups[i]? with | some g => g.lr | none => a.lrs.getD o.lr 0) = a.lrs.getD o.lr 0
      cases hgi : o.groups[i]? with
      | none => rfl
      | some g0 => exact (hc o ho).2 g0 (mem_of_getElem? hgi)
  · -- architectures are copied, the hook keeps them
    intro k n' src hk hr
    have hk' : (applyHook a.hook (cloneNets fresh stamp a.nets))[k]? = some n' := hk
    have h1 := archs_applyHook a.hook (cloneNets fresh stamp a.nets) k
    rw [hk', archs_cloneNets] at h1
    cases h0 : a.nets[k]? with
    | none => simp [h0] at h1
    | some n0 =>
      simp only [h0, Option.map_some, Option.some.injEq] at h1
      have hrole0 : n0.role = Role.shared src := by
        have := congrArg (fun l => l[k]?) ((roles_applyHook a.hook (cloneNets fresh stamp a.nets)).trans hroles1)
        simp only [roles_getElem?, hk', h0, Option.map_some, Option.some.injEq] at this
        rw [← this]; exact hr
      obtain ⟨e, he, ha⟩ := hs k n0 src h0 hrole0
      have h2 := archs_applyHook a.hook (cloneNets fresh stamp a.nets) src
      rw [archs_cloneNets, he] at h2
      cases h3 : (applyHook a.hook (cloneNets fresh stamp a.nets))[src]? with
      | none => simp [h3] at h2
      | some e' =>
        simp only [h3, Option.map_some, Option.some.injEq] at h2
        exact ⟨e', rfl, by rw [h1, h2]; exact ha⟩
  · show DetExact (applyHook a.hook (cloneNets fresh stamp a.nets)) a.hook
    apply detExact_applyHook
    intro k n' hk _ _ m hm
    unfold cloneNets at hk
    rw [List.getElem?_mapIdx] at hk
    cases h0 : a.nets[k]? with
    | none => simp [h0] at hk
    | some n0 =>
      simp only [h0, Option.map_some, Option.some.injEq] at hk
      subst hk
      simp only [List.mem_mapIdx] at hm
      obtain ⟨j, _, rfl⟩ := hm
      rfl

theorem learn1_sameWiring (stamp : Nat) (a : Agent) : SameWiring a.nets (learn1 stamp a).nets := by
  unfold learn1
  apply sameWiring_mapIdx
  intro k n
  apply netWiring_mods
  intro j m
  split <;> rfl

theorem learn1_inv (stamp : Nat) (a : Agent) (hi : Inv a) : Inv (learn1 stamp a) :=
  inv_of_sameWiring a _ (learn1_sameWiring stamp a) hi

/-! ### populations -/

theorem apply_inv (pop : Pop) (h : ∀ a ∈ pop, Inv a) (op : Op) : ∀ a ∈ op.apply false pop, Inv a := by
  intro x hx
  cases op with
  | select cs =>
    simp only [Op.apply, selectPop, List.mem_filterMap] at hx
    obtain ⟨c, _, hc⟩ := hx
    cases hp : pop[c.parent]? with
    | none => simp [hp] at hc
    | some p =>
      simp only [hp, Option.map_some, Option.some.injEq] at hc
      subst hc
      exact cloneAgent_inv _ _ _ p (h p (mem_of_getElem? hp))
  | mutate chs =>
    simp only [Op.apply, mutatePop, List.mem_mapIdx] at hx
    obtain ⟨i, hi, rfl⟩ := hx
    exact mutate1_inv _ _ (h _ (List.getElem_mem hi))
  | learn i s =>
    simp only [Op.apply, learnPop, List.mem_mapIdx] at hx
    obtain ⟨j, hj, rfl⟩ := hx
    split
    · exact learn1_inv s _ (h _ (List.getElem_mem hj))
    · exact h _ (List.getElem_mem hj)

theorem run_inv (ops : List Op) : ∀ (pop : Pop), (∀ a ∈ pop, Inv a) → ∀ a ∈ run false pop ops, Inv a := by
  induction ops with
  | nil => intro pop h; exact h
  | cons op rest ih =>
    intro pop h
    exact ih (op.apply false pop) (apply_inv pop h op)

end Coherence
