import Proofs.CoherenceSteps

/-!
  Proofs/CoherenceWeights.lean — right after `Mutations.mutation` every shared network holds the
  weights of the evaluation network it shadows; the applied architecture method reaches every
  evaluation network; the Boolean coherence check printed by the driver is the `Prop`.
-/
namespace Coherence

/-- how the hook relates to shared networks (true of every algorithm of the library):
    the hook's source is not one of its targets; a shared network is a target exactly when the
    network it shadows is one — or is the source itself (DQN's target, DDPG's `critic_target`
    next to `critic`); a hook that detaches whole networks only ever targets shared networks. -/
structure HookOK (rs : List Role) (h : Hook) : Prop where
  srcNot : h.src ∉ h.targets
  down : ∀ (k src : Nat), rs[k]? = some (Role.shared src) → k ∈ h.targets → (src ∈ h.targets ∨ src = h.src)
  up : ∀ (k src : Nat), rs[k]? = some (Role.shared src) → src ∈ h.targets → k ∈ h.targets
  detachShared : ∀ s ts, h = Hook.detachAll s ts → ∀ t ∈ ts, ¬ evalAt rs t

def W (m : Mod) : Tag × Tag := (m.wEnc, m.wHead)

theorem map_mapIdx_congr {α β γ} (l : List α) (f g : Nat → α → β) (w : β → γ)
    (h : ∀ j m, l[j]? = some m → w (f j m) = w (g j m)) : (l.mapIdx f).map w = (l.mapIdx g).map w := by
  apply List.ext_getElem?
  intro i
  simp only [List.getElem?_map, List.getElem?_mapIdx]
  cases hi : l[i]? with
  | none => rfl
  | some m => simp [h i m hi]

theorem finish_sharedWeights (fresh : Fresh) (stamp : Nat) (a : Agent) (hd : DescOK (desc a))
    (hx : DetExact a.nets a.hook) (hk : HookOK (roles a.nets) a.hook) :
    SharedWeights (finish fresh stamp a).nets := by
  rw [finish_eq]
  intro k n3 src h3 hr3
  have h3' : (applyHook a.hook (reShared fresh stamp a.nets))[k]? = some n3 := h3
  -- role bookkeeping: the network at `k` was a shared network of `src` all along
  have hrolesAll : roles (applyHook a.hook (reShared fresh stamp a.nets)) = roles a.nets := by
    rw [roles_applyHook, roles_reShared]
  have hrk : (roles a.nets)[k]? = some (Role.shared src) := by
    rw [← hrolesAll, roles_getElem?, h3']; simp [hr3]
  obtain ⟨e, he, hee⟩ := (evalAt_iff a.nets src).mp (hd.srcEval k src hrk)
  have he1 : (reShared fresh stamp a.nets)[src]? = some e := reShared_eval fresh stamp a.nets src e he hee
  have hdet : ∀ m ∈ e.mods, m.det = a.hook.det src := hx src e he hee
  -- the re-created shared network
  cases h0 : a.nets[k]? with
  | none => rw [roles_getElem?, h0] at hrk; simp at hrk
  | some n0 =>
    have hrole0 : n0.role = Role.shared src := by
      rw [roles_getElem?, h0] at hrk; simpa using hrk
    have h1 : (reShared fresh stamp a.nets)[k]? =
        some { n0 with mods := e.mods.mapIdx fun j m => copyMod (stamp, k, j) (fresh.at k j) m } := by
      unfold reShared
      rw [List.getElem?_mapIdx, h0]
      simp [hrole0, he]
    rw [applyHook_getElem?, h1] at h3'
    simp only [Option.map_some, Option.some.injEq] at h3'
    have h4 := applyHook_getElem? a.hook (reShared fresh stamp a.nets) src
    rw [he1] at h4
    simp only [Option.map_some] at h4
    refine ⟨_, h4, ?_⟩
    have hp : a.hook.src = src → modsAt (reShared fresh stamp a.nets) a.hook.src = e.mods := by
      intro hs; unfold modsAt; rw [hs, he1]
    by_cases hkT : k ∈ a.hook.targets
    · simp only [hkT, if_true] at h3'
      subst h3'
      simp only [List.mapIdx_mapIdx]
      by_cases hsT : src ∈ a.hook.targets
      · -- both the shared network and what it shadows are targets: a `shareEnc` hook
        simp only [hsT, if_true]
        show (e.mods.mapIdx _).map W = (e.mods.mapIdx _).map W
        apply map_mapIdx_congr
        intro j m hj
        have hm := hdet m (mem_of_getElem? hj)
        cases hh : a.hook with
        | none => simp [hh, Hook.targets] at hkT
        | shareEnc s ts =>
          simp only [hh, Hook.targets] at hsT
          simp only [hh, Hook.det, hsT, if_true] at hm
          simp [Function.comp, hookMod, W, copyMod, hm]
        | detachAll s ts =>
          simp only [hh, Hook.targets] at hsT
          exact absurd ((evalAt_iff a.nets src).mpr ⟨e, he, hee⟩) (hk.detachShared s ts hh src hsT)
      · -- the shadowed network is the hook's source
        simp only [hsT, if_false]
        have hsrc : src = a.hook.src := by
          rcases hk.down k src hrk hkT with h | h
          · exact absurd h hsT
          · exact h
        rw [hp hsrc.symm]
        show (e.mods.mapIdx _).map W = e.mods.map W
        apply map_mapIdx_of
        intro j m hj
        have hm := hdet m (mem_of_getElem? hj)
        rw [Hook.det_of_not_mem a.hook src hsT] at hm
        cases hh : a.hook with
        | none => simp [hh, Hook.targets] at hkT
        | shareEnc s ts => simp [Function.comp, hookMod, W, copyMod, hm, hj]
        | detachAll s ts => simp [Function.comp, hookMod, W, copyMod, hm, hj]
    · simp only [hkT, if_false] at h3'
      subst h3'
      have hsT : src ∉ a.hook.targets := fun h => hkT (hk.up k src hrk h)
      simp only [hsT, if_false]
      show (e.mods.mapIdx _).map W = e.mods.map W
      apply map_mapIdx_of
      intro j m hj
      have hm := hdet m (mem_of_getElem? hj)
      rw [Hook.det_of_not_mem a.hook src hsT] at hm
      simp [W, copyMod, hm]

/-! ### the Boolean check is the proposition -/

theorem optCoherent_iff (nets : List NetAttr) (lrs : List Rat) (o : Opt) :
    optCoherent nets lrs o = true ↔ OptCoherent nets lrs o := by
  unfold optCoherent OptCoherent
  simp only [Bool.and_eq_true, beq_iff_eq, List.all_eq_true]

theorem sharedArch_iff (nets : List NetAttr) : nets.all (sharedArchOK nets) = true ↔ SharedArch nets := by
  rw [List.all_eq_true]
  constructor
  · intro h k n src hk hr
    have := h n (mem_of_getElem? hk)
    unfold sharedArchOK at this
    rw [hr] at this
    simp only at this
    cases he : nets[src]? with
    | none => simp [he] at this
    | some e =>
      simp only [he, beq_iff_eq] at this
      exact ⟨e, rfl, this⟩
  · intro h n hn
    obtain ⟨k, hk⟩ := List.mem_iff_getElem?.mp hn
    unfold sharedArchOK
    cases hr : n.role with
    | eval b => rfl
    | shared src =>
      obtain ⟨e, he, ha⟩ := h k n src hk hr
      simp [he, ha]

theorem coherent_iff (a : Agent) : coherent a = true ↔ Coherent a := by
  unfold coherent Coherent
  rw [Bool.and_eq_true, sharedArch_iff, List.all_eq_true]
  constructor
  · rintro ⟨h1, h2⟩
    exact ⟨fun o ho => (optCoherent_iff _ _ o).mp (h1 o ho), h2⟩
  · rintro ⟨h1, h2⟩
    exact ⟨fun o ho => (optCoherent_iff _ _ o).mpr (h1 o ho), h2⟩

/-! ### construction -/

theorem construct_inv (fresh : Fresh) (stamp : Nat) (a0 : Agent) (hd : DescOK (desc a0))
    (h0 : ∀ n ∈ a0.nets, ∀ m ∈ n.mods, m.det = Det.none) : Inv (construct fresh stamp a0) := by
  unfold construct
  apply finish_inv
  · rw [desc_rebuildAll]
    show DescOK (roles (applyHook a0.hook a0.nets), a0.opts.map (·.nets), a0.hook, a0.actExempt)
    rw [roles_applyHook]; exact hd
  · exact opts_rebuildAll _
  · show DetExact (applyHook a0.hook a0.nets) a0.hook
    apply detExact_applyHook
    intro k n hk _ _ m hm
    exact h0 n (mem_of_getElem? hk) m hm

/-! ### the applied architecture method reaches every evaluation network -/

theorem lastMut_applyHook (h : Hook) (nets : List NetAttr) (k : Nat) :
    ((applyHook h nets)[k]?).map (fun n => n.mods.map (·.lastMut)) = (nets[k]?).map (fun n => n.mods.map (·.lastMut)) := by
  rw [applyHook_getElem?]
  cases nets[k]? with
  | none => rfl
  | some n =>
    simp only [Option.map_some, Option.some.injEq]
    split
    · exact map_mapIdx_of _ _ _ _ (fun j m _ => hookMod_lastMut h _ j m)
    · rfl

theorem cloneMutate_lastMut (stamp k : Nat) (applied : List (Option Change)) (fr : List (List Nat × List Nat))
    (j : Nat) (m : Mod) : (cloneMutate stamp k applied fr j m).lastMut = applied.getD j none := by
  unfold cloneMutate
  simp only
  split
  · rfl
  · rename_i h
    cases hap : applied.getD j none with
    | none => rfl
    | some x => rw [hap] at h; exact absurd rfl h

/-- after an architecture mutation, module `j` of *every* evaluation network (policy, critics, …)
    reports the method applied to module `j` of the policy -/
theorem arch_followed (f : Bool) (applied : List (Option Change)) (fresh : Fresh) (stamp : Nat) (a : Agent)
    (k : Nat) (n : NetAttr)
    (hk : (mutate1 f { kind := Kind.arch applied, fresh := fresh, stamp := stamp } a).nets[k]? = some n)
    (he : n.role.isEval = true) :
    n.mods.map (·.lastMut) = (List.range n.mods.length).map (fun j => applied.getD j none) := by
  unfold mutate1 kindStep at hk
  simp only at hk
  rw [finish_eq, archStep_eq] at hk
  have hk' : (applyHook a.hook (reShared fresh (stamp + 1)
      (applyHook a.hook (mapEval (archF stamp applied fresh) a.nets))))[k]? = some n := hk
  have e1 := lastMut_applyHook a.hook (reShared fresh (stamp + 1) (applyHook a.hook (mapEval (archF stamp applied fresh) a.nets))) k
  rw [hk'] at e1
  -- the network is an evaluation network at every stage
  cases h1 : (reShared fresh (stamp + 1) (applyHook a.hook (mapEval (archF stamp applied fresh) a.nets)))[k]? with
  | none => simp [h1] at e1
  | some n1 =>
    simp only [h1, Option.map_some, Option.some.injEq] at e1
    have hr1 : n1.role = n.role := by
      have := congrArg (fun l => l[k]?) (roles_applyHook a.hook (reShared fresh (stamp + 1) (applyHook a.hook (mapEval (archF stamp applied fresh) a.nets))))
      simp only [roles_getElem?, hk', h1, Option.map_some, Option.some.injEq] at this
      exact this.symm
    have h2 := reShared_eval' fresh (stamp + 1) _ k n1 h1 (by rw [hr1]; exact he)
    have e2 := lastMut_applyHook a.hook (mapEval (archF stamp applied fresh) a.nets) k
    rw [h2, mapEval_getElem?] at e2
    cases h0 : a.nets[k]? with
    | none => simp [h0] at e2
    | some n0 =>
      simp only [h0, Option.map_some, Option.some.injEq] at e2
      have hr0 : n0.role.isEval = true := by
        have := congrArg (fun l => l[k]?) ((roles_applyHook a.hook (mapEval (archF stamp applied fresh) a.nets)).trans
          (roles_mapEval (archF stamp applied fresh) a.nets (fun _ _ => rfl)))
        simp only [roles_getElem?, h2, h0, Option.map_some, Option.some.injEq] at this
        rw [← this, hr1]; exact he
      simp only [hr0, if_true, archF] at e2
      have hlen : n.mods.length = n0.mods.length := by
        have := congrArg List.length (e1.trans e2)
        simpa using this
      rw [e1, e2, hlen]
      apply List.ext_getElem?
      intro j
      simp only [List.getElem?_map, List.getElem?_mapIdx]
      cases hj : n0.mods[j]? with
      | none =>
        have : ¬ j < n0.mods.length := by
          intro hlt; rw [List.getElem?_eq_getElem hlt] at hj; cases hj
        simp [this]
      | some m =>
        have : j < n0.mods.length := (List.getElem?_eq_some_iff.mp hj).1
        simp [this, cloneMutate_lastMut]

/-! ### labels and shape -/

theorem finish_index (fresh : Fresh) (stamp : Nat) (a : Agent) : (finish fresh stamp a).index = a.index := rfl
theorem finish_label (fresh : Fresh) (stamp : Nat) (a : Agent) : (finish fresh stamp a).label = a.label := rfl

theorem kindStep_index (f : Bool) (c : Choice) (a : Agent) : (kindStep f c a).index = a.index := by
  unfold kindStep
  cases c.kind with
  | none => rfl
  | arch applied => rfl
  | param => rfl
  | act => simp only [actStep]; split <;> rfl
  | hp name lr => cases lr <;> rfl

theorem kindStep_label (f : Bool) (c : Choice) (a : Agent) : (kindStep f c a).label = labelOf a c.kind := by
  unfold kindStep labelOf
  cases c.kind with
  | none => rfl
  | arch applied => rfl
  | param => rfl
  | act => simp only [actStep]; split <;> rfl
  | hp name lr => cases lr <;> rfl

end Coherence
