import Gen.DistGen
import Proofs.DistLemmas
import Model.Action

/-!
  Proofs/DistGenEq.lean — the definitions `harness/py2lean_dist.py` generates by symbolic execution of
  `agilerl/networks/distributions.py` and `StochasticActor` (`Gen/DistGen.lean`: per action-space kind
  `squash_flag`, `log_std_init`, `masked_logits`, `distribution`, `forward`, `forward_masked`, `log_prob_stored`,
  `entropy_stored`, `scale_action`, over the primitive structure `Prims`) are equal to the composition functions of the
  hand-written `Model/Dist.lean`, for every carrier and every choice of the primitives:

    Discrete.masked_logits P l m            = maskLogits (P.lit (-1e8)) l m
    MultiDiscrete.masked_logits P nvec l m  = (maskSplit (P.lit (-1e8)) nvec l m).flatten     (MultiBinary: nvec = [n])
    K.distribution                          = normal logits (exp log_std) | categorical | categoricals (split) | bernoulli
    MultiDiscrete.forward P nvec l a        = (a, Σ_k catLogProb (split k) a_k, sumEntropy (component entropies))
                                              and `multiCatLogProb (tables of the splits) a = some` that value when a
                                              table `tbl` tabulates the primitive and `a` is in range
    MultiBinary.forward P l bits            = (bits, bernLogProb (lp1) (lp0) bits, sumEntropy …)
    K.forward_masked P … l m a              = K.forward P … (masked logits) a
    Box.forward P sq low high ls l u        = (sample, logProbFixed … fresh := true, entropy) of the model's `TorchDist`
                                              with comp = the Gaussians `Normal(l, exp ls)`, corr = `log(1 − a² + 1e-6)`
    Box.log_prob_stored P fresh sq ls l u' eps a = logProbFixed on the state the forward pass leaves, with the pre-image
                                              `atanh(clamp(a, −1 + eps, 1 − eps))`  (= `evalStoredFixed` for sq, ¬fresh)
    Box.scale_action P low high a           = Action.rescaleWith (−1) 1 per coordinate              (carrier Rat)

  The proofs unfold the generated text, normalise nested `List.map`s and close by `rfl`: a changed sign, constant,
  operand order, dropped `.sum`, swapped `torch.where` branch or different dispatch leaves a false goal.  Absorbed by
  construction of the translator (locals are substituted): renamings, temporaries, `x -= y` ↔ `x = x - y`,
  reordering of independent statements.
-/

set_option linter.unusedSectionVars false
set_option linter.unusedSimpArgs false

namespace Dist
open Util

variable {α : Type}

theorem gen_splitSizes_eq {β : Type} (xs : List β) (nv : List Nat) :
    DistGen.splitSizes xs nv = splitSizes xs nv := by
  induction nv generalizing xs with
  | nil => rfl
  | cons n ns ih => simp [DistGen.splitSizes, splitSizes, ih]

theorem gen_where3_full (c : α) (ls : List α) (ms : List Bool) :
    DistGen.where3 ms ls (ls.map fun _ => c) = maskLogits c ls ms := by
  induction ls generalizing ms with
  | nil => cases ms <;> rfl
  | cons l ls ih =>
    cases ms with
    | nil => rfl
    | cons m ms =>
      show (if m = true then l else c) :: DistGen.where3 ms ls (ls.map fun _ => c) = _
      rw [ih ms]; rfl

theorem gen_zipWith3_eq {β γ δ ε : Type} (f : β → γ → δ → ε) (a : List β) (b : List γ) (c : List δ) :
    DistGen.zipWith3 f a b c = List.zipWith (fun g x => g x) (List.zipWith f a b) c := by
  induction a generalizing b c with
  | nil => simp [DistGen.zipWith3]
  | cons x a ih =>
    cases b with
    | nil => simp [DistGen.zipWith3]
    | cons y b =>
      cases c with
      | nil => simp [DistGen.zipWith3]
      | cons z c => simp [DistGen.zipWith3, ih]

variable [Add α] [Sub α] [Mul α] [Zero α] (P : DistGen.Prims α)

/-- the constant the source writes into masked positions -/
def genNeg : α := P.lit (-100000000)

theorem gen_discrete_masked_logits_eq (logits : List α) (mask : List Bool) :
    DistGen.Discrete.masked_logits P logits mask = maskLogits (genNeg P) logits mask := by
  simp only [DistGen.Discrete.masked_logits, gen_where3_full, genNeg]

theorem gen_multiDiscrete_masked_logits_eq (nvec : List Nat) (logits : List α) (mask : List Bool) :
    DistGen.MultiDiscrete.masked_logits P nvec logits mask
      = (maskSplit (genNeg P) nvec logits mask).flatten := by
  simp only [DistGen.MultiDiscrete.masked_logits, gen_where3_full, gen_splitSizes_eq, genNeg, maskSplit]

theorem gen_multiBinary_masked_logits_eq (n : Nat) (logits : List α) (mask : List Bool) :
    DistGen.MultiBinary.masked_logits P n logits mask
      = (maskSplit (genNeg P) [n] logits mask).flatten := by
  simp only [DistGen.MultiBinary.masked_logits, gen_where3_full, gen_splitSizes_eq, genNeg, maskSplit]

/-! ### which distribution for which action space; flags; what raises -/

theorem gen_distribution_box_eq (log_std logits : List α) :
    DistGen.Box.distribution P log_std logits = .normal logits (log_std.map P.exp) := rfl

theorem gen_distribution_discrete_eq (logits : List α) :
    DistGen.Discrete.distribution P logits = .categorical logits := rfl

theorem gen_distribution_multiDiscrete_eq (nvec : List Nat) (logits : List α) :
    DistGen.MultiDiscrete.distribution P nvec logits = .categoricals (splitSizes logits nvec) := by
  simp only [DistGen.MultiDiscrete.distribution, gen_splitSizes_eq]

theorem gen_distribution_multiBinary_eq (logits : List α) :
    DistGen.MultiBinary.distribution P logits = .bernoulli logits := rfl

theorem gen_raises_eq :
    DistGen.Other.distribution_raises = "NotImplementedError" ∧
    DistGen.Other.forward_raises = "NotImplementedError" ∧
    DistGen.Other.masked_logits_raises = "NotImplementedError" ∧
    DistGen.Box.masked_logits_raises = "NotImplementedError" ∧
    DistGen.Box.forward_masked_raises = "NotImplementedError" := ⟨rfl, rfl, rfl, rfl, rfl⟩

/-- `self.squash_output = squash_output and isinstance(action_space, spaces.Box)` -/
theorem gen_squash_flag_eq (sq : Bool) :
    DistGen.Box.squash_flag P sq = sq ∧ DistGen.Discrete.squash_flag P = false ∧
    DistGen.MultiDiscrete.squash_flag P = false ∧ DistGen.MultiBinary.squash_flag P = false := by
  refine ⟨?_, rfl, rfl, rfl⟩
  cases sq <;> rfl

/-- `log_std = ones(1, d) * action_std_init`; the std of the Normal is `exp(log_std)` (see `gen_distribution_box_eq`) -/
theorem gen_log_std_init_eq (init : α) (d : Nat) :
    DistGen.Box.log_std_init P init d = List.replicate d (P.lit 1 * init) := by
  simp [DistGen.Box.log_std_init]

/-! ### Discrete -/

theorem gen_discrete_forward_eq (logits : List α) (k : Nat) :
    DistGen.Discrete.forward P logits k = (k, P.categoricalLogProb logits k, P.categoricalEntropy logits) := rfl

theorem gen_discrete_forward_masked_eq (logits : List α) (mask : List Bool) (k : Nat) :
    DistGen.Discrete.forward_masked P logits mask k
      = DistGen.Discrete.forward P (maskLogits (genNeg P) logits mask) k := by
  simp only [DistGen.Discrete.forward_masked, DistGen.Discrete.forward, gen_where3_full, genNeg]

theorem gen_discrete_log_prob_stored_eq (logits : List α) (a : Nat) :
    DistGen.Discrete.log_prob_stored P logits a = (DistGen.Discrete.forward P logits a).2.1 := rfl

/-- against the model's `catLogProb`: if `tbl` tabulates the primitive, the table entry the model selects is the
    value the generated code reports -/
theorem gen_discrete_log_prob_eq (tbl : List α → List α)
    (hP : ∀ l k, k < (tbl l).length → (tbl l)[k]? = some (P.categoricalLogProb l k))
    (logits : List α) (k : Nat) (hk : k < (tbl logits).length) :
    catLogProb (tbl logits) k = some (DistGen.Discrete.forward P logits k).2.1 := hP logits k hk

/-! ### MultiDiscrete -/

theorem multiCat_tabulated (tbl : List α → List α)
    (hP : ∀ l k, k < (tbl l).length → (tbl l)[k]? = some (P.categoricalLogProb l k))
    (parts : List (List α)) (action : List Nat)
    (hval : List.Forall₂ (fun part k => k < (tbl part).length) parts action) :
    multiCatLogProb (parts.map tbl) action
      = some (List.zipWith (fun l k => P.categoricalLogProb l k) parts action).sum := by
  unfold multiCatLogProb
  induction hval with
  | nil => rfl
  | @cons part k parts action h _ ih =>
    simp only [List.map_cons, List.zipWith_cons_cons, catLogProb, hP part k h, allSome_cons_some,
      List.sum_cons]
    cases hh : allSome (List.zipWith catLogProb (parts.map tbl) action) with
    | none => simp [hh] at ih
    | some vs =>
      simp only [hh, Option.map_some, Option.some.injEq] at ih ⊢
      simp [ih]

theorem gen_multiDiscrete_forward_eq (nvec : List Nat) (logits : List α) (action : List Nat) :
    DistGen.MultiDiscrete.forward P nvec logits action
      = (action,
         (List.zipWith (fun l k => P.categoricalLogProb l k) (splitSizes logits nvec) action).sum,
         sumEntropy ((splitSizes logits nvec).map P.categoricalEntropy)) := by
  simp only [DistGen.MultiDiscrete.forward, gen_splitSizes_eq, sumEntropy]

theorem gen_multiDiscrete_forward_masked_eq (nvec : List Nat) (logits : List α) (mask : List Bool)
    (action : List Nat) :
    DistGen.MultiDiscrete.forward_masked P nvec logits mask action
      = DistGen.MultiDiscrete.forward P nvec (maskSplit (genNeg P) nvec logits mask).flatten action := by
  simp only [DistGen.MultiDiscrete.forward_masked, DistGen.MultiDiscrete.forward, gen_where3_full,
    gen_splitSizes_eq, genNeg, maskSplit]

theorem gen_multiDiscrete_log_prob_stored_eq (nvec : List Nat) (logits : List α) (a : List Nat) :
    DistGen.MultiDiscrete.log_prob_stored P nvec logits a
      = (DistGen.MultiDiscrete.forward P nvec logits a).2.1 := rfl

theorem gen_multiDiscrete_entropy_stored_eq (nvec : List Nat) (logits : List α) (a : List Nat) :
    DistGen.MultiDiscrete.entropy_stored P nvec logits
      = (DistGen.MultiDiscrete.forward P nvec logits a).2.2 := rfl

/-- against the model's `multiCatLogProb` (split, select, sum) -/
theorem gen_multiDiscrete_log_prob_eq (tbl : List α → List α)
    (hP : ∀ l k, k < (tbl l).length → (tbl l)[k]? = some (P.categoricalLogProb l k))
    (nvec : List Nat) (logits : List α) (action : List Nat)
    (hval : List.Forall₂ (fun part k => k < (tbl part).length) (splitSizes logits nvec) action) :
    multiCatLogProb ((splitSizes logits nvec).map tbl) action
      = some (DistGen.MultiDiscrete.forward P nvec logits action).2.1 := by
  rw [gen_multiDiscrete_forward_eq]
  exact multiCat_tabulated P tbl hP _ _ hval

/-! ### MultiBinary -/

theorem gen_multiBinary_forward_eq (logits : List α) (bits : List Bool) :
    DistGen.MultiBinary.forward P logits bits
      = (bits,
         bernLogProb (logits.map (fun l => P.bernoulliLogProb l true))
           (logits.map (fun l => P.bernoulliLogProb l false)) bits,
         sumEntropy (logits.map P.bernoulliEntropy)) := by
  simp only [DistGen.MultiBinary.forward, sumEntropy, bernLogProb, Prod.mk.injEq, true_and, and_true]
  congr 1
  induction logits generalizing bits with
  | nil => simp
  | cons l ls ih =>
    cases bits with
    | nil => simp
    | cons b bs => cases b <;> simp [ih]

theorem gen_multiBinary_forward_masked_eq (n : Nat) (logits : List α) (mask : List Bool) (bits : List Bool) :
    DistGen.MultiBinary.forward_masked P n logits mask bits
      = DistGen.MultiBinary.forward P (maskSplit (genNeg P) [n] logits mask).flatten bits := by
  simp only [DistGen.MultiBinary.forward_masked, DistGen.MultiBinary.forward, gen_where3_full,
    gen_splitSizes_eq, genNeg, maskSplit]

theorem gen_multiBinary_log_prob_stored_eq (logits : List α) (a : List Bool) :
    DistGen.MultiBinary.log_prob_stored P logits a = (DistGen.MultiBinary.forward P logits a).2.1 := rfl

/-! ### Box: the Gaussian, the tanh squash and its cache -/

/-- the per-dimension log-densities `Normal(loc = logits, scale = exp(log_std))` as the model's `comp` -/
def genComp (log_std logits : List α) : List (α → α) :=
  List.zipWith (fun m s => P.normalLogPdf m s) logits (log_std.map P.exp)

/-- `log(1 - a.pow(2) + 1e-6)` as the source writes it -/
def genCorr : α → α := fun a => P.log (P.lit 1 - DistGen.powNat (P.lit 1) a 2 + P.lit (1 / 1000000))

/-- `atanh(a.clamp(min = -1.0 + eps, max = 1.0 - eps))` as the source writes it -/
def genPre (eps : α) : α → α := fun a => P.atanh (P.clamp (P.lit (-1) + eps) (P.lit 1 - eps) a)

def genEnts (log_std logits : List α) : List α :=
  List.zipWith P.normalEntropy logits (log_std.map P.exp)

/-- the `TorchDistribution` object `get_distribution` builds for a Box space -/
def genDist (sq : Bool) (log_std logits : List α) : TorchDist α :=
  { comp := genComp P log_std logits, squash := sq }

theorem indep_genComp (log_std logits x : List α) :
    indepLogProb (genComp P log_std logits) x
      = (DistGen.zipWith3 P.normalLogPdf logits (log_std.map P.exp) x).sum := by
  simp only [indepLogProb, genComp, gen_zipWith3_eq]

theorem corr_sum (a : List α) :
    (List.map P.log (List.map (fun x => x + P.lit (1 / 1000000)) (List.map (fun x => P.lit 1 - x)
      (List.map (fun x => DistGen.powNat (P.lit 1) x 2) a)))).sum = (a.map (genCorr P)).sum := by
  simp only [List.map_map, Function.comp_def]
  rfl

/-- `StochasticActor.forward` on a Box space = sample (cache the draw, squash), `log_prob` of the action just sampled,
    entropy; the returned action is rescaled to the bounds when squashing -/
theorem gen_box_forward_eq (sq : Bool) (low high log_std logits u preA : List α) :
    DistGen.Box.forward P sq low high log_std logits u
      = (let d := (genDist P sq log_std logits).sample P.tanh u
         ((if sq then DistGen.Box.scale_action P low high d.2 else d.2),
          d.1.logProbFixed (genCorr P) true d.2 preA,
          d.1.entropy (genEnts P log_std logits))) := by
  cases sq
  · simp only [DistGen.Box.forward, genDist, TorchDist.sample, TorchDist.logProbFixed, TorchDist.entropy,
      indep_genComp, sumEntropy, genEnts, DistGen.expandAs, Bool.false_eq_true, if_false]
  · simp only [DistGen.Box.forward, genDist, TorchDist.sample, TorchDist.logProbFixed, TorchDist.entropy,
      indep_genComp, corr_sum, DistGen.expandAs, DistGen.Box.scale_action, if_true]

/-- `forward` (fresh draw `u'`), then `action_log_prob(a)`: the model's repaired `log_prob` on the state the
    forward pass leaves, with the pre-image `atanh(clamp(a))` the source computes -/
theorem gen_box_log_prob_stored_eq (fresh sq : Bool) (log_std logits u' : List α) (eps : α) (a : List α) :
    DistGen.Box.log_prob_stored P fresh sq log_std logits u' eps a
      = ((genDist P sq log_std logits).sample P.tanh u').1.logProbFixed (genCorr P) fresh a
          (a.map (genPre P eps)) := by
  have hpre : List.map P.atanh (List.map (fun x => P.clamp (P.lit (-1) + eps) (P.lit 1 - eps) x) a)
      = a.map (genPre P eps) := by
    simp only [List.map_map, Function.comp_def]; rfl
  cases sq <;> cases fresh <;>
  simp only [DistGen.Box.log_prob_stored, corr_sum, hpre, genDist, TorchDist.sample, TorchDist.logProbFixed,
    indep_genComp, DistGen.expandAs, Bool.false_eq_true, if_false, if_true]

theorem gen_box_log_prob_stored_eq_evalStored (log_std logits u' : List α) (eps : α) (a : List α) :
    DistGen.Box.log_prob_stored P false true log_std logits u' eps a
      = evalStoredFixed (genComp P log_std logits) (genCorr P) P.tanh u' a (a.map (genPre P eps)) := by
  rw [gen_box_log_prob_stored_eq]; rfl

theorem gen_box_entropy_stored_eq (sq : Bool) (log_std logits : List α) :
    DistGen.Box.entropy_stored P sq log_std logits
      = (genDist P sq log_std logits).entropy (genEnts P log_std logits) := by
  cases sq <;> simp only [DistGen.Box.entropy_stored, genDist, TorchDist.entropy, sumEntropy, genEnts,
    DistGen.expandAs, Bool.false_eq_true, if_false, if_true]

/-! ### rescaling of the squashed action (carrier `Rat`, literals read exactly) -/

theorem gen_scale_action_eq (P : DistGen.Prims Rat) (hlit : ∀ q, P.lit q = q) (low high a : List Rat) :
    DistGen.Box.scale_action P low high a
      = DistGen.zipWith3 (fun l h x => Action.rescaleWith (-1) 1 l h x) low high a := by
  simp only [DistGen.Box.scale_action, hlit]
  induction low generalizing high a with
  | nil => simp [DistGen.zipWith3]
  | cons l ls ih =>
    cases high with
    | nil => simp [DistGen.zipWith3]
    | cons h hs =>
      cases a with
      | nil => simp [DistGen.zipWith3]
      | cons x xs =>
        simp only [List.map_cons, List.zipWith_cons_cons, DistGen.zipWith3, ih hs xs, List.cons.injEq,
          and_true, Action.rescaleWith]
        ring

/-! ### the hypotheses are satisfiable -/

/-- a concrete primitive structure over `Int` whose categorical log-probability is tabulated by the logits themselves -/
def exPrims : DistGen.Prims Int :=
  { lit := fun q => q.num, log := id, exp := id, tanh := id, atanh := id, clamp := fun _ _ x => x,
    normalLogPdf := fun m _ x => -((x - m) * (x - m)), normalEntropy := fun _ s => s,
    categoricalLogProb := fun l k => l.getD k 0, categoricalEntropy := fun l => l.sum,
    bernoulliLogProb := fun l b => if b then l else -l, bernoulliEntropy := fun l => l }

example : ∀ (l : List Int) k, k < (id l).length → (id l)[k]? = some (exPrims.categoricalLogProb l k) := by
  intro l k h
  have h' : k < l.length := h
  simp [exPrims, List.getD_eq_getElem?_getD, List.getElem?_eq_getElem h']

example : List.Forall₂ (fun (part : List Int) k => k < (id part).length) (splitSizes [1, 2, 3, 4, 5] [2, 3]) [1, 2] := by
  decide

example : DistGen.MultiDiscrete.forward exPrims [2, 3] [-1, -2, -3, -4, -5] [1, 2] = ([1, 2], -7, -15) := by decide
example : DistGen.Discrete.forward_masked exPrims [5, 6, 7] [true, false, true] 2 = (2, 7, -99999988) := by decide
example : DistGen.Box.forward exPrims false [0] [10] [2] [3] [4] = ([4], -1, some 2) := by decide
/-- the same with every literal read as 1 (so that `decide` need not evaluate a rational division) -/
def exPrims1 : DistGen.Prims Int := { exPrims with lit := fun _ => 1 }
-- squashing: action = low + 1·(tanh u + 1)·(high − low) with these primitives, log_prob = −(u − μ)² − (1 − 1·a·a + 1)
example : DistGen.Box.forward exPrims1 true [0] [10] [2] [3] [4] = ([50], -1 - (1 - 16 + 1), none) := by decide
-- a stored action is evaluated at its own pre-image (here `atanh ∘ clamp = id`), whatever the forward pass drew
example : DistGen.Box.log_prob_stored exPrims1 false true [2] [3] [100] 0 [4] = -1 - (1 - 16 + 1) := by decide
example : DistGen.Box.log_prob_stored exPrims1 false true [2] [3] [-7] 0 [4] = -1 - (1 - 16 + 1) := by decide

end Dist
