import Mathlib.Tactic.Ring
import Mathlib.Tactic.Linarith
import Mathlib.Tactic.Abel
import Mathlib.Algebra.BigOperators.Group.List.Basic
import Model.Dist

/-!
  Proofs/DistLemmas.lean — list-level facts about `Model/Dist.lean`: split offsets, masking
  commutes with splitting, selection of the component entries, sums of `zipWith`.
-/
namespace Dist
open Util

variable {α : Type}

theorem splitSizes_length (xs : List α) (nvec : List Nat) :
    (splitSizes xs nvec).length = nvec.length := by
  induction nvec generalizing xs with
  | nil => rfl
  | cons n ns ih => simp [splitSizes, ih]

theorem offset_zero (nvec : List Nat) : offset nvec 0 = 0 := by simp [offset]

theorem offset_succ (n : Nat) (ns : List Nat) (k : Nat) :
    offset (n :: ns) (k + 1) = n + offset ns k := by
  simp [offset, List.take_succ_cons]

/-- split `k` is the slice `[offset k, offset k + nvec[k])` of the flat vector -/
theorem splitSizes_getElem? (xs : List α) (nvec : List Nat) (k : Nat) (hk : k < nvec.length) :
    (splitSizes xs nvec)[k]? = some ((xs.drop (offset nvec k)).take nvec[k]) := by
  induction nvec generalizing xs k with
  | nil => simp at hk
  | cons n ns ih =>
    cases k with
    | zero => simp [splitSizes, offset_zero]
    | succ k =>
      have hk' : k < ns.length := by simpa using hk
      simp only [splitSizes, List.getElem?_cons_succ, offset_succ, List.getElem_cons_succ]
      rw [ih (xs.drop n) k hk', List.drop_drop]

theorem flatten_splitSizes (xs : List α) (nvec : List Nat) (h : xs.length ≤ nvec.sum) :
    (splitSizes xs nvec).flatten = xs := by
  induction nvec generalizing xs with
  | nil =>
    have : xs = [] := by simpa using h
    simp [splitSizes, this]
  | cons n ns ih =>
    simp only [splitSizes, List.flatten_cons]
    rw [ih (xs.drop n) (by simp only [List.length_drop, List.sum_cons] at *; omega)]
    exact List.take_append_drop n xs

theorem maskLogits_length (neg : α) (ls : List α) (ms : List Bool) :
    (maskLogits neg ls ms).length = min ls.length ms.length := by
  simp [maskLogits]

/-- masking every split = splitting the masked vector -/
theorem maskSplit_eq (neg : α) (nvec : List Nat) (ls : List α) (ms : List Bool) :
    maskSplit neg nvec ls ms = splitSizes (maskLogits neg ls ms) nvec := by
  induction nvec generalizing ls ms with
  | nil => simp [maskSplit, splitSizes]
  | cons n ns ih =>
    have := ih (ls.drop n) (ms.drop n)
    simp only [maskSplit, splitSizes, List.zipWith_cons_cons] at this ⊢
    rw [this]
    simp [maskLogits, List.take_zipWith, List.drop_zipWith]

theorem maskLogits_getElem? (neg : α) (ls : List α) (ms : List Bool) (i : Nat)
    (hi : i < ls.length) (hm : i < ms.length) :
    (maskLogits neg ls ms)[i]? = some (if ms[i] then ls[i] else neg) := by
  simp [maskLogits, List.getElem?_zipWith, List.getElem?_eq_getElem hi, List.getElem?_eq_getElem hm]

theorem allSome_cons_some (x : α) (r : List (Option α)) :
    allSome (some x :: r) = (allSome r).map (x :: ·) := rfl

/-- the entries selected by a valid MultiDiscrete action, with their flat positions -/
theorem select_spec (nvec : List Nat) (flat : List α) (action : List Nat)
    (hlen : nvec.sum ≤ flat.length) (hact : action.length = nvec.length)
    (hval : ∀ k (hk : k < nvec.length), action[k]'(by omega) < nvec[k]) :
    ∃ vals : List α,
      allSome (List.zipWith catLogProb (splitSizes flat nvec) action) = some vals ∧
      vals.length = nvec.length ∧
      ∀ k (hk : k < nvec.length),
        offset nvec k + action[k]'(by omega) < flat.length ∧
        vals[k]? = flat[offset nvec k + action[k]'(by omega)]? := by
  induction nvec generalizing flat action with
  | nil =>
    refine ⟨[], ?_, rfl, ?_⟩
    · simp [splitSizes, allSome]
    · intro k hk; simp at hk
  | cons n ns ih =>
    match action, hact with
    | a :: as, hact =>
      have hact' : as.length = ns.length := by simpa using hact
      have ha : a < n := by have := hval 0 (by simp); simpa using this
      have hsum : n + ns.sum ≤ flat.length := by simpa using hlen
      obtain ⟨vals', h1, h2, h3⟩ := ih (flat.drop n) as (by simp; omega) hact'
        (by intro k hk; have := hval (k + 1) (by simpa using hk); simpa using this)
      have haf : a < flat.length := by omega
      refine ⟨flat[a] :: vals', ?_, by simp [h2], ?_⟩
      · simp only [splitSizes, List.zipWith_cons_cons, catLogProb]
        rw [List.getElem?_take_of_lt ha, List.getElem?_eq_getElem haf, allSome_cons_some, h1]
        rfl
      · intro k hk
        cases k with
        | zero => simp [offset_zero, haf]
        | succ k =>
          have hk' : k < ns.length := by simpa using hk
          obtain ⟨b1, b2⟩ := h3 k hk'
          simp only [List.length_drop] at b1
          simp only [offset_succ, List.getElem_cons_succ, List.getElem?_cons_succ]
          refine ⟨by omega, ?_⟩
          rw [b2, List.getElem?_drop]
          congr 1; omega

section sums
variable {β : Type} [AddCommGroup β]

theorem sum_zipWith_sub (fs : List (β → β)) (xs : List β) (g : β → β) (h : fs.length = xs.length) :
    (List.zipWith (fun f v => f v) fs xs).sum - (xs.map g).sum
      = (List.zipWith (fun f v => f v - g v) fs xs).sum := by
  induction fs generalizing xs with
  | nil => cases xs <;> simp_all
  | cons f fs ih =>
    cases xs with
    | nil => simp at h
    | cons x xs =>
      have h' : fs.length = xs.length := by simpa using h
      simp only [List.zipWith_cons_cons, List.sum_cons, List.map_cons]
      rw [← ih xs h']
      abel

end sums

end Dist
