import Mathlib.Analysis.SpecialFunctions.Trigonometric.DerivHyp
import Mathlib.Analysis.SpecialFunctions.Log.Basic
import Mathlib.Analysis.SpecialFunctions.Exp
import Mathlib.Algebra.Order.BigOperators.Group.List
import Mathlib.Algebra.BigOperators.Group.Finset.Basic
import Mathlib.Tactic.Ring
import Mathlib.Tactic.Linarith
import Mathlib.Tactic.FieldSimp
import Proofs.DistLemmas

/-!
  Proofs/DistReal.lean — the real-analysis facts behind C16 (carrier ℝ, Mathlib `exp/log/tanh`):
  derivative of tanh (derived from Mathlib's `sinh/cosh` derivatives), softmax mass bound,
  additivity of Shannon entropy over independent components, log of a product.
-/
namespace Dist
open Real

/-- `tanh' = 1 − tanh²`, derived by the quotient rule from `sinh' = cosh`, `cosh' = sinh`,
    `cosh² = sinh² + 1` (all Mathlib) -/
theorem hasDerivAt_tanh (x : ℝ) : HasDerivAt Real.tanh (1 - Real.tanh x ^ 2) x := by
  have hc : Real.cosh x ≠ 0 := (Real.cosh_pos x).ne'
  have h := (Real.hasDerivAt_sinh x).div (Real.hasDerivAt_cosh x) hc
  have e : (fun y => Real.sinh y / Real.cosh y) = Real.tanh := by
    funext y; rw [Real.tanh_eq_sinh_div_cosh]
  have e2 : (fun y => Real.sinh y / Real.cosh y) = (Real.sinh / Real.cosh) := rfl
  rw [← e2, e] at h
  have hv : (Real.cosh x * Real.cosh x - Real.sinh x * Real.sinh x) / Real.cosh x ^ 2
      = 1 - Real.tanh x ^ 2 := by
    rw [Real.tanh_eq_sinh_div_cosh]
    field_simp
  rw [hv] at h
  exact h

theorem deriv_tanh (x : ℝ) : deriv Real.tanh x = 1 - Real.tanh x ^ 2 := (hasDerivAt_tanh x).deriv

theorem deriv_tanh_pos (x : ℝ) : 0 < deriv Real.tanh x := by
  rw [deriv_tanh]; have := Real.tanh_sq_lt_one x; linarith

/-- softmax probability of entry `i` of a logit list -/
noncomputable def softmaxAt (z : List ℝ) (i : Nat) : ℝ := Real.exp (z.getD i 0) / (z.map Real.exp).sum

theorem exp_le_sum_exp (z : List ℝ) (m : Nat) (hm : m < z.length) :
    Real.exp z[m] ≤ (z.map Real.exp).sum := by
  apply List.single_le_sum
  · intro x hx
    obtain ⟨y, _, rfl⟩ := List.mem_map.mp hx
    exact (Real.exp_pos y).le
  · exact List.mem_map.mpr ⟨z[m], List.getElem_mem hm, rfl⟩

/-- an entry that lies `gap` below some other entry has softmax mass at most `exp(−gap)` -/
theorem softmaxAt_le (z : List ℝ) (i m : Nat) (hi : i < z.length) (hm : m < z.length)
    (gap : ℝ) (h : z[i] ≤ z[m] - gap) : softmaxAt z i ≤ Real.exp (-gap) := by
  have hS := exp_le_sum_exp z m hm
  have hpos : 0 < Real.exp z[m] := Real.exp_pos _
  have hSpos : 0 < (z.map Real.exp).sum := lt_of_lt_of_le hpos hS
  unfold softmaxAt
  have e : z.getD i 0 = z[i] := by simp [List.getD_eq_getElem?_getD, hi]
  rw [e, div_le_iff₀ hSpos]
  calc Real.exp z[i] ≤ Real.exp (z[m] - gap) := Real.exp_le_exp.mpr h
    _ = Real.exp (-gap) * Real.exp z[m] := by rw [← Real.exp_add]; congr 1; ring
    _ ≤ Real.exp (-gap) * (z.map Real.exp).sum :=
        mul_le_mul_of_nonneg_left hS (Real.exp_pos _).le

/-- Shannon entropy of a finite probability vector (`0 · log 0 = 0` as in Mathlib) -/
noncomputable def shannon {ι : Type} [Fintype ι] (p : ι → ℝ) : ℝ := -∑ i, p i * Real.log (p i)

theorem mul_log_mul (a b : ℝ) :
    a * b * Real.log (a * b) = b * (a * Real.log a) + a * (b * Real.log b) := by
  by_cases ha : a = 0
  · simp [ha]
  by_cases hb : b = 0
  · simp [hb]
  rw [Real.log_mul ha hb]; ring

theorem shannon_prod {ι κ : Type} [Fintype ι] [Fintype κ] (p : ι → ℝ) (q : κ → ℝ)
    (hp : ∑ i, p i = 1) (hq : ∑ j, q j = 1) :
    shannon (fun ij : ι × κ => p ij.1 * q ij.2) = shannon p + shannon q := by
  unfold shannon
  rw [Fintype.sum_prod_type]
  have : ∀ i, ∑ j, p i * q j * Real.log (p i * q j)
      = (p i * Real.log (p i)) * ∑ j, q j + p i * ∑ j, q j * Real.log (q j) := by
    intro i
    rw [Finset.mul_sum, Finset.mul_sum, ← Finset.sum_add_distrib]
    refine Finset.sum_congr rfl (fun j _ => ?_)
    rw [mul_log_mul]; ring
  simp only [this, hq, mul_one]
  rw [Finset.sum_add_distrib, ← Finset.sum_mul, hp]
  ring

end Dist
