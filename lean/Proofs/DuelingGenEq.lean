import Gen.DuelingGen
import Model.C51

/-!
  Proofs/DuelingGenEq.lean — the definitions `harness/py2lean_dueling.py` generates from the source text of
  `DuelingDistributionalMLP.{__init__, forward, recreate_network}` and `RainbowQNetwork.{__init__,
  build_network_head, forward, recreate_network}` (`Gen/DuelingGen.lean`) are equal to the hand-written model
  (`namespace Duel` of `Model/C51.lean`), for every carrier and every choice of `exp` / `log`:

    value_width, advantage_width, recreate_advantage_width  = N, A·N, A·N
    init_attrs, net_head_args_build / _recreate             = the head gets (num_actions, num_atoms, support) of the
                                                              network, on construction and on every rebuild
    softmax_arg = log_softmax_arg                           = Duel.combine  (value + advantage − action-mean)
    forward P A N support adv value q log                   = Duel.forward  (log wins over q; clamp only without log)
    net_forward                                             = Duel.forward on the sub-networks of the latent

  The proofs unfold the generated text, fuse nested `List.map`s and close by `rfl`: a changed operator, operand
  order, constant, `dim`, a dropped clamp, a swapped branch or flag leaves a false goal.  Absorbed by construction
  of the translator (locals are substituted): renamings, temporaries, `x += y` ↔ `x = x + y`, reordering of
  independent statements.
-/

set_option linter.unusedSectionVars false
set_option linter.unusedSimpArgs false
set_option linter.unusedVariables false

namespace Duel

variable {α : Type} [Add α] [Sub α] [Mul α] [Div α] [Zero α] [Max α]

/-- the model's elementary functions as the generated `Prims` -/
def prims (F : Fn α) : DuelingGen.Prims α := { lit := F.lit, exp := F.exp, log := F.log }

/-- … and back -/
def ofPrims (P : DuelingGen.Prims α) : Fn α := { lit := P.lit, exp := P.exp, log := P.log }

/-- the generated result type is the model's -/
def ofOut : DuelingGen.Out α → Out α
  | .vec v => .vec v
  | .mat m => .mat m

theorem gen_viewRows_eq (r c : Nat) (flat : List α) : DuelingGen.viewRows r c flat = rows r c flat := rfl

theorem gen_softmaxRow_eq (P : DuelingGen.Prims α) (row : List α) :
    DuelingGen.softmaxRow P row = softmax (ofPrims P) row := rfl

theorem gen_logSoftmaxRow_eq (P : DuelingGen.Prims α) (row : List α) :
    DuelingGen.logSoftmaxRow P row = logSoftmax (ofPrims P) row := rfl

theorem gen_meanRows_eq (P : DuelingGen.Prims α) (r c : Nat) (m : List (List α)) :
    DuelingGen.meanRows P r c m = [colMean (ofPrims P) r c m] := rfl

/-! ### `__init__` / `recreate_network` of the head, `build_network_head` / `recreate_network` of the network -/

theorem gen_widths_eq (A N : Nat) :
    DuelingGen.value_width N A = N ∧ DuelingGen.advantage_width N A = A * N ∧
    DuelingGen.recreate_advantage_width A N = A * N := ⟨rfl, rfl, rfl⟩

/-- the head built by `build_network_head` and the one built by `recreate_network` get the network's
    `(num_actions, num_atoms, support)` -/
theorem gen_head_attrs_eq {S : Type} (A N : Nat) (sup : S) :
    (let c := DuelingGen.net_head_args_build A N sup; DuelingGen.init_attrs c.1 c.2.1 c.2.2) = (A, N, sup) ∧
    (let c := DuelingGen.net_head_args_recreate A N sup; DuelingGen.init_attrs c.1 c.2.1 c.2.2) = (A, N, sup) :=
  ⟨rfl, rfl⟩

theorem gen_net_init_attrs_eq {S : Type} (N : Nat) (sup : S) : DuelingGen.net_init_attrs N sup = (N, sup) := rfl

/-! ### `forward` -/

theorem gen_softmax_arg_eq (P : DuelingGen.Prims α) (A N : Nat) (sup adv value : List α) :
    DuelingGen.softmax_arg P A N sup (advantage_net_out := adv) (model_out := value) = combine (ofPrims P) A N value adv := by
  unfold DuelingGen.softmax_arg combine
  simp only [gen_meanRows_eq, gen_viewRows_eq, List.map_map, List.headD_cons]
  rfl

theorem gen_log_softmax_arg_eq (P : DuelingGen.Prims α) (A N : Nat) (sup adv value : List α) :
    DuelingGen.log_softmax_arg P A N sup (advantage_net_out := adv) (model_out := value) = combine (ofPrims P) A N value adv := by
  unfold DuelingGen.log_softmax_arg combine
  simp only [gen_meanRows_eq, gen_viewRows_eq, List.map_map, List.headD_cons]
  rfl

theorem gen_forward_eq (P : DuelingGen.Prims α) (A N : Nat) (sup adv value : List α) (q log : Bool) :
    ofOut (DuelingGen.forward P A N sup (advantage_net_out := adv) (model_out := value) (q := q) (log := log)) = forward (ofPrims P) A N sup value adv q log := by
  unfold DuelingGen.forward forward dist combine
  simp only [gen_meanRows_eq, gen_viewRows_eq, gen_softmaxRow_eq, gen_logSoftmaxRow_eq, List.map_map,
    List.headD_cons]
  cases log <;> cases q <;> rfl

theorem gen_net_forward_eq {Obs Latent : Type} (P : DuelingGen.Prims α) (A N : Nat) (sup : List α)
    (ef : Obs → Latent) (advNet valNet : Latent → List α) (obs : Obs) (q log : Bool) :
    ofOut (DuelingGen.net_forward P A N sup (extract_features := ef) (head_advantage_net := advNet)
        (head_model := valNet) obs (q := q) (log := log)) =
      forward (ofPrims P) A N sup (valNet (ef obs)) (advNet (ef obs)) q log := by
  rw [← gen_forward_eq]
  rfl

end Duel
