import Mathlib.Algebra.Order.Field.Basic
import Mathlib.Algebra.Order.Field.Rat
import Mathlib.Algebra.BigOperators.Group.List.Basic
import Mathlib.Algebra.Order.BigOperators.Group.List
import Mathlib.Data.List.GetD
import Mathlib.Tactic.Ring
import Mathlib.Tactic.Linarith
import Mathlib.Tactic.FieldSimp
import Model.C51

/-!
  Proofs/DuelingLemmas.lean — facts about the dueling distributional head (`namespace Duel` of `Model/C51.lean`)
  over an arbitrary linearly ordered field `K` with an abstract POSITIVE `exp` (so they hold over ℝ with
  `Real.exp` and over ℚ with any positive table, which is what the driver runs): shapes, the dueling identity,
  soft-max is a probability vector, the clamp's mass bounds.
-/
set_option linter.unusedSectionVars false

namespace Duel

variable {K : Type} [Field K] [LinearOrder K] [IsStrictOrderedRing K]

/-! ### lists -/

theorem sum_map_shift {β : Type} (l : List β) (f : β → K) (c m : K) :
    (l.map fun x => c + f x - m).sum = (l.length : K) * (c - m) + (l.map f).sum := by
  induction l with
  | nil => simp
  | cons x xs ih => simp only [List.map_cons, List.sum_cons, List.length_cons, ih]; push_cast; ring

theorem sum_map_div {β : Type} (l : List β) (f : β → K) (z : K) :
    (l.map fun x => f x / z).sum = (l.map f).sum / z := by
  induction l with
  | nil => simp
  | cons x xs ih => simp only [List.map_cons, List.sum_cons, ih, add_div]

theorem sum_map_pos {β : Type} (l : List β) (f : β → K) (hf : ∀ x, 0 < f x) (hl : l ≠ []) :
    0 < (l.map f).sum := by
  induction l with
  | nil => exact absurd rfl hl
  | cons x xs ih =>
    simp only [List.map_cons, List.sum_cons]
    by_cases h : xs = []
    · subst h; simpa using hf x
    · have := ih h; have := hf x; linarith

theorem sum_le_sum_map_max (l : List K) (c : K) : l.sum ≤ (l.map fun p => max p c).sum := by
  induction l with
  | nil => simp
  | cons x xs ih =>
    simp only [List.map_cons, List.sum_cons]
    have := le_max_left x c
    linarith

theorem sum_map_max_le (l : List K) (c : K) (hc : 0 ≤ c) (hl : ∀ p ∈ l, 0 ≤ p) :
    (l.map fun p => max p c).sum ≤ l.sum + (l.length : K) * c := by
  induction l with
  | nil => simp
  | cons x xs ih =>
    simp only [List.map_cons, List.sum_cons, List.length_cons]
    have hx : 0 ≤ x := hl x (by simp)
    have h1 : max x c ≤ x + c := max_le (by linarith) (by linarith)
    have := ih (fun p hp => hl p (by simp [hp]))
    push_cast
    linarith

theorem getD_zipWith {f : K → K → K} (a b : List K) (j : Nat) (ha : j < a.length) (hb : j < b.length) :
    (List.zipWith f a b).getD j 0 = f (a.getD j 0) (b.getD j 0) := by
  have hz : j < (List.zipWith f a b).length := by simp [ha, hb]
  rw [List.getD_eq_getElem _ _ hz, List.getD_eq_getElem _ _ ha, List.getD_eq_getElem _ _ hb, List.getElem_zipWith]

/-! ### shapes -/

theorem rows_length (A N : Nat) (flat : List K) : (rows A N flat).length = A := by simp [rows]

theorem rows_row_length (A N : Nat) (flat : List K) (h : flat.length = A * N) :
    ∀ row ∈ rows A N flat, row.length = N := by
  intro row hrow
  obtain ⟨a, ha, rfl⟩ := List.mem_map.mp hrow
  have ha' : a < A := List.mem_range.mp ha
  simp only [List.length_take, List.length_drop, h]
  have : (a + 1) * N ≤ A * N := Nat.mul_le_mul_right N ha'
  have e : (a + 1) * N = a * N + N := by ring
  omega

theorem colMean_length (F : Fn K) (A N : Nat) (m : List (List K)) : (colMean F A N m).length = N := by
  simp [colMean]

theorem combine_length (F : Fn K) (A N : Nat) (value adv : List K) :
    (combine F A N value adv).length = A := by simp [combine, rows]

theorem combine_row_length (F : Fn K) (A N : Nat) (value adv : List K) (hv : value.length = N)
    (ha : adv.length = A * N) : ∀ row ∈ combine F A N value adv, row.length = N := by
  intro row hrow
  obtain ⟨r, hr, rfl⟩ := List.mem_map.mp hrow
  have := rows_row_length A N adv ha r hr
  simp [hv, this, colMean_length]

/-! ### (i) the dueling identity -/

/-- entry `(a, j)` of the combined logits is `v_j + adv_{a,j} − mean_a adv_{·,j}` -/
theorem combine_entry (F : Fn K) (A N : Nat) (value adv : List K) (hv : value.length = N)
    (ha : adv.length = A * N) (j : Nat) (hj : j < N) :
    (combine F A N value adv).map (fun row => row.getD j 0) =
      (rows A N adv).map fun row => value.getD j 0 + row.getD j 0 - (colMean F A N (rows A N adv)).getD j 0 := by
  unfold combine
  rw [List.map_map]
  apply List.map_congr_left
  intro row hrow
  have hl := rows_row_length A N adv ha row hrow
  simp only [Function.comp]
  rw [getD_zipWith _ _ j (by simp [hv, hl, hj]) (by simp [colMean_length, hj]),
      getD_zipWith _ _ j (by omega) (by omega)]

/-- **dueling identity**: the mean over the actions of the combined logits is the value net's output, atom by
    atom — for every number of actions `A ≥ 1`, atoms `N` and all logits -/
theorem colMean_combine (F : Fn K) (hlit : ∀ n : Nat, F.lit (n : Rat) = (n : K)) (A N : Nat) (hA : 0 < A)
    (value adv : List K) (hv : value.length = N) (ha : adv.length = A * N) :
    colMean F A N (combine F A N value adv) = value := by
  apply List.ext_getElem
  · simp [colMean, hv]
  · intro j h1 h2
    have hj : j < N := by simpa [colMean] using h1
    have hAK : (A : K) ≠ 0 := by exact_mod_cast hA.ne'
    simp only [colMean, List.getElem_map, List.getElem_range]
    rw [combine_entry F A N value adv hv ha j hj, sum_map_shift, rows_length, hlit]
    have hm : (colMean F A N (rows A N adv)).getD j 0 =
        ((rows A N adv).map fun row => row.getD j 0).sum / (A : K) := by
      rw [List.getD_eq_getElem _ _ (by simp [colMean, hj])]
      simp [colMean, hlit]
    rw [hm, List.getD_eq_getElem _ _ h2]
    field_simp
    ring

/-! ### (ii) soft-max is a probability vector -/

theorem softmax_length (F : Fn K) (row : List K) : (softmax F row).length = row.length := by simp [softmax]

theorem softmax_pos (F : Fn K) (hexp : ∀ x, 0 < F.exp x) (row : List K) : ∀ p ∈ softmax F row, 0 < p := by
  intro p hp
  obtain ⟨x, hx, rfl⟩ := List.mem_map.mp hp
  have hne : row ≠ [] := List.ne_nil_of_mem hx
  exact div_pos (hexp x) (sum_map_pos row F.exp hexp hne)

theorem softmax_sum (F : Fn K) (hexp : ∀ x, 0 < F.exp x) (row : List K) (hne : row ≠ []) :
    (softmax F row).sum = 1 := by
  unfold softmax
  rw [sum_map_div]
  exact div_self (sum_map_pos row F.exp hexp hne).ne'

/-! ### (iii) after `clamp(min = 1e-3)` -/

/-- one clamped soft-max row: same length, every entry at least the floor, mass in `[1, 1 + N·floor]` -/
theorem clamped_row (F : Fn K) (hexp : ∀ x, 0 < F.exp x) (c : K) (hc : 0 ≤ c) (row : List K) (hne : row ≠ []) :
    let p := (softmax F row).map fun p => max p c
    p.length = row.length ∧ (∀ x ∈ p, c ≤ x) ∧ 1 ≤ p.sum ∧ p.sum ≤ 1 + (row.length : K) * c := by
  intro p
  refine ⟨by simp [p, softmax], ?_, ?_, ?_⟩
  · intro x hx
    obtain ⟨y, _, rfl⟩ := List.mem_map.mp hx
    exact le_max_right _ _
  · have := sum_le_sum_map_max (softmax F row) c
    rw [softmax_sum F hexp row hne] at this
    exact this
  · have := sum_map_max_le (softmax F row) c hc (fun q hq => (softmax_pos F hexp row q hq).le)
    rw [softmax_sum F hexp row hne, softmax_length] at this
    exact this

/-- every action's distribution returned by `forward(q=False)`: `N` entries, each at least `1e-3`, mass in
    `[1, 1 + N·1e-3]` -/
theorem dist_rows (F : Fn K) (hexp : ∀ x, 0 < F.exp x) (hfl : F.lit floorLit = (1 : K) / 1000) (A N : Nat)
    (hN : 0 < N) (value adv : List K) (hv : value.length = N) (ha : adv.length = A * N) :
    (dist F A N value adv).length = A ∧
    ∀ p ∈ dist F A N value adv,
      p.length = N ∧ (∀ x ∈ p, (1 : K) / 1000 ≤ x) ∧ 1 ≤ p.sum ∧ p.sum ≤ 1 + (N : K) * (1 / 1000) := by
  refine ⟨by simp [dist, combine_length], ?_⟩
  intro p hp
  obtain ⟨row, hrow, rfl⟩ := List.mem_map.mp hp
  have hl := combine_row_length F A N value adv hv ha row hrow
  have hne : row ≠ [] := by intro e; rw [e] at hl; simp at hl; omega
  have := clamped_row F hexp ((1 : K) / 1000) (by norm_num) row hne
  rw [hfl]
  rw [hl] at this
  exact this

end Duel
