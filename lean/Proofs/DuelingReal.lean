import Mathlib.Analysis.SpecialFunctions.Log.Basic
import Mathlib.Analysis.SpecialFunctions.Exp
import Proofs.DuelingLemmas

/-!
  Proofs/DuelingReal.lean — the dueling head over ℝ with Mathlib's `Real.exp` / `Real.log`: `log_softmax` is the
  logarithm of the (unclamped) soft-max, and a row on which it differs from the logarithm of the clamped soft-max.
-/
namespace Duel
open Real

/-- the elementary functions over ℝ: literals read exactly, Mathlib's `exp` and `log` -/
noncomputable def realFn : Fn ℝ := { lit := fun q => (q : ℝ), exp := Real.exp, log := Real.log }

theorem realFn_exp_pos : ∀ x, 0 < realFn.exp x := Real.exp_pos

theorem realFn_lit_nat (n : Nat) : realFn.lit (n : Rat) = (n : ℝ) := by simp [realFn]

theorem realFn_floor : realFn.lit floorLit = (1 : ℝ) / 1000 := by simp [realFn, floorLit]

/-- `log_softmax(x)_j = log(softmax(x)_j)` -/
theorem logSoftmax_eq_log_softmax (row : List ℝ) :
    logSoftmax realFn row = (softmax realFn row).map Real.log := by
  unfold logSoftmax softmax
  rw [List.map_map]
  apply List.map_congr_left
  intro x hx
  have hZ : 0 < (row.map realFn.exp).sum := sum_map_pos row realFn.exp realFn_exp_pos (List.ne_nil_of_mem hx)
  simp only [Function.comp, realFn] at hZ ⊢
  rw [Real.log_div (Real.exp_pos x).ne' hZ.ne', Real.log_exp]

/-- an entry whose soft-max probability is below the floor: the clamp lifts it, so `log(forward(q=False))`
    is strictly above `forward(log=True)` there -/
theorem log_clamped_gt (row : List ℝ) (j : Nat) (hj : j < row.length)
    (hlow : (softmax realFn row).getD j 0 < 1 / 1000) :
    (logSoftmax realFn row).getD j 0 <
      Real.log (((softmax realFn row).map fun p => max p (realFn.lit floorLit)).getD j 0) := by
  have hs : j < (softmax realFn row).length := by rw [softmax_length]; exact hj
  rw [logSoftmax_eq_log_softmax, List.getD_eq_getElem _ _ (by simpa using hs),
      List.getD_eq_getElem _ _ (by simpa using hs), List.getElem_map, List.getElem_map, realFn_floor]
  rw [List.getD_eq_getElem _ _ hs] at hlow
  have hp : 0 < (softmax realFn row)[j] := softmax_pos realFn realFn_exp_pos row _ (List.getElem_mem hs)
  rw [max_eq_right hlow.le]
  exact Real.log_lt_log hp hlow

/-- the witness row `[0, 1000]`: entry 0 has probability `1 / (1 + e^1000) < 1e-3` -/
theorem witness_low : (softmax realFn [0, 1000]).getD 0 0 < 1 / 1000 := by
  have h : (1001 : ℝ) ≤ Real.exp 1000 := by have := Real.add_one_le_exp (1000 : ℝ); linarith
  simp only [softmax, realFn, List.map_cons, List.map_nil, List.sum_cons, List.sum_nil, List.getD_cons_zero,
    Real.exp_zero, add_zero]
  rw [div_lt_div_iff₀ (by positivity) (by norm_num)]
  linarith

end Duel
