import Gen.EvoStepGen
import Model.Loop

/-!
# `Gen/EvoStepGen.lean` (generated from `tournament_selection_and_mutation` and `Mutations.mutation`) = `Loop.Evo`

`opsM`, `cfgM`, `evM`, `accelM` read the generated parameter structures as the model's.  `gen_isChoice_eq`,
`gen_setElite_eq` (`mutation_choice[0] = self.no_mutation`), `gen_mutLoop_eq` (the per-individual loop),
`gen_mutation_eq` (`Mutations.mutation = Loop.Evo.mutation`), `gen_tempPath_eq`, `gen_tsm_eq`
(`tournament_selection_and_mutation = Loop.Evo.evoStep`, all three paths), `gen_evostep_eq` (the composition:
the generated step calling the generated `Mutations.mutation`).  All for every population and every argument.
-/
namespace EvoStepGenEq
open EvoStepGen

def opsM {A M : Type} (o : AgentOps A M) : Loop.Evo.Ops A M :=
  { className := o.class_name, unwrap := o.unwrap_models, wrap := o.wrap_models, load := o.load_checkpoint,
    call := o.call, post := o.post }

def cfgM {M : Type} (s : Mutations M) : Loop.Evo.MutCfg M :=
  { options := s.mut_options, proba := s.mut_proba, preOptions := s.pretraining_mut_options,
    preProba := s.pretraining_mut_proba, mutateElite := s.mutate_elite, noMut := s.no_mutation }

def evM {A : Type} : Ev A → Loop.Evo.Ev A
  | .save a p => .save a p
  | .save_llm a p => .saveLLM a p

def accelM (a : Option Accelerator) : Option Bool := a.map (·.is_main_process)

def resM {A : Type} (r : Option (List A × List (Ev A))) : Option (List A × List (Loop.Evo.Ev A)) :=
  r.map (fun x => (x.1, x.2.map evM))

theorem gen_isChoice_eq {M : Type} [BEq M] (opts : List M) (n : Nat) (p : List Rat) (d : List M) :
    isChoice opts n p d = Loop.Evo.drawOk opts p n d := rfl

/-- `mutation_choice[0] = self.no_mutation` -/
theorem gen_setElite_eq {M : Type} (s : Mutations M) (d : List M) :
    (if (!s.mutate_elite) = true then
        (match pySetItem d 0 s.no_mutation with | none => none | some r => some r)
      else some d) = Loop.Evo.applied (cfgM s) d := by
  unfold Loop.Evo.applied cfgM
  cases hme : s.mutate_elite <;> simp [pySetItem]
  cases d <;> simp

/-- the per-individual loop: an append-accumulating fold is `zipWith` -/
theorem gen_mutLoop_eq {A M : Type} (o : AgentOps A M) : ∀ (ms : List M) (pop acc : List A),
    (List.zip ms pop).foldl (fun (acc : List A) (x : M × A) => acc ++ [o.post (o.call x.1 x.2)]) acc =
      acc ++ Loop.Evo.mutateWith (opsM o) ms pop
  | [], _, acc => by simp [Loop.Evo.mutateWith]
  | _ :: _, [], acc => by simp [Loop.Evo.mutateWith]
  | m :: ms, a :: pop, acc => by
    simp only [List.zip_cons_cons, List.foldl_cons]
    rw [gen_mutLoop_eq o ms pop]
    simp [Loop.Evo.mutateWith, opsM]

/-- **generated = model**: `Mutations.mutation` -/
theorem gen_mutation_eq {A M : Type} [BEq M] (o : AgentOps A M) (s : Mutations M) (pop : List A) (pre : Bool)
    (d : List M) :
    Mutations.mutation o s pop pre d = Loop.Evo.mutation (opsM o) (cfgM s) pre d pop := by
  unfold Mutations.mutation Loop.Evo.mutation
  simp only [gen_isChoice_eq]
  have ho : (if pre = true then s.pretraining_mut_options else s.mut_options) = Loop.Evo.optionsOf (cfgM s) pre := rfl
  have hp : (if pre = true then s.pretraining_mut_proba else s.mut_proba) = Loop.Evo.probaOf (cfgM s) pre := rfl
  rw [ho, hp]
  simp only [gen_mutLoop_eq, List.nil_append]
  split
  · cases hme : s.mutate_elite with
    | true => simp [Loop.Evo.applied, cfgM, hme]
    | false =>
      cases d with
      | nil => simp [Loop.Evo.applied, cfgM, hme, pySetItem]
      | cons m ms => simp [Loop.Evo.applied, cfgM, hme, pySetItem]
  · rfl

theorem gen_tempPath_eq (envName algo : String) (i : Nat) :
    "models/" ++ envName ++ "/" ++ algo ++ "_" ++ toString i ++ ".pt" = Loop.Evo.tempPath envName algo i := rfl

theorem map_mapIdx' {α β γ : Type} (l : List α) (f : Nat → α → β) (g : β → γ) :
    (l.mapIdx f).map g = l.mapIdx (fun i a => g (f i a)) := by
  apply List.ext_getElem?
  intro i
  simp only [List.getElem?_map, List.getElem?_mapIdx]
  cases l[i]? <;> rfl

/-- the part of the proof after `algo` has been resolved: split on the accelerator path, on what `select` and
    `mutation.mutation` return and on the `save_elite` arguments; every leaf closes by computation -/
local macro "evo_tail" o:ident pop:ident select:ident mutate:ident accel:ident saveElite:ident llm:ident
    elitePath:ident : tactic =>
  `(tactic| (
    cases $accel:ident with
    | none =>
      simp only [Option.map_none]
      cases hs : $select:ident $pop:ident with
      | none => simp [hs]
      | some es =>
        obtain ⟨elite, sel⟩ := es
        cases hm : $mutate:ident sel with
        | none => simp [hs, hm]
        | some res =>
          cases $saveElite:ident <;> cases $llm:ident <;> cases $elitePath:ident <;>
            simp [Loop.Evo.eliteEvents, Loop.Evo.elitePathOf, evM, pySplitHead, opsM, hs, hm]
    | some ac =>
      obtain ⟨mainp⟩ := ac
      cases mainp with
      | true =>
        simp only [Option.map_some]
        cases hs : $select:ident (List.map (AgentOps.unwrap_models $o:ident) $pop:ident) with
        | none => simp [opsM, hs]
        | some es =>
          obtain ⟨elite, sel⟩ := es
          cases hm : $mutate:ident sel with
          | none => simp [opsM, hs, hm]
          | some res =>
            cases $saveElite:ident <;> cases $llm:ident <;> cases $elitePath:ident <;>
              simp [Loop.Evo.eliteEvents, Loop.Evo.elitePathOf, evM, pySplitHead, opsM, hs, hm,
                Loop.Evo.tempPath, map_mapIdx']
      | false =>
        cases $saveElite:ident <;> cases $llm:ident <;> cases $elitePath:ident <;>
          simp [opsM, Loop.Evo.tempPath]))

/-- **generated = model**: `tournament_selection_and_mutation`, every path, every argument -/
theorem gen_tsm_eq {A M : Type} (o : AgentOps A M) (pop : List A) (select : List A → Option (A × List A))
    (mutate : List A → Option (List A)) (envName : String) (algo elitePath : Option String) (saveElite : Bool)
    (accel : Option Accelerator) (llm : Bool) :
    resM (tournament_selection_and_mutation o pop select mutate envName algo elitePath saveElite accel llm) =
      Loop.Evo.evoStep (opsM o) select mutate pop envName algo elitePath saveElite (accelM accel) llm := by
  unfold tournament_selection_and_mutation Loop.Evo.evoStep resM accelM
  have hidx : pyIndex pop 0 = pop.head? := by cases pop <;> simp [pyIndex]
  cases algo with
  | none =>
    simp only [hidx]
    cases hh : pop.head? with
    | none => simp
    | some a0 =>
      simp only [Option.map_some]
      evo_tail o pop select mutate accel saveElite llm elitePath
  | some al =>
    evo_tail o pop select mutate accel saveElite llm elitePath

/-- the composition as the training loops run it: the generated step with the generated `Mutations.mutation`
    (`pre_training_mut` left at its default) as `mutation.mutation` = the model's step with the model's mutation -/
theorem gen_evostep_eq {A M : Type} [BEq M] (o : AgentOps A M) (s : Mutations M) (d : List A → List M) (pop : List A)
    (select : List A → Option (A × List A)) (envName : String) (algo elitePath : Option String) (saveElite : Bool)
    (accel : Option Accelerator) (llm : Bool) :
    resM (tournament_selection_and_mutation o pop select (fun p => Mutations.mutation o s p false (d p))
        envName algo elitePath saveElite accel llm) =
      Loop.Evo.evoStep (opsM o) select (fun p => Loop.Evo.mutation (opsM o) (cfgM s) false (d p) p) pop envName algo
        elitePath saveElite (accelM accel) llm := by
  rw [gen_tsm_eq]
  congr 1
  funext p
  exact gen_mutation_eq o s p false (d p)

end EvoStepGenEq
