import Proofs.GAEFlat
import Gen.FlattenGen

/-!
  Proofs/FlattenGenEq.lean — the index maps that `harness/py2lean_flatten.py` derives from the SOURCE TEXT of
  `stack_experiences` / `flatten_experiences` / `get_experiences_samples` / `vectorize_experiences_by_agent` /
  `concatenate_experiences_into_batches`, `PPO.learn` and `IPPO.assemble_shared_inputs` / `_learn_individual`
  (`Gen/FlattenGen.lean`, `src<k> … row` = the sample whose entry the k-th flattened tensor holds in row `row`) are
  the un-flatten maps of `Model/GAE.lean`: `ppoUnflat` (inverse of `ppoFlat`) and `ippoUnflat` (inverse of
  `ippoObsFlat`), for all T, E, A and every feature dimension; `batch<k>` (after `get_experiences_samples`) is
  `src<k>` at row `idx (start + j)`; the columns of the IPPO matrices of the advantage loop are `a*E + e`.
-/
set_option linter.unusedSimpArgs false   -- the simp sets are deliberately wider than today's generated text needs

namespace GAE
open FlattenGen

/-! ### the un-flatten maps invert the flatten maps -/

theorem ppoFlat_unflat (T row : Nat) : ppoFlat T (ppoUnflat T row).1 (ppoUnflat T row).2 = row := by
  unfold ppoFlat ppoUnflat
  simp only
  rw [Nat.mul_comm]; exact Nat.div_add_mod row T

theorem ppoUnflat_flat (T t e : Nat) (ht : t < T) : ppoUnflat T (ppoFlat T t e) = (t, e) := by
  unfold ppoFlat ppoUnflat
  rw [flat2_mod T e t ht, flat2_div T e t ht]

theorem ppoUnflat_bounds (T E row : Nat) (h : row < T * E) :
    (ppoUnflat T row).1 < T ∧ (ppoUnflat T row).2 < E := by
  unfold ppoUnflat
  have hT : 0 < T := by
    rcases Nat.eq_zero_or_pos T with h0 | h0
    · subst h0; simp at h
    · exact h0
  exact ⟨Nat.mod_lt _ hT, Nat.div_lt_of_lt_mul h⟩

theorem ippo_mid (T E row : Nat) : row % (T * E) / E = row / E % T := by
  rw [Nat.mul_comm T E]; exact Nat.mod_mul_right_div_self row E T

theorem ippo_last (T E row : Nat) : row % (T * E) % E = row % E :=
  Nat.mod_mul_left_mod row T E

theorem ippo_first (T E row : Nat) : row / E / T = row / (T * E) := by
  rw [Nat.div_div_eq_div_mul, Nat.mul_comm]

theorem ippoFlat_unflat (T E row : Nat) :
    ippoObsFlat T E (ippoUnflat T E row).1 (ippoUnflat T E row).2.1 (ippoUnflat T E row).2.2 = row := by
  unfold ippoObsFlat ippoUnflat
  simp only
  have h1 := Nat.div_add_mod row (T * E)
  have h2 := Nat.div_add_mod (row % (T * E)) E
  rw [ippo_mid, ippo_last] at h2
  rw [Nat.mul_comm (row / (T * E)), Nat.mul_comm (row / E % T), Nat.add_assoc, h2, h1]

theorem ippoUnflat_flat (T E a t e : Nat) (ht : t < T) (he : e < E) :
    ippoUnflat T E (ippoObsFlat T E a t e) = (a, t, e) := by
  unfold ippoObsFlat ippoUnflat
  have e0 : a * (T * E) + t * E + e = (a * T + t) * E + e := by rw [Nat.add_mul, Nat.mul_assoc]
  have h1 : (a * (T * E) + t * E + e) / (T * E) = a := by
    rw [Nat.add_assoc]; exact flat2_div (T * E) a (t * E + e) (flat2_lt T E t e ht he)
  have h2 : (a * (T * E) + t * E + e) / E % T = t := by
    rw [e0, flat2_div E _ e he, flat2_mod T a t ht]
  have h3 : (a * (T * E) + t * E + e) % E = e := by
    rw [e0, flat2_mod E _ e he]
  rw [h1, h2, h3]

theorem ippoUnflat_bounds (A T E row : Nat) (h : row < A * (T * E)) :
    (ippoUnflat T E row).1 < A ∧ (ippoUnflat T E row).2.1 < T ∧ (ippoUnflat T E row).2.2 < E := by
  unfold ippoUnflat
  have hTE : 0 < T * E := by
    rcases Nat.eq_zero_or_pos (T * E) with h0 | h0
    · rw [h0] at h; simp at h
    · exact h0
  have hT : 0 < T := Nat.pos_of_mul_pos_right hTE
  have hE : 0 < E := Nat.pos_of_mul_pos_left hTE
  exact ⟨Nat.div_lt_of_lt_mul (by rw [Nat.mul_comm]; exact h), Nat.mod_lt _ hT, Nat.mod_lt _ hE⟩

/-! ### the model's flattened lists, read through the un-flatten maps -/

theorem table2_eq_map {α} (n k : Nat) (g : Nat → Nat → α) :
    table2 n k g = (List.range (n * k)).map (fun r => g (r / k) (r % k)) := by
  apply List.ext_getElem?
  intro i
  by_cases h : i < n * k
  · have hk : 0 < k := by
      rcases Nat.eq_zero_or_pos k with h0 | h0
      · subst h0; simp at h
      · exact h0
    have e : i / k * k + i % k = i := by rw [Nat.mul_comm]; exact Nat.div_add_mod i k
    have := table2_get n k g (i / k) (i % k) (Nat.div_lt_of_lt_mul (by rw [Nat.mul_comm]; exact h)) (Nat.mod_lt _ hk)
    rw [e] at this
    rw [this]
    simp [h]
  · rw [List.getElem?_eq_none (by rw [table2_length]; omega), List.getElem?_eq_none (by simp; omega)]

/-- row `row` of the PPO-flattened tensor is the entry of the sample `ppoUnflat T row` -/
theorem ppoFlatten_eq_map {α} (T E : Nat) (m : Nat → Nat → α) :
    ppoFlatten T E m = (List.range (T * E)).map (fun row => m (ppoUnflat T row).1 (ppoUnflat T row).2) := by
  unfold ppoFlatten ppoUnflat
  rw [table2_eq_map, Nat.mul_comm]

theorem ppoFlatten_row {α} (T E : Nat) (m : Nat → Nat → α) (row : Nat) (h : row < T * E) :
    (ppoFlatten T E m)[row]? = some (m (ppoUnflat T row).1 (ppoUnflat T row).2) := by
  rw [ppoFlatten_eq_map]; simp [h]

/-- row `row` of the IPPO-flattened tensors is the entry of the sample `ippoUnflat T E row` -/
theorem ippoObsFlatten_row {α} (A T E : Nat) (m : Nat → Nat → Nat → α) (row : Nat) (h : row < A * (T * E)) :
    (ippoObsFlatten A T E m)[row]? =
      some (m (ippoUnflat T E row).1 (ippoUnflat T E row).2.1 (ippoUnflat T E row).2.2) := by
  obtain ⟨ha, ht, he⟩ := ippoUnflat_bounds A T E row h
  have := table3_get A T E m _ _ _ ha ht he
  have e := ippoFlat_unflat T E row
  unfold ippoObsFlat at e
  rw [e] at this
  exact this

/-! ### minibatches -/

theorem gather_length {α} (idx : List Nat) (xs : List α) : (gather idx xs).length = idx.length := by
  simp [gather]

theorem gather_get {α} (idx : List Nat) (xs : List α) (j : Nat) (hj : j < idx.length) :
    (gather idx xs)[j]? = some (xs[idx[j]]?) := by
  simp [gather, hj]

theorem range_count (n row : Nat) (hr : row < n) : (List.range n).count row = 1 := by
  first
  | exact List.count_range_of_lt hr
  | simp [List.count_range, hr]

/-! ### generated = model: PPO -/

/-- vectorised PPO rollout, Box observations and actions: every one of the six generated maps is `ppoUnflat`
    (the feature index is kept) -/
theorem gen_ppo_vec_src_eq (T E F0 F1 row f : Nat) :
    PPO.Vec.src0 T E F0 F1 row f = ((ppoUnflat T row).1, (ppoUnflat T row).2, f) ∧
    PPO.Vec.src1 T E F0 F1 row f = ((ppoUnflat T row).1, (ppoUnflat T row).2, f) ∧
    PPO.Vec.src2 T E F0 F1 row = ppoUnflat T row ∧ PPO.Vec.src3 T E F0 F1 row = ppoUnflat T row ∧
    PPO.Vec.src4 T E F0 F1 row = ppoUnflat T row ∧ PPO.Vec.src5 T E F0 F1 row = ppoUnflat T row := by
  simp [PPO.Vec.src0, PPO.Vec.src1, PPO.Vec.src2, PPO.Vec.src3, PPO.Vec.src4, PPO.Vec.src5, ppoUnflat]

theorem gen_ppo_vec_rows_eq (T E F0 F1 : Nat) :
    PPO.Vec.rows0 T E F0 F1 = T * E ∧ PPO.Vec.rows1 T E F0 F1 = T * E ∧ PPO.Vec.rows2 T E F0 F1 = T * E ∧
    PPO.Vec.rows3 T E F0 F1 = T * E ∧ PPO.Vec.rows4 T E F0 F1 = T * E ∧ PPO.Vec.rows5 T E F0 F1 = T * E := by
  simp [PPO.Vec.rows0, PPO.Vec.rows1, PPO.Vec.rows2, PPO.Vec.rows3, PPO.Vec.rows4, PPO.Vec.rows5, Nat.mul_comm]

/-- Dict observations (a Box and a Discrete member), Discrete actions -/
theorem gen_ppo_vecdict_src_eq (T E F0 row f : Nat) :
    PPO.VecDict.src0_k0 T E F0 row f = ((ppoUnflat T row).1, (ppoUnflat T row).2, f) ∧
    PPO.VecDict.src0_k1 T E F0 row = ppoUnflat T row ∧
    PPO.VecDict.src1 T E F0 row = ppoUnflat T row ∧
    PPO.VecDict.src2 T E F0 row = ppoUnflat T row ∧ PPO.VecDict.src3 T E F0 row = ppoUnflat T row ∧
    PPO.VecDict.src4 T E F0 row = ppoUnflat T row ∧ PPO.VecDict.src5 T E F0 row = ppoUnflat T row := by
  simp [PPO.VecDict.src0_k0, PPO.VecDict.src0_k1, PPO.VecDict.src1, PPO.VecDict.src2, PPO.VecDict.src3,
    PPO.VecDict.src4, PPO.VecDict.src5, ppoUnflat]

theorem gen_ppo_vecdict_rows_eq (T E F0 : Nat) :
    PPO.VecDict.rows0_k0 T E F0 = T * E ∧ PPO.VecDict.rows0_k1 T E F0 = T * E ∧ PPO.VecDict.rows1 T E F0 = T * E ∧
    PPO.VecDict.rows2 T E F0 = T * E ∧ PPO.VecDict.rows3 T E F0 = T * E ∧ PPO.VecDict.rows4 T E F0 = T * E ∧
    PPO.VecDict.rows5 T E F0 = T * E := by
  simp [PPO.VecDict.rows0_k0, PPO.VecDict.rows0_k1, PPO.VecDict.rows1, PPO.VecDict.rows2, PPO.VecDict.rows3,
    PPO.VecDict.rows4, PPO.VecDict.rows5, Nat.mul_comm]

/-- Tuple observations (a Box and a Discrete member), Box actions -/
theorem gen_ppo_vectuple_src_eq (T E F0 F1 row f : Nat) :
    PPO.VecTuple.src0_0 T E F0 F1 row f = ((ppoUnflat T row).1, (ppoUnflat T row).2, f) ∧
    PPO.VecTuple.src0_1 T E F0 F1 row = ppoUnflat T row ∧
    PPO.VecTuple.src1 T E F0 F1 row f = ((ppoUnflat T row).1, (ppoUnflat T row).2, f) ∧
    PPO.VecTuple.src2 T E F0 F1 row = ppoUnflat T row ∧ PPO.VecTuple.src3 T E F0 F1 row = ppoUnflat T row ∧
    PPO.VecTuple.src4 T E F0 F1 row = ppoUnflat T row ∧ PPO.VecTuple.src5 T E F0 F1 row = ppoUnflat T row := by
  simp [PPO.VecTuple.src0_0, PPO.VecTuple.src0_1, PPO.VecTuple.src1, PPO.VecTuple.src2, PPO.VecTuple.src3,
    PPO.VecTuple.src4, PPO.VecTuple.src5, ppoUnflat]

theorem gen_ppo_vectuple_rows_eq (T E F0 F1 : Nat) :
    PPO.VecTuple.rows0_0 T E F0 F1 = T * E ∧ PPO.VecTuple.rows0_1 T E F0 F1 = T * E ∧
    PPO.VecTuple.rows1 T E F0 F1 = T * E ∧ PPO.VecTuple.rows2 T E F0 F1 = T * E ∧
    PPO.VecTuple.rows3 T E F0 F1 = T * E ∧ PPO.VecTuple.rows4 T E F0 F1 = T * E ∧
    PPO.VecTuple.rows5 T E F0 F1 = T * E := by
  simp [PPO.VecTuple.rows0_0, PPO.VecTuple.rows0_1, PPO.VecTuple.rows1, PPO.VecTuple.rows2, PPO.VecTuple.rows3,
    PPO.VecTuple.rows4, PPO.VecTuple.rows5, Nat.mul_comm]

/-- a rollout without environment dimension (`is_vectorized_experiences` is false, nothing is flattened):
    the maps are `ppoUnflat` with one environment, on the `T` rows there are -/
theorem gen_ppo_flat_src_eq (T F0 row f : Nat) (h : row < T) :
    PPO.Flat.src0 T F0 row f = ((ppoUnflat T row).1, (ppoUnflat T row).2, f) ∧
    PPO.Flat.src1 T F0 row = ppoUnflat T row ∧ PPO.Flat.src2 T F0 row = ppoUnflat T row ∧
    PPO.Flat.src3 T F0 row = ppoUnflat T row ∧ PPO.Flat.src4 T F0 row = ppoUnflat T row ∧
    PPO.Flat.src5 T F0 row = ppoUnflat T row := by
  simp [PPO.Flat.src0, PPO.Flat.src1, PPO.Flat.src2, PPO.Flat.src3, PPO.Flat.src4, PPO.Flat.src5, ppoUnflat,
    Nat.mod_eq_of_lt h, Nat.div_eq_of_lt h]

theorem gen_ppo_flat_rows_eq (T F0 : Nat) :
    PPO.Flat.rows0 T F0 = T * 1 ∧ PPO.Flat.rows1 T F0 = T * 1 ∧ PPO.Flat.rows2 T F0 = T * 1 ∧
    PPO.Flat.rows3 T F0 = T * 1 ∧ PPO.Flat.rows4 T F0 = T * 1 ∧ PPO.Flat.rows5 T F0 = T * 1 := by
  simp [PPO.Flat.rows0, PPO.Flat.rows1, PPO.Flat.rows2, PPO.Flat.rows3, PPO.Flat.rows4, PPO.Flat.rows5]

/-- the minibatch indexing of `get_experiences_samples` takes row `idx (start + j)` of every one of the six tensors -/
theorem gen_ppo_vec_batch_eq (idx : Nat → Nat) (start T E F0 F1 j f : Nat) :
    PPO.Vec.batch0 idx start T E F0 F1 j f = PPO.Vec.src0 T E F0 F1 (idx (start + j)) f ∧
    PPO.Vec.batch1 idx start T E F0 F1 j f = PPO.Vec.src1 T E F0 F1 (idx (start + j)) f ∧
    PPO.Vec.batch2 idx start T E F0 F1 j = PPO.Vec.src2 T E F0 F1 (idx (start + j)) ∧
    PPO.Vec.batch3 idx start T E F0 F1 j = PPO.Vec.src3 T E F0 F1 (idx (start + j)) ∧
    PPO.Vec.batch4 idx start T E F0 F1 j = PPO.Vec.src4 T E F0 F1 (idx (start + j)) ∧
    PPO.Vec.batch5 idx start T E F0 F1 j = PPO.Vec.src5 T E F0 F1 (idx (start + j)) :=
  ⟨rfl, rfl, rfl, rfl, rfl, rfl⟩

theorem gen_ppo_vecdict_batch_eq (idx : Nat → Nat) (start T E F0 j f : Nat) :
    PPO.VecDict.batch0_k0 idx start T E F0 j f = PPO.VecDict.src0_k0 T E F0 (idx (start + j)) f ∧
    PPO.VecDict.batch0_k1 idx start T E F0 j = PPO.VecDict.src0_k1 T E F0 (idx (start + j)) ∧
    PPO.VecDict.batch1 idx start T E F0 j = PPO.VecDict.src1 T E F0 (idx (start + j)) ∧
    PPO.VecDict.batch2 idx start T E F0 j = PPO.VecDict.src2 T E F0 (idx (start + j)) ∧
    PPO.VecDict.batch3 idx start T E F0 j = PPO.VecDict.src3 T E F0 (idx (start + j)) ∧
    PPO.VecDict.batch4 idx start T E F0 j = PPO.VecDict.src4 T E F0 (idx (start + j)) ∧
    PPO.VecDict.batch5 idx start T E F0 j = PPO.VecDict.src5 T E F0 (idx (start + j)) :=
  ⟨rfl, rfl, rfl, rfl, rfl, rfl, rfl⟩

theorem gen_ppo_vectuple_batch_eq (idx : Nat → Nat) (start T E F0 F1 j f : Nat) :
    PPO.VecTuple.batch0_0 idx start T E F0 F1 j f = PPO.VecTuple.src0_0 T E F0 F1 (idx (start + j)) f ∧
    PPO.VecTuple.batch0_1 idx start T E F0 F1 j = PPO.VecTuple.src0_1 T E F0 F1 (idx (start + j)) ∧
    PPO.VecTuple.batch1 idx start T E F0 F1 j f = PPO.VecTuple.src1 T E F0 F1 (idx (start + j)) f ∧
    PPO.VecTuple.batch2 idx start T E F0 F1 j = PPO.VecTuple.src2 T E F0 F1 (idx (start + j)) ∧
    PPO.VecTuple.batch3 idx start T E F0 F1 j = PPO.VecTuple.src3 T E F0 F1 (idx (start + j)) ∧
    PPO.VecTuple.batch4 idx start T E F0 F1 j = PPO.VecTuple.src4 T E F0 F1 (idx (start + j)) ∧
    PPO.VecTuple.batch5 idx start T E F0 F1 j = PPO.VecTuple.src5 T E F0 F1 (idx (start + j)) :=
  ⟨rfl, rfl, rfl, rfl, rfl, rfl, rfl⟩

theorem gen_ppo_flat_batch_eq (idx : Nat → Nat) (start T F0 j f : Nat) :
    PPO.Flat.batch0 idx start T F0 j f = PPO.Flat.src0 T F0 (idx (start + j)) f ∧
    PPO.Flat.batch1 idx start T F0 j = PPO.Flat.src1 T F0 (idx (start + j)) ∧
    PPO.Flat.batch2 idx start T F0 j = PPO.Flat.src2 T F0 (idx (start + j)) ∧
    PPO.Flat.batch3 idx start T F0 j = PPO.Flat.src3 T F0 (idx (start + j)) ∧
    PPO.Flat.batch4 idx start T F0 j = PPO.Flat.src4 T F0 (idx (start + j)) ∧
    PPO.Flat.batch5 idx start T F0 j = PPO.Flat.src5 T F0 (idx (start + j)) :=
  ⟨rfl, rfl, rfl, rfl, rfl, rfl⟩

/-- the `(T, E)` tensors the PPO advantage loop reads: column `c` is environment `c`; `next_done` is the flag
    of step `T` -/
theorem gen_ppo_vec_mat_eq (T E F0 F1 t c : Nat) :
    PPO.Vec.mat_x3 T E F0 F1 t c = (t, c) ∧ PPO.Vec.mat_x4 T E F0 F1 t c = (t, c) ∧
    PPO.Vec.mat_x5 T E F0 F1 t c = (t, c) ∧ PPO.Vec.vec_x7 T E F0 F1 c = (T, c) ∧
    PPO.Vec.mat_x3_cols T E F0 F1 = E ∧ PPO.Vec.vec_x7_cols T E F0 F1 = E :=
  ⟨rfl, rfl, rfl, rfl, rfl, rfl⟩

/-! ### generated = model: IPPO -/

/-- vectorised IPPO rollout, Box observations and actions, `A` agents sharing the policy: all six maps are
    `ippoUnflat` — states/actions (`concatenate_experiences_into_batches`: reshape, cat over the agents, reshape) and
    log-probs/advantages/returns/values (`stack(dim=1)`, `reshape(T, A, -1).transpose(0, 1).reshape(-1)`) -/
theorem gen_ippo_vec_src_eq (T E A F0 F1 row f : Nat) :
    IPPO.Vec.src0 T E A F0 F1 row f =
      ((ippoUnflat T E row).1, (ippoUnflat T E row).2.1, (ippoUnflat T E row).2.2, f) ∧
    IPPO.Vec.src1 T E A F0 F1 row f =
      ((ippoUnflat T E row).1, (ippoUnflat T E row).2.1, (ippoUnflat T E row).2.2, f) ∧
    IPPO.Vec.src2 T E A F0 F1 row = ippoUnflat T E row ∧ IPPO.Vec.src3 T E A F0 F1 row = ippoUnflat T E row ∧
    IPPO.Vec.src4 T E A F0 F1 row = ippoUnflat T E row ∧ IPPO.Vec.src5 T E A F0 F1 row = ippoUnflat T E row := by
  simp [IPPO.Vec.src0, IPPO.Vec.src1, IPPO.Vec.src2, IPPO.Vec.src3, IPPO.Vec.src4, IPPO.Vec.src5, ippoUnflat,
    ippo_mid, ippo_last, ippo_first]

theorem gen_ippo_vec_rows_eq (T E A F0 F1 : Nat) :
    IPPO.Vec.rows0 T E A F0 F1 = A * (T * E) ∧ IPPO.Vec.rows1 T E A F0 F1 = A * (T * E) ∧
    IPPO.Vec.rows2 T E A F0 F1 = A * (T * E) ∧ IPPO.Vec.rows3 T E A F0 F1 = A * (T * E) ∧
    IPPO.Vec.rows4 T E A F0 F1 = A * (T * E) ∧ IPPO.Vec.rows5 T E A F0 F1 = A * (T * E) := by
  simp [IPPO.Vec.rows0, IPPO.Vec.rows1, IPPO.Vec.rows2, IPPO.Vec.rows3, IPPO.Vec.rows4, IPPO.Vec.rows5, Nat.mul_assoc]

/-- Dict observations (a Box and a Discrete member), Discrete actions -/
theorem gen_ippo_vecdisc_src_eq (T E A F0 row f : Nat) :
    IPPO.VecDisc.src0_k0 T E A F0 row f =
      ((ippoUnflat T E row).1, (ippoUnflat T E row).2.1, (ippoUnflat T E row).2.2, f) ∧
    IPPO.VecDisc.src0_k1 T E A F0 row = ippoUnflat T E row ∧
    IPPO.VecDisc.src1 T E A F0 row = ippoUnflat T E row ∧
    IPPO.VecDisc.src2 T E A F0 row = ippoUnflat T E row ∧ IPPO.VecDisc.src3 T E A F0 row = ippoUnflat T E row ∧
    IPPO.VecDisc.src4 T E A F0 row = ippoUnflat T E row ∧ IPPO.VecDisc.src5 T E A F0 row = ippoUnflat T E row := by
  simp [IPPO.VecDisc.src0_k0, IPPO.VecDisc.src0_k1, IPPO.VecDisc.src1, IPPO.VecDisc.src2, IPPO.VecDisc.src3,
    IPPO.VecDisc.src4, IPPO.VecDisc.src5, ippoUnflat, ippo_mid, ippo_last, ippo_first]

theorem gen_ippo_vecdisc_rows_eq (T E A F0 : Nat) :
    IPPO.VecDisc.rows0_k0 T E A F0 = A * (T * E) ∧ IPPO.VecDisc.rows0_k1 T E A F0 = A * (T * E) ∧
    IPPO.VecDisc.rows1 T E A F0 = A * (T * E) ∧ IPPO.VecDisc.rows2 T E A F0 = A * (T * E) ∧
    IPPO.VecDisc.rows3 T E A F0 = A * (T * E) ∧ IPPO.VecDisc.rows4 T E A F0 = A * (T * E) ∧
    IPPO.VecDisc.rows5 T E A F0 = A * (T * E) := by
  simp [IPPO.VecDisc.rows0_k0, IPPO.VecDisc.rows0_k1, IPPO.VecDisc.rows1, IPPO.VecDisc.rows2, IPPO.VecDisc.rows3,
    IPPO.VecDisc.rows4, IPPO.VecDisc.rows5, Nat.mul_assoc]

/-- IPPO rollout without environment dimension: `ippoUnflat` with one environment -/
theorem gen_ippo_flat_src_eq (T A F0 row f : Nat) :
    IPPO.Flat.src0 T A F0 row f =
      ((ippoUnflat T 1 row).1, (ippoUnflat T 1 row).2.1, (ippoUnflat T 1 row).2.2, f) ∧
    IPPO.Flat.src1 T A F0 row = ippoUnflat T 1 row ∧ IPPO.Flat.src2 T A F0 row = ippoUnflat T 1 row ∧
    IPPO.Flat.src3 T A F0 row = ippoUnflat T 1 row ∧ IPPO.Flat.src4 T A F0 row = ippoUnflat T 1 row ∧
    IPPO.Flat.src5 T A F0 row = ippoUnflat T 1 row := by
  simp [IPPO.Flat.src0, IPPO.Flat.src1, IPPO.Flat.src2, IPPO.Flat.src3, IPPO.Flat.src4, IPPO.Flat.src5, ippoUnflat,
    Nat.mod_one]

theorem gen_ippo_flat_rows_eq (T A F0 : Nat) :
    IPPO.Flat.rows0 T A F0 = A * (T * 1) ∧ IPPO.Flat.rows1 T A F0 = A * (T * 1) ∧
    IPPO.Flat.rows2 T A F0 = A * (T * 1) ∧ IPPO.Flat.rows3 T A F0 = A * (T * 1) ∧
    IPPO.Flat.rows4 T A F0 = A * (T * 1) ∧ IPPO.Flat.rows5 T A F0 = A * (T * 1) := by
  simp [IPPO.Flat.rows0, IPPO.Flat.rows1, IPPO.Flat.rows2, IPPO.Flat.rows3, IPPO.Flat.rows4, IPPO.Flat.rows5]

theorem gen_ippo_vec_batch_eq (idx : Nat → Nat) (start T E A F0 F1 j f : Nat) :
    IPPO.Vec.batch0 idx start T E A F0 F1 j f = IPPO.Vec.src0 T E A F0 F1 (idx (start + j)) f ∧
    IPPO.Vec.batch1 idx start T E A F0 F1 j f = IPPO.Vec.src1 T E A F0 F1 (idx (start + j)) f ∧
    IPPO.Vec.batch2 idx start T E A F0 F1 j = IPPO.Vec.src2 T E A F0 F1 (idx (start + j)) ∧
    IPPO.Vec.batch3 idx start T E A F0 F1 j = IPPO.Vec.src3 T E A F0 F1 (idx (start + j)) ∧
    IPPO.Vec.batch4 idx start T E A F0 F1 j = IPPO.Vec.src4 T E A F0 F1 (idx (start + j)) ∧
    IPPO.Vec.batch5 idx start T E A F0 F1 j = IPPO.Vec.src5 T E A F0 F1 (idx (start + j)) :=
  ⟨rfl, rfl, rfl, rfl, rfl, rfl⟩

theorem gen_ippo_vecdisc_batch_eq (idx : Nat → Nat) (start T E A F0 j f : Nat) :
    IPPO.VecDisc.batch0_k0 idx start T E A F0 j f = IPPO.VecDisc.src0_k0 T E A F0 (idx (start + j)) f ∧
    IPPO.VecDisc.batch0_k1 idx start T E A F0 j = IPPO.VecDisc.src0_k1 T E A F0 (idx (start + j)) ∧
    IPPO.VecDisc.batch1 idx start T E A F0 j = IPPO.VecDisc.src1 T E A F0 (idx (start + j)) ∧
    IPPO.VecDisc.batch2 idx start T E A F0 j = IPPO.VecDisc.src2 T E A F0 (idx (start + j)) ∧
    IPPO.VecDisc.batch3 idx start T E A F0 j = IPPO.VecDisc.src3 T E A F0 (idx (start + j)) ∧
    IPPO.VecDisc.batch4 idx start T E A F0 j = IPPO.VecDisc.src4 T E A F0 (idx (start + j)) ∧
    IPPO.VecDisc.batch5 idx start T E A F0 j = IPPO.VecDisc.src5 T E A F0 (idx (start + j)) :=
  ⟨rfl, rfl, rfl, rfl, rfl, rfl, rfl⟩

theorem gen_ippo_flat_batch_eq (idx : Nat → Nat) (start T A F0 j f : Nat) :
    IPPO.Flat.batch0 idx start T A F0 j f = IPPO.Flat.src0 T A F0 (idx (start + j)) f ∧
    IPPO.Flat.batch1 idx start T A F0 j = IPPO.Flat.src1 T A F0 (idx (start + j)) ∧
    IPPO.Flat.batch2 idx start T A F0 j = IPPO.Flat.src2 T A F0 (idx (start + j)) ∧
    IPPO.Flat.batch3 idx start T A F0 j = IPPO.Flat.src3 T A F0 (idx (start + j)) ∧
    IPPO.Flat.batch4 idx start T A F0 j = IPPO.Flat.src4 T A F0 (idx (start + j)) ∧
    IPPO.Flat.batch5 idx start T A F0 j = IPPO.Flat.src5 T A F0 (idx (start + j)) :=
  ⟨rfl, rfl, rfl, rfl, rfl, rfl⟩

/-- the `(T, A*E)` matrices of rewards / dones / values and the `(1, A*E)` row of `next_done` that the IPPO
    advantage loop reads (`vectorize_experiences_by_agent` with `dim=1` / `dim=0`, then `reshape(T, -1)` /
    `reshape(1, -1)`): column `c` is agent `c / E`, environment `c % E` — the model's `ippoMatrix` / `ippoCols` -/
theorem gen_ippo_vec_mat_eq (T E A F0 F1 t c : Nat) :
    IPPO.Vec.mat_x3 T E A F0 F1 t c = (c / E, t, c % E) ∧ IPPO.Vec.mat_x4 T E A F0 F1 t c = (c / E, t, c % E) ∧
    IPPO.Vec.mat_x5 T E A F0 F1 t c = (c / E, t, c % E) ∧ IPPO.Vec.row_x7 T E A F0 F1 c = (c / E, T, c % E) ∧
    IPPO.Vec.mat_x3_cols T E A F0 F1 = A * E ∧ IPPO.Vec.mat_x4_cols T E A F0 F1 = A * E ∧
    IPPO.Vec.mat_x5_cols T E A F0 F1 = A * E ∧ IPPO.Vec.row_x7_cols T E A F0 F1 = A * E :=
  ⟨rfl, rfl, rfl, rfl, rfl, rfl, rfl, rfl⟩

end GAE
