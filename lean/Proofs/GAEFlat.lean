import Model.GAE

/-!
  Proofs/GAEFlat.lean — index laws of the nested-loop tables with which `Model/GAE.lean` describes
  `swapaxes/reshape/cat/stack`, and bijectivity of the row-index maps.
-/
namespace GAE

/-! ### arithmetic of `i*L + j` with `j < L` -/

theorem flat2_lt (n L i j : Nat) (hi : i < n) (hj : j < L) : i * L + j < n * L := by
  have h1 : (i + 1) * L ≤ n * L := Nat.mul_le_mul_right L hi
  rw [Nat.succ_mul] at h1
  omega

theorem flat2_div (L i j : Nat) (hj : j < L) : (i * L + j) / L = i := by
  have hL : 0 < L := by omega
  rw [Nat.add_comm, Nat.add_mul_div_right _ _ hL, Nat.div_eq_of_lt hj, Nat.zero_add]

theorem flat2_mod (L i j : Nat) (hj : j < L) : (i * L + j) % L = j := by
  rw [Nat.add_comm, Nat.add_mul_mod_self_right, Nat.mod_eq_of_lt hj]

theorem flat2_inj (L i j i' j' : Nat) (hj : j < L) (hj' : j' < L) (h : i * L + j = i' * L + j') :
    i = i' ∧ j = j' := by
  have h1 : (i * L + j) / L = (i' * L + j') / L := by rw [h]
  have h2 : (i * L + j) % L = (i' * L + j') % L := by rw [h]
  rw [flat2_div L i j hj, flat2_div L i' j' hj'] at h1
  rw [flat2_mod L i j hj, flat2_mod L i' j' hj'] at h2
  exact ⟨h1, h2⟩

theorem flat2_surj (n L r : Nat) (hr : r < n * L) : ∃ i j, i < n ∧ j < L ∧ i * L + j = r := by
  have hL : 0 < L := by
    rcases Nat.eq_zero_or_pos L with h | h
    · subst h; simp at hr
    · exact h
  refine ⟨r / L, r % L, ?_, Nat.mod_lt _ hL, ?_⟩
  · exact Nat.div_lt_of_lt_mul (by rw [Nat.mul_comm]; exact hr)
  · rw [Nat.mul_comm]; exact Nat.div_add_mod r L

/-! ### tables -/

theorem flatMap_block {α} (f : Nat → List α) (L : Nat) : ∀ n, (∀ i, i < n → (f i).length = L) →
    ((List.range n).flatMap f).length = n * L ∧
    ∀ i j, i < n → j < L → ((List.range n).flatMap f)[i * L + j]? = (f i)[j]? := by
  intro n
  induction n with
  | zero => intro _; exact ⟨by simp, fun i j hi _ => absurd hi (Nat.not_lt_zero _)⟩
  | succ n ih =>
    intro hlen
    obtain ⟨hl, hget⟩ := ih (fun i hi => hlen i (by omega))
    have hn := hlen n (by omega)
    rw [List.range_succ, List.flatMap_append]
    simp only [List.flatMap_cons, List.flatMap_nil, List.append_nil]
    refine ⟨by rw [List.length_append, hl, hn, Nat.succ_mul], ?_⟩
    intro i j hi hj
    by_cases h : i < n
    · rw [List.getElem?_append_left (by rw [hl]; exact flat2_lt n L i j h hj)]
      exact hget i j h hj
    · have e : i = n := by omega
      subst e
      rw [List.getElem?_append_right (by rw [hl]; omega), hl]
      congr 1
      omega

theorem table2_length {α} (n k : Nat) (g : Nat → Nat → α) : (table2 n k g).length = n * k :=
  (flatMap_block (fun i => (List.range k).map (g i)) k n (fun _ _ => by simp)).1

theorem table2_get {α} (n k : Nat) (g : Nat → Nat → α) (i j : Nat) (hi : i < n) (hj : j < k) :
    (table2 n k g)[i * k + j]? = some (g i j) := by
  unfold table2
  rw [(flatMap_block (fun i => (List.range k).map (g i)) k n (fun _ _ => by simp)).2 i j hi hj]
  simp [hj]

theorem table3_length {α} (n k l : Nat) (g : Nat → Nat → Nat → α) :
    (table3 n k l g).length = n * (k * l) :=
  (flatMap_block (fun i => table2 k l (g i)) (k * l) n (fun _ _ => table2_length _ _ _)).1

theorem table3_get {α} (n k l : Nat) (g : Nat → Nat → Nat → α) (i j m : Nat)
    (hi : i < n) (hj : j < k) (hm : m < l) :
    (table3 n k l g)[i * (k * l) + j * l + m]? = some (g i j m) := by
  unfold table3
  rw [Nat.add_assoc,
    (flatMap_block (fun i => table2 k l (g i)) (k * l) n (fun _ _ => table2_length _ _ _)).2 i
      (j * l + m) hi (flat2_lt k l j m hj hm)]
  exact table2_get k l (g i) j m hj hm

theorem table2_congr {α} (n k : Nat) (g g' : Nat → Nat → α)
    (h : ∀ i j, i < n → j < k → g i j = g' i j) : table2 n k g = table2 n k g' := by
  unfold table2
  rw [List.flatMap_def, List.flatMap_def]
  congr 1
  apply List.map_congr_left
  intro i hi
  apply List.map_congr_left
  intro j hj
  exact h i j (List.mem_range.mp hi) (List.mem_range.mp hj)

theorem table3_congr {α} (n k l : Nat) (g g' : Nat → Nat → Nat → α)
    (h : ∀ i j m, i < n → j < k → m < l → g i j m = g' i j m) : table3 n k l g = table3 n k l g' := by
  unfold table3
  rw [List.flatMap_def, List.flatMap_def]
  congr 1
  apply List.map_congr_left
  intro i hi
  exact table2_congr k l (g i) (g' i) (fun j m hj hm => h i j m (List.mem_range.mp hi) hj hm)

/-! ### the repaired IPPO flatten is the agent-major flatten -/

theorem ippoAdvFlatten_eq {α} (A T E : Nat) (hA : 0 < A) (m : Nat → Nat → Nat → α) :
    ippoAdvFlatten A T E m = ippoObsFlatten A T E m := by
  unfold ippoAdvFlatten ippoAdvFlattenM ippoObsFlatten
  rw [Nat.mul_div_cancel_left E hA]
  apply table3_congr
  intro a t e _ _ he
  unfold ippoMatrix
  rw [flat2_div E a e he, flat2_mod E a e he]

theorem ippoAdvFlat_eq (A T E a t e : Nat) (hA : 0 < A) (he : e < E) :
    ippoAdvFlat A T E a t e = ippoObsFlat T E a t e := by
  unfold ippoAdvFlat ippoObsFlat
  simp only [Nat.mul_div_cancel_left E hA, flat2_div E a e he, flat2_mod E a e he]

/-! ### three-index maps are bijections onto `[0, n*(k*l))` -/

theorem flat3_lt (n k l i j m : Nat) (hi : i < n) (hj : j < k) (hm : m < l) :
    i * (k * l) + j * l + m < n * (k * l) := by
  rw [Nat.add_assoc]; exact flat2_lt n (k * l) i (j * l + m) hi (flat2_lt k l j m hj hm)

theorem flat3_inj (k l i j m i' j' m' : Nat) (hj : j < k) (hj' : j' < k) (hm : m < l) (hm' : m' < l)
    (h : i * (k * l) + j * l + m = i' * (k * l) + j' * l + m') : i = i' ∧ j = j' ∧ m = m' := by
  rw [Nat.add_assoc, Nat.add_assoc] at h
  obtain ⟨h1, h2⟩ := flat2_inj (k * l) i (j * l + m) i' (j' * l + m')
    (flat2_lt k l j m hj hm) (flat2_lt k l j' m' hj' hm') h
  obtain ⟨h3, h4⟩ := flat2_inj l j m j' m' hm hm' h2
  exact ⟨h1, h3, h4⟩

theorem flat3_surj (n k l r : Nat) (hr : r < n * (k * l)) :
    ∃ i j m, i < n ∧ j < k ∧ m < l ∧ i * (k * l) + j * l + m = r := by
  obtain ⟨i, q, hi, hq, e⟩ := flat2_surj n (k * l) r hr
  obtain ⟨j, m, hj, hm, e'⟩ := flat2_surj k l q hq
  exact ⟨i, j, m, hi, hj, hm, by rw [Nat.add_assoc, e', e]⟩

end GAE
