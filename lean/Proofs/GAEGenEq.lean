import Model.GAE
import Gen.GAEGen
import Mathlib.Tactic.Ring
import Mathlib.Tactic.SplitIfs

/-!
  Proofs/GAEGenEq.lean — the definitions GENERATED from the source text of the advantage-estimation
  loop of `PPO.learn` (agilerl/algorithms/ppo.py) and `IPPO._learn_individual`
  (agilerl/algorithms/ippo.py) (`Gen/GAEGen.lean`, written by `harness/py2lean_gae.py` on every run)
  are EQUAL to the hand-written model functions of `Model/GAE.lean`: the generated loop body to
  `loopBody` (for every step `t < T` the loop visits), the generated range to `gaeLoop` and `returnsOf`.
  If the source changes its behaviour these proofs stop checking; the C17 theorems are restated over
  the generated definitions in `Props/C17.lean` (`C17_source_translation_*`).

  How a model column feeds the generated parameters (`genPPO`, `genIPPO`): `self_gae_lambda := λ`,
  `self_gamma := γ`, `x3 := c.r` (rewards), `x4 := flags c.d` (dones as 0/1 numbers, `dones.long()`),
  `x5 := c.v` (values), `x7 := ind c.nd` (next_done), `critic_x6 := c.nv` (critic(next_state)).
  The only invariant needed is `t < T` for the body (for `T = 0` the loop visits nothing and Python's
  `num_steps - 1 = -1` is no step, whereas the model's `T - 1` is `0`).
-/
set_option linter.unusedTactic false       -- parts of the closing step only run after an algebraic rewrite of the source
set_option linter.unreachableTactic false

namespace GAE
open GAEGen

/-- the done flags of a column as the numbers the code computes with (`dones.long()`): 1 = done -/
def flags (d : List Bool) : List Rat := d.map ind

theorem flags_getD (d : List Bool) (n : Nat) : (flags d).getD n 0 = ind (d.getD n false) := by
  unfold flags
  rw [List.getD_eq_getElem?_getD, List.getD_eq_getElem?_getD, List.getElem?_map]
  cases d[n]? <;> rfl

/-- Python indexing with a natural number is `getD` -/
theorem pyGet_nat (l : List Rat) (n : Nat) : pyGet l (n : Int) = l.getD n 0 := by
  unfold pyGet
  rw [if_pos (by omega), Int.toNat_natCast]

theorem pyGet_nat_succ (l : List Rat) (n : Nat) : pyGet l ((n : Int) + 1) = l.getD (n + 1) 0 := by
  have h : ((n : Int) + 1) = ((n + 1 : Nat) : Int) := by omega
  rw [h, pyGet_nat]

theorem pySet_nat (l : List Rat) (n : Nat) (v : Rat) : pySet l (n : Int) v = l.set n v := by
  unfold pySet
  rw [if_pos (by omega), Int.toNat_natCast]

/-- a fold of a function on pairs (the generated state tuple) that mirrors a function on `LoopState` -/
theorem foldl_pair (f : LoopState → Nat → LoopState) (g : List Rat × Rat → Nat → List Rat × Rat) (l : List Nat)
    (h : ∀ s, ∀ t ∈ l, g (s.adv, s.last) t = ((f s t).adv, (f s t).last)) :
    ∀ s, l.foldl g (s.adv, s.last) = ((l.foldl f s).adv, (l.foldl f s).last) := by
  induction l with
  | nil => intro s; rfl
  | cons a l ih =>
    intro s
    rw [List.foldl_cons, List.foldl_cons, h s a (List.mem_cons_self ..)]
    exact ih (fun s t ht => h s t (List.mem_cons_of_mem _ ht)) (f s a)

/-- Python's `t == num_steps - 1` (integers) is the model's `t = T - 1` on the steps the loop visits
    (the body equalities below decide the generated branch conditions by `omega`, so any linear
    rewriting of the test — `t + 1 == num_steps`, `t >= num_steps - 1` — is accepted as well) -/
theorem last_step_iff (c : Col) (t : Nat) (ht : t < c.T) :
    ((t : Int) = ((c.r.length : Int) - 1)) ↔ t = c.T - 1 := by
  unfold Col.T at *; omega

/-! ### PPO.learn -/

/-- the generated loop body of `PPO.learn` is `loopBody` (state tuple = (advantages, last_gae_lambda)) -/
theorem gen_ppo_body_eq (γ lam : Rat) (c : Col) (s : LoopState) (t : Nat) (ht : t < c.T) :
    PPO.gae_body lam γ c.r (flags c.d) c.v (ind c.nd) c.nv (s.adv, s.last) t
      = ((loopBody γ lam c s t).adv, (loopBody γ lam c s t).last) := by
  have hT : c.T = c.r.length := rfl
  unfold PPO.gae_body loopBody nextNonTerminal nextValue
  simp only [pyGet_nat, pySet_nat, pyGet_nat_succ, flags_getD]
  split_ifs <;>
    first
    | (exfalso; omega)
    | rfl
    | (refine Prod.ext ?_ ?_ <;> dsimp only <;> first | ring1 | (congr 1; ring1))

/-- the column `c` fed to the generated range of `PPO.learn`: (advantages, returns) -/
@[reducible] def genPPO (γ lam : Rat) (c : Col) : List Rat × List Rat :=
  PPO.gae lam γ c.r (flags c.d) c.v (ind c.nd) c.nv

/-- the generated range of `PPO.learn` (initial state, reversed loop, `returns = advantages + values`)
    is (`gaeLoop`, `returnsOf` of it) -/
theorem gen_ppo_gae_eq (γ lam : Rat) (c : Col) :
    genPPO γ lam c = (gaeLoop γ lam c, returnsOf (gaeLoop γ lam c) c.v) := by
  have hf := foldl_pair (loopBody γ lam c) (PPO.gae_body lam γ c.r (flags c.d) c.v (ind c.nd) c.nv)
    (List.range c.T).reverse
    (fun s t ht => gen_ppo_body_eq γ lam c s t (by simpa using ht)) (loopInit c)
  unfold genPPO PPO.gae gaeLoop returnsOf
  simp only [Int.toNat_natCast]
  have hf' : List.foldl (PPO.gae_body lam γ c.r (flags c.d) c.v (ind c.nd) c.nv)
      (List.replicate c.r.length 0, 0) (List.range c.r.length).reverse = _ := hf
  rw [hf']

/-! ### IPPO._learn_individual -/

/-- the generated loop body of `IPPO._learn_individual` is `loopBody` -/
theorem gen_ippo_body_eq (γ lam : Rat) (c : Col) (s : LoopState) (t : Nat) (ht : t < c.T) :
    IPPO.gae_body lam γ c.r (flags c.d) c.v (ind c.nd) c.nv (s.adv, s.last) t
      = ((loopBody γ lam c s t).adv, (loopBody γ lam c s t).last) := by
  have hT : c.T = c.r.length := rfl
  unfold IPPO.gae_body loopBody nextNonTerminal nextValue
  simp only [pyGet_nat, pySet_nat, pyGet_nat_succ, flags_getD]
  split_ifs <;>
    first
    | (exfalso; omega)
    | rfl
    | (refine Prod.ext ?_ ?_ <;> dsimp only <;> first | ring1 | (congr 1; ring1))

/-- the column `c` (one environment of one agent of the group) fed to the generated range of
    `IPPO._learn_individual`: (advantages, returns) -/
@[reducible] def genIPPO (γ lam : Rat) (c : Col) : List Rat × List Rat :=
  IPPO.gae lam γ c.r (flags c.d) c.v (ind c.nd) c.nv

/-- the generated range of `IPPO._learn_individual` is (`gaeLoop`, `returnsOf` of it) -/
theorem gen_ippo_gae_eq (γ lam : Rat) (c : Col) :
    genIPPO γ lam c = (gaeLoop γ lam c, returnsOf (gaeLoop γ lam c) c.v) := by
  have hf := foldl_pair (loopBody γ lam c) (IPPO.gae_body lam γ c.r (flags c.d) c.v (ind c.nd) c.nv)
    (List.range c.T).reverse
    (fun s t ht => gen_ippo_body_eq γ lam c s t (by simpa using ht)) (loopInit c)
  unfold genIPPO IPPO.gae gaeLoop returnsOf
  simp only [Int.toNat_natCast]
  have hf' : List.foldl (IPPO.gae_body lam γ c.r (flags c.d) c.v (ind c.nd) c.nv)
      (List.replicate c.r.length 0, 0) (List.range c.r.length).reverse = _ := hf
  rw [hf']

/-- the invariant of the body equalities is satisfiable, and the generated range computes on a concrete
    column: an episode ends after step 1 (`dones[2] = 1`) -/
example : (0 : Nat) < ({ r := [1, 2, 3], d := [false, false, true], v := [1/2, 1, 3/2], nv := 4, nd := false } : Col).T := by
  decide
example : genPPO (1/2) (3/4) { r := [1, 2, 3], d := [false, false, true], v := [1/2, 1, 3/2], nv := 4, nd := false }
    = ([11/8, 1, 7/2], [15/8, 2, 5]) := by decide +kernel
example : genIPPO (1/2) (3/4) { r := [1, 2, 3], d := [false, false, true], v := [1/2, 1, 3/2], nv := 4, nd := true }
    = ([11/8, 1, 3/2], [15/8, 2, 3]) := by decide +kernel

end GAE
