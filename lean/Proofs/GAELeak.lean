import Proofs.GAELoop

/-!
  Proofs/GAELeak.lean — nothing that follows the start of a new episode influences the estimates
  of the steps before it.
-/
namespace GAE

/-- two columns agree on rewards, values and done flags at every step before `k` -/
def AgreeBefore (c c' : Col) (k : Nat) : Prop :=
  ∀ t, t < k → c.r.getD t 0 = c'.r.getD t 0 ∧ c.v.getD t 0 = c'.v.getD t 0 ∧
    c.d.getD t false = c'.d.getD t false

theorem doneAt_lt (c : Col) (j : Nat) (h : j < c.T) : doneAt c j = c.d.getD j false := by
  unfold doneAt; rw [if_neg (by omega)]

theorem valAt_lt (c : Col) (j : Nat) (h : j < c.T) : valAt c j = c.v.getD j 0 := by
  unfold valAt; rw [if_neg (by omega)]

theorem ind_true : ind true = 1 := rfl

theorem no_leak_aux (γ lam : Rat) (c c' : Col) (k : Nat) (hk : k ≤ c.T) (hk' : k ≤ c'.T)
    (hd : doneAt c k = true) (hd' : doneAt c' k = true) (hag : AgreeBefore c c' k) :
    ∀ m t, t + m + 1 = k → adv γ lam c t = adv γ lam c' t := by
  intro m
  induction m with
  | zero =>
    intro t ht
    have e : t + 1 = k := by omega
    obtain ⟨hr, hv, _⟩ := hag t (by omega)
    rw [adv_unfold γ lam c t (by omega), adv_unfold γ lam c' t (by omega)]
    simp only [delta, e, hd, hd', ind_true, hr, hv]
    ring
  | succ m ih =>
    intro t ht
    obtain ⟨hr, hv, _⟩ := hag t (by omega)
    obtain ⟨_, hv1, hd1⟩ := hag (t + 1) (by omega)
    rw [adv_unfold γ lam c t (by omega), adv_unfold γ lam c' t (by omega), ih (t + 1) (by omega)]
    simp only [delta, doneAt_lt c (t + 1) (by omega), doneAt_lt c' (t + 1) (by omega),
      valAt_lt c (t + 1) (by omega), valAt_lt c' (t + 1) (by omega), hr, hv, hv1, hd1]

/-- **no leak**: if an episode starts at step `k` (`d_k = 1`, or `next_done = 1` when `k = T`) in two
    rollouts that agree before `k`, they have the same advantages and returns before `k` — whatever
    rewards, values, flags, bootstrap value and even rollout lengths they have from `k` on -/
theorem no_leak (γ lam : Rat) (c c' : Col) (k : Nat) (hk : k ≤ c.T) (hk' : k ≤ c'.T)
    (hd : doneAt c k = true) (hd' : doneAt c' k = true) (hag : AgreeBefore c c' k)
    (t : Nat) (ht : t < k) :
    adv γ lam c t = adv γ lam c' t ∧ ret γ lam c t = ret γ lam c' t := by
  have h := no_leak_aux γ lam c c' k hk hk' hd hd' hag (k - 1 - t) t (by omega)
  exact ⟨h, by unfold ret; rw [h, (hag t ht).2.1]⟩

end GAE
