import Model.GAE
import Mathlib.Tactic.Ring
import Mathlib.Tactic.Linarith

/-!
  Proofs/GAELoop.lean — the backward loop of `PPO.learn` / `IPPO._learn_individual`
  (`GAE.gaeLoop`) computes the recursively defined estimates (`GAE.adv`).
-/
namespace GAE

theorem nextNonTerminal_eq (c : Col) (t : Nat) (ht : t < c.T) :
    nextNonTerminal c t = 1 - ind (doneAt c (t + 1)) := by
  unfold nextNonTerminal doneAt
  by_cases h : t = c.T - 1
  · have h' : t + 1 = c.T := by omega
    rw [if_pos h, if_pos h']
  · have h' : t + 1 ≠ c.T := by omega
    rw [if_neg h, if_neg h']

theorem nextValue_eq (c : Col) (t : Nat) (ht : t < c.T) :
    nextValue c t = valAt c (t + 1) := by
  unfold nextValue valAt
  by_cases h : t = c.T - 1
  · have h' : t + 1 = c.T := by omega
    rw [if_pos h, if_pos h']
  · have h' : t + 1 ≠ c.T := by omega
    rw [if_neg h, if_neg h']

/-- the defining recursion -/
theorem adv_unfold (γ lam : Rat) (c : Col) (t : Nat) (ht : t < c.T) :
    adv γ lam c t = delta γ c t + γ * lam * (1 - ind (doneAt c (t + 1))) * adv γ lam c (t + 1) := by
  unfold adv
  have h : c.T - t = (c.T - (t + 1)) + 1 := by omega
  rw [h]
  rfl

theorem adv_beyond (γ lam : Rat) (c : Col) (t : Nat) (ht : c.T ≤ t) : adv γ lam c t = 0 := by
  unfold adv
  have h : c.T - t = 0 := by omega
  rw [h]
  rfl

/-- one pass of the loop body at step `t` turns the accumulator `A_{t+1}` into `A_t` -/
theorem loopBody_last (γ lam : Rat) (c : Col) (s : LoopState) (t : Nat) (ht : t < c.T)
    (hs : s.last = adv γ lam c (t + 1)) :
    (loopBody γ lam c s t).last = adv γ lam c t := by
  rw [adv_unfold γ lam c t ht]
  simp only [loopBody, nextNonTerminal_eq c t ht, nextValue_eq c t ht, hs, delta]

theorem loop_inv (γ lam : Rat) (c : Col) : ∀ n, n ≤ c.T → ∀ s : LoopState,
    s.last = adv γ lam c n → s.adv.length = c.T →
    (∀ t, n ≤ t → t < c.T → s.adv[t]? = some (adv γ lam c t)) →
    ((List.range n).reverse.foldl (loopBody γ lam c) s).adv.length = c.T ∧
    ∀ t, t < c.T → ((List.range n).reverse.foldl (loopBody γ lam c) s).adv[t]? = some (adv γ lam c t) := by
  intro n
  induction n with
  | zero =>
    intro _ s _ hl ha
    exact ⟨hl, fun t ht => ha t (Nat.zero_le _) ht⟩
  | succ n ih =>
    intro hn s hlast hl ha
    have hn' : n < c.T := by omega
    rw [List.range_succ, List.reverse_append, List.reverse_singleton, List.singleton_append,
      List.foldl_cons]
    apply ih (by omega) (loopBody γ lam c s n)
    · exact loopBody_last γ lam c s n hn' hlast
    · simp only [loopBody, List.length_set, hl]
    · intro t hnt ht
      by_cases e : t = n
      · subst e
        have := loopBody_last γ lam c s t hn' hlast
        simp only [loopBody] at this ⊢
        rw [List.getElem?_set_self (by omega), this]
      · have hne : n ≠ t := fun h => e h.symm
        simp only [loopBody]
        rw [List.getElem?_set_ne hne]
        exact ha t (by omega) ht

/-- **loop = definition**: entry `t` of the advantages the loop leaves behind is `A_t` -/
theorem gaeLoop_spec (γ lam : Rat) (c : Col) :
    (gaeLoop γ lam c).length = c.T ∧
    ∀ t, t < c.T → (gaeLoop γ lam c)[t]? = some (adv γ lam c t) := by
  unfold gaeLoop
  apply loop_inv γ lam c c.T (Nat.le_refl _) (loopInit c)
  · simp only [loopInit]; exact (adv_beyond γ lam c c.T (Nat.le_refl _)).symm
  · simp [loopInit]
  · intro t h1 h2; omega

theorem returnsOf_get (a v : List Rat) (t : Nat) (x y : Rat) (ha : a[t]? = some x) (hv : v[t]? = some y) :
    (returnsOf a v)[t]? = some (x + y) := by
  unfold returnsOf
  simp [List.getElem?_zipWith, ha, hv]

end GAE
