import Proofs.GAELoop
import Proofs.GAEFlat

/-!
  Proofs/GAEMatrix.lean — the whole-rollout function the driver runs (`gaeMatrix`, row-major
  `(T, C)`) gives, at row `t` and column `j`, the estimate `A_t` of column `j`.
-/
namespace GAE

theorem col_T (ro : Rollout) (j : Nat) : (ro.col j).T = ro.T := by
  simp [Rollout.col, Col.T]

theorem gaeMatrix_get (γ lam : Rat) (ro : Rollout) (t j : Nat) (ht : t < ro.T) (hj : j < ro.C) :
    (gaeMatrix γ lam ro).length = ro.T * ro.C ∧
    (gaeMatrix γ lam ro)[t * ro.C + j]? = some (adv γ lam (ro.col j) t) := by
  unfold gaeMatrix
  have hb := flatMap_block
    (fun t => ((List.range ro.C).map (fun j => gaeLoop γ lam (ro.col j))).map (fun a => a.getD t 0))
    ro.C ro.T (fun _ _ => by simp)
  refine ⟨hb.1, ?_⟩
  rw [hb.2 t j ht hj]
  have hspec := (gaeLoop_spec γ lam (ro.col j)).2 t (by rw [col_T]; exact ht)
  simp [hj, List.getD_eq_getElem?_getD, hspec]

end GAE
