import Model.HeapCkpt
import Proofs.HeapRun

/-! Lemmas about checkpoint save / load on the heap world (C07): `allocAll`, `spawn`, `load`,
    `loadInto` allocate only fresh cells, hold exactly the requested values and preserve the
    well-formedness and ownership invariants of C01. Core Lean only. -/
namespace HeapCkpt
open Heap

theorem allocAll_spec : ∀ (vss : List (List Nat)) (h : List Nat),
    (∃ ext, (allocAll h vss).1 = h ++ ext) ∧
    (allocAll h vss).2.length = vss.length ∧
    (∀ (k : Nat) (cs : List Nat), (allocAll h vss).2[k]? = some cs →
      ∃ vs, vss[k]? = some vs ∧ (∀ a ∈ cs, h.length ≤ a ∧ a < (allocAll h vss).1.length) ∧
        vals (allocAll h vss).1 cs = vs) ∧
    (∀ (k l : Nat) (ck cl : List Nat) (a : Nat), (allocAll h vss).2[k]? = some ck →
      (allocAll h vss).2[l]? = some cl → a ∈ ck → a ∈ cl → k = l)
  | [], h => by simp [allocAll]
  | vs :: rest, h => by
    obtain ⟨⟨ext, he⟩, hl, hk, hd⟩ := allocAll_spec rest (alloc h vs).1
    have hal : (alloc h vs).1 = h ++ vs := rfl
    have hlen : (alloc h vs).1.length = h.length + vs.length := by simp [alloc]
    have hfst : (allocAll h (vs :: rest)).1 = (allocAll (alloc h vs).1 rest).1 := rfl
    have hsnd : (allocAll h (vs :: rest)).2 = (alloc h vs).2 :: (allocAll (alloc h vs).1 rest).2 := rfl
    have hgrow : (alloc h vs).1.length ≤ (allocAll (alloc h vs).1 rest).1.length := by
      rw [he]; simp
    -- cells of the head attribute
    have hhead : ∀ a ∈ (alloc h vs).2, h.length ≤ a ∧ a < (alloc h vs).1.length :=
      fun a ha => alloc_addrs_mem h vs a ha
    refine ⟨⟨vs ++ ext, by rw [hfst, he, hal]; simp⟩, by rw [hsnd]; simp [hl], ?_, ?_⟩
    · intro k cs hcs
      rw [hsnd] at hcs
      cases k with
      | zero =>
        simp only [List.getElem?_cons_zero, Option.some.injEq] at hcs
        subst hcs
        refine ⟨vs, by simp, fun a ha => ?_, ?_⟩
        · have := hhead a ha; rw [hfst]; omega
        · rw [hfst, he, vals_append_left _ _ _ (fun a ha => (hhead a ha).2)]
          exact alloc_vals h vs
      | succ k =>
        simp only [List.getElem?_cons_succ] at hcs
        obtain ⟨vs', h1, h2, h3⟩ := hk k cs hcs
        refine ⟨vs', by simpa using h1, fun a ha => ?_, by rw [hfst]; exact h3⟩
        have := h2 a ha
        rw [hfst]; omega
    · intro k l ck cl a hck hcl hak hal'
      rw [hsnd] at hck hcl
      cases k with
      | zero =>
        cases l with
        | zero => rfl
        | succ l =>
          simp only [List.getElem?_cons_zero, Option.some.injEq] at hck
          subst hck
          simp only [List.getElem?_cons_succ] at hcl
          obtain ⟨_, _, h2, _⟩ := hk l cl hcl
          have := h2 a hal'
          have := hhead a hak
          omega
      | succ k =>
        cases l with
        | zero =>
          simp only [List.getElem?_cons_zero, Option.some.injEq] at hcl
          subst hcl
          simp only [List.getElem?_cons_succ] at hck
          obtain ⟨_, _, h2, _⟩ := hk k ck hck
          have := h2 a hak
          have := hhead a hal'
          omega
        | succ l =>
          simp only [List.getElem?_cons_succ] at hck hcl
          have := hd k l ck cl a hck hcl hak hal'
          omega

/-- the values held by the freshly allocated agent are exactly the requested ones -/
theorem allocAll_vals (vss : List (List Nat)) (h : List Nat) :
    (allocAll h vss).2.map (vals (allocAll h vss).1) = vss := by
  obtain ⟨_, hl, hk, _⟩ := allocAll_spec vss h
  apply List.ext_getElem?
  intro k
  rw [List.getElem?_map]
  by_cases hlt : k < vss.length
  · have hlt' : k < (allocAll h vss).2.length := by omega
    obtain ⟨vs, h1, _, h3⟩ := hk k _ (List.getElem?_eq_getElem hlt')
    rw [List.getElem?_eq_getElem hlt', h1]
    simp [h3]
  · rw [List.getElem?_eq_none (by omega), List.getElem?_eq_none (by omega)]; rfl

/-! ### spawn / load -/

theorem spawn_rules (w : World) (vss : List (List Nat)) : (spawn w vss).rules = w.rules := rfl

theorem spawn_agents (w : World) (vss : List (List Nat)) :
    (spawn w vss).agents = w.agents ++ [some (allocAll w.heap vss).2] := rfl

theorem spawn_heap (w : World) (vss : List (List Nat)) : (spawn w vss).heap = (allocAll w.heap vss).1 := rfl

/-- the new agent's view -/
theorem spawn_view_new (w : World) (vss : List (List Nat)) :
    view (spawn w vss) w.agents.length = some vss := by
  unfold view
  rw [spawn_agents, List.getElem?_append_right (Nat.le_refl _)]
  simp only [Nat.sub_self, List.getElem?_cons_zero, spawn_heap, Option.some.injEq]
  exact allocAll_vals vss w.heap

/-- nobody else's view changes -/
theorem spawn_view_old (w : World) (vss : List (List Nat)) (hwf : WF w) (j : Nat)
    (hj : j < w.agents.length) : view (spawn w vss) j = view w j := by
  obtain ⟨⟨ext, he⟩, _, _, _⟩ := allocAll_spec vss w.heap
  unfold view
  rw [spawn_agents, List.getElem?_append_left hj]
  cases hjj : w.agents[j]? with
  | none => rfl
  | some o =>
    cases o with
    | none => rfl
    | some aj =>
      simp only [Option.some.injEq]
      apply List.map_congr_left
      intro cl hcl
      obtain ⟨l, hl, rfl⟩ := List.getElem_of_mem hcl
      rw [spawn_heap, he]
      exact vals_append_left _ _ _ (fun a ha => hwf j aj l _ a hjj (List.getElem?_eq_getElem hl) ha)

theorem spawn_wf (w : World) (vss : List (List Nat)) (hwf : WF w) : WF (spawn w vss) := by
  obtain ⟨⟨ext, he⟩, _, hk, _⟩ := allocAll_spec vss w.heap
  intro n an k ck a han hck ha
  rw [spawn_agents] at han
  rw [spawn_heap]
  rcases getElem?_snoc _ _ _ _ han with hold | ⟨_, hnew⟩
  · have := hwf n an k ck a hold hck ha
    rw [he, List.length_append]; omega
  · cases hnew
    obtain ⟨_, _, h2, _⟩ := hk k ck hck
    exact (h2 a ha).2

/-- every cell of the spawned agent is new -/
theorem spawn_fresh (w : World) (vss : List (List Nat)) (k : Nat) (ck : List Nat) (a : Nat)
    (hck : (allocAll w.heap vss).2[k]? = some ck) (ha : a ∈ ck) : w.heap.length ≤ a := by
  obtain ⟨_, _, hk, _⟩ := allocAll_spec vss w.heap
  obtain ⟨_, _, h2, _⟩ := hk k ck hck
  exact (h2 a ha).1

theorem spawn_owned (w : World) (vss : List (List Nat)) (hwf : WF w) (how : Owned w) :
    Owned (spawn w vss) := by
  obtain ⟨_, _, hk, hd⟩ := allocAll_spec vss w.heap
  intro n m an am k l ck cl a han ham hck hcl hak hal hpriv
  rw [spawn_rules] at hpriv ⊢
  rw [spawn_agents] at han ham
  rcases getElem?_snoc _ _ _ _ han with hn | ⟨hn, hnew⟩ <;>
  rcases getElem?_snoc _ _ _ _ ham with hm | ⟨hm, hmew⟩
  · exact how n m an am k l ck cl a hn hm hck hcl hak hal hpriv
  · cases hmew
    have h1 : a < w.heap.length := hwf n an k ck a hn hck hak
    have h2 := spawn_fresh w vss l cl a hcl hal
    omega
  · cases hnew
    have h1 : a < w.heap.length := hwf m am l cl a hm hcl hal
    have h2 := spawn_fresh w vss k ck a hck hak
    omega
  · cases hnew; cases hmew
    have := hd k l ck cl a hck hcl hak hal
    subst this
    exact ⟨by omega, hpriv⟩

/-! ### loadInto -/

theorem loadInto_spec (w w' : World) (b : Blob) (sp : Spec) (j : Nat) (h : loadInto w b sp j = some w') :
    ∃ ag, w.agents[j]? = some (some ag) ∧ ag.length = b.length ∧
      w' = { w with heap := (allocAll w.heap (restoredVals b sp)).1,
                    agents := w.agents.set j (some (allocAll w.heap (restoredVals b sp)).2) } := by
  unfold loadInto at h
  split at h
  · next ag hag =>
    split at h
    · next hl => exact ⟨ag, hag, hl, by cases h; rfl⟩
    · cases h
  · cases h

theorem loadInto_view_self (w w' : World) (b : Blob) (sp : Spec) (j : Nat)
    (h : loadInto w b sp j = some w') : view w' j = some (restoredVals b sp) := by
  obtain ⟨ag, hag, _, rfl⟩ := loadInto_spec w w' b sp j h
  unfold view
  have hj : j < w.agents.length := lt_of_getElem?_some hag
  simp only [List.getElem?_set_self hj, Option.some.injEq]
  exact allocAll_vals _ w.heap

theorem loadInto_view_other (w w' : World) (b : Blob) (sp : Spec) (j : Nat)
    (h : loadInto w b sp j = some w') (hwf : WF w) (m : Nat) (hm : m ≠ j) : view w' m = view w m := by
  obtain ⟨ag, hag, _, rfl⟩ := loadInto_spec w w' b sp j h
  obtain ⟨⟨ext, he⟩, _, _, _⟩ := allocAll_spec (restoredVals b sp) w.heap
  unfold view
  simp only
  rw [List.getElem?_set_ne (fun e => hm e.symm)]
  cases hmm : w.agents[m]? with
  | none => rfl
  | some o =>
    cases o with
    | none => rfl
    | some am =>
      simp only [Option.some.injEq]
      apply List.map_congr_left
      intro cl hcl
      obtain ⟨l, hl, rfl⟩ := List.getElem_of_mem hcl
      rw [he]
      exact vals_append_left _ _ _ (fun a ha => hwf m am l _ a hmm (List.getElem?_eq_getElem hl) ha)

theorem loadInto_wf (w w' : World) (b : Blob) (sp : Spec) (j : Nat)
    (h : loadInto w b sp j = some w') (hwf : WF w) : WF w' := by
  obtain ⟨ag, hag, _, rfl⟩ := loadInto_spec w w' b sp j h
  obtain ⟨⟨ext, he⟩, _, hk, _⟩ := allocAll_spec (restoredVals b sp) w.heap
  intro n an k ck a han hck ha
  show a < (allocAll w.heap (restoredVals b sp)).1.length
  rcases getElem?_set_cases _ _ _ _ _ han with ⟨_, hx⟩ | ⟨_, hold⟩
  · cases hx
    obtain ⟨_, _, h2, _⟩ := hk k ck hck
    exact (h2 a ha).2
  · have := hwf n an k ck a hold hck ha
    rw [he, List.length_append]; omega

theorem loadInto_owned (w w' : World) (b : Blob) (sp : Spec) (j : Nat)
    (h : loadInto w b sp j = some w') (hwf : WF w) (how : Owned w) : Owned w' := by
  obtain ⟨ag, hag, _, rfl⟩ := loadInto_spec w w' b sp j h
  obtain ⟨_, _, hk, hd⟩ := allocAll_spec (restoredVals b sp) w.heap
  intro n m an am k l ck cl a han ham hck hcl hak hal hpriv
  -- each reach is either through the re-bound agent `j` (a new cell) or an old reach
  have classify : ∀ (n : Nat) (an : Agent) (k : Nat) (ck : List Nat),
      (w.agents.set j (some (allocAll w.heap (restoredVals b sp)).2))[n]? = some (some an) →
      an[k]? = some ck → a ∈ ck →
      (n = j ∧ an = (allocAll w.heap (restoredVals b sp)).2 ∧ w.heap.length ≤ a) ∨
      (a < w.heap.length ∧ w.agents[n]? = some (some an)) := by
    intro n an k ck hn hck ha
    rcases getElem?_set_cases _ _ _ _ _ hn with ⟨rfl, hx⟩ | ⟨_, hold⟩
    · cases hx
      exact Or.inl ⟨rfl, rfl, spawn_fresh w _ k ck a hck ha⟩
    · exact Or.inr ⟨hwf n an k ck a hold hck ha, hold⟩
  rcases classify n an k ck han hck hak with ⟨rfl, rfl, h1⟩ | ⟨h1, hn0⟩ <;>
  rcases classify m am l cl ham hcl hal with ⟨rfl, rfl, h2⟩ | ⟨h2, hm0⟩
  · have := hd k l ck cl a hck hcl hak hal
    subst this
    exact ⟨rfl, hpriv⟩
  · omega
  · omega
  · exact how n m an am k l ck cl a hn0 hm0 hck hcl hak hal hpriv

/-! ### what the restored cells hold -/

theorem restoredVals_length (b : Blob) (sp : Spec) : (restoredVals b sp).length = b.length := by
  simp [restoredVals]

theorem restoredVals_cell (b : Blob) (sp : Spec) (k c : Nat) (vs : List Nat) (v : Nat)
    (hk : b[k]? = some vs) (hc : vs[c]? = some v) :
    ∃ rs, (restoredVals b sp)[k]? = some rs ∧ rs.length = vs.length ∧
      rs[c]? = some (fillVal b k c (cellFill sp k c)) := by
  have hkl := lt_of_getElem?_some hk
  have hcl := lt_of_getElem?_some hc
  refine ⟨vs.mapIdx fun c _ => fillVal b k c (cellFill sp k c), ?_, by simp, ?_⟩
  · simp [restoredVals, List.getElem?_mapIdx, hk]
  · simp [List.getElem?_mapIdx, hc]

theorem blobVal_eq (b : Blob) (k c : Nat) (vs : List Nat) (v : Nat)
    (hk : b[k]? = some vs) (hc : vs[c]? = some v) : blobVal b k c = v := by
  simp [blobVal, List.getD_eq_getElem?_getD, hk, hc]

/-- with no exception every cell holds its saved value: the restored view *is* the file -/
theorem restoredVals_all_saved (b : Blob) : restoredVals b [] = b := by
  apply List.ext_getElem?
  intro k
  simp only [restoredVals, List.getElem?_mapIdx]
  cases hk : b[k]? with
  | none => rfl
  | some vs =>
    simp only [Option.map_some, Option.some.injEq]
    apply List.ext_getElem?
    intro c
    simp only [List.getElem?_mapIdx]
    cases hc : vs[c]? with
    | none => rfl
    | some v =>
      simp only [Option.map_some, Option.some.injEq]
      show fillVal b k c (cellFill [] k c) = v
      simp [cellFill, fillVal, blobVal_eq b k c vs v hk hc]

end HeapCkpt
