import Proofs.HeapCkptRun

/-! Soundness of the executable `Heap.aliasPairs` listing: every listed pair is a real shared cell. -/
namespace HeapCkpt
open Heap

theorem mem_aliasPairs (w : World) (i k j l : Nat) (h : (i, k, j, l) ∈ aliasPairs w) :
    ∃ ai aj ck cl a, w.agents[i]? = some (some ai) ∧ w.agents[j]? = some (some aj) ∧ i < j ∧
      ai[k]? = some ck ∧ aj[l]? = some cl ∧ a ∈ ck ∧ a ∈ cl := by
  unfold aliasPairs at h
  simp only [List.mem_flatMap, List.mem_filterMap, List.mem_range] at h
  obtain ⟨⟨i', ai⟩, ⟨i0, hi0, hi⟩, ⟨j', aj⟩, ⟨j0, hj0, hj⟩, h⟩ := h
  simp only at h
  split at h
  · next hlt =>
    simp only [List.mem_flatMap, List.mem_filterMap, List.mem_range] at h
    obtain ⟨k', hk', l', hl', h⟩ := h
    split at h
    · next hany =>
      simp only [Option.some.injEq, Prod.mk.injEq] at h
      obtain ⟨rfl, rfl, rfl, rfl⟩ := h
      split at hi
      · next ag hag =>
        simp only [Option.some.injEq, Prod.mk.injEq] at hi
        obtain ⟨rfl, rfl⟩ := hi
        split at hj
        · next ag2 hag2 =>
          simp only [Option.some.injEq, Prod.mk.injEq] at hj
          obtain ⟨rfl, rfl⟩ := hj
          simp only [List.any_eq_true, List.contains_iff_mem] at hany
          obtain ⟨a, ha1, ha2⟩ := hany
          refine ⟨ag, ag2, ag[k'], ag2[l'], a, hag, hag2, hlt, List.getElem?_eq_getElem hk',
            List.getElem?_eq_getElem hl', ?_, ?_⟩
          · simpa [List.getD_eq_getElem?_getD, List.getElem?_eq_getElem hk'] using ha1
          · simpa [List.getD_eq_getElem?_getD, List.getElem?_eq_getElem hl'] using ha2
        · cases hj
      · cases hi
    · cases h
  · cases h
end HeapCkpt
