import Proofs.HeapCkpt

/-! Histories that mix the C01 operations (clone / write / rebind / discard) with checkpoint
    operations (spawn = a separately constructed agent, load, loadInto): every reachable world is
    well-formed and owned (C07). -/
namespace HeapCkpt
open Heap

inductive COp
  | heap (op : Heap.Op)
  | spawn (vss : List (List Nat))
  | load (b : Blob) (sp : Spec)
  | loadInto (b : Blob) (sp : Spec) (j : Nat)

/-- an operation that does not apply leaves the world unchanged -/
def capply (w : World) : COp → World
  | .heap op => w.apply op
  | .spawn vss => spawn w vss
  | .load b sp => load w b sp
  | .loadInto b sp j => (loadInto w b sp j).getD w

def crun (w : World) (ops : List COp) : World := ops.foldl capply w

theorem capply_inv (w : World) (op : COp) (h : WF w ∧ Owned w) :
    WF (capply w op) ∧ Owned (capply w op) := by
  cases op with
  | heap op => exact apply_inv w op h
  | spawn vss => exact ⟨spawn_wf w vss h.1, spawn_owned w vss h.1 h.2⟩
  | load b sp => exact ⟨spawn_wf w _ h.1, spawn_owned w _ h.1 h.2⟩
  | loadInto b sp j =>
    simp only [capply]
    cases hl : loadInto w b sp j with
    | none => exact h
    | some w' => exact ⟨loadInto_wf w w' b sp j hl h.1, loadInto_owned w w' b sp j hl h.1 h.2⟩

theorem crun_inv (w : World) (ops : List COp) (h : WF w ∧ Owned w) :
    WF (crun w ops) ∧ Owned (crun w ops) := by
  induction ops generalizing w with
  | nil => exact h
  | cons op rest ih => exact ih (capply w op) (capply_inv w op h)

theorem capply_rules (w : World) (op : COp) : (capply w op).rules = w.rules := by
  cases op with
  | heap op => exact apply_rules w op
  | spawn vss => rfl
  | load b sp => rfl
  | loadInto b sp j =>
    simp only [capply]
    cases hl : loadInto w b sp j with
    | none => rfl
    | some w' => obtain ⟨_, _, _, rfl⟩ := loadInto_spec w w' b sp j hl; rfl

theorem crun_rules (w : World) (ops : List COp) : (crun w ops).rules = w.rules := by
  induction ops generalizing w with
  | nil => rfl
  | cons op rest ih =>
    show (crun (capply w op) rest).rules = w.rules
    rw [ih, capply_rules]

/-- every world reachable from one freshly built agent by any history of C01 and checkpoint ops -/
def CReachable (rules : List Rule) (w : World) : Prop :=
  ∃ sizes ops, w = crun (World.init rules sizes) ops

theorem creachable_inv {rules : List Rule} {w : World} (h : CReachable rules w) :
    WF w ∧ Owned w ∧ w.rules = rules := by
  obtain ⟨sizes, ops, rfl⟩ := h
  have := crun_inv (World.init rules sizes) ops ⟨init_wf rules sizes, init_owned rules sizes⟩
  exact ⟨this.1, this.2, by rw [crun_rules]; rfl⟩

theorem creachable_capply {rules : List Rule} {w : World} (h : CReachable rules w) (op : COp) :
    CReachable rules (capply w op) := by
  obtain ⟨sizes, ops, rfl⟩ := h
  exact ⟨sizes, ops ++ [op], by simp [crun, List.foldl_append]⟩

theorem creachable_crun {rules : List Rule} {w : World} (h : CReachable rules w) (ops : List COp) :
    CReachable rules (crun w ops) := by
  obtain ⟨sizes, ops0, rfl⟩ := h
  exact ⟨sizes, ops0 ++ ops, by simp [crun, List.foldl_append]⟩

/-- the C01 histories are a special case -/
theorem creachable_of_reachable {rules : List Rule} {w : World} (h : Reachable rules w) :
    CReachable rules w := by
  obtain ⟨sizes, ops, rfl⟩ := h
  refine ⟨sizes, ops.map COp.heap, ?_⟩
  generalize World.init rules sizes = w0
  induction ops generalizing w0 with
  | nil => rfl
  | cons op rest ih => exact ih (w0.apply op)

end HeapCkpt
