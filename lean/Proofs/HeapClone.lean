import Proofs.HeapLemmas

/-! `clone` preserves well-formedness and ownership (C01). -/
namespace Heap

theorem getElem?_snoc {α} (l : List α) (x y : α) (n : Nat) (h : (l ++ [x])[n]? = some y) :
    l[n]? = some y ∨ (n = l.length ∧ x = y) := by
  by_cases hn : n < l.length
  · rw [List.getElem?_append_left hn] at h; exact Or.inl h
  · rw [List.getElem?_append_right (by omega)] at h
    by_cases h0 : n - l.length = 0
    · rw [h0] at h; simp at h; exact Or.inr ⟨by omega, h⟩
    · have : 1 ≤ n - l.length := by omega
      rw [List.getElem?_eq_none (by simpa using this)] at h; cases h

theorem getElem?_set_cases {α} (l : List α) (i n : Nat) (x y : α) (h : (l.set i x)[n]? = some y) :
    (n = i ∧ x = y) ∨ (n ≠ i ∧ l[n]? = some y) := by
  rw [List.getElem?_set] at h
  by_cases e : i = n
  · subst e
    simp only [if_true] at h
    split at h
    · left; exact ⟨rfl, by simpa using h⟩
    · cases h
  · simp only [e, if_false] at h; right; exact ⟨fun h' => e h'.symm, h⟩

theorem lt_of_getElem?_some {α} {l : List α} {n : Nat} {y : α} (h : l[n]? = some y) : n < l.length := by
  by_cases hn : n < l.length
  · exact hn
  · rw [List.getElem?_eq_none (by omega)] at h; cases h

/-- what the child looks like, attribute by attribute -/
theorem clone_child (w : World) (i : Nat) (p : Agent) (hp : w.agents[i]? = some (some p)) (hwf : WF w) :
    (w.clone i).rules = w.rules ∧
    (w.clone i).agents = w.agents ++ [some (cloneAttrs p w.rules p w.heap).2] ∧
    (∃ ext, (w.clone i).heap = w.heap ++ ext) ∧
    ∀ (k : Nat) (cs' : List Nat), (cloneAttrs p w.rules p w.heap).2[k]? = some cs' →
      ∃ rule cs, w.rules[k]? = some rule ∧ p[k]? = some cs ∧
        (rule = Rule.byRef → cs' = cs) ∧
        (rule ≠ Rule.byRef → (∀ a ∈ cs', w.heap.length ≤ a ∧ a < (w.clone i).heap.length) ∧
            vals (w.clone i).heap cs' = vals w.heap (srcOf p cs rule)) := by
  have hlt : ∀ cs ∈ p, ∀ a ∈ cs, a < w.heap.length := by
    intro cs hcs a ha
    obtain ⟨k, hk, rfl⟩ := List.getElem_of_mem hcs
    exact hwf i p k _ a hp (List.getElem?_eq_getElem hk) ha
  have hpar : ∀ (src : Nat) (cs : List Nat), p[src]? = some cs → ∀ a ∈ cs, a < w.heap.length :=
    fun src cs h a ha => hwf i p src cs a hp h ha
  obtain ⟨hext, hlen, hk⟩ := cloneAttrs_spec p w.rules p w.heap hlt hpar
  have hc1 : (w.clone i).rules = w.rules := by simp [World.clone, hp]
  have hc2 : (w.clone i).agents = w.agents ++ [some (cloneAttrs p w.rules p w.heap).snd] := by
    simp [World.clone, hp]
  have hc3 : (w.clone i).heap = (cloneAttrs p w.rules p w.heap).fst := by simp [World.clone, hp]
  rw [hc3]
  refine ⟨hc1, hc2, hext, ?_⟩
  intro k cs' hcs'
  have hklt := lt_of_getElem?_some hcs'
  rw [hlen] at hklt
  have h1 : k < w.rules.length := by omega
  have h2 : k < p.length := by omega
  obtain ⟨cs'', e1, e2, e3⟩ := hk k w.rules[k] p[k] (List.getElem?_eq_getElem h1) (List.getElem?_eq_getElem h2)
  rw [hcs'] at e1
  cases e1
  exact ⟨w.rules[k], p[k], List.getElem?_eq_getElem h1, List.getElem?_eq_getElem h2, e2, e3⟩

theorem clone_noop (w : World) (i : Nat) (h : ∀ p, w.agents[i]? ≠ some (some p)) : w.clone i = w := by
  unfold World.clone
  split
  · next p hp => exact absurd hp (h p)
  · rfl

theorem clone_wf (w : World) (i : Nat) (hwf : WF w) : WF (w.clone i) := by
  cases hp : w.agents[i]? with
  | none => rw [clone_noop w i (by simp [hp])]; exact hwf
  | some o =>
    cases o with
    | none => rw [clone_noop w i (by simp [hp])]; exact hwf
    | some p =>
      obtain ⟨_, hag, ⟨ext, hext⟩, hch⟩ := clone_child w i p hp hwf
      intro n an k ck a han hk ha
      rw [hag] at han
      rcases getElem?_snoc _ _ _ _ han with hold | ⟨_, hnew⟩
      · have := hwf n an k ck a hold hk ha
        rw [hext, List.length_append]; omega
      · cases hnew
        obtain ⟨rule, cs, hr, hpk, hby, hfr⟩ := hch k ck hk
        by_cases hb : rule = Rule.byRef
        · rw [hby hb] at ha
          have := hwf i p k cs a hp hpk ha
          rw [hext, List.length_append]; omega
        · exact ((hfr hb).1 a ha).2

theorem clone_owned (w : World) (i : Nat) (hwf : WF w) (how : Owned w) : Owned (w.clone i) := by
  cases hp : w.agents[i]? with
  | none => rw [clone_noop w i (by simp [hp])]; exact how
  | some o =>
    cases o with
    | none => rw [clone_noop w i (by simp [hp])]; exact how
    | some p =>
      obtain ⟨hru, hag, ⟨ext, hext⟩, hch⟩ := clone_child w i p hp hwf
      intro n m an am k l ck cl a han ham hk hl hak hal hpriv
      rw [hru] at hpriv ⊢
      rw [hag] at han ham
      rcases getElem?_snoc _ _ _ _ han with hn | ⟨hn, hnew⟩ <;>
      rcases getElem?_snoc _ _ _ _ ham with hm | ⟨hm, hmew⟩
      · exact how n m an am k l ck cl a hn hm hk hl hak hal hpriv
      · -- n old (private reach), m = child
        cases hmew
        have halt : a < w.heap.length := hwf n an k ck a hn hk hak
        obtain ⟨rule, cs, hr, hpl, hby, hfr⟩ := hch l cl hl
        by_cases hb : rule = Rule.byRef
        · rw [hby hb] at hal
          have := how n i an p k l ck cs a hn hp hk hpl hak hal hpriv
          rw [hr, hb] at this
          exact absurd rfl this.2
        · have := ((hfr hb).1 a hal).1
          omega
      · -- n = child, m old
        cases hnew
        obtain ⟨rule, cs, hr, hpk, hby, hfr⟩ := hch k ck hk
        have hb : rule ≠ Rule.byRef := by
          intro hb; rw [hr, hb] at hpriv; exact hpriv rfl
        have h1 := ((hfr hb).1 a hak).1
        have h2 : a < w.heap.length := hwf m am l cl a hm hl hal
        omega
      · -- both the child
        cases hnew; cases hmew
        refine ⟨by omega, ?_⟩
        obtain ⟨rule, cs, hr, hpk, hby, hfr⟩ := hch k ck hk
        have hb : rule ≠ Rule.byRef := by
          intro hb; rw [hr, hb] at hpriv; exact hpriv rfl
        have h1 := ((hfr hb).1 a hak).1
        obtain ⟨rule2, cs2, hr2, hpl, hby2, hfr2⟩ := hch l cl hl
        intro hl2
        rw [hr2] at hl2
        cases hl2
        rw [hby2 rfl] at hal
        have := hwf i p l cs2 a hp hpl hal
        omega
end Heap
