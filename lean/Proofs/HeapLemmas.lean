import Model.Heap

/-! Helper lemmas for the heap / aliasing model (C01, C07). Core Lean only. -/
namespace Heap

/-- every address an agent reaches is allocated -/
def WF (w : World) : Prop :=
  ∀ (i : Nat) (ai : Agent) (k : Nat) (ck : List Nat) (a : Nat),
    w.agents[i]? = some (some ai) → ai[k]? = some ck → a ∈ ck → a < w.heap.length

/-- ownership invariant: a cell reached through a *private* (not by-reference) attribute of an
    agent is reached by that agent only, and only through private attributes -/
def Owned (w : World) : Prop :=
  ∀ (i j : Nat) (ai aj : Agent) (k l : Nat) (ck cl : List Nat) (a : Nat),
    w.agents[i]? = some (some ai) → w.agents[j]? = some (some aj) →
    ai[k]? = some ck → aj[l]? = some cl → a ∈ ck → a ∈ cl →
    w.rules[k]? ≠ some Rule.byRef → i = j ∧ w.rules[l]? ≠ some Rule.byRef

theorem vals_append_left (h ext : List Nat) (cs : List Nat) (hlt : ∀ a ∈ cs, a < h.length) :
    vals (h ++ ext) cs = vals h cs := by
  unfold vals
  apply List.map_congr_left
  intro a ha
  simp only [List.getD_eq_getElem?_getD]
  rw [List.getElem?_append_left (hlt a ha)]

theorem alloc_addrs_mem (h : List Nat) (vs : List Nat) (a : Nat)
    (ha : a ∈ (alloc h vs).2) : h.length ≤ a ∧ a < (alloc h vs).1.length := by
  simp only [alloc, List.mem_map, List.mem_range] at ha
  obtain ⟨i, hi, rfl⟩ := ha
  simp [alloc]; omega

theorem alloc_vals (h vs : List Nat) : vals (alloc h vs).1 (alloc h vs).2 = vs := by
  apply List.ext_getElem?
  intro n
  simp only [alloc, vals, List.map_map, List.getElem?_map]
  by_cases hn : n < vs.length
  · rw [List.getElem?_range hn]
    simp only [Option.map_some, Function.comp, List.getD_eq_getElem?_getD]
    rw [List.getElem?_append_right (by omega)]
    simp [List.getElem?_eq_getElem hn]
  · have : vs.length ≤ n := by omega
    rw [List.getElem?_eq_none (by simpa using this), List.getElem?_eq_none this]; rfl

theorem srcOf_lt (parent : Agent) (cs : List Nat) (r : Rule) (n : Nat)
    (hcs : ∀ a ∈ cs, a < n)
    (hpar : ∀ (src : Nat) (c : List Nat), parent[src]? = some c → ∀ a ∈ c, a < n) :
    ∀ a ∈ srcOf parent cs r, a < n := by
  intro a ha
  cases r with
  | fresh => exact hcs a ha
  | byRef => exact hcs a ha
  | resync src =>
    simp only [srcOf, List.getD_eq_getElem?_getD] at ha
    cases hsrc : parent[src]? with
    | none => simp [hsrc] at ha
    | some c => simp only [hsrc, Option.getD_some] at ha; exact hpar src c hsrc a ha

/-- characterisation of `cloneAttrs`, attribute by attribute -/
theorem cloneAttrs_spec (parent : Agent) :
    ∀ (rules : List Rule) (attrs : List (List Nat)) (h : List Nat),
      (∀ cs ∈ attrs, ∀ a ∈ cs, a < h.length) →
      (∀ (src : Nat) (cs : List Nat), parent[src]? = some cs → ∀ a ∈ cs, a < h.length) →
      (∃ ext, (cloneAttrs parent rules attrs h).1 = h ++ ext) ∧
      (cloneAttrs parent rules attrs h).2.length = min rules.length attrs.length ∧
      ∀ (k : Nat) (rule : Rule) (cs : List Nat), rules[k]? = some rule → attrs[k]? = some cs →
        ∃ cs' : List Nat, (cloneAttrs parent rules attrs h).2[k]? = some cs' ∧
          (rule = Rule.byRef → cs' = cs) ∧
          (rule ≠ Rule.byRef →
            (∀ a ∈ cs', h.length ≤ a ∧ a < (cloneAttrs parent rules attrs h).1.length) ∧
            vals (cloneAttrs parent rules attrs h).1 cs' = vals h (srcOf parent cs rule)) := by
  intro rules
  induction rules with
  | nil => intro attrs h _ _; simp [cloneAttrs]
  | cons r rs ih =>
    intro attrs h hlt hpar
    cases attrs with
    | nil => simp [cloneAttrs]
    | cons cs rest =>
      have hrest : ∀ cs' ∈ rest, ∀ a ∈ cs', a < h.length := fun c hc => hlt c (by simp [hc])
      have hcs : ∀ a ∈ cs, a < h.length := hlt cs (by simp)
      by_cases hr : r = Rule.byRef
      · simp only [cloneAttrs, hr, if_true]
        obtain ⟨⟨ext, he⟩, hl, hk⟩ := ih rest h hrest hpar
        refine ⟨⟨ext, he⟩, by simp only [List.length_cons, hl]; omega, ?_⟩
        intro k rule cs0 hrk ha
        cases k with
        | zero =>
          simp only [List.getElem?_cons_zero, Option.some.injEq] at hrk ha
          subst hrk; subst ha
          exact ⟨cs, by simp, fun _ => rfl, fun h => absurd rfl h⟩
        | succ k =>
          simp only [List.getElem?_cons_succ] at hrk ha ⊢
          exact hk k rule cs0 hrk ha
      · simp only [cloneAttrs, hr, if_false]
        have hsrc := srcOf_lt parent cs r h.length hcs hpar
        have hmono : ∀ n, n < h.length → n < (alloc h (vals h (srcOf parent cs r))).1.length := by
          intro n hn; simp [alloc]; omega
        obtain ⟨⟨ext, he⟩, hl, hk⟩ := ih rest (alloc h (vals h (srcOf parent cs r))).1
          (fun c hc a ha => hmono _ (hrest c hc a ha))
          (fun src c hsrc a ha => hmono _ (hpar src c hsrc a ha))
        have he' : (cloneAttrs parent rs rest (alloc h (vals h (srcOf parent cs r))).1).1 =
            h ++ (vals h (srcOf parent cs r) ++ ext) := by
          rw [he]; simp [alloc]
        refine ⟨⟨_, he'⟩, by simp only [List.length_cons, hl]; omega, ?_⟩
        intro k rule cs0 hrk ha
        cases k with
        | zero =>
          simp only [List.getElem?_cons_zero, Option.some.injEq] at hrk ha
          subst hrk; subst ha
          refine ⟨(alloc h (vals h (srcOf parent cs r))).2, by simp, fun h => absurd h hr,
            fun _ => ⟨fun a ha => ?_, ?_⟩⟩
          · have := alloc_addrs_mem h _ a ha
            rw [he]; simp only [List.length_append]; omega
          · rw [he, vals_append_left _ _ _ (fun a ha => (alloc_addrs_mem h _ a ha).2)]
            exact alloc_vals h _
        | succ k =>
          simp only [List.getElem?_cons_succ] at hrk ha ⊢
          obtain ⟨cs', h1, h2, h3⟩ := hk k rule cs0 hrk ha
          refine ⟨cs', h1, h2, fun hne => ?_⟩
          obtain ⟨h3a, h3b⟩ := h3 hne
          refine ⟨fun a ha => ?_, ?_⟩
          · have := h3a a ha
            have hh : h.length ≤ (alloc h (vals h (srcOf parent cs r))).1.length := by simp [alloc]
            omega
          · rw [h3b]
            apply vals_append_left
            have hcs0 : ∀ a ∈ cs0, a < h.length := hrest cs0 (List.mem_of_getElem? ha)
            exact srcOf_lt parent cs0 rule h.length hcs0 hpar
end Heap
