import Proofs.HeapClone

/-! write / rebind / discard / init preserve the invariants; the frame lemma (C01). -/
namespace Heap

theorem write_spec (w w' : World) (i k c v : Nat) (h : w.write i k c v = some w') :
    ∃ ag a, w.agents[i]? = some (some ag) ∧ (ag.getD k [])[c]? = some a ∧
      w' = { w with heap := w.heap.set a v } := by
  unfold World.write at h
  split at h
  · next ag hag =>
    split at h
    · next a ha => exact ⟨ag, a, hag, ha, by cases h; rfl⟩
    · cases h
  · cases h

theorem write_wf (w w' : World) (i k c v : Nat) (h : w.write i k c v = some w') (hwf : WF w) : WF w' := by
  obtain ⟨ag, a, _, _, rfl⟩ := write_spec w w' i k c v h
  intro n an k ck b hn hk hb
  simpa using hwf n an k ck b hn hk hb

theorem write_owned (w w' : World) (i k c v : Nat) (h : w.write i k c v = some w') (how : Owned w) :
    Owned w' := by
  obtain ⟨ag, a, _, _, rfl⟩ := write_spec w w' i k c v h
  exact how

theorem rebind_spec (w w' : World) (i k : Nat) (vs : List Nat) (h : w.rebind i k vs = some w') :
    ∃ ag, w.agents[i]? = some (some ag) ∧ k < ag.length ∧
      w' = { w with heap := (alloc w.heap vs).1,
                    agents := w.agents.set i (some (ag.set k (alloc w.heap vs).2)) } := by
  unfold World.rebind at h
  split at h
  · next ag hag =>
    split at h
    · next hk => exact ⟨ag, hag, hk, by cases h; rfl⟩
    · cases h
  · cases h

theorem rebind_wf (w w' : World) (i k : Nat) (vs : List Nat) (h : w.rebind i k vs = some w')
    (hwf : WF w) : WF w' := by
  obtain ⟨ag, hag, hk, rfl⟩ := rebind_spec w w' i k vs h
  intro n an l cl b hn hl hb
  have hlen : w.heap.length ≤ (alloc w.heap vs).1.length := by simp [alloc]
  rcases getElem?_set_cases _ _ _ _ _ hn with ⟨rfl, hx⟩ | ⟨hne, hold⟩
  · cases hx
    rcases getElem?_set_cases _ _ _ _ _ hl with ⟨rfl, hy⟩ | ⟨_, hold⟩
    · cases hy; exact (alloc_addrs_mem _ _ b hb).2
    · have := hwf n ag l cl b hag hold hb
      show b < (alloc w.heap vs).1.length
      omega
  · have := hwf n an l cl b hold hl hb
    show b < (alloc w.heap vs).1.length
    omega

theorem rebind_owned (w w' : World) (i k : Nat) (vs : List Nat) (h : w.rebind i k vs = some w')
    (hwf : WF w) (how : Owned w) : Owned w' := by
  obtain ⟨ag, hag, hk, rfl⟩ := rebind_spec w w' i k vs h
  intro n m an am k1 l1 ck cl a han ham hk1 hl1 hak hal hpriv
  -- classify each of the two reaches: a fresh cell (only agent i, attribute k) or an old reach
  have classify : ∀ (n : Nat) (an : Agent) (k1 : Nat) (ck : List Nat),
      (w.agents.set i (some (ag.set k (alloc w.heap vs).2)))[n]? = some (some an) →
      an[k1]? = some ck → a ∈ ck →
      (n = i ∧ k1 = k ∧ w.heap.length ≤ a) ∨
      (a < w.heap.length ∧ ∃ an0, w.agents[n]? = some (some an0) ∧ an0[k1]? = some ck) := by
    intro n an k1 ck hn hk1 ha
    rcases getElem?_set_cases _ _ _ _ _ hn with ⟨rfl, hx⟩ | ⟨hne, hold⟩
    · cases hx
      rcases getElem?_set_cases _ _ _ _ _ hk1 with ⟨rfl, hy⟩ | ⟨_, hold⟩
      · cases hy; exact Or.inl ⟨rfl, rfl, (alloc_addrs_mem _ _ a ha).1⟩
      · exact Or.inr ⟨hwf n ag k1 ck a hag hold ha, ag, hag, hold⟩
    · exact Or.inr ⟨hwf n an k1 ck a hold hk1 ha, an, hold, hk1⟩
  rcases classify n an k1 ck han hk1 hak with ⟨rfl, rfl, h1⟩ | ⟨h1, an0, hn0, hk0⟩ <;>
  rcases classify m am l1 cl ham hl1 hal with ⟨rfl, rfl, h2⟩ | ⟨h2, am0, hm0, hl0⟩
  · exact ⟨rfl, hpriv⟩
  · omega
  · omega
  · exact how n m an0 am0 k1 l1 ck cl a hn0 hm0 hk0 hl0 hak hal hpriv

theorem discard_wf (w : World) (i : Nat) (hwf : WF w) : WF (w.discard i) := by
  intro n an k ck a hn hk ha
  rcases getElem?_set_cases _ _ _ _ _ hn with ⟨_, hx⟩ | ⟨_, hold⟩
  · cases hx
  · exact hwf n an k ck a hold hk ha

theorem discard_owned (w : World) (i : Nat) (how : Owned w) : Owned (w.discard i) := by
  intro n m an am k l ck cl a hn hm hk hl hak hal hpriv
  rcases getElem?_set_cases _ _ _ _ _ hn with ⟨_, hx⟩ | ⟨_, hn0⟩
  · cases hx
  rcases getElem?_set_cases _ _ _ _ _ hm with ⟨_, hx⟩ | ⟨_, hm0⟩
  · cases hx
  exact how n m an am k l ck cl a hn0 hm0 hk hl hak hal hpriv

/-- the frame property: a write through a private attribute of agent `i` is invisible to `j ≠ i` -/
theorem write_frame (w w' : World) (i k c v : Nat) (h : w.write i k c v = some w') (how : Owned w)
    (hpriv : w.rules[k]? ≠ some Rule.byRef) (j : Nat) (hij : j ≠ i) : view w' j = view w j := by
  obtain ⟨ag, a, hag, ha, rfl⟩ := write_spec w w' i k c v h
  unfold view
  simp only
  cases hj : w.agents[j]? with
  | none => rfl
  | some o =>
    cases o with
    | none => rfl
    | some aj =>
      simp only [Option.some.injEq]
      apply List.map_congr_left
      intro cl hcl
      obtain ⟨l, hl, rfl⟩ := List.getElem_of_mem hcl
      unfold vals
      apply List.map_congr_left
      intro b hb
      have hne : b ≠ a := by
        intro e
        subst e
        have hk : k < ag.length := by
          by_cases hk : k < ag.length
          · exact hk
          · simp [List.getD_eq_getElem?_getD, List.getElem?_eq_none (Nat.le_of_not_lt hk)] at ha
        have hck : ag[k]? = some ag[k] := List.getElem?_eq_getElem hk
        have hmem : b ∈ ag[k] := by
          simp only [List.getD_eq_getElem?_getD, hck, Option.getD_some] at ha
          exact List.mem_of_getElem? ha
        have := how i j ag aj k l ag[k] aj[l] b hag hj hck (List.getElem?_eq_getElem hl) hmem hb hpriv
        exact hij this.1.symm
      simp only [List.getD_eq_getElem?_getD]
      rw [List.getElem?_set_ne (fun e => hne e.symm)]

/-- bounds of `initAttrs` -/
theorem initAttrs_bounds : ∀ (sizes : List Nat) (b k : Nat) (ck : List Nat) (a : Nat),
    (initAttrs b sizes)[k]? = some ck → a ∈ ck → b ≤ a ∧ a < b + sizes.sum
  | [], b, k, ck, a, h, _ => by simp [initAttrs] at h
  | n :: ns, b, 0, ck, a, h, ha => by
    simp only [initAttrs, List.getElem?_cons_zero, Option.some.injEq] at h
    subst h
    simp only [List.mem_map, List.mem_range] at ha
    obtain ⟨t, ht, rfl⟩ := ha
    simp only [List.sum_cons]; omega
  | n :: ns, b, k + 1, ck, a, h, ha => by
    simp only [initAttrs, List.getElem?_cons_succ] at h
    have := initAttrs_bounds ns (b + n) k ck a h ha
    simp only [List.sum_cons]; omega

theorem initAttrs_disjoint : ∀ (sizes : List Nat) (b k l : Nat) (ck cl : List Nat) (a : Nat),
    (initAttrs b sizes)[k]? = some ck → (initAttrs b sizes)[l]? = some cl → a ∈ ck → a ∈ cl → k = l
  | [], b, k, l, ck, cl, a, h, _, _, _ => by simp [initAttrs] at h
  | n :: ns, b, 0, 0, _, _, _, _, _, _, _ => rfl
  | n :: ns, b, 0, l + 1, ck, cl, a, h1, h2, ha1, ha2 => by
    have hb := initAttrs_bounds (n :: ns) b 0 ck a h1 ha1
    simp only [initAttrs, List.getElem?_cons_zero, Option.some.injEq] at h1
    subst h1
    simp only [List.mem_map, List.mem_range] at ha1
    obtain ⟨t, ht, rfl⟩ := ha1
    simp only [initAttrs, List.getElem?_cons_succ] at h2
    have := initAttrs_bounds ns (b + n) l cl _ h2 ha2
    omega
  | n :: ns, b, k + 1, 0, ck, cl, a, h1, h2, ha1, ha2 => by
    simp only [initAttrs, List.getElem?_cons_zero, Option.some.injEq] at h2
    subst h2
    simp only [List.mem_map, List.mem_range] at ha2
    obtain ⟨t, ht, rfl⟩ := ha2
    simp only [initAttrs, List.getElem?_cons_succ] at h1
    have := initAttrs_bounds ns (b + n) k ck _ h1 ha1
    omega
  | n :: ns, b, k + 1, l + 1, ck, cl, a, h1, h2, ha1, ha2 => by
    simp only [initAttrs, List.getElem?_cons_succ] at h1 h2
    have := initAttrs_disjoint ns (b + n) k l ck cl a h1 h2 ha1 ha2
    omega

theorem init_wf (rules : List Rule) (sizes : List Nat) : WF (World.init rules sizes) := by
  intro i ai k ck a hi hk ha
  simp only [World.init] at hi ⊢
  cases i with
  | zero =>
    simp only [List.getElem?_cons_zero, Option.some.injEq] at hi
    subst hi
    have := initAttrs_bounds sizes 0 k ck a hk ha
    simp; omega
  | succ i => simp at hi

theorem init_owned (rules : List Rule) (sizes : List Nat) : Owned (World.init rules sizes) := by
  intro i j ai aj k l ck cl a hi hj hk hl hak hal hpriv
  simp only [World.init] at hi hj hpriv ⊢
  cases i with
  | succ i => simp at hi
  | zero =>
    cases j with
    | succ j => simp at hj
    | zero =>
      simp only [List.getElem?_cons_zero, Option.some.injEq] at hi hj
      subst hi; subst hj
      have := initAttrs_disjoint sizes 0 k l ck cl a hk hl hak hal
      subst this
      exact ⟨rfl, hpriv⟩
end Heap
