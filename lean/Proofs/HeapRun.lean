import Proofs.HeapOps

/-! Operation sequences over the heap model: every reachable world is well-formed and owned. -/
namespace Heap

inductive Op
  | clone (i : Nat)
  | write (i k c v : Nat)
  | rebind (i k : Nat) (vs : List Nat)
  | discard (i : Nat)
deriving Repr

/-- an operation that does not apply (dead agent, missing cell) leaves the world unchanged -/
def World.apply (w : World) : Op → World
  | .clone i => w.clone i
  | .write i k c v => (w.write i k c v).getD w
  | .rebind i k vs => (w.rebind i k vs).getD w
  | .discard i => w.discard i

def World.run (w : World) (ops : List Op) : World := ops.foldl World.apply w

theorem apply_inv (w : World) (op : Op) (h : WF w ∧ Owned w) : WF (w.apply op) ∧ Owned (w.apply op) := by
  obtain ⟨hwf, how⟩ := h
  cases op with
  | clone i => exact ⟨clone_wf w i hwf, clone_owned w i hwf how⟩
  | write i k c v =>
    simp only [World.apply]
    cases hw : w.write i k c v with
    | none => exact ⟨hwf, how⟩
    | some w' => exact ⟨write_wf w w' i k c v hw hwf, write_owned w w' i k c v hw how⟩
  | rebind i k vs =>
    simp only [World.apply]
    cases hw : w.rebind i k vs with
    | none => exact ⟨hwf, how⟩
    | some w' => exact ⟨rebind_wf w w' i k vs hw hwf, rebind_owned w w' i k vs hw hwf how⟩
  | discard i => exact ⟨discard_wf w i hwf, discard_owned w i how⟩

theorem run_inv (w : World) (ops : List Op) (h : WF w ∧ Owned w) :
    WF (w.run ops) ∧ Owned (w.run ops) := by
  induction ops generalizing w with
  | nil => exact h
  | cons op rest ih => exact ih (w.apply op) (apply_inv w op h)

theorem apply_rules (w : World) (op : Op) : (w.apply op).rules = w.rules := by
  cases op with
  | clone i => simp only [World.apply, World.clone]; split <;> rfl
  | write i k c v =>
    simp only [World.apply]
    cases hw : w.write i k c v with
    | none => rfl
    | some w' => obtain ⟨_, _, _, _, rfl⟩ := write_spec w w' i k c v hw; rfl
  | rebind i k vs =>
    simp only [World.apply]
    cases hw : w.rebind i k vs with
    | none => rfl
    | some w' => obtain ⟨_, _, _, rfl⟩ := rebind_spec w w' i k vs hw; rfl
  | discard i => rfl

theorem run_rules (w : World) (ops : List Op) : (w.run ops).rules = w.rules := by
  induction ops generalizing w with
  | nil => rfl
  | cons op rest ih =>
    show ((w.apply op).run rest).rules = w.rules
    rw [ih, apply_rules]

/-- every world reachable from a single freshly built agent -/
def Reachable (rules : List Rule) (w : World) : Prop :=
  ∃ sizes ops, w = (World.init rules sizes).run ops

theorem reachable_inv {rules : List Rule} {w : World} (h : Reachable rules w) :
    WF w ∧ Owned w ∧ w.rules = rules := by
  obtain ⟨sizes, ops, rfl⟩ := h
  have := run_inv (World.init rules sizes) ops ⟨init_wf rules sizes, init_owned rules sizes⟩
  exact ⟨this.1, this.2, by rw [run_rules]; rfl⟩

theorem reachable_apply {rules : List Rule} {w : World} (h : Reachable rules w) (op : Op) :
    Reachable rules (w.apply op) := by
  obtain ⟨sizes, ops, rfl⟩ := h
  exact ⟨sizes, ops ++ [op], by simp [World.run, List.foldl_append]⟩

end Heap
