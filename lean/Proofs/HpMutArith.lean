import Mathlib.Tactic.Linarith
import Mathlib.Algebra.Order.Field.Rat
import Model.HpMut

/-! Helper lemmas for C06: `clip`, `trunc` (Python `int()`), `RLParameter.mutate`. -/
namespace HpMut

theorem pyMax_ge_left (x lo : Rat) : x ≤ pyMax x lo := by
  unfold pyMax; split
  · next h => exact le_of_lt h
  · exact le_refl _

theorem pyMax_ge_right (x lo : Rat) : lo ≤ pyMax x lo := by
  unfold pyMax; split
  · exact le_refl _
  · next h => exact not_lt.mp h

theorem pyMax_eq_of_le {x lo : Rat} (h : x ≤ lo) : pyMax x lo = lo := by
  unfold pyMax; split
  · rfl
  · next h' => exact le_antisymm h (not_lt.mp h')

theorem pyMax_le {x lo b : Rat} (h1 : x ≤ b) (h2 : lo ≤ b) : pyMax x lo ≤ b := by
  unfold pyMax; split <;> assumption

theorem pyMin_le_right (y hi : Rat) : pyMin y hi ≤ hi := by
  unfold pyMin; split
  · exact le_refl _
  · next h => exact not_lt.mp h

theorem pyMin_eq_of_ge {y hi : Rat} (h : hi ≤ y) : pyMin y hi = hi := by
  unfold pyMin; split
  · rfl
  · next h' => exact le_antisymm (not_lt.mp h') h

theorem le_pyMin {y hi b : Rat} (h1 : b ≤ y) (h2 : b ≤ hi) : b ≤ pyMin y hi := by
  unfold pyMin; split <;> assumption

theorem clip_le (lo hi x : Rat) : clip lo hi x ≤ hi := pyMin_le_right _ _

theorem le_clip (lo hi x : Rat) (h : lo ≤ hi) : lo ≤ clip lo hi x :=
  le_pyMin (pyMax_ge_right _ _) h

theorem clip_of_mem {lo hi x : Rat} (h1 : lo ≤ x) (h2 : x ≤ hi) : clip lo hi x = x := by
  unfold clip pyMax pyMin
  rw [if_neg (not_lt.mpr h1), if_neg (not_lt.mpr h2)]

/-- `clip` is the mathematical clamp `min (max x lo) hi` -/
theorem clip_eq_min_max (lo hi x : Rat) : clip lo hi x = min (max x lo) hi := by
  unfold clip pyMax pyMin
  by_cases h1 : lo > x
  · rw [if_pos h1, max_eq_right (le_of_lt h1)]
    by_cases h2 : hi < lo
    · rw [if_pos h2, min_eq_right (le_of_lt h2)]
    · rw [if_neg h2, min_eq_left (not_lt.mp h2)]
  · rw [if_neg h1, max_eq_left (not_lt.mp h1)]
    by_cases h2 : hi < x
    · rw [if_pos h2, min_eq_right (le_of_lt h2)]
    · rw [if_neg h2, min_eq_left (not_lt.mp h2)]

/-- the two early exits of `mutate` (`new_value = self.min` / `self.max`) are subsumed by the
    clip: the code computes `cast (clip (v · factor))` for every input, even for `min > max` -/
theorem mutate1_eq (p : Param) (v coin : Rat) :
    mutate1 p v coin = cast p.dtype (clip p.lo p.hi (v * factor p coin)) := by
  unfold mutate1 factor
  by_cases hc : coin < 1 / 2
  · simp only [hc, if_true]
    by_cases h : v * p.shrink > p.lo
    · simp only [h, if_true]
    · simp only [h, if_false]
      have h' : v * p.shrink ≤ p.lo := not_lt.mp h
      congr 1
      unfold clip
      rw [pyMax_eq_of_le h', pyMax_eq_of_le (le_refl _)]
  · simp only [hc, if_false]
    by_cases h : v * p.grow < p.hi
    · simp only [h, if_true]
    · simp only [h, if_false]
      have h' : p.hi ≤ v * p.grow := not_lt.mp h
      congr 1
      unfold clip
      rw [pyMin_eq_of_ge (pyMax_ge_left _ _),
          pyMin_eq_of_ge (le_trans h' (pyMax_ge_left _ _))]

/-! ### `int()` -/

theorem trunc_of_nonneg {q : Rat} (h : 0 ≤ q) : trunc q = q.floor := by
  unfold trunc; rw [if_pos h]

theorem trunc_of_neg {q : Rat} (h : q < 0) : trunc q = -((-q).floor) := by
  unfold trunc; rw [if_neg (not_le.mpr h)]

theorem trunc_intCast (z : Int) : trunc (z : Rat) = z := by
  by_cases h : (0 : Rat) ≤ (z : Rat)
  · rw [trunc_of_nonneg h, Rat.floor_intCast]
  · rw [trunc_of_neg (not_le.mp h)]
    have : -(z : Rat) = ((-z : Int) : Rat) := by push_cast; rfl
    rw [this, Rat.floor_intCast]; omega

theorem trunc_mono {a b : Rat} (h : a ≤ b) : trunc a ≤ trunc b := by
  by_cases ha : 0 ≤ a
  · have hb : 0 ≤ b := le_trans ha h
    rw [trunc_of_nonneg ha, trunc_of_nonneg hb]
    exact Rat.floor_monotone h
  · have ha' : a < 0 := not_le.mp ha
    rw [trunc_of_neg ha']
    have hfa : 0 ≤ (-a).floor := by
      rw [Rat.le_floor_iff]; simp only [Int.cast_zero]; linarith
    by_cases hb : 0 ≤ b
    · rw [trunc_of_nonneg hb]
      have hfb : 0 ≤ b.floor := by
        rw [Rat.le_floor_iff]; simpa using hb
      omega
    · have hb' : b < 0 := not_le.mp hb
      rw [trunc_of_neg hb']
      have : (-b).floor ≤ (-a).floor := Rat.floor_monotone (by linarith)
      omega

/-- toward zero: never above a non-negative number … -/
theorem trunc_le_of_nonneg {q : Rat} (h : 0 ≤ q) : ((trunc q : Int) : Rat) ≤ q := by
  rw [trunc_of_nonneg h]; exact Rat.floor_le q

/-- … and never below a non-positive one -/
theorem le_trunc_of_nonpos {q : Rat} (h : q ≤ 0) : q ≤ ((trunc q : Int) : Rat) := by
  by_cases h0 : 0 ≤ q
  · have : q = 0 := le_antisymm h h0
    subst this
    have := trunc_intCast 0
    simp only [Int.cast_zero] at this
    rw [this]; simp
  · rw [trunc_of_neg (not_le.mp h0)]
    have := Rat.floor_le (-q)
    push_cast; linarith

theorem cast_mono (d : DType) {a b : Rat} (h : a ≤ b) : cast d a ≤ cast d b := by
  cases d
  · exact h
  · show ((trunc a : Int) : Rat) ≤ ((trunc b : Int) : Rat)
    exact_mod_cast trunc_mono h

/-- both number types: the result lies between `dtype(min)` and `dtype(max)` -/
theorem mutate1_range (p : Param) (v coin : Rat) (h : p.lo ≤ p.hi) :
    rangeLo p ≤ mutate1 p v coin ∧ mutate1 p v coin ≤ rangeHi p := by
  rw [mutate1_eq]
  exact ⟨cast_mono _ (le_clip _ _ _ h), cast_mono _ (clip_le _ _ _)⟩

end HpMut
