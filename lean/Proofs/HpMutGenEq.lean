import Proofs.HpMutArith
import Gen.HpMutGen
import Mathlib.Tactic.SplitIfs

/-!
  Proofs/HpMutGenEq.lean — the definitions GENERATED from the source text of `RLParameter.mutate` and
  `HyperparameterConfig.sample` (`agilerl/algorithms/core/registry.py` → `Gen/HpMutGen.lean`, written by
  `harness/py2lean_hpmut.py` on every run of the C06 check) are EQUAL to the hand-written model
  functions `mutate1` / `sample` of `Model/HpMut.lean`, for all inputs.  If the source changes its
  behaviour these proofs stop checking; the C06 theorems are restated over the generated definitions
  in `Props/C06.lean` (`C06_source_translation_*`).

  The proof of `gen_mutate_eq` first tries plain unfolding (the code as it is now is the model, term
  for term); if the text of the method was rearranged it falls back to a case split over every
  comparison and linear arithmetic, so a rewrite that computes the same value (e.g. choosing the
  factor first and dropping the two redundant early exits) is absorbed, one that does not is not.
-/
namespace HpMut
open HpMutGen

/-- the model's number type as the enumeration generated from the annotation of `RLParameter.dtype` -/
def toGen : DType → RLParameter.DType
  | .float => .float
  | .int => .int

/-- the prelude's builtins are the model's (`int()` truncates toward zero; `min` / `max` return the
    first argument unless the second is strictly smaller / larger) -/
theorem gen_pyInt_eq (q : Rat) : pyInt q = trunc q := rfl
theorem gen_pyMin_eq (a b : Rat) : HpMutGen.pyMin a b = HpMut.pyMin a b := rfl
theorem gen_pyMax_eq (a b : Rat) : HpMutGen.pyMax a b = HpMut.pyMax a b := rfl

/-- `self.dtype(x)` is `cast` -/
theorem gen_apply_eq (d : DType) (q : Rat) : (toGen d).apply q = cast d q := by
  cases d <;> rfl

set_option linter.unreachableTactic false in
set_option linter.unusedTactic false in
/-- `RLParameter.mutate` with `self.value = v` and the draw `coin` returns `mutate1 p v coin` and
    leaves it in `self.value` -/
theorem gen_mutate_eq (p : Param) (v coin : Rat) :
    RLParameter.mutate p.lo p.hi p.shrink p.grow (toGen p.dtype) (some v) coin =
      some (mutate1 p v coin, some (mutate1 p v coin)) := by
  simp only [RLParameter.mutate, mutate1, clip, gen_apply_eq, HpMutGen.pyMin, HpMutGen.pyMax,
    HpMut.pyMin, HpMut.pyMax]
  first
    | done
    | (split_ifs <;> first | rfl | grind)

/-- `assert self.value is not None` -/
theorem gen_mutate_none (p : Param) (coin : Rat) :
    RLParameter.mutate p.lo p.hi p.shrink p.grow (toGen p.dtype) none coin = none := by
  simp only [RLParameter.mutate]

/-- every `Param` / number type is reached: the equalities speak about all arguments of the
    generated function -/
theorem gen_mutate_eq' (lo hi sh gr : Rat) (d : DType) (v coin : Rat) :
    RLParameter.mutate lo hi sh gr (toGen d) (some v) coin =
      some (mutate1 ⟨lo, hi, sh, gr, d⟩ v coin, some (mutate1 ⟨lo, hi, sh, gr, d⟩ v coin)) :=
  gen_mutate_eq ⟨lo, hi, sh, gr, d⟩ v coin

/-- `HyperparameterConfig.sample` on a configuration `cfg` (the dict as an association list) with the
    draw `perm` of `torch.randperm(len(cfg))`: the entry at the index the model's `sample` returns;
    a draw of another length is not a result of that call -/
theorem gen_sample_eq {κ ν : Type} (cfg : List (κ × ν)) (perm : List Nat) :
    HyperparameterConfig.sample cfg perm =
      if perm.length = cfg.length then (sample cfg.length perm).bind (fun k => cfg[k]?) else none := by
  unfold HyperparameterConfig.sample sample
  by_cases hl : perm.length = cfg.length
  · simp only [hl, if_true]
    cases perm with
    | nil => rfl
    | cons k r =>
      simp only [List.getElem?_cons_zero, List.getElem?_map]
      by_cases hk : k < cfg.length
      · simp [hk]
      · simp [hk]
  · simp only [hl, if_false]

/-- the invariant of `gen_sample_eq` is satisfiable and the functions are not trivially `none` -/
example : HyperparameterConfig.sample [("lr", 7), ("batch_size", 9)] [1, 0] = some ("batch_size", 9) := by
  decide
example : HyperparameterConfig.sample [("lr", 7), ("batch_size", 9)] [2, 0] = none := by decide
example : HyperparameterConfig.sample [("lr", 7), ("batch_size", 9)] [1] = none := by decide
example : RLParameter.mutate 8 512 (4/5) (6/5) .int (some 64) 0 = some (51, some 51) := by
  decide +kernel

end HpMut
