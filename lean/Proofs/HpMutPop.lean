import Proofs.HpMutArith

/-! Helper lemmas for C06: the population model refines the cache-free specification. -/
namespace HpMut

/-- every agent's configuration address is allocated and every configuration object carries the
    parameters `ps` (true of `create_population`'s shared object and preserved by deep copies) -/
structure WF (ps : List Param) (P : Pop) : Prop where
  addr   : ∀ a ∈ P.agents, a.cfg < P.heap.length
  params : ∀ c ∈ P.heap, c.params = ps

theorem wf_initial (ps : List Param) (n : Nat) (attrs : List Rat) (opts : List Opt) :
    WF ps (Pop.initial ps n attrs opts) := by
  constructor
  · intro a ha
    simp only [Pop.initial, List.mem_replicate] at ha
    rw [ha.2]; simp [Pop.initial]
  · intro c hc
    simp only [Pop.initial, List.mem_singleton] at hc
    rw [hc]

theorem obs_length (P : Pop) : P.obs.length = P.agents.length := by simp [Pop.obs]

theorem obs_getElem? (P : Pop) (i : Nat) : P.obs[i]? = (P.agents[i]?).map Agent.obs := by
  simp [Pop.obs]

theorem updOpts_true (k : Nat) (nv : Rat) (os : List Opt) : updOpts true k nv os = updAll k nv os := by
  simp [updOpts]

/-- one mutation step: observably the specification's step; invariant kept -/
theorem mutate_refines (ps : List Param) (P : Pop) (h : WF ps P) (i k : Nat) (coin : Rat) :
    (P.mutate .own true i k coin).obs = Spec.mutate ps P.obs i k coin ∧
    WF ps (P.mutate .own true i k coin) := by
  unfold Pop.mutate Spec.mutate
  rw [obs_getElem?]
  cases hi : P.agents[i]? with
  | none => exact ⟨rfl, h⟩
  | some a =>
    have ha : a ∈ P.agents := List.mem_of_getElem? hi
    have hlt := h.addr a ha
    have hc : P.heap[a.cfg]? = some (P.heap[a.cfg]) := List.getElem?_eq_getElem hlt
    have hps : (P.heap[a.cfg]).params = ps := h.params _ (List.getElem_mem hlt)
    simp only [Option.map_some, hc, hps, Agent.obs]
    cases hp : ps[k]? with
    | none => exact ⟨rfl, h⟩
    | some p =>
      cases hv : a.attrs[k]? with
      | none => exact ⟨rfl, h⟩
      | some own =>
        simp only [updOpts_true]
        refine ⟨?_, ?_, ?_⟩
        · simp [Pop.obs, List.map_set, Agent.obs]
        · intro b hb
          simp only [List.length_set]
          rcases List.mem_or_eq_of_mem_set hb with hb | hb
          · exact h.addr b hb
          · rw [hb]; exact hlt
        · intro c hc'
          rcases List.mem_or_eq_of_mem_set hc' with hc' | hc'
          · exact h.params c hc'
          · rw [hc']

theorem clone_refines (ps : List Param) (P : Pop) (h : WF ps P) (i : Nat) :
    (P.clone i).obs = Spec.clone P.obs i ∧ WF ps (P.clone i) ∧
    P.agents.length ≤ (P.clone i).agents.length := by
  unfold Pop.clone Spec.clone
  rw [obs_getElem?]
  cases hi : P.agents[i]? with
  | none => exact ⟨rfl, h, le_refl _⟩
  | some a =>
    have ha : a ∈ P.agents := List.mem_of_getElem? hi
    have hlt := h.addr a ha
    have hc : P.heap[a.cfg]? = some (P.heap[a.cfg]) := List.getElem?_eq_getElem hlt
    simp only [Option.map_some, hc]
    refine ⟨?_, ⟨?_, ?_⟩, ?_⟩
    · simp [Pop.obs, Agent.obs]
    · intro b hb
      simp only [List.length_append, List.length_singleton]
      rcases List.mem_append.mp hb with hb | hb
      · have := h.addr b hb; omega
      · simp only [List.mem_singleton] at hb
        rw [hb]; simp
    · intro c hc'
      rcases List.mem_append.mp hc' with hc' | hc'
      · exact h.params c hc'
      · simp only [List.mem_singleton] at hc'
        rw [hc']; exact h.params _ (List.getElem_mem hlt)
    · simp

theorem clones_refine (ps : List Param) (idxs : List Nat) :
    ∀ (P : Pop), WF ps P →
      (idxs.foldl Pop.clone P).obs = idxs.foldl Spec.clone P.obs ∧ WF ps (idxs.foldl Pop.clone P) ∧
      P.agents.length ≤ (idxs.foldl Pop.clone P).agents.length := by
  induction idxs with
  | nil => intro P h; exact ⟨rfl, h, le_refl _⟩
  | cons i r ih =>
    intro P h
    obtain ⟨e, w, l⟩ := clone_refines ps P h i
    obtain ⟨e', w', l'⟩ := ih (P.clone i) w
    simp only [List.foldl_cons]
    exact ⟨by rw [e', e], w', le_trans l l'⟩

theorem select_refines (ps : List Param) (P : Pop) (h : WF ps P) (idxs : List Nat) :
    (P.select idxs).obs = Spec.select P.obs idxs ∧ WF ps (P.select idxs) := by
  obtain ⟨e, w, _⟩ := clones_refine ps idxs P h
  unfold Pop.select Spec.select
  refine ⟨?_, ⟨?_, ?_⟩⟩
  · rw [← e, obs_length]
    simp [Pop.obs, List.map_drop]
  · intro a ha
    exact w.addr a (List.mem_of_mem_drop ha)
  · exact w.params

/-- a checkpoint round trip is unobservable (attributes and optimizer learning rates come back by
    value) and keeps the invariant (the unpickled registry is a fresh object with the same parameters) -/
theorem reload_refines (ps : List Param) (P : Pop) (h : WF ps P) (i : Nat) :
    (P.reload i).obs = P.obs ∧ WF ps (P.reload i) := by
  unfold Pop.reload
  cases hi : P.agents[i]? with
  | none => exact ⟨rfl, h⟩
  | some a =>
    have ha : a ∈ P.agents := List.mem_of_getElem? hi
    have hlt := h.addr a ha
    have hc : P.heap[a.cfg]? = some (P.heap[a.cfg]) := List.getElem?_eq_getElem hlt
    simp only [hc]
    refine ⟨?_, ⟨?_, ?_⟩⟩
    · apply List.ext_getElem?
      intro j
      simp only [Pop.obs, List.getElem?_map, List.getElem?_set]
      by_cases hj : i = j
      · subst hj
        have hlen : i < P.agents.length := by
          rcases List.getElem?_eq_some_iff.mp hi with ⟨h', _⟩; exact h'
        have hget : P.agents[i] = a := by
          rcases List.getElem?_eq_some_iff.mp hi with ⟨_, h'⟩; exact h'
        simp [hlen, Agent.obs, Ckpt.load, Agent.save, hget]
      · simp [hj]
    · intro b hb
      simp only [List.length_append, List.length_singleton]
      rcases List.mem_or_eq_of_mem_set hb with hb | hb
      · have := h.addr b hb; omega
      · rw [hb]; simp [Ckpt.load]
    · intro c hc'
      rcases List.mem_append.mp hc' with hc' | hc'
      · exact h.params c hc'
      · simp only [List.mem_singleton, Agent.save] at hc'
        rw [hc']; exact h.params _ (List.getElem_mem hlt)

theorem apply_refines (ps : List Param) (P : Pop) (h : WF ps P) (op : Op) :
    (P.apply .own true op).obs = Spec.apply ps P.obs op ∧ WF ps (P.apply .own true op) := by
  cases op with
  | mutate i k coin => exact mutate_refines ps P h i k coin
  | clone i => exact ⟨(clone_refines ps P h i).1, (clone_refines ps P h i).2.1⟩
  | select idxs => exact select_refines ps P h idxs
  | reload i => exact reload_refines ps P h i

theorem run_refines (ps : List Param) (ops : List Op) :
    ∀ (P : Pop), WF ps P →
      (P.run .own true ops).obs = Spec.run ps P.obs ops ∧ WF ps (P.run .own true ops) := by
  induction ops with
  | nil => intro P h; exact ⟨rfl, h⟩
  | cons op r ih =>
    intro P h
    obtain ⟨e, w⟩ := apply_refines ps P h op
    obtain ⟨e', w'⟩ := ih _ w
    simp only [Pop.run, Spec.run, List.foldl_cons] at e' ⊢
    exact ⟨by rw [e', e], w'⟩

/-! ### frame: a mutation touches one attribute of one agent (both semantics, both optimizer modes) -/

theorem mutate_agents_length (sem : Sem) (ao : Bool) (P : Pop) (i k : Nat) (coin : Rat) :
    (P.mutate sem ao i k coin).agents.length = P.agents.length := by
  unfold Pop.mutate
  split
  · rfl
  · split
    · rfl
    · split
      · simp
      · rfl

theorem mutate_other_agents (sem : Sem) (ao : Bool) (P : Pop) (i k : Nat) (coin : Rat) (j : Nat)
    (hj : j ≠ i) : (P.mutate sem ao i k coin).agents[j]? = P.agents[j]? := by
  unfold Pop.mutate
  split
  · rfl
  · split
    · rfl
    · split
      · simp only; rw [List.getElem?_set_ne (Ne.symm hj)]
      · rfl

/-- the mutated agent: the new record, spelled out (any semantics) -/
theorem mutate_self (sem : Sem) (ao : Bool) (P : Pop) (i k : Nat) (coin : Rat) (a : Agent) (c : Config)
    (p : Param) (own : Rat) (hi : P.agents[i]? = some a) (hc : P.heap[a.cfg]? = some c)
    (hp : c.params[k]? = some p) (hv : a.attrs[k]? = some own) :
    (P.mutate sem ao i k coin).agents[i]? =
      some { a with
        attrs := a.attrs.set k (mutate1 p (match sem with
                                            | .own => own
                                            | .cached => (c.cache.getD k none).getD own) coin),
        opts := updOpts ao k (mutate1 p (match sem with
                                            | .own => own
                                            | .cached => (c.cache.getD k none).getD own) coin) a.opts } := by
  have hlen : i < P.agents.length := by
    rcases List.getElem?_eq_some_iff.mp hi with ⟨h, _⟩; exact h
  unfold Pop.mutate
  simp only [hi, hc, hp, hv]
  rw [List.getElem?_set_self hlen]
  rfl

/-! ### optimizers -/

theorem updAll_length (k : Nat) (nv : Rat) (os : List Opt) : (updAll k nv os).length = os.length := by
  simp [updAll]

theorem updAll_getElem? (k : Nat) (nv : Rat) (os : List Opt) (j : Nat) :
    (updAll k nv os)[j]? = (os[j]?).map (fun o => if o.lr = k then o.setLr nv else o) := by
  simp [updAll]

theorem setLr_groups (o : Opt) (nv : Rat) :
    (o.setLr nv).lr = o.lr ∧ (o.setLr nv).groups.length = o.groups.length ∧
    ∀ g ∈ (o.setLr nv).groups, g = nv := by
  refine ⟨rfl, by simp [Opt.setLr], ?_⟩
  intro g hg
  simp only [Opt.setLr, List.mem_map] at hg
  obtain ⟨_, _, e⟩ := hg
  exact e.symm

/-! ### range invariant of the specification -/

/-- every configured hyperparameter of the agent lies in `[dtype(min), dtype(max)]` -/
def AttrsInRange (ps : List Param) (attrs : List Rat) : Prop :=
  ∀ (k : Nat) (p : Param) (x : Rat), ps[k]? = some p → attrs[k]? = some x → rangeLo p ≤ x ∧ x ≤ rangeHi p

theorem spec_mutate_range (ps : List Param) (hps : ∀ p ∈ ps, p.lo ≤ p.hi) (A : List SAgent)
    (h : ∀ a ∈ A, AttrsInRange ps a.attrs) (i k : Nat) (coin : Rat) :
    ∀ a ∈ Spec.mutate ps A i k coin, AttrsInRange ps a.attrs := by
  intro b hb
  unfold Spec.mutate at hb
  cases hi : A[i]? with
  | none => rw [hi] at hb; exact h b hb
  | some a =>
    rw [hi] at hb
    simp only at hb
    cases hp : ps[k]? with
    | none => rw [hp] at hb; exact h b hb
    | some p =>
      cases hv : a.attrs[k]? with
      | none => rw [hp, hv] at hb; exact h b hb
      | some own =>
        rw [hp, hv] at hb
        simp only at hb
        rcases List.mem_or_eq_of_mem_set hb with hb | hb
        · exact h b hb
        · rw [hb]
          intro k' p' x hp' hx
          by_cases hk : k' = k
          · subst hk
            have hklt : k' < a.attrs.length := by
              rcases List.getElem?_eq_some_iff.mp hv with ⟨h', _⟩; exact h'
            simp only [List.getElem?_set_self hklt, Option.some.injEq] at hx
            rw [hp] at hp'
            cases hp'
            rw [← hx]
            exact mutate1_range p own coin (hps p (List.mem_of_getElem? hp))
          · simp only [List.getElem?_set_ne (Ne.symm hk)] at hx
            exact h a (List.mem_of_getElem? hi) k' p' x hp' hx

theorem spec_clone_range (ps : List Param) (A : List SAgent)
    (h : ∀ a ∈ A, AttrsInRange ps a.attrs) (i : Nat) :
    ∀ a ∈ Spec.clone A i, AttrsInRange ps a.attrs := by
  unfold Spec.clone
  cases hi : A[i]? with
  | none => exact h
  | some a =>
    intro b hb
    rcases List.mem_append.mp hb with hb | hb
    · exact h b hb
    · simp only [List.mem_singleton] at hb
      rw [hb]; exact h a (List.mem_of_getElem? hi)

theorem spec_clones_range (ps : List Param) (idxs : List Nat) :
    ∀ (A : List SAgent), (∀ a ∈ A, AttrsInRange ps a.attrs) →
      ∀ a ∈ idxs.foldl Spec.clone A, AttrsInRange ps a.attrs := by
  induction idxs with
  | nil => intro A h; exact h
  | cons i r ih => intro A h; exact ih _ (spec_clone_range ps A h i)

theorem spec_run_range (ps : List Param) (hps : ∀ p ∈ ps, p.lo ≤ p.hi) (ops : List Op) :
    ∀ (A : List SAgent), (∀ a ∈ A, AttrsInRange ps a.attrs) →
      ∀ a ∈ Spec.run ps A ops, AttrsInRange ps a.attrs := by
  induction ops with
  | nil => intro A h; exact h
  | cons op r ih =>
    intro A h
    simp only [Spec.run, List.foldl_cons]
    apply ih
    cases op with
    | mutate i k coin => exact spec_mutate_range ps hps A h i k coin
    | clone i => exact spec_clone_range ps A h i
    | select idxs =>
      intro a ha
      exact spec_clones_range ps idxs A h a (List.mem_of_mem_drop ha)
    | reload i => exact h

/-! ### learning-rate coherence: every group of every optimizer carries the agent's attribute -/

/-- every parameter group of every optimizer of the agent steps with the agent's current value of
    the optimizer's learning-rate attribute -/
def Coherent (a : SAgent) : Prop :=
  ∀ o ∈ a.opts, ∀ g ∈ o.groups, a.attrs[o.lr]? = some g

theorem spec_mutate_coherent (ps : List Param) (A : List SAgent) (h : ∀ a ∈ A, Coherent a)
    (i k : Nat) (coin : Rat) : ∀ a ∈ Spec.mutate ps A i k coin, Coherent a := by
  intro b hb
  unfold Spec.mutate at hb
  cases hi : A[i]? with
  | none => rw [hi] at hb; exact h b hb
  | some a =>
    rw [hi] at hb
    simp only at hb
    cases hp : ps[k]? with
    | none => rw [hp] at hb; exact h b hb
    | some p =>
      cases hv : a.attrs[k]? with
      | none => rw [hp, hv] at hb; exact h b hb
      | some own =>
        rw [hp, hv] at hb
        simp only at hb
        rcases List.mem_or_eq_of_mem_set hb with hb | hb
        · exact h b hb
        · rw [hb]
          have hklt : k < a.attrs.length := by
            rcases List.getElem?_eq_some_iff.mp hv with ⟨h', _⟩; exact h'
          have hcoh := h a (List.mem_of_getElem? hi)
          intro o' ho' g hg
          simp only [updAll, List.mem_map] at ho'
          obtain ⟨o, ho, rfl⟩ := ho'
          by_cases hk : o.lr = k
          · rw [if_pos hk] at hg ⊢
            obtain ⟨e1, _, e3⟩ := setLr_groups o (mutate1 p own coin)
            rw [e1, hk, List.getElem?_set_self hklt, e3 g hg]
          · rw [if_neg hk] at hg ⊢
            simp only
            rw [List.getElem?_set_ne (Ne.symm hk)]
            exact hcoh o ho g hg

theorem spec_clones_coherent (idxs : List Nat) :
    ∀ (A : List SAgent), (∀ a ∈ A, Coherent a) → ∀ a ∈ idxs.foldl Spec.clone A, Coherent a := by
  induction idxs with
  | nil => intro A h; exact h
  | cons i r ih =>
    intro A h
    apply ih
    intro b hb
    unfold Spec.clone at hb
    cases hi : A[i]? with
    | none => rw [hi] at hb; exact h b hb
    | some a =>
      rw [hi] at hb
      rcases List.mem_append.mp hb with hb | hb
      · exact h b hb
      · simp only [List.mem_singleton] at hb
        rw [hb]; exact h a (List.mem_of_getElem? hi)

theorem spec_run_coherent (ps : List Param) (ops : List Op) :
    ∀ (A : List SAgent), (∀ a ∈ A, Coherent a) → ∀ a ∈ Spec.run ps A ops, Coherent a := by
  induction ops with
  | nil => intro A h; exact h
  | cons op r ih =>
    intro A h
    simp only [Spec.run, List.foldl_cons]
    apply ih
    cases op with
    | mutate i k coin => exact spec_mutate_coherent ps A h i k coin
    | clone i => exact spec_clones_coherent [i] A h
    | select idxs =>
      intro a ha
      exact spec_clones_coherent idxs A h a (List.mem_of_mem_drop ha)
    | reload i => exact h

end HpMut
