import Proofs.ArchGenEq
import Gen.KernelGen
import Mathlib.Algebra.Order.Field.Rat
import Mathlib.Data.Rat.Floor
import Mathlib.Tactic.Linarith

/-!
  Proofs/KernelGenEq.lean — `calc_max_kernel_sizes` (agilerl/utils/evolvable_networks.py) and
  `MutableKernelSizes._later_layers_fit` (agilerl/modules/cnn.py), as GENERATED from their source text
  (`Gen/KernelGen.lean`, written by `harness/py2lean_kernel.py` on every run of the C03 check), are EQUAL to the
  model's feature-map arithmetic (`Model/Arch.lean`: `CNN.maxKernels` = `mapsAux` + `clampK`, `CNN.laterFit` =
  `fitsAux`) for every architecture whose three per-layer lists have equal lengths and whose strides are ≥ 1
  (a zero stride raises in the code).  With them the two function parameters of the translated CNN methods
  (`Proofs/ArchGenEq.lean`: `kcalc`, `kfit`) are discharged: `gen_cnn_step_eq_kernel`.
-/
namespace Arch
open ArchGen

set_option linter.unusedSimpArgs false

/-! ## arithmetic: `np.floor(a / s)`, `int(m * 0.25)`, `//` on integers -/

theorem floor_div_int (a s : Int) (hs : 0 < s) : Rat.floor ((a : Rat) / (s : Rat)) = a / s := by
  have hsq : (0 : Rat) < (s : Rat) := by exact_mod_cast hs
  apply le_antisymm
  · have : Rat.floor ((a : Rat) / (s : Rat)) < a / s + 1 := by
      rw [Rat.floor_lt_iff, div_lt_iff₀ hsq]
      have := Int.lt_ediv_add_one_mul_self a hs
      exact_mod_cast this
    omega
  · rw [Rat.le_floor_iff, le_div_iff₀ hsq]
    have := Int.ediv_mul_le a (ne_of_gt hs)
    exact_mod_cast this

theorem truncI_quarter (m : Int) :
    (0 ≤ m → KernelGen.truncI ((m : Rat) * ((1 : Rat) / 4)) = m / 4) ∧
    (m < 0 → KernelGen.truncI ((m : Rat) * ((1 : Rat) / 4)) ≤ 0) := by
  have e : (m : Rat) * ((1 : Rat) / 4) = (m : Rat) / ((4 : Int) : Rat) := by push_cast; ring
  constructor
  · intro h
    have h0 : (0 : Rat) ≤ (m : Rat) * ((1 : Rat) / 4) := by
      have : (0 : Rat) ≤ (m : Rat) := by exact_mod_cast h
      positivity
    simp only [KernelGen.truncI, h0, if_true]
    rw [e, floor_div_int m 4 (by omega)]
  · intro h
    have h0 : ¬ (0 : Rat) ≤ (m : Rat) * ((1 : Rat) / 4) := by
      have : (m : Rat) < 0 := by exact_mod_cast h
      intro hc
      linarith
    simp only [KernelGen.truncI, h0, if_false]
    rw [Rat.ceil_eq_neg_floor_neg]
    have : 0 ≤ (-((m : Rat) * ((1 : Rat) / 4))).floor := by
      rw [Rat.le_floor_iff]
      have : (m : Rat) < 0 := by exact_mod_cast h
      push_cast; linarith
    omega

/-- `int(min(h, w) * 0.25)` clamped into `[1, 9]`, as the code writes it, is `clampK` -/
theorem clamp_cascade (m : Int) :
    (if KernelGen.truncI ((m : Rat) * ((1 : Rat) / 4)) ≤ 0 then (1 : Int)
     else if KernelGen.truncI ((m : Rat) * ((1 : Rat) / 4)) > 9 then 9
     else KernelGen.truncI ((m : Rat) * ((1 : Rat) / 4))) = (clampK m : Int) := by
  obtain ⟨h1, h2⟩ := truncI_quarter m
  unfold clampK
  by_cases hm : 0 ≤ m
  · rw [h1 hm]
    split_ifs <;> omega
  · have := h2 (by omega)
    rw [if_pos this, if_pos (by omega)]; rfl

theorem kpyMin_eq (a b : Int) : KernelGen.pyMin a b = min a b := by
  unfold KernelGen.pyMin; split <;> omega

theorem kpyGet_ofNats (l : List Nat) (i : Nat) (h : i < l.length) :
    KernelGen.pyGet (ofNats l) (i : Int) = some ((l[i] : Nat) : Int) := by
  simp [KernelGen.pyGet, ofNats, h]

theorem kpySlice3 (a b c : Int) : KernelGen.pySlice [a, b, c] (some (-2)) none = [b, c] := by
  simp [KernelGen.pySlice, KernelGen.pyBound]

/-! ## `calc_max_kernel_sizes` -/

theorem gen_calc_body (chs kss sss inp : List Int) (i : Int) (acc : List Int) (h w : Int) (k s : Nat) (hs : 1 ≤ s)
    (hk : KernelGen.pyGet kss i = some (k : Int)) (hst : KernelGen.pyGet sss i = some (s : Int)) :
    KernelGen.calc_max_kernel_sizes.body chs kss sss inp i acc h w =
      some (acc ++ [(clampK (min (convOut h k s) (convOut w k s)) : Int)], convOut h k s, convOut w k s) := by
  have hq : ¬ (((s : Int) : Rat) = 0) := by
    have : (0 : Rat) < ((s : Int) : Rat) := by exact_mod_cast hs
    exact ne_of_gt this
  have hs' : (0 : Int) < (s : Int) := by omega
  have e1 : ∀ x : Int, (1 : Int) + Rat.floor ((((x + 2 * 0 - (k : Int) : Int)) : Rat) / ((s : Int) : Rat)) = convOut x k s := by
    intro x
    have e0 : x + 2 * 0 - (k : Int) = x - (k : Int) := by omega
    rw [floor_div_int _ _ hs', e0]; unfold convOut; omega
  simp only [KernelGen.calc_max_kernel_sizes.body, hk, hst, hq, if_false, e1, kpyMin_eq]
  have := clamp_cascade (min (convOut h k s) (convOut w k s))
  split_ifs at this ⊢ <;> simp_all

theorem gen_calc_loop (chs inp : List Int) (ks ss : List Nat) (hl : ss.length = ks.length) (hs : ∀ s ∈ ss, 1 ≤ s) :
    ∀ (n i : Nat) (acc : List Int) (h w : Int), i + n = ks.length →
      ∃ h' w', KernelGen.calc_max_kernel_sizes.loop chs (ofNats ks) (ofNats ss) inp n (i : Int) acc h w =
        some (acc ++ ofNats ((mapsAux h w (ks.drop i) (ss.drop i)).map (fun p => clampK (min p.1 p.2))), h', w') := by
  intro n
  induction n with
  | zero =>
    intro i acc h w hi
    have : ks.drop i = [] := List.drop_eq_nil_of_le (by omega)
    exact ⟨h, w, by simp [KernelGen.calc_max_kernel_sizes.loop, this, mapsAux, ofNats]⟩
  | succ n ih =>
    intro i acc h w hi
    have hik : i < ks.length := by omega
    have his : i < ss.length := by omega
    have hs1 : 1 ≤ ss[i] := hs _ (List.getElem_mem his)
    obtain ⟨h', w', e⟩ := ih (i + 1) (acc ++ [(clampK (min (convOut h ks[i] ss[i]) (convOut w ks[i] ss[i])) : Int)])
      (convOut h ks[i] ss[i]) (convOut w ks[i] ss[i]) (by omega)
    refine ⟨h', w', ?_⟩
    have ec : ((i : Int) + 1) = ((i + 1 : Nat) : Int) := by omega
    rw [KernelGen.calc_max_kernel_sizes.loop,
      gen_calc_body chs _ _ inp (i : Int) acc h w ks[i] ss[i] hs1 (kpyGet_ofNats ks i hik) (kpyGet_ofNats ss i his)]
    simp only [ec, e]
    rw [List.drop_eq_getElem_cons hik, List.drop_eq_getElem_cons his]
    simp [mapsAux, ofNats]

/-- the translated `calc_max_kernel_sizes` on the lists the CNN hands over = `CNN.maxKernels` -/
theorem gen_calc_max_kernel_sizes_eq (c : CNN) (hw : c.WF) (hs : ∀ s ∈ c.strides, 1 ≤ s) :
    KernelGen.calc_max_kernel_sizes (ofNats c.channels) (ofNats c.kernels) (ofNats c.strides)
      [(c.inC : Int), (c.inH : Int), (c.inW : Int)] = some (ofNats c.maxKernels) := by
  obtain ⟨h', w', e⟩ := gen_calc_loop (ofNats c.channels) [(c.inC : Int), (c.inH : Int), (c.inW : Int)] c.kernels c.strides
    (by rw [hw.2.2, hw.2.1]) hs c.channels.length 0 [] c.inH c.inW (by rw [hw.2.1]; omega)
  simp only [KernelGen.calc_max_kernel_sizes, kpySlice3, ofNats_length]
  have e0 : ((0 : Nat) : Int) = 0 := rfl
  rw [e0] at e
  rw [e]
  simp [CNN.maxKernels, CNN.maps]

/-! ## `MutableKernelSizes._later_layers_fit` -/

theorem gen_fit_body (kss sss inp : List Int) (i j knew : Int) (h w : Int) (k s : Nat) (k' : Int) (hs : 1 ≤ s)
    (hk : KernelGen.pyGet kss i = some (k : Int)) (hst : KernelGen.pyGet sss i = some (s : Int))
    (hk' : k' = if i = j then knew else (k : Int)) :
    KernelGen.later_layers_fit.body kss j knew sss inp i h w =
      if k' > h ∨ k' > w then some (some false, h, w)
      else some (none, (h - k') / (s : Int) + 1, (w - k') / (s : Int) + 1) := by
  have hq : ¬ ((s : Int) = 0) := by omega
  have hf : ∀ x : Int, Int.fdiv x (s : Int) = x / (s : Int) := fun x => Int.fdiv_eq_ediv_of_nonneg x (by omega)
  subst hk'
  simp only [KernelGen.later_layers_fit.body, hk, hst, hq, if_false, hf]
  split_ifs <;> simp_all

theorem gen_fit_loop (inp : List Int) (ks ss : List Nat) (j knew : Nat) (hl : ss.length = ks.length)
    (hs : ∀ s ∈ ss, 1 ≤ s) :
    ∀ (n i : Nat) (h w : Int), i + n = ks.length →
      ∃ h' w', KernelGen.later_layers_fit.loop (ofNats ks) (j : Int) (knew : Int) (ofNats ss) inp n (i : Int) h w =
        some (if fitsAux h w ((ks.set j knew).drop i) (ss.drop i) = true then none else some false, h', w') := by
  intro n
  induction n with
  | zero =>
    intro i h w hi
    have : (ks.set j knew).drop i = [] := List.drop_eq_nil_of_le (by simp; omega)
    exact ⟨h, w, by simp [KernelGen.later_layers_fit.loop, this, fitsAux]⟩
  | succ n ih =>
    intro i h w hi
    have hik : i < ks.length := by omega
    have hik' : i < (ks.set j knew).length := by simpa using hik
    have his : i < ss.length := by omega
    have hs1 : 1 ≤ ss[i] := hs _ (List.getElem_mem his)
    have ec : ((i : Int) + 1) = ((i + 1 : Nat) : Int) := by omega
    have hkk : (((ks.set j knew)[i] : Nat) : Int) = if (i : Int) = (j : Int) then (knew : Int) else (ks[i] : Int) := by
      rw [List.getElem_set]
      by_cases hji : j = i
      · subst hji; simp
      · have : ¬ ((i : Int) = (j : Int)) := by omega
        simp [hji, this]
    rw [KernelGen.later_layers_fit.loop,
      gen_fit_body _ _ inp (i : Int) (j : Int) (knew : Int) h w ks[i] ss[i] _ hs1 (kpyGet_ofNats ks i hik)
        (kpyGet_ofNats ss i his) hkk]
    rw [List.drop_eq_getElem_cons hik', List.drop_eq_getElem_cons his]
    simp only [fitsAux]
    by_cases hc : (((ks.set j knew)[i] : Nat) : Int) > h ∨ (((ks.set j knew)[i] : Nat) : Int) > w
    · exact ⟨h, w, by simp [hc]⟩
    · obtain ⟨h', w', e⟩ := ih (i + 1) (convOut h (ks.set j knew)[i] ss[i]) (convOut w (ks.set j knew)[i] ss[i]) (by omega)
      refine ⟨h', w', ?_⟩
      simp only [hc, if_false, ec]
      simpa [convOut] using e

/-- the translated `_later_layers_fit` on the lists the CNN hands over = `CNN.laterFit` -/
theorem gen_later_layers_fit_eq (c : CNN) (hw : c.WF) (hs : ∀ s ∈ c.strides, 1 ≤ s) (j knew : Nat) :
    KernelGen.later_layers_fit (ofNats c.kernels) (j : Int) (knew : Int) (ofNats c.strides)
      [(c.inC : Int), (c.inH : Int), (c.inW : Int)] = some (c.laterFit j knew) := by
  obtain ⟨h', w', e⟩ := gen_fit_loop [(c.inC : Int), (c.inH : Int), (c.inW : Int)] c.kernels c.strides j knew
    (by rw [hw.2.2, hw.2.1]) hs c.kernels.length 0 c.inH c.inW (by omega)
  simp only [KernelGen.later_layers_fit, kpySlice3, ofNats_length]
  have e0 : ((0 : Nat) : Int) = 0 := rfl
  rw [e0] at e
  rw [e]
  simp only [CNN.laterFit, List.drop_zero]
  cases fitsAux (↑c.inH) (↑c.inW) (c.kernels.set j knew) c.strides <;> rfl

/-! ## the function parameters of the translated CNN methods, discharged -/

/-- `calc_max_kernel_sizes` as the translated CNN methods call it (an exception = no list) -/
def genCalc (ch ks ss inp : List Int) : List Int := (KernelGen.calc_max_kernel_sizes ch ks ss inp).getD []
/-- `self._later_layers_fit(…)` as the translated `change_kernel_size` calls it: `self.int_sizes` = `sizes` -/
def genFit (s : MutableKernelSizes.State) (j knew : Int) (ss inp : List Int) : Option Bool :=
  KernelGen.later_layers_fit s.sizes j knew ss inp

theorem genCalc_spec (c : CNN) (hw : c.WF) (hs : ∀ s ∈ c.strides, 1 ≤ s) :
    genCalc (ofNats c.channels) (ofNats c.kernels) (ofNats c.strides) [(c.inC : Int), (c.inH : Int), (c.inW : Int)]
      = ofNats c.maxKernels := by
  simp only [genCalc, gen_calc_max_kernel_sizes_eq c hw hs, Option.getD_some]

theorem genFit_spec (c : CNN) (hw : c.WF) (hs : ∀ s ∈ c.strides, 1 ≤ s) (j knew : Nat) :
    genFit { sizes := ofNats c.kernels } (j : Int) (knew : Int) (ofNats c.strides)
      [(c.inC : Int), (c.inH : Int), (c.inW : Int)] = some (c.laterFit j knew) :=
  gen_later_layers_fit_eq c hw hs j knew

/-- EvolvableCNN with NO function parameter left: every translated method, calling the translated
    `calc_max_kernel_sizes` and `_later_layers_fit`, = `CNN.step` of the model (strides ≥ 1) -/
theorem gen_cnn_step_eq_kernel (p : Policy) (hp : p.clampKernel = true) (hp2 : p.fitLater = true) (c : CNN) (hw : c.WF)
    (hne : c.channels ≠ []) (hs : ∀ s ∈ c.strides, 1 ≤ s) (out : List Int) (mm : List String)
    (hout : pySlice out (some (-2)) none = c.lastMap) (me : CnnMethod) (a : Args) (x : Flags) :
    cnnCall genCalc genFit me (c.toGen out mm) a x =
      if (Basic.cnn c).drawsOK p (decide ("add_layer" ∈ mm)) me.str a (me.flags x) then
        some ((c.step p (decide ("add_layer" ∈ mm)) me a).1.toGen out mm, cnnRet p (decide ("add_layer" ∈ mm)) c me a,
              (c.step p (decide ("add_layer" ∈ mm)) me a).2.name)
      else none :=
  gen_cnn_step_eq genCalc genFit p hp hp2 c hw hne out mm hout (genCalc_spec c hw hs) (genFit_spec c hw hs) me a x

end Arch
