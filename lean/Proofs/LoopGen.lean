import Proofs.LoopSel

/-! Helper lemmas for C20: where the members of the population after one generation come from. -/
namespace Loop

theorem applyHp_mem : ∀ (pop : List Agent) (hp : List (Nat × Nat)) (x : Agent), x ∈ applyHp pop hp →
    ∃ a ∈ pop, ∃ l b, x = { a with ls := l, bs := b } ∧ ((l = a.ls ∧ b = a.bs) ∨ (l, b) ∈ hp)
  | [], _, x, h => by simp [applyHp] at h
  | a :: as, [], x, h => by
    simp only [applyHp] at h
    exact ⟨x, h, x.ls, x.bs, rfl, Or.inl ⟨rfl, rfl⟩⟩
  | a :: as, (l, b) :: hs, x, h => by
    simp only [applyHp] at h
    rcases List.mem_cons.mp h with rfl | h
    · exact ⟨a, by simp, l, b, rfl, Or.inr (by simp)⟩
    · obtain ⟨a', ha', l', b', rfl, hor⟩ := applyHp_mem as hs x h
      refine ⟨a', by simp [ha'], l', b', rfl, ?_⟩
      rcases hor with h1 | h2
      · exact Or.inl h1
      · exact Or.inr (by simp [h2])

theorem applyHp_length : ∀ (pop : List Agent) (hp : List (Nat × Nat)), (applyHp pop hp).length = pop.length
  | [], _ => by simp [applyHp]
  | _ :: _, [] => by simp [applyHp]
  | a :: as, (l, b) :: hs => by simp [applyHp, applyHp_length as hs]

theorem applyHp_index : ∀ (pop : List Agent) (hp : List (Nat × Nat)),
    (applyHp pop hp).map (·.index) = pop.map (·.index)
  | [], _ => by simp [applyHp]
  | _ :: _, [] => by simp [applyHp]
  | a :: as, (l, b) :: hs => by simp [applyHp, applyHp_index as hs]

/-- the population after training and evaluation -/
theorem genTrain_pop (c : Cfg) (s : St) (hp : List (Nat × Nat)) :
    (genTrain c s hp).pop = ((applyHp s.pop hp).map (bump c)).map evalAgent := by
  have h := trainPop_fst c (applyHp s.pop hp) s.mem
  unfold genTrain
  rcases ht : trainPop c (applyHp s.pop hp) s.mem with ⟨p, m, l⟩
  rw [ht] at h
  simp only at h ⊢
  rw [h]

theorem genTrain_gens (c : Cfg) (s : St) (hp : List (Nat × Nat)) :
    (genTrain c s hp).gens = s.gens + 1 := by
  unfold genTrain
  rcases trainPop c (applyHp s.pop hp) s.mem with ⟨p, m, l⟩
  rfl

theorem genTrain_halted (c : Cfg) (s : St) (hp : List (Nat × Nat)) :
    (genTrain c s hp).halted = s.halted := by
  unfold genTrain
  rcases trainPop c (applyHp s.pop hp) s.mem with ⟨p, m, l⟩
  rfl

theorem genTrain_learns (c : Cfg) (s : St) (hp : List (Nat × Nat)) :
    (genTrain c s hp).learns = (trainPop c (applyHp s.pop hp) s.mem).2.2 :: s.learns := by
  unfold genTrain
  rcases trainPop c (applyHp s.pop hp) s.mem with ⟨p, m, l⟩
  rfl

/-- what one generation's training and evaluation do to a member -/
structure Trained (c : Cfg) (hp : List (Nat × Nat)) (a x : Agent) : Prop where
  hp : (x.ls = a.ls ∧ x.bs = a.bs) ∨ (x.ls, x.bs) ∈ hp
  cur : x.cur = a.cur + stride c * agentIters c x
  env : x.env = a.env + stride c * agentIters c x
  its : x.its = a.its + agentIters c x
  fit : x.fit = a.fit + 1
  past : x.past = x.cur :: a.past

theorem agentIters_congr (c : Cfg) (a b : Agent) (h : a.ls = b.ls) : agentIters c a = agentIters c b := by
  unfold agentIters; rw [h]

theorem genTrain_mem (c : Cfg) (s : St) (hp : List (Nat × Nat)) (x : Agent)
    (h : x ∈ (genTrain c s hp).pop) : ∃ a ∈ s.pop, Trained c hp a x ∧ x.index = a.index ∧ x.tag = a.tag := by
  rw [genTrain_pop] at h
  simp only [List.mem_map] at h
  obtain ⟨y, ⟨z, hz, rfl⟩, rfl⟩ := h
  obtain ⟨a, ha, l, b, rfl, hor⟩ := applyHp_mem s.pop hp z hz
  refine ⟨a, ha, ⟨?_, ?_, ?_, ?_, rfl, rfl⟩, rfl, rfl⟩
  · simpa [evalAgent, bump] using hor
  · exact congrArg (fun k => a.cur + stride c * k) (agentIters_congr c _ _ rfl)
  · exact congrArg (fun k => a.env + stride c * k) (agentIters_congr c _ _ rfl)
  · exact congrArg (fun k => a.its + k) (agentIters_congr c _ _ rfl)

theorem genTrain_length (c : Cfg) (s : St) (hp : List (Nat × Nat)) :
    (genTrain c s hp).pop.length = s.pop.length := by
  rw [genTrain_pop]; simp [applyHp_length]

theorem genTrain_index (c : Cfg) (s : St) (hp : List (Nat × Nat)) :
    (genTrain c s hp).pop.map (·.index) = s.pop.map (·.index) := by
  rw [genTrain_pop, ← applyHp_index s.pop hp]
  simp [List.map_map, Function.comp_def, evalAgent, bump]

theorem genCheckpoint_pop (c : Cfg) (s : St) : (genCheckpoint c s).pop = s.pop := by
  unfold genCheckpoint; split <;> rfl

theorem genCheckpoint_gens (c : Cfg) (s : St) : (genCheckpoint c s).gens = s.gens := by
  unfold genCheckpoint; split <;> rfl

theorem genCheckpoint_halted (c : Cfg) (s : St) : (genCheckpoint c s).halted = s.halted := by
  unfold genCheckpoint; split <;> rfl

theorem genSelect_gens (c : Cfg) (s : St) (i : GenIn) : (genSelect c s i).gens = s.gens := by
  unfold genSelect; split
  · rfl
  · split <;> rfl

theorem genSelect_halted (c : Cfg) (s : St) (i : GenIn) : (genSelect c s i).halted = s.halted := by
  unfold genSelect; split
  · rfl
  · split <;> rfl

/-- selection + mutation only relabel (index) and re-weight (tag) members of the population -/
theorem genSelect_mem (c : Cfg) (s : St) (i : GenIn) (x : Agent) (h : x ∈ (genSelect c s i).pop) :
    ∃ a ∈ s.pop, ∃ idx t, x = { a with index := idx, tag := t } := by
  unfold genSelect at h
  split at h
  · exact ⟨x, h, x.index, x.tag, rfl⟩
  · split at h
    · obtain ⟨y, hy, t, rfl⟩ := mutate_mem c _ _ _ x h
      obtain ⟨a, ha, idx, rfl⟩ := select_mem c s.pop _ y hy
      exact ⟨a, ha, idx, t, rfl⟩
    · exact ⟨x, h, x.index, x.tag, rfl⟩

theorem genBody_gens (c : Cfg) (s : St) (i : GenIn) : (genBody c s i).gens = s.gens + 1 := by
  unfold genBody
  simp only
  split
  · simp [genTrain_gens]
  · rw [genCheckpoint_gens, genSelect_gens, genTrain_gens]

/-- every member of the population after one trip round the loop body descends from a member before
    it, trained and evaluated once (selection clones, mutation does not touch the counters) -/
theorem genBody_mem (c : Cfg) (s : St) (i : GenIn) (x : Agent) (h : x ∈ (genBody c s i).pop) :
    ∃ a ∈ s.pop, Trained c i.hp a x := by
  unfold genBody at h
  simp only at h
  split at h
  · obtain ⟨a, ha, ht, _, _⟩ := genTrain_mem c s i.hp x h
    exact ⟨a, ha, ht⟩
  · rw [genCheckpoint_pop] at h
    obtain ⟨y, hy, idx, t, rfl⟩ := genSelect_mem c _ i x h
    obtain ⟨a, ha, ht, _, _⟩ := genTrain_mem c s i.hp y hy
    exact ⟨a, ha, ⟨ht.hp, ht.cur, ht.env, ht.its, ht.fit, ht.past⟩⟩

/-- `whileStep` is the identity or the loop body -/
theorem whileStep_cases (c : Cfg) (s : St) (i : GenIn) :
    (whileStep c s i = s ∧ (s.halted = true ∨ cond c s.pop = false)) ∨
    (whileStep c s i = genBody c s i ∧ s.halted = false ∧ cond c s.pop = true) := by
  unfold whileStep
  cases hh : s.halted <;> cases hc : cond c s.pop <;> simp

theorem run_nil (c : Cfg) (s : St) : run c s [] = s := rfl
theorem run_cons (c : Cfg) (s : St) (i : GenIn) (ins : List GenIn) :
    run c s (i :: ins) = run c (whileStep c s i) ins := rfl

/-- a property of all members that every generation preserves holds along every run -/
theorem run_invariant (c : Cfg) (P : St → Prop)
    (hstep : ∀ s i, P s → s.halted = false → cond c s.pop = true → P (genBody c s i)) :
    ∀ (ins : List GenIn) (s : St), P s → P (run c s ins)
  | [], s, h => h
  | i :: ins, s, h => by
    rw [run_cons]
    apply run_invariant c P hstep ins
    rcases whileStep_cases c s i with ⟨e, _⟩ | ⟨e, hh, hc⟩
    · rw [e]; exact h
    · rw [e]; exact hstep s i h hh hc

end Loop
