import Gen.LoopGen
import Model.Loop
import Proofs.LoopRoll

/-!
# `Gen/LoopGen.lean` (generated from the six training functions) = `Model/Loop.lean`

`toM` / `fromM` relate the generated `Agent` (which also counts the learn calls of its lineage) to the model's;
`params`, `ops`, `tsmM`, `genIn` instantiate the arguments, the abstract memories and the abstract selection of the
generated code by what the model says about them; `stM` reads a generated state as a model state.  Per training
function: `gen_<f>_cond_eq`, `gen_<f>_step_eq` (innermost rollout iteration), `gen_<f>_agentBody_eq` (`trainAgent`),
`gen_<f>_train_eq` (`genTrain`), `gen_<f>_early_eq` (`earlyStop`), `gen_<f>_select_eq` (`genSelect`),
`gen_<f>_ckpt_eq` (`genCheckpoint`), `gen_<f>_genBody_eq`, `gen_<f>_whileStep_eq`, `gen_<f>_run_eq`.
-/
namespace LoopGenEq
open LoopGen

def toM (k : Loop.Kind) (a : Agent) : Loop.Agent :=
  { index := a.index, cur := a.cur, past := a.past, fit := a.fit, ls := a.ls, bs := a.bs,
    env := if k = .offline then a.env + a.learns else a.env,
    its := if k = .offline then a.its + a.learns else a.its, tag := a.tag }

@[simp] theorem toM_ls (k : Loop.Kind) (a : Agent) : (toM k a).ls = a.ls := rfl
@[simp] theorem toM_bs (k : Loop.Kind) (a : Agent) : (toM k a).bs = a.bs := rfl
@[simp] theorem toM_cur (k : Loop.Kind) (a : Agent) : (toM k a).cur = a.cur := rfl

def fromM (a : Loop.Agent) : Agent :=
  { index := a.index, cur := a.cur, past := a.past, fit := a.fit, ls := a.ls, bs := a.bs,
    env := a.env, its := a.its, learns := 0, tag := a.tag }

theorem toM_fromM (k : Loop.Kind) (a : Loop.Agent) : toM k (fromM a) = a := by
  cases a; simp [toM, fromM]

/-- the arguments of the training function as the model's configuration gives them; `tm` = tournament and mutation
    objects were passed, `target` = a target score was passed -/
def params (c : Loop.Cfg) (tm target : Bool) : Params :=
  { max_steps := c.maxSteps, evo_steps := c.evoSteps, num_envs := c.numEnvs, learning_delay := c.delay,
    episode_steps := c.episodeSteps, checkpoint := c.checkpoint, has_checkpoint := decide (c.checkpoint ≠ 0),
    has_target := target, has_tournament := tm, has_mutation := tm, has_n_step_memory := decide (2 ≤ c.nStep) }

@[simp] theorem params_max_steps (c : Loop.Cfg) (tm tg : Bool) : (params c tm tg).max_steps = c.maxSteps := rfl
@[simp] theorem params_evo_steps (c : Loop.Cfg) (tm tg : Bool) : (params c tm tg).evo_steps = c.evoSteps := rfl
@[simp] theorem params_num_envs (c : Loop.Cfg) (tm tg : Bool) : (params c tm tg).num_envs = c.numEnvs := rfl
@[simp] theorem params_learning_delay (c : Loop.Cfg) (tm tg : Bool) : (params c tm tg).learning_delay = c.delay := rfl
@[simp] theorem params_episode_steps (c : Loop.Cfg) (tm tg : Bool) : (params c tm tg).episode_steps = c.episodeSteps := rfl
@[simp] theorem params_checkpoint (c : Loop.Cfg) (tm tg : Bool) : (params c tm tg).checkpoint = c.checkpoint := rfl
@[simp] theorem params_has_checkpoint (c : Loop.Cfg) (tm tg : Bool) :
    (params c tm tg).has_checkpoint = decide (c.checkpoint ≠ 0) := rfl
@[simp] theorem params_has_target (c : Loop.Cfg) (tm tg : Bool) : (params c tm tg).has_target = tg := rfl
@[simp] theorem params_has_tournament (c : Loop.Cfg) (tm tg : Bool) : (params c tm tg).has_tournament = tm := rfl
@[simp] theorem params_has_mutation (c : Loop.Cfg) (tm tg : Bool) : (params c tm tg).has_mutation = tm := rfl
@[simp] theorem params_has_n_step_memory (c : Loop.Cfg) (tm tg : Bool) :
    (params c tm tg).has_n_step_memory = decide (2 ≤ c.nStep) := rfl

/-- the replay memories as the model sees them: an add stores `stride` transitions (one per sub-environment) up to
    the capacity; the n-step buffer swallows the first `n - 1` pushes of the run -/
def ops (c : Loop.Cfg) : MemOps Loop.Mem :=
  { add := fun m => { len := min (m.len + Loop.stride c) c.cap, counter := m.counter + Loop.stride c,
                      pushes := if c.kind = .off ∧ c.nStep < 2 then m.pushes + 1 else m.pushes },
    nAdd := fun m => ({ m with pushes := m.pushes + 1 }, !decide (m.pushes + 1 < c.nStep)),
    len := fun m => m.len, size := fun m => m.len, counter := fun m => m.counter }

def rollM (r : Roll Loop.Mem) : Loop.Roll :=
  { m := r.m, steps := r.steps, env := r.env, its := r.its, learns := r.learns }

theorem iterate_rollM (f : Nat → Roll Loop.Mem → Roll Loop.Mem) (g : Nat → Loop.Roll → Loop.Roll)
    (h : ∀ i r, rollM (f i r) = g i (rollM r)) (n : Nat) (r : Roll Loop.Mem) :
    rollM (LoopGen.iterate f n r) = Loop.iterate g n (rollM r) := by
  induction n with
  | zero => rfl
  | succ n ih => simp only [LoopGen.iterate, Loop.iterate, h, ih]

/-- a loop whose body only counts one learn call -/
theorem iterate_learn {μ} (f : Nat → Roll μ → Roll μ)
    (hf : ∀ i r, f i r = { r with learns := r.learns + 1 }) (n : Nat) (r : Roll μ) :
    LoopGen.iterate f n r = { r with learns := r.learns + n } := by
  induction n with
  | zero => rfl
  | succ n ih =>
    show f n (LoopGen.iterate f n r) = _
    rw [ih, hf]; simp [Nat.add_assoc]

/-- a population loop whose body agrees with `trainAgent` agrees with `trainPop` -/
theorem forPop_eq (c : Loop.Cfg) (f : Agent → Shared Loop.Mem → Agent × Shared Loop.Mem)
    (hf : ∀ a sh, toM c.kind (f a sh).1 = (Loop.trainAgent c (toM c.kind a) sh.m).1 ∧
      (f a sh).2.m = (Loop.trainAgent c (toM c.kind a) sh.m).2.1 ∧
      (f a sh).2.learns = sh.learns ++ [(Loop.trainAgent c (toM c.kind a) sh.m).2.2]) :
    ∀ (pop : List Agent) (sh : Shared Loop.Mem),
      ((forPop f pop sh).1.map (toM c.kind)) = (Loop.trainPop c (pop.map (toM c.kind)) sh.m).1 ∧
      (forPop f pop sh).2.m = (Loop.trainPop c (pop.map (toM c.kind)) sh.m).2.1 ∧
      (forPop f pop sh).2.learns = sh.learns ++ (Loop.trainPop c (pop.map (toM c.kind)) sh.m).2.2
  | [], sh => by simp [forPop, Loop.trainPop]
  | a :: as, sh => by
    obtain ⟨h1, h2, h3⟩ := hf a sh
    obtain ⟨i1, i2, i3⟩ := forPop_eq c f hf as (f a sh).2
    simp only [forPop, Loop.trainPop, List.map_cons]
    rw [h2] at i1 i2 i3
    refine ⟨?_, ?_, ?_⟩
    · simp [h1, i1]
    · simp [i2]
    · simp [i3, h3]

/-- the abstract selection + mutation as the model describes it: outcome of the tournament `sel` (none = no
    tournament / mutation objects), mutation flags; the external state is the next fresh weight name -/
def tsmM (c : Loop.Cfg) (sel : Option Loop.Sel) (flags : List Bool) : Nat → List Agent → Nat × List Agent :=
  fun nt pop => match sel with
    | some sl => (nt + pop.length + 1, (Loop.mutate c nt (Loop.select c (pop.map (toM c.kind)) sl) flags).map fromM)
    | none => (nt, pop)

def genIn (c : Loop.Cfg) (i : Loop.GenIn) : GenIn Nat :=
  { hp := i.hp, in0 := i.above, tsm := tsmM c i.sel i.mutated }

/-- the model counts selections in `evoCount` for every loop; only `train_bandits` has such a counter -/
def evoM (k : Loop.Kind) (s : St Loop.Mem Nat) : Nat := if k = .bandit then s.evoCount else s.selects

def stM (k : Loop.Kind) (s : St Loop.Mem Nat) : Loop.St :=
  { pop := s.pop.map (toM k), mem := s.mem, ckpts := s.ckpts, evoCount := evoM k s, gens := s.gens,
    halted := s.halted, saved := s.saved, learns := s.learns, selected := decide (Ev.select ∈ s.events),
    nextTag := s.ext }

theorem stM_halted (k : Loop.Kind) (s : St Loop.Mem Nat) : (stM k s).halted = s.halted := rfl

theorem applyHp_map (k : Loop.Kind) : ∀ (pop : List Agent) (hp : List (Nat × Nat)),
    (applyHp pop hp).map (toM k) = Loop.applyHp (pop.map (toM k)) hp
  | [], _ => by simp [applyHp, Loop.applyHp]
  | _ :: _, [] => by simp [applyHp, Loop.applyHp]
  | a :: as, (l, b) :: hs => by simp [applyHp, Loop.applyHp, applyHp_map k as hs, toM]

theorem headD_toM (k : Loop.Kind) (pop : List Agent) :
    ((pop.map (toM k)).headD default).cur = (pop.headD default).cur ∧
    ((pop.map (toM k)).headD default).past = (pop.headD default).past := by
  cases pop <;> simp [toM] <;> exact ⟨rfl, rfl⟩

theorem genTrain_halted' (c : Loop.Cfg) (s : Loop.St) (hp : List (Nat × Nat)) :
    (Loop.genTrain c s hp).halted = s.halted := by
  unfold Loop.genTrain
  rcases Loop.trainPop c (Loop.applyHp s.pop hp) s.mem with ⟨p, m, l⟩
  rfl

/-- Python's `-(a // -b)` is the model's `ceilDiv` -/
theorem ceilDiv_split (a b : Nat) (hb : 0 < b) :
    Loop.ceilDiv a b = a / b + (if b ∣ a then 0 else 1) := by
  unfold Loop.ceilDiv
  have hd := Nat.div_add_mod a b
  have hr := Nat.mod_lt a hb
  generalize a / b = q at hd ⊢
  generalize hrr : a % b = r at hd hr
  have hdv : b ∣ a ↔ r = 0 := by rw [Nat.dvd_iff_mod_eq_zero, hrr]
  subst hd
  by_cases h0 : r = 0
  · subst h0
    rw [if_pos (hdv.mpr rfl)]
    have : b * q + 0 + b - 1 = (b - 1) + b * q := by omega
    rw [this, Nat.add_mul_div_left _ _ hb, Nat.div_eq_of_lt (by omega)]; omega
  · rw [if_neg (fun h => h0 (hdv.mp h))]
    have : b * q + r + b - 1 = (r - 1) + b * (q + 1) := by
      rw [Nat.mul_add]; omega
    rw [this, Nat.add_mul_div_left _ _ hb, Nat.div_eq_of_lt (by omega)]; omega

theorem pyCeil (a b : Nat) : Int.toNat (-(Int.fdiv (Int.ofNat a) (-(Int.ofNat b)))) = Loop.ceilDiv a b := by
  rcases Nat.eq_zero_or_pos b with rfl | hb
  · simp [Loop.ceilDiv]
  · rw [ceilDiv_split a b hb, Int.fdiv_neg (by simp; omega), Int.fdiv_eq_ediv_of_nonneg _ (by simp)]
    have hdv : ((Int.ofNat b) ∣ (Int.ofNat a)) ↔ b ∣ a := by simp [Int.natCast_dvd_natCast]
    by_cases h : b ∣ a
    · rw [if_pos (hdv.mpr h), if_pos h]; simp; exact Int.toNat_natCast (a / b)
    · rw [if_neg (fun x => h (hdv.mp x)), if_neg h]
      have : -(-(Int.ofNat a / Int.ofNat b) - 1) = ((a / b + 1 : Nat) : Int) := by
        simp; omega
      rw [this]; exact Int.toNat_natCast _

/-! ## train_off_policy -/

theorem memAdd_off (c : Loop.Cfg) (hk : c.kind = .off) (m : Loop.Mem) :
    (bif decide (2 ≤ c.nStep) then
        (bif ((ops c).nAdd m).2 then (ops c).add ((ops c).nAdd m).1 else ((ops c).nAdd m).1)
     else (ops c).add m) = Loop.memAdd c m := by
  simp only [ops, Loop.memAdd, Loop.stride, hk]
  by_cases h2 : 2 ≤ c.nStep <;> by_cases h3 : m.pushes + 1 < c.nStep <;> simp [h2, h3] <;> omega

/-- the inner `for _ in range(num_envs // agent.learn_step)`: one learn call per iteration -/
theorem gen_off_learn_loop_eq {μ} (P : Params) (o : MemOps μ) (a : Agent) (i n : Nat) (r : Roll μ) :
    LoopGen.iterate (Off.loop0_0_0_body P o a i) n r = { r with learns := r.learns + n } :=
  iterate_learn _ (fun _ _ => rfl) n r

/-- one rollout iteration of `train_off_policy` = `offStep` -/
theorem gen_off_step_eq (c : Loop.Cfg) (tm tg : Bool) (hk : c.kind = .off) (a : Agent) (idx : Nat) (r : Roll Loop.Mem) :
    rollM (Off.loop0_0_body (params c tm tg) (ops c) a idx r) = Loop.offStep c (toM c.kind a) idx (rollM r) := by
  have hm := memAdd_off c hk r.m
  simp only [Off.loop0_0_body, gen_off_learn_loop_eq, Loop.offStep, Loop.learnsAt, params_num_envs,
    params_has_n_step_memory, params_learning_delay, rollM, toM, hk, hm]
  simp only [ops, gt_iff_lt, ge_iff_le, reduceCtorEq, if_false, Bool.cond_eq_ite, Bool.and_eq_true, decide_eq_true_eq]
  split <;> split <;> grind

theorem gen_off_agentBody_eq (c : Loop.Cfg) (tm tg : Bool) (hk : c.kind = .off) (a : Agent) (sh : Shared Loop.Mem) :
    toM c.kind (Off.agentBody0 (params c tm tg) (ops c) a sh).1 = (Loop.trainAgent c (toM c.kind a) sh.m).1 ∧
    (Off.agentBody0 (params c tm tg) (ops c) a sh).2.m = (Loop.trainAgent c (toM c.kind a) sh.m).2.1 ∧
    (Off.agentBody0 (params c tm tg) (ops c) a sh).2.learns =
      sh.learns ++ [(Loop.trainAgent c (toM c.kind a) sh.m).2.2] := by
  have h := iterate_rollM _ _ (gen_off_step_eq c tm tg hk a) (c.evoSteps / c.numEnvs)
    { m := sh.m, steps := 0, total := sh.total, env := 0, its := 0, learns := 0 }
  simp only [Off.agentBody0, Loop.trainAgent, Loop.rollout, hk, params_evo_steps, params_num_envs]
  simp only [rollM, hk] at h
  rw [← h]
  simp [toM]

theorem gen_off_select_eq (c : Loop.Cfg) (hk : c.kind = .off) (i : Loop.GenIn) (in0 : Bool) (s : St Loop.Mem Nat) :
    stM c.kind (Off.S5 (params c i.sel.isSome true) (ops c) (tsmM c i.sel i.mutated) in0 s) =
      Loop.genSelect c (stM c.kind s) i := by
  simp only [Off.S5, Loop.genSelect, Loop.selGate, stM, evoM, params_has_tournament, params_has_mutation, hk, tsmM]
  cases i.sel with
  | none => simp
  | some sl => simp [Function.comp_def, toM_fromM]

theorem gen_off_cond_eq (c : Loop.Cfg) (hk : c.kind = .off) (tm tg : Bool) (pop : List Agent) :
    Off.cond (params c tm tg) pop = Loop.cond c (pop.map (toM c.kind)) := by
  unfold Off.cond Loop.cond
  simp [hk, List.all_map, toM, Function.comp_def, Loop.sumCur, List.map_map]
  try rfl

theorem gen_off_start_eq (c : Loop.Cfg) (pop : List Agent) (m : Loop.Mem) (nt : Nat) :
    stM c.kind (Off.start pop m nt) = { pop := pop.map (toM c.kind), mem := m, nextTag := nt } := by
  simp [Off.start, stM, evoM]

theorem gen_off_train_eq (c : Loop.Cfg) (hk : c.kind = .off) (tm tg : Bool) (tsm : Nat → List Agent → Nat × List Agent)
    (in0 : Bool) (hp : List (Nat × Nat)) (s : St Loop.Mem Nat) :
    stM c.kind (Off.S3 (params c tm tg) (ops c) tsm in0 (Off.S2 (params c tm tg) (ops c) tsm in0
      (Off.S1 (params c tm tg) (ops c) tsm in0 (Off.S0 (params c tm tg) (ops c) tsm in0
        { s with pop := applyHp s.pop hp, events := [] })))) = Loop.genTrain c (stM c.kind s) hp := by
  obtain ⟨f1, f2, f3⟩ := forPop_eq c _ (gen_off_agentBody_eq c tm tg hk) (applyHp s.pop hp)
    { m := s.mem, total := s.total, learns := [] }
  rw [applyHp_map] at f1 f2 f3
  simp only [List.nil_append] at f3
  simp only [Off.S0, Off.S1, Off.S2, Off.S3, Loop.genTrain, stM, evoM]
  generalize forPop _ _ _ = fp at f1 f2 f3 ⊢
  rcases ht : Loop.trainPop c (Loop.applyHp (s.pop.map (toM c.kind)) hp) s.mem with ⟨p, m, l⟩
  rw [ht] at f1 f2 f3
  simp only at f1 f2 f3
  subst f1 f2 f3
  simp [List.map_map, Function.comp_def, toM, Loop.evalAgent]

theorem gen_off_early_eq (c : Loop.Cfg) (tm : Bool) (tsm : Nat → List Agent → Nat × List Agent)
    (in0 : Bool) (s : St Loop.Mem Nat) :
    stM c.kind (Off.S4 (params c tm true) (ops c) tsm in0 s) =
      (if Loop.earlyStop (stM c.kind s) in0 then { stM c.kind s with halted := true } else stM c.kind s) := by
  have h := (headD_toM c.kind s.pop).2
  simp only [Off.S4, Loop.earlyStop, stM, evoM, params_has_target, h, ge_iff_le]
  generalize decide (100 ≤ _) = d
  cases in0 <;> cases d <;> simp

theorem gen_off_ckpt_eq (c : Loop.Cfg) (tm : Bool) (tsm : Nat → List Agent → Nat × List Agent)
    (in0 : Bool) (s : St Loop.Mem Nat) :
    stM c.kind (Off.S6 (params c tm true) (ops c) tsm in0 s) = Loop.genCheckpoint c (stM c.kind s) := by
  have h := (headD_toM c.kind s.pop).1
  simp only [Off.S6, Loop.genCheckpoint, stM, evoM, params_has_checkpoint, params_checkpoint, h, gt_iff_lt,
    ← Bool.cond_decide, Bool.decide_and]
  generalize decide (c.checkpoint ≠ 0) = d0
  generalize decide (s.ckpts < _) = d1
  cases d0 <;> cases d1 <;> simp [List.map_map, Function.comp_def, toM]

theorem gen_off_genBody_eq (c : Loop.Cfg) (hk : c.kind = .off) (i : Loop.GenIn) (s : St Loop.Mem Nat)
    (hs : s.halted = false) :
    stM c.kind (Off.genBody (params c i.sel.isSome true) (ops c) (tsmM c i.sel i.mutated) i.above
      { s with pop := applyHp s.pop i.hp, events := [] }) = Loop.genBody c (stM c.kind s) i := by
  have ht := gen_off_train_eq c hk i.sel.isSome true (tsmM c i.sel i.mutated) i.above i.hp s
  have hth : (Loop.genTrain c (stM c.kind s) i.hp).halted = false := by
    rw [genTrain_halted']; exact hs
  simp only [Off.genBody, Loop.genBody]
  generalize Off.S3 _ _ _ _ _ = t at ht ⊢
  have he := gen_off_early_eq c i.sel.isSome (tsmM c i.sel i.mutated) i.above t
  rw [← ht] at hth ⊢
  have hh := congrArg Loop.St.halted he
  rw [stM_halted] at hh
  cases hes : Loop.earlyStop (stM c.kind t) i.above
  · rw [hes] at he hh
    simp only [Bool.false_eq_true, if_false] at he hh ⊢
    rw [hh, hth]
    simp only [cond_false]
    rw [gen_off_ckpt_eq, gen_off_select_eq c hk, he]
  · rw [hes] at he hh
    simp only [if_true] at he hh ⊢
    rw [hh]
    simp only [cond_true]
    exact he

theorem gen_off_whileStep_eq (c : Loop.Cfg) (hk : c.kind = .off) (i : Loop.GenIn) (s : St Loop.Mem Nat) :
    stM c.kind (Off.whileStep (params c i.sel.isSome true) (ops c) (genIn c i) s) =
      Loop.whileStep c (stM c.kind s) i := by
  unfold Off.whileStep Loop.whileStep
  rw [gen_off_cond_eq c hk]
  simp only [stM_halted, genIn]
  have hp : (stM c.kind s).pop = s.pop.map (toM c.kind) := rfl
  rw [hp]
  by_cases hh : s.halted = true
  · simp [hh]
  · have hh : s.halted = false := by simpa using hh
    cases hc : Loop.cond c (s.pop.map (toM c.kind))
    · simp [hh]
    · simpa [hh] using gen_off_genBody_eq c hk i s hh

/-- **`train_off_policy` as written = the model**: the generated loop, run on any per-generation inputs, is `Loop.run` -/
theorem gen_off_run_eq (c : Loop.Cfg) (hk : c.kind = .off) (tm : Bool) :
    ∀ (ins : List Loop.GenIn) (s : St Loop.Mem Nat), (∀ i ∈ ins, i.sel.isSome = tm) →
      stM c.kind (Off.run (params c tm true) (ops c) s (ins.map (genIn c))) = Loop.run c (stM c.kind s) ins
  | [], s, _ => rfl
  | i :: ins, s, h => by
    have hi := h i (by simp)
    simp only [Off.run, Loop.run, List.map_cons, List.foldl_cons]
    have := gen_off_run_eq c hk tm ins (Off.whileStep (params c tm true) (ops c) (genIn c i) s)
      (fun j hj => h j (by simp [hj]))
    simp only [Off.run, Loop.run] at this
    rw [this, ← hi, gen_off_whileStep_eq c hk]

/-! ## train_on_policy -/

theorem gen_on_inner_eq (c : Loop.Cfg) (tm tg : Bool) (a : Agent) (i0 i1 : Nat) (r : Roll Loop.Mem) :
    rollM (On.loop0_0_0_body (params c tm tg) (ops c) a i0 i1 r) = Loop.onInner c i1 (rollM r) := by
  simp [On.loop0_0_0_body, Loop.onInner, rollM]

/-- `-(agent.learn_step // -num_envs)` environment steps, then one learn = `onOuter` -/
theorem gen_on_step_eq (c : Loop.Cfg) (tm tg : Bool) (a : Agent) (idx : Nat) (r : Roll Loop.Mem) :
    rollM (On.loop0_0_body (params c tm tg) (ops c) a idx r) = Loop.onOuter c (toM c.kind a) idx (rollM r) := by
  have h := iterate_rollM _ _ (gen_on_inner_eq c tm tg a idx) (Loop.ceilDiv a.ls c.numEnvs) r
  obtain ⟨_, _, _, g4, g5⟩ := Loop.iterate_onInner c (Loop.ceilDiv a.ls c.numEnvs) (rollM r)
  simp only [On.loop0_0_body, Loop.onOuter, params_num_envs, pyCeil]
  rw [toM_ls, ← h] at *
  simp only [rollM] at g4 g5 ⊢
  simp only [Loop.Roll.mk.injEq, true_and]
  exact ⟨g5.symm, by rw [g4]⟩

theorem gen_on_agentBody_eq (c : Loop.Cfg) (tm tg : Bool) (hk : c.kind = .on) (a : Agent) (sh : Shared Loop.Mem) :
    toM c.kind (On.agentBody0 (params c tm tg) (ops c) a sh).1 = (Loop.trainAgent c (toM c.kind a) sh.m).1 ∧
    (On.agentBody0 (params c tm tg) (ops c) a sh).2.m = (Loop.trainAgent c (toM c.kind a) sh.m).2.1 ∧
    (On.agentBody0 (params c tm tg) (ops c) a sh).2.learns =
      sh.learns ++ [(Loop.trainAgent c (toM c.kind a) sh.m).2.2] := by
  have h := iterate_rollM _ _ (gen_on_step_eq c tm tg a) (Loop.ceilDiv c.evoSteps a.ls)
    { m := sh.m, steps := 0, total := sh.total, env := 0, its := 0, learns := 0 }
  obtain ⟨_, _, _, _, g5⟩ := Loop.iterate_onOuter c (toM c.kind a) (Loop.ceilDiv c.evoSteps a.ls) { m := sh.m }
  simp only [On.agentBody0, Loop.trainAgent, Loop.rollout, hk, params_evo_steps, pyCeil, toM_ls]
  simp only [rollM, hk, toM_ls] at h g5
  rw [← h] at g5 ⊢
  simp only at g5
  simp [toM, g5]

theorem gen_on_select_eq (c : Loop.Cfg) (hk : c.kind = .on) (i : Loop.GenIn) (in0 : Bool) (s : St Loop.Mem Nat) :
    stM c.kind (On.S5 (params c i.sel.isSome true) (ops c) (tsmM c i.sel i.mutated) in0 s) =
      Loop.genSelect c (stM c.kind s) i := by
  simp only [On.S5, Loop.genSelect, Loop.selGate, stM, evoM, params_has_tournament, params_has_mutation, hk, tsmM]
  cases i.sel with
  | none => simp
  | some sl => simp [Function.comp_def, toM_fromM]

theorem gen_on_cond_eq (c : Loop.Cfg) (hk : c.kind = .on) (tm tg : Bool) (pop : List Agent) :
    On.cond (params c tm tg) pop = Loop.cond c (pop.map (toM c.kind)) := by
  unfold On.cond Loop.cond
  simp [hk, List.all_map, toM, Function.comp_def, Loop.sumCur, List.map_map]
  try rfl

theorem gen_on_start_eq (c : Loop.Cfg) (pop : List Agent) (m : Loop.Mem) (nt : Nat) :
    stM c.kind (On.start pop m nt) = { pop := pop.map (toM c.kind), mem := m, nextTag := nt } := by
  simp [On.start, stM, evoM]

theorem gen_on_train_eq (c : Loop.Cfg) (hk : c.kind = .on) (tm tg : Bool) (tsm : Nat → List Agent → Nat × List Agent)
    (in0 : Bool) (hp : List (Nat × Nat)) (s : St Loop.Mem Nat) :
    stM c.kind (On.S3 (params c tm tg) (ops c) tsm in0 (On.S2 (params c tm tg) (ops c) tsm in0
      (On.S1 (params c tm tg) (ops c) tsm in0 (On.S0 (params c tm tg) (ops c) tsm in0
        { s with pop := applyHp s.pop hp, events := [] })))) = Loop.genTrain c (stM c.kind s) hp := by
  obtain ⟨f1, f2, f3⟩ := forPop_eq c _ (gen_on_agentBody_eq c tm tg hk) (applyHp s.pop hp)
    { m := s.mem, total := s.total, learns := [] }
  rw [applyHp_map] at f1 f2 f3
  simp only [List.nil_append] at f3
  simp only [On.S0, On.S1, On.S2, On.S3, Loop.genTrain, stM, evoM]
  generalize forPop _ _ _ = fp at f1 f2 f3 ⊢
  rcases ht : Loop.trainPop c (Loop.applyHp (s.pop.map (toM c.kind)) hp) s.mem with ⟨p, m, l⟩
  rw [ht] at f1 f2 f3
  simp only at f1 f2 f3
  subst f1 f2 f3
  simp [List.map_map, Function.comp_def, toM, Loop.evalAgent]

theorem gen_on_early_eq (c : Loop.Cfg) (tm : Bool) (tsm : Nat → List Agent → Nat × List Agent)
    (in0 : Bool) (s : St Loop.Mem Nat) :
    stM c.kind (On.S4 (params c tm true) (ops c) tsm in0 s) =
      (if Loop.earlyStop (stM c.kind s) in0 then { stM c.kind s with halted := true } else stM c.kind s) := by
  have h := (headD_toM c.kind s.pop).2
  simp only [On.S4, Loop.earlyStop, stM, evoM, params_has_target, h, ge_iff_le]
  generalize decide (100 ≤ _) = d
  cases in0 <;> cases d <;> simp

theorem gen_on_ckpt_eq (c : Loop.Cfg) (tm : Bool) (tsm : Nat → List Agent → Nat × List Agent)
    (in0 : Bool) (s : St Loop.Mem Nat) :
    stM c.kind (On.S6 (params c tm true) (ops c) tsm in0 s) = Loop.genCheckpoint c (stM c.kind s) := by
  have h := (headD_toM c.kind s.pop).1
  simp only [On.S6, Loop.genCheckpoint, stM, evoM, params_has_checkpoint, params_checkpoint, h, gt_iff_lt,
    ← Bool.cond_decide, Bool.decide_and]
  generalize decide (c.checkpoint ≠ 0) = d0
  generalize decide (s.ckpts < _) = d1
  cases d0 <;> cases d1 <;> simp [List.map_map, Function.comp_def, toM]

theorem gen_on_genBody_eq (c : Loop.Cfg) (hk : c.kind = .on) (i : Loop.GenIn) (s : St Loop.Mem Nat)
    (hs : s.halted = false) :
    stM c.kind (On.genBody (params c i.sel.isSome true) (ops c) (tsmM c i.sel i.mutated) i.above
      { s with pop := applyHp s.pop i.hp, events := [] }) = Loop.genBody c (stM c.kind s) i := by
  have ht := gen_on_train_eq c hk i.sel.isSome true (tsmM c i.sel i.mutated) i.above i.hp s
  have hth : (Loop.genTrain c (stM c.kind s) i.hp).halted = false := by
    rw [genTrain_halted']; exact hs
  simp only [On.genBody, Loop.genBody]
  generalize On.S3 _ _ _ _ _ = t at ht ⊢
  have he := gen_on_early_eq c i.sel.isSome (tsmM c i.sel i.mutated) i.above t
  rw [← ht] at hth ⊢
  have hh := congrArg Loop.St.halted he
  rw [stM_halted] at hh
  cases hes : Loop.earlyStop (stM c.kind t) i.above
  · rw [hes] at he hh
    simp only [Bool.false_eq_true, if_false] at he hh ⊢
    rw [hh, hth]
    simp only [cond_false]
    rw [gen_on_ckpt_eq, gen_on_select_eq c hk, he]
  · rw [hes] at he hh
    simp only [if_true] at he hh ⊢
    rw [hh]
    simp only [cond_true]
    exact he

theorem gen_on_whileStep_eq (c : Loop.Cfg) (hk : c.kind = .on) (i : Loop.GenIn) (s : St Loop.Mem Nat) :
    stM c.kind (On.whileStep (params c i.sel.isSome true) (ops c) (genIn c i) s) =
      Loop.whileStep c (stM c.kind s) i := by
  unfold On.whileStep Loop.whileStep
  rw [gen_on_cond_eq c hk]
  simp only [stM_halted, genIn]
  have hp : (stM c.kind s).pop = s.pop.map (toM c.kind) := rfl
  rw [hp]
  by_cases hh : s.halted = true
  · simp [hh]
  · have hh : s.halted = false := by simpa using hh
    cases hc : Loop.cond c (s.pop.map (toM c.kind))
    · simp [hh]
    · simpa [hh] using gen_on_genBody_eq c hk i s hh

/-- **`train_on_policy` as written = the model**: the generated loop, run on any per-generation inputs, is `Loop.run` -/
theorem gen_on_run_eq (c : Loop.Cfg) (hk : c.kind = .on) (tm : Bool) :
    ∀ (ins : List Loop.GenIn) (s : St Loop.Mem Nat), (∀ i ∈ ins, i.sel.isSome = tm) →
      stM c.kind (On.run (params c tm true) (ops c) s (ins.map (genIn c))) = Loop.run c (stM c.kind s) ins
  | [], s, _ => rfl
  | i :: ins, s, h => by
    have hi := h i (by simp)
    simp only [On.run, Loop.run, List.map_cons, List.foldl_cons]
    have := gen_on_run_eq c hk tm ins (On.whileStep (params c tm true) (ops c) (genIn c i) s)
      (fun j hj => h j (by simp [hj]))
    simp only [On.run, Loop.run] at this
    rw [this, ← hi, gen_on_whileStep_eq c hk]

/-! ## train_offline -/

theorem gen_offline_learn_loop_eq {μ} (P : Params) (o : MemOps μ) (a : Agent) (n : Nat) (r : Roll μ) :
    LoopGen.iterate (Offline.loop0_0_body P o a) n r = { r with learns := r.learns + n } :=
  iterate_learn _ (fun _ _ => rfl) n r

theorem gen_offline_agentBody_eq (c : Loop.Cfg) (tm tg : Bool) (hk : c.kind = .offline) (a : Agent) (sh : Shared Loop.Mem) :
    toM c.kind (Offline.agentBody0 (params c tm tg) (ops c) a sh).1 = (Loop.trainAgent c (toM c.kind a) sh.m).1 ∧
    (Offline.agentBody0 (params c tm tg) (ops c) a sh).2.m = (Loop.trainAgent c (toM c.kind a) sh.m).2.1 ∧
    (Offline.agentBody0 (params c tm tg) (ops c) a sh).2.learns =
      sh.learns ++ [(Loop.trainAgent c (toM c.kind a) sh.m).2.2] := by
  obtain ⟨g1, g2, g3, g4⟩ := Loop.iterate_offlineStep c.evoSteps { m := sh.m }
  simp only [Offline.agentBody0, gen_offline_learn_loop_eq, Loop.trainAgent, Loop.rollout, hk, params_evo_steps,
    g1, g2, g3, g4]
  simp [toM]
  omega

theorem gen_offline_select_eq (c : Loop.Cfg) (hk : c.kind = .offline) (i : Loop.GenIn) (in0 : Bool) (s : St Loop.Mem Nat) :
    stM c.kind (Offline.S5 (params c i.sel.isSome true) (ops c) (tsmM c i.sel i.mutated) in0 s) =
      Loop.genSelect c (stM c.kind s) i := by
  simp only [Offline.S5, Loop.genSelect, Loop.selGate, stM, evoM, params_has_tournament, params_has_mutation, hk, tsmM]
  cases i.sel with
  | none => simp
  | some sl => simp [Function.comp_def, toM_fromM]

theorem gen_offline_cond_eq (c : Loop.Cfg) (hk : c.kind = .offline) (tm tg : Bool) (pop : List Agent) :
    Offline.cond (params c tm tg) pop = Loop.cond c (pop.map (toM c.kind)) := by
  unfold Offline.cond Loop.cond
  simp [hk, List.all_map, toM, Function.comp_def, Loop.sumCur, List.map_map]
  try rfl

theorem gen_offline_start_eq (c : Loop.Cfg) (pop : List Agent) (m : Loop.Mem) (nt : Nat) :
    stM c.kind (Offline.start pop m nt) = { pop := pop.map (toM c.kind), mem := m, nextTag := nt } := by
  simp [Offline.start, stM, evoM]

theorem gen_offline_train_eq (c : Loop.Cfg) (hk : c.kind = .offline) (tm tg : Bool) (tsm : Nat → List Agent → Nat × List Agent)
    (in0 : Bool) (hp : List (Nat × Nat)) (s : St Loop.Mem Nat) :
    stM c.kind (Offline.S3 (params c tm tg) (ops c) tsm in0 (Offline.S2 (params c tm tg) (ops c) tsm in0
      (Offline.S1 (params c tm tg) (ops c) tsm in0 (Offline.S0 (params c tm tg) (ops c) tsm in0
        { s with pop := applyHp s.pop hp, events := [] })))) = Loop.genTrain c (stM c.kind s) hp := by
  obtain ⟨f1, f2, f3⟩ := forPop_eq c _ (gen_offline_agentBody_eq c tm tg hk) (applyHp s.pop hp)
    { m := s.mem, total := s.total, learns := [] }
  rw [applyHp_map] at f1 f2 f3
  simp only [List.nil_append] at f3
  simp only [Offline.S0, Offline.S1, Offline.S2, Offline.S3, Loop.genTrain, stM, evoM]
  generalize forPop _ _ _ = fp at f1 f2 f3 ⊢
  rcases ht : Loop.trainPop c (Loop.applyHp (s.pop.map (toM c.kind)) hp) s.mem with ⟨p, m, l⟩
  rw [ht] at f1 f2 f3
  simp only at f1 f2 f3
  subst f1 f2 f3
  simp [List.map_map, Function.comp_def, toM, Loop.evalAgent]

theorem gen_offline_early_eq (c : Loop.Cfg) (tm : Bool) (tsm : Nat → List Agent → Nat × List Agent)
    (in0 : Bool) (s : St Loop.Mem Nat) :
    stM c.kind (Offline.S4 (params c tm true) (ops c) tsm in0 s) =
      (if Loop.earlyStop (stM c.kind s) in0 then { stM c.kind s with halted := true } else stM c.kind s) := by
  have h := (headD_toM c.kind s.pop).2
  simp only [Offline.S4, Loop.earlyStop, stM, evoM, params_has_target, h, ge_iff_le]
  generalize decide (100 ≤ _) = d
  cases in0 <;> cases d <;> simp

theorem gen_offline_ckpt_eq (c : Loop.Cfg) (tm : Bool) (tsm : Nat → List Agent → Nat × List Agent)
    (in0 : Bool) (s : St Loop.Mem Nat) :
    stM c.kind (Offline.S6 (params c tm true) (ops c) tsm in0 s) = Loop.genCheckpoint c (stM c.kind s) := by
  have h := (headD_toM c.kind s.pop).1
  simp only [Offline.S6, Loop.genCheckpoint, stM, evoM, params_has_checkpoint, params_checkpoint, h, gt_iff_lt,
    ← Bool.cond_decide, Bool.decide_and]
  generalize decide (c.checkpoint ≠ 0) = d0
  generalize decide (s.ckpts < _) = d1
  cases d0 <;> cases d1 <;> simp [List.map_map, Function.comp_def, toM]

theorem gen_offline_genBody_eq (c : Loop.Cfg) (hk : c.kind = .offline) (i : Loop.GenIn) (s : St Loop.Mem Nat)
    (hs : s.halted = false) :
    stM c.kind (Offline.genBody (params c i.sel.isSome true) (ops c) (tsmM c i.sel i.mutated) i.above
      { s with pop := applyHp s.pop i.hp, events := [] }) = Loop.genBody c (stM c.kind s) i := by
  have ht := gen_offline_train_eq c hk i.sel.isSome true (tsmM c i.sel i.mutated) i.above i.hp s
  have hth : (Loop.genTrain c (stM c.kind s) i.hp).halted = false := by
    rw [genTrain_halted']; exact hs
  simp only [Offline.genBody, Loop.genBody]
  generalize Offline.S3 _ _ _ _ _ = t at ht ⊢
  have he := gen_offline_early_eq c i.sel.isSome (tsmM c i.sel i.mutated) i.above t
  rw [← ht] at hth ⊢
  have hh := congrArg Loop.St.halted he
  rw [stM_halted] at hh
  cases hes : Loop.earlyStop (stM c.kind t) i.above
  · rw [hes] at he hh
    simp only [Bool.false_eq_true, if_false] at he hh ⊢
    rw [hh, hth]
    simp only [cond_false]
    rw [gen_offline_ckpt_eq, gen_offline_select_eq c hk, he]
  · rw [hes] at he hh
    simp only [if_true] at he hh ⊢
    rw [hh]
    simp only [cond_true]
    exact he

theorem gen_offline_whileStep_eq (c : Loop.Cfg) (hk : c.kind = .offline) (i : Loop.GenIn) (s : St Loop.Mem Nat) :
    stM c.kind (Offline.whileStep (params c i.sel.isSome true) (ops c) (genIn c i) s) =
      Loop.whileStep c (stM c.kind s) i := by
  unfold Offline.whileStep Loop.whileStep
  rw [gen_offline_cond_eq c hk]
  simp only [stM_halted, genIn]
  have hp : (stM c.kind s).pop = s.pop.map (toM c.kind) := rfl
  rw [hp]
  by_cases hh : s.halted = true
  · simp [hh]
  · have hh : s.halted = false := by simpa using hh
    cases hc : Loop.cond c (s.pop.map (toM c.kind))
    · simp [hh]
    · simpa [hh] using gen_offline_genBody_eq c hk i s hh

/-- **`train_offline` as written = the model**: the generated loop, run on any per-generation inputs, is `Loop.run` -/
theorem gen_offline_run_eq (c : Loop.Cfg) (hk : c.kind = .offline) (tm : Bool) :
    ∀ (ins : List Loop.GenIn) (s : St Loop.Mem Nat), (∀ i ∈ ins, i.sel.isSome = tm) →
      stM c.kind (Offline.run (params c tm true) (ops c) s (ins.map (genIn c))) = Loop.run c (stM c.kind s) ins
  | [], s, _ => rfl
  | i :: ins, s, h => by
    have hi := h i (by simp)
    simp only [Offline.run, Loop.run, List.map_cons, List.foldl_cons]
    have := gen_offline_run_eq c hk tm ins (Offline.whileStep (params c tm true) (ops c) (genIn c i) s)
      (fun j hj => h j (by simp [hj]))
    simp only [Offline.run, Loop.run] at this
    rw [this, ← hi, gen_offline_whileStep_eq c hk]

/-! ## train_bandits -/

theorem gen_bandit_learn_loop_eq {μ} (P : Params) (o : MemOps μ) (a : Agent) (i n : Nat) (r : Roll μ) :
    LoopGen.iterate (Bandit.loop0_0_0_body P o a i) n r = { r with learns := r.learns + n } :=
  iterate_learn _ (fun _ _ => rfl) n r

/-- one context of `train_bandits` = `banditStep` -/
theorem gen_bandit_step_eq (c : Loop.Cfg) (tm tg : Bool) (hk : c.kind = .bandit) (a : Agent) (idx : Nat)
    (r : Roll Loop.Mem) :
    rollM (Bandit.loop0_0_body (params c tm tg) (ops c) a idx r) = Loop.banditStep c (toM c.kind a) idx (rollM r) := by
  simp only [Bandit.loop0_0_body, gen_bandit_learn_loop_eq, Loop.banditStep, Loop.memAdd, rollM, toM_ls, toM_bs, hk]
  simp only [ops, Loop.stride, hk, ge_iff_le, reduceCtorEq, and_false, false_and, if_false, Bool.cond_eq_ite,
    decide_eq_true_eq]
  split <;> simp_all

theorem gen_bandit_agentBody_eq (c : Loop.Cfg) (tm tg : Bool) (hk : c.kind = .bandit) (a : Agent) (sh : Shared Loop.Mem) :
    toM c.kind (Bandit.agentBody0 (params c tm tg) (ops c) a sh).1 = (Loop.trainAgent c (toM c.kind a) sh.m).1 ∧
    (Bandit.agentBody0 (params c tm tg) (ops c) a sh).2.m = (Loop.trainAgent c (toM c.kind a) sh.m).2.1 ∧
    (Bandit.agentBody0 (params c tm tg) (ops c) a sh).2.learns =
      sh.learns ++ [(Loop.trainAgent c (toM c.kind a) sh.m).2.2] := by
  have h := iterate_rollM _ _ (gen_bandit_step_eq c tm tg hk a) c.episodeSteps
    { m := sh.m, steps := 0, total := sh.total, env := 0, its := 0, learns := 0 }
  simp only [Bandit.agentBody0, Loop.trainAgent, Loop.rollout, hk, params_episode_steps]
  simp only [rollM, hk] at h
  rw [← h]
  simp [toM]

theorem gen_bandit_select_eq (c : Loop.Cfg) (hk : c.kind = .bandit) (i : Loop.GenIn) (in0 : Bool) (s : St Loop.Mem Nat) :
    stM c.kind (Bandit.S5 (params c i.sel.isSome true) (ops c) (tsmM c i.sel i.mutated) in0 s) =
      Loop.genSelect c (stM c.kind s) i := by
  have h := (headD_toM Loop.Kind.bandit s.pop).1
  simp only [Bandit.S5, Loop.genSelect, Loop.selGate, stM, evoM, params_has_tournament, params_has_mutation,
    params_evo_steps, hk, tsmM, gt_iff_lt, h]
  cases i.sel with
  | none => simp
  | some sl =>
    by_cases hd : s.evoCount < (s.pop.headD default).cur / c.evoSteps
    · simp only [hd, decide_true, cond_true, if_true]; simp [Function.comp_def, toM_fromM]
    · simp only [hd, decide_false, cond_false, if_false]; simp; simpa using hd

theorem gen_bandit_cond_eq (c : Loop.Cfg) (hk : c.kind = .bandit) (tm tg : Bool) (pop : List Agent) :
    Bandit.cond (params c tm tg) pop = Loop.cond c (pop.map (toM c.kind)) := by
  unfold Bandit.cond Loop.cond
  simp [hk, List.all_map, toM, Function.comp_def, Loop.sumCur, List.map_map]
  try rfl

theorem gen_bandit_start_eq (c : Loop.Cfg) (pop : List Agent) (m : Loop.Mem) (nt : Nat) :
    stM c.kind (Bandit.start pop m nt) = { pop := pop.map (toM c.kind), mem := m, nextTag := nt } := by
  simp [Bandit.start, stM, evoM]

theorem gen_bandit_train_eq (c : Loop.Cfg) (hk : c.kind = .bandit) (tm tg : Bool) (tsm : Nat → List Agent → Nat × List Agent)
    (in0 : Bool) (hp : List (Nat × Nat)) (s : St Loop.Mem Nat) :
    stM c.kind (Bandit.S3 (params c tm tg) (ops c) tsm in0 (Bandit.S2 (params c tm tg) (ops c) tsm in0
      (Bandit.S1 (params c tm tg) (ops c) tsm in0 (Bandit.S0 (params c tm tg) (ops c) tsm in0
        { s with pop := applyHp s.pop hp, events := [] })))) = Loop.genTrain c (stM c.kind s) hp := by
  obtain ⟨f1, f2, f3⟩ := forPop_eq c _ (gen_bandit_agentBody_eq c tm tg hk) (applyHp s.pop hp)
    { m := s.mem, total := s.total, learns := [] }
  rw [applyHp_map] at f1 f2 f3
  simp only [List.nil_append] at f3
  simp only [Bandit.S0, Bandit.S1, Bandit.S2, Bandit.S3, Loop.genTrain, stM, evoM]
  generalize forPop _ _ _ = fp at f1 f2 f3 ⊢
  rcases ht : Loop.trainPop c (Loop.applyHp (s.pop.map (toM c.kind)) hp) s.mem with ⟨p, m, l⟩
  rw [ht] at f1 f2 f3
  simp only at f1 f2 f3
  subst f1 f2 f3
  simp [List.map_map, Function.comp_def, toM, Loop.evalAgent]

theorem gen_bandit_early_eq (c : Loop.Cfg) (tm : Bool) (tsm : Nat → List Agent → Nat × List Agent)
    (in0 : Bool) (s : St Loop.Mem Nat) :
    stM c.kind (Bandit.S4 (params c tm true) (ops c) tsm in0 s) =
      (if Loop.earlyStop (stM c.kind s) in0 then { stM c.kind s with halted := true } else stM c.kind s) := by
  have h := (headD_toM c.kind s.pop).2
  simp only [Bandit.S4, Loop.earlyStop, stM, evoM, params_has_target, h, ge_iff_le]
  generalize decide (100 ≤ _) = d
  cases in0 <;> cases d <;> simp

theorem gen_bandit_ckpt_eq (c : Loop.Cfg) (tm : Bool) (tsm : Nat → List Agent → Nat × List Agent)
    (in0 : Bool) (s : St Loop.Mem Nat) :
    stM c.kind (Bandit.S6 (params c tm true) (ops c) tsm in0 s) = Loop.genCheckpoint c (stM c.kind s) := by
  have h := (headD_toM c.kind s.pop).1
  simp only [Bandit.S6, Loop.genCheckpoint, stM, evoM, params_has_checkpoint, params_checkpoint, h, gt_iff_lt,
    ← Bool.cond_decide, Bool.decide_and]
  generalize decide (c.checkpoint ≠ 0) = d0
  generalize decide (s.ckpts < _) = d1
  cases d0 <;> cases d1 <;> simp [List.map_map, Function.comp_def, toM]

theorem gen_bandit_genBody_eq (c : Loop.Cfg) (hk : c.kind = .bandit) (i : Loop.GenIn) (s : St Loop.Mem Nat)
    (hs : s.halted = false) :
    stM c.kind (Bandit.genBody (params c i.sel.isSome true) (ops c) (tsmM c i.sel i.mutated) i.above
      { s with pop := applyHp s.pop i.hp, events := [] }) = Loop.genBody c (stM c.kind s) i := by
  have ht := gen_bandit_train_eq c hk i.sel.isSome true (tsmM c i.sel i.mutated) i.above i.hp s
  have hth : (Loop.genTrain c (stM c.kind s) i.hp).halted = false := by
    rw [genTrain_halted']; exact hs
  simp only [Bandit.genBody, Loop.genBody]
  generalize Bandit.S3 _ _ _ _ _ = t at ht ⊢
  have he := gen_bandit_early_eq c i.sel.isSome (tsmM c i.sel i.mutated) i.above t
  rw [← ht] at hth ⊢
  have hh := congrArg Loop.St.halted he
  rw [stM_halted] at hh
  cases hes : Loop.earlyStop (stM c.kind t) i.above
  · rw [hes] at he hh
    simp only [Bool.false_eq_true, if_false] at he hh ⊢
    rw [hh, hth]
    simp only [cond_false]
    rw [gen_bandit_ckpt_eq, gen_bandit_select_eq c hk, he]
  · rw [hes] at he hh
    simp only [if_true] at he hh ⊢
    rw [hh]
    simp only [cond_true]
    exact he

theorem gen_bandit_whileStep_eq (c : Loop.Cfg) (hk : c.kind = .bandit) (i : Loop.GenIn) (s : St Loop.Mem Nat) :
    stM c.kind (Bandit.whileStep (params c i.sel.isSome true) (ops c) (genIn c i) s) =
      Loop.whileStep c (stM c.kind s) i := by
  unfold Bandit.whileStep Loop.whileStep
  rw [gen_bandit_cond_eq c hk]
  simp only [stM_halted, genIn]
  have hp : (stM c.kind s).pop = s.pop.map (toM c.kind) := rfl
  rw [hp]
  by_cases hh : s.halted = true
  · simp [hh]
  · have hh : s.halted = false := by simpa using hh
    cases hc : Loop.cond c (s.pop.map (toM c.kind))
    · simp [hh]
    · simpa [hh] using gen_bandit_genBody_eq c hk i s hh

/-- **`train_bandits` as written = the model**: the generated loop, run on any per-generation inputs, is `Loop.run` -/
theorem gen_bandit_run_eq (c : Loop.Cfg) (hk : c.kind = .bandit) (tm : Bool) :
    ∀ (ins : List Loop.GenIn) (s : St Loop.Mem Nat), (∀ i ∈ ins, i.sel.isSome = tm) →
      stM c.kind (Bandit.run (params c tm true) (ops c) s (ins.map (genIn c))) = Loop.run c (stM c.kind s) ins
  | [], s, _ => rfl
  | i :: ins, s, h => by
    have hi := h i (by simp)
    simp only [Bandit.run, Loop.run, List.map_cons, List.foldl_cons]
    have := gen_bandit_run_eq c hk tm ins (Bandit.whileStep (params c tm true) (ops c) (genIn c i) s)
      (fun j hj => h j (by simp [hj]))
    simp only [Bandit.run, Loop.run] at this
    rw [this, ← hi, gen_bandit_whileStep_eq c hk]

/-! ## train_multi_agent_off_policy -/

theorem gen_maoff_learn_loop_eq {μ} (P : Params) (o : MemOps μ) (a : Agent) (i n : Nat) (r : Roll μ) :
    LoopGen.iterate (MaOff.loop0_0_0_body P o a i) n r = { r with learns := r.learns + n } :=
  iterate_learn _ (fun _ _ => rfl) n r

/-- one rollout iteration of `train_multi_agent_off_policy` = `offStep` (gate: `memory.counter`) -/
theorem gen_maoff_step_eq (c : Loop.Cfg) (tm tg : Bool) (hk : c.kind = .maoff) (a : Agent) (idx : Nat)
    (r : Roll Loop.Mem) :
    rollM (MaOff.loop0_0_body (params c tm tg) (ops c) a idx r) = Loop.offStep c (toM c.kind a) idx (rollM r) := by
  simp only [MaOff.loop0_0_body, gen_maoff_learn_loop_eq, Loop.offStep, Loop.learnsAt, Loop.memAdd, params_num_envs,
    params_learning_delay, rollM, toM_ls, toM_bs, hk]
  simp only [ops, Loop.stride, hk, gt_iff_lt, ge_iff_le, reduceCtorEq, and_false, false_and, if_false, if_true,
    Bool.cond_eq_ite, Bool.and_eq_true, decide_eq_true_eq]
  split <;> split <;> grind

theorem gen_maoff_agentBody_eq (c : Loop.Cfg) (tm tg : Bool) (hk : c.kind = .maoff) (a : Agent) (sh : Shared Loop.Mem) :
    toM c.kind (MaOff.agentBody0 (params c tm tg) (ops c) a sh).1 = (Loop.trainAgent c (toM c.kind a) sh.m).1 ∧
    (MaOff.agentBody0 (params c tm tg) (ops c) a sh).2.m = (Loop.trainAgent c (toM c.kind a) sh.m).2.1 ∧
    (MaOff.agentBody0 (params c tm tg) (ops c) a sh).2.learns =
      sh.learns ++ [(Loop.trainAgent c (toM c.kind a) sh.m).2.2] := by
  have h := iterate_rollM _ _ (gen_maoff_step_eq c tm tg hk a) (c.evoSteps / c.numEnvs)
    { m := sh.m, steps := 0, total := sh.total, env := 0, its := 0, learns := 0 }
  simp only [MaOff.agentBody0, Loop.trainAgent, Loop.rollout, hk, params_evo_steps, params_num_envs]
  simp only [rollM, hk] at h
  rw [← h]
  simp [toM]

theorem gen_maoff_select_eq (c : Loop.Cfg) (hk : c.kind = .maoff) (i : Loop.GenIn) (in0 : Bool) (s : St Loop.Mem Nat) :
    stM c.kind (MaOff.S5 (params c i.sel.isSome true) (ops c) (tsmM c i.sel i.mutated) in0 s) =
      Loop.genSelect c (stM c.kind s) i := by
  simp only [MaOff.S5, Loop.genSelect, Loop.selGate, stM, evoM, params_has_tournament, params_has_mutation, hk, tsmM]
  cases i.sel with
  | none => simp
  | some sl => simp [Function.comp_def, toM_fromM]

theorem gen_maoff_cond_eq (c : Loop.Cfg) (hk : c.kind = .maoff) (tm tg : Bool) (pop : List Agent) :
    MaOff.cond (params c tm tg) pop = Loop.cond c (pop.map (toM c.kind)) := by
  unfold MaOff.cond Loop.cond
  simp [hk, List.all_map, toM, Function.comp_def, Loop.sumCur, List.map_map]
  try rfl

theorem gen_maoff_start_eq (c : Loop.Cfg) (pop : List Agent) (m : Loop.Mem) (nt : Nat) :
    stM c.kind (MaOff.start pop m nt) = { pop := pop.map (toM c.kind), mem := m, nextTag := nt } := by
  simp [MaOff.start, stM, evoM]

theorem gen_maoff_train_eq (c : Loop.Cfg) (hk : c.kind = .maoff) (tm tg : Bool) (tsm : Nat → List Agent → Nat × List Agent)
    (in0 : Bool) (hp : List (Nat × Nat)) (s : St Loop.Mem Nat) :
    stM c.kind (MaOff.S3 (params c tm tg) (ops c) tsm in0 (MaOff.S2 (params c tm tg) (ops c) tsm in0
      (MaOff.S1 (params c tm tg) (ops c) tsm in0 (MaOff.S0 (params c tm tg) (ops c) tsm in0
        { s with pop := applyHp s.pop hp, events := [] })))) = Loop.genTrain c (stM c.kind s) hp := by
  obtain ⟨f1, f2, f3⟩ := forPop_eq c _ (gen_maoff_agentBody_eq c tm tg hk) (applyHp s.pop hp)
    { m := s.mem, total := s.total, learns := [] }
  rw [applyHp_map] at f1 f2 f3
  simp only [List.nil_append] at f3
  simp only [MaOff.S0, MaOff.S1, MaOff.S2, MaOff.S3, Loop.genTrain, stM, evoM]
  generalize forPop _ _ _ = fp at f1 f2 f3 ⊢
  rcases ht : Loop.trainPop c (Loop.applyHp (s.pop.map (toM c.kind)) hp) s.mem with ⟨p, m, l⟩
  rw [ht] at f1 f2 f3
  simp only at f1 f2 f3
  subst f1 f2 f3
  simp [List.map_map, Function.comp_def, toM, Loop.evalAgent]

theorem gen_maoff_early_eq (c : Loop.Cfg) (tm : Bool) (tsm : Nat → List Agent → Nat × List Agent)
    (in0 : Bool) (s : St Loop.Mem Nat) :
    stM c.kind (MaOff.S4 (params c tm true) (ops c) tsm in0 s) =
      (if Loop.earlyStop (stM c.kind s) in0 then { stM c.kind s with halted := true } else stM c.kind s) := by
  have h := (headD_toM c.kind s.pop).2
  simp only [MaOff.S4, Loop.earlyStop, stM, evoM, params_has_target, h, ge_iff_le]
  generalize decide (100 ≤ _) = d
  cases in0 <;> cases d <;> simp

theorem gen_maoff_ckpt_eq (c : Loop.Cfg) (tm : Bool) (tsm : Nat → List Agent → Nat × List Agent)
    (in0 : Bool) (s : St Loop.Mem Nat) :
    stM c.kind (MaOff.S6 (params c tm true) (ops c) tsm in0 s) = Loop.genCheckpoint c (stM c.kind s) := by
  have h := (headD_toM c.kind s.pop).1
  simp only [MaOff.S6, Loop.genCheckpoint, stM, evoM, params_has_checkpoint, params_checkpoint, h, gt_iff_lt,
    ← Bool.cond_decide, Bool.decide_and]
  generalize decide (c.checkpoint ≠ 0) = d0
  generalize decide (s.ckpts < _) = d1
  cases d0 <;> cases d1 <;> simp [List.map_map, Function.comp_def, toM]

theorem gen_maoff_genBody_eq (c : Loop.Cfg) (hk : c.kind = .maoff) (i : Loop.GenIn) (s : St Loop.Mem Nat)
    (hs : s.halted = false) :
    stM c.kind (MaOff.genBody (params c i.sel.isSome true) (ops c) (tsmM c i.sel i.mutated) i.above
      { s with pop := applyHp s.pop i.hp, events := [] }) = Loop.genBody c (stM c.kind s) i := by
  have ht := gen_maoff_train_eq c hk i.sel.isSome true (tsmM c i.sel i.mutated) i.above i.hp s
  have hth : (Loop.genTrain c (stM c.kind s) i.hp).halted = false := by
    rw [genTrain_halted']; exact hs
  simp only [MaOff.genBody, Loop.genBody]
  generalize MaOff.S3 _ _ _ _ _ = t at ht ⊢
  have he := gen_maoff_early_eq c i.sel.isSome (tsmM c i.sel i.mutated) i.above t
  rw [← ht] at hth ⊢
  have hh := congrArg Loop.St.halted he
  rw [stM_halted] at hh
  cases hes : Loop.earlyStop (stM c.kind t) i.above
  · rw [hes] at he hh
    simp only [Bool.false_eq_true, if_false] at he hh ⊢
    rw [hh, hth]
    simp only [cond_false]
    rw [gen_maoff_ckpt_eq, gen_maoff_select_eq c hk, he]
  · rw [hes] at he hh
    simp only [if_true] at he hh ⊢
    rw [hh]
    simp only [cond_true]
    exact he

theorem gen_maoff_whileStep_eq (c : Loop.Cfg) (hk : c.kind = .maoff) (i : Loop.GenIn) (s : St Loop.Mem Nat) :
    stM c.kind (MaOff.whileStep (params c i.sel.isSome true) (ops c) (genIn c i) s) =
      Loop.whileStep c (stM c.kind s) i := by
  unfold MaOff.whileStep Loop.whileStep
  rw [gen_maoff_cond_eq c hk]
  simp only [stM_halted, genIn]
  have hp : (stM c.kind s).pop = s.pop.map (toM c.kind) := rfl
  rw [hp]
  by_cases hh : s.halted = true
  · simp [hh]
  · have hh : s.halted = false := by simpa using hh
    cases hc : Loop.cond c (s.pop.map (toM c.kind))
    · simp [hh]
    · simpa [hh] using gen_maoff_genBody_eq c hk i s hh

/-- **`train_multi_agent_off_policy` as written = the model**: the generated loop, run on any per-generation inputs, is `Loop.run` -/
theorem gen_maoff_run_eq (c : Loop.Cfg) (hk : c.kind = .maoff) (tm : Bool) :
    ∀ (ins : List Loop.GenIn) (s : St Loop.Mem Nat), (∀ i ∈ ins, i.sel.isSome = tm) →
      stM c.kind (MaOff.run (params c tm true) (ops c) s (ins.map (genIn c))) = Loop.run c (stM c.kind s) ins
  | [], s, _ => rfl
  | i :: ins, s, h => by
    have hi := h i (by simp)
    simp only [MaOff.run, Loop.run, List.map_cons, List.foldl_cons]
    have := gen_maoff_run_eq c hk tm ins (MaOff.whileStep (params c tm true) (ops c) (genIn c i) s)
      (fun j hj => h j (by simp [hj]))
    simp only [MaOff.run, Loop.run] at this
    rw [this, ← hi, gen_maoff_whileStep_eq c hk]

/-! ## train_multi_agent_on_policy -/

theorem gen_maon_inner_eq (c : Loop.Cfg) (tm tg : Bool) (a : Agent) (i0 i1 : Nat) (r : Roll Loop.Mem) :
    rollM (MaOn.loop0_0_0_body (params c tm tg) (ops c) a i0 i1 r) = Loop.onInner c i1 (rollM r) := by
  simp [MaOn.loop0_0_0_body, Loop.onInner, rollM]

/-- `-(agent.learn_step // -num_envs)` environment steps, then one learn = `onOuter` -/
theorem gen_maon_step_eq (c : Loop.Cfg) (tm tg : Bool) (a : Agent) (idx : Nat) (r : Roll Loop.Mem) :
    rollM (MaOn.loop0_0_body (params c tm tg) (ops c) a idx r) = Loop.onOuter c (toM c.kind a) idx (rollM r) := by
  have h := iterate_rollM _ _ (gen_maon_inner_eq c tm tg a idx) (Loop.ceilDiv a.ls c.numEnvs) r
  obtain ⟨_, _, _, g4, g5⟩ := Loop.iterate_onInner c (Loop.ceilDiv a.ls c.numEnvs) (rollM r)
  simp only [MaOn.loop0_0_body, Loop.onOuter, params_num_envs, pyCeil]
  rw [toM_ls, ← h] at *
  simp only [rollM] at g4 g5 ⊢
  simp only [Loop.Roll.mk.injEq, true_and]
  exact ⟨g5.symm, by rw [g4]⟩

theorem gen_maon_agentBody_eq (c : Loop.Cfg) (tm tg : Bool) (hk : c.kind = .maon) (a : Agent) (sh : Shared Loop.Mem) :
    toM c.kind (MaOn.agentBody0 (params c tm tg) (ops c) a sh).1 = (Loop.trainAgent c (toM c.kind a) sh.m).1 ∧
    (MaOn.agentBody0 (params c tm tg) (ops c) a sh).2.m = (Loop.trainAgent c (toM c.kind a) sh.m).2.1 ∧
    (MaOn.agentBody0 (params c tm tg) (ops c) a sh).2.learns =
      sh.learns ++ [(Loop.trainAgent c (toM c.kind a) sh.m).2.2] := by
  have h := iterate_rollM _ _ (gen_maon_step_eq c tm tg a) (Loop.ceilDiv c.evoSteps a.ls)
    { m := sh.m, steps := 0, total := sh.total, env := 0, its := 0, learns := 0 }
  obtain ⟨_, _, _, _, g5⟩ := Loop.iterate_onOuter c (toM c.kind a) (Loop.ceilDiv c.evoSteps a.ls) { m := sh.m }
  simp only [MaOn.agentBody0, Loop.trainAgent, Loop.rollout, hk, params_evo_steps, pyCeil, toM_ls]
  simp only [rollM, hk, toM_ls] at h g5
  rw [← h] at g5 ⊢
  simp only at g5
  simp [toM, g5]

theorem gen_maon_select_eq (c : Loop.Cfg) (hk : c.kind = .maon) (i : Loop.GenIn) (in0 : Bool) (s : St Loop.Mem Nat) :
    stM c.kind (MaOn.S5 (params c i.sel.isSome true) (ops c) (tsmM c i.sel i.mutated) in0 s) =
      Loop.genSelect c (stM c.kind s) i := by
  simp only [MaOn.S5, Loop.genSelect, Loop.selGate, stM, evoM, params_has_tournament, params_has_mutation, hk, tsmM]
  cases i.sel with
  | none => simp
  | some sl => simp [Function.comp_def, toM_fromM]

theorem gen_maon_cond_eq (c : Loop.Cfg) (hk : c.kind = .maon) (tm tg : Bool) (pop : List Agent) :
    MaOn.cond (params c tm tg) pop = Loop.cond c (pop.map (toM c.kind)) := by
  unfold MaOn.cond Loop.cond
  simp [hk, List.all_map, toM, Function.comp_def, Loop.sumCur, List.map_map]
  try rfl

theorem gen_maon_start_eq (c : Loop.Cfg) (pop : List Agent) (m : Loop.Mem) (nt : Nat) :
    stM c.kind (MaOn.start pop m nt) = { pop := pop.map (toM c.kind), mem := m, nextTag := nt } := by
  simp [MaOn.start, stM, evoM]

theorem gen_maon_train_eq (c : Loop.Cfg) (hk : c.kind = .maon) (tm tg : Bool) (tsm : Nat → List Agent → Nat × List Agent)
    (in0 : Bool) (hp : List (Nat × Nat)) (s : St Loop.Mem Nat) :
    stM c.kind (MaOn.S3 (params c tm tg) (ops c) tsm in0 (MaOn.S2 (params c tm tg) (ops c) tsm in0
      (MaOn.S1 (params c tm tg) (ops c) tsm in0 (MaOn.S0 (params c tm tg) (ops c) tsm in0
        { s with pop := applyHp s.pop hp, events := [] })))) = Loop.genTrain c (stM c.kind s) hp := by
  obtain ⟨f1, f2, f3⟩ := forPop_eq c _ (gen_maon_agentBody_eq c tm tg hk) (applyHp s.pop hp)
    { m := s.mem, total := s.total, learns := [] }
  rw [applyHp_map] at f1 f2 f3
  simp only [List.nil_append] at f3
  simp only [MaOn.S0, MaOn.S1, MaOn.S2, MaOn.S3, Loop.genTrain, stM, evoM]
  generalize forPop _ _ _ = fp at f1 f2 f3 ⊢
  rcases ht : Loop.trainPop c (Loop.applyHp (s.pop.map (toM c.kind)) hp) s.mem with ⟨p, m, l⟩
  rw [ht] at f1 f2 f3
  simp only at f1 f2 f3
  subst f1 f2 f3
  simp [List.map_map, Function.comp_def, toM, Loop.evalAgent]

theorem gen_maon_early_eq (c : Loop.Cfg) (tm : Bool) (tsm : Nat → List Agent → Nat × List Agent)
    (in0 : Bool) (s : St Loop.Mem Nat) :
    stM c.kind (MaOn.S4 (params c tm true) (ops c) tsm in0 s) =
      (if Loop.earlyStop (stM c.kind s) in0 then { stM c.kind s with halted := true } else stM c.kind s) := by
  have h := (headD_toM c.kind s.pop).2
  simp only [MaOn.S4, Loop.earlyStop, stM, evoM, params_has_target, h, ge_iff_le]
  generalize decide (100 ≤ _) = d
  cases in0 <;> cases d <;> simp

theorem gen_maon_ckpt_eq (c : Loop.Cfg) (tm : Bool) (tsm : Nat → List Agent → Nat × List Agent)
    (in0 : Bool) (s : St Loop.Mem Nat) :
    stM c.kind (MaOn.S6 (params c tm true) (ops c) tsm in0 s) = Loop.genCheckpoint c (stM c.kind s) := by
  have h := (headD_toM c.kind s.pop).1
  simp only [MaOn.S6, Loop.genCheckpoint, stM, evoM, params_has_checkpoint, params_checkpoint, h, gt_iff_lt,
    ← Bool.cond_decide, Bool.decide_and]
  generalize decide (c.checkpoint ≠ 0) = d0
  generalize decide (s.ckpts < _) = d1
  cases d0 <;> cases d1 <;> simp [List.map_map, Function.comp_def, toM]

theorem gen_maon_genBody_eq (c : Loop.Cfg) (hk : c.kind = .maon) (i : Loop.GenIn) (s : St Loop.Mem Nat)
    (hs : s.halted = false) :
    stM c.kind (MaOn.genBody (params c i.sel.isSome true) (ops c) (tsmM c i.sel i.mutated) i.above
      { s with pop := applyHp s.pop i.hp, events := [] }) = Loop.genBody c (stM c.kind s) i := by
  have ht := gen_maon_train_eq c hk i.sel.isSome true (tsmM c i.sel i.mutated) i.above i.hp s
  have hth : (Loop.genTrain c (stM c.kind s) i.hp).halted = false := by
    rw [genTrain_halted']; exact hs
  simp only [MaOn.genBody, Loop.genBody]
  generalize MaOn.S3 _ _ _ _ _ = t at ht ⊢
  have he := gen_maon_early_eq c i.sel.isSome (tsmM c i.sel i.mutated) i.above t
  rw [← ht] at hth ⊢
  have hh := congrArg Loop.St.halted he
  rw [stM_halted] at hh
  cases hes : Loop.earlyStop (stM c.kind t) i.above
  · rw [hes] at he hh
    simp only [Bool.false_eq_true, if_false] at he hh ⊢
    rw [hh, hth]
    simp only [cond_false]
    rw [gen_maon_ckpt_eq, gen_maon_select_eq c hk, he]
  · rw [hes] at he hh
    simp only [if_true] at he hh ⊢
    rw [hh]
    simp only [cond_true]
    exact he

theorem gen_maon_whileStep_eq (c : Loop.Cfg) (hk : c.kind = .maon) (i : Loop.GenIn) (s : St Loop.Mem Nat) :
    stM c.kind (MaOn.whileStep (params c i.sel.isSome true) (ops c) (genIn c i) s) =
      Loop.whileStep c (stM c.kind s) i := by
  unfold MaOn.whileStep Loop.whileStep
  rw [gen_maon_cond_eq c hk]
  simp only [stM_halted, genIn]
  have hp : (stM c.kind s).pop = s.pop.map (toM c.kind) := rfl
  rw [hp]
  by_cases hh : s.halted = true
  · simp [hh]
  · have hh : s.halted = false := by simpa using hh
    cases hc : Loop.cond c (s.pop.map (toM c.kind))
    · simp [hh]
    · simpa [hh] using gen_maon_genBody_eq c hk i s hh

/-- **`train_multi_agent_on_policy` as written = the model**: the generated loop, run on any per-generation inputs, is `Loop.run` -/
theorem gen_maon_run_eq (c : Loop.Cfg) (hk : c.kind = .maon) (tm : Bool) :
    ∀ (ins : List Loop.GenIn) (s : St Loop.Mem Nat), (∀ i ∈ ins, i.sel.isSome = tm) →
      stM c.kind (MaOn.run (params c tm true) (ops c) s (ins.map (genIn c))) = Loop.run c (stM c.kind s) ins
  | [], s, _ => rfl
  | i :: ins, s, h => by
    have hi := h i (by simp)
    simp only [MaOn.run, Loop.run, List.map_cons, List.foldl_cons]
    have := gen_maon_run_eq c hk tm ins (MaOn.whileStep (params c tm true) (ops c) (genIn c i) s)
      (fun j hj => h j (by simp [hj]))
    simp only [MaOn.run, Loop.run] at this
    rw [this, ← hi, gen_maon_whileStep_eq c hk]


theorem gen_off_whileStep_stop {μ ε} (P : Params) (o : MemOps μ) (i : GenIn ε) (s : St μ ε)
    (h : (s.halted || !(Off.cond P s.pop)) = true) : Off.whileStep P o i s = s := by
  unfold Off.whileStep; rw [h]; rfl

theorem gen_off_run_stop {μ ε} (P : Params) (o : MemOps μ) (s : St μ ε)
    (h : (s.halted || !(Off.cond P s.pop)) = true) : ∀ ins : List (GenIn ε), Off.run P o s ins = s
  | [] => rfl
  | i :: ins => by
    have := gen_off_run_stop P o s h ins
    simp only [Off.run, List.foldl_cons, gen_off_whileStep_stop P o i s h] at this ⊢
    exact this

theorem gen_on_whileStep_stop {μ ε} (P : Params) (o : MemOps μ) (i : GenIn ε) (s : St μ ε)
    (h : (s.halted || !(On.cond P s.pop)) = true) : On.whileStep P o i s = s := by
  unfold On.whileStep; rw [h]; rfl

theorem gen_on_run_stop {μ ε} (P : Params) (o : MemOps μ) (s : St μ ε)
    (h : (s.halted || !(On.cond P s.pop)) = true) : ∀ ins : List (GenIn ε), On.run P o s ins = s
  | [] => rfl
  | i :: ins => by
    have := gen_on_run_stop P o s h ins
    simp only [On.run, List.foldl_cons, gen_on_whileStep_stop P o i s h] at this ⊢
    exact this

theorem gen_offline_whileStep_stop {μ ε} (P : Params) (o : MemOps μ) (i : GenIn ε) (s : St μ ε)
    (h : (s.halted || !(Offline.cond P s.pop)) = true) : Offline.whileStep P o i s = s := by
  unfold Offline.whileStep; rw [h]; rfl

theorem gen_offline_run_stop {μ ε} (P : Params) (o : MemOps μ) (s : St μ ε)
    (h : (s.halted || !(Offline.cond P s.pop)) = true) : ∀ ins : List (GenIn ε), Offline.run P o s ins = s
  | [] => rfl
  | i :: ins => by
    have := gen_offline_run_stop P o s h ins
    simp only [Offline.run, List.foldl_cons, gen_offline_whileStep_stop P o i s h] at this ⊢
    exact this

theorem gen_bandit_whileStep_stop {μ ε} (P : Params) (o : MemOps μ) (i : GenIn ε) (s : St μ ε)
    (h : (s.halted || !(Bandit.cond P s.pop)) = true) : Bandit.whileStep P o i s = s := by
  unfold Bandit.whileStep; rw [h]; rfl

theorem gen_bandit_run_stop {μ ε} (P : Params) (o : MemOps μ) (s : St μ ε)
    (h : (s.halted || !(Bandit.cond P s.pop)) = true) : ∀ ins : List (GenIn ε), Bandit.run P o s ins = s
  | [] => rfl
  | i :: ins => by
    have := gen_bandit_run_stop P o s h ins
    simp only [Bandit.run, List.foldl_cons, gen_bandit_whileStep_stop P o i s h] at this ⊢
    exact this

theorem gen_maoff_whileStep_stop {μ ε} (P : Params) (o : MemOps μ) (i : GenIn ε) (s : St μ ε)
    (h : (s.halted || !(MaOff.cond P s.pop)) = true) : MaOff.whileStep P o i s = s := by
  unfold MaOff.whileStep; rw [h]; rfl

theorem gen_maoff_run_stop {μ ε} (P : Params) (o : MemOps μ) (s : St μ ε)
    (h : (s.halted || !(MaOff.cond P s.pop)) = true) : ∀ ins : List (GenIn ε), MaOff.run P o s ins = s
  | [] => rfl
  | i :: ins => by
    have := gen_maoff_run_stop P o s h ins
    simp only [MaOff.run, List.foldl_cons, gen_maoff_whileStep_stop P o i s h] at this ⊢
    exact this

theorem gen_maon_whileStep_stop {μ ε} (P : Params) (o : MemOps μ) (i : GenIn ε) (s : St μ ε)
    (h : (s.halted || !(MaOn.cond P s.pop)) = true) : MaOn.whileStep P o i s = s := by
  unfold MaOn.whileStep; rw [h]; rfl

theorem gen_maon_run_stop {μ ε} (P : Params) (o : MemOps μ) (s : St μ ε)
    (h : (s.halted || !(MaOn.cond P s.pop)) = true) : ∀ ins : List (GenIn ε), MaOn.run P o s ins = s
  | [] => rfl
  | i :: ins => by
    have := gen_maon_run_stop P o s h ins
    simp only [MaOn.run, List.foldl_cons, gen_maon_whileStep_stop P o i s h] at this ⊢
    exact this

/-! ## the events of one trip round the loop, in order -/

theorem gen_off_events {μ ε} (P : Params) (o : MemOps μ) (tsm : ε → List Agent → ε × List Agent) (in0 : Bool)
    (s : St μ ε) (hs : s.halted = false) :
    ∃ ret sel sav : Bool,
      (Off.genBody P o tsm in0 s).events = s.events ++
        ([Ev.train, Ev.test, Ev.fitnessAppend, Ev.stepsAppend] ++
          (if ret then [Ev.earlyReturn] else (if sel then [Ev.select] else []) ++ (if sav then [Ev.save] else []))) ∧
      (Off.genBody P o tsm in0 s).halted = ret := by
  have h4 : ∀ t : St μ ε, ∃ b : Bool, (Off.S4 P o tsm in0 t).events = t.events ++ (if b then [Ev.earlyReturn] else []) ∧
      (Off.S4 P o tsm in0 t).halted = (b || t.halted) := by
    intro t
    refine ⟨P.has_target && (in0 && decide ((t.pop.headD default).past.length + 1 ≥ 100)), ?_⟩
    simp only [Off.S4]
    cases P.has_target <;> cases (in0 && decide ((t.pop.headD default).past.length + 1 ≥ 100)) <;> simp
  have h5 : ∀ t : St μ ε, ∃ b : Bool, (Off.S5 P o tsm in0 t).events = t.events ++ (if b then [Ev.select] else []) := by
    intro t
    refine ⟨P.has_tournament && P.has_mutation, ?_⟩
    simp only [Off.S5]
    cases (P.has_tournament && P.has_mutation) <;> simp
  have h6 : ∀ t : St μ ε, ∃ b : Bool, (Off.S6 P o tsm in0 t).events = t.events ++ (if b then [Ev.save] else []) := by
    intro t
    refine ⟨P.has_checkpoint && decide ((t.pop.headD default).cur / P.checkpoint > t.ckpts), ?_⟩
    simp only [Off.S6]
    cases P.has_checkpoint <;> cases (decide ((t.pop.headD default).cur / P.checkpoint > t.ckpts)) <;> simp
  have h03 : ∀ t : St μ ε, (Off.S3 P o tsm in0 (Off.S2 P o tsm in0 (Off.S1 P o tsm in0 (Off.S0 P o tsm in0 t)))).events =
      t.events ++ [Ev.train, Ev.test, Ev.fitnessAppend, Ev.stepsAppend] ∧
      (Off.S3 P o tsm in0 (Off.S2 P o tsm in0 (Off.S1 P o tsm in0 (Off.S0 P o tsm in0 t)))).halted = t.halted := by
    intro t; simp [Off.S0, Off.S1, Off.S2, Off.S3]
  simp only [Off.genBody]
  generalize ht : Off.S3 P o tsm in0 _ = t
  obtain ⟨e03, hh⟩ := h03 s
  rw [ht] at e03 hh
  obtain ⟨b4, e4, hh4⟩ := h4 t
  rw [hh, hs, Bool.or_false] at hh4
  cases b4
  · obtain ⟨b5, e5⟩ := h5 (Off.S4 P o tsm in0 t)
    obtain ⟨b6, e6⟩ := h6 (Off.S5 P o tsm in0 (Off.S4 P o tsm in0 t))
    refine ⟨false, b5, b6, ?_, ?_⟩
    · rw [hh4]; simp only [cond_false]; rw [e6, e5, e4, e03]; simp
    · rw [hh4]; simp only [cond_false, Off.S5, Off.S6]; exact hh4
  · refine ⟨true, false, false, ?_, ?_⟩
    · rw [hh4]; simp only [cond_true]; rw [e4, e03]; simp
    · rw [hh4]; simp only [cond_true]; exact hh4

theorem gen_on_events {μ ε} (P : Params) (o : MemOps μ) (tsm : ε → List Agent → ε × List Agent) (in0 : Bool)
    (s : St μ ε) (hs : s.halted = false) :
    ∃ ret sel sav : Bool,
      (On.genBody P o tsm in0 s).events = s.events ++
        ([Ev.train, Ev.test, Ev.fitnessAppend, Ev.stepsAppend] ++
          (if ret then [Ev.earlyReturn] else (if sel then [Ev.select] else []) ++ (if sav then [Ev.save] else []))) ∧
      (On.genBody P o tsm in0 s).halted = ret := by
  have h4 : ∀ t : St μ ε, ∃ b : Bool, (On.S4 P o tsm in0 t).events = t.events ++ (if b then [Ev.earlyReturn] else []) ∧
      (On.S4 P o tsm in0 t).halted = (b || t.halted) := by
    intro t
    refine ⟨P.has_target && (in0 && decide ((t.pop.headD default).past.length + 1 ≥ 100)), ?_⟩
    simp only [On.S4]
    cases P.has_target <;> cases (in0 && decide ((t.pop.headD default).past.length + 1 ≥ 100)) <;> simp
  have h5 : ∀ t : St μ ε, ∃ b : Bool, (On.S5 P o tsm in0 t).events = t.events ++ (if b then [Ev.select] else []) := by
    intro t
    refine ⟨P.has_tournament && P.has_mutation, ?_⟩
    simp only [On.S5]
    cases (P.has_tournament && P.has_mutation) <;> simp
  have h6 : ∀ t : St μ ε, ∃ b : Bool, (On.S6 P o tsm in0 t).events = t.events ++ (if b then [Ev.save] else []) := by
    intro t
    refine ⟨P.has_checkpoint && decide ((t.pop.headD default).cur / P.checkpoint > t.ckpts), ?_⟩
    simp only [On.S6]
    cases P.has_checkpoint <;> cases (decide ((t.pop.headD default).cur / P.checkpoint > t.ckpts)) <;> simp
  have h03 : ∀ t : St μ ε, (On.S3 P o tsm in0 (On.S2 P o tsm in0 (On.S1 P o tsm in0 (On.S0 P o tsm in0 t)))).events =
      t.events ++ [Ev.train, Ev.test, Ev.fitnessAppend, Ev.stepsAppend] ∧
      (On.S3 P o tsm in0 (On.S2 P o tsm in0 (On.S1 P o tsm in0 (On.S0 P o tsm in0 t)))).halted = t.halted := by
    intro t; simp [On.S0, On.S1, On.S2, On.S3]
  simp only [On.genBody]
  generalize ht : On.S3 P o tsm in0 _ = t
  obtain ⟨e03, hh⟩ := h03 s
  rw [ht] at e03 hh
  obtain ⟨b4, e4, hh4⟩ := h4 t
  rw [hh, hs, Bool.or_false] at hh4
  cases b4
  · obtain ⟨b5, e5⟩ := h5 (On.S4 P o tsm in0 t)
    obtain ⟨b6, e6⟩ := h6 (On.S5 P o tsm in0 (On.S4 P o tsm in0 t))
    refine ⟨false, b5, b6, ?_, ?_⟩
    · rw [hh4]; simp only [cond_false]; rw [e6, e5, e4, e03]; simp
    · rw [hh4]; simp only [cond_false, On.S5, On.S6]; exact hh4
  · refine ⟨true, false, false, ?_, ?_⟩
    · rw [hh4]; simp only [cond_true]; rw [e4, e03]; simp
    · rw [hh4]; simp only [cond_true]; exact hh4

theorem gen_offline_events {μ ε} (P : Params) (o : MemOps μ) (tsm : ε → List Agent → ε × List Agent) (in0 : Bool)
    (s : St μ ε) (hs : s.halted = false) :
    ∃ ret sel sav : Bool,
      (Offline.genBody P o tsm in0 s).events = s.events ++
        ([Ev.train, Ev.test, Ev.fitnessAppend, Ev.stepsAppend] ++
          (if ret then [Ev.earlyReturn] else (if sel then [Ev.select] else []) ++ (if sav then [Ev.save] else []))) ∧
      (Offline.genBody P o tsm in0 s).halted = ret := by
  have h4 : ∀ t : St μ ε, ∃ b : Bool, (Offline.S4 P o tsm in0 t).events = t.events ++ (if b then [Ev.earlyReturn] else []) ∧
      (Offline.S4 P o tsm in0 t).halted = (b || t.halted) := by
    intro t
    refine ⟨P.has_target && (in0 && decide ((t.pop.headD default).past.length + 1 ≥ 100)), ?_⟩
    simp only [Offline.S4]
    cases P.has_target <;> cases (in0 && decide ((t.pop.headD default).past.length + 1 ≥ 100)) <;> simp
  have h5 : ∀ t : St μ ε, ∃ b : Bool, (Offline.S5 P o tsm in0 t).events = t.events ++ (if b then [Ev.select] else []) := by
    intro t
    refine ⟨P.has_tournament && P.has_mutation, ?_⟩
    simp only [Offline.S5]
    cases (P.has_tournament && P.has_mutation) <;> simp
  have h6 : ∀ t : St μ ε, ∃ b : Bool, (Offline.S6 P o tsm in0 t).events = t.events ++ (if b then [Ev.save] else []) := by
    intro t
    refine ⟨P.has_checkpoint && decide ((t.pop.headD default).cur / P.checkpoint > t.ckpts), ?_⟩
    simp only [Offline.S6]
    cases P.has_checkpoint <;> cases (decide ((t.pop.headD default).cur / P.checkpoint > t.ckpts)) <;> simp
  have h03 : ∀ t : St μ ε, (Offline.S3 P o tsm in0 (Offline.S2 P o tsm in0 (Offline.S1 P o tsm in0 (Offline.S0 P o tsm in0 t)))).events =
      t.events ++ [Ev.train, Ev.test, Ev.fitnessAppend, Ev.stepsAppend] ∧
      (Offline.S3 P o tsm in0 (Offline.S2 P o tsm in0 (Offline.S1 P o tsm in0 (Offline.S0 P o tsm in0 t)))).halted = t.halted := by
    intro t; simp [Offline.S0, Offline.S1, Offline.S2, Offline.S3]
  simp only [Offline.genBody]
  generalize ht : Offline.S3 P o tsm in0 _ = t
  obtain ⟨e03, hh⟩ := h03 s
  rw [ht] at e03 hh
  obtain ⟨b4, e4, hh4⟩ := h4 t
  rw [hh, hs, Bool.or_false] at hh4
  cases b4
  · obtain ⟨b5, e5⟩ := h5 (Offline.S4 P o tsm in0 t)
    obtain ⟨b6, e6⟩ := h6 (Offline.S5 P o tsm in0 (Offline.S4 P o tsm in0 t))
    refine ⟨false, b5, b6, ?_, ?_⟩
    · rw [hh4]; simp only [cond_false]; rw [e6, e5, e4, e03]; simp
    · rw [hh4]; simp only [cond_false, Offline.S5, Offline.S6]; exact hh4
  · refine ⟨true, false, false, ?_, ?_⟩
    · rw [hh4]; simp only [cond_true]; rw [e4, e03]; simp
    · rw [hh4]; simp only [cond_true]; exact hh4

theorem gen_bandit_events {μ ε} (P : Params) (o : MemOps μ) (tsm : ε → List Agent → ε × List Agent) (in0 : Bool)
    (s : St μ ε) (hs : s.halted = false) :
    ∃ ret sel sav : Bool,
      (Bandit.genBody P o tsm in0 s).events = s.events ++
        ([Ev.train, Ev.test, Ev.fitnessAppend, Ev.stepsAppend] ++
          (if ret then [Ev.earlyReturn] else (if sel then [Ev.select] else []) ++ (if sav then [Ev.save] else []))) ∧
      (Bandit.genBody P o tsm in0 s).halted = ret := by
  have h4 : ∀ t : St μ ε, ∃ b : Bool, (Bandit.S4 P o tsm in0 t).events = t.events ++ (if b then [Ev.earlyReturn] else []) ∧
      (Bandit.S4 P o tsm in0 t).halted = (b || t.halted) := by
    intro t
    refine ⟨P.has_target && (in0 && decide ((t.pop.headD default).past.length + 1 ≥ 100)), ?_⟩
    simp only [Bandit.S4]
    cases P.has_target <;> cases (in0 && decide ((t.pop.headD default).past.length + 1 ≥ 100)) <;> simp
  have h5 : ∀ t : St μ ε, ∃ b : Bool, (Bandit.S5 P o tsm in0 t).events = t.events ++ (if b then [Ev.select] else []) := by
    intro t
    refine ⟨(P.has_tournament && P.has_mutation) && decide ((t.pop.headD default).cur / P.evo_steps > t.evoCount), ?_⟩
    simp only [Bandit.S5]
    cases (P.has_tournament && P.has_mutation) <;> cases (decide ((t.pop.headD default).cur / P.evo_steps > t.evoCount)) <;> simp
  have h6 : ∀ t : St μ ε, ∃ b : Bool, (Bandit.S6 P o tsm in0 t).events = t.events ++ (if b then [Ev.save] else []) := by
    intro t
    refine ⟨P.has_checkpoint && decide ((t.pop.headD default).cur / P.checkpoint > t.ckpts), ?_⟩
    simp only [Bandit.S6]
    cases P.has_checkpoint <;> cases (decide ((t.pop.headD default).cur / P.checkpoint > t.ckpts)) <;> simp
  have h03 : ∀ t : St μ ε, (Bandit.S3 P o tsm in0 (Bandit.S2 P o tsm in0 (Bandit.S1 P o tsm in0 (Bandit.S0 P o tsm in0 t)))).events =
      t.events ++ [Ev.train, Ev.test, Ev.fitnessAppend, Ev.stepsAppend] ∧
      (Bandit.S3 P o tsm in0 (Bandit.S2 P o tsm in0 (Bandit.S1 P o tsm in0 (Bandit.S0 P o tsm in0 t)))).halted = t.halted := by
    intro t; simp [Bandit.S0, Bandit.S1, Bandit.S2, Bandit.S3]
  simp only [Bandit.genBody]
  generalize ht : Bandit.S3 P o tsm in0 _ = t
  obtain ⟨e03, hh⟩ := h03 s
  rw [ht] at e03 hh
  obtain ⟨b4, e4, hh4⟩ := h4 t
  rw [hh, hs, Bool.or_false] at hh4
  cases b4
  · obtain ⟨b5, e5⟩ := h5 (Bandit.S4 P o tsm in0 t)
    obtain ⟨b6, e6⟩ := h6 (Bandit.S5 P o tsm in0 (Bandit.S4 P o tsm in0 t))
    refine ⟨false, b5, b6, ?_, ?_⟩
    · rw [hh4]; simp only [cond_false]; rw [e6, e5, e4, e03]; simp
    · rw [hh4]; simp only [cond_false, Bandit.S5, Bandit.S6]; exact hh4
  · refine ⟨true, false, false, ?_, ?_⟩
    · rw [hh4]; simp only [cond_true]; rw [e4, e03]; simp
    · rw [hh4]; simp only [cond_true]; exact hh4

theorem gen_maoff_events {μ ε} (P : Params) (o : MemOps μ) (tsm : ε → List Agent → ε × List Agent) (in0 : Bool)
    (s : St μ ε) (hs : s.halted = false) :
    ∃ ret sel sav : Bool,
      (MaOff.genBody P o tsm in0 s).events = s.events ++
        ([Ev.train, Ev.test, Ev.fitnessAppend, Ev.stepsAppend] ++
          (if ret then [Ev.earlyReturn] else (if sel then [Ev.select] else []) ++ (if sav then [Ev.save] else []))) ∧
      (MaOff.genBody P o tsm in0 s).halted = ret := by
  have h4 : ∀ t : St μ ε, ∃ b : Bool, (MaOff.S4 P o tsm in0 t).events = t.events ++ (if b then [Ev.earlyReturn] else []) ∧
      (MaOff.S4 P o tsm in0 t).halted = (b || t.halted) := by
    intro t
    refine ⟨P.has_target && (in0 && decide ((t.pop.headD default).past.length + 1 ≥ 100)), ?_⟩
    simp only [MaOff.S4]
    cases P.has_target <;> cases (in0 && decide ((t.pop.headD default).past.length + 1 ≥ 100)) <;> simp
  have h5 : ∀ t : St μ ε, ∃ b : Bool, (MaOff.S5 P o tsm in0 t).events = t.events ++ (if b then [Ev.select] else []) := by
    intro t
    refine ⟨P.has_tournament && P.has_mutation, ?_⟩
    simp only [MaOff.S5]
    cases (P.has_tournament && P.has_mutation) <;> simp
  have h6 : ∀ t : St μ ε, ∃ b : Bool, (MaOff.S6 P o tsm in0 t).events = t.events ++ (if b then [Ev.save] else []) := by
    intro t
    refine ⟨P.has_checkpoint && decide ((t.pop.headD default).cur / P.checkpoint > t.ckpts), ?_⟩
    simp only [MaOff.S6]
    cases P.has_checkpoint <;> cases (decide ((t.pop.headD default).cur / P.checkpoint > t.ckpts)) <;> simp
  have h03 : ∀ t : St μ ε, (MaOff.S3 P o tsm in0 (MaOff.S2 P o tsm in0 (MaOff.S1 P o tsm in0 (MaOff.S0 P o tsm in0 t)))).events =
      t.events ++ [Ev.train, Ev.test, Ev.fitnessAppend, Ev.stepsAppend] ∧
      (MaOff.S3 P o tsm in0 (MaOff.S2 P o tsm in0 (MaOff.S1 P o tsm in0 (MaOff.S0 P o tsm in0 t)))).halted = t.halted := by
    intro t; simp [MaOff.S0, MaOff.S1, MaOff.S2, MaOff.S3]
  simp only [MaOff.genBody]
  generalize ht : MaOff.S3 P o tsm in0 _ = t
  obtain ⟨e03, hh⟩ := h03 s
  rw [ht] at e03 hh
  obtain ⟨b4, e4, hh4⟩ := h4 t
  rw [hh, hs, Bool.or_false] at hh4
  cases b4
  · obtain ⟨b5, e5⟩ := h5 (MaOff.S4 P o tsm in0 t)
    obtain ⟨b6, e6⟩ := h6 (MaOff.S5 P o tsm in0 (MaOff.S4 P o tsm in0 t))
    refine ⟨false, b5, b6, ?_, ?_⟩
    · rw [hh4]; simp only [cond_false]; rw [e6, e5, e4, e03]; simp
    · rw [hh4]; simp only [cond_false, MaOff.S5, MaOff.S6]; exact hh4
  · refine ⟨true, false, false, ?_, ?_⟩
    · rw [hh4]; simp only [cond_true]; rw [e4, e03]; simp
    · rw [hh4]; simp only [cond_true]; exact hh4

theorem gen_maon_events {μ ε} (P : Params) (o : MemOps μ) (tsm : ε → List Agent → ε × List Agent) (in0 : Bool)
    (s : St μ ε) (hs : s.halted = false) :
    ∃ ret sel sav : Bool,
      (MaOn.genBody P o tsm in0 s).events = s.events ++
        ([Ev.train, Ev.test, Ev.fitnessAppend, Ev.stepsAppend] ++
          (if ret then [Ev.earlyReturn] else (if sel then [Ev.select] else []) ++ (if sav then [Ev.save] else []))) ∧
      (MaOn.genBody P o tsm in0 s).halted = ret := by
  have h4 : ∀ t : St μ ε, ∃ b : Bool, (MaOn.S4 P o tsm in0 t).events = t.events ++ (if b then [Ev.earlyReturn] else []) ∧
      (MaOn.S4 P o tsm in0 t).halted = (b || t.halted) := by
    intro t
    refine ⟨P.has_target && (in0 && decide ((t.pop.headD default).past.length + 1 ≥ 100)), ?_⟩
    simp only [MaOn.S4]
    cases P.has_target <;> cases (in0 && decide ((t.pop.headD default).past.length + 1 ≥ 100)) <;> simp
  have h5 : ∀ t : St μ ε, ∃ b : Bool, (MaOn.S5 P o tsm in0 t).events = t.events ++ (if b then [Ev.select] else []) := by
    intro t
    refine ⟨P.has_tournament && P.has_mutation, ?_⟩
    simp only [MaOn.S5]
    cases (P.has_tournament && P.has_mutation) <;> simp
  have h6 : ∀ t : St μ ε, ∃ b : Bool, (MaOn.S6 P o tsm in0 t).events = t.events ++ (if b then [Ev.save] else []) := by
    intro t
    refine ⟨P.has_checkpoint && decide ((t.pop.headD default).cur / P.checkpoint > t.ckpts), ?_⟩
    simp only [MaOn.S6]
    cases P.has_checkpoint <;> cases (decide ((t.pop.headD default).cur / P.checkpoint > t.ckpts)) <;> simp
  have h03 : ∀ t : St μ ε, (MaOn.S3 P o tsm in0 (MaOn.S2 P o tsm in0 (MaOn.S1 P o tsm in0 (MaOn.S0 P o tsm in0 t)))).events =
      t.events ++ [Ev.train, Ev.test, Ev.fitnessAppend, Ev.stepsAppend] ∧
      (MaOn.S3 P o tsm in0 (MaOn.S2 P o tsm in0 (MaOn.S1 P o tsm in0 (MaOn.S0 P o tsm in0 t)))).halted = t.halted := by
    intro t; simp [MaOn.S0, MaOn.S1, MaOn.S2, MaOn.S3]
  simp only [MaOn.genBody]
  generalize ht : MaOn.S3 P o tsm in0 _ = t
  obtain ⟨e03, hh⟩ := h03 s
  rw [ht] at e03 hh
  obtain ⟨b4, e4, hh4⟩ := h4 t
  rw [hh, hs, Bool.or_false] at hh4
  cases b4
  · obtain ⟨b5, e5⟩ := h5 (MaOn.S4 P o tsm in0 t)
    obtain ⟨b6, e6⟩ := h6 (MaOn.S5 P o tsm in0 (MaOn.S4 P o tsm in0 t))
    refine ⟨false, b5, b6, ?_, ?_⟩
    · rw [hh4]; simp only [cond_false]; rw [e6, e5, e4, e03]; simp
    · rw [hh4]; simp only [cond_false, MaOn.S5, MaOn.S6]; exact hh4
  · refine ⟨true, false, false, ?_, ?_⟩
    · rw [hh4]; simp only [cond_true]; rw [e4, e03]; simp
    · rw [hh4]; simp only [cond_true]; exact hh4

/-! ## the six generated loops behind one name -/

/-- one trip round the `while` of the training function of kind `k`, as generated from its source -/
def genStep {μ ε} (k : Loop.Kind) (P : Params) (o : MemOps μ) (i : GenIn ε) (s : St μ ε) : St μ ε :=
  match k with
  | .off => Off.whileStep P o i s
  | .on => On.whileStep P o i s
  | .offline => Offline.whileStep P o i s
  | .bandit => Bandit.whileStep P o i s
  | .maoff => MaOff.whileStep P o i s
  | .maon => MaOn.whileStep P o i s

/-- the generated training function of kind `k` run on the per-generation inputs `ins` -/
def genRun {μ ε} (k : Loop.Kind) (P : Params) (o : MemOps μ) (s : St μ ε) (ins : List (GenIn ε)) : St μ ε :=
  match k with
  | .off => Off.run P o s ins
  | .on => On.run P o s ins
  | .offline => Offline.run P o s ins
  | .bandit => Bandit.run P o s ins
  | .maoff => MaOff.run P o s ins
  | .maon => MaOn.run P o s ins

/-- the generated `while` test of kind `k` -/
def genCond (k : Loop.Kind) (P : Params) (pop : List Agent) : Bool :=
  match k with
  | .off => Off.cond P pop
  | .on => On.cond P pop
  | .offline => Offline.cond P pop
  | .bandit => Bandit.cond P pop
  | .maoff => MaOff.cond P pop
  | .maon => MaOn.cond P pop

theorem genRun_cons {μ ε} (k : Loop.Kind) (P : Params) (o : MemOps μ) (s : St μ ε) (i : GenIn ε) (ins : List (GenIn ε)) :
    genRun k P o s (i :: ins) = genRun k P o (genStep k P o i s) ins := by
  cases k <;> rfl

theorem genCond_eq (c : Loop.Cfg) (tm tg : Bool) (pop : List Agent) :
    genCond c.kind (params c tm tg) pop = Loop.cond c (pop.map (toM c.kind)) := by
  cases hk : c.kind
  · have := gen_off_cond_eq c hk tm tg pop; rw [hk] at this; exact this
  · have := gen_on_cond_eq c hk tm tg pop; rw [hk] at this; exact this
  · have := gen_offline_cond_eq c hk tm tg pop; rw [hk] at this; exact this
  · have := gen_bandit_cond_eq c hk tm tg pop; rw [hk] at this; exact this
  · have := gen_maoff_cond_eq c hk tm tg pop; rw [hk] at this; exact this
  · have := gen_maon_cond_eq c hk tm tg pop; rw [hk] at this; exact this

theorem genStep_eq (c : Loop.Cfg) (i : Loop.GenIn) (s : St Loop.Mem Nat) :
    stM c.kind (genStep c.kind (params c i.sel.isSome true) (ops c) (genIn c i) s) = Loop.whileStep c (stM c.kind s) i := by
  cases hk : c.kind
  · have := gen_off_whileStep_eq c hk i s; rw [hk] at this; exact this
  · have := gen_on_whileStep_eq c hk i s; rw [hk] at this; exact this
  · have := gen_offline_whileStep_eq c hk i s; rw [hk] at this; exact this
  · have := gen_bandit_whileStep_eq c hk i s; rw [hk] at this; exact this
  · have := gen_maoff_whileStep_eq c hk i s; rw [hk] at this; exact this
  · have := gen_maon_whileStep_eq c hk i s; rw [hk] at this; exact this

/-- **all six training functions as written = the model** -/
theorem genRun_eq (c : Loop.Cfg) (tm : Bool) (ins : List Loop.GenIn) (s : St Loop.Mem Nat)
    (h : ∀ i ∈ ins, i.sel.isSome = tm) :
    stM c.kind (genRun c.kind (params c tm true) (ops c) s (ins.map (genIn c))) = Loop.run c (stM c.kind s) ins := by
  cases hk : c.kind
  · have := gen_off_run_eq c hk tm ins s h; rw [hk] at this; exact this
  · have := gen_on_run_eq c hk tm ins s h; rw [hk] at this; exact this
  · have := gen_offline_run_eq c hk tm ins s h; rw [hk] at this; exact this
  · have := gen_bandit_run_eq c hk tm ins s h; rw [hk] at this; exact this
  · have := gen_maoff_run_eq c hk tm ins s h; rw [hk] at this; exact this
  · have := gen_maon_run_eq c hk tm ins s h; rw [hk] at this; exact this

theorem genStep_stop {μ ε} (k : Loop.Kind) (P : Params) (o : MemOps μ) (i : GenIn ε) (s : St μ ε)
    (h : (s.halted || !(genCond k P s.pop)) = true) : genStep k P o i s = s := by
  cases k
  · exact gen_off_whileStep_stop P o i s h
  · exact gen_on_whileStep_stop P o i s h
  · exact gen_offline_whileStep_stop P o i s h
  · exact gen_bandit_whileStep_stop P o i s h
  · exact gen_maoff_whileStep_stop P o i s h
  · exact gen_maon_whileStep_stop P o i s h

theorem genRun_stop {μ ε} (k : Loop.Kind) (P : Params) (o : MemOps μ) (s : St μ ε)
    (h : (s.halted || !(genCond k P s.pop)) = true) (ins : List (GenIn ε)) : genRun k P o s ins = s := by
  cases k
  · exact gen_off_run_stop P o s h ins
  · exact gen_on_run_stop P o s h ins
  · exact gen_offline_run_stop P o s h ins
  · exact gen_bandit_run_stop P o s h ins
  · exact gen_maoff_run_stop P o s h ins
  · exact gen_maon_run_stop P o s h ins

/-- the events of one executed trip of any of the six generated loops: every agent trains, every agent is tested, the
    fitness list is appended, every `steps` list is extended — then either the early return, or (selection +
    mutation)? followed by (checkpoint)? -/
theorem genStep_events {μ ε} (k : Loop.Kind) (P : Params) (o : MemOps μ) (i : GenIn ε) (s : St μ ε)
    (hs : s.halted = false) (hc : genCond k P s.pop = true) :
    ∃ ret sel sav : Bool,
      (genStep k P o i s).events = [Ev.train, Ev.test, Ev.fitnessAppend, Ev.stepsAppend] ++
          (if ret then [Ev.earlyReturn] else (if sel then [Ev.select] else []) ++ (if sav then [Ev.save] else [])) ∧
      (genStep k P o i s).halted = ret := by
  cases k
  · simp only [genStep, genCond] at hc ⊢
    unfold Off.whileStep
    have hcnd : (s.halted || !(Off.cond P s.pop)) = false := by rw [hs, hc]; rfl
    rw [hcnd]
    simp only [cond_false]
    obtain ⟨r, a, b, h1, h2⟩ := gen_off_events P o i.tsm i.in0 { s with pop := applyHp s.pop i.hp, events := [] } hs
    exact ⟨r, a, b, by rw [h1]; rfl, h2⟩
  · simp only [genStep, genCond] at hc ⊢
    unfold On.whileStep
    have hcnd : (s.halted || !(On.cond P s.pop)) = false := by rw [hs, hc]; rfl
    rw [hcnd]
    simp only [cond_false]
    obtain ⟨r, a, b, h1, h2⟩ := gen_on_events P o i.tsm i.in0 { s with pop := applyHp s.pop i.hp, events := [] } hs
    exact ⟨r, a, b, by rw [h1]; rfl, h2⟩
  · simp only [genStep, genCond] at hc ⊢
    unfold Offline.whileStep
    have hcnd : (s.halted || !(Offline.cond P s.pop)) = false := by rw [hs, hc]; rfl
    rw [hcnd]
    simp only [cond_false]
    obtain ⟨r, a, b, h1, h2⟩ := gen_offline_events P o i.tsm i.in0 { s with pop := applyHp s.pop i.hp, events := [] } hs
    exact ⟨r, a, b, by rw [h1]; rfl, h2⟩
  · simp only [genStep, genCond] at hc ⊢
    unfold Bandit.whileStep
    have hcnd : (s.halted || !(Bandit.cond P s.pop)) = false := by rw [hs, hc]; rfl
    rw [hcnd]
    simp only [cond_false]
    obtain ⟨r, a, b, h1, h2⟩ := gen_bandit_events P o i.tsm i.in0 { s with pop := applyHp s.pop i.hp, events := [] } hs
    exact ⟨r, a, b, by rw [h1]; rfl, h2⟩
  · simp only [genStep, genCond] at hc ⊢
    unfold MaOff.whileStep
    have hcnd : (s.halted || !(MaOff.cond P s.pop)) = false := by rw [hs, hc]; rfl
    rw [hcnd]
    simp only [cond_false]
    obtain ⟨r, a, b, h1, h2⟩ := gen_maoff_events P o i.tsm i.in0 { s with pop := applyHp s.pop i.hp, events := [] } hs
    exact ⟨r, a, b, by rw [h1]; rfl, h2⟩
  · simp only [genStep, genCond] at hc ⊢
    unfold MaOn.whileStep
    have hcnd : (s.halted || !(MaOn.cond P s.pop)) = false := by rw [hs, hc]; rfl
    rw [hcnd]
    simp only [cond_false]
    obtain ⟨r, a, b, h1, h2⟩ := gen_maon_events P o i.tsm i.in0 { s with pop := applyHp s.pop i.hp, events := [] } hs
    exact ⟨r, a, b, by rw [h1]; rfl, h2⟩

end LoopGenEq
