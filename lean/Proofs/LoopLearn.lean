import Proofs.LoopRoll

/-! Helper lemmas for C20: the closed formula for the number of learn calls of one rollout. -/
namespace Loop

theorem ceilDiv_le_iff (a b k : Nat) (hb : 0 < b) : ceilDiv a b ≤ k ↔ a ≤ k * b := by
  unfold ceilDiv
  rw [Nat.div_le_iff_le_mul_add_pred hb, Nat.mul_comm b k]
  generalize k * b = p
  omega

theorem ceilDiv_mono (a b k : Nat) (h : a ≤ b) : ceilDiv a k ≤ ceilDiv b k := by
  unfold ceilDiv
  exact Nat.div_le_div_right (by omega)

theorem ceilDiv_succ (n k : Nat) (hk : 0 < k) :
    ceilDiv (n + 1) k = ceilDiv n k + (if n % k = 0 then 1 else 0) := by
  unfold ceilDiv
  have h := Nat.div_add_mod n k
  have hr := Nat.mod_lt n hk
  generalize n / k = q at h
  generalize n % k = r at h hr ⊢
  subst h
  by_cases h0 : r = 0
  · subst h0
    simp only [if_true]
    have e1 : (k * q + 0 + 1 + k - 1) = k * (q + 1) + 0 := by rw [Nat.mul_succ]; omega
    have e2 : (k * q + 0 + k - 1) = k * q + (k - 1) := by omega
    rw [e1, e2, Nat.mul_add_div hk, Nat.mul_add_div hk, Nat.div_eq_of_lt (by omega : k - 1 < k)]
    simp
  · simp only [h0, if_false, Nat.add_zero]
    have e1 : (k * q + r + 1 + k - 1) = k * (q + 1) + r := by rw [Nat.mul_succ]; omega
    have e2 : (k * q + r + k - 1) = k * (q + 1) + (r - 1) := by rw [Nat.mul_succ]; omega
    rw [e1, e2, Nat.mul_add_div hk, Nat.mul_add_div hk, Nat.div_eq_of_lt hr,
      Nat.div_eq_of_lt (by omega : r - 1 < k)]

/-- the gate `thr ≤ m0 + (n+1)·ne` opens exactly at iteration `firstOpen` -/
theorem open_iff (thr m0 ne n : Nat) (hne : 0 < ne) :
    thr ≤ m0 + (n + 1) * ne ↔ firstOpen thr m0 ne ≤ n := by
  unfold firstOpen
  have h := ceilDiv_le_iff (thr - m0) ne (n + 1) hne
  generalize ceilDiv (thr - m0) ne = cd at h
  generalize (n + 1) * ne = p at h ⊢
  omega

/-- closed formula after `n` iterations (the rollout of a generation has `n = evo_steps // num_envs`) -/
def learnCallsOffN (c : Cfg) (a : Agent) (m0 n : Nat) : Nat :=
  let thr := max a.bs (c.delay + 1)
  if c.cap < thr then 0 else
  let i0 := min (firstOpen thr m0 c.numEnvs) n
  if c.numEnvs < a.ls then multiplesIn (a.ls / c.numEnvs) i0 n
  else (n - i0) * (c.numEnvs / a.ls)

theorem learnCallsOff_eq (c : Cfg) (a : Agent) (m0 : Nat) :
    learnCallsOff c a m0 = learnCallsOffN c a m0 (c.evoSteps / c.numEnvs) := rfl

theorem memAdd_off_len (c : Cfg) (m : Mem) (hk : c.kind = .off) (hn : c.nStep < 2) :
    (memAdd c m).len = min (m.len + c.numEnvs) c.cap := by
  unfold memAdd
  rw [hk]
  have : ¬ (2 ≤ c.nStep ∧ m.pushes + 1 < c.nStep) := by omega
  simp [this]

/-- one more iteration adds exactly the learn calls of that iteration to the closed formula -/
theorem learnCallsOffN_succ (c : Cfg) (a : Agent) (m0 n : Nat) (hk : c.kind = .off)
    (hne : 0 < c.numEnvs) (m' : Mem) (hm' : m'.len = min (m0 + (n + 1) * c.numEnvs) c.cap) :
    learnCallsOffN c a m0 (n + 1) = learnCallsOffN c a m0 n + learnsAt c a m' n := by
  have hopen := open_iff (max a.bs (c.delay + 1)) m0 c.numEnvs n hne
  unfold learnCallsOffN learnsAt
  simp only [hk, hm', show (Kind.off = Kind.maoff) = False from by simp, if_false]
  generalize hthr : max a.bs (c.delay + 1) = thr at hopen ⊢
  generalize hi0 : firstOpen thr m0 c.numEnvs = i0 at hopen ⊢
  generalize hp : (n + 1) * c.numEnvs = p at hopen ⊢
  generalize hL : min (m0 + p) c.cap = L
  have gate : (a.bs ≤ L ∧ c.delay < L) ↔ (thr ≤ c.cap ∧ i0 ≤ n) := by
    rw [← hopen]; omega
  by_cases hcap : c.cap < thr
  · have g : ¬ (a.bs ≤ L ∧ c.delay < L) := by rw [gate]; omega
    simp only [hcap, if_true, g, if_false]
    split <;> simp
  · simp only [hcap, if_false]
    by_cases hin : i0 ≤ n
    · have g : (a.bs ≤ L ∧ c.delay < L) := gate.mpr ⟨by omega, hin⟩
      rw [Nat.min_eq_left hin, Nat.min_eq_left (by omega : i0 ≤ n + 1)]
      by_cases hls : c.numEnvs < a.ls
      · have hkpos : 0 < a.ls / c.numEnvs := Nat.div_pos (by omega) hne
        have h1 := ceilDiv_succ n (a.ls / c.numEnvs) hkpos
        have h2 := ceilDiv_mono i0 n (a.ls / c.numEnvs) hin
        simp only [hls, if_true, multiplesIn, g.1, g.2, and_true]
        rw [h1]
        split <;> omega
      · simp only [hls, if_false, g.1, g.2, and_self, if_true]
        have : n + 1 - i0 = (n - i0) + 1 := by omega
        rw [this, Nat.add_mul]; simp
    · have g : ¬ (a.bs ≤ L ∧ c.delay < L) := by rw [gate]; omega
      rw [Nat.min_eq_right (by omega : n ≤ i0), Nat.min_eq_right (by omega : n + 1 ≤ i0)]
      simp only [g, if_false, multiplesIn]
      split <;> simp

/-- `train_off_policy`, uniform or prioritised memory (no n-step window): memory length and learn
    calls after `n` rollout iterations -/
theorem iterate_offStep_learns (c : Cfg) (a : Agent) (m : Mem) (hk : c.kind = .off) (hn : c.nStep < 2)
    (hne : 0 < c.numEnvs) (hcap : m.len ≤ c.cap) (n : Nat) :
    (iterate (offStep c a) n { m := m }).m.len = min (m.len + n * c.numEnvs) c.cap ∧
    (iterate (offStep c a) n { m := m }).learns = learnCallsOffN c a m.len n := by
  induction n with
  | zero =>
    refine ⟨by simp [iterate]; omega, ?_⟩
    simp only [iterate, learnCallsOffN, multiplesIn]
    split
    · rfl
    · split <;> simp
  | succ n ih =>
    obtain ⟨h1, h2⟩ := ih
    have hlen : (memAdd c (iterate (offStep c a) n { m := m }).m).len =
        min (m.len + (n + 1) * c.numEnvs) c.cap := by
      rw [memAdd_off_len c _ hk hn, h1, Nat.succ_mul]
      generalize n * c.numEnvs = p
      omega
    refine ⟨?_, ?_⟩
    · simp only [iterate_succ, offStep]; exact hlen
    · simp only [iterate_succ, offStep, h2]
      exact (learnCallsOffN_succ c a m.len n hk hne _ hlen).symm

end Loop
