import Mathlib.Tactic.Ring
import Model.Loop

/-! Helper lemmas for C20: what one agent's rollout does to the counters, and that the agents'
    bookkeeping does not depend on the shared memory (`trainPop … = map bump`). -/
namespace Loop

theorem iterate_succ {α} (f : Nat → α → α) (n : Nat) (x : α) :
    iterate f (n + 1) x = f n (iterate f n x) := rfl

/-- the three counters of a rollout after `n` iterations of the off-policy body -/
theorem iterate_offStep (c : Cfg) (a : Agent) (n : Nat) (r : Roll) :
    (iterate (offStep c a) n r).steps = r.steps + n * c.numEnvs ∧
    (iterate (offStep c a) n r).env = r.env + n * c.numEnvs ∧
    (iterate (offStep c a) n r).its = r.its + n := by
  induction n with
  | zero => simp [iterate]
  | succ n ih =>
    obtain ⟨h1, h2, h3⟩ := ih
    simp only [iterate_succ, offStep, h1, h2, h3]
    refine ⟨by ring, by ring, by ring⟩

theorem iterate_onInner (c : Cfg) (n : Nat) (r : Roll) :
    (iterate (onInner c) n r).steps = r.steps + n * c.numEnvs ∧
    (iterate (onInner c) n r).env = r.env + n * c.numEnvs ∧
    (iterate (onInner c) n r).its = r.its + n ∧
    (iterate (onInner c) n r).learns = r.learns ∧
    (iterate (onInner c) n r).m = r.m := by
  induction n with
  | zero => simp [iterate]
  | succ n ih =>
    obtain ⟨h1, h2, h3, h4, h5⟩ := ih
    simp only [iterate_succ, onInner, h1, h2, h3, h4, h5]
    refine ⟨by ring, by ring, by ring, trivial, trivial⟩

theorem iterate_onOuter (c : Cfg) (a : Agent) (n : Nat) (r : Roll) :
    (iterate (onOuter c a) n r).steps = r.steps + n * (ceilDiv a.ls c.numEnvs * c.numEnvs) ∧
    (iterate (onOuter c a) n r).env = r.env + n * (ceilDiv a.ls c.numEnvs * c.numEnvs) ∧
    (iterate (onOuter c a) n r).its = r.its + n * ceilDiv a.ls c.numEnvs ∧
    (iterate (onOuter c a) n r).learns = r.learns + n ∧
    (iterate (onOuter c a) n r).m = r.m := by
  induction n with
  | zero => simp [iterate]
  | succ n ih =>
    obtain ⟨h1, h2, h3, h4, h5⟩ := ih
    obtain ⟨g1, g2, g3, g4, g5⟩ := iterate_onInner c (ceilDiv a.ls c.numEnvs) (iterate (onOuter c a) n r)
    simp only [iterate_succ, onOuter, g1, g2, g3, g4, g5, h1, h2, h3, h4, h5]
    refine ⟨by ring, by ring, by ring, by ring, trivial⟩

theorem iterate_offlineStep (n : Nat) (r : Roll) :
    (iterate offlineStep n r).env = r.env + n ∧ (iterate offlineStep n r).its = r.its + n ∧
    (iterate offlineStep n r).learns = r.learns + n ∧ (iterate offlineStep n r).m = r.m := by
  induction n with
  | zero => simp [iterate]
  | succ n ih =>
    obtain ⟨h1, h2, h3, h4⟩ := ih
    simp only [iterate_succ, offlineStep, h1, h2, h3, h4]
    refine ⟨by ring, by ring, by ring, trivial⟩

theorem iterate_banditStep (c : Cfg) (a : Agent) (n : Nat) (r : Roll) :
    (iterate (banditStep c a) n r).env = r.env + n ∧ (iterate (banditStep c a) n r).its = r.its + n := by
  induction n with
  | zero => simp [iterate]
  | succ n ih =>
    obtain ⟨h1, h2⟩ := ih
    simp only [iterate_succ, banditStep, h1, h2]
    refine ⟨by ring, by ring⟩

/-- what a rollout adds to `agent.steps[-1]` equals the environment steps it performed, which is
    `stride` per iteration, for exactly `agentIters` iterations -/
theorem rollout_spec (c : Cfg) (a : Agent) (m : Mem) :
    (rollout c a m).steps = (rollout c a m).env ∧
    (rollout c a m).env = stride c * (rollout c a m).its ∧
    (rollout c a m).its = agentIters c a := by
  unfold rollout stride agentIters
  cases hk : c.kind
  · obtain ⟨h1, h2, h3⟩ := iterate_offStep c a (c.evoSteps / c.numEnvs) { m := m }
    simp only [h1, h2, h3]; refine ⟨trivial, by ring, by ring⟩
  · obtain ⟨h1, h2, h3, _, _⟩ := iterate_onOuter c a (ceilDiv c.evoSteps a.ls) { m := m }
    simp only [h1, h2, h3]; refine ⟨trivial, by ring, by ring⟩
  · obtain ⟨h1, h2, _, _⟩ := iterate_offlineStep c.evoSteps { m := m }
    simp [h1, h2]
  · obtain ⟨h1, h2⟩ := iterate_banditStep c a c.episodeSteps { m := m }
    simp [h1, h2]
  · obtain ⟨h1, h2, h3⟩ := iterate_offStep c a (c.evoSteps / c.numEnvs) { m := m }
    simp only [h1, h2, h3]; refine ⟨trivial, by ring, by ring⟩
  · obtain ⟨h1, h2, h3, _, _⟩ := iterate_onOuter c a (ceilDiv c.evoSteps a.ls) { m := m }
    simp only [h1, h2, h3]; refine ⟨trivial, by ring, by ring⟩

/-- the effect of one generation's training on one agent's counters -/
def bump (c : Cfg) (a : Agent) : Agent :=
  { a with cur := a.cur + stride c * agentIters c a, env := a.env + stride c * agentIters c a,
           its := a.its + agentIters c a }

theorem trainAgent_fst (c : Cfg) (a : Agent) (m : Mem) : (trainAgent c a m).1 = bump c a := by
  obtain ⟨h1, h2, h3⟩ := rollout_spec c a m
  simp only [trainAgent, bump]
  rw [h1, h2, h3]

/-- the agents' counters after training do not depend on the shared memory -/
theorem trainPop_fst (c : Cfg) : ∀ (pop : List Agent) (m : Mem), (trainPop c pop m).1 = pop.map (bump c)
  | [], _ => rfl
  | a :: as, m => by
    simp only [trainPop, List.map_cons]
    rw [trainAgent_fst, trainPop_fst c as]

theorem trainPop_learns_length (c : Cfg) : ∀ (pop : List Agent) (m : Mem),
    (trainPop c pop m).2.2.length = pop.length
  | [], _ => rfl
  | a :: as, m => by
    simp only [trainPop, List.length_cons]
    rw [trainPop_learns_length c as]

end Loop
