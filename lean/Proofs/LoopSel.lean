import Mathlib.Data.List.Nodup
import Proofs.LoopRoll

/-! Helper lemmas for C20: selection / mutation keep the members' counters, preserve the size and
    give pairwise distinct indices; the elite slot. -/
namespace Loop

theorem foldl_max_spec : ∀ (r : List Agent) (m : Nat),
    m ≤ r.foldl (fun m b => max m b.index) m ∧
    ∀ a ∈ r, a.index ≤ r.foldl (fun m b => max m b.index) m
  | [], m => by simp
  | b :: r, m => by
    obtain ⟨h1, h2⟩ := foldl_max_spec r (max m b.index)
    simp only [List.foldl_cons]
    refine ⟨le_trans (le_max_left _ _) h1, ?_⟩
    intro a ha
    rcases List.mem_cons.mp ha with rfl | ha
    · exact le_trans (le_max_right _ _) h1
    · exact h2 a ha

theorem le_maxIndex (pop : List Agent) : ∀ a ∈ pop, a.index ≤ maxIndex pop :=
  (foldl_max_spec pop 0).2

/-- every child is a member of the old population with a new index above `mx` -/
theorem children_mem (pop : List Agent) : ∀ (ps : List Nat) (mx : Nat) (x : Agent),
    x ∈ children pop mx ps → ∃ a ∈ pop, ∃ i, mx < i ∧ x = { a with index := i }
  | [], _, _, h => by simp [children] at h
  | p :: ps, mx, x, h => by
    simp only [children] at h
    cases hp : pop[p]? with
    | none =>
      rw [hp] at h
      obtain ⟨a, ha, i, hi, rfl⟩ := children_mem pop ps (mx + 1) x h
      exact ⟨a, ha, i, by omega, rfl⟩
    | some b =>
      rw [hp] at h
      rcases List.mem_cons.mp h with rfl | h
      · exact ⟨b, List.mem_of_getElem? hp, mx + 1, by omega, rfl⟩
      · obtain ⟨a, ha, i, hi, rfl⟩ := children_mem pop ps (mx + 1) x h
        exact ⟨a, ha, i, by omega, rfl⟩

/-- the children's indices are strictly increasing, hence distinct, and all above `mx` -/
theorem children_indices (pop : List Agent) : ∀ (ps : List Nat) (mx : Nat),
    ((children pop mx ps).map (·.index)).Pairwise (· < ·) ∧
    ∀ i ∈ (children pop mx ps).map (·.index), mx < i
  | [], _ => by simp [children]
  | p :: ps, mx => by
    obtain ⟨h1, h2⟩ := children_indices pop ps (mx + 1)
    simp only [children]
    cases hp : pop[p]? with
    | none => exact ⟨h1, fun i hi => by have := h2 i hi; omega⟩
    | some b =>
      simp only [List.map_cons, List.pairwise_cons, List.mem_cons]
      refine ⟨⟨fun i hi => by have := h2 i hi; omega, h1⟩, ?_⟩
      rintro i (rfl | hi)
      · omega
      · have := h2 i hi; omega

theorem children_length (pop : List Agent) : ∀ (ps : List Nat) (mx : Nat),
    (∀ p ∈ ps, p < pop.length) → (children pop mx ps).length = ps.length
  | [], _, _ => by simp [children]
  | p :: ps, mx, h => by
    have hp : p < pop.length := h p (by simp)
    simp only [children, List.getElem?_eq_getElem hp, List.length_cons]
    rw [children_length pop ps (mx + 1) (fun q hq => h q (by simp [hq]))]

/-- every member of the selected population is a clone of a member of the old one -/
theorem select_mem (c : Cfg) (pop : List Agent) (s : Sel) (x : Agent) (h : x ∈ select c pop s) :
    ∃ a ∈ pop, ∃ i, x = { a with index := i } := by
  unfold select at h
  have kids : x ∈ children pop (maxIndex pop) s.parents → ∃ a ∈ pop, ∃ i, x = { a with index := i } := by
    intro hx
    obtain ⟨a, ha, i, _, rfl⟩ := children_mem pop s.parents (maxIndex pop) x hx
    exact ⟨a, ha, i, rfl⟩
  split at h
  · cases he : pop[s.elite]? with
    | none => rw [he] at h; exact kids h
    | some e =>
      rw [he] at h
      rcases List.mem_cons.mp h with rfl | h
      · exact ⟨x, List.mem_of_getElem? he, x.index, rfl⟩
      · exact kids h
  · exact kids h

/-- `TournamentSelection.select`: the new population has pairwise distinct indices — whatever the
    old indices were (the elite keeps an index ≤ max_id, everybody else gets max_id + 1, + 2, …) -/
theorem select_indices_nodup (c : Cfg) (pop : List Agent) (s : Sel) :
    ((select c pop s).map (·.index)).Nodup := by
  obtain ⟨h1, h2⟩ := children_indices pop s.parents (maxIndex pop)
  have kn : ((children pop (maxIndex pop) s.parents).map (·.index)).Nodup :=
    h1.imp (fun h => Nat.ne_of_lt h)
  unfold select
  split
  · cases he : pop[s.elite]? with
    | none => exact kn
    | some e =>
      simp only [List.map_cons, List.nodup_cons]
      refine ⟨fun hmem => ?_, kn⟩
      have := h2 _ hmem
      have := le_maxIndex pop e (List.mem_of_getElem? he)
      omega
  · exact kn

/-- with a tournament configured for this population size, the size is preserved -/
theorem select_length (c : Cfg) (pop : List Agent) (s : Sel) (hv : s.valid c.elitism pop.length) :
    (select c pop s).length = pop.length := by
  obtain ⟨he, hp, hl⟩ := hv
  have hk := children_length pop s.parents (maxIndex pop) hp
  unfold select
  cases hel : c.elitism
  · simp only [hel] at hl ⊢
    simp at hl
    simp [hk, hl]
  · simp only [hel, if_true] at hl ⊢
    simp only [List.getElem?_eq_getElem he, List.length_cons, hk]
    omega

/-- the elite is carried through selection unchanged (same index, counters, weights) -/
theorem select_head (c : Cfg) (pop : List Agent) (s : Sel) (hel : c.elitism = true)
    (he : s.elite < pop.length) : (select c pop s).head? = pop[s.elite]? := by
  simp [select, hel, List.getElem?_eq_getElem he]

theorem mutateFrom_length : ∀ (n : Nat) (pop : List Agent) (fl : List Bool),
    (mutateFrom n pop fl).length = pop.length
  | _, [], _ => by simp [mutateFrom]
  | _, _ :: _, [] => by simp [mutateFrom]
  | n, a :: as, f :: fs => by simp [mutateFrom, mutateFrom_length (n + 1) as fs]

theorem mutate_length (c : Cfg) (n : Nat) (pop : List Agent) (fl : List Bool) :
    (mutate c n pop fl).length = pop.length := by
  cases pop with
  | nil => simp [mutate]
  | cons a as =>
    cases fl with
    | nil => simp [mutate]
    | cons f fs => simp [mutate, mutateFrom_length]

theorem mutateFrom_mem : ∀ (n : Nat) (pop : List Agent) (fl : List Bool) (x : Agent),
    x ∈ mutateFrom n pop fl → ∃ a ∈ pop, ∃ t, x = { a with tag := t }
  | _, [], _, x, h => by simp [mutateFrom] at h
  | _, a :: as, [], x, h => by
    simp only [mutateFrom] at h
    exact ⟨x, h, x.tag, rfl⟩
  | n, a :: as, f :: fs, x, h => by
    simp only [mutateFrom] at h
    rcases List.mem_cons.mp h with rfl | h
    · refine ⟨a, by simp, ?_⟩
      split
      · exact ⟨n, rfl⟩
      · exact ⟨a.tag, rfl⟩
    · obtain ⟨b, hb, t, rfl⟩ := mutateFrom_mem (n + 1) as fs x h
      exact ⟨b, by simp [hb], t, rfl⟩

theorem mutate_mem (c : Cfg) (n : Nat) (pop : List Agent) (fl : List Bool) (x : Agent)
    (h : x ∈ mutate c n pop fl) : ∃ a ∈ pop, ∃ t, x = { a with tag := t } := by
  cases pop with
  | nil => simp [mutate] at h
  | cons a as =>
    cases fl with
    | nil => simp only [mutate] at h; exact ⟨x, h, x.tag, rfl⟩
    | cons f fs =>
      simp only [mutate] at h
      rcases List.mem_cons.mp h with rfl | h
      · refine ⟨a, by simp, ?_⟩
        split
        · exact ⟨n, rfl⟩
        · exact ⟨a.tag, rfl⟩
      · obtain ⟨b, hb, t, rfl⟩ := mutateFrom_mem (n + 1) as fs x h
        exact ⟨b, by simp [hb], t, rfl⟩

theorem mutateFrom_index : ∀ (n : Nat) (pop : List Agent) (fl : List Bool),
    (mutateFrom n pop fl).map (·.index) = pop.map (·.index)
  | _, [], _ => by simp [mutateFrom]
  | _, _ :: _, [] => by simp [mutateFrom]
  | n, a :: as, f :: fs => by
    simp only [mutateFrom, List.map_cons, mutateFrom_index (n + 1) as fs]
    split <;> rfl

/-- mutation keeps the order and the indices -/
theorem mutate_index (c : Cfg) (n : Nat) (pop : List Agent) (fl : List Bool) :
    (mutate c n pop fl).map (·.index) = pop.map (·.index) := by
  cases pop with
  | nil => simp [mutate]
  | cons a as =>
    cases fl with
    | nil => simp [mutate]
    | cons f fs =>
      simp only [mutate, List.map_cons, mutateFrom_index]
      split <;> rfl

/-- with `mutate_elite = False` slot 0 is returned untouched -/
theorem mutate_head (c : Cfg) (n : Nat) (pop : List Agent) (fl : List Bool)
    (h : c.mutateElite = false) : (mutate c n pop fl).head? = pop.head? := by
  cases pop with
  | nil => simp [mutate]
  | cons a as =>
    cases fl with
    | nil => simp [mutate]
    | cons f fs => simp [mutate, h]

end Loop
