import Mathlib.Data.List.Perm.Basic
import Mathlib.Data.List.Nodup
import Model.Action
import Gen.MaPlumbGen

/-!
  Proofs/MaPlumbGenEq.lean — the multi-agent plumbing generated from the source (`Gen/MaPlumbGen.lean`) equals the
  plumbing functions of `Model/Action.lean`.
-/
namespace MaPlumbGenEq
open MaPlumbGen Action

/-! ### dicts -/

theorem gen_pyGet_eq {V : Type} (d : PyDict V) (k : String) : pyGet d k = dlookup d k := rfl

theorem pyHas_false {V : Type} (d : PyDict V) (k : String) (h : k ∉ d.map Prod.fst) : pyHas d k = false := by
  unfold pyHas
  rw [List.any_eq_false]
  intro p hp hk
  exact h (by
    have : p.1 = k := by simpa using hk
    exact this ▸ List.mem_map_of_mem (f := Prod.fst) hp)

theorem foldl_pySet_nodup {V : Type} : ∀ (ps acc : PyDict V), ((acc ++ ps).map Prod.fst).Nodup →
    ps.foldl (fun d p => pySet d p.1 p.2) acc = acc ++ ps
  | [], acc, _ => by simp
  | p :: ps, acc, h => by
    have hk : p.1 ∉ acc.map Prod.fst := by
      intro hmem
      rw [List.map_append, List.nodup_append] at h
      exact h.2.2 _ hmem _ (by simp) rfl
    have e : pySet acc p.1 p.2 = acc ++ [p] := by
      unfold pySet
      rw [pyHas_false acc p.1 hk]
      simp
    rw [List.foldl_cons, e, foldl_pySet_nodup ps (acc ++ [p]) (by simpa using h)]
    simp

/-- a dict comprehension whose keys are distinct is the list of its pairs, in evaluation order -/
theorem pyDictOfPairs_nodup {V : Type} (ps : PyDict V) (h : (ps.map Prod.fst).Nodup) : pyDictOfPairs ps = ps := by
  unfold pyDictOfPairs
  simpa using foldl_pySet_nodup ps [] (by simpa using h)

/-! ### `extract_action_masks` -/

/-- what the library reads of an info as a mask -/
def maskOf {α : Type} (i : Info α) : Option (Arr Bool) := if i.isDict then i.action_mask else none

theorem gen_extract_action_masks_eq {α : Type} (ids : List String) (infos : PyDict (Info α))
    (h : (infos.map Prod.fst).Nodup) :
    Base.extract_action_masks ids infos = some (extractMasks ids (infos.map (fun p => (p.1, maskOf p.2)))) := by
  have hn : ((((pyItems infos).filter (fun x => pyIn x.1 ids)).map (fun x => (x.1, maskOf x.2))).map Prod.fst).Nodup := by
    rw [List.map_map]
    have : (Prod.fst ∘ fun (x : String × Info α) => (x.1, maskOf x.2)) = Prod.fst := rfl
    rw [this]
    exact (List.Nodup.sublist (List.Sublist.map _ List.filter_sublist) h)
  have := pyDictOfPairs_nodup _ hn
  simp only [Base.extract_action_masks, maskOf] at this ⊢
  rw [this]
  simp only [extractMasks, pyItems, pyIn, List.filter_map]
  rfl

/-! ### lookups do not depend on the order of a dict -/

theorem dlookup_of_mem {V : Type} : ∀ (l : List (String × V)) (k : String) (v : V), (l.map Prod.fst).Nodup →
    (k, v) ∈ l → dlookup l k = some v
  | [], _, _, _, h => by simp at h
  | p :: l, k, v, hn, h => by
    rw [List.map_cons, List.nodup_cons] at hn
    unfold dlookup
    by_cases hp : p.1 = k
    · have : p = (k, v) := by
        rcases List.mem_cons.mp h with h | h
        · exact h.symm
        · exact absurd (hp ▸ List.mem_map_of_mem (f := Prod.fst) h) hn.1
      subst this
      simp
    · have hm : (k, v) ∈ l := by
        rcases List.mem_cons.mp h with h | h
        · exact absurd (by rw [← h]) hp
        · exact h
      have := dlookup_of_mem l k v hn.2 hm
      unfold dlookup at this
      simp [hp, this]

theorem dlookup_none {V : Type} (l : List (String × V)) (k : String) (h : ∀ p ∈ l, p.1 ≠ k) : dlookup l k = none := by
  unfold dlookup
  rw [Option.map_eq_none_iff, List.find?_eq_none]
  intro p hp
  simpa using h p hp

theorem dlookup_mem {V : Type} (l : List (String × V)) (k : String) (v : V) (h : dlookup l k = some v) : (k, v) ∈ l := by
  unfold dlookup at h
  rw [Option.map_eq_some_iff] at h
  obtain ⟨p, hp, hv⟩ := h
  have hk : p.1 = k := by simpa using List.find?_some hp
  have := List.mem_of_find?_eq_some hp
  rw [← hk, ← hv]
  exact this

/-- the value under a key does not depend on the order in which the dict lists its (distinct) keys -/
theorem dlookup_perm {V : Type} (l l' : List (String × V)) (k : String) (hn : (l.map Prod.fst).Nodup)
    (hp : l.Perm l') : dlookup l k = dlookup l' k := by
  have hn' : (l'.map Prod.fst).Nodup := (hp.map Prod.fst).nodup_iff.mp hn
  cases h : dlookup l k with
  | some v => exact (dlookup_of_mem l' k v hn' (hp.subset (dlookup_mem l k v h))).symm
  | none =>
    symm
    apply dlookup_none
    intro p hpm hk
    have := dlookup_of_mem l k p.2 hn (hp.symm.subset (by rw [← hk]; exact hpm))
    rw [h] at this
    cases this

/-! ### `dst[m] = src[m]` with `m = ¬ isnan(src)` -/

theorem zw3_override {α : Type} (g : Option α → Bool) (hg : ∀ e, g e = e.isSome) : ∀ (xs : List α) (es : List (Option α)),
    zw3 (fun x b e => if b then e.getD x else x) xs (es.map g) es = overrideRow xs es
  | [], _ => by simp [zw3, overrideRow]
  | _ :: _, [] => by simp [zw3, overrideRow]
  | x :: xs, e :: es => by
    simp only [List.map_cons, zw3, overrideRow, List.zipWith_cons_cons]
    rw [show zw3 (fun x b e => if b then e.getD x else x) xs (es.map g) es = overrideRow xs es from zw3_override g hg xs es]
    cases e <;> simp [hg, overrideRow]

/-- the agent mask `extract_agent_masks` computes from an entry -/
def genAgentMask {α : Type} (e : Arr (Option α)) : Option (Arr Bool) :=
  (npIsnan e).map (fun c => arrAstypeBool (npWhere c 0 1))

theorem genAgentMask_a2 {α : Type} (es : List (List (Option α))) :
    genAgentMask (Arr.a2 es) = some (Arr.a2 (agentMask es)) := by
  simp [genAgentMask, npIsnan, arrAstypeBool, npWhere, arrMap, agentMask]
  intro r _ e _
  cases e <;> simp

theorem genAgentMask_a1 {α : Type} (es : List (Option α)) :
    genAgentMask (Arr.a1 es) = some (Arr.a1 (es.map (fun e => e.isSome))) := by
  simp [genAgentMask, npIsnan, arrAstypeBool, npWhere, arrMap]
  intro e _
  cases e <;> simp


theorem sameShape_a2 {β γ : Type} (xs : List (List β)) (ys : List (List γ)) (h : xs.map List.length = ys.map List.length) :
    sameShape (Arr.a2 xs) (Arr.a2 ys) = true := by simp [sameShape, h]

theorem agentMask_shape {α : Type} (es : List (List (Option α))) :
    (agentMask es).map List.length = es.map List.length := by simp [agentMask]

theorem zw3_overrideRows {α : Type} : ∀ (xs : List (List α)) (es : List (List (Option α))),
    zw3 (fun xr br er => zw3 (fun x b e => if b then e.getD x else x) xr br er) xs (agentMask es) es = overrideRows xs es
  | [], _ => by simp [zw3, overrideRows]
  | _ :: _, [] => by simp [zw3, overrideRows, agentMask]
  | x :: xs, e :: es => by
    have ih := zw3_overrideRows xs es
    simp only [agentMask, List.map_cons, zw3, overrideRows, List.zipWith_cons_cons] at ih ⊢
    rw [ih, zw3_override (fun e => e.isSome) (fun _ => rfl) x e]
    rfl

/-- `action[agent_mask] = env_defined_actions[agent_mask]` on 2-D arrays of one shape: entry-wise override -/
theorem gen_arrMaskCopy_a2 {α : Type} (xs : List (List α)) (es : List (List (Option α)))
    (h : xs.map List.length = es.map List.length) :
    arrMaskCopy (Arr.a2 xs) (Arr.a2 (agentMask es)) (Arr.a2 es) = some (Arr.a2 (overrideRows xs es)) := by
  unfold arrMaskCopy
  rw [sameShape_a2 _ _ (by rw [agentMask_shape]; exact h), sameShape_a2 _ _ (agentMask_shape es).symm]
  simp only [Bool.and_self, if_true]
  rw [zw3_overrideRows]

/-- a shape mismatch (another number of environment rows, another action dimension) is an IndexError -/
theorem gen_arrMaskCopy_a2_mismatch {α : Type} (xs : List (List α)) (es : List (List (Option α)))
    (h : xs.map List.length ≠ es.map List.length) :
    arrMaskCopy (Arr.a2 xs) (Arr.a2 (agentMask es)) (Arr.a2 es) = none := by
  unfold arrMaskCopy
  have : sameShape (Arr.a2 xs) (Arr.a2 (agentMask es)) = false := by
    simp only [sameShape, agentMask_shape]
    simpa using h
  rw [this]
  simp

theorem gen_arrMaskCopy_a1 {α : Type} (xs : List α) (es : List (Option α)) (h : xs.length = es.length) :
    arrMaskCopy (Arr.a1 xs) (Arr.a1 (es.map (fun e => e.isSome))) (Arr.a1 es) = some (Arr.a1 (overrideRow xs es)) := by
  unfold arrMaskCopy
  simp only [sameShape, List.length_map, h, beq_self_eq_true, Bool.and_self, if_true]
  rw [zw3_override (fun e => e.isSome) (fun _ => rfl)]

/-! ### `disassemble_homogeneous_outputs` -/

theorem chunk_eq {β : Type} (k : Nat) : ∀ (n : Nat) (l : List β), chunk k n l = chunkN k n l
  | 0, _ => rfl
  | n + 1, l => by simp [chunk, chunkN, chunk_eq k n]

theorem gen_npReshape3_eq {β : Type} (x : List β) (n e : Nat) (h0 : n * e ≠ 0) (hd : x.length % (n * e) = 0) :
    npReshape3 (HOut.flat x) n e = some (HOut.blocks (disassembleGroup n e x)) := by
  unfold npReshape3 disassembleGroup
  simp only [HOut.flat', h0, hd, ne_eq, not_true_eq_false, or_self, if_false]
  rw [chunk_eq]
  congr 2
  apply List.map_congr_left
  intro b _
  rw [chunk_eq]

/-- agent `i` of the group gets block `i` -/
theorem gen_hoIdx_eq {β : Type} (bs : List (List (List β))) (i : Nat) :
    hoIdx (HOut.blocks bs) i = (bs[i]?).map Arr.a2 := rfl

/-! ### `key_in_nested_dict` (repaired, commit 1022803) -/

theorem pyFirst_flag {β : Type} (c : β → Bool) (f : β → Option (Option Bool))
    (hf : ∀ x, f x = some (if c x then some true else none)) :
    ∀ l : List β, pyFirst l f = some (if l.any c then some true else none)
  | [] => by simp [pyFirst]
  | x :: xs => by
    unfold pyFirst
    rw [hf x]
    by_cases h : c x = true
    · simp [h]
    · have h' : c x = false := by simpa using h
      simp only [h', Bool.false_eq_true, if_false, List.any_cons, Bool.false_or]
      exact pyFirst_flag c f hf xs

theorem gen_key_in_nested_dict_1_eq {α : Type} (i : Info α) (t : String) :
    key_in_nested_dict_1 i t = some (i.keys.contains t) := by
  unfold key_in_nested_dict_1
  have := pyFirst_flag (fun (p : String × Unit) => decide (p.1 = t))
    (fun (x : String × Unit) => (do
      if (decide (x.1 = t)) then
        return (some true)
      if (← (if false then (do pure (← (none : Option Bool))) else (do pure false))) then
        return (some true)
      return none : Option (Option Bool))) (by
        intro x
        by_cases h : x.1 = t <;> simp [h]) (i.keys.map (fun k => (k, ())))
  simp only [bind, Option.bind, pure] at this ⊢
  rw [this]
  by_cases h : t ∈ i.keys
  · simp [h, List.any_map]
  · simp [h, List.any_map]

/-- what the helper sees of `infos` -/
def nestedView {α : Type} (infos : PyDict (Info α)) : List (String × Option (List String)) :=
  infos.map (fun p => (p.1, if p.2.isDict then some p.2.keys else none))

theorem gen_key_in_nested_dict_0_eq {α : Type} (infos : PyDict (Info α)) (t : String) :
    key_in_nested_dict_0 infos t = some (keyInNested (nestedView infos) t) := by
  unfold key_in_nested_dict_0
  have := pyFirst_flag (fun (p : String × Info α) => decide (p.1 = t) || (p.2.isDict && p.2.keys.contains t))
    (fun (x : String × Info α) => (do
      if (decide (x.1 = t)) then
        return (some true)
      if (← (if x.2.isDict then (do pure (← key_in_nested_dict_1 x.2 t)) else (do pure false))) then
        return (some true)
      return none : Option (Option Bool))) (by
        intro x
        by_cases h : x.1 = t
        · simp [h]
        · cases hd : x.2.isDict <;> by_cases hk : t ∈ x.2.keys <;>
            simp [h, hk, gen_key_in_nested_dict_1_eq]) (pyItems infos)
  simp only [bind, Option.bind, pure] at this ⊢
  rw [this]
  have e : (pyItems infos).any (fun p => decide (p.1 = t) || (p.2.isDict && p.2.keys.contains t)) =
      keyInNested (nestedView infos) t := by
    unfold keyInNested nestedView pyItems
    rw [List.any_map]
    congr 1
    funext p
    have hb : decide (p.1 = t) = (p.1 == t) := by
      by_cases h : p.1 = t <;> simp [h]
    cases hd : p.2.isDict <;> simp [hb, hd]
  rw [e]
  cases keyInNested (nestedView infos) t <;> rfl

/-- the repaired presence test does not depend on the order of `infos` -/
theorem keyInNested_perm (l l' : List (String × Option (List String))) (t : String) (hp : l.Perm l') :
    keyInNested l t = keyInNested l' t := by
  unfold keyInNested
  exact hp.any_eq

theorem keyInNested_iff (l : List (String × Option (List String))) (t : String) :
    keyInNested l t = true ↔ ∃ p ∈ l, p.1 = t ∨ ∃ ks, p.2 = some ks ∧ t ∈ ks := by
  unfold keyInNested
  rw [List.any_eq_true]
  constructor
  · rintro ⟨p, hp, h⟩
    refine ⟨p, hp, ?_⟩
    rcases hv : p.2 with _ | ks
    · simp [hv] at h; exact Or.inl h
    · simp [hv] at h
      rcases h with h | h
      · exact Or.inl h
      · exact Or.inr ⟨ks, rfl, h⟩
  · rintro ⟨p, hp, h⟩
    refine ⟨p, hp, ?_⟩
    rcases h with h | ⟨ks, hk, h⟩
    · simp [h]
    · simp [hk, h]

/-- `extract_agent_masks` returns `(None, None)` exactly through its presence test: no info holds the key, or every
    known agent's info is empty -/
theorem gen_extract_agent_masks_absent {α : Type} (dims : List Nat) (ids : List String) (disc : Bool) (infos : PyDict (Info α))
    (h : keyInNested (nestedView infos) "env_defined_actions" = false ∨
      ((infos.filter (fun p => ids.contains p.1)).all (fun p => !p.2.truthy)) = true) :
    Base.extract_agent_masks dims ids disc infos = some (none, none) := by
  unfold Base.extract_agent_masks
  simp only [bind, Option.bind, gen_key_in_nested_dict_0_eq]
  have hc : ((!keyInNested (nestedView infos) "env_defined_actions") ||
      pyAll (((pyItems infos).filter (fun x => pyIn x.1 ids)).map (fun x => !x.2.truthy))) = true := by
    rcases h with h | h
    · simp [h]
    · have : pyAll (((pyItems infos).filter (fun x => pyIn x.1 ids)).map (fun x => !x.2.truthy)) = true := by
        unfold pyAll pyItems pyIn
        rw [List.all_map]
        simpa [Function.comp_def] using h
      simp [this]
  simp only [hc]
  rfl

/-! ### concrete runs of the whole plumbing (non-trivial states) -/

def mkInfo (m : Option (Arr Bool)) (e : Arr (Option Nat)) (keys : List String) : Info Nat :=
  ⟨true, !keys.isEmpty, keys, m, e⟩

/-- two environment rows; `"b"` reports an env-defined action for row 0, `"a"` a mask, `"c"` nothing -/
def infosAB : PyDict (Info Nat) :=
  [("a", mkInfo (some (Arr.a2 [[true, false], [false, true]])) (Arr.a1 [none, none]) ["action_mask", "env_defined_actions"]),
   ("b", mkInfo none (Arr.a1 [some 1, none]) ["env_defined_actions"]),
   ("c", mkInfo none (Arr.a1 [none, none]) ["env_defined_actions"])]

end MaPlumbGenEq
