import Mathlib.Data.List.Nodup
import Model.Ring
import Gen.MaSampleGen
import Proofs.ReorgGenEq

/-!
# `Gen/MaSampleGen.lean` (generated from the source) = `Model/Ring.lean` (section MaSample)

`stack_transitions` as translated - a conversion loop over the batch, then one loop over the keys of the first entry
(dict), one over the member positions (tuple) or `np.array` (plain rows) - equals `Ring.stackEnts`;
`_process_transition` - the loop over `field_names`, the loop over `agent_ids`, `transition[field][agent_id] = ts` on the
pre-built dict of dicts - equals `Ring.maProcess`; `sample` with the drawn positions explicit equals `Ring.maSample`:
for every number of fields, agents, container kinds, batch sizes, INCLUDING when the call raises.
Assumptions: `np.array(row)` and `np.expand_dims(row-wise)` keep the content of a row (`hnp`, `hex`); the field names
are distinct (namedtuple enforces it) and the agent ids are distinct (`hnames`, `hags`); the keys of the first dict
entry of every (field, agent) column are distinct (`ColKeysOK` - Python dicts).
-/
namespace Ring
open ReorgGen MaSampleGen

variable {κ α : Type} [DecidableEq κ]
variable (np : α → α) (rn : α → Nat) (ex : Int → α → α) (au tt : α → α)

theorem pyDictGet_eq {β : Type} (d : List (κ × β)) (k : κ) : pyDictGet d k = dget d k := by
  induction d with
  | nil => rfl
  | cons p r ih => obtain ⟨k', v⟩ := p; simp only [pyDictGet, dget, ih]

theorem pyGetattr_eq {β : Type} : ∀ (ns : List String) (e : List β) (f : String), pyGetattr ns e f = getField ns e f
  | [], e, f => by cases e <;> simp [pyGetattr, getField]
  | n :: ns, [], f => by simp [pyGetattr, getField]
  | n :: ns, x :: xs, f => by simp only [pyGetattr, getField, pyGetattr_eq ns xs f]

theorem pyFilterNotNone_some {β : Type} (l : List β) : pyFilterNotNone (l.map some) = l := by
  induction l with
  | nil => rfl
  | cons x r ih => simp only [List.map_cons, pyFilterNotNone, ih]

/-- what the first loop of `stack_transitions` accepts for the container kind of the first entry -/
def okFor (ty : PyType) (e : Ent κ α) : Bool :=
  match ty with
  | PyType.dict => e.isDict
  | PyType.tuple => e.isTup
  | PyType.ndarray => true

omit [DecidableEq κ] in
theorem gen_stack_loop0_eq (hnp : ∀ x, np x = x) (ty : PyType) :
    ∀ (es acc : List (Ent κ α)), MultiAgentReplayBuffer.stack_transitions_loop0 np rn ex au tt ty acc es
      = if es.all (okFor ty) then some (acc ++ es) else none := by
  intro es
  induction es with
  | nil => intro acc; simp [MultiAgentReplayBuffer.stack_transitions_loop0]
  | cons e r ih =>
    intro acc
    unfold MultiAgentReplayBuffer.stack_transitions_loop0
    cases ty <;> rcases e with x | kv | xs <;>
      simp [pyAsDict, pyAsTup, okFor, Ent.isDict, Ent.isTup, ih, hnp]

theorem pyEntGetKey_eq (e : Ent κ α) (k : κ) : pyEntGetKey e k = e.getKey k := by
  rcases e with x | kv | xs <;> simp [pyEntGetKey, pyAsDict, Ent.getKey, pyDictGet_eq]

omit [DecidableEq κ] in
theorem pyEntGetIdx_eq (e : Ent κ α) (i : Nat) : pyEntGetIdx e i = e.getIdx i := by
  rcases e with x | kv | xs <;> simp [pyEntGetIdx, pyAsTup, Ent.getIdx]

omit [DecidableEq κ] in
theorem expand_id (hex : ∀ a x, ex a x = x) (rows : List α) :
    (if (decide (pyNdim rn rows = 1)) then pyExpandDims ex rows (1 : Int) else rows) = rows := by
  have h1 : ex (1 : Int) = id := funext (hex 1)
  have : pyExpandDims ex rows (1 : Int) = rows := by
    unfold pyExpandDims; rw [h1]; simp
  rw [this]; simp

theorem gen_stack_loop1_eq (hex : ∀ a x, ex a x = x) (es : List (Ent κ α)) :
    ∀ (keys : List κ) (acc : List (κ × List α)), (∀ k ∈ keys, k ∉ acc.map Prod.fst) → keys.Nodup →
      MultiAgentReplayBuffer.stack_transitions_loop1 np rn ex au tt es acc keys =
        (optAll (keys.map (fun k => (optAll (es.map (fun e => e.getKey k))).map (fun rows => (k, rows))))).map
          (fun l => acc ++ l) := by
  intro keys
  induction keys with
  | nil => intro acc _ _; simp [MultiAgentReplayBuffer.stack_transitions_loop1, optAll]
  | cons k ks ih =>
    intro acc hfresh hnd
    unfold MultiAgentReplayBuffer.stack_transitions_loop1
    simp only [pyAll_eq, pyEntGetKey_eq, List.map_cons, optAll_cons]
    cases hrow : optAll (es.map (fun e => e.getKey k)) with
    | none => simp
    | some rows =>
      simp only [expand_id rn ex hex]
      rw [pySetItem_fresh acc k rows (hfresh k (by simp))]
      rw [ih (acc ++ [(k, rows)])]
      · cases optAll (ks.map (fun k => (optAll (es.map (fun e => e.getKey k))).map (fun rows => (k, rows)))) <;> simp
      · intro k' hk'
        simp only [List.map_append, List.map_cons, List.map_nil, List.mem_append, List.mem_singleton, not_or]
        exact ⟨hfresh k' (by simp [hk']), fun h => (List.nodup_cons.mp hnd).1 (h ▸ hk')⟩
      · exact (List.nodup_cons.mp hnd).2

omit [DecidableEq κ] in
theorem gen_stack_loop2_eq (hex : ∀ a x, ex a x = x) (es : List (Ent κ α)) :
    ∀ (idx : List Nat) (acc : List (List α)),
      MultiAgentReplayBuffer.stack_transitions_loop2 np rn ex au tt es acc idx =
        (optAll (idx.map (fun i => optAll (es.map (fun e => e.getIdx i))))).map (fun l => acc ++ l) := by
  intro idx
  induction idx with
  | nil => intro acc; simp [MultiAgentReplayBuffer.stack_transitions_loop2, optAll]
  | cons i is ih =>
    intro acc
    unfold MultiAgentReplayBuffer.stack_transitions_loop2
    simp only [pyAll_eq, pyEntGetIdx_eq, List.map_cons, optAll_cons]
    cases hrow : optAll (es.map (fun e => e.getIdx i)) with
    | none => simp
    | some rows =>
      simp only [expand_id rn ex hex]
      rw [ih (acc ++ [rows])]
      cases optAll (is.map (fun i => optAll (es.map (fun e => e.getIdx i)))) <;> simp

omit [DecidableEq κ] in
theorem pyExpandDims_id (hex : ∀ a x, ex a x = x) (rows : List α) (a : Int) : pyExpandDims ex rows a = rows := by
  have h1 : ex a = id := funext (hex a)
  unfold pyExpandDims; rw [h1]; simp

omit [DecidableEq κ] in
theorem pyAsArr_eq (e : Ent κ α) : pyAsArr e = Ent.asArr e := by
  rcases e with x | kv | xs <;> rfl

/-- **`stack_transitions`** as translated = the model's regrouping, for every batch, INCLUDING when it raises -/
theorem gen_mastack_eq (hnp : ∀ x, np x = x) (hex : ∀ a x, ex a x = x) (es : List (Ent κ α))
    (hk : ∀ kv r, es = Ent.dict kv :: r → (kv.map Prod.fst).Nodup) :
    MultiAgentReplayBuffer.stack_transitions np rn ex au tt es = stackEnts es := by
  cases es with
  | nil => simp [MultiAgentReplayBuffer.stack_transitions, pyIndex, stackEnts]
  | cons e r =>
    unfold MultiAgentReplayBuffer.stack_transitions
    have hidx : pyIndex (e :: r) (0 : Int) = some e := by simp [pyIndex]
    simp only [gen_stack_loop0_eq np rn ex au tt hnp, hidx, List.nil_append]
    rcases e with x | kv | xs
    · have h1 : (Sum.inl x :: r : List (Ent κ α)).all (okFor PyType.ndarray) = true := by simp [okFor]
      simp only [pyTypeOf, h1, if_true, stackEnts, pyStackEnts, pyAll_eq, pyExpandDims_id ex hex]
      have h2 : List.map pyAsArr (Sum.inl x :: r : List (Ent κ α)) = List.map Ent.asArr (Sum.inl x :: r) :=
        List.map_congr_left (fun e _ => pyAsArr_eq e)
      rw [h2]
      cases optAll (List.map Ent.asArr (Sum.inl x :: r : List (Ent κ α))) <;> simp
    · have hnd : (List.map (fun p => p.fst) kv).Nodup := hk kv r rfl
      have h0 : (okFor PyType.dict : Ent κ α → Bool) = Ent.isDict := rfl
      simp only [pyTypeOf, h0, stackEnts]
      cases hall : (Sum.inr (Sum.inl kv) :: r : List (Ent κ α)).all Ent.isDict with
      | false => simp
      | true =>
        simp only [if_true, pyIndex]
        simp [pyAsDict, pyKeys, gen_stack_loop1_eq np rn ex au tt hex _ _ [] (by simp) hnd, List.map_map,
          Function.comp_def]
        generalize optAll (List.map _ kv) = o
        cases o <;> rfl
    · have h0 : (okFor PyType.tuple : Ent κ α → Bool) = Ent.isTup := rfl
      simp only [pyTypeOf, h0, stackEnts]
      cases hall : (Sum.inr (Sum.inr xs) :: r : List (Ent κ α)).all Ent.isTup with
      | false => simp
      | true =>
        simp only [if_true, pyIndex]
        simp [pyEntLen, gen_stack_loop2_eq np rn ex au tt hex]
        generalize optAll (List.map _ (List.range xs.length)) = o
        cases o <;> rfl

/-! ### `_process_transition` -/

theorem pyDictGet_mid {φ β : Type} [DecidableEq φ] (pre : List (φ × β)) (f : φ) (d : β) (suf : List (φ × β))
    (hf : f ∉ pre.map Prod.fst) : pyDictGet (pre ++ (f, d) :: suf) f = some d := by
  induction pre with
  | nil => simp [pyDictGet]
  | cons p r ih =>
    obtain ⟨k', v'⟩ := p
    simp only [List.map_cons, List.mem_cons, not_or] at hf
    have hne : ¬ k' = f := fun e => hf.1 e.symm
    simp only [List.cons_append, pyDictGet, if_neg hne, ih hf.2]

theorem pySetItem_mid {φ β : Type} [DecidableEq φ] (pre : List (φ × β)) (f : φ) (d x : β) (suf : List (φ × β))
    (hf : f ∉ pre.map Prod.fst) : pySetItem (pre ++ (f, d) :: suf) f x = pre ++ (f, x) :: suf := by
  induction pre with
  | nil => simp [pySetItem]
  | cons p r ih =>
    obtain ⟨k', v'⟩ := p
    simp only [List.map_cons, List.mem_cons, not_or] at hf
    have hne : ¬ k' = f := fun e => hf.1 e.symm
    simp only [List.cons_append, pySetItem, if_neg hne, ih hf.2]

theorem pySetItem2_mid {β : Type} (pre : List (String × List (κ × β))) (f : String) (d : List (κ × β))
    (suf : List (String × List (κ × β))) (a : κ) (v : β) (hf : f ∉ pre.map Prod.fst) (ha : a ∉ d.map Prod.fst) :
    pySetItem2 (pre ++ (f, d) :: suf) f a v = some (pre ++ (f, d ++ [(a, v)]) :: suf) := by
  unfold pySetItem2
  rw [pyDictGet_mid pre f d suf hf]
  simp only [pySetItem_mid pre f d _ suf hf, pySetItem_fresh d a v ha]

omit [DecidableEq κ] in
theorem pyAstypeUint8_eq (v : Val κ α) : pyAstypeUint8 au v = Val.castArr au v := by
  rcases v with x | kv | xs <;> rfl

omit [DecidableEq κ] in
theorem pyObsToTensor_eq (v : Val κ α) : pyObsToTensor tt v = Val.mapLeaves tt v := by
  rcases v with x | kv | xs <;> rfl

/-- the dict entries of one (field, agent) column have distinct keys (Python dicts) -/
def ColKeysOK (names : List String) (exps : List (Trans κ α)) : Prop :=
  ∀ f a es, maColumn names exps f a = some es → ∀ kv r, es = Ent.dict kv :: r → (kv.map Prod.fst).Nodup

theorem gen_process_loop1_eq (hnp : ∀ x, np x = x) (hex : ∀ a x, ex a x = x) (names : List String) (ags : List κ)
    (st : MA κ α) (exps : List (Trans κ α)) (hcol : ColKeysOK names exps) (f : String) (b : Bool) (hb : isFlag f = b) :
    ∀ (agents : List κ) (pre suf : List (String × Field κ α)) (d : Field κ α), f ∉ pre.map Prod.fst →
      (∀ a ∈ agents, a ∉ d.map Prod.fst) → agents.Nodup →
      MultiAgentReplayBuffer.process_transition_loop1 np rn ex au tt names ags st false exps f b
          (pre ++ (f, d) :: suf) agents =
        (optAll (agents.map (fun a => (maCell au tt names exps f a).map (fun v => (a, v))))).map
          (fun l => pre ++ (f, d ++ l) :: suf) := by
  intro agents
  induction agents with
  | nil => intro pre suf d _ _ _; simp [MultiAgentReplayBuffer.process_transition_loop1, optAll]
  | cons a as ih =>
    intro pre suf d hf hfresh hnd
    unfold MultiAgentReplayBuffer.process_transition_loop1
    simp only [List.map_cons, optAll_cons]
    generalize hc : pyAll (List.map _ exps) = col
    have hcol' : col = maColumn names exps f a := by
      rw [← hc, pyAll_eq]; unfold maColumn; congr 1
      apply List.map_congr_left; intro e _
      rw [pyGetattr_eq]; cases getField names e f <;> simp [pyDictGet_eq]
    subst hcol'
    have hfin : ∀ w : Val κ α,
        (pySetItem2 (pre ++ (f, d) :: suf) f a w).bind
          (fun r5 => MultiAgentReplayBuffer.process_transition_loop1 np rn ex au tt names ags st false exps f b r5 as) =
        Option.map (fun l => pre ++ (f, d ++ l) :: suf)
          (Option.map (fun x => (a, w) :: x)
            (optAll (as.map (fun a => (maCell au tt names exps f a).map (fun v => (a, v)))))) := by
      intro w
      rw [pySetItem2_mid pre f d suf a w hf (hfresh a (by simp))]
      simp only [Option.bind_some]
      rw [ih pre suf (d ++ [(a, w)]) hf ?_ (List.nodup_cons.mp hnd).2]
      · generalize optAll (List.map _ as) = o; cases o <;> simp
      · intro a' ha'
        simp only [List.map_append, List.map_cons, List.map_nil, List.mem_append, List.mem_singleton, not_or]
        exact ⟨hfresh a' (by simp [ha']), fun h => (List.nodup_cons.mp hnd).1 (h ▸ ha')⟩
    cases hcl : maColumn names exps f a with
    | none =>
      have hcell : maCell au tt names exps f a = none := by unfold maCell; simp [hcl]
      simp [hcell]
    | some es =>
      simp only [gen_mastack_eq np rn ex au tt hnp hex es (hcol f a es hcl)]
      cases hs : stackEnts es with
      | none =>
        have hcell : maCell au tt names exps f a = none := by unfold maCell; simp [hcl, hs]
        simp [hcell]
      | some v =>
        have hcell : maCell au tt names exps f a =
            (if b = true then Val.castArr au v else some v).map (Val.mapLeaves tt) := by
          unfold maCell maPost; rw [hcl, hb]; simp [hs]
        rw [hcell]
        simp only [pyAstypeUint8_eq, pyObsToTensor_eq]
        cases b with
        | false =>
          refine Eq.trans ?_ ((hfin (Val.mapLeaves tt v)).trans ?_)
          · simp; generalize pySetItem2 _ f a _ = o; cases o <;> rfl
          · simp
        | true =>
          cases hca : Val.castArr au v with
          | none => simp
          | some w =>
            refine Eq.trans ?_ ((hfin (Val.mapLeaves tt w)).trans ?_)
            · simp; generalize pySetItem2 _ f a _ = o; cases o <;> rfl
            · simp

theorem gen_process_loop0_eq (hnp : ∀ x, np x = x) (hex : ∀ a x, ex a x = x) (names : List String) (ags : List κ)
    (st : MA κ α) (exps : List (Trans κ α)) (hcol : ColKeysOK names exps) (hags : ags.Nodup) :
    ∀ (fs : List String) (pre : List (String × Field κ α)), fs.Nodup → (∀ f ∈ fs, f ∉ pre.map Prod.fst) →
      MultiAgentReplayBuffer.process_transition_loop0 np rn ex au tt names ags st false exps
          (pre ++ fs.map (fun f => (f, []))) fs =
        (optAll (fs.map (fun f => (maFieldRow au tt names ags exps f).map (fun d => (f, d))))).map
          (fun l => pre ++ l) := by
  intro fs
  induction fs with
  | nil => intro pre _ _; simp [MultiAgentReplayBuffer.process_transition_loop0, optAll]
  | cons f fs ih =>
    intro pre hnd hfresh
    unfold MultiAgentReplayBuffer.process_transition_loop0
    simp only [List.map_cons, optAll_cons]
    generalize hl : MultiAgentReplayBuffer.process_transition_loop1 np rn ex au tt names ags st false exps f _ _ ags = res
    have hres : res = (optAll (ags.map (fun a => (maCell au tt names exps f a).map (fun v => (a, v))))).map
          (fun l => pre ++ (f, [] ++ l) :: List.map (fun f => (f, ([] : Field κ α))) fs) := by
      rw [← hl]
      exact gen_process_loop1_eq np rn ex au tt hnp hex names ags st exps hcol f _ (by rfl) ags pre _ []
        (hfresh f (by simp)) (by simp) hags
    rw [hres]
    have hrow : optAll (ags.map (fun a => (maCell au tt names exps f a).map (fun v => (a, v)))) =
        maFieldRow au tt names ags exps f := rfl
    rw [hrow]
    cases maFieldRow au tt names ags exps f with
    | none => simp
    | some row =>
      simp only [Option.map_some, List.nil_append]
      have happ : pre ++ (f, row) :: List.map (fun f => (f, ([] : Field κ α))) fs =
          (pre ++ [(f, row)]) ++ List.map (fun f => (f, ([] : Field κ α))) fs := by simp
      rw [happ, ih (pre ++ [(f, row)]) (List.nodup_cons.mp hnd).2 ?_]
      · generalize optAll (List.map _ fs) = o; cases o <;> simp
      · intro f' hf'
        simp only [List.map_append, List.map_cons, List.map_nil, List.mem_append, List.mem_singleton, not_or]
        exact ⟨hfresh f' (by simp [hf']), fun h => (List.nodup_cons.mp hnd).1 (h ▸ hf')⟩

/-- **`_process_transition`** as translated (on stored experiences, tensors requested) = the model -/
theorem gen_maprocess_eq (hnp : ∀ x, np x = x) (hex : ∀ a x, ex a x = x) (names : List String) (ags : List κ)
    (st : MA κ α) (exps : List (Trans κ α)) (hcol : ColKeysOK names exps) (hnames : names.Nodup) (hags : ags.Nodup) :
    MultiAgentReplayBuffer.process_transition np rn ex au tt names ags st (exps.map some) false =
      maProcess au tt names ags exps := by
  unfold MultiAgentReplayBuffer.process_transition
  simp only [pyFilterNotNone_some, List.map_id']
  have := gen_process_loop0_eq np rn ex au tt hnp hex names ags st exps hcol hags names [] hnames (by simp)
  simp only [List.nil_append] at this
  rw [this]
  unfold maProcess
  generalize optAll (List.map _ names) = o; cases o <;> simp

/-- **`sample`** as translated, the drawn positions explicit = the model, INCLUDING when it raises -/
theorem gen_masample_eq (hnp : ∀ x, np x = x) (hex : ∀ a x, ex a x = x) (names : List String) (ags : List κ)
    (st : MA κ α) (k : Int) (draw : List Nat)
    (hcol : ∀ exps, optAll (draw.map (fun i => st.memory.items[i]?)) = some exps → ColKeysOK names exps)
    (hnames : names.Nodup) (hags : ags.Nodup) :
    MultiAgentReplayBuffer.sample np rn ex au tt names ags st k draw =
      maSample au tt names ags st.memory.items k draw := by
  unfold MultiAgentReplayBuffer.sample maSample pyRandomSample
  by_cases hk : k < 0 ∨ k > (st.memory.items.length : Int)
  · simp [hk]
  · simp only [hk, if_false, pyAll_eq]
    cases hd : optAll (draw.map (fun i => st.memory.items[i]?)) with
    | none => simp
    | some exps =>
      simp only [Option.bind_some, gen_maprocess_eq np rn ex au tt hnp hex names ags st exps (hcol exps hd) hnames hags]
      cases maProcess au tt names ags exps <;> simp [pyValues]

end Ring
