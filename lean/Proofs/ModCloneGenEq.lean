import Proofs.CloneGenEq
import Gen.ModCloneGen

/-!
# `Gen/ModCloneGen.lean` (what `module.clone()` does, read from the source) = the module-level rule of `Model/Heap.lean`

The agent-level translation (`Gen/CloneGen.lean`) ASSUMES that `module.clone()` shares nothing.  Here that function
itself is read (harness/py2lean_modclone.py): per group of mutable objects of a module (`ModPart`: parameter /
buffer tensors, the recorded constructor arguments at every nesting depth, the two method-name lists) the generated
steps are run by the generated prelude semantics, and the result is proved equal to `Heap.moduleCloneRule` — for
EVERY depth.  `refinedRules` puts the two levels together: the agent-level table with every network attribute
replaced by the parts of its module under the generated module-level rule.
-/
namespace Heap

open ModCloneGen in
def partOf : ModPart → ModCloneGen.Part
  | .params => .params
  | .initArg d => .initArg d
  | .methodLists => .methodLists

def modShareRule : ModCloneGen.Share → Option Rule
  | .fresh => some .fresh
  | .parent => some .byRef
  | .own => none

/-- `get_init_dict()` builds a NEW dict whose values are the module's own objects -/
theorem gen_initShare_eq (d : Nat) :
    ModCloneGen.initShare d = if d = 0 then .fresh else .parent := by
  cases d <;> rfl

theorem gen_initDictProp_eq : ModCloneGen.initDictProp = .getInitDict .self := rfl

/-- the rule of `EvolvableModule.clone` read from the source is the model's, for every part and every depth -/
theorem gen_moduleCloneRule_eq (p : ModPart) :
    (ModCloneGen.partRule (partOf p)).bind (fun x => modShareRule x.1) = some (moduleCloneRule p) := by
  cases p <;> rfl

theorem gen_moduleCloneFaithful_eq (p : ModPart) :
    (ModCloneGen.partRule (partOf p)).map (fun x => x.2) = some (moduleCloneFaithful p) := by
  cases p <;> rfl

theorem gen_distCloneRule_eq (p : ModPart) :
    (ModCloneGen.distPartRule (partOf p)).bind (fun x => modShareRule x.1) = some (distCloneRule p) := by
  cases p <;> rfl

theorem gen_distCloneFaithful_eq (p : ModPart) :
    (ModCloneGen.distPartRule (partOf p)).map (fun x => x.2) = some true := by
  cases p <;> rfl

theorem gen_overrides_eq :
    ModCloneGen.networkCloneSteps = none ∧ ModCloneGen.moduleDictCloneSteps = none := ⟨rfl, rfl⟩

/-! ## the two levels composed -/

/-- the generated rule table of one module whose recorded arguments nest `D` deep -/
def genModuleRules (D : Nat) : Option (List Rule) :=
  (modParts D).mapM fun p => (ModCloneGen.partRule (partOf p)).bind (fun x => modShareRule x.1)

theorem gen_moduleRules_eq (D : Nat) : genModuleRules D = some (moduleRules D) := by
  unfold genModuleRules moduleRules
  generalize modParts D = ps
  induction ps with
  | nil => rfl
  | cons p ps ih => simp only [List.mapM_cons, gen_moduleCloneRule_eq p, ih, List.map_cons]; rfl

/-- one attribute of the agent, refined: a network becomes the parts of its module -/
def refineSpec (D : Nat) (x : AttrSpec × Bool × Bool) : Option (List Rule) :=
  if x.1.kind = .network then
    (genRule? x.1 x.2.1 x.2.2).bind fun r => if r = .fresh then genModuleRules D else some [r]
  else (genRule? x.1 x.2.1 x.2.2).map fun r => [r]

/-- agent-level table (generated from `EvolvableAlgorithm.clone`) ∘ module-level table (generated from
    `EvolvableModule.clone`) -/
def refinedRules (D : Nat) (specs : List (AttrSpec × Bool × Bool)) : Option (List Rule) :=
  (specs.mapM (refineSpec D)).map List.flatten

def refinedModel (D : Nat) (x : AttrSpec × Bool × Bool) : List Rule :=
  if x.1.kind = .network then moduleRules D else [ruleOf false x.1]

theorem refineSpec_eq (D : Nat) (x : AttrSpec × Bool × Bool) (h : x.1.ctorArg = true → x.2.1 = false) :
    refineSpec D x = some (refinedModel D x) := by
  unfold refineSpec refinedModel
  rw [gen_rule_eq x.1 x.2.1 x.2.2 h]
  by_cases hk : x.1.kind = .network
  · simp only [hk, if_true, Option.bind_some]
    have : ruleOf false x.1 = .fresh := by simp [ruleOf, hk]
    simp only [this, if_true, gen_moduleRules_eq]
  · simp only [hk, if_false, Option.map_some]

theorem refinedRules_eq (D : Nat) (specs : List (AttrSpec × Bool × Bool)) (hs : HooksSpareCtorArgs specs) :
    refinedRules D specs = some ((specs.map (refinedModel D)).flatten) := by
  unfold refinedRules
  have : specs.mapM (refineSpec D) = some (specs.map (refinedModel D)) := by
    induction specs with
    | nil => rfl
    | cons x xs ih =>
      have hx := refineSpec_eq D x (hs x (List.mem_cons_self ..))
      have hxs := ih (fun y hy => hs y (List.mem_cons_of_mem _ hy))
      simp only [List.mapM_cons, hx, hxs, List.map_cons]
      rfl
  rw [this]; rfl

/-- the rule of part `k` of a module, for every depth -/
theorem moduleRules_getElem? (D k : Nat) :
    (moduleRules D)[k]? = (modParts D)[k]?.map moduleCloneRule := by
  simp [moduleRules, List.getElem?_map]

/-- a module clone shares no part with the original -/
theorem moduleCloneRule_fresh (p : ModPart) : moduleCloneRule p = .fresh := by
  cases p <;> simp [moduleCloneRule, moduleCloneRuleOf, initArgRule]

theorem modParts_getElem? (D k : Nat) :
    (modParts D)[k]? = if k = 0 then some .params else if k ≤ D then some (.initArg (k - 1))
      else if k = D + 1 then some .methodLists else none := by
  unfold modParts
  cases k with
  | zero => simp
  | succ k =>
    simp only [List.getElem?_cons_succ, Nat.succ_ne_zero, if_false, Nat.add_sub_cancel]
    by_cases h : k < D
    · rw [List.getElem?_append_left (by simpa using h)]
      simp [h, Nat.succ_le_of_lt h]
    · rw [List.getElem?_append_right (by simpa using Nat.le_of_not_lt h)]
      have h1 : ¬ k + 1 ≤ D := by omega
      simp only [List.length_map, List.length_range, h1, if_false]
      by_cases h2 : k = D
      · subst h2; simp
      · have : k - D ≠ 0 := by omega
        have h3 : ¬ k + 1 = D + 1 := by omega
        simp [this, h2]

/-- parameters and every level of the recorded arguments are private to a module clone -/
theorem moduleRules_private (D k : Nat) : (moduleRules D)[k]? ≠ some Rule.byRef := by
  rw [moduleRules_getElem?]
  cases (modParts D)[k]? with
  | none => simp
  | some p => simp [moduleCloneRule_fresh p]

end Heap
