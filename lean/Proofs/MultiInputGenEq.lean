import Proofs.ArchGenEq
import Gen.MultiInputGen

/-!
  Proofs/MultiInputGenEq.lean — the definitions GENERATED from the source text of `EvolvableMultiInput`
  (`Gen/MultiInputGen.lean`, written by `harness/py2lean_multiinput.py` on every run of the C03 check) are EQUAL to
  the hand-written model of `Model/Arch.lean`:
  * the space predicates (`is_vector_space`, `is_adhoc_vector_space`, `is_image_space`) = `SubSpace.isPlainVector` /
    `isVector` / the image test, for every sub-space;
  * the `for` loop of `build_feature_extractor` = `filterMap SubSpace.extractor` for every list of sub-spaces and every
    dict built so far; `build_feature_extractor` = `multiNet`; `calc_extracted_features_dim` = latent × number of
    latent modules; `__init__` = the record with `final_dense = (multiFinalIn …, num_outputs)`;
    `recreate_network` likewise on every state whose cached fields are those of the observation space (`builtOK`,
    established by `init`: `builtOK_init`);
  * `add_latent_node` / `remove_latent_node` = `Latent.step` with `latentDrawOK`, and the bounds on the record of ints
    for every non-negative explicit argument and every draw.
-/

namespace Arch
open ArchGen

set_option linter.unusedSimpArgs false
set_option linter.unusedTactic false

@[reducible] def SubSpace.toGen (s : SubSpace) : MultiInputGen.Space :=
  { cls := s.cls, ndim := s.ndim, flatdim := s.flatdim }
def SubSpaces.toGen (obs : SubSpaces) : MultiInputGen.Spaces := obs.map (fun e => (e.1, e.2.toGen))

theorem gen_is_vector_space_eq (s : SubSpace) :
    MultiInputGen.is_vector_space s.toGen = s.isPlainVector := by
  rw [Bool.eq_iff_iff]
  simp [MultiInputGen.is_vector_space, SubSpace.isPlainVector, SubSpace.toGen, or_assoc]

theorem gen_is_adhoc_vector_space_eq (s : SubSpace) (r : Bool) :
    MultiInputGen.is_adhoc_vector_space s.toGen r = s.isVector r := by
  rw [Bool.eq_iff_iff]
  simp [MultiInputGen.is_adhoc_vector_space, gen_is_vector_space_eq, MultiInputGen.is_box_space_ndim,
    SubSpace.isVector, SubSpace.toGen, or_assoc]

theorem gen_is_image_space_eq (s : SubSpace) :
    MultiInputGen.is_image_space s.toGen = (s.cls == "Box" && s.ndim == 3) := by
  rw [Bool.eq_iff_iff]
  simp [MultiInputGen.is_image_space, MultiInputGen.is_box_space_ndim, SubSpace.toGen]

theorem toGen_keys (obs : SubSpaces) : (SubSpaces.toGen obs).map Prod.fst = obs.map Prod.fst := by
  simp [SubSpaces.toGen, List.map_map, Function.comp_def]

theorem gen_vector_spaces_eq (obs : SubSpaces) (r : Bool) :
    (SubSpaces.toGen obs).filter (fun kv => decide (MultiInputGen.is_adhoc_vector_space kv.2 (decide (r = true)) = true)) =
      SubSpaces.toGen (multiVecSpaces r obs) := by
  simp [SubSpaces.toGen, multiVecSpaces, List.filter_map, Function.comp_def, gen_is_adhoc_vector_space_eq]

theorem gen_vector_spaces_eq' (obs : SubSpaces) (r : Bool) :
    (SubSpaces.toGen obs).filter (fun kv => MultiInputGen.is_adhoc_vector_space kv.2 r) =
      SubSpaces.toGen (multiVecSpaces r obs) := by
  simp [SubSpaces.toGen, multiVecSpaces, List.filter_map, Function.comp_def, gen_is_adhoc_vector_space_eq]

theorem gen_get_total_flatdim_eq (obs : SubSpaces) :
    MultiInputGen.get_total_flatdim (SubSpaces.toGen obs) = (obs.map (fun e => e.2.flatdim)).sum := by
  simp [MultiInputGen.get_total_flatdim, SubSpaces.toGen, List.map_map, Function.comp_def]

theorem gen_loop_eq (o v : MultiInputGen.Spaces) (m : Bool) (n : String) (t : Int) (obs : SubSpaces)
    (acc : MultiInputGen.Net) :
    MultiInputGen.build_feature_extractor.loop0 o v m n t (SubSpaces.toGen obs) acc =
      acc ++ obs.filterMap (fun e => (e.2.extractor (v.map Prod.fst) e.1).map (fun c => (e.1, c))) := by
  induction obs generalizing acc with
  | nil => simp [SubSpaces.toGen, MultiInputGen.build_feature_extractor.loop0]
  | cons e rest ih =>
    have ih' := fun acc => ih acc
    simp only [SubSpaces.toGen, List.map_cons] at ih' ⊢
    unfold MultiInputGen.build_feature_extractor.loop0
    simp only [gen_is_image_space_eq, ih', List.filterMap_cons, SubSpace.extractor]
    by_cases h1 : e.2.cls = "Box" <;> by_cases h2 : e.2.ndim = 0 <;> by_cases h3 : e.2.ndim = 1 <;>
      by_cases h4 : e.2.ndim = 3 <;> by_cases h5 : e.2.ndim = 2 <;> by_cases h6 : e.1 ∈ v.map Prod.fst <;>
      simp_all <;> omega

theorem sum_map_const {α : Type} (l : List α) (c : Int) : (l.map (fun _ => c)).sum = c * (l.length : Int) := by
  induction l with
  | nil => simp
  | cons a t ih => simp [ih, Int.mul_add]; omega

theorem gen_build_feature_extractor_eq (obs : SubSpaces) (r mlp : Bool) (name : String) (t : Int) :
    MultiInputGen.build_feature_extractor (SubSpaces.toGen obs) (SubSpaces.toGen (multiVecSpaces r obs)) mlp name t =
      multiNet r mlp name obs := by
  unfold MultiInputGen.build_feature_extractor multiNet
  simp only [gen_loop_eq, toGen_keys, List.nil_append]
  cases mlp <;> simp

theorem gen_calc_extracted_features_dim_eq (lat : Int) (r mlp : Bool) (name : String) (obs : SubSpaces) :
    MultiInputGen.calc_extracted_features_dim lat (multiNet r mlp name obs) (SubSpaces.toGen (multiVecSpaces r obs)) =
      lat * ((multiLatentMods r mlp name obs).length : Int) := by
  unfold MultiInputGen.calc_extracted_features_dim multiLatentMods
  rw [sum_map_const, toGen_keys]
  congr 3
  apply List.filter_congr
  intro e _
  simp

/-- the width `__init__` gives `final_dense`, and every field of the width arithmetic -/
theorem gen_init_eq (obs : SubSpaces) (no lat lo hi : Int) (mlp r : Bool) (name : String) :
    MultiInputGen.init (SubSpaces.toGen obs) no lat mlp r lo hi name =
      { observation_space := SubSpaces.toGen obs, num_outputs := no, latent_dim := lat, vector_space_mlp := mlp,
        recurrent := r, mlp_name := name, vector_spaces := SubSpaces.toGen (multiVecSpaces r obs),
        total_vector_dims := multiVecDims r obs, feature_net := multiNet r mlp name obs,
        extracted_features_dim := lat * ((multiLatentMods r mlp name obs).length : Int),
        final_dense := (multiFinalIn r mlp name lat obs, no) } := by
  unfold MultiInputGen.init
  simp only [Bool.decide_eq_true, gen_vector_spaces_eq', gen_vector_spaces_eq, gen_get_total_flatdim_eq, gen_build_feature_extractor_eq,
    gen_calc_extracted_features_dim_eq, multiFinalIn, multiVecDims]
  cases mlp <;> simp

/-- the fields `recreate_network` reads are the ones `__init__` computed from the observation space -/
def builtOK (s : MultiInputGen.Built) (obs : SubSpaces) : Prop :=
  s.observation_space = SubSpaces.toGen obs ∧ s.vector_spaces = SubSpaces.toGen (multiVecSpaces s.recurrent obs) ∧
  s.total_vector_dims = multiVecDims s.recurrent obs

theorem gen_recreate_network_eq (s : MultiInputGen.Built) (obs : SubSpaces) (h : builtOK s obs) :
    MultiInputGen.recreate_network s =
      { s with feature_net := multiNet s.recurrent s.vector_space_mlp s.mlp_name obs,
               final_dense := (multiFinalIn s.recurrent s.vector_space_mlp s.mlp_name s.latent_dim obs, s.num_outputs) } := by
  obtain ⟨h1, h2, h3⟩ := h
  unfold MultiInputGen.recreate_network
  simp only [h1, h2, gen_build_feature_extractor_eq, gen_calc_extracted_features_dim_eq, multiFinalIn, h3]
  cases hm : s.vector_space_mlp <;> simp

theorem builtOK_init (obs : SubSpaces) (no lat lo hi : Int) (mlp r : Bool) (name : String) :
    builtOK (MultiInputGen.init (SubSpaces.toGen obs) no lat mlp r lo hi name) obs := by
  rw [gen_init_eq]; exact ⟨rfl, rfl, rfl⟩

/-! ## the latent-node mutations of `EvolvableMultiInput` -/

@[reducible] def Latent.toMulti (l : Latent) : MultiInputGen.EvolvableMultiInput.State :=
  { latent_dim := l.dim, max_latent_dim := l.maxDim, min_latent_dim := l.minDim }

def multiLatentCall (me : LatentMethod) (s : MultiInputGen.EvolvableMultiInput.State) (arg : Option Int) (d0 : Int) :
    Option (MultiInputGen.EvolvableMultiInput.State × Ret × String) :=
  match me with
  | .add => MultiInputGen.EvolvableMultiInput.add_latent_node s arg d0
  | .remove => MultiInputGen.EvolvableMultiInput.remove_latent_node s arg d0

theorem gen_multi_latent_step_eq (l : Latent) (me : LatentMethod) (a : Args) (x : Flags) :
    multiLatentCall me l.toMulti (argOpt x.xn a.n) a.n =
      if latentDrawOK a x then
        some ((l.step me a).1.toMulti, amountRet "numb_new_nodes" a, (l.step me a).2.name)
      else none := by
  obtain ⟨xl, xn, xk, xkl⟩ := x
  cases me <;> cases xn <;>
    simp only [Latent.step, apply_ite Latent.toMulti, apply_ite Prod.fst,
      apply_ite Prod.snd, apply_ite Applied.name, amountRet, Applied.name] <;>
    simp only [multiLatentCall, MultiInputGen.EvolvableMultiInput.add_latent_node,
      MultiInputGen.EvolvableMultiInput.remove_latent_node, argOpt,
      latentDrawOK, nodeDrawOK, Latent.toMulti, mem8,
      Bool.false_eq_true, if_false, if_true, Bool.not_false, Bool.not_true, Bool.false_or, Bool.true_or,
      Bool.or_true, Bool.and_true, Bool.true_and, Bool.or_false, Int.ofNat_lt, gt_iff_lt, ge_iff_le] <;>
    arch_fin

theorem gen_multi_mutation_types :
    kindNames MultiInputGen.EvolvableMultiInput.mutationTypes "NODE" = ["add_latent_node", "remove_latent_node"] ∧
    kindNames MultiInputGen.EvolvableMultiInput.mutationTypes "LAYER" = [] := by
  constructor <;> decide

def multiLatentOK (s : MultiInputGen.EvolvableMultiInput.State) : Prop :=
  s.min_latent_dim ≤ s.latent_dim ∧ s.latent_dim ≤ s.max_latent_dim

/-- every argument (explicit and non-negative, or omitted with ANY draw, also one outside the list): the result,
    if there is one, is within the bounds, the bounds are untouched, and the width moved by exactly the amount
    in the returned dict or not at all -/
theorem gen_multi_latent_bounds (me : LatentMethod) (s s' : MultiInputGen.EvolvableMultiInput.State)
    (arg : Option Int) (d0 : Int) (ret : Ret) (nm : String) (hs : multiLatentOK s)
    (harg : ∀ v, arg = some v → 0 ≤ v) (h : multiLatentCall me s arg d0 = some (s', ret, nm)) :
    multiLatentOK s' ∧ s'.min_latent_dim = s.min_latent_dim ∧ s'.max_latent_dim = s.max_latent_dim := by
  obtain ⟨h1, h2⟩ := hs
  cases me <;> cases arg <;>
    simp only [multiLatentCall, MultiInputGen.EvolvableMultiInput.add_latent_node,
      MultiInputGen.EvolvableMultiInput.remove_latent_node] at h <;>
    (try have hv := harg _ rfl) <;>
    split_ifs at h <;>
    simp only [Option.some.injEq, Prod.mk.injEq, reduceCtorEq] at h <;>
    (try obtain ⟨rfl, _, _⟩ := h) <;>
    simp_all [multiLatentOK] <;> omega

end Arch
