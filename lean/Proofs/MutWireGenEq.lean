import Gen.MutWireGen
import Proofs.CoherenceWeights

/-!
  Proofs/MutWireGenEq.lean — the wiring GENERATED from `agilerl/hpo/mutation.py` (Gen/MutWireGen.lean: lists of
  effects over the registry-as-data) is the wiring of the hand model `Model/Coherence.lean`.

  `step` interprets one effect with the model's primitives (`copyMod`, `cloneMutate`'s two cases, `applyHook`,
  optimizer groups over `paramsOf`), `regOf` reads the registry off a model agent.  The `gen_*_eq` theorems hold for
  EVERY registry descriptor.

  Instantiation of the run-time predicates the source tests (the parameters of the generated definitions):
  no torch compiler, no DeepSpeed optimizer, networks can change their activation, the policy's first module has
  mutation methods (the other case is `gen_architecture_mutate_none_eq`), `last_mutation_attr` is not a list, a bandit is
  a single-agent algorithm, the old wrapper's `network_names` / `lr_name` / list-ness are the model's optimizer record,
  a list optimizer is registered for one network attribute (`OptShapeOK`).
-/
set_option linter.unusedSimpArgs false

namespace MutWireGenEq
open Coherence MutWireGen

/-! ### the registry of a model agent -/

def isEvalAt (rs : List Role) (k : Nat) : Bool :=
  match rs[k]? with
  | some r => r.isEval
  | none => false

def evalIdxs (rs : List Role) : List Nat := (List.range rs.length).filter (isEvalAt rs)

def sharedOf (rs : List Role) (k : Nat) : List Nat :=
  (List.range rs.length).filter fun s => rs[s]? == some (Role.shared k)

def groupsOf (rs : List Role) : List Grp :=
  (evalIdxs rs).map fun k =>
    { eval := k,
      shared := if (sharedOf rs k).isEmpty then none else some (sharedOf rs k),
      policy := rs[k]? == some (Role.eval true) }

def cfgsOf (os : List Opt) : List OptCfg := os.mapIdx fun q o => { name := q, networks := o.nets, lr := o.lr }

/-- the registry of agent `a`; `p` is what `registry.policy` answers -/
def regOf (a : Agent) (p : Nat) : Registry :=
  { groups := groupsOf (roles a.nets), optimizers := cfgsOf a.opts, policy := p }

/-! ### interpretation of effects -/

structure Ctx where
  multi   : Bool
  fresh   : Fresh
  stamp   : Nat
  applied : List (Option Change)
  pol     : Nat
  hpVal   : Rat
  nameOf  : Nat → String
  kind    : Agent → Agent
  a0      : Agent

def shapeOK (multi : Bool) : Shape → Bool
  | .list => multi
  | .single => !multi

def readNets (ctx : Ctx) (nets : List NetAttr) : When → List NetAttr
  | .cur => nets
  | .start => ctx.a0.nets

def posIdx (j : Nat) : Pos → Nat
  | .same => j
  | .first => 0

/-- the method name a `MethE` denotes at position `j` (`none`: nothing applied) -/
def methOf (ctx : Ctx) (j : Nat) : MethE → Option String
  | .sampled a => if a = ctx.pol then (ctx.applied.getD j none).map (·.1) else none
  | .appliedTo a p => if a = ctx.pol then (ctx.applied.getD (posIdx j p) none).map (·.1) else none
  | .opaque _ => none

/-- the change of the architecture the keyword dict determines for module `j` of network `k` -/
def chgOf (ctx : Ctx) (k j : Nat) : KwE → Option String
  | .empty => if k = ctx.pol then (ctx.applied.getD j none).map (·.2) else some "own draw"
  | .returnedBy a p => if a = ctx.pol then (ctx.applied.getD (posIdx j p) none).map (·.2) else none
  | .opaque _ => none

def resolve (ctx : Ctx) (k j : Nat) (meth : MethE) (kw : KwE) : Option Change :=
  match methOf ctx j meth, chgOf ctx k j kw with
  | some m, some c => some (m, c)
  | _, _ => none

/-- the architecture call on a fresh clone: `cloneMutate`'s two cases -/
def mutated (ctx : Ctx) (k j : Nat) (ap : Option Change) (c : Mod) : Mod :=
  if ap.isSome then { c with arch := (ctx.stamp, k, j), wEnc := (ctx.stamp, k, j), wHead := (ctx.stamp, k, j), lastMut := ap }
  else { c with lastMut := none }

def applyOp (ctx : Ctx) (k j : Nat) : ModOp → Mod → Mod
  | .call meth kw, c => mutated ctx k j (resolve ctx k j meth kw) c
  | .whenNone meth op, c => if (methOf ctx j meth).isNone then applyOp ctx k j op c else c
  | .whenSome meth op, c => if (methOf ctx j meth).isSome then applyOp ctx k j op c else c
  | .setNone f, c => if f = "last_mutation_attr" then { c with lastMut := none } else c
  | .writeWeights, c => { c with wEnc := (ctx.stamp, k, j), wHead := (ctx.stamp, k, j) }
  | .callNamed n, c =>
    if n = "change_activation" then
      { copyMod (ctx.stamp, k, j) (ctx.fresh.at k j) c with arch := (ctx.stamp, k, j), wEnc := c.wEnc, wHead := c.wHead }
    else c
  | .load _ _ _ _, c => c
  | .opaque _, c => c

/-- `cls(**init_dict)` + `load_state_dict`: a copy only if the whole state dict is loaded -/
def buildNew (ctx : Ctx) (dst j : Nat) (what : Load) (m : Mod) : Mod :=
  match what with
  | .stateDict => copyMod (ctx.stamp, dst, j) (ctx.fresh.at dst j) m
  | .namedParameters =>
    { copyMod (ctx.stamp, dst, j) (ctx.fresh.at dst j) m with wEnc := (ctx.stamp, dst, j), wHead := (ctx.stamp, dst, j) }

def clsOK (cls : ClsE) (r : Ref) : Bool :=
  match cls with
  | .typeOf r' => r' == r
  | .typeOfUnwrapped r' => r' == r
  | .opaque _ => false

/-- the modules of a network value assigned to attribute `dst` -/
def evalNet (ctx : Ctx) (nets : List NetAttr) (dst : Nat) (v : NetE) : Option (List Mod) :=
  if !shapeOK ctx.multi v.shape then none else
  match v.origin, v.ops with
  | .attached r, [] => if r.p = .same then some (modsAt (readNets ctx nets r.w) r.attr) else none
  | .clone r, ops =>
    if r.p = .same then
      some ((modsAt (readNets ctx nets r.w) r.attr).mapIdx fun j m =>
        ops.foldl (fun c op => applyOp ctx dst j op c) (copyMod (ctx.stamp, dst, j) (ctx.fresh.at dst j) m))
    else none
  | .new cls init, [.load what src strict _] =>
    if clsOK cls init && init == src && src.p == .same && !strict then
      some ((modsAt (readNets ctx nets src.w) src.attr).mapIdx fun j m => buildNew ctx dst j what m)
    else none
  | _, _ => none

def setMods (nets : List NetAttr) (dst : Nat) (ms : List Mod) : List NetAttr :=
  nets.mapIdx fun k n => if k = dst then { n with mods := ms } else n

def optCells (nets : List NetAttr) : OptNets → Option (List (List Nat))
  | .one k => some (paramsOf nets k)
  | .many ks => some (ks.flatMap (paramsOf nets))
  | .opaque _ => none

def optLr (lrs : List Rat) : LrE → Option Rat
  | .attr n => some (lrs.getD n 0)
  | .wrapperLr => none
  | .opaque _ => none

def kept (b : OptBuild) : Bool :=
  b.network_names == .wrapper "network_names" && b.lr_name == .wrapper "lr_name" && b.multiagent == .wrapper "multiagent"

/-- `OptimizerWrapper(networks=…, lr=…, network_names=opt.network_names, lr_name=opt.lr_name, …)` -/
def optGroups (nets : List NetAttr) (lrs : List Rat) (b : OptBuild) : List Group :=
  match optCells nets b.networks, optLr lrs b.lr, kept b with
  | some cs, some lr, true => cs.map fun c => { cells := c, lr := lr }
  | _, _, _ => []

def buildOpt (nets : List NetAttr) (lrs : List Rat) (b : OptBuild) (o : Opt) : Opt :=
  { o with groups := optGroups nets lrs b }

def labelStr (ctx : Ctx) : Label → String
  | .str s => s
  | .attrName n => ctx.nameOf n
  | .applied a _ => if a = ctx.pol then archLabel ctx.applied else "?"
  | .opaque _ => "?"

def step (ctx : Ctx) (a : Agent) : Eff → Agent
  | .kind => ctx.kind a
  | .indCall m => if m = "mutation_hook" then { a with nets := applyHook a.hook a.nets } else a
  | .setNet dst v => { a with nets := setMods a.nets dst ((evalNet ctx a.nets dst v).getD []) }
  | .inPlace attr op =>
    { a with nets := a.nets.mapIdx fun k n =>
        if k = attr then { n with mods := n.mods.mapIdx fun j m => applyOp ctx k j op m } else n }
  | .setOpt q b => { a with opts := a.opts.mapIdx fun q' o => if q' = q then buildOpt a.nets a.lrs b o else o }
  | .setVal n => { a with lrs := a.lrs.set n ctx.hpVal }
  | .setMut l => { a with label := labelStr ctx l }
  | .setOpaque _ _ => a
  | .optOpaque _ _ => a
  | .setOther _ => a
  | .raise _ => a
  | .untranslated _ => a

def run (ctx : Ctx) (effs : List Eff) (a : Agent) : Agent := effs.foldl (step ctx) a

theorem run_append (ctx : Ctx) (e1 e2 : List Eff) (a : Agent) : run ctx (e1 ++ e2) a = run ctx e2 (run ctx e1 a) := by
  simp [run, List.foldl_append]

theorem run_nil (ctx : Ctx) (a : Agent) : run ctx [] a = a := rfl
theorem run_cons (ctx : Ctx) (e : Eff) (es : List Eff) (a : Agent) : run ctx (e :: es) a = run ctx es (step ctx a e) := rfl

/-- the old wrapper's fields, read off the model's optimizer record -/
def wNames (os : List Opt) (q : Nat) : List Nat := (os[q]?.map (·.nets)).getD []
def wLr (os : List Opt) (q : Nat) : Nat := (os[q]?.map (·.lr)).getD 0
def wMulti (os : List Opt) (q : Nat) : Bool := (os[q]?.map (·.multi)).getD false

/-- a list optimizer (multi-agent) is registered for ONE network attribute: `reinit_opt` rebuilds it from
    `network_names[0]` only -/
def OptShapeOK (os : List Opt) : Prop := ∀ o ∈ os, o.multi = true → o.nets.length = 1


/-! ### optimizers -/

def optTargets (E : List Eff) (q : Nat) : Bool :=
  E.any fun e => match e with | .setOpt q' _ => q' == q | _ => false

theorem buildOpt_idem (nets : List NetAttr) (lrs : List Rat) (b : OptBuild) (o : Opt) :
    buildOpt nets lrs b (buildOpt nets lrs b o) = buildOpt nets lrs b o := by
  rfl

theorem mapIdx_mapIdx' {α β γ} (l : List α) (f : Nat → α → β) (g : Nat → β → γ) :
    (l.mapIdx f).mapIdx g = l.mapIdx fun i x => g i (f i x) := by
  apply List.ext_getElem?
  intro i
  simp only [List.getElem?_mapIdx]
  cases l[i]? <;> rfl

theorem run_setOpts (ctx : Ctx) (B : Nat → OptBuild) (E : List Eff) (hE : ∀ e ∈ E, ∃ q, e = Eff.setOpt q (B q)) (b : Agent) :
    run ctx E b = { b with opts := b.opts.mapIdx fun q o => if optTargets E q then buildOpt b.nets b.lrs (B q) o else o } := by
  induction E generalizing b with
  | nil =>
    simp only [run_nil, optTargets, List.any_nil, Bool.false_eq_true, if_false]
    have : (b.opts.mapIdx fun _ o => o) = b.opts := mapIdx_eq_self_of _ _ (fun _ _ _ => rfl)
    rw [this]
  | cons e E ih =>
    obtain ⟨q0, rfl⟩ := hE e (by simp)
    rw [run_cons, ih (fun e he => hE e (by simp [he]))]
    simp only [step, mapIdx_mapIdx']
    congr 1
    apply List.ext_getElem?
    intro q
    simp only [List.getElem?_mapIdx]
    cases b.opts[q]? with
    | none => rfl
    | some o =>
      simp only [Option.map_some, Option.some.injEq, optTargets, List.any_cons]
      by_cases hq : q = q0
      · subst hq
        simp [buildOpt_idem]
      · have : (q0 == q) = false := by simp [Ne.symm hq]
        simp [hq, this, optTargets]


/-- the wrapper `reinit_opt` builds for optimizer attribute `q`, given the old wrapper's fields -/
def optB (os : List Opt) (q : Nat) : OptBuild :=
  { networks := if wMulti os q || (wNames os q).length == 1 then .one ((wNames os q).headD 0) else .many (wNames os q),
    lr := .attr (wLr os q),
    optimizer_cls := .config "get_optimizer_cls()", optimizer_kwargs := .wrapper "optimizer_kwargs",
    network_names := .wrapper "network_names", lr_name := .wrapper "lr_name", multiagent := .wrapper "multiagent" }

/-- `reinit_opt(individual, optimizer=cfg)`: one wrapper re-created (no DeepSpeed) -/
theorem gen_reinit_opt_one_eq (os : List Opt) (oc : OptCfg) :
    reinit_opt_one oc (fun _ => false) (wLr os) (wNames os) (wMulti os) = [Eff.setOpt oc.name (optB os oc.name)] := by
  unfold reinit_opt_one optB
  cases h1 : wMulti os oc.name <;> cases h2 : ((wNames os oc.name).length == 1) <;> simp [h1, h2]

/-- `reinit_opt(individual)`: every optimizer of the registry, in registry order -/
theorem gen_reinit_opt_list (os : List Opt) (reg : Registry) :
    reinit_opt reg (fun _ => false) (wLr os) (wNames os) (wMulti os) =
      reg.optimizers.flatMap fun oc => [Eff.setOpt oc.name (optB os oc.name)] := by
  unfold reinit_opt optB
  congr 1
  funext oc
  cases h1 : wMulti os oc.name <;> cases h2 : ((wNames os oc.name).length == 1) <;> simp [h1, h2]

theorem wNames_of {os : List Opt} {q : Nat} {o : Opt} (h : os[q]? = some o) : wNames os q = o.nets := by simp [wNames, h]
theorem wLr_of {os : List Opt} {q : Nat} {o : Opt} (h : os[q]? = some o) : wLr os q = o.lr := by simp [wLr, h]
theorem wMulti_of {os : List Opt} {q : Nat} {o : Opt} (h : os[q]? = some o) : wMulti os q = o.multi := by simp [wMulti, h]

/-- the generated wrapper is the model's `rebuildOpt` -/
theorem buildOpt_optB (nets : List NetAttr) (lrs : List Rat) (os : List Opt) (hs : OptShapeOK os) (q : Nat) (o : Opt)
    (h : os[q]? = some o) : buildOpt nets lrs (optB os q) o = rebuildOpt nets lrs o := by
  unfold buildOpt rebuildOpt optGroups optB
  rw [wNames_of h, wLr_of h, wMulti_of h]
  have hk : kept { networks := if o.multi || (o.nets.length == 1) then OptNets.one (o.nets.headD 0) else OptNets.many o.nets,
                   lr := LrE.attr o.lr, optimizer_cls := .config "get_optimizer_cls()", optimizer_kwargs := .wrapper "optimizer_kwargs",
                   network_names := .wrapper "network_names", lr_name := .wrapper "lr_name", multiagent := .wrapper "multiagent" } = true := by
    simp [kept]
  simp only [hk, optLr]
  by_cases hc : (o.multi || (o.nets.length == 1)) = true
  · have hl : o.nets.length = 1 := by
      rcases Bool.or_eq_true _ _ |>.mp hc with hm | hl
      · exact hs o (mem_of_getElem? h) hm
      · simpa using hl
    obtain ⟨x, hx⟩ : ∃ x, o.nets = [x] := by
      match hn : o.nets, hl with
      | [x], _ => exact ⟨x, rfl⟩
    simp [hc, optCells, expected, hx]
  · simp [hc, optCells, expected]

theorem optTargets_flatMap {α} (l : List α) (f : α → List Eff) (q : Nat) :
    optTargets (l.flatMap f) q = l.any fun x => optTargets (f x) q := by
  simp [optTargets, List.any_flatMap]

theorem optTargets_cfgs (os : List Opt) (c : OptCfg → Bool) (B : Nat → OptBuild) (q : Nat) (o : Opt) (h : os[q]? = some o) :
    optTargets ((cfgsOf os).flatMap fun oc => if c oc then [Eff.setOpt oc.name (B oc.name)] else []) q =
      c { name := q, networks := o.nets, lr := o.lr } := by
  rw [optTargets_flatMap]
  cases hc : c { name := q, networks := o.nets, lr := o.lr }
  · rw [List.any_eq_false]
    intro oc hoc
    simp only [cfgsOf, List.mem_mapIdx] at hoc
    obtain ⟨i, hi, rfl⟩ := hoc
    by_cases hiq : i = q
    · subst hiq
      have : os[i] = o := by
        have := List.getElem?_eq_getElem hi
        rw [h] at this; exact (Option.some.inj this).symm
      simp [this, hc, optTargets]
    · cases hci : c { name := i, networks := os[i].nets, lr := os[i].lr } <;> simp [optTargets, hiq]
  · rw [List.any_eq_true]
    refine ⟨{ name := q, networks := o.nets, lr := o.lr }, ?_, by simp [hc, optTargets]⟩
    simp only [cfgsOf, List.mem_mapIdx]
    have hq : q < os.length := (List.getElem?_eq_some_iff.mp h).1
    refine ⟨q, hq, ?_⟩
    have : os[q] = o := (List.getElem?_eq_some_iff.mp h).2
    rw [this]

theorem optTargets_cfgs_all (os : List Opt) (B : Nat → OptBuild) (q : Nat) (o : Opt) (h : os[q]? = some o) :
    optTargets ((cfgsOf os).flatMap fun oc => [Eff.setOpt oc.name (B oc.name)]) q = true := by
  have := optTargets_cfgs os (fun _ => true) B q o h
  simpa using this

/-- running the generated `reinit_opt` = the model's `rebuildAll` -/
theorem gen_reinit_opt_eq (ctx : Ctx) (b : Agent) (hs : OptShapeOK b.opts) (reg : Registry) (hE : reg.optimizers = cfgsOf b.opts) :
    run ctx (reinit_opt reg (fun _ => false) (wLr b.opts) (wNames b.opts) (wMulti b.opts)) b = rebuildAll b := by
  rw [gen_reinit_opt_list]
  rw [hE, run_setOpts ctx (optB b.opts)]
  · unfold rebuildAll
    congr 1
    apply List.ext_getElem?
    intro q
    simp only [List.getElem?_mapIdx, List.getElem?_map]
    cases ho : b.opts[q]? with
    | none => rfl
    | some o =>
      simp only [Option.map_some, Option.some.injEq]
      rw [optTargets_cfgs_all b.opts (optB b.opts) q o ho]
      simp only [if_true]
      exact buildOpt_optB b.nets b.lrs b.opts hs q o ho
  · intro e he
    simp only [List.mem_flatMap] at he
    obtain ⟨oc, _, he⟩ := he
    simp only [List.mem_singleton] at he
    exact ⟨oc.name, he⟩


/-! ### networks -/

def netTargets (E : List Eff) (k : Nat) : Bool :=
  E.any fun e => match e with | .setNet k' _ => k' == k | _ => false

theorem netTargets_flatMap {α} (l : List α) (f : α → List Eff) (k : Nat) :
    netTargets (l.flatMap f) k = l.any fun x => netTargets (f x) k := by
  simp [netTargets, List.any_flatMap]

theorem netTargets_append (e1 e2 : List Eff) (k : Nat) : netTargets (e1 ++ e2) k = (netTargets e1 k || netTargets e2 k) := by
  simp [netTargets]

/-- a run of `setattr(individual, k, v)`s whose values do not depend on what the run itself rebinds (`P` is kept by
    rebinding the targets `T`): every target holds its value afterwards, nothing else changed -/
theorem run_setNets (ctx : Ctx) (G : Nat → List Mod) (P : List NetAttr → Prop) (T : Nat → Prop)
    (hP : ∀ nets k ms, P nets → T k → P (setMods nets k ms)) (E : List Eff)
    (hE : ∀ e ∈ E, ∃ k w, e = Eff.setNet k w ∧ T k ∧ ∀ nets, P nets → evalNet ctx nets k w = some (G k))
    (b : Agent) (hb : P b.nets) :
    run ctx E b = { b with nets := b.nets.mapIdx fun k n => if netTargets E k then { n with mods := G k } else n } := by
  induction E generalizing b with
  | nil =>
    simp only [run_nil, netTargets, List.any_nil, Bool.false_eq_true, if_false]
    have : (b.nets.mapIdx fun _ n => n) = b.nets := mapIdx_eq_self_of _ _ (fun _ _ _ => rfl)
    rw [this]
  | cons e E ih =>
    obtain ⟨k0, w, rfl, hT, hv⟩ := hE e (by simp)
    rw [run_cons]
    have hs : step ctx b (Eff.setNet k0 w) = { b with nets := setMods b.nets k0 (G k0) } := by
      simp only [step, hv b.nets hb, Option.getD_some]
    rw [hs, ih (fun e he => hE e (by simp [he])) _ (hP _ _ _ hb hT)]
    simp only [setMods, mapIdx_mapIdx']
    congr 1
    apply List.ext_getElem?
    intro k
    simp only [List.getElem?_mapIdx]
    cases b.nets[k]? with
    | none => rfl
    | some n =>
      simp only [Option.map_some, Option.some.injEq, netTargets, List.any_cons]
      by_cases hk : k = k0
      · subst hk
        by_cases ht : (E.any fun e => match e with | .setNet k' _ => k' == k | _ => false) = true <;> simp [ht]
      · have : (k0 == k) = false := by simp [Ne.symm hk]
        simp [hk, this]


/-! ### facts about `groupsOf` -/

theorem isEvalAt_iff (rs : List Role) (k : Nat) : isEvalAt rs k = true ↔ evalAt rs k := by
  unfold isEvalAt evalAt
  cases h : rs[k]? with
  | none => simp
  | some r => cases r <;> simp [Role.isEval]

theorem mem_evalIdxs (rs : List Role) (k : Nat) : k ∈ evalIdxs rs ↔ isEvalAt rs k = true := by
  unfold evalIdxs
  rw [List.mem_filter, List.mem_range]
  constructor
  · exact fun h => h.2
  · intro h
    refine ⟨?_, h⟩
    unfold isEvalAt at h
    cases hk : rs[k]? with
    | none => simp [hk] at h
    | some r => exact (List.getElem?_eq_some_iff.mp hk).1

theorem mem_sharedOf (rs : List Role) (k s : Nat) : s ∈ sharedOf rs k ↔ rs[s]? = some (Role.shared k) := by
  unfold sharedOf
  rw [List.mem_filter, List.mem_range]
  constructor
  · intro h; simpa using h.2
  · intro h
    exact ⟨(List.getElem?_eq_some_iff.mp h).1, by simp [h]⟩

/-- the shared names of a group, as the generated code walks them: `if g.shared is not None: for n in g.shared` -/
theorem shared_walk {β} (rs : List Role) (k : Nat) (f : Nat → List β) :
    (if (if (sharedOf rs k).isEmpty then none else some (sharedOf rs k)).isSome then
        ((if (sharedOf rs k).isEmpty then none else some (sharedOf rs k)).getD []).flatMap f else []) =
      (sharedOf rs k).flatMap f := by
  cases h : (sharedOf rs k).isEmpty
  · simp
  · have : sharedOf rs k = [] := by simpa using h
    simp [this]

/-! ### `reinit_from_mutated` and the tail of `Mutations.mutation` -/

/-- `reinit_from_mutated(getattr(individual, src))` assigned to `dst`: module `j` is `type(m)(**m.init_dict)` loaded with
    `m.state_dict()` where `m` is module `j` of `src` — the model's `copyMod` -/
theorem gen_reinit_from_mutated_eq (ctx : Ctx) (nets : List NetAttr) (dst src : Nat) :
    evalNet ctx nets dst (reinit_from_mutated src ctx.multi false) =
      some ((modsAt nets src).mapIdx fun j m => copyMod (ctx.stamp, dst, j) (ctx.fresh.at dst j) m) := by
  cases hm : ctx.multi <;>
    simp [reinit_from_mutated, evalNet, shapeOK, hm, clsOK, readNets, buildNew]

/-- the post-processing of one individual in `Mutations.mutation` (no torch compiler) -/
def tailEffs (gs : List Grp) (multi : Bool) : List Eff :=
  (gs.flatMap fun g =>
    if g.shared.isSome then (g.shared.getD []).flatMap fun n => [Eff.setNet n (reinit_from_mutated g.eval multi false)] else []) ++
  [Eff.indCall "mutation_hook"]

theorem gen_mutation_individual_shape (reg : Registry) (tc : Bool) (om : Nat → Bool) (multi : Bool) :
    mutation_individual reg false tc om multi = [Eff.kind] ++ tailEffs reg.groups multi := by
  cases multi <;> simp [mutation_individual, tailEffs, reinit_from_mutated]

theorem tail_walk (rs : List Role) (multi : Bool) :
    ((groupsOf rs).flatMap fun g =>
      if g.shared.isSome then (g.shared.getD []).flatMap fun n => [Eff.setNet n (reinit_from_mutated g.eval multi false)] else []) =
    (evalIdxs rs).flatMap fun k => (sharedOf rs k).flatMap fun s => [Eff.setNet s (reinit_from_mutated k multi false)] := by
  unfold groupsOf
  rw [List.flatMap_map]
  congr 1
  funext k
  exact shared_walk rs k _


/-- what a re-created shared network holds: copies of the modules of the network it shadows -/
def tailG (ctx : Ctx) (b : Agent) (s : Nat) : List Mod :=
  match (roles b.nets)[s]? with
  | some (Role.shared src) => (modsAt b.nets src).mapIdx fun j m => copyMod (ctx.stamp, s, j) (ctx.fresh.at s j) m
  | _ => []

theorem setMods_getElem? (nets : List NetAttr) (k : Nat) (ms : List Mod) (i : Nat) :
    (setMods nets k ms)[i]? = (nets[i]?).map fun n => if i = k then { n with mods := ms } else n := by
  simp [setMods, List.getElem?_mapIdx]

theorem modsAt_congr {n1 n2 : List NetAttr} {k : Nat} (h : n1[k]? = n2[k]?) : modsAt n1 k = modsAt n2 k := by
  simp [modsAt, h]

/-- **the generated post-processing is `finish`**: every shared network of every group is re-created from the network it
    shadows (full state dict), then the hook runs -/
theorem gen_tail_eq (ctx : Ctx) (b : Agent) (hd : DescOK (desc b)) :
    run ctx (tailEffs (groupsOf (roles b.nets)) ctx.multi) b = finish ctx.fresh ctx.stamp b := by
  unfold tailEffs
  rw [run_append, tail_walk]
  have hrun := run_setNets ctx (tailG ctx b)
    (fun nets => ∀ k, isEvalAt (roles b.nets) k = true → nets[k]? = b.nets[k]?)
    (fun s => isEvalAt (roles b.nets) s = false)
    (by
      intro nets k ms hP hT i hi
      rw [setMods_getElem?, hP i hi]
      cases hb : b.nets[i]? with
      | none => rfl
      | some n =>
        have : i ≠ k := by intro h; subst h; rw [hT] at hi; exact Bool.noConfusion hi
        simp [this])
    ((evalIdxs (roles b.nets)).flatMap fun k => (sharedOf (roles b.nets) k).flatMap fun s =>
      [Eff.setNet s (reinit_from_mutated k ctx.multi false)])
    (by
      intro e he
      simp only [List.mem_flatMap, List.mem_singleton] at he
      obtain ⟨k, hk, s, hs, rfl⟩ := he
      rw [mem_sharedOf] at hs
      rw [mem_evalIdxs] at hk
      refine ⟨s, _, rfl, ?_, ?_⟩
      · simp [isEvalAt, hs, Role.isEval]
      · intro nets hP
        rw [gen_reinit_from_mutated_eq, modsAt_congr (hP k hk)]
        simp [tailG, hs])
    b (fun _ _ => rfl)
  rw [hrun, run_cons, run_nil, finish_eq]
  simp only [step, if_true]
  congr 2
  unfold reShared
  apply List.ext_getElem?
  intro s
  simp only [List.getElem?_mapIdx]
  cases hn : b.nets[s]? with
  | none => rfl
  | some n =>
    simp only [Option.map_some, Option.some.injEq]
    have hrs : (roles b.nets)[s]? = some n.role := by simp [roles, hn]
    cases hr : n.role with
    | eval p =>
      have : netTargets ((evalIdxs (roles b.nets)).flatMap fun k => (sharedOf (roles b.nets) k).flatMap fun s =>
          [Eff.setNet s (reinit_from_mutated k ctx.multi false)]) s = false := by
        rw [netTargets_flatMap, List.any_eq_false]
        intro k _
        rw [Bool.not_eq_true, netTargets_flatMap, List.any_eq_false]
        intro s' hs'
        rw [mem_sharedOf] at hs'
        have : s' ≠ s := by
          intro h; subst h; rw [hrs, hr] at hs'; cases hs'
        simp [netTargets, this]
      simp [this]
    | shared src =>
      have hev : evalAt (roles b.nets) src := hd.srcEval s src (by simpa [desc, hr] using hrs)
      obtain ⟨e, he, _⟩ := (evalAt_iff b.nets src).mp hev
      have : netTargets ((evalIdxs (roles b.nets)).flatMap fun k => (sharedOf (roles b.nets) k).flatMap fun s =>
          [Eff.setNet s (reinit_from_mutated k ctx.multi false)]) s = true := by
        rw [netTargets_flatMap, List.any_eq_true]
        refine ⟨src, (mem_evalIdxs _ _).mpr ((isEvalAt_iff _ _).mpr hev), ?_⟩
        rw [netTargets_flatMap, List.any_eq_true]
        exact ⟨s, (mem_sharedOf _ _ _).mpr (by rw [hrs, hr]), by simp [netTargets]⟩
      simp only [this, if_true, he]
      simp [tailG, hrs, hr, modsAt, he]


/-! ### the mutation options -/

/-- `registry.policy` names the one evaluation network flagged as policy -/
def PolicyAt (a : Agent) (p : Nat) : Prop := ∀ k n, a.nets[k]? = some n → (n.role = Role.eval true ↔ k = p)

theorem gen_no_mutation_eq (ctx : Ctx) (a : Agent) : run ctx no_mutation a = { a with label := "None" } := rfl

theorem setMods_self (nets : List NetAttr) (k : Nat) : setMods nets k (modsAt nets k) = nets := by
  unfold setMods
  apply mapIdx_eq_self_of
  intro j n hj
  split
  · next h => subst h; simp [modsAt, hj]
  · rfl

/-- **`parameter_mutation`**: noise written in place into the policy's weights, the same objects stay the attribute,
    every optimizer re-created, `mut = "param"` -/
theorem gen_parameter_mutation_eq (ctx : Ctx) (a : Agent) (p : Nat) (hp : PolicyAt a p) (hs : OptShapeOK a.opts)
    (reg : Registry) (hreg : reg.optimizers = cfgsOf a.opts) (hpol : reg.policy = p) :
    run ctx (parameter_mutation reg ctx.multi (fun _ => false) (wLr a.opts) (wNames a.opts) (wMulti a.opts)) a =
      paramStep ctx.stamp a := by
  have key : ∀ sh, shapeOK ctx.multi sh = true →
      run ctx ([Eff.inPlace reg.policy ModOp.writeWeights] ++
        ([Eff.setNet reg.policy { shape := sh, origin := .attached ⟨reg.policy, .cur, .same⟩, ops := [] }] ++
          reinit_opt reg (fun _ => false) (wLr a.opts) (wNames a.opts) (wMulti a.opts) ++ [Eff.setMut (Label.str "param")])) a =
      paramStep ctx.stamp a := by
    intro sh hsh
    have hb : ∀ b : Agent, b.opts = a.opts →
        run ctx (reinit_opt reg (fun _ => false) (wLr a.opts) (wNames a.opts) (wMulti a.opts)) b = rebuildAll b := by
      intro b hb
      rw [← hb]
      exact gen_reinit_opt_eq ctx b (hb ▸ hs) reg (hb ▸ hreg)
    simp only [run_append, run_cons, run_nil]
    rw [hb _ (by simp [step])]
    have hnets : (a.nets.mapIdx fun k n =>
          if k = p then { n with mods := n.mods.mapIdx fun j m => applyOp ctx k j ModOp.writeWeights m } else n) =
        a.nets.mapIdx fun k n =>
          if n.role = Role.eval true then
            { n with mods := n.mods.mapIdx fun j m => { m with wEnc := (ctx.stamp, k, j), wHead := (ctx.stamp, k, j) } }
          else n := by
      apply List.ext_getElem?
      intro k
      simp only [List.getElem?_mapIdx]
      cases hn : a.nets[k]? with
      | none => rfl
      | some n =>
        simp only [Option.map_some, Option.some.injEq]
        by_cases hk : k = p
        · have := (hp k n hn).mpr hk
          simp [hk, this, applyOp]
        · have : ¬ n.role = Role.eval true := fun h => hk ((hp k n hn).mp h)
          simp [hk, this]
    simp only [step, evalNet, hsh, Bool.not_true, Bool.false_eq_true, if_false, if_true, readNets, Option.getD_some, setMods_self,
      labelStr, paramStep, rebuildAll, hpol]
    rw [hnets]
  unfold parameter_mutation
  cases hm : ctx.multi
  · simpa [hm] using key .single (by simp [shapeOK, hm])
  · simpa [hm] using key .list (by simp [shapeOK, hm])


/-- **`rl_hyperparam_mutation`, a learning rate drawn**: the attribute is set, EVERY optimizer whose `lr` name is the
    mutated attribute is re-created with the new value, `mut` = the attribute's name -/
theorem gen_rl_hyperparam_mutation_lr_eq (ctx : Ctx) (a : Agent) (hs : OptShapeOK a.opts) (reg : Registry)
    (hreg : reg.optimizers = cfgsOf a.opts) (i : Nat) (name : String) (lrNames : List Nat)
    (hin : lrNames.contains i = true) (hname : ctx.nameOf i = name) :
    run ctx (rl_hyperparam_mutation reg true i lrNames (fun _ => false) (wLr a.opts) (wNames a.opts) (wMulti a.opts)) a =
      hpStep false name (some (i, ctx.hpVal)) a := by
  unfold rl_hyperparam_mutation
  have hne : ("get_lr_names" = "mutation_hook") = False := by decide
  simp only [if_true, hin, run_append, run_cons, run_nil, step, hreg, hne, if_false]
  have hE : ((cfgsOf a.opts).flatMap fun oc =>
        if (i == oc.lr) = true then reinit_opt_one oc (fun _ => false) (wLr a.opts) (wNames a.opts) (wMulti a.opts) else []) =
      (cfgsOf a.opts).flatMap fun oc => if (fun oc : OptCfg => i == oc.lr) oc then [Eff.setOpt oc.name (optB a.opts oc.name)] else [] := by
    congr 1
    funext oc
    rw [gen_reinit_opt_one_eq]
  rw [hE, run_setOpts ctx (optB a.opts)]
  · simp only [hpStep, Bool.false_eq_true, if_false, labelStr, hname]
    congr 1
    apply List.ext_getElem?
    intro q
    simp only [List.getElem?_mapIdx, List.getElem?_map]
    cases ho : a.opts[q]? with
    | none => rfl
    | some o =>
      simp only [Option.map_some, Option.some.injEq]
      rw [optTargets_cfgs a.opts (fun oc => i == oc.lr) (optB a.opts) q o ho]
      by_cases hl : o.lr = i
      · simp only [hl, BEq.rfl, if_true]
        exact buildOpt_optB _ _ a.opts hs q o ho
      · have : (i == o.lr) = false := by simp [Ne.symm hl]
        simp [this, hl]
  · intro e he
    simp only [List.mem_flatMap] at he
    obtain ⟨oc, _, he⟩ := he
    split at he
    · simp only [List.mem_singleton] at he; exact ⟨oc.name, he⟩
    · cases he

/-- **`rl_hyperparam_mutation`, another hyper-parameter drawn**: only the attribute and `mut` change -/
theorem gen_rl_hyperparam_mutation_other_eq (ctx : Ctx) (a : Agent) (reg : Registry) (n : Nat) (name : String)
    (lrNames : List Nat) (hn : a.lrs.length ≤ n) (hin : lrNames.contains n = false) (hname : ctx.nameOf n = name)
    (ds : Nat → Bool) (wl : Nat → Nat) (wn : Nat → List Nat) (wm : Nat → Bool) :
    run ctx (rl_hyperparam_mutation reg true n lrNames ds wl wn wm) a = hpStep false name none a := by
  unfold rl_hyperparam_mutation
  have hne : ("get_lr_names" = "mutation_hook") = False := by decide
  simp only [if_true, hin, Bool.false_eq_true, if_false, run_append, run_cons, run_nil, step, hpStep, labelStr, hname, hne]
  rw [List.set_eq_of_length_le hn]

/-- no hyper-parameter configuration: nothing but `mut = "None"` -/
theorem gen_rl_hyperparam_mutation_none_eq (ctx : Ctx) (a : Agent) (reg : Registry) (n : Nat) (lrNames : List Nat)
    (ds : Nat → Bool) (wl : Nat → Nat) (wn : Nat → List Nat) (wm : Nat → Bool) :
    run ctx (rl_hyperparam_mutation reg false n lrNames ds wl wn wm) a = { a with label := "None" } := rfl


/-! ### activation mutation -/

theorem forBreak_never {α : Type} (xs : List α) (body : α → List Eff × Bool) (h : ∀ x, (body x).2 = false) :
    forBreak xs body = (xs.flatMap fun x => (body x).1, false) := by
  induction xs with
  | nil => rfl
  | cons x r ih => simp [forBreak, h x, ih]

/-- update of one network attribute -/
def updAt (F : Nat → NetAttr → NetAttr) (nets : List NetAttr) (k : Nat) : List NetAttr :=
  nets.mapIdx fun k' n => if k' = k then F k' n else n

theorem foldl_updAt (F : Nat → NetAttr → NetAttr) (hF : ∀ k n, F k (F k n) = F k n) (ks : List Nat) (nets : List NetAttr) :
    ks.foldl (updAt F) nets = nets.mapIdx fun k n => if k ∈ ks then F k n else n := by
  induction ks generalizing nets with
  | nil => simp only [List.foldl_nil, List.not_mem_nil, if_false]; exact (mapIdx_eq_self_of _ _ (fun _ _ _ => rfl)).symm
  | cons k0 ks ih =>
    rw [List.foldl_cons, ih]
    unfold updAt
    rw [mapIdx_mapIdx']
    apply List.ext_getElem?
    intro k
    simp only [List.getElem?_mapIdx]
    cases nets[k]? with
    | none => rfl
    | some n =>
      simp only [Option.map_some, Option.some.injEq, List.mem_cons]
      by_cases hk : k = k0
      · subst hk; by_cases hm : k ∈ ks <;> simp [hm, hF]
      · simp [hk]

theorem run_blocks {α} (ctx : Ctx) (F : Nat → NetAttr → NetAttr) (key : α → Nat) (blk : α → List Eff)
    (h : ∀ g b, run ctx (blk g) b = { b with nets := updAt F b.nets (key g) }) (gs : List α) (b : Agent) :
    run ctx (gs.flatMap blk) b = { b with nets := (gs.map key).foldl (updAt F) b.nets } := by
  induction gs generalizing b with
  | nil => rfl
  | cons g gs ih => rw [List.flatMap_cons, run_append, h, ih]; rfl

theorem groupsOf_evals (rs : List Role) : (groupsOf rs).map (·.eval) = evalIdxs rs := by
  simp [groupsOf, List.map_map, Function.comp_def]

def actBlock (extra : Nat → List Eff) (sh : Shape) (k : Nat) : List Eff :=
  [Eff.inPlace k (ModOp.callNamed "change_activation")] ++ (extra k ++
    [Eff.setNet k { shape := sh, origin := .attached ⟨k, .cur, .same⟩, ops := [] }])

theorem run_actBlock (ctx : Ctx) (extra : Nat → List Eff) (hx : ∀ k b, run ctx (extra k) b = b) (sh : Shape)
    (hsh : shapeOK ctx.multi sh = true) (k : Nat) (b : Agent) :
    run ctx (actBlock extra sh k) b = { b with nets := updAt (actF ctx.stamp ctx.fresh) b.nets k } := by
  unfold actBlock
  rw [run_append, run_append, hx]
  simp only [run_cons, run_nil, step, evalNet, hsh, Bool.not_true, Bool.false_eq_true, if_false, if_true, readNets,
    Option.getD_some, setMods_self, updAt, actF, applyOp]

theorem actF_idem (stamp : Nat) (fresh : Fresh) (k : Nat) (n : NetAttr) :
    actF stamp fresh k (actF stamp fresh k n) = actF stamp fresh k n := by
  simp only [actF, mapIdx_mapIdx']
  congr 1

theorem mapEval_eq (f : Nat → NetAttr → NetAttr) (nets : List NetAttr) :
    mapEval f nets = nets.mapIdx fun k n => if k ∈ evalIdxs (roles nets) then f k n else n := by
  unfold mapEval
  apply List.ext_getElem?
  intro k
  simp only [List.getElem?_mapIdx]
  cases hn : nets[k]? with
  | none => rfl
  | some n =>
    simp only [Option.map_some, Option.some.injEq, mem_evalIdxs, isEvalAt, roles, List.getElem?_map, hn]

/-- an opaque method of a module other than `change_activation` leaves the wiring alone (assumed pure: `get_output_dense`) -/
theorem step_inPlace_other (ctx : Ctx) (b : Agent) (k : Nat) (name : String) (h : name ≠ "change_activation") :
    step ctx b (Eff.inPlace k (ModOp.callNamed name)) = b := by
  have : (b.nets.mapIdx fun k' n => if k' = k then { n with mods := n.mods.mapIdx fun j m => applyOp ctx k' j (ModOp.callNamed name) m } else n) =
      b.nets := by
    apply mapIdx_eq_self_of
    intro j n _
    split
    · have : (n.mods.mapIdx fun j' m => applyOp ctx j j' (ModOp.callNamed name) m) = n.mods :=
        mapIdx_eq_self_of _ _ (fun _ _ _ => by simp [applyOp, h])
      rw [this]
    · rfl
  simp only [step]
  rw [this]

/-- the algorithms `activation_mutation` leaves alone, as listed in the source -/
def actExemptList : List String := ["PPO", "DDPG", "TD3", "IPPO", "MADDPG", "MATD3"]

/-- **`activation_mutation`**: nothing for the exempt algorithms; otherwise every evaluation network of the registry
    changes its activation in place (new parameters, same weights), then every optimizer is re-created, `mut = "act"` -/
theorem gen_activation_mutation_eq (ctx : Ctx) (a : Agent) (hs : OptShapeOK a.opts) (reg : Registry)
    (hg : reg.groups = groupsOf (roles a.nets)) (hreg : reg.optimizers = cfgsOf a.opts)
    (algo : String) (hex : a.actExempt = actExemptList.contains algo) (bandit : Bool) (hbm : bandit = true → ctx.multi = false) :
    run ctx (activation_mutation reg algo bandit (fun _ => false) ctx.multi (fun _ => false) (wLr a.opts) (wNames a.opts) (wMulti a.opts)) a =
      actStep ctx.fresh ctx.stamp a := by
  rw [actStep_eq]
  by_cases he : actExemptList.contains algo = true
  · rw [if_pos (hex.trans he)]
    unfold activation_mutation
    simp only [actExemptList] at he
    simp only [he, if_true]
    rfl
  · have he' : actExemptList.contains algo = false := by simpa using he
    rw [if_neg (by rw [hex, he']; exact Bool.false_ne_true)]
    unfold activation_mutation
    have he2 := he'
    simp only [actExemptList] at he2
    simp only [he2, Bool.false_eq_true, if_false]
    have key : ∀ (extra : Nat → List Eff) (sh : Shape), (∀ k b, run ctx (extra k) b = b) → shapeOK ctx.multi sh = true →
        run ctx ((reg.groups.flatMap fun g => actBlock extra sh g.eval) ++
          (reinit_opt reg (fun _ => false) (wLr a.opts) (wNames a.opts) (wMulti a.opts) ++ [Eff.setMut (Label.str "act")])) a =
        rebuildAll { a with nets := mapEval (actF ctx.stamp ctx.fresh) a.nets, label := "act" } := by
      intro extra sh hx hsh
      have hb : ∀ b : Agent, b.opts = a.opts →
          run ctx (reinit_opt reg (fun _ => false) (wLr a.opts) (wNames a.opts) (wMulti a.opts)) b = rebuildAll b := by
        intro b hb
        rw [← hb]
        exact gen_reinit_opt_eq ctx b (hb ▸ hs) reg (hb ▸ hreg)
      rw [run_append, run_blocks ctx (actF ctx.stamp ctx.fresh) (·.eval) _ (fun g b => run_actBlock ctx extra hx sh hsh g.eval b),
        run_append, hb _ (by simp), hg, groupsOf_evals, foldl_updAt _ (actF_idem _ _), mapEval_eq]
      rfl
    cases hm : ctx.multi
    · cases bandit
      · simp only [hm, Bool.false_eq_true, if_false]
        rw [forBreak_never _ _ (by intro x; rfl)]
        have := key (fun _ => []) .single (fun _ _ => rfl) (by simp [shapeOK, hm])
        simpa [actBlock] using this
      · simp only [hm, Bool.false_eq_true, if_false, if_true]
        rw [forBreak_never _ _ (by intro x; rfl)]
        have := key (fun k => [Eff.inPlace k (ModOp.callNamed "get_output_dense"), Eff.setOther "exp_layer"]) .single
          (by
            intro k b
            rw [run_cons, run_cons, run_nil, step_inPlace_other ctx b k "get_output_dense" (by decide)]
            rfl)
          (by simp [shapeOK, hm])
        simpa [actBlock] using this
    · have hb : bandit = false := by
        cases bandit
        · rfl
        · exact absurd (hbm rfl) (by simp [hm])
      subst hb
      simp only [hm, Bool.false_eq_true, if_false, if_true]
      rw [forBreak_never _ _ (by intro x; rfl)]
      have := key (fun _ => []) .list (fun _ _ => rfl) (by simp [shapeOK, hm])
      simpa [actBlock] using this


/-! ### architecture mutation -/

theorem resolve_pair (o : Option Change) :
    (match o.map (·.1), o.map (·.2) with
      | some m, some c => some (m, c)
      | _, _ => none) = o := by
  cases o <;> rfl

theorem applyOp_setNone_lma (ctx : Ctx) (k j : Nat) (c : Mod) :
    applyOp ctx k j (ModOp.setNone "last_mutation_attr") c = { c with lastMut := none } := by
  rw [applyOp]; rfl

theorem applyOp_setNone_other (ctx : Ctx) (k j : Nat) (c : Mod) (f : String) (h : f ≠ "last_mutation_attr") :
    applyOp ctx k j (ModOp.setNone f) c = c := by
  rw [applyOp, if_neg h]

theorem applyOp_whenNone (ctx : Ctx) (k j : Nat) (c : Mod) (m : MethE) (op : ModOp) :
    applyOp ctx k j (ModOp.whenNone m op) c = if (methOf ctx j m).isNone then applyOp ctx k j op c else c := by
  rw [applyOp]

theorem applyOp_whenSome (ctx : Ctx) (k j : Nat) (c : Mod) (m : MethE) (op : ModOp) :
    applyOp ctx k j (ModOp.whenSome m op) c = if (methOf ctx j m).isSome then applyOp ctx k j op c else c := by
  rw [applyOp]

theorem applyOp_call (ctx : Ctx) (k j : Nat) (c : Mod) (m : MethE) (kw : KwE) :
    applyOp ctx k j (ModOp.call m kw) c = mutated ctx k j (resolve ctx k j m kw) c := by
  rw [applyOp]


/-- like `run_setNets` (values independent of the state), with effects in between that change nothing -/
theorem run_setNets_skip (ctx : Ctx) (G : Nat → List Mod) (E : List Eff)
    (hE : ∀ e ∈ E, (∃ k w, e = Eff.setNet k w ∧ ∀ nets, evalNet ctx nets k w = some (G k)) ∨
      ((∀ b, step ctx b e = b) ∧ ∀ k, netTargets [e] k = false))
    (b : Agent) :
    run ctx E b = { b with nets := b.nets.mapIdx fun k n => if netTargets E k then { n with mods := G k } else n } := by
  induction E generalizing b with
  | nil =>
    simp only [run_nil, netTargets, List.any_nil, Bool.false_eq_true, if_false]
    have : (b.nets.mapIdx fun _ n => n) = b.nets := mapIdx_eq_self_of _ _ (fun _ _ _ => rfl)
    rw [this]
  | cons e E ih =>
    rw [run_cons]
    have hsplit : ∀ k, netTargets (e :: E) k = (netTargets [e] k || netTargets E k) := by
      intro k; simp [netTargets]
    rcases hE e (by simp) with ⟨k0, w, rfl, hv⟩ | ⟨hid, hnt⟩
    · have hs : step ctx b (Eff.setNet k0 w) = { b with nets := setMods b.nets k0 (G k0) } := by
        simp only [step, hv b.nets, Option.getD_some]
      rw [hs, ih (fun e he => hE e (by simp [he]))]
      simp only [setMods, mapIdx_mapIdx']
      congr 1
      apply List.ext_getElem?
      intro k
      simp only [List.getElem?_mapIdx]
      cases b.nets[k]? with
      | none => rfl
      | some n =>
        simp only [Option.map_some, Option.some.injEq, netTargets, List.any_cons]
        by_cases hk : k = k0
        · subst hk
          by_cases ht : (E.any fun e => match e with | .setNet k' _ => k' == k | _ => false) = true <;> simp [ht]
        · have : (k0 == k) = false := by simp [Ne.symm hk]
          simp [hk, this]
    · rw [hid, ih (fun e he => hE e (by simp [he]))]
      congr 1
      apply List.ext_getElem?
      intro k
      simp only [List.getElem?_mapIdx, hsplit, hnt, Bool.false_or]

/-- the policy's offspring: clone + the sampled method with its own arguments = `cloneMutate` with `applied[j]` -/
theorem arch_policy_mod (ctx : Ctx) (j : Nat) (m : Mod) :
    [ModOp.call (.sampled ctx.pol) .empty].foldl (fun c op => applyOp ctx ctx.pol j op c)
        (copyMod (ctx.stamp, ctx.pol, j) (ctx.fresh.at ctx.pol j) m) =
      cloneMutate ctx.stamp ctx.pol ctx.applied (ctx.fresh.getD ctx.pol []) j m := by
  have hr : resolve ctx ctx.pol j (MethE.sampled ctx.pol) KwE.empty = ctx.applied.getD j none := by
    simp only [resolve, methOf, chgOf, if_true]
    exact resolve_pair _
  simp only [List.foldl_cons, List.foldl_nil, applyOp_call, hr, cloneMutate, mutated]
  rfl

/-- every other evaluation network: clone + (nothing where the policy applied nothing, else the policy's applied method
    with the keyword dict the policy's call returned — position by position) = `cloneMutate` with `applied[j]` -/
theorem arch_other_mod (ctx : Ctx) (k j : Nat) (m : Mod) :
    [ModOp.whenNone (.appliedTo ctx.pol .same) (ModOp.setNone "last_mutation"),
     ModOp.whenNone (.appliedTo ctx.pol .same) (ModOp.setNone "last_mutation_attr"),
     ModOp.whenSome (.appliedTo ctx.pol .same) (ModOp.call (.appliedTo ctx.pol .same) (.returnedBy ctx.pol .same))].foldl
        (fun c op => applyOp ctx k j op c) (copyMod (ctx.stamp, k, j) (ctx.fresh.at k j) m) =
      cloneMutate ctx.stamp k ctx.applied (ctx.fresh.getD k []) j m := by
  have hm : methOf ctx j (MethE.appliedTo ctx.pol Pos.same) = (ctx.applied.getD j none).map (·.1) := by
    simp [methOf, posIdx]
  simp only [List.foldl_cons, List.foldl_nil, applyOp_whenNone, applyOp_whenSome, applyOp_call, applyOp_setNone_lma,
    applyOp_setNone_other ctx k j _ "last_mutation" (by decide), hm]
  cases h : ctx.applied.getD j none with
  | none =>
    simp only [Option.map_none, Option.isNone_none, Option.isSome_none, Bool.false_eq_true, if_false, if_true, cloneMutate, h]
    rfl
  | some x =>
    have hr : resolve ctx k j (MethE.appliedTo ctx.pol Pos.same) (KwE.returnedBy ctx.pol Pos.same) = some x := by
      simp only [resolve, methOf, chgOf, posIdx, if_true]
      rw [resolve_pair, h]
    simp only [Option.map_some, Option.isNone_some, Option.isSome_some, Bool.false_eq_true, if_false, if_true, cloneMutate, h, hr,
      mutated]
    rfl

/-- what every evaluation network holds after the architecture mutation -/
def archG (ctx : Ctx) (k : Nat) : List Mod :=
  (modsAt ctx.a0.nets k).mapIdx (cloneMutate ctx.stamp k ctx.applied (ctx.fresh.getD k []))

def archPolicyV (sh : Shape) (p : Nat) : NetE :=
  { shape := sh, origin := .clone ⟨p, .start, .same⟩, ops := [ModOp.call (.sampled p) .empty] }

def archOtherV (sh : Shape) (p k : Nat) : NetE :=
  { shape := sh, origin := .clone ⟨k, .start, .same⟩,
    ops := [ModOp.whenNone (.appliedTo p .same) (ModOp.setNone "last_mutation"),
            ModOp.whenNone (.appliedTo p .same) (ModOp.setNone "last_mutation_attr"),
            ModOp.whenSome (.appliedTo p .same) (ModOp.call (.appliedTo p .same) (.returnedBy p .same))] }

theorem evalNet_archPolicy (ctx : Ctx) (sh : Shape) (hsh : shapeOK ctx.multi sh = true) (nets : List NetAttr) :
    evalNet ctx nets ctx.pol (archPolicyV sh ctx.pol) = some (archG ctx ctx.pol) := by
  simp only [evalNet, archPolicyV, hsh, Bool.not_true, Bool.false_eq_true, if_false, if_true, readNets, archG]
  congr 2
  funext j m
  exact arch_policy_mod ctx j m

theorem evalNet_archOther (ctx : Ctx) (sh : Shape) (hsh : shapeOK ctx.multi sh = true) (k : Nat) (nets : List NetAttr) :
    evalNet ctx nets k (archOtherV sh ctx.pol k) = some (archG ctx k) := by
  simp only [evalNet, archOtherV, hsh, Bool.not_true, Bool.false_eq_true, if_false, if_true, readNets, archG]
  congr 2
  funext j m
  exact arch_other_mod ctx k j m


theorem policy_head (rs : List Role) (p : Nat) (hp : rs[p]? = some (Role.eval true))
    (hu : ∀ k, rs[k]? = some (Role.eval true) → k = p) :
    ((groupsOf rs).filter (·.policy)).head? =
      some { eval := p, shared := if (sharedOf rs p).isEmpty then none else some (sharedOf rs p), policy := true } := by
  rw [List.head?_filter]
  unfold groupsOf evalIdxs
  rw [List.find?_map, List.find?_filter]
  have key : ∀ q : Nat → Bool, q p = true → (∀ j, j < p → q j = false) → List.find? q (List.range rs.length) = some p := by
    intro q h1 h2
    rw [List.find?_range_eq_some]
    exact ⟨h1, List.mem_range.mpr (List.getElem?_eq_some_iff.mp hp).1, fun j hj => by simp [h2 j hj]⟩
  rw [key]
  · simp [hp]
  · simp [isEvalAt, hp, Role.isEval]
  · intro j hj
    have : ¬ rs[j]? = some (Role.eval true) := fun h => by have := hu j h; omega
    simp [this]

theorem netTargets_ident (E : List Eff) (h : ∀ e ∈ E, ∀ k, netTargets [e] k = false) (k : Nat) : netTargets E k = false := by
  unfold netTargets
  rw [List.any_eq_false]
  intro e he
  have := h e he k
  simpa [netTargets] using this

/-- the body of `architecture_mutate` once the policy group `p` is found and has mutation methods -/
def archEffs (reg : Registry) (sh : Shape) (p : Nat) (ex : Nat → List Eff) : List Eff :=
  [Eff.setNet p (archPolicyV sh p)] ++ (ex p ++
    ((reg.groups.filter fun g => !g.policy).flatMap fun g => Eff.setNet g.eval (archOtherV sh p g.eval) :: ex g.eval))

theorem run_archEffs (ctx : Ctx) (a : Agent) (ha0 : ctx.a0 = a) (hpol : (roles a.nets)[ctx.pol]? = some (Role.eval true))
    (hu : ∀ k, (roles a.nets)[k]? = some (Role.eval true) → k = ctx.pol)
    (reg : Registry) (hg : reg.groups = groupsOf (roles a.nets)) (sh : Shape) (hsh : shapeOK ctx.multi sh = true)
    (ex : Nat → List Eff) (hx : ∀ k, ∀ e ∈ ex k, (∀ b, step ctx b e = b) ∧ ∀ k', netTargets [e] k' = false) :
    run ctx (archEffs reg sh ctx.pol ex) a =
      { a with nets := mapEval (archF ctx.stamp ctx.applied ctx.fresh) a.nets } := by
  rw [run_setNets_skip ctx (archG ctx)]
  · congr 1
    rw [mapEval_eq]
    apply List.ext_getElem?
    intro k
    simp only [List.getElem?_mapIdx]
    cases hn : a.nets[k]? with
    | none => rfl
    | some n =>
      simp only [Option.map_some, Option.some.injEq]
      have hrs : (roles a.nets)[k]? = some n.role := by simp [roles, hn]
      have hG : ({ n with mods := archG ctx k } : NetAttr) = archF ctx.stamp ctx.applied ctx.fresh k n := by
        simp [archG, ha0, modsAt, hn, archF]
      have ht : netTargets (archEffs reg sh ctx.pol ex) k = decide (k ∈ evalIdxs (roles a.nets)) := by
        unfold archEffs
        rw [netTargets_append, netTargets_append, netTargets_ident (ex ctx.pol) (fun e he => (hx _ e he).2),
          netTargets_flatMap, hg]
        have hin : ∀ g : Grp, netTargets (Eff.setNet g.eval (archOtherV sh ctx.pol g.eval) :: ex g.eval) k = (g.eval == k) := by
          intro g
          have : netTargets (Eff.setNet g.eval (archOtherV sh ctx.pol g.eval) :: ex g.eval) k =
              (netTargets [Eff.setNet g.eval (archOtherV sh ctx.pol g.eval)] k || netTargets (ex g.eval) k) := by
            simp [netTargets]
          rw [this, netTargets_ident (ex g.eval) (fun e he => (hx _ e he).2)]
          simp [netTargets]
        simp only [hin, Bool.false_or]
        by_cases hk : k ∈ evalIdxs (roles a.nets)
        · simp only [hk, decide_true]
          by_cases hkp : k = ctx.pol
          · simp [netTargets, hkp]
          · have hnp : ¬ (roles a.nets)[k]? = some (Role.eval true) := fun h => hkp (hu k h)
            rw [Bool.or_eq_true]; right
            rw [List.any_eq_true]
            refine ⟨{ eval := k, shared := if (sharedOf (roles a.nets) k).isEmpty then none else some (sharedOf (roles a.nets) k),
                      policy := (roles a.nets)[k]? == some (Role.eval true) }, ?_, by simp⟩
            rw [List.mem_filter]
            refine ⟨?_, by simp [hnp]⟩
            unfold groupsOf
            exact List.mem_map.mpr ⟨k, hk, rfl⟩
        · simp only [hk, decide_false]
          rw [Bool.or_eq_false_iff]
          constructor
          · have : ctx.pol ≠ k := by
              intro h; subst h
              exact hk ((mem_evalIdxs _ _).mpr (by simp [isEvalAt, hpol, Role.isEval]))
            simp [netTargets, this]
          · rw [List.any_eq_false]
            intro g hgm
            rw [List.mem_filter] at hgm
            unfold groupsOf at hgm
            obtain ⟨k', hk', rfl⟩ := List.mem_map.mp hgm.1
            have : k' ≠ k := by intro h; subst h; exact hk hk'
            simp [this]
      rw [ht]
      by_cases hk : k ∈ evalIdxs (roles a.nets) <;> simp [hk, hG]
  · intro e he
    unfold archEffs at he
    simp only [List.mem_append, List.mem_singleton, List.mem_flatMap, List.mem_cons, List.not_mem_nil, or_false] at he
    rcases he with rfl | he | ⟨g, _, rfl | he⟩
    · exact Or.inl ⟨_, _, rfl, fun nets => evalNet_archPolicy ctx sh hsh nets⟩
    · exact Or.inr (hx _ e he)
    · exact Or.inl ⟨_, _, rfl, fun nets => evalNet_archOther ctx sh hsh g.eval nets⟩
    · exact Or.inr (hx _ e he)


theorem policy_facts (a : Agent) (p : Nat) (hp : PolicyAt a p) (hpin : p < a.nets.length) :
    (roles a.nets)[p]? = some (Role.eval true) ∧ ∀ k, (roles a.nets)[k]? = some (Role.eval true) → k = p := by
  constructor
  · have hn : a.nets[p]? = some a.nets[p] := List.getElem?_eq_getElem hpin
    have := (hp p _ hn).mpr rfl
    simp [roles, hn, this]
  · intro k hk
    simp only [roles, List.getElem?_map] at hk
    cases hn : a.nets[k]? with
    | none => simp [hn] at hk
    | some n =>
      simp only [hn, Option.map_some, Option.some.injEq] at hk
      exact (hp k n hn).mp hk

/-- the tail of `architecture_mutate` after the evaluation networks are replaced -/
theorem run_arch_tail (ctx : Ctx) (a : Agent) (hs : OptShapeOK a.opts) (reg : Registry) (hreg : reg.optimizers = cfgsOf a.opts)
    (E : List Eff) (pos : Pos)
    (hE : run ctx E a = { a with nets := mapEval (archF ctx.stamp ctx.applied ctx.fresh) a.nets }) :
    run ctx (E ++ ([Eff.indCall "mutation_hook"] ++ (reinit_opt reg (fun _ => false) (wLr a.opts) (wNames a.opts) (wMulti a.opts) ++
      [Eff.setMut (Label.applied ctx.pol pos)]))) a = archStep ctx.applied ctx.fresh ctx.stamp a := by
  have hb : ∀ b : Agent, b.opts = a.opts →
      run ctx (reinit_opt reg (fun _ => false) (wLr a.opts) (wNames a.opts) (wMulti a.opts)) b = rebuildAll b := by
    intro b hb
    rw [← hb]
    exact gen_reinit_opt_eq ctx b (hb ▸ hs) reg (hb ▸ hreg)
  rw [run_append, hE, run_append, run_cons, run_nil, run_append, archStep_eq]
  simp only [step, if_true]
  rw [hb _ (by simp)]
  simp only [run_cons, run_nil, step, labelStr, if_true, rebuildAll]


theorem step_setOther (ctx : Ctx) (b : Agent) (s : String) : step ctx b (Eff.setOther s) = b := rfl

/-- what `_reinit_bandit_grads` / `get_exp_layer` do to the wiring: nothing -/
def banditEx (k : Nat) : List Eff :=
  [Eff.inPlace k (ModOp.callNamed "get_output_dense"), Eff.inPlace k (ModOp.callNamed "get_output_dense"),
   Eff.setOther "numel", Eff.setOther "theta_0", Eff.setOther "exp_layer", Eff.setOther "sigma_inv"]

theorem banditEx_ident (ctx : Ctx) (k : Nat) : ∀ e ∈ banditEx k, (∀ b, step ctx b e = b) ∧ ∀ k', netTargets [e] k' = false := by
  intro e he
  simp only [banditEx, List.mem_cons, List.not_mem_nil, or_false] at he
  rcases he with rfl | rfl | rfl | rfl | rfl | rfl
  · exact ⟨fun b => step_inPlace_other ctx b k _ (by decide), fun _ => rfl⟩
  · exact ⟨fun b => step_inPlace_other ctx b k _ (by decide), fun _ => rfl⟩
  all_goals exact ⟨fun _ => rfl, fun _ => rfl⟩

/-- **`architecture_mutate`** (the policy has mutation methods): every evaluation network of the registry is replaced by
    a clone; the policy's clone received the sampled method, module `j` of every other one the method the policy's module
    `j` applied with the arguments it returned; hook; every optimizer re-created; `mut` = the applied method -/
theorem gen_architecture_mutate_eq (ctx : Ctx) (a : Agent) (ha0 : ctx.a0 = a) (hp : PolicyAt a ctx.pol)
    (hpin : ctx.pol < a.nets.length) (hs : OptShapeOK a.opts) (reg : Registry) (hg : reg.groups = groupsOf (roles a.nets))
    (hreg : reg.optimizers = cfgsOf a.opts) (bandit : Bool) (hbm : bandit = true → ctx.multi = false) :
    run ctx (architecture_mutate (reg := reg) (individual_isinstance_NeuralTS_NeuralUCB := bandit)
        (module_last_mutation_attr_isinstance_list := fun _ => false) (module_mutation_methods := fun _ => true)
        (multi := ctx.multi) (wrapper_isinstance_DeepSpeedOptimizerWrapper := fun _ => false)
        (wrapper_lr_name := wLr a.opts) (wrapper_network_names := wNames a.opts)
        (wrapper_optimizer_isinstance_list := wMulti a.opts)) a =
      archStep ctx.applied ctx.fresh ctx.stamp a := by
  obtain ⟨hpol, hu⟩ := policy_facts a ctx.pol hp hpin
  unfold architecture_mutate
  rw [hg, policy_head _ _ hpol hu, ← hg]
  simp only [if_true]
  cases hm : ctx.multi
  · cases bandit
    · simp only [Bool.false_eq_true, if_false]
      have := run_arch_tail ctx a hs reg hreg _ Pos.same
        (run_archEffs ctx a ha0 hpol hu reg hg .single (by simp [shapeOK, hm]) (fun _ => []) (by intro k e he; cases he))
      simpa [archEffs, archPolicyV, archOtherV] using this
    · simp only [Bool.false_eq_true, if_false, if_true]
      have := run_arch_tail ctx a hs reg hreg _ Pos.same
        (run_archEffs ctx a ha0 hpol hu reg hg .single (by simp [shapeOK, hm]) banditEx (banditEx_ident ctx))
      simpa [archEffs, archPolicyV, archOtherV, banditEx] using this
  · have hb : bandit = false := by
      cases bandit
      · rfl
      · exact absurd (hbm rfl) (by simp [hm])
    subst hb
    simp only [Bool.false_eq_true, if_false, if_true]
    have := run_arch_tail ctx a hs reg hreg _ Pos.first
      (run_archEffs ctx a ha0 hpol hu reg hg .list (by simp [shapeOK, hm]) (fun _ => []) (by intro k e he; cases he))
    simpa [archEffs, archPolicyV, archOtherV] using this

/-- the policy has no mutation methods: `mut = "None"`, nothing else -/
theorem gen_architecture_mutate_none_eq (ctx : Ctx) (a : Agent) (hp : PolicyAt a ctx.pol) (hpin : ctx.pol < a.nets.length)
    (reg : Registry) (hg : reg.groups = groupsOf (roles a.nets)) (bandit : Bool) (l : Nat → Bool) (multi : Bool)
    (ds : Nat → Bool) (wl : Nat → Nat) (wn : Nat → List Nat) (wm : Nat → Bool) :
    run ctx (architecture_mutate (reg := reg) (individual_isinstance_NeuralTS_NeuralUCB := bandit)
        (module_last_mutation_attr_isinstance_list := l) (module_mutation_methods := fun _ => false)
        (multi := multi) (wrapper_isinstance_DeepSpeedOptimizerWrapper := ds)
        (wrapper_lr_name := wl) (wrapper_network_names := wn) (wrapper_optimizer_isinstance_list := wm)) a =
      { a with label := "None" } := by
  obtain ⟨hpol, hu⟩ := policy_facts a ctx.pol hp hpin
  unfold architecture_mutate
  rw [hg, policy_head _ _ hpol hu]
  cases multi <;> rfl


/-! ### one individual through the generated `Mutations.mutation` -/

theorem roles_rebuildAll (a : Agent) : roles (rebuildAll a).nets = roles a.nets := rfl

theorem roles_kindStep (c : Choice) (a : Agent) : roles (kindStep false c a).nets = roles a.nets := by
  unfold kindStep
  cases c.kind with
  | none => rfl
  | arch applied =>
    show roles (applyHook a.hook (mapEval (archF c.stamp applied c.fresh) a.nets)) = _
    rw [roles_applyHook]
    exact roles_mapEval _ _ (fun _ _ => rfl)
  | param =>
    show roles (a.nets.mapIdx _) = _
    apply roles_mapIdx
    intro k n
    split <;> rfl
  | act =>
    show roles (actStep c.fresh c.stamp a).nets = _
    rw [actStep_eq]
    split
    · rfl
    · show roles (mapEval (actF c.stamp c.fresh) a.nets) = _
      exact roles_mapEval _ _ (fun _ _ => rfl)
  | hp name lr =>
    show roles (hpStep false name lr a).nets = _
    unfold hpStep
    cases lr with
    | none => rfl
    | some iv => rfl

theorem descOK_kindStep (c : Choice) (a : Agent) (hi : Inv a) : DescOK (desc (kindStep false c a)) := by
  unfold kindStep
  cases c.kind with
  | none => exact hi.1
  | arch applied => exact (archStep_pre applied c.fresh c.stamp a hi).1
  | param => exact (paramStep_pre c.stamp a hi).1
  | act => exact (actStep_pre c.fresh c.stamp a hi).1
  | hp name lr => exact (hpStep_pre name lr a hi).1

/-- what the run-time environment of the individual answers to the tests the source makes -/
structure Env where
  multi  : Bool      -- the registry network attributes are lists
  pol    : Nat       -- `registry.policy`
  algo   : String    -- `individual.algo`
  bandit : Bool      -- `isinstance(individual, (NeuralTS, NeuralUCB))`

/-- the environment agrees with the model agent; none of this changes in a generation -/
structure EnvOK (e : Env) (a : Agent) : Prop where
  policy : PolicyAt a e.pol
  polIn  : e.pol < a.nets.length
  opts   : OptShapeOK a.opts
  exempt : a.actExempt = actExemptList.contains e.algo
  bandit : e.bandit = true → e.multi = false

def ctxK (e : Env) (c : Choice) (a : Agent) : Ctx :=
  { multi := e.multi, fresh := c.fresh, stamp := c.stamp, pol := e.pol, kind := id, a0 := a,
    applied := match c.kind with | .arch ap => ap | _ => [],
    hpVal := match c.kind with | .hp _ (some (_, v)) => v | _ => 0,
    nameOf := fun _ => match c.kind with | .hp name _ => name | _ => "" }

/-- the drawn mutation option, run through the GENERATED definitions -/
def genKindStep (e : Env) (c : Choice) (a : Agent) : Agent :=
  let ctx := ctxK e c a
  let reg := regOf a e.pol
  match c.kind with
  | .none => run ctx no_mutation a
  | .arch _ =>
    run ctx (architecture_mutate (reg := reg) (individual_isinstance_NeuralTS_NeuralUCB := e.bandit)
      (module_last_mutation_attr_isinstance_list := fun _ => false) (module_mutation_methods := fun _ => true)
      (multi := e.multi) (wrapper_isinstance_DeepSpeedOptimizerWrapper := fun _ => false)
      (wrapper_lr_name := wLr a.opts) (wrapper_network_names := wNames a.opts)
      (wrapper_optimizer_isinstance_list := wMulti a.opts)) a
  | .param =>
    run ctx (parameter_mutation (reg := reg) (multi := e.multi) (wrapper_isinstance_DeepSpeedOptimizerWrapper := fun _ => false)
      (wrapper_lr_name := wLr a.opts) (wrapper_network_names := wNames a.opts)
      (wrapper_optimizer_isinstance_list := wMulti a.opts)) a
  | .act =>
    run ctx (activation_mutation (reg := reg) (individual_algo := e.algo) (individual_isinstance_NeuralTS_NeuralUCB := e.bandit)
      (module_activation_is_none := fun _ => false) (multi := e.multi)
      (wrapper_isinstance_DeepSpeedOptimizerWrapper := fun _ => false)
      (wrapper_lr_name := wLr a.opts) (wrapper_network_names := wNames a.opts)
      (wrapper_optimizer_isinstance_list := wMulti a.opts)) a
  | .hp _ (some (i, _)) =>
    run ctx (rl_hyperparam_mutation (reg := reg) (hp_config := true) (hp_config_sample_0 := i) (individual_get_lr_names := [i])
      (wrapper_isinstance_DeepSpeedOptimizerWrapper := fun _ => false)
      (wrapper_lr_name := wLr a.opts) (wrapper_network_names := wNames a.opts)
      (wrapper_optimizer_isinstance_list := wMulti a.opts)) a
  | .hp _ none =>
    run ctx (rl_hyperparam_mutation (reg := reg) (hp_config := true) (hp_config_sample_0 := a.lrs.length) (individual_get_lr_names := [])
      (wrapper_isinstance_DeepSpeedOptimizerWrapper := fun _ => false)
      (wrapper_lr_name := wLr a.opts) (wrapper_network_names := wNames a.opts)
      (wrapper_optimizer_isinstance_list := wMulti a.opts)) a

/-- **every mutation option, as generated from the source, is the model's `kindStep`** (repaired learning-rate rule) -/
theorem gen_kindStep_eq (e : Env) (c : Choice) (a : Agent) (he : EnvOK e a) : genKindStep e c a = kindStep false c a := by
  unfold genKindStep kindStep
  cases hk : c.kind with
  | none => rfl
  | arch ap =>
    have := gen_architecture_mutate_eq (ctxK e c a) a rfl he.policy he.polIn he.opts (regOf a e.pol) rfl rfl e.bandit he.bandit
    simpa [ctxK, hk] using this
  | param =>
    have := gen_parameter_mutation_eq (ctxK e c a) a e.pol he.policy he.opts (regOf a e.pol) rfl rfl
    simpa [ctxK, hk] using this
  | act =>
    have := gen_activation_mutation_eq (ctxK e c a) a he.opts (regOf a e.pol) rfl rfl e.algo he.exempt e.bandit he.bandit
    simpa [ctxK, hk] using this
  | hp name lr =>
    cases lr with
    | none =>
      have := gen_rl_hyperparam_mutation_other_eq (ctxK e c a) a (regOf a e.pol) a.lrs.length name [] (Nat.le_refl _) rfl
        (by simp [ctxK, hk]) (fun _ => false) (wLr a.opts) (wNames a.opts) (wMulti a.opts)
      simpa [ctxK, hk] using this
    | some iv =>
      obtain ⟨i, v⟩ := iv
      have := gen_rl_hyperparam_mutation_lr_eq (ctxK e c a) a he.opts (regOf a e.pol) rfl i name [i] (by simp)
        (by simp [ctxK, hk])
      simpa [ctxK, hk] using this

/-- one individual through the GENERATED body of the loop of `Mutations.mutation` -/
def genMutate1 (e : Env) (c : Choice) (a : Agent) : Agent :=
  run { ctxK e c a with stamp := c.stamp + 1, kind := genKindStep e c }
    (mutation_individual (reg := regOf a e.pol) (individual_has_torch_compiler := false) (individual_torch_compiler := false)
      (module_isinstance_OptimizedModule := fun _ => false) (multi := e.multi)) a

/-- **the generated `Mutations.mutation` (per individual) is the model's `mutate1`**, for every registry -/
theorem gen_mutate1_eq (e : Env) (c : Choice) (a : Agent) (hi : Inv a) (he : EnvOK e a) :
    genMutate1 e c a = mutate1 false c a := by
  unfold genMutate1 mutate1
  rw [gen_mutation_individual_shape, run_append, run_cons, run_nil]
  simp only [step]
  rw [gen_kindStep_eq e c a he]
  have hr : (regOf a e.pol).groups = groupsOf (roles (kindStep false c a).nets) := by
    rw [roles_kindStep]; rfl
  rw [hr]
  exact gen_tail_eq { ctxK e c a with stamp := c.stamp + 1, kind := genKindStep e c } (kindStep false c a) (descOK_kindStep c a hi)

/-- the population returned by the generated `Mutations.mutation`: one drawn choice per individual, in order -/
theorem gen_mutation_population_eq (step : Choice → Agent → Agent) (choices : List Choice) (pop : Pop)
    (hl : pop.length ≤ choices.length) :
    mutation_population step choices pop = pop.mapIdx fun i a => step (choices.getD i {}) a := by
  unfold mutation_population
  apply List.ext_getElem?
  intro i
  simp only [List.getElem?_map, List.getElem?_mapIdx]
  cases hp : pop[i]? with
  | none =>
    have : (choices.zip pop)[i]? = none := by
      rw [List.getElem?_eq_none_iff, List.length_zip]
      have := List.getElem?_eq_none_iff.mp hp
      omega
    simp [this]
  | some a =>
    have hi : i < choices.length := Nat.lt_of_lt_of_le (List.getElem?_eq_some_iff.mp hp).1 hl
    have hc : choices[i]? = some choices[i] := List.getElem?_eq_getElem hi
    have : (choices.zip pop)[i]? = some (choices[i], a) := List.getElem?_zip_eq_some.mpr ⟨hc, hp⟩
    simp [this, List.getD_eq_getElem?_getD, hc]

end MutWireGenEq
