import Proofs.NStepStream

/-! Helper lemmas for C10: the k-th emitted records in terms of the stream, record widths,
    independence of a stream's tail behind a terminal row. -/
namespace NStep
open Ring

/-- the oldest row of the window that starts at stream position `k` -/
theorem window_head (rows : List Row) (n k : Nat) (hn1 : 1 ≤ n) (_hk : k < rows.length) :
    ((rows.drop k).take n).headD [] = rows.getD k [] := by
  rw [List.headD_eq_head?_getD, List.head?_take, if_neg (by omega), List.head?_drop,
    List.getD_eq_getElem?_getD]

theorem window_cellAt_zero (rows : List Row) (n k e : Nat) (hn1 : 1 ≤ n) (hk : k < rows.length) :
    cellAt ((rows.drop k).take n) 0 e = cellAt rows k e := by
  have h := window_head rows n k hn1 hk
  unfold cellAt
  rw [← h]
  cases (rows.drop k).take n <;> rfl

theorem rowDone_of_cell (d : Row) (e : Nat) (he : e < d.length) (h : (d.getD e default).done = true) :
    rowDone d = true := by
  unfold rowDone
  rw [List.any_eq_true]
  refine ⟨d[e], List.getElem_mem he, ?_⟩
  simpa [List.getD_eq_getElem?_getD, he] using h

/-- the whole fused row is independent of what follows a terminal row -/
theorem fuseRow_indep (γ : Rat) (p : List Row) (d : Row) (hd : rowDone d = true) (x y : List Row) :
    fuseRow true γ (p ++ d :: x) = fuseRow true γ (p ++ d :: y) := by
  unfold fuseRow
  have hh : (p ++ d :: x).headD [] = (p ++ d :: y).headD [] := by cases p <;> rfl
  rw [hh]
  apply List.map_congr_left
  intro e _
  exact fuseAt_indep γ e p d hd x y

/-- windows of two streams that share everything up to and including a terminal row -/
theorem window_indep (γ : Rat) (n k : Nat) (pre : List Row) (d : Row) (hd : rowDone d = true)
    (post post' : List Row) (hk : k ≤ pre.length) :
    fuseRow true γ (((pre ++ d :: post).drop k).take n) =
      fuseRow true γ (((pre ++ d :: post').drop k).take n) := by
  rw [List.drop_append_of_le_length hk, List.drop_append_of_le_length hk]
  by_cases hn : n ≤ (pre.drop k).length
  · rw [List.take_append_of_le_length hn, List.take_append_of_le_length hn]
  · have e1 : n = (pre.drop k).length + ((n - (pre.drop k).length - 1) + 1) := by omega
    rw [e1, List.take_length_add_append, List.take_length_add_append, List.take_succ_cons,
      List.take_succ_cons]
    exact fuseRow_indep γ _ d hd _ _

section closed
variable {n : Nat} {γ : Rat} {fixed : Bool} {capN capO m : Nat} {s : State} {rows : List Row}

theorem sinv_counts (hn1 : 1 ≤ n) (h : SInv n γ fixed capN capO m s rows) :
    s.nRows.length = rows.length + 1 - n ∧ s.oRows.length = rows.length + 1 - n := by
  refine ⟨by rw [h.nRows]; simp, ?_⟩
  rw [h.oRows, List.length_take]; omega

/-- k-th emitted n-step row and k-th emitted 1-step row -/
theorem sinv_kth (h : SInv n γ fixed capN capO m s rows) (k : Nat) (hk : k < rows.length + 1 - n) :
    s.nRows.getD k [] = fuseRow fixed γ ((rows.drop k).take n) ∧
    s.oRows.getD k [] = rows.getD k [] := by
  constructor
  · rw [h.nRows, List.getD_eq_getElem?_getD, List.getElem?_map, List.getElem?_range hk]; rfl
  · rw [h.oRows, List.getD_eq_getElem?_getD, List.getD_eq_getElem?_getD, List.getElem?_take, if_pos hk]

theorem sinv_widths (hn1 : 1 ≤ n) (hall : ∀ r ∈ rows, r.length = m)
    (h : SInv n γ fixed capN capO m s rows) :
    (∀ r ∈ s.nRows, r.length = m) ∧ (∀ r ∈ s.oRows, r.length = m) := by
  constructor
  · intro r hr
    rw [h.nRows, List.mem_map] at hr
    obtain ⟨k, hk, rfl⟩ := hr
    have hk' : k < rows.length + 1 - n := List.mem_range.mp hk
    have hkl : k < rows.length := by omega
    rw [fuseRow_length, window_head rows n k hn1 hkl, List.getD_eq_getElem?_getD,
      List.getElem?_eq_getElem hkl]
    exact hall _ (List.getElem_mem hkl)
  · intro r hr
    rw [h.oRows] at hr
    exact hall r (List.mem_of_mem_take hr)

/-- cell (k, e) of both logs in terms of the stream -/
theorem sinv_cells (hn1 : 1 ≤ n) (hall : ∀ r ∈ rows, r.length = m)
    (h : SInv n γ fixed capN capO m s rows) (k e : Nat) (hk : k < rows.length + 1 - n) (he : e < m) :
    cellAt s.nRows k e = fuseAt fixed γ ((rows.drop k).take n) e ∧
    cellAt s.oRows k e = cellAt rows k e := by
  obtain ⟨h1, h2⟩ := sinv_kth h k hk
  have hkl : k < rows.length := by omega
  have hm : (rows.getD k []).length = m := by
    rw [List.getD_eq_getElem?_getD, List.getElem?_eq_getElem hkl]
    exact hall _ (List.getElem_mem hkl)
  unfold cellAt
  rw [h1, h2]
  refine ⟨fuseRow_getD fixed γ _ e ?_, rfl⟩
  rw [window_head rows n k hn1 hkl, hm]; exact he

/-- flat position `k * m + e` of a log whose rows all have `m` cells -/
theorem flat_cell (L : List Row) (hw : ∀ r ∈ L, r.length = m) (k e : Nat) (hk : k < L.length)
    (he : e < m) : L.flatten[k * m + e]? = some (cellAt L k e) := by
  rw [flatten_uniform_getElem? L m hw k e he]
  have hl : (L.getD k []).length = m := by
    rw [List.getD_eq_getElem?_getD, List.getElem?_eq_getElem hk]
    exact hw _ (List.getElem_mem hk)
  unfold cellAt
  rw [List.getD_eq_getElem?_getD (l := L.getD k []), List.getElem?_eq_getElem (by omega)]
  rfl

end closed

end NStep
