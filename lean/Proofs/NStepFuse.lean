import Mathlib.Algebra.BigOperators.Group.Finset.Basic
import Mathlib.Algebra.Order.Field.Rat
import Mathlib.Tactic.Ring
import Model.NStep

/-! Helper lemmas for C10: the loop of `_get_n_step_info` in closed form, and its independence of
    everything behind the first terminal row. -/
namespace NStep
open Finset

theorem cellAt_cons_succ (r : Row) (w : List Row) (i e : Nat) :
    cellAt (r :: w) (i + 1) e = cellAt w i e := by
  simp [cellAt]

theorem cellAt_cons_zero (r : Row) (w : List Row) (e : Nat) :
    cellAt (r :: w) 0 e = r.getD e default := by
  simp [cellAt]

theorem cutLen_pos {w : List Row} (h : w ≠ []) : 1 ≤ cutLen w := by
  cases w with
  | nil => exact absurd rfl h
  | cons r rest => unfold cutLen; split <;> omega

theorem cutLen_le (w : List Row) : cutLen w ≤ w.length := by
  induction w with
  | nil => simp [cutLen]
  | cons r rest ih =>
    unfold cutLen
    split
    · simp
    · simp only [List.length_cons]; omega

/-- `cutLen` = 1 + index of the first row with `done.any()`, capped at the window length -/
theorem cutLen_eq_findIdx (w : List Row) :
    cutLen w = min (w.findIdx rowDone + 1) w.length := by
  induction w with
  | nil => simp [cutLen]
  | cons r rest ih =>
    unfold cutLen
    rw [List.findIdx_cons]
    cases h : rowDone r with
    | true => simp
    | false =>
      simp only [Bool.false_eq_true, if_false, cond_false, List.length_cons, ih]
      omega

/-- no row strictly before the last contributing one is terminal in any environment -/
theorem cutLen_before_not_done (w : List Row) (j : Nat) (hj : j + 1 < cutLen w) :
    rowDone (w.getD j []) = false := by
  induction w generalizing j with
  | nil => simp [cutLen] at hj
  | cons r rest ih =>
    unfold cutLen at hj
    by_cases h : rowDone r = true
    · simp [h] at hj
    · simp only [h, Bool.false_eq_true, if_false] at hj
      cases j with
      | zero => simpa using h
      | succ j => simpa using ih j (by omega)

/-- if the window was cut short, the last contributing row is terminal in some environment -/
theorem cutLen_last_done (w : List Row) (h : cutLen w < w.length) :
    rowDone (w.getD (cutLen w - 1) []) = true := by
  induction w with
  | nil => simp [cutLen] at h
  | cons r rest ih =>
    unfold cutLen at h ⊢
    by_cases hd : rowDone r = true
    · simp [hd]
    · simp only [hd, Bool.false_eq_true, if_false, List.length_cons] at h ⊢
      have hr : cutLen rest < rest.length := by omega
      have hne : rest ≠ [] := by intro e; simp [e] at hr
      have hp := cutLen_pos hne
      have e : 1 + cutLen rest - 1 = (cutLen rest - 1) + 1 := by omega
      rw [e, List.getD_cons_succ]
      exact ih hr

/-- the loop in closed form -/
theorem loop_eq (γ : Rat) (e : Nat) (rest : List Row) (hne : rest ≠ []) (i : Nat) (acc : Acc) :
    loop γ e i acc rest =
      { rew := acc.rew + ∑ j ∈ range (cutLen rest), γ ^ (i + 1 + j) * (cellAt rest j e).rew,
        nxt := (cellAt rest (cutLen rest - 1) e).nxt,
        done := (cellAt rest (cutLen rest - 1) e).done } := by
  induction rest generalizing i acc with
  | nil => exact absurd rfl hne
  | cons r rest' ih =>
    unfold loop cutLen
    by_cases hd : rowDone r = true
    · simp only [hd, if_true, sum_range_one, Nat.add_zero, Nat.sub_self, cellAt_cons_zero]
      congr 1; ring
    · simp only [hd, Bool.false_eq_true, if_false]
      by_cases hr : rest' = []
      · subst hr
        simp only [loop, cutLen, Nat.add_zero, sum_range_one, Nat.sub_self, cellAt_cons_zero]
        congr 1; ring
      · rw [ih hr]
        have hp := cutLen_pos hr
        have e1 : 1 + cutLen rest' - 1 = (cutLen rest' - 1) + 1 := by omega
        rw [e1, cellAt_cons_succ, Nat.add_comm 1 (cutLen rest'), sum_range_succ']
        simp only [cellAt_cons_succ, cellAt_cons_zero, Nat.add_zero]
        congr 1
        have : ∀ j, γ ^ (i + 1 + 1 + j) = γ ^ (i + 1 + (j + 1)) := by intro j; congr 1; omega
        simp only [this]
        ring

/-- the repaired `_get_n_step_info` in closed form: discounted sum over the first `cutLen w` rows
    (row 0 included), next_obs / done of the last row summed, obs / action of row 0 -/
theorem fuseAt_spec (γ : Rat) (w : List Row) (hne : w ≠ []) (e : Nat) :
    fuseAt true γ w e =
      { obs := (cellAt w 0 e).obs, act := (cellAt w 0 e).act,
        rew := ∑ i ∈ range (cutLen w), γ ^ i * (cellAt w i e).rew,
        nxt := (cellAt w (cutLen w - 1) e).nxt,
        done := (cellAt w (cutLen w - 1) e).done } := by
  cases w with
  | nil => exact absurd rfl hne
  | cons r0 rest =>
    unfold fuseAt cutLen
    by_cases hd : rowDone r0 = true
    · simp [hd, cellAt_cons_zero]
    · simp only [hd, Bool.and_false, Bool.false_eq_true, if_false, cellAt_cons_zero]
      by_cases hr : rest = []
      · subst hr
        simp [loop, cutLen, cellAt_cons_zero]
      · rw [loop_eq γ e rest hr]
        have hp := cutLen_pos hr
        have e1 : 1 + cutLen rest - 1 = (cutLen rest - 1) + 1 := by omega
        rw [e1, cellAt_cons_succ, Nat.add_comm 1 (cutLen rest), sum_range_succ']
        simp only [cellAt_cons_succ, cellAt_cons_zero, Nat.zero_add, pow_zero, one_mul]
        congr 1
        have : ∀ j, γ ^ (1 + j) = γ ^ (j + 1) := by intro j; congr 1; omega
        simp only [this]
        ring

/-- obs and action of the fused record are those of window row 0 (both variants) -/
theorem fuseAt_key (fixed : Bool) (γ : Rat) (w : List Row) (e : Nat) :
    (fuseAt fixed γ w e).obs = (cellAt w 0 e).obs ∧ (fuseAt fixed γ w e).act = (cellAt w 0 e).act := by
  cases w with
  | nil => simp [fuseAt, cellAt]
  | cons r0 rest => simp [fuseAt, cellAt_cons_zero]

/-- what follows a row that is terminal in some environment does not influence the loop -/
theorem loop_indep (γ : Rat) (e : Nat) (p : List Row) (d : Row) (hd : rowDone d = true)
    (rest rest' : List Row) (i : Nat) (acc : Acc) :
    loop γ e i acc (p ++ d :: rest) = loop γ e i acc (p ++ d :: rest') := by
  induction p generalizing i acc with
  | nil => simp [loop, hd]
  | cons r p' ih =>
    simp only [List.cons_append, loop]
    split
    · rfl
    · exact ih _ _

/-- …nor the fused record (repaired variant) -/
theorem fuseAt_indep (γ : Rat) (e : Nat) (p : List Row) (d : Row) (hd : rowDone d = true)
    (rest rest' : List Row) :
    fuseAt true γ (p ++ d :: rest) e = fuseAt true γ (p ++ d :: rest') e := by
  cases p with
  | nil => simp [fuseAt, hd]
  | cons r0 p' =>
    simp only [List.cons_append, fuseAt]
    rw [loop_indep γ e p' d hd rest rest']

/-- the two variants differ only on windows whose first row is terminal -/
theorem fuseAt_buggy_eq (γ : Rat) (r0 : Row) (rest : List Row) (h : rowDone r0 = false) (e : Nat) :
    fuseAt false γ (r0 :: rest) e = fuseAt true γ (r0 :: rest) e := by
  simp [fuseAt, h]

theorem fuseRow_length (fixed : Bool) (γ : Rat) (w : List Row) :
    (fuseRow fixed γ w).length = (w.headD []).length := by
  simp [fuseRow]

theorem fuseRow_getD (fixed : Bool) (γ : Rat) (w : List Row) (e : Nat) (he : e < (w.headD []).length) :
    (fuseRow fixed γ w).getD e default = fuseAt fixed γ w e := by
  have he' : e < (w.head?.getD []).length := by simpa [List.headD_eq_head?_getD] using he
  simp [fuseRow, List.getD_eq_getElem?_getD, he']

end NStep
