import Proofs.NStepAlign
import Gen.NStepGen

/-!
  Proofs/NStepGenEq.lean — the definitions GENERATED from the source text of
  `agilerl/components/replay_buffer.py` (`MultiStepReplayBuffer.add`, `_get_n_step_info`;
  `Gen/NStepGen.lean`, written by `harness/py2lean_nstep.py` on every run) are EQUAL to the hand-written
  model functions of `Model/NStep.lean` (repaired variant, `fixed = true`).

  The generated code works on whole per-environment vectors (`TD` = struct of lists, as the tensordict
  does); the model keeps a list of per-environment cells (`Row`).  `toTD` / `ofTD` convert; they are
  inverse to each other on transitions whose five vectors have one length (`TDWF m`, the tensordict's
  `batch_size = [m]` invariant).  Invariants of the equalities, all explicit: every row of the window /
  stream has the same width `m`; `1 ≤ n_step` (with `n_step = 0` the deque stays empty and the Python
  raises IndexError — the generated `add` answers `none`).
  If the source changes its behaviour these proofs stop checking; the C10 theorems are restated over the
  generated definitions in `Props/C10.lean` (`C10_source_translation_*`).
-/
namespace NStep
open NStepGen Finset

def toTD (r : Row) : TD :=
  ⟨r.map (·.obs), r.map (·.act), r.map (·.rew), r.map (·.nxt), r.map (·.done)⟩

def ofTD (t : TD) : Row :=
  (List.range t.obs.length).map fun e =>
    ⟨t.obs.getD e 0, t.action.getD e 0, t.reward.getD e 0, t.next_obs.getD e 0, t.done.getD e false⟩

structure TDWF (m : Nat) (t : TD) : Prop where
  obs : t.obs.length = m
  action : t.action.length = m
  reward : t.reward.length = m
  next_obs : t.next_obs.length = m
  done : t.done.length = m

theorem range_map_eq {α} (l : List α) (m : Nat) (h : l.length = m) (g : Nat → α)
    (hg : ∀ e (he : e < l.length), g e = l[e]) : (List.range m).map g = l := by
  apply List.ext_getElem
  · simp [h]
  · intro e h1 h2
    simp only [List.getElem_map, List.getElem_range]
    exact hg e h2

theorem toTD_wf (r : Row) : TDWF r.length (toTD r) := by
  constructor <;> simp [toTD]

theorem ofTD_length (t : TD) : (ofTD t).length = t.obs.length := by simp [ofTD]

theorem ofTD_toTD (r : Row) : ofTD (toTD r) = r := by
  unfold ofTD toTD
  simp only [List.length_map]
  apply range_map_eq r r.length rfl
  intro e he
  simp [List.getD_eq_getElem?_getD, he]

theorem toTD_ofTD (m : Nat) (t : TD) (h : TDWF m t) : toTD (ofTD t) = t := by
  obtain ⟨h1, h2, h3, h4, h5⟩ := h
  cases t with
  | mk o a r x d =>
    simp only at h1 h2 h3 h4 h5
    simp only [toTD, ofTD, List.map_map, TD.mk.injEq, h1]
    refine ⟨?_, ?_, ?_, ?_, ?_⟩ <;> apply range_map_eq _ m (by assumption) <;> intro e he <;>
      simp [List.getD_eq_getElem?_getD, he]

theorem tAny_toTD (r : Row) : tAny (toTD r).done = rowDone r := by
  simp [tAny, toTD, rowDone, List.any_map]


/-- what the per-environment loop of the model starts from, read off the vectors of the generated loop -/
def accAt (first : TD) (nsr : List Rat) (e : Nat) : Acc :=
  ⟨nsr.getD e 0, first.next_obs.getD e 0, first.done.getD e false⟩

theorem accAt_step (γ : Rat) (m i : Nat) (r : Row) (hr : r.length = m) (first : TD) (nsr : List Rat)
    (hn : nsr.length = m) (e : Nat) (he : e < m) :
    accAt { first with next_obs := (toTD r).next_obs, done := (toTD r).done }
        (tAdd nsr (tScale (toTD r).reward (γ ^ (i + 1)))) e =
      { rew := (accAt first nsr e).rew + (r.getD e default).rew * γ ^ (i + 1),
        nxt := (r.getD e default).nxt, done := (r.getD e default).done } := by
  have he' : e < r.length := by omega
  have hn' : e < nsr.length := by omega
  simp [accAt, toTD, tAdd, tScale, List.getD_eq_getElem?_getD, he', hn']


/-- the vectors the generated loop carries, rebuilt from per-environment values -/
def pack (m : Nat) (base : TD) (f : Nat → Acc) : TD × List Rat :=
  ({ base with next_obs := (List.range m).map (fun e => (f e).nxt),
               done := (List.range m).map (fun e => (f e).done) },
   (List.range m).map (fun e => (f e).rew))

theorem pack_congr (m : Nat) (base : TD) (f g : Nat → Acc) (h : ∀ e, e < m → f e = g e) :
    pack m base f = pack m base g := by
  have hh : ∀ {α : Type} (p : Acc → α),
      (List.range m).map (fun e => p (f e)) = (List.range m).map (fun e => p (g e)) := by
    intro α p; apply List.map_congr_left; intro e he; rw [h e (List.mem_range.mp he)]
  simp only [pack, hh (·.nxt), hh (·.done), hh (·.rew)]

theorem pack_self (m : Nat) (first : TD) (nsr : List Rat) (h1 : first.next_obs.length = m)
    (h2 : first.done.length = m) (h3 : nsr.length = m) :
    pack m first (accAt first nsr) = (first, nsr) := by
  simp only [pack, accAt]
  rw [range_map_eq first.next_obs m h1, range_map_eq first.done m h2, range_map_eq nsr m h3] <;>
    intro e he <;> simp [List.getD_eq_getElem?_getD, he]

/-- the generated `for` loop on whole vectors = the model's loop run once per environment -/
theorem gen_loop_eq (n : Nat) (γ : Rat) (m : Nat) : ∀ (rest : List Row) (i : Nat) (first : TD) (nsr : List Rat),
    (∀ r ∈ rest, r.length = m) → first.next_obs.length = m → first.done.length = m → nsr.length = m →
    get_n_step_info_loop0 n γ i (rest.map toTD) first nsr =
      pack m first (fun e => loop γ e i (accAt first nsr e) rest)
  | [], i, first, nsr, _, h1, h2, h3 => by
    show (first, nsr) = _
    simp only [loop]
    exact (pack_self m first nsr h1 h2 h3).symm
  | r :: rest, i, first, nsr, hall, h1, h2, h3 => by
    have hr : r.length = m := hall r (by simp)
    have hrest : ∀ x ∈ rest, x.length = m := fun x hx => hall x (by simp [hx])
    have hF : ({ first with next_obs := (toTD r).next_obs, done := (toTD r).done } : TD).next_obs.length = m := by
      simp [toTD, hr]
    have hD : ({ first with next_obs := (toTD r).next_obs, done := (toTD r).done } : TD).done.length = m := by
      simp [toTD, hr]
    have hN : (tAdd nsr (tScale (toTD r).reward (γ ^ (i + 1)))).length = m := by
      simp [tAdd, tScale, toTD, hr, h3]
    -- one iteration of the generated loop body, as the source text has it
    show (if tAny (toTD r).done = true then
            (({ first with next_obs := (toTD r).next_obs, done := (toTD r).done } : TD),
              tAdd nsr (tScale (toTD r).reward (γ ^ (i + 1))))
          else get_n_step_info_loop0 n γ (i + 1) (rest.map toTD)
            { first with next_obs := (toTD r).next_obs, done := (toTD r).done }
            (tAdd nsr (tScale (toTD r).reward (γ ^ (i + 1))))) = _
    rw [tAny_toTD, gen_loop_eq n γ m rest (i + 1) _ _ hrest hF hD hN, ← pack_self m _ _ hF hD hN]
    have hstep := accAt_step γ m i r hr first nsr h3
    by_cases hd : rowDone r = true
    · rw [if_pos hd]
      show pack m first _ = _
      apply pack_congr
      intro e he
      simp only [loop, hd, if_true, hstep e he]
    · rw [if_neg hd]
      show pack m first _ = _
      apply pack_congr
      intro e he
      simp only [loop, hd, hstep e he]
      simp

theorem accAt_toTD (r : Row) (e : Nat) (he : e < r.length) :
    accAt (toTD r) (toTD r).reward e =
      ⟨(r.getD e default).rew, (r.getD e default).nxt, (r.getD e default).done⟩ := by
  simp [accAt, toTD, List.getD_eq_getElem?_getD, he]

theorem range_map_field {α} (r : Row) (m : Nat) (hr : r.length = m) (p : Cell → α) :
    (List.range m).map (fun e => p (r.getD e default)) = r.map p := by
  apply range_map_eq _ m (by simp [hr])
  intro e he
  have he' : e < r.length := by simpa using he
  simp [List.getD_eq_getElem?_getD, he']

/-- a window whose first row is terminal in some environment is returned as it is -/
theorem fuseRow_first_done (γ : Rat) (r0 : Row) (rest : List Row) (hd : rowDone r0 = true) :
    fuseRow true γ (r0 :: rest) = r0 := by
  unfold fuseRow
  simp only [List.headD_cons]
  apply range_map_eq r0 r0.length rfl
  intro e he
  simp [fuseAt, hd, List.getD_eq_getElem?_getD, he]

/-- `_get_n_step_info` on a non-empty window of rows of one width = the model's `fuseRow true`
    (the repaired variant), as a whole vectorised record -/
theorem gen_get_n_step_info_eq (n : Nat) (γ : Rat) (m : Nat) (w : List Row) (hne : w ≠ [])
    (hall : ∀ r ∈ w, r.length = m) :
    get_n_step_info n γ (w.map toTD) = some (toTD (fuseRow true γ w)) := by
  cases w with
  | nil => exact absurd rfl hne
  | cons r0 rest =>
    have hr : r0.length = m := hall r0 (by simp)
    have hrest : ∀ x ∈ rest, x.length = m := fun x hx => hall x (by simp [hx])
    have hwf := toTD_wf r0
    -- the body of the generated definition on a window `r0 :: rest`, as the source text has it
    show (if tAny (toTD r0).done = true then some (toTD r0)
          else some { (get_n_step_info_loop0 n γ 0 (rest.map toTD) (toTD r0) (toTD r0).reward).1 with
                      reward := (get_n_step_info_loop0 n γ 0 (rest.map toTD) (toTD r0) (toTD r0).reward).2 }) = _
    rw [tAny_toTD]
    by_cases hd : rowDone r0 = true
    · rw [if_pos hd, fuseRow_first_done γ r0 rest hd]
    · rw [if_neg hd, gen_loop_eq n γ m rest 0 _ _ hrest (by rw [hwf.next_obs, hr]) (by rw [hwf.done, hr])
        (by rw [hwf.reward, hr])]
      obtain ⟨F, hF⟩ : ∃ F : Nat → Acc, F = fun e => loop γ e 0 (accAt (toTD r0) (toTD r0).reward e) rest :=
        ⟨_, rfl⟩
      rw [← hF]
      have hf : ∀ e, e < m → fuseAt true γ (r0 :: rest) e =
          { obs := (r0.getD e default).obs, act := (r0.getD e default).act,
            rew := (F e).rew, nxt := (F e).nxt, done := (F e).done } := by
        intro e he
        rw [hF]
        simp only []
        rw [accAt_toTD r0 e (by omega)]
        simp [fuseAt, hd]
      have hh : ∀ {α : Type} (p : Cell → α) (q : Nat → α),
          (∀ e, e < m → p (fuseAt true γ (r0 :: rest) e) = q e) →
          ((List.range m).map (fuseAt true γ (r0 :: rest))).map p = (List.range m).map q := by
        intro α p q h
        rw [List.map_map]
        apply List.map_congr_left
        intro e he
        exact h e (List.mem_range.mp he)
      simp only [pack, fuseRow, List.headD_cons, hr, Option.some.injEq]
      unfold toTD
      rw [hh (·.obs) (fun e => (r0.getD e default).obs) (fun e he => by rw [hf e he]),
        hh (·.act) (fun e => (r0.getD e default).act) (fun e he => by rw [hf e he]),
        hh (·.rew) (fun e => (F e).rew) (fun e he => by rw [hf e he]),
        hh (·.nxt) (fun e => (F e).nxt) (fun e he => by rw [hf e he]),
        hh (·.done) (fun e => (F e).done) (fun e he => by rw [hf e he]),
        range_map_field r0 m hr, range_map_field r0 m hr]


/-! ### `add` -/

theorem dequeAppend_toTD (n : Nat) (w : List Row) (r : Row) :
    dequeAppend n (w.map toTD) (toTD r) = (push n w r).map toTD := by
  simp [dequeAppend, push, List.map_drop]

theorem push_ne_nil (n : Nat) (hn : 1 ≤ n) (w : List Row) (r : Row) : push n w r ≠ [] := by
  intro h
  have := congrArg List.length h
  simp [push] at this
  omega

theorem push_widths (n m : Nat) (w : List Row) (r : Row) (hw : ∀ x ∈ w, x.length = m) (hr : r.length = m) :
    ∀ x ∈ push n w r, x.length = m := by
  intro x hx
  have hx' : x ∈ w ++ [r] := List.mem_of_mem_drop hx
  rcases List.mem_append.mp hx' with h | h
  · exact hw x h
  · have : x = r := by simpa using h
    rw [this]; exact hr

/-- what the model's `State.add` does with the window, the n-step storage and the returned row -/
def addSpec (n : Nat) (γ : Rat) (w : List Row) (r : Row) : AddResult :=
  if (push n w r).length < n then ⟨(push n w r).map toTD, none, none⟩
  else ⟨(push n w r).map toTD, some (toTD (fuseRow true γ (push n w r))), some (toTD ((push n w r).headD []))⟩

/-- `MultiStepReplayBuffer.add`: deque append, the "not full yet" return, the fused record handed to
    `super().add`, the returned oldest row -/
theorem gen_add_eq (n : Nat) (γ : Rat) (m : Nat) (hn : 1 ≤ n) (w : List Row) (r : Row)
    (hw : ∀ x ∈ w, x.length = m) (hr : r.length = m) :
    NStepGen.add n γ (w.map toTD) (toTD r) = some (addSpec n γ w r) := by
  have hne := push_ne_nil n hn w r
  have hwd := push_widths n m w r hw hr
  unfold NStepGen.add addSpec
  simp only [dequeAppend_toTD, List.length_map]
  by_cases hlt : (push n w r).length < n
  · simp only [hlt, if_true]
  · simp only [hlt, if_false]
    rw [gen_get_n_step_info_eq n γ m _ hne hwd]
    cases hp : push n w r with
    | nil => exact absurd hp hne
    | cons x xs => simp

/-- the storing part of `train_off_policy` (`one = n_step_memory.add(t); if one is not None:
    memory.add(one)`) over the generated `add`: the deque, every record handed to the n-step storage,
    every record handed to the 1-step buffer -/
structure GenState where
  buf : List TD
  stored : List TD
  ret : List TD
deriving DecidableEq

def genStep (n : Nat) (γ : Rat) (g : Option GenState) (x : TD) : Option GenState :=
  match g with
  | none => none
  | some g =>
    match NStepGen.add n γ g.buf x with
    | none => none
    | some a => some ⟨a.buf, g.stored ++ a.stored.toList, g.ret ++ a.ret.toList⟩

def genRun (n : Nat) (γ : Rat) (xs : List TD) : Option GenState :=
  xs.foldl (genStep n γ) (some ⟨[], [], []⟩)

def genView (s : State) : GenState := ⟨s.window.map toTD, s.nRows.map toTD, s.oRows.map toTD⟩

theorem gen_step_eq (m : Nat) (s : State) (hf : s.fixed = true) (hn : 1 ≤ s.n) (r : Row)
    (hw : ∀ x ∈ s.window, x.length = m) (hr : r.length = m) :
    genStep s.n s.γ (some (genView s)) (toTD r) = some (genView (s.add r)) := by
  unfold genStep genView
  simp only [gen_add_eq s.n s.γ m hn s.window r hw hr]
  unfold addSpec State.add
  by_cases hlt : (push s.n s.window r).length < s.n
  · simp [hlt]
  · simp [hlt, hf]

theorem add_keeps (s : State) (r : Row) :
    (s.add r).n = s.n ∧ (s.add r).γ = s.γ ∧ (s.add r).fixed = s.fixed ∧ (s.add r).window = push s.n s.window r := by
  unfold State.add
  by_cases hlt : (push s.n s.window r).length < s.n <;> simp [hlt]

/-- folding the generated `add` over a stream = the model's `run` (window, n-step log, 1-step log) -/
theorem gen_run_eq (n m capN capO : Nat) (γ : Rat) (hn : 1 ≤ n) (rows : List Row)
    (hall : ∀ r ∈ rows, r.length = m) :
    genRun n γ (rows.map toTD) = some (genView (run n γ true capN capO rows)) := by
  unfold genRun run
  suffices H : ∀ (s : State), s.n = n → s.γ = γ → s.fixed = true → (∀ x ∈ s.window, x.length = m) →
      (rows.map toTD).foldl (genStep n γ) (some (genView s)) = some (genView (rows.foldl State.add s)) by
    exact H (State.init n γ true capN capO) rfl rfl rfl (by simp [State.init])
  induction rows with
  | nil => intro s _ _ _ _; rfl
  | cons r rest ih =>
    intro s h1 h2 h3 h4
    have hr : r.length = m := hall r (by simp)
    obtain ⟨k1, k2, k3, k4⟩ := add_keeps s r
    simp only [List.map_cons, List.foldl_cons]
    have := gen_step_eq m s h3 (by omega) r h4 hr
    rw [h1, h2] at this
    rw [this]
    exact ih (fun x hx => hall x (by simp [hx])) (s.add r) (by rw [k1, h1]) (by rw [k2, h2]) (by rw [k3, h3])
      (by rw [k4]; exact push_widths s.n m s.window r h4 hr)


/-! ### arbitrary well-formed transitions are images of model rows -/

theorem ofTD_width (m : Nat) (t : TD) (h : TDWF m t) : (ofTD t).length = m := by
  rw [ofTD_length, h.obs]

theorem map_toTD_ofTD (m : Nat) (W : List TD) (h : ∀ t ∈ W, TDWF m t) : (W.map ofTD).map toTD = W := by
  rw [List.map_map]
  conv => rhs; rw [← List.map_id W]
  apply List.map_congr_left
  intro t ht
  exact toTD_ofTD m t (h t ht)

theorem map_ofTD_widths (m : Nat) (W : List TD) (h : ∀ t ∈ W, TDWF m t) :
    ∀ r ∈ W.map ofTD, r.length = m := by
  intro r hr
  obtain ⟨t, ht, rfl⟩ := List.mem_map.mp hr
  exact ofTD_width m t (h t ht)

/-! ### the model's `cutLen` / `cellAt` on generated transitions -/

/-- number of rows of a window that `_get_n_step_info` sums: up to and including the first row whose
    `done.any()` holds (the `cutLen` of the model, on generated transitions) -/
def genCut : List TD → Nat
  | [] => 0
  | t :: rest => if tAny t.done then 1 else 1 + genCut rest

theorem genCut_eq_findIdx (W : List TD) :
    genCut W = min (W.findIdx (fun t => tAny t.done) + 1) W.length := by
  induction W with
  | nil => simp [genCut]
  | cons t rest ih =>
    unfold genCut
    rw [List.findIdx_cons]
    cases h : tAny t.done with
    | true => simp
    | false =>
      simp only [Bool.false_eq_true, if_false, cond_false, List.length_cons, ih]
      omega

theorem rowDone_ofTD (m : Nat) (t : TD) (h : TDWF m t) : rowDone (ofTD t) = tAny t.done := by
  rw [← tAny_toTD, toTD_ofTD m t h]

theorem cutLen_ofTD (m : Nat) (W : List TD) (h : ∀ t ∈ W, TDWF m t) : cutLen (W.map ofTD) = genCut W := by
  induction W with
  | nil => rfl
  | cons t rest ih =>
    simp only [List.map_cons, cutLen, genCut, rowDone_ofTD m t (h t (by simp)),
      ih (fun x hx => h x (by simp [hx]))]

/-- environment `e` of row `i` of a window of generated transitions, as a model cell -/
theorem cellAt_ofTD (m : Nat) (W : List TD) (h : ∀ t ∈ W, TDWF m t) (i e : Nat) (hi : i < W.length)
    (he : e < m) :
    cellAt (W.map ofTD) i e =
      ⟨(W.getD i default).obs.getD e 0, (W.getD i default).action.getD e 0,
       (W.getD i default).reward.getD e 0, (W.getD i default).next_obs.getD e 0,
       (W.getD i default).done.getD e false⟩ := by
  have hwf := h W[i] (List.getElem_mem hi)
  have he' : e < (W[i]).obs.length := by rw [hwf.obs]; exact he
  simp [cellAt, List.getD_eq_getElem?_getD, hi, ofTD, he']

theorem toTD_getD (r : Row) (e : Nat) (he : e < r.length) :
    (toTD r).obs.getD e 0 = (r.getD e default).obs ∧ (toTD r).action.getD e 0 = (r.getD e default).act ∧
    (toTD r).reward.getD e 0 = (r.getD e default).rew ∧ (toTD r).next_obs.getD e 0 = (r.getD e default).nxt ∧
    (toTD r).done.getD e false = (r.getD e default).done := by
  simp [toTD, List.getD_eq_getElem?_getD, he]

/-! ### the invariants are satisfiable; the generated code computes the expected values -/

/-- two environments, environment 1 ends at the second row -/
def demoTD : List TD :=
  [⟨[10, 20], [10, 20], [1, 2], [11, 21], [false, false]⟩,
   ⟨[11, 21], [11, 21], [4, 8], [12, 22], [false, true]⟩,
   ⟨[12, 30], [12, 30], [16, 32], [13, 31], [false, false]⟩]

example : ∀ t ∈ demoTD, TDWF 2 t := by
  intro t ht
  simp only [demoTD, List.mem_cons, List.not_mem_nil, or_false] at ht
  rcases ht with rfl | rfl | rfl <;> constructor <;> rfl
-- cut after the second row: 1 + 4/2 and 2 + 8/2, next_obs / done of the second row
example : get_n_step_info 3 (1/2) demoTD = some ⟨[10, 20], [10, 20], [3, 6], [12, 22], [false, true]⟩ := by
  decide +kernel
-- a window that starts on the terminal row is returned as it is
example : get_n_step_info 2 (1/2) (demoTD.drop 1) = some (demoTD.getD 1 default) := by decide +kernel
-- the deque is not full yet: nothing stored, `None` returned; full: fused record stored, oldest row returned
example : NStepGen.add 3 (1/2) (demoTD.take 1) (demoTD.getD 1 default) = some ⟨demoTD.take 2, none, none⟩ := by
  decide +kernel
example : NStepGen.add 3 (1/2) (demoTD.take 2) (demoTD.getD 2 default) =
    some ⟨demoTD, some ⟨[10, 20], [10, 20], [3, 6], [12, 22], [false, true]⟩, some (demoTD.getD 0 default)⟩ := by
  decide +kernel
example : (demoTD.map ofTD).map toTD = demoTD := by decide +kernel

end NStep
