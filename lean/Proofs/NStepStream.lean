import Proofs.NStepFuse
import Proofs.RingConv

/-! Helper lemmas for C10: what the n-step buffer and the paired 1-step buffer contain after an
    arbitrary stream of vectorised transitions (invariant + induction over the stream). -/
namespace NStep
open Ring

/-- the batches of record ids written by the first `K` emissions with `m` environments -/
def batches (K m : Nat) : List (List Nat) := (List.range K).map (fun k => List.range' (k * m) m)

theorem batches_succ (K m : Nat) : batches (K + 1) m = batches K m ++ [List.range' (K * m) m] := by
  simp [batches, List.range_succ]

theorem batches_flatten (K m : Nat) : (batches K m).flatten = List.range (K * m) := by
  induction K with
  | zero => simp [batches]
  | succ K ih =>
    rw [batches_succ, List.flatten_append, ih, List.range_eq_range', List.range_eq_range']
    have := @List.range'_append 0 (K * m) m 1
    simp only [Nat.zero_add, Nat.one_mul] at this
    simp only [List.flatten_cons, List.flatten_nil, List.append_nil]
    rw [this]; congr 1; rw [Nat.succ_mul]

theorem batches_width (K m : Nat) : ∀ xs ∈ batches K m, xs.length = m := by
  intro xs hx
  simp only [batches, List.mem_map] at hx
  obtain ⟨k, _, rfl⟩ := hx
  simp

theorem foldl_add_counter (ops : List (List Nat)) (b : Buf) :
    (ops.foldl Buf.add b).counter = b.counter + ops.flatten.length := by
  induction ops generalizing b with
  | nil => simp
  | cons x xs ih =>
    simp only [List.foldl_cons, ih, List.flatten_cons, List.length_append]
    simp only [Buf.add]; omega

/-- element `k * m + e` of the concatenation of rows that all have `m` cells -/
theorem flatten_uniform_getElem? {α} (L : List (List α)) (m : Nat) (h : ∀ r ∈ L, r.length = m)
    (k e : Nat) (he : e < m) : L.flatten[k * m + e]? = (L.getD k [])[e]? := by
  induction L generalizing k with
  | nil => simp
  | cons r L' ih =>
    have hr : r.length = m := h r (by simp)
    cases k with
    | zero =>
      simp only [List.flatten_cons, Nat.zero_mul, Nat.zero_add, List.getD_cons_zero]
      rw [List.getElem?_append_left (by omega)]
    | succ k =>
      simp only [List.flatten_cons, List.getD_cons_succ]
      rw [List.getElem?_append_right (by rw [hr, Nat.succ_mul]; omega)]
      have e1 : (k + 1) * m + e - r.length = k * m + e := by rw [hr, Nat.succ_mul]; omega
      rw [e1]
      exact ih (fun r hr => h r (by simp [hr])) k

/-- `deque(maxlen = n)` holding the tail of the history, after one more append -/
theorem push_drop (n : Nat) (hist : List Row) (r : Row) :
    push n (hist.drop (hist.length - n)) r = (hist ++ [r]).drop (hist.length + 1 - n) := by
  unfold push
  simp only [List.length_append, List.length_drop, List.length_cons, List.length_nil]
  rw [← List.drop_append_of_le_length (by omega), List.drop_drop]
  congr 1; omega

/-- contents of both buffers and of the window after the stream `hist` -/
structure SInv (n : Nat) (γ : Rat) (fixed : Bool) (capN capO m : Nat) (s : State) (hist : List Row) :
    Prop where
  hn : s.n = n
  hγ : s.γ = γ
  hf : s.fixed = fixed
  window : s.window = hist.drop (hist.length - n)
  nRows : s.nRows = (List.range (hist.length + 1 - n)).map
            (fun k => fuseRow fixed γ ((hist.drop k).take n))
  oRows : s.oRows = hist.take (hist.length + 1 - n)
  nbuf : s.nbuf = (batches (hist.length + 1 - n) m).foldl Buf.add (Buf.empty capN)
  obuf : s.obuf = (batches (hist.length + 1 - n) m).foldl Buf.add (Buf.empty capO)

theorem sinv_init (n : Nat) (γ : Rat) (fixed : Bool) (capN capO m : Nat) (hn1 : 1 ≤ n) :
    SInv n γ fixed capN capO m (State.init n γ fixed capN capO) [] := by
  have e : 0 + 1 - n = 0 := by omega
  refine ⟨rfl, rfl, rfl, by simp [State.init], ?_, ?_, ?_, ?_⟩ <;>
    simp [State.init, e, batches]

theorem sinv_add (n : Nat) (γ : Rat) (fixed : Bool) (capN capO m : Nat) (hn1 : 1 ≤ n)
    (s : State) (hist : List Row) (r : Row) (h : SInv n γ fixed capN capO m s hist)
    (hall : ∀ x ∈ hist, x.length = m) (hr : r.length = m) :
    SInv n γ fixed capN capO m (s.add r) (hist ++ [r]) := by
  obtain ⟨hn, hγ, hf, hwin, hnr, hor, hnb, hob⟩ := h
  have hw : push n s.window r = (hist ++ [r]).drop (hist.length + 1 - n) := by
    rw [hwin]; exact push_drop n hist r
  have hL : (hist ++ [r]).length = hist.length + 1 := by simp
  unfold State.add
  simp only [hn, hγ, hf, hw]
  by_cases hlt : hist.length + 1 < n
  · -- window not yet full: nothing is stored
    have hc : ((hist ++ [r]).drop (hist.length + 1 - n)).length < n := by
      simp only [List.length_drop, hL]; omega
    simp only [hc, if_true]
    have e0 : hist.length + 1 - n = 0 := by omega
    have e1 : hist.length + 1 + 1 - n = 0 := by omega
    refine ⟨rfl, rfl, rfl, ?_, ?_, ?_, ?_, ?_⟩
    · simp [hL]
    · simp [hL, e1, hnr, e0]
    · simp only [hL, e1, hor, e0, List.take_zero]
    · simp only [hL, e1, hnb, e0]
    · simp only [hL, e1, hob, e0]
  · -- window full: one fused record and one 1-step record are stored
    have hc : ¬ ((hist ++ [r]).drop (hist.length + 1 - n)).length < n := by
      simp only [List.length_drop, hL]; omega
    simp only [hc, if_false]
    generalize hK : hist.length + 1 - n = K at *
    have hK1 : hist.length + 1 + 1 - n = K + 1 := by omega
    have hKL : K ≤ hist.length := by omega
    have hKlt : K < (hist ++ [r]).length := by rw [hL]; omega
    -- the new window, as a slice of the stream
    have hslice : (hist ++ [r]).drop K = ((hist ++ [r]).drop K).take n := by
      rw [List.take_of_length_le]; simp only [List.length_drop, hL]; omega
    -- the oldest row of the window
    have hhead : ((hist ++ [r]).drop K).headD [] = (hist ++ [r])[K] := by
      rw [List.headD_eq_head?_getD, List.head?_drop, List.getElem?_eq_getElem hKlt]; rfl
    have hheadlen : ((hist ++ [r])[K]).length = m := by
      have hm : (hist ++ [r])[K] ∈ hist ++ [r] := List.getElem_mem hKlt
      rcases List.mem_append.mp hm with h1 | h1
      · exact hall _ h1
      · have : (hist ++ [r])[K] = r := by simpa using h1
        rw [this]; exact hr
    have hcnt : ∀ cap, ((batches K m).foldl Buf.add (Buf.empty cap)).counter = K * m := by
      intro cap
      rw [foldl_add_counter, batches_flatten]; simp [Buf.empty]
    refine ⟨rfl, rfl, rfl, ?_, ?_, ?_, ?_, ?_⟩
    · simp only [hL, hK]
    · simp only [hL, hK1, hnr, List.range_succ, List.map_append, List.map_cons, List.map_nil]
      congr 1
      · apply List.map_congr_left
        intro k hk
        have hk' : k < K := List.mem_range.mp hk
        rw [List.drop_append_of_le_length (by omega), List.take_append_of_le_length]
        simp only [List.length_drop]; omega
      · rw [← hslice]
    · simp only [hL, hK1, hor, hhead]
      rw [List.take_add_one, List.getElem?_eq_getElem hKlt, List.take_append_of_le_length hKL]
      rfl
    · simp only [hL, hK1, hnb, fuseRow_length, hhead, hheadlen, hcnt, batches_succ,
        List.foldl_append, List.foldl_cons, List.foldl_nil]
    · simp only [hL, hK1, hob, hhead, hheadlen, hcnt, batches_succ,
        List.foldl_append, List.foldl_cons, List.foldl_nil]

/-- every reachable state: induction over the stream -/
theorem run_inv (n : Nat) (γ : Rat) (fixed : Bool) (capN capO m : Nat) (hn1 : 1 ≤ n)
    (rows : List Row) (hall : ∀ r ∈ rows, r.length = m) :
    SInv n γ fixed capN capO m (run n γ fixed capN capO rows) rows := by
  unfold run
  suffices H : ∀ (s : State) (hist : List Row), SInv n γ fixed capN capO m s hist →
      (∀ x ∈ hist, x.length = m) →
      SInv n γ fixed capN capO m (rows.foldl State.add s) (hist ++ rows) by
    simpa using H _ [] (sinv_init n γ fixed capN capO m hn1) (by simp)
  induction rows with
  | nil => intro s hist h _; simpa using h
  | cons r rest ih =>
    intro s hist h hh
    have hr : r.length = m := hall r (by simp)
    have := ih (fun x hx => hall x (by simp [hx])) (s.add r) (hist ++ [r])
      (sinv_add n γ fixed capN capO m hn1 s hist r h hh hr)
      (by intro x hx; rcases List.mem_append.mp hx with h1 | h1
          · exact hh x h1
          · have : x = r := by simpa using h1
            rw [this]; exact hr)
    simpa [List.append_assoc] using this

end NStep
