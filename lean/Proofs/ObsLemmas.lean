import Model.Obs

/-! Helper lemmas for C15 (observation handling): chunking, one-hot, Option/Except plumbing. Core Lean only. -/
namespace Obs

/-! ### chunk -/

theorem chunkAux_nil {α} (k f : Nat) : chunkAux k f ([] : List α) = [] := by
  cases f <;> rfl

theorem chunk_nil {α} (k : Nat) : chunk k ([] : List α) = [] := rfl

theorem chunkAux_flatten {α} (k : Nat) (hk : 0 < k) :
    ∀ (ls : List (List α)) (f : Nat), (∀ x ∈ ls, x.length = k) → ls.flatten.length ≤ f →
      chunkAux k f ls.flatten = ls
  | [], f, _, _ => by simp [chunkAux_nil]
  | x :: r, f, h, hf => by
    have hx : x.length = k := h x (by simp)
    have hr : ∀ y ∈ r, y.length = k := fun y hy => h y (by simp [hy])
    simp only [List.flatten_cons, List.length_append] at hf ⊢
    cases f with
    | zero => omega
    | succ f =>
      cases hxr : x ++ r.flatten with
      | nil =>
        have : (x ++ r.flatten).length = 0 := by rw [hxr]; rfl
        simp only [List.length_append] at this; omega
      | cons a t =>
        simp only [chunkAux]
        rw [← hxr]
        have h1 : (x ++ r.flatten).take k = x := by
          rw [← hx]; simp
        have h2 : (x ++ r.flatten).drop k = r.flatten := by
          rw [← hx]; simp
        rw [h1, h2, chunkAux_flatten k hk r f hr (by omega)]

/-- chunking a concatenation of `k`-element rows gives the rows back -/
theorem chunk_flatten {α} (k : Nat) (hk : 0 < k) (ls : List (List α))
    (h : ∀ x ∈ ls, x.length = k) : chunk k ls.flatten = ls :=
  chunkAux_flatten k hk ls _ h (Nat.le_refl _)

theorem flatten_chunkAux {α} (k : Nat) (hk : 0 < k) :
    ∀ (f : Nat) (l : List α), l.length ≤ f → (chunkAux k f l).flatten = l
  | 0, l, h => by
    have : l = [] := List.length_eq_zero_iff.mp (by omega)
    subst this; rfl
  | f + 1, [], _ => rfl
  | f + 1, x :: xs, h => by
    simp only [chunkAux, List.flatten_cons]
    rw [flatten_chunkAux k hk f _ (by simp only [List.length_drop, List.length_cons] at h ⊢; omega)]
    exact List.take_append_drop k (x :: xs)

/-- chunks concatenate back to the list -/
theorem flatten_chunk {α} (k : Nat) (hk : 0 < k) (l : List α) : (chunk k l).flatten = l :=
  flatten_chunkAux k hk _ l (Nat.le_refl _)

theorem chunkAux_lengths {α} (k : Nat) (hk : 0 < k) :
    ∀ (f n : Nat) (l : List α), l.length = n * k → l.length ≤ f →
      (chunkAux k f l).length = n ∧ ∀ x ∈ chunkAux k f l, x.length = k
  | 0, n, l, hl, h => by
    have h0 : l.length = 0 := by omega
    have : l = [] := List.length_eq_zero_iff.mp h0
    subst this
    have : n = 0 := by
      cases n with
      | zero => rfl
      | succ m =>
        have : 0 < (m + 1) * k := Nat.mul_pos (by omega) hk
        simp at hl; omega
    simp [chunkAux, this]
  | f + 1, n, [], hl, _ => by
    have : n = 0 := by
      cases n with
      | zero => rfl
      | succ m =>
        have : 0 < (m + 1) * k := Nat.mul_pos (by omega) hk
        simp at hl; omega
    simp [chunkAux, this]
  | f + 1, n, x :: xs, hl, h => by
    cases n with
    | zero => simp at hl
    | succ m =>
      have hge : k ≤ (x :: xs).length := by
        rw [hl, Nat.succ_mul]; omega
      have hd : ((x :: xs).drop k).length = m * k := by
        rw [List.length_drop, hl, Nat.succ_mul]; omega
      obtain ⟨a, b⟩ := chunkAux_lengths k hk f m ((x :: xs).drop k) hd
        (by rw [hd]; rw [hl, Nat.succ_mul] at h; omega)
      simp only [chunkAux, List.length_cons, a, List.mem_cons, true_and]
      intro y hy
      rcases hy with rfl | hy
      · rw [List.length_take]; omega
      · exact b y hy

/-- a list of `n * k` elements has `n` chunks, each of `k` elements -/
theorem chunk_lengths {α} (k : Nat) (hk : 0 < k) (n : Nat) (l : List α) (hl : l.length = n * k) :
    (chunk k l).length = n ∧ ∀ x ∈ chunk k l, x.length = k :=
  chunkAux_lengths k hk _ n l hl (Nat.le_refl _)

/-! ### numel -/

theorem numel_append (a b : List Nat) : numel (a ++ b) = numel a * numel b := by
  induction a with
  | nil => simp [numel]
  | cons d r ih => simp [numel, ih, Nat.mul_assoc]

theorem numel_singleton (n : Nat) : numel [n] = n := by simp [numel]

theorem numel_squeezeAll (s : List Nat) : numel (squeezeAll s) = numel s := by
  induction s with
  | nil => rfl
  | cons d r ih =>
    unfold squeezeAll at ih ⊢
    by_cases h : d = 1
    · subst h
      rw [List.filter_cons_of_neg (by simp)]
      simp only [numel, Nat.one_mul]; exact ih
    · rw [List.filter_cons_of_pos (by simp [h])]
      simp only [numel]; rw [ih]

/-! ### allOk -/

theorem allOk_map_some {α β} (f : α → Option β) (g : α → β) (l : List α)
    (h : ∀ x ∈ l, f x = some (g x)) : allOk (l.map f) = some (l.map g) := by
  induction l with
  | nil => rfl
  | cons a r ih =>
    have ha := h a (by simp)
    have hr := ih (fun x hx => h x (by simp [hx]))
    simp [allOk, ha, hr]

theorem allOk_eq_some {α} : ∀ (l : List (Option α)) (r : List α), allOk l = some r → l = r.map some
  | [], r, h => by simp [allOk] at h; subst h; rfl
  | none :: _, r, h => by simp [allOk] at h
  | some a :: t, r, h => by
    simp only [allOk, Option.map_eq_some_iff] at h
    obtain ⟨r', hr', rfl⟩ := h
    simp [allOk_eq_some t r' hr']

theorem allOk_append {α} (a b : List (Option α)) :
    allOk (a ++ b) = (allOk a).bind (fun x => (allOk b).map (x ++ ·)) := by
  induction a with
  | nil => simp [allOk]
  | cons x r ih =>
    cases x with
    | none => simp [allOk]
    | some v =>
      simp only [List.cons_append, allOk, ih]
      cases allOk r <;> cases allOk b <;> simp

end Obs
