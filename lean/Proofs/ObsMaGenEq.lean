import Gen.ObsMaGen
import Proofs.ObsValGenEq

/-!
  Proofs/ObsMaGenEq.lean — the multi-agent dict loops GENERATED from the source text (`Gen/ObsMaGen.lean`, by
  harness/py2lean_obsma.py) equal the hand-written loops of `Model/Obs.lean`, for all inputs, errors included.

  * `gen_ma_preprocess_eq`            `MultiAgentRLAlgorithm.preprocess_observation` = `Obs.maPreprocess`
  * `gen_sum_shared_rewards_eq`       `sum_shared_rewards` = `Obs.sumShared`
  * `gen_ippo_preprocess_eq`          `IPPO.preprocess_observation` = `Obs.ippoPreprocess`
  * `gen_assemble_shared_inputs_eq`   `IPPO.assemble_shared_inputs` = `Obs.assembleShared` (nested association lists)
  * `maPreprocess_own_space`, `maPreprocess_fixed_space_witness`   what the model loop computes: agent `a` with `a`'s space
  * `sumShared_sums_own_group`        every group's entry = 0 + exactly the rewards of its own agents
  * `assembleShared_agent_ids_order`, `assembleShared_input_order_invariant`   groups list their agents in `agent_ids` order
-/

set_option linter.unusedSimpArgs false
namespace ObsMaGenEq
open ObsValGen ObsMaGen ObsValGenEq

/-! ### the Python dict prelude = ordered association lists -/

def liftO {V} : Option V → M V
  | some v => .ok v
  | none => .error .key

theorem pyGetAux_eq {V} (k : String) : ∀ l : List (String × V), pyGetAux k l = liftO (Obs.alookup k l)
  | [] => rfl
  | (k', v) :: r => by
    simp only [pyGetAux, Obs.alookup]
    split
    · rfl
    · exact pyGetAux_eq k r

theorem pyGet_eq {V} (d : PyDict V) (k : String) : pyGet d k = liftO (Obs.alookup k d.items) := pyGetAux_eq k _

theorem pySetAux_eq {V} (k : String) (v : V) : ∀ l : List (String × V), pySetAux k v l = Obs.aset k v l
  | [] => rfl
  | (k', v') :: r => by
    simp only [pySetAux, Obs.aset]
    split
    · rfl
    · rw [pySetAux_eq k v r]

theorem pySet_eq {V} (d : PyDict V) (k : String) (v : V) : pySet d k v = ⟨Obs.aset k v d.items⟩ := by
  simp [pySet, pySetAux_eq]

theorem pyGetOpt_eq {V} (d : PyDict V) (k : String) : pyGetOpt d k = Obs.alookup k d.items := by
  unfold pyGetOpt
  rw [pyGet_eq]
  cases Obs.alookup k d.items <;> rfl

theorem pyInDict_eq {V} (k : String) (d : PyDict V) : pyInDict k d = (Obs.alookup k d.items).isSome := by
  unfold pyInDict
  induction d.items with
  | nil => rfl
  | cons p r ih =>
    obtain ⟨k', v⟩ := p
    simp only [List.any_cons, Obs.alookup]
    by_cases h : k' = k
    · simp [h]
    · simp [h, ih]

theorem pyDictOfPairs_const {V} (ks : List String) (c : V) :
    pyDictOfPairs (ks.map (fun k => (k, c))) = ⟨Obs.aofKeys ks c⟩ := by
  unfold pyDictOfPairs Obs.aofKeys
  suffices h : ∀ (d : PyDict V), (ks.map (fun k => (k, c))).foldl (fun d p => pySet d p.1 p.2) d
      = ⟨ks.foldl (fun d k => Obs.aset k c d) d.items⟩ from h pyEmpty
  induction ks with
  | nil => intro d; rfl
  | cons k r ih => intro d; simp only [List.map_cons, List.foldl_cons]; rw [ih, pySet_eq]

theorem insertByKey_eq (x : String × Nat) : ∀ l, insertByKey x l = Obs.insertByPos x l
  | [] => rfl
  | y :: r => by simp only [insertByKey, Obs.insertByPos]; split; rfl; rw [insertByKey_eq x r]

theorem mapM_ok {α β} (f : α → M β) (g : α → β) (hf : ∀ x, f x = .ok (g x)) : ∀ l : List α,
    mapM' f l = .ok (l.map g)
  | [] => rfl
  | k :: r => by simp [mapM', hf, mapM_ok f g hf r]

theorem pySorted_eq (ids keys : List String) :
    pySortedByM keys (_agent_position ids) = .ok (Obs.sortByPos ids keys) := by
  unfold pySortedByM Obs.sortByPos
  rw [mapM_ok _ (fun k => (k, Obs.agentPosition ids k)) (fun x => by simp [gen_agent_position_eq])]
  have : (fun (acc : List (String × Nat)) x => insertByKey x acc) = (fun acc x => Obs.insertByPos x acc) := by
    funext acc x; exact insertByKey_eq x acc
  simp [this]

/-! ### `MultiAgentRLAlgorithm.preprocess_observation` -/

theorem ma_loop_eq {O S P} (spaces : PyDict S) (prep : O → Option S → M P) (obs : PyDict O)
    (f : String → PyDict P → M (PyDict P))
    (hf : ∀ a acc, f a acc = match Obs.alookup a obs.items with
      | none => .error .key
      | some o => match prep o (Obs.alookup a spaces.items) with
        | .error e => .error e
        | .ok v => .ok ⟨Obs.aset a v acc.items⟩) :
    ∀ (l : List String) (acc : PyDict P),
    pyForM l acc f = (Obs.maPrepLoop Exn.key spaces.items prep obs.items l acc.items).map PyDict.mk
  | [], acc => rfl
  | a :: r, acc => by
    simp only [pyForM, Obs.maPrepLoop, hf]
    cases h1 : Obs.alookup a obs.items with
    | none => rfl
    | some o =>
      cases h2 : prep o (Obs.alookup a spaces.items) with
      | error e => simp only [h2]; rfl
      | ok v => simp only [h2]; exact ma_loop_eq spaces prep obs f hf r _

/-- **generated = model** for `MultiAgentRLAlgorithm.preprocess_observation` -/
theorem gen_ma_preprocess_eq {O S P} (ids : List String) (spaces : PyDict S) (prep : O → Option S → M P)
    (obs : PyDict O) :
    ma_preprocess_observation ids spaces prep obs
      = (Obs.maPreprocess Exn.key ids spaces.items prep obs.items).map PyDict.mk := by
  unfold ma_preprocess_observation Obs.maPreprocess
  simp only [pySorted_eq, bind, Except.bind, pyKeys, pure, Except.pure]
  rw [ma_loop_eq spaces prep obs]
  · cases Obs.maPrepLoop Exn.key spaces.items prep obs.items (Obs.sortByPos ids (Obs.akeys obs.items)) (pyEmpty : PyDict P).items <;> rfl
  · intro a acc
    simp only [pyGet_eq, pyGetOpt_eq, pySet_eq]
    cases Obs.alookup a obs.items with
    | none => rfl
    | some o => simp only [liftO]; cases prep o (Obs.alookup a spaces.items) <;> rfl

/-! ### `sum_shared_rewards` -/

theorem sum_loop_eq {R} [Add R] (f : String × R → PyDict R → M (PyDict R))
    (hf : ∀ a r acc, f (a, r) acc = match Obs.alookup (Obs.homoId a) acc.items with
      | none => .error .key
      | some s => .ok ⟨Obs.aset (Obs.homoId a) (s + r) acc.items⟩) :
    ∀ (l : List (String × R)) (acc : PyDict R),
    pyForM l acc f = (Obs.sumSharedLoop Exn.key l acc.items).map PyDict.mk
  | [], acc => rfl
  | (a, r) :: rest, acc => by
    simp only [pyForM, Obs.sumSharedLoop, hf]
    cases h1 : Obs.alookup (Obs.homoId a) acc.items with
    | none => rfl
    | some o => exact sum_loop_eq f hf rest _

/-- **generated = model** for `sum_shared_rewards` -/
theorem gen_sum_shared_rewards_eq {R} [Add R] [OfNat R 0] (shared : List String) (rewards : PyDict R) :
    sum_shared_rewards shared rewards = (Obs.sumShared Exn.key shared rewards.items).map PyDict.mk := by
  unfold sum_shared_rewards Obs.sumShared
  simp only [bind, Except.bind, pyItems, pure, Except.pure, pyDictOfPairs_const]
  rw [sum_loop_eq]
  case hf =>
    intro a r acc
    simp only [gen_get_homo_id_eq, pyGet_eq, pySet_eq]
    cases Obs.alookup (Obs.homoId a) acc.items <;> rfl

/-! ### `IPPO.preprocess_observation` -/

theorem ippo_loop1_eq {O S P} (spaces : PyDict S) (prep : O → Option S → M P) (obs : PyDict O)
    (f : String → PyDict (List P) → M (PyDict (List P)))
    (hf : ∀ a acc, f a acc = match Obs.alookup a obs.items with
      | none => .error .key
      | some o => match Obs.alookup (Obs.homoId a) acc.items with
        | none => .error .key
        | some l => match prep o (Obs.alookup a spaces.items) with
          | .error e => .error e
          | .ok v => .ok ⟨Obs.aset (Obs.homoId a) (l ++ [v]) acc.items⟩) :
    ∀ (l : List String) (acc : PyDict (List P)),
    pyForM l acc f = (Obs.ippoPrepLoop Exn.key spaces.items prep obs.items l acc.items).map PyDict.mk
  | [], acc => rfl
  | a :: r, acc => by
    simp only [pyForM, Obs.ippoPrepLoop, hf]
    cases h1 : Obs.alookup a obs.items with
    | none => rfl
    | some o =>
      cases h3 : Obs.alookup (Obs.homoId a) acc.items with
      | none => rfl
      | some l =>
        cases h2 : prep o (Obs.alookup a spaces.items) with
        | error e => simp only [h2]; rfl
        | ok v => simp only [h2]; exact ippo_loop1_eq spaces prep obs f hf r _

theorem ippo_loop2_eq {P} (concat : List P → M (List P))
    (f : String → PyDict (List P) → M (PyDict (List P)))
    (hf : ∀ g acc, f g acc = match Obs.alookup g acc.items with
      | none => .error .key
      | some l => match concat l with
        | .error e => .error e
        | .ok c => .ok ⟨Obs.aset g c acc.items⟩) :
    ∀ (l : List String) (acc : PyDict (List P)),
    pyForM l acc f = (Obs.ippoConcatLoop Exn.key concat l acc.items).map PyDict.mk
  | [], acc => rfl
  | g :: r, acc => by
    simp only [pyForM, Obs.ippoConcatLoop, hf]
    cases h1 : Obs.alookup g acc.items with
    | none => rfl
    | some l =>
      cases h2 : concat l with
      | error e => simp only [h2]; rfl
      | ok v => simp only [h2]; exact ippo_loop2_eq concat f hf r _

/-- **generated = model** for `IPPO.preprocess_observation` -/
theorem gen_ippo_preprocess_eq {O S P} (ids shared : List String) (spaces : PyDict S) (prep : O → Option S → M P)
    (concat : List P → M (List P)) (obs : PyDict O) :
    ippo_preprocess_observation ids shared spaces prep concat obs
      = (Obs.ippoPreprocess Exn.key ids shared spaces.items prep concat obs.items).map PyDict.mk := by
  unfold ippo_preprocess_observation Obs.ippoPreprocess
  simp only [pySorted_eq, bind, Except.bind, pyKeys, pure, Except.pure, pyDictOfPairs_const]
  rw [ippo_loop1_eq spaces prep obs]
  · simp only [Obs.akeys]
    generalize Obs.ippoPrepLoop Exn.key spaces.items prep obs.items _ _ = res
    cases res with
    | error e => rfl
    | ok acc =>
      simp only [Except.map]
      rw [ippo_loop2_eq concat]
      · generalize Obs.ippoConcatLoop Exn.key concat shared _ = res
        cases res <;> rfl
      · intro g acc
        simp only [pyGet_eq, pySet_eq]
        cases Obs.alookup g acc.items with
        | none => rfl
        | some l => simp only [liftO]; cases concat l <;> rfl
  · intro a acc
    simp only [gen_get_homo_id_eq, pyGet_eq, pyGetOpt_eq, pySet_eq]
    cases Obs.alookup a obs.items with
    | none => rfl
    | some o =>
      simp only [liftO]
      cases Obs.alookup (Obs.homoId a) acc.items with
      | none => rfl
      | some l => simp only []; cases prep o (Obs.alookup a spaces.items) <;> rfl

/-! ### `IPPO.assemble_shared_inputs` -/

/-- `stack_experiences(x, to_torch=False)[0]` as one partial function -/
def stack0 {E V} (stack : E → Bool → M (List V)) (x : E) : M V :=
  match stack x false with
  | .error e => .error e
  | .ok l => pyIndex l 0

def proj {V} (l : List (String × PyDict V)) : List (String × List (String × V)) := l.map (fun p => (p.1, p.2.items))

theorem alookup_proj {V} (k : String) : ∀ l : List (String × PyDict V),
    Obs.alookup k (proj l) = (Obs.alookup k l).map (·.items)
  | [] => rfl
  | (k', v) :: r => by
    simp only [proj, List.map_cons, Obs.alookup]
    split
    · rfl
    · exact alookup_proj k r

theorem aset_proj {V} (k : String) (v : PyDict V) : ∀ l : List (String × PyDict V),
    proj (Obs.aset k v l) = Obs.aset k v.items (proj l)
  | [] => rfl
  | (k', v') :: r => by
    simp only [proj, List.map_cons, Obs.aset]
    split
    · rfl
    · simp only [List.map_cons]; congr 1; exact aset_proj k v r

theorem shared_loop_eq {E V} (stack : E → M V) (input : PyDict E)
    (f : String → PyDict (PyDict V) → M (PyDict (PyDict V)))
    (hf : ∀ a acc, f a acc = match Obs.alookup a input.items with
      | none => .ok acc
      | some x => match stack x with
        | .error e => .error e
        | .ok v => match Obs.alookup (Obs.homoId a) acc.items with
          | none => .error .key
          | some g => .ok ⟨Obs.aset (Obs.homoId a) (⟨Obs.aset a v g.items⟩ : PyDict V) acc.items⟩) :
    ∀ (l : List String) (acc : PyDict (PyDict V)),
    (pyForM l acc f).map (fun d => proj d.items)
      = Obs.assembleSharedLoop Exn.key stack input.items l (proj acc.items)
  | [], acc => rfl
  | a :: r, acc => by
    simp only [pyForM, Obs.assembleSharedLoop, hf, alookup_proj]
    cases h1 : Obs.alookup a input.items with
    | none => exact shared_loop_eq stack input f hf r acc
    | some x =>
      cases h2 : stack x with
      | error e => simp only [h2]; rfl
      | ok v =>
        simp only [h2]
        cases h3 : Obs.alookup (Obs.homoId a) acc.items with
        | none => rfl
        | some g =>
          simp only [Option.map]
          have := shared_loop_eq stack input f hf r ⟨Obs.aset (Obs.homoId a) (⟨Obs.aset a v g.items⟩ : PyDict V) acc.items⟩
          rw [this, aset_proj]

theorem proj_aofKeys {V} (ks : List String) : proj (Obs.aofKeys ks (pyEmpty : PyDict V)) = Obs.aofKeys ks [] := by
  unfold Obs.aofKeys
  suffices h : ∀ d : List (String × PyDict V), proj (ks.foldl (fun d k => Obs.aset k pyEmpty d) d)
      = ks.foldl (fun d k => Obs.aset k [] d) (proj d) from h []
  induction ks with
  | nil => intro d; rfl
  | cons k r ih => intro d; simp only [List.foldl_cons]; rw [ih, aset_proj]; rfl

/-- **generated = model** for `IPPO.assemble_shared_inputs` (groups as nested association lists) -/
theorem gen_assemble_shared_inputs_eq {E V} (ids shared : List String) (stack : E → Bool → M (List V))
    (input : PyDict E) :
    (assemble_shared_inputs ids shared stack input).map (fun d => proj d.items)
      = Obs.assembleShared Exn.key ids shared (stack0 stack) input.items := by
  unfold assemble_shared_inputs Obs.assembleShared
  simp only [bind, Except.bind, pure, Except.pure, pyDictOfPairs_const]
  rw [← proj_aofKeys, ← shared_loop_eq (stack0 stack) input _ _ ids ⟨Obs.aofKeys shared pyEmpty⟩]
  · intro a acc
    simp only [gen_get_homo_id_eq, pyGet_eq, pyInDict_eq, pySet_eq, stack0]
    cases Obs.alookup a input.items with
    | none => rfl
    | some x =>
      simp only [liftO, Option.isSome, Bool.not_true]
      cases stack x false with
      | error e => rfl
      | ok l =>
        simp only []
        cases pyIndex l 0 with
        | error e => rfl
        | ok v => cases Obs.alookup (Obs.homoId a) acc.items <;> rfl

/-! ### what the model loops compute -/

theorem alookup_aset_same {V} (k : String) (v : V) : ∀ l : List (String × V), Obs.alookup k (Obs.aset k v l) = some v
  | [] => by simp [Obs.aset, Obs.alookup]
  | (k', v') :: r => by
    by_cases h : k' = k
    · simp [Obs.aset, Obs.alookup, h]
    · simp [Obs.aset, Obs.alookup, h, alookup_aset_same k v r]

theorem alookup_aset_ne {V} (k k2 : String) (v : V) (hne : k ≠ k2) : ∀ l : List (String × V),
    Obs.alookup k2 (Obs.aset k v l) = Obs.alookup k2 l
  | [] => by simp [Obs.aset, Obs.alookup, hne]
  | (k', v') :: r => by
    by_cases h : k' = k
    · subst h; simp [Obs.aset, Obs.alookup, hne]
    · by_cases h2 : k' = k2
      · subst h2; simp [Obs.aset, Obs.alookup, h]
      · simp [Obs.aset, Obs.alookup, h, h2, alookup_aset_ne k k2 v hne r]

/-- the loop pairs agent `a`'s observation with agent `a`'s OWN space, whatever the list of keys -/
theorem maPrepLoop_lookup {ε O S P} (kerr : ε) (spaces : List (String × S)) (prep : O → Option S → Except ε P)
    (obs : List (String × O)) : ∀ (l : List String) (acc res : List (String × P)),
    Obs.maPrepLoop kerr spaces prep obs l acc = .ok res → ∀ a,
      (a ∈ l → ∃ o v, Obs.alookup a obs = some o ∧ prep o (Obs.alookup a spaces) = .ok v ∧ Obs.alookup a res = some v)
      ∧ (a ∉ l → Obs.alookup a res = Obs.alookup a acc)
  | [], acc, res, h, a => by
    simp only [Obs.maPrepLoop, Except.ok.injEq] at h
    subst h; simp
  | b :: r, acc, res, h, a => by
    simp only [Obs.maPrepLoop] at h
    cases h1 : Obs.alookup b obs with
    | none => simp [h1] at h
    | some o =>
      cases h2 : prep o (Obs.alookup b spaces) with
      | error e => simp [h1, h2] at h
      | ok v =>
        simp only [h1, h2] at h
        have ih := maPrepLoop_lookup kerr spaces prep obs r _ res h a
        by_cases har : a ∈ r
        · exact ⟨fun _ => ih.1 har, fun hn => absurd (List.mem_cons_of_mem _ har) hn⟩
        · by_cases hab : a = b
          · subst hab
            refine ⟨fun _ => ⟨o, v, h1, h2, ?_⟩, fun hn => absurd List.mem_cons_self hn⟩
            rw [ih.2 har, alookup_aset_same]
          · refine ⟨fun hm => ?_, fun _ => ?_⟩
            · rcases List.mem_cons.mp hm with e | e
              · exact absurd e hab
              · exact absurd e har
            · rw [ih.2 har, alookup_aset_ne b a v (Ne.symm hab)]

theorem mem_insertByPos (p x : String × Nat) : ∀ l, p ∈ Obs.insertByPos x l ↔ p = x ∨ p ∈ l
  | [] => by simp [Obs.insertByPos]
  | y :: r => by
    simp only [Obs.insertByPos]
    split
    · simp
    · simp [mem_insertByPos p x r]; tauto

theorem mem_foldl_insert (p : String × Nat) : ∀ (l acc : List (String × Nat)),
    p ∈ l.foldl (fun acc x => Obs.insertByPos x acc) acc ↔ p ∈ l ∨ p ∈ acc
  | [], acc => by simp
  | x :: r, acc => by
    simp only [List.foldl_cons, mem_foldl_insert p r, mem_insertByPos, List.mem_cons]; tauto

/-- sorting by position keeps exactly the keys -/
theorem mem_sortByPos (ids keys : List String) (a : String) : a ∈ Obs.sortByPos ids keys ↔ a ∈ keys := by
  unfold Obs.sortByPos
  simp only [List.mem_map, mem_foldl_insert, List.not_mem_nil, or_false]
  constructor
  · rintro ⟨p, ⟨k, hk, rfl⟩, rfl⟩; exact hk
  · intro h; exact ⟨(a, Obs.agentPosition ids a), ⟨a, h, rfl⟩, rfl⟩

/-- **(i)** `MultiAgentRLAlgorithm.preprocess_observation`: for EVERY agent list, every key order of the observation
dict and every agent `a` of it, the entry of `a` is `a`'s observation prepared with `a`'s own space
`observation_space.get(a)`; agents absent from the dict have no entry. -/
theorem maPreprocess_own_space {ε O S P} (kerr : ε) (ids : List String) (spaces : List (String × S))
    (prep : O → Option S → Except ε P) (obs : List (String × O)) (res : List (String × P))
    (h : Obs.maPreprocess kerr ids spaces prep obs = .ok res) (a : String) :
    (a ∈ Obs.akeys obs → ∃ o v, Obs.alookup a obs = some o ∧ prep o (Obs.alookup a spaces) = .ok v ∧
        Obs.alookup a res = some v)
    ∧ (a ∉ Obs.akeys obs → Obs.alookup a res = none) := by
  have := maPrepLoop_lookup kerr spaces prep obs _ [] res h a
  rw [mem_sortByPos] at this
  exact ⟨this.1, fun hn => by rw [this.2 hn]; rfl⟩

/-- decided witness: pairing every agent with the space of ONE agent (the seeded change: agent 0's space for
everybody) gives another result as soon as two agents have different spaces -/
theorem maPreprocess_fixed_space_witness :
    Obs.maPreprocess (ε := Unit) () ["a_0", "b_0"] [("a_0", 2), ("b_0", 5)] (fun (o : Nat) s => .ok (o, s))
        [("b_0", 7), ("a_0", 1)] = .ok [("a_0", (1, some 2)), ("b_0", (7, some 5))]
    ∧ Obs.maPreprocessFixedSpace (ε := Unit) () ["a_0", "b_0"] [("a_0", 2), ("b_0", 5)] "a_0" (fun (o : Nat) s => .ok (o, s))
        [("b_0", 7), ("a_0", 1)] = .ok [("a_0", (1, some 2)), ("b_0", (7, some 2))] := by
  constructor <;> decide

/-- the sum of the rewards of group `g`'s agents, in the order of the rewards dict, on top of `s` -/
def groupSum {R} [Add R] (g : String) (rewards : List (String × R)) (s : R) : R :=
  (rewards.filter (fun p => Obs.homoId p.1 == g)).foldl (fun s p => s + p.2) s

/-- **(iii)** the loop of `sum_shared_rewards`: every group's entry grows by exactly the rewards of the agents of THAT
group (agents of other groups never touch it) -/
theorem sumSharedLoop_lookup {ε R} [Add R] (kerr : ε) : ∀ (l acc res : List (String × R)),
    Obs.sumSharedLoop kerr l acc = .ok res → ∀ g, Obs.alookup g res = (Obs.alookup g acc).map (groupSum g l)
  | [], acc, res, h, g => by
    simp only [Obs.sumSharedLoop, Except.ok.injEq] at h
    subst h; cases Obs.alookup g acc <;> rfl
  | (a, r) :: rest, acc, res, h, g => by
    simp only [Obs.sumSharedLoop] at h
    cases h1 : Obs.alookup (Obs.homoId a) acc with
    | none => simp [h1] at h
    | some s =>
      simp only [h1] at h
      rw [sumSharedLoop_lookup kerr rest _ res h g]
      by_cases hg : Obs.homoId a = g
      · subst hg
        rw [alookup_aset_same, h1]
        simp [groupSum, List.filter_cons]
      · rw [alookup_aset_ne _ _ _ hg]
        have : (Obs.homoId a == g) = false := by simpa using hg
        have e : groupSum g ((a, r) :: rest) = groupSum g rest := by
          funext s; simp [groupSum, List.filter_cons, this]
        rw [e]

theorem alookup_aofKeys {V} (c : V) (g : String) : ∀ (ks : List String) (d : List (String × V)),
    Obs.alookup g (ks.foldl (fun d k => Obs.aset k c d) d) = if g ∈ ks then some c else Obs.alookup g d
  | [], d => by simp
  | k :: r, d => by
    simp only [List.foldl_cons, alookup_aofKeys c g r, List.mem_cons]
    by_cases h1 : g ∈ r
    · simp [h1]
    · by_cases h2 : k = g
      · subst h2; simp [h1, alookup_aset_same]
      · have : ¬ g = k := fun e => h2 e.symm
        simp [h1, this, alookup_aset_ne _ _ _ h2]

/-- **(iii)** `sum_shared_rewards`: the entry of every group `g` is `0` plus exactly the rewards of the agents whose
group is `g`, in the order of the rewards dict (env by env when `R` is a vector of per-env rewards with pointwise `+`);
names that are not groups have no entry -/
theorem sumShared_sums_own_group {ε R} [Add R] [OfNat R 0] (kerr : ε) (shared : List String)
    (rewards res : List (String × R)) (h : Obs.sumShared kerr shared rewards = .ok res) (g : String) :
    Obs.alookup g res = if g ∈ shared then some (groupSum g rewards 0) else none := by
  rw [sumSharedLoop_lookup kerr rewards _ res h g]
  unfold Obs.aofKeys
  rw [alookup_aofKeys]
  by_cases hg : g ∈ shared <;> simp [hg, Obs.alookup]

theorem akeys_aset_new {V} (a : String) (v : V) : ∀ l : List (String × V), a ∉ Obs.akeys l →
    Obs.akeys (Obs.aset a v l) = Obs.akeys l ++ [a]
  | [], _ => rfl
  | (k, w) :: r, h => by
    have hk : ¬ k = a := fun e => h (by simp [Obs.akeys, e])
    have hr : a ∉ Obs.akeys r := fun e => h (by simp only [Obs.akeys, List.map_cons, List.mem_cons]; exact Or.inr e)
    have := akeys_aset_new a v r hr
    simp only [Obs.akeys] at this ⊢
    simp [Obs.aset, hk, this]

/-- the agents of group `g` that the input holds, in the order of the list `l` the loop runs over -/
def groupMembers {E} (input : List (String × E)) (g : String) (l : List String) : List String :=
  l.filter (fun a => (Obs.alookup a input).isSome && Obs.homoId a == g)

theorem assembleSharedLoop_keys {ε E V} (kerr : ε) (stack : E → Except ε V) (input : List (String × E)) :
    ∀ (l : List String) (acc res : List (String × List (String × V))),
    Obs.assembleSharedLoop kerr stack input l acc = .ok res → l.Nodup →
    (∀ a ∈ l, ∀ g grp, Obs.alookup g acc = some grp → a ∉ Obs.akeys grp) →
    ∀ g, (Obs.alookup g res).map Obs.akeys
      = (Obs.alookup g acc).map (fun grp => Obs.akeys grp ++ groupMembers input g l)
  | [], acc, res, h, _, _, g => by
    simp only [Obs.assembleSharedLoop, Except.ok.injEq] at h
    subst h; cases Obs.alookup g acc <;> simp [groupMembers]
  | a :: r, acc, res, h, hnd, hdis, g => by
    have hnd' := (List.nodup_cons.mp hnd)
    simp only [Obs.assembleSharedLoop] at h
    cases h1 : Obs.alookup a input with
    | none =>
      simp only [h1] at h
      rw [assembleSharedLoop_keys kerr stack input r acc res h hnd'.2
        (fun b hb => hdis b (List.mem_cons_of_mem _ hb)) g]
      simp [groupMembers, List.filter_cons, h1]
    | some x =>
      cases h2 : stack x with
      | error e => simp [h1, h2] at h
      | ok v =>
        cases h3 : Obs.alookup (Obs.homoId a) acc with
        | none => simp [h1, h2, h3] at h
        | some grp =>
          simp only [h1, h2, h3] at h
          have hag : a ∉ Obs.akeys grp := hdis a List.mem_cons_self _ _ h3
          have hdis' : ∀ b ∈ r, ∀ g' grp', Obs.alookup g' (Obs.aset (Obs.homoId a) (Obs.aset a v grp) acc) = some grp' →
              b ∉ Obs.akeys grp' := by
            intro b hb g' grp' hl
            by_cases hg : Obs.homoId a = g'
            · subst hg
              rw [alookup_aset_same] at hl
              cases hl
              rw [akeys_aset_new a v grp hag]
              intro hm
              rcases List.mem_append.mp hm with e | e
              · exact hdis b (List.mem_cons_of_mem _ hb) _ _ h3 e
              · have : b = a := by simpa using e
                exact hnd'.1 (this ▸ hb)
            · rw [alookup_aset_ne _ _ _ hg] at hl
              exact hdis b (List.mem_cons_of_mem _ hb) _ _ hl
          rw [assembleSharedLoop_keys kerr stack input r _ res h hnd'.2 hdis' g]
          by_cases hg : Obs.homoId a = g
          · subst hg
            rw [alookup_aset_same, h3]
            simp [groupMembers, List.filter_cons, h1, akeys_aset_new a v grp hag]
          · rw [alookup_aset_ne _ _ _ hg]
            have : (Obs.homoId a == g) = false := by simpa using hg
            simp [groupMembers, List.filter_cons, this]

/-- **(iv)** `IPPO.assemble_shared_inputs` (the repaired loop over `self.agent_ids`): every group lists exactly its
agents present in the input, in the order of `agent_ids` — the order of the input dictionary does not occur in the
right-hand side at all -/
theorem assembleShared_agent_ids_order {ε E V} (kerr : ε) (ids shared : List String) (stack : E → Except ε V)
    (input : List (String × E)) (res : List (String × List (String × V))) (hnd : ids.Nodup)
    (h : Obs.assembleShared kerr ids shared stack input = .ok res) (g : String) :
    (Obs.alookup g res).map Obs.akeys = if g ∈ shared then some (groupMembers input g ids) else none := by
  have hl : ∀ g, Obs.alookup g (Obs.aofKeys shared ([] : List (String × V))) = if g ∈ shared then some [] else none := by
    intro g; unfold Obs.aofKeys; rw [alookup_aofKeys]; simp [Obs.alookup]
  rw [assembleSharedLoop_keys kerr stack input ids _ res h hnd ?_ g, hl]
  · by_cases hg : g ∈ shared <;> simp [hg, Obs.akeys]
  · intro a _ g grp hgrp
    rw [hl] at hgrp
    by_cases hg : g ∈ shared
    · simp only [hg, if_true, Option.some.injEq] at hgrp; subst hgrp; simp [Obs.akeys]
    · simp [hg] at hgrp

/-- two input dictionaries that hold the same agents (in ANY two orders) are grouped with identical key lists -/
theorem assembleShared_input_order_invariant {ε E V} (kerr : ε) (ids shared : List String) (stack : E → Except ε V)
    (i1 i2 : List (String × E)) (r1 r2 : List (String × List (String × V))) (hnd : ids.Nodup)
    (hsame : ∀ a, (Obs.alookup a i1).isSome = (Obs.alookup a i2).isSome)
    (h1 : Obs.assembleShared kerr ids shared stack i1 = .ok r1)
    (h2 : Obs.assembleShared kerr ids shared stack i2 = .ok r2) (g : String) :
    (Obs.alookup g r1).map Obs.akeys = (Obs.alookup g r2).map Obs.akeys := by
  rw [assembleShared_agent_ids_order kerr ids shared stack i1 r1 hnd h1 g,
    assembleShared_agent_ids_order kerr ids shared stack i2 r2 hnd h2 g]
  simp [groupMembers, hsame]

end ObsMaGenEq
