import Proofs.ObsLemmas

/-! C15: shared policies (assemble / disassemble) and centralised critics (stacking). Core Lean only. -/
namespace Obs

theorem length_flatten_const {α} (k : Nat) : ∀ (ls : List (List α)), (∀ x ∈ ls, x.length = k) →
    ls.flatten.length = ls.length * k
  | [], _ => by simp
  | x :: r, h => by
    have := length_flatten_const k r (fun y hy => h y (by simp [hy]))
    simp only [List.flatten_cons, List.length_append, List.length_cons, this, h x (by simp),
      Nat.succ_mul]
    omega

theorem flatten_getElem?_const {α} (E : Nat) : ∀ (ls : List (List α)), (∀ x ∈ ls, x.length = E) →
    ∀ (i e : Nat), e < E → ls.flatten[i * E + e]? = (ls[i]?).bind (·[e]?)
  | [], _, i, e, _ => by simp
  | x :: r, h, 0, e, he => by
    have hx : x.length = E := h x (by simp)
    simp only [List.flatten_cons, Nat.zero_mul, Nat.zero_add, List.getElem?_cons_zero, Option.bind_some]
    rw [List.getElem?_append_left (by omega)]
  | x :: r, h, i + 1, e, he => by
    have hx : x.length = E := h x (by simp)
    have ih := flatten_getElem?_const E r (fun y hy => h y (by simp [hy])) i e he
    simp only [List.flatten_cons, List.getElem?_cons_succ]
    rw [List.getElem?_append_right (by rw [hx, Nat.succ_mul]; omega)]
    have : (i + 1) * E + e - x.length = i * E + e := by rw [hx, Nat.succ_mul]; omega
    rw [this, ih]

/-! ### assemble / disassemble -/

theorem disassemble_assemble {α} (xs : List (List α)) (L : Nat) (hL : 0 < L) (hne : xs ≠ [])
    (h : ∀ x ∈ xs, x.length = L) :
    disassembleHomogeneous xs.length (assembleHomogeneous xs) = xs := by
  unfold disassembleHomogeneous assembleHomogeneous
  have hA : 0 < xs.length := List.length_pos_iff.mpr hne
  rw [length_flatten_const L xs h, Nat.mul_comm, Nat.mul_div_cancel _ hA]
  exact chunk_flatten L hL xs h

theorem assemble_disassemble {α} (A L : Nat) (hA : 0 < A) (hL : 0 < L) (d : List α)
    (hd : d.length = A * L) :
    assembleHomogeneous (disassembleHomogeneous A d) = d ∧
    (disassembleHomogeneous A d).length = A ∧ ∀ x ∈ disassembleHomogeneous A d, x.length = L := by
  unfold disassembleHomogeneous assembleHomogeneous
  have : d.length / A = L := by rw [hd, Nat.mul_comm, Nat.mul_div_cancel _ hA]
  rw [this]
  exact ⟨flatten_chunk L hL d, chunk_lengths L hL A d hd⟩

/-- the rows of the assembled batch: all rows of agent 0, then all rows of agent 1, … -/
theorem assemble_rows {α} (f E : Nat) (hf : 0 < f) (xs : List (List α))
    (h : ∀ x ∈ xs, x.length = E * f) :
    chunk f (assembleHomogeneous xs) = (xs.map (chunk f)).flatten := by
  unfold assembleHomogeneous
  have h1 : (xs.map (chunk f)).map List.flatten = xs := by
    rw [List.map_map]
    have : ∀ x ∈ xs, (List.flatten ∘ chunk f) x = id x := by
      intro x _; simp [flatten_chunk f hf x]
    rw [List.map_congr_left this, List.map_id]
  have h2 : xs.flatten = ((xs.map (chunk f)).flatten).flatten := by
    rw [List.flatten_flatten, h1]
  rw [h2]
  apply chunk_flatten f hf
  intro r hr
  rw [List.mem_flatten] at hr
  obtain ⟨l, hl, hrl⟩ := hr
  rw [List.mem_map] at hl
  obtain ⟨x, hx, rfl⟩ := hl
  exact (chunk_lengths f hf E x (h x hx)).2 r hrl

/-- applying a row-wise function to the assembled batch = applying it per agent -/
theorem mapRows_assemble {α β} (f E : Nat) (hf : 0 < f) (g : List α → List β)
    (xs : List (List α)) (h : ∀ x ∈ xs, x.length = E * f) :
    mapRows f g (assembleHomogeneous xs) = assembleHomogeneous (xs.map (mapRows f g)) := by
  unfold mapRows
  rw [assemble_rows f E hf xs h]
  unfold assembleHomogeneous
  rw [List.map_flatten, List.flatten_flatten, List.map_map, List.map_map]
  rfl

theorem mapRows_length {α β} (f E m : Nat) (hf : 0 < f) (g : List α → List β)
    (hg : ∀ r, r.length = f → (g r).length = m) (x : List α) (hx : x.length = E * f) :
    (mapRows f g x).length = E * m := by
  unfold mapRows
  obtain ⟨h1, h2⟩ := chunk_lengths f hf E x hx
  rw [length_flatten_const m]
  · simp [h1]
  · intro y hy
    rw [List.mem_map] at hy
    obtain ⟨r, hr, rfl⟩ := hy
    exact hg r (h2 r hr)

/-! ### centralised critic -/

theorem chunk_getD_length {α} (d B : Nat) (hd : 0 < d) (l : List α) (hl : l.length = B * d)
    (b : Nat) (hb : b < B) : ((chunk d l).getD b []).length = d := by
  obtain ⟨h1, h2⟩ := chunk_lengths d hd B l hl
  have hb' : b < (chunk d l).length := by omega
  rw [List.getD_eq_getElem?_getD, List.getElem?_eq_getElem hb']
  exact h2 _ (List.getElem_mem hb')

theorem catRow_length (B b : Nat) (hb : b < B) : ∀ (ts : List (Tensor × Nat)),
    (∀ td ∈ ts, 0 < td.2 ∧ td.1.data.length = B * td.2) →
    ((ts.map (fun td => (td.1.rows td.2).getD b [])).flatten).length = (ts.map (·.2)).sum
  | [], _ => by simp
  | td :: r, h => by
    have ih := catRow_length B b hb r (fun y hy => h y (by simp [hy]))
    obtain ⟨hd, hl⟩ := h td (by simp)
    simp only [Tensor.rows] at ih ⊢
    simp only [List.map_cons, List.flatten_cons, List.length_append, List.sum_cons, ih,
      chunk_getD_length td.2 B hd td.1.data hl b hb]

theorem widths_pos : ∀ (ts : List (Tensor × Nat)), ts ≠ [] → (∀ td ∈ ts, 0 < td.2) →
    0 < (ts.map (·.2)).sum
  | [], h, _ => absurd rfl h
  | td :: r, _, h => by
    have := h td (by simp)
    simp only [List.map_cons, List.sum_cons]; omega

/-- row `b` of the stacked critic input = row `b` of agent 0 ++ row `b` of agent 1 ++ … -/
theorem stackCritic_row (B : Nat) (ts : List (Tensor × Nat)) (hts : ts ≠ [])
    (h : ∀ td ∈ ts, 0 < td.2 ∧ td.1.data.length = B * td.2) (b : Nat) (hb : b < B) :
    ((stackCritic B ts).rows ((ts.map (·.2)).sum))[b]? =
      some ((ts.map (fun td => (td.1.rows td.2).getD b [])).flatten) := by
  have hD := widths_pos ts hts (fun td htd => (h td htd).1)
  unfold stackCritic Tensor.rows
  simp only []
  rw [chunk_flatten _ hD]
  · simp [catRows, hb, List.map_map, Function.comp_def]
  · intro r hr
    simp only [catRows, List.mem_map, List.mem_range] at hr
    obtain ⟨b', hb', rfl⟩ := hr
    have := catRow_length B b' hb' ts h
    simpa [List.map_map, Function.comp_def, Tensor.rows] using this

theorem stackImgRow_length (C hw : Nat) (hhw : 0 < hw) (agentRows : List (List Rat))
    (h : ∀ r ∈ agentRows, r.length = C * hw) :
    (stackImgRow C hw agentRows).length = C * (agentRows.length * hw) := by
  unfold stackImgRow
  rw [length_flatten_const (agentRows.length * hw)]
  · simp
  · intro y hy
    simp only [List.mem_map, List.mem_range] at hy
    obtain ⟨c, hc, rfl⟩ := hy
    rw [length_flatten_const hw]
    · simp
    · intro z hz
      simp only [List.mem_map] at hz
      obtain ⟨r, hr, rfl⟩ := hz
      exact chunk_getD_length hw C hhw r (h r hr) c hc

/-- row `b` of the stacked image input (`[C, A, H, W]`) is built from row `b` of every agent -/
theorem stackCriticImg_row (B C H W : Nat) (ts : List Tensor) (hts : ts ≠ []) (hC : 0 < C)
    (hhw : 0 < H * W) (h : ∀ t ∈ ts, t.data.length = B * (C * (H * W))) (b : Nat) (hb : b < B) :
    ((stackCriticImg B C H W ts).rows (C * (ts.length * (H * W))))[b]? =
      some (stackImgRow C (H * W) (ts.map (fun t => (t.rows (C * (H * W))).getD b []))) := by
  have hA : 0 < ts.length := List.length_pos_iff.mpr hts
  have hD : 0 < C * (ts.length * (H * W)) := Nat.mul_pos hC (Nat.mul_pos hA hhw)
  unfold stackCriticImg Tensor.rows
  simp only []
  rw [chunk_flatten _ hD]
  · simp [hb]
  · intro r hr
    simp only [List.mem_map, List.mem_range] at hr
    obtain ⟨b', hb', rfl⟩ := hr
    have := stackImgRow_length C (H * W) hhw (ts.map (fun t => (chunk (C * (H * W)) t.data).getD b' []))
      (by
        intro r hr
        simp only [List.mem_map] at hr
        obtain ⟨t, ht, rfl⟩ := hr
        exact chunk_getD_length _ B (Nat.mul_pos hC hhw) t.data (h t ht) b' hb')
    simpa using this

end Obs
