import Proofs.ObsLemmas

/-! C15: what `preprocess` does to a batch — one master lemma per space kind. Core Lean only. -/
namespace Obs

/-- `maybe_add_batch_dim` on an input whose shape is `batch ++ space_shape` with at most two
    leading dimensions: unbatched, batched (incl. batch-of-one) and (step, env). -/
theorem mabd_batch (batch p : List Nat) (d : List Rat) (hb : batch.length ≤ 2) (hp : 0 < numel p) :
    maybeAddBatchDim ⟨batch ++ p, d⟩ p = .ok ⟨numel batch :: p, d⟩ := by
  match batch, hb with
  | [], _ => simp [maybeAddBatchDim, numel]
  | [B], _ =>
    have h1 : ¬ (([B] ++ p).length = p.length) := by simp
    have h2 : ¬ (([B] ++ p).length = p.length + 2) := by simp
    have h3 : ([B] ++ p).length = p.length + 1 := by simp
    unfold maybeAddBatchDim
    rw [if_neg h1, if_neg h2, if_pos h3]
    simp [numel]
  | [T, E], _ =>
    have h1 : ¬ (([T, E] ++ p).length = p.length) := by simp; omega
    have h2 : ([T, E] ++ p).length = p.length + 2 := by simp
    have e : numel ([T, E] ++ p) = (T * E) * numel p := by simp [numel, Nat.mul_assoc]
    have hm : (T * E) * numel p % numel p = 0 := Nat.mul_mod_left _ _
    have hd : (T * E) * numel p / numel p = T * E := Nat.mul_div_cancel _ hp
    unfold maybeAddBatchDim
    rw [if_neg h1, if_pos h2]
    simp only []
    rw [e, if_neg (by omega), hd]
    simp [numel]

/-- more than two leading dimensions, or fewer dimensions than the space: `ValueError` -/
theorem mabd_rank_error (t : Tensor) (p : List Nat)
    (h : t.shape.length < p.length ∨ p.length + 2 < t.shape.length) :
    maybeAddBatchDim t p = .error .rank := by
  unfold maybeAddBatchDim
  rw [if_neg (by omega), if_neg (by omega), if_neg (by omega)]

/-! ### specification-level: what one observation becomes -/

/-- min-max scaling of one image with the space's bounds; identity when a bound is infinite -/
def normData (lo hi : List (Option Rat)) (r : List Rat) : List Rat :=
  match allOk lo, allOk hi with
  | some l, some h => normRow l h r
  | _, _ => r

/-- the network input computed from ONE observation (flat data of `space.shape`) -/
def prepRow (norm : Bool) : Leaf → List Rat → List Rat
  | .box p lo hi, r => if p.length = 3 ∧ norm = true then normData lo hi r else r
  | .discrete n, r => (r.map (fun q => oneHotVec n (toLong q).toNat)).flatten
  | .multiDiscrete nv, r => (List.zipWith (fun n q => oneHotVec n (toLong q).toNat) nv r).flatten
  | .multiBinary _, r => r

/-- component `i` of a MultiDiscrete observation lies in `[0, nvec[i])`, and the lengths agree -/
def InRange : List Nat → List Rat → Prop
  | [], [] => True
  | n :: ns, q :: qs => (0 ≤ toLong q ∧ toLong q < (n : Int)) ∧ InRange ns qs
  | _, _ => False

theorem InRange.length_eq : ∀ (nv : List Nat) (r : List Rat), InRange nv r → nv.length = r.length
  | [], [], _ => rfl
  | _ :: ns, _ :: qs, h => by simp [InRange.length_eq ns qs h.2]
  | [], _ :: _, h => h.elim
  | _ :: _, [], h => h.elim

/-- one observation is a legal member of the space (as far as preprocessing cares) -/
def ValidObs : Leaf → List Rat → Prop
  | .box p _ _, r => r.length = numel p
  | .discrete n, r => ∃ q, r = [q] ∧ 0 ≤ toLong q ∧ toLong q < (n : Int)
  | .multiDiscrete nv, r => InRange nv r
  | .multiBinary n, r => r.length = n

/-- the space itself is sane (non-empty, bounds as long as the shape says) -/
def WellFormed : Leaf → Prop
  | .box p lo hi => 0 < numel p ∧ lo.length = numel p ∧ hi.length = numel p
  | .discrete n => 0 < n
  | .multiDiscrete nv => nv ≠ [] ∧ ∀ n ∈ nv, 0 < n
  | .multiBinary n => 0 < n

theorem endsWith_append (batch p : List Nat) : endsWith (batch ++ p) p = true := by
  unfold endsWith
  have : (batch ++ p).length - p.length = batch.length := by simp
  rw [this, List.drop_left]
  simp

theorem oneHotAll_rows (n : Nat) (rows : List (List Rat))
    (h : ∀ r ∈ rows, ValidObs (.discrete n) r) :
    oneHotAll n rows.flatten = some ((rows.map (prepRow false (.discrete n))).flatten) := by
  unfold oneHotAll
  have key : allOk (rows.flatten.map (fun q => oneHot n (toLong q))) =
      some (rows.map (prepRow false (.discrete n))) := by
    induction rows with
    | nil => rfl
    | cons r rest ih =>
      obtain ⟨q, rfl, h0, h1⟩ := h r (by simp)
      have hrest := ih (fun x hx => h x (by simp [hx]))
      have hq : oneHot n (toLong q) = some (oneHotVec n (toLong q).toNat) := by
        simp [oneHot, h0, h1]
      simp only [List.flatten_cons, List.cons_append, List.nil_append, List.map_cons, allOk, hrest,
        hq, Option.map_some, prepRow, List.map_nil, List.flatten_cons, List.flatten_nil,
        List.append_nil]
  rw [key]; rfl

theorem zipOneHot_valid : ∀ (nv : List Nat) (r : List Rat), InRange nv r →
    allOk (List.zipWith (fun n q => oneHot n (toLong q)) nv r) =
      some (List.zipWith (fun n q => oneHotVec n (toLong q).toNat) nv r)
  | [], [], _ => rfl
  | n :: ns, q :: qs, h => by
    have hq : oneHot n (toLong q) = some (oneHotVec n (toLong q).toNat) := by
      simp [oneHot, h.1.1, h.1.2]
    simp only [List.zipWith_cons_cons, allOk, hq, zipOneHot_valid ns qs h.2, Option.map_some]
  | [], _ :: _, h => h.elim
  | _ :: _, [], h => h.elim

theorem mdRow_valid (nv : List Nat) (r : List Rat) (h : ValidObs (.multiDiscrete nv) r) :
    mdRow nv r = some (prepRow false (.multiDiscrete nv) r) := by
  have hl : r.length = nv.length := (InRange.length_eq nv r h).symm
  unfold mdRow
  rw [if_neg (by simp [hl]), zipOneHot_valid nv r h]; rfl

theorem sum_pos_of_all_pos : ∀ (nv : List Nat), nv ≠ [] → (∀ n ∈ nv, 0 < n) → 0 < nv.sum
  | [], h, _ => absurd rfl h
  | a :: r, _, h => by
    have := h a (by simp)
    simp only [List.sum_cons]; omega

theorem validObs_length (sp : Leaf) (r : List Rat) (h : ValidObs sp r) :
    r.length = numel sp.obsShape := by
  cases sp with
  | box p lo hi => exact h
  | discrete n => obtain ⟨q, rfl, _⟩ := h; rfl
  | multiDiscrete nv =>
    have : nv.length = r.length := InRange.length_eq nv r h
    simp [Leaf.obsShape, numel, this]
  | multiBinary n =>
    have : r.length = n := h
    simp [Leaf.obsShape, numel, this]

theorem applyNorm_batch (p : List Nat) (lo hi : List (Option Rat)) (hp : 0 < numel p)
    (hlo : lo.length = numel p) (hhi : hi.length = numel p) (batch : List Nat)
    (rows : List (List Rat)) (hv : ∀ r ∈ rows, r.length = numel p) :
    applyNorm p lo hi ⟨batch ++ p, rows.flatten⟩ =
      .ok ⟨batch ++ p, (rows.map (normData lo hi)).flatten⟩ := by
  unfold applyNorm allSomeR
  cases hl : allOk lo with
  | none =>
    have : normData lo hi = fun r => r := by funext r; simp [normData, hl]
    simp [this]
  | some l =>
    cases hh : allOk hi with
    | none =>
      have : normData lo hi = fun r => r := by funext r; simp [normData, hl, hh]
      simp [this]
    | some h =>
      have el : l.length = numel p := by
        have := congrArg List.length (allOk_eq_some lo l hl); simp at this; omega
      have eh : h.length = numel p := by
        have := congrArg List.length (allOk_eq_some hi h hh); simp at this; omega
      have hc : chunk (numel p) rows.flatten = rows := chunk_flatten _ hp rows hv
      have hN : normData lo hi = normRow l h := by funext r; simp [normData, hl, hh]
      simp only [endsWith_append, el, eh, hc, hN]
      rw [if_neg (by simp; omega)]

/-- **master lemma**: an input of shape `batch ++ space.shape` (≤ 2 leading dimensions) whose rows
    are legal observations is accepted; the result has shape `[#rows] ++ network shape` and its data
    is, row by row, what each observation alone becomes. -/
theorem preprocess_batch (norm : Bool) (sp : Leaf) (hsp : WellFormed sp) (batch : List Nat)
    (hb : batch.length ≤ 2) (rows : List (List Rat)) (hv : ∀ r ∈ rows, ValidObs sp r) :
    preprocess norm sp ⟨batch ++ sp.obsShape, rows.flatten⟩ =
      .ok ⟨numel batch :: sp.netShape, (rows.map (prepRow norm sp)).flatten⟩ := by
  cases sp with
  | box p lo hi =>
    obtain ⟨hp, hlo, hhi⟩ := hsp
    cases p with
    | nil =>
      have hP : prepRow norm (.box [] lo hi) = fun r => r := by funext r; simp [prepRow]
      simp only [preprocess, preprocessWith, Leaf.obsShape, Leaf.netShape, List.append_nil]
      rw [if_neg (by simp), hP]
      simp only [bind, Except.bind, and_self, if_true]
      rw [mabd_batch batch [1] _ hb (by simp [numel])]
      simp
    | cons d ps =>
      have hne : ¬ (d :: ps = [] ∧ True) := by simp
      simp only [preprocess, preprocessWith, Leaf.obsShape, Leaf.netShape]
      by_cases hn : (d :: ps).length = 3 ∧ norm = true
      · have hP : prepRow norm (.box (d :: ps) lo hi) = normData lo hi := by
          funext r; simp only [prepRow]; rw [if_pos hn]
        rw [if_pos hn, applyNorm_batch (d :: ps) lo hi hp hlo hhi batch rows (fun r hr => hv r hr), hP]
        simp only [bind, Except.bind]
        rw [if_neg hne]
        exact mabd_batch batch (d :: ps) _ hb hp
      · have hP : prepRow norm (.box (d :: ps) lo hi) = fun r => r := by
          funext r; simp only [prepRow]; rw [if_neg hn]
        rw [if_neg hn, hP]
        simp only [bind, Except.bind]
        rw [if_neg hne, mabd_batch batch (d :: ps) _ hb hp]
        simp
  | discrete n =>
    have hn : 0 < n := hsp
    simp only [preprocess, preprocessWith, prepDiscrete, Leaf.obsShape, Leaf.netShape, List.append_nil]
    rw [oneHotAll_rows n rows hv]
    simp only [liftOpt, bind, Except.bind]
    have hd : ∀ nrm, prepRow nrm (.discrete n) = prepRow false (.discrete n) := fun _ => rfl
    rw [hd norm]
    by_cases h1 : n > 1
    · rw [if_pos h1]
      have hs : squeezeAll (batch ++ [n]) = squeezeAll batch ++ [n] := by
        unfold squeezeAll
        rw [List.filter_append]
        congr 1
        rw [List.filter_cons_of_pos (by simp; omega)]; rfl
      rw [hs]
      have hq : (squeezeAll batch).length ≤ 2 :=
        Nat.le_trans (List.length_filter_le _ _) hb
      rw [mabd_batch (squeezeAll batch) [n] _ hq (by simp [numel]; omega), numel_squeezeAll]
    · rw [if_neg h1]
      exact mabd_batch batch [n] _ hb (by simp [numel]; omega)
  | multiDiscrete nv =>
    obtain ⟨hne, hpos⟩ := hsp
    have hk : 0 < nv.length := List.length_pos_iff.mpr hne
    have hS : 0 < nv.sum := sum_pos_of_all_pos nv hne hpos
    simp only [preprocess, preprocessWith, prepMultiDiscrete, prepMultiDiscreteWith, Leaf.obsShape,
      Leaf.netShape, Bool.false_eq_true, if_false]
    rw [mabd_batch batch [nv.length] _ hb (by simp [numel]; omega)]
    simp only [bind, Except.bind]
    have hc : chunk nv.length rows.flatten = rows :=
      chunk_flatten _ hk rows (fun r hr => (InRange.length_eq nv r (hv r hr)).symm)
    rw [if_neg (by simp), hc]
    rw [allOk_map_some (mdRow nv) (prepRow false (.multiDiscrete nv)) rows
      (fun r hr => mdRow_valid nv r (hv r hr))]
    simp only [liftOpt]
    have hd : prepRow norm (.multiDiscrete nv) = prepRow false (.multiDiscrete nv) := rfl
    rw [hd]
    have := mabd_batch [numel batch, 1] [nv.sum] ((rows.map (prepRow false (.multiDiscrete nv))).flatten)
      (by simp) (by simp [numel]; omega)
    simp only [List.cons_append, List.nil_append] at this
    rw [this]
    simp [numel]
  | multiBinary n =>
    have hn : 0 < n := hsp
    have hP : prepRow norm (.multiBinary n) = fun r => r := by funext r; rfl
    simp only [preprocess, preprocessWith, Leaf.obsShape, Leaf.netShape]
    rw [mabd_batch batch [n] _ hb (by simp [numel]; omega), hP]
    simp

end Obs
