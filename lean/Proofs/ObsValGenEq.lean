import Gen.ObsValGen
import Proofs.ObsValue
import Proofs.ObsMulti

/-!
  Proofs/ObsValGenEq.lean — the definitions GENERATED from the source text (`Gen/ObsValGen.lean`, by
  harness/py2lean_obsval.py) equal the hand-written model `Model/Obs.lean`, VALUES included.

  * `gen_maybe_add_batch_dim_eq`          = `Obs.maybeAddBatchDim` (every shape, ndarray and tensor branch, data kept)
  * `gen_apply_image_normalization_eq`    = `Obs.applyNormV true` (the repaired code): the two infinity bypasses, the
                                            (0, 1) bypass, `where(scale == 0, 1, scale)`, broadcast over the batch
  * `elem_found`                          the division as found = `Obs.normalizeFound` (nan / ±inf where high = low)
  * `gen_preprocess_box_eq`               the call condition `len(shape) == 3 and normalize_images`, then the batch dimension
  * `gen_one_hot_eq`                      `F.one_hot(x.long(), n).float()` = `Obs.oneHotAll` (range error included)
  * `gen_get_homo_id_eq`, `gen_agent_position_eq`   = `Obs.homoId`, `Obs.agentPosition`
  * `gen_assemble_core`, `gen_disassemble_core`     stack + reshape = `assembleHomogeneous`; reshape + `[i]` =
                                                    chunk `i` of `disassembleHomogeneous`
  * `gen_stack_critic_vec_eq`             `torch.cat(obs, dim=1)` of `[B, d_a]` tensors = `Obs.stackCritic`
-/
set_option linter.unusedSimpArgs false
namespace ObsValGenEq
open ObsValGen

def toX : Obs.Fl → X
  | .fin q => .fin q | .pinf => .pinf | .ninf => .ninf | .nan => .nan
def loX : Option Rat → X
  | some q => .fin q | none => .ninf
def hiX : Option Rat → X
  | some q => .fin q | none => .pinf
def tX (t : Obs.Tensor) : T X := ⟨t.shape, t.data.map X.fin⟩
def boxOf (p : List Nat) (lo hi : List (Option Rat)) : Box := ⟨p, lo.map loX, hi.map hiX⟩

theorem gen_get_homo_id_eq (a : String) : get_homo_id a = .ok (Obs.homoId a) := by
  unfold get_homo_id Obs.homoId pyRsplit1
  rcases h : (a.splitOn "_").reverse with _ | ⟨x, _ | ⟨y, r⟩⟩ <;>
    simp [pyIndex, bind, Except.bind, pure, Except.pure]

theorem gen_agent_position_eq (ids : List String) (a : String) :
    _agent_position ids a = .ok (Obs.agentPosition ids a) := by
  unfold _agent_position Obs.agentPosition pyInList pyListIndex
  cases h : ids.findIdx? (· == a) with
  | none =>
    have hm : a ∉ ids := by
      rw [List.findIdx?_eq_none_iff] at h
      intro hm
      have := h a hm
      simp at this
    simp [hm, bind, Except.bind, pure, Except.pure]
  | some i =>
    have hm : a ∈ ids := by
      have := List.findIdx?_eq_some_iff_getElem.mp h
      obtain ⟨hi, hp, _⟩ := this
      have e : ids[i] = a := by simpa using hp
      rw [← e]; exact List.getElem_mem hi
    simp [hm, h, bind, Except.bind, pure, Except.pure]

/-- the model's answer carried over to a tensor with other data -/
def projShape {α} (d : List α) : Except Obs.Err Obs.Tensor → M (T α)
  | .ok t => .ok ⟨t.shape, d⟩
  | .error .rank => .error (.raised "ValueError")
  | .error _ => .error .reshape

theorem numel_eq : ∀ s, ObsValGen.numel s = Obs.numel s
  | [] => rfl
  | d :: r => by simp [ObsValGen.numel, Obs.numel, numel_eq r]

theorem gen_maybe_add_batch_dim_eq {α} (nd : Bool) (s : List Nat) (d : List α) (dm : List Rat) (p : List Nat) :
    maybe_add_batch_dim nd ⟨s, d⟩ p = projShape d (Obs.maybeAddBatchDim ⟨s, dm⟩ p) := by
  unfold maybe_add_batch_dim Obs.maybeAddBatchDim
  by_cases h1 : s.length = p.length
  · cases nd <;> simp [h1, projShape, npExpandDims, tUnsqueeze, unsqDim, bind, Except.bind, pure, Except.pure]
  · by_cases h2 : s.length = p.length + 2
    · by_cases h3 : Obs.numel p = 0 ∨ Obs.numel s % Obs.numel p ≠ 0
      · cases nd <;> simp [h1, h2, h3, projShape, tReshapeNeg1, numel_eq, bind, Except.bind, pure, Except.pure]
      · cases nd <;> simp [h1, h2, h3, projShape, tReshapeNeg1, numel_eq, bind, Except.bind, pure, Except.pure]
    · by_cases h3 : s.length = p.length + 1
      · cases nd <;> simp [h1, h2, h3, projShape, bind, Except.bind, pure, Except.pure]
      · cases nd <;> simp [h1, h2, h3, projShape, bind, Except.bind, pure, Except.pure, throw, throwThe, MonadExceptOf.throw]

/-! ### `apply_image_normalization` -/

theorem chunkAux_eq {α} (k : Nat) : ∀ (f : Nat) (l : List α), ObsValGen.chunkAux k f l = Obs.chunkAux k f l
  | 0, _ => rfl
  | _ + 1, [] => rfl
  | f + 1, x :: xs => by simp [ObsValGen.chunkAux, Obs.chunkAux, chunkAux_eq k f]

theorem chunk_eq {α} (k : Nat) (l : List α) : ObsValGen.chunk k l = Obs.chunk k l := chunkAux_eq k _ l

theorem endsWith_eq (s p : List Nat) : ObsValGen.endsWith s p = Obs.endsWith s p := rfl

theorem bcast_rows (f : X → X → X) (batch p : List Nat) (rows : List (List X)) (b : List X)
    (hp : 0 < Obs.numel p) (hb : b.length = Obs.numel p) (hr : ∀ r ∈ rows, r.length = Obs.numel p) :
    bcast f ⟨batch ++ p, rows.flatten⟩ ⟨p, b⟩ =
      .ok ⟨batch ++ p, (rows.map (fun r => List.zipWith f r b)).flatten⟩ := by
  unfold bcast
  simp only [numel_eq, endsWith_eq, Obs.endsWith_append, chunk_eq]
  rw [if_neg (by simp; omega), Obs.chunk_flatten _ hp rows hr]

theorem bcast_same (f : X → X → X) (p : List Nat) (a b : List X)
    (hp : 0 < Obs.numel p) (ha : a.length = Obs.numel p) (hb : b.length = Obs.numel p) :
    bcast f ⟨p, a⟩ ⟨p, b⟩ = .ok ⟨p, List.zipWith f a b⟩ := by
  have := bcast_rows f [] p [a] b hp hb (by simpa using ha)
  simpa using this

/-- the scale of the repaired code, element by element -/
def scaleX (l h : List Rat) : List X :=
  List.zipWith (fun (lo hi : Rat) => X.fin (Obs.scaleOf lo hi)) l h

theorem where_scale : ∀ (l h : List Rat),
    (let S := List.zipWith X.sub (h.map X.fin) (l.map X.fin)
     List.zipWith (fun (cx : Bool × X) y => if cx.1 then cx.2 else y)
      (List.zip (S.map (fun x => X.eq x (X.fin 0))) (S.map (fun _ => X.fin 1))) S) = scaleX l h
  | [], h => by cases h <;> simp [scaleX]
  | _ :: _, [] => by simp [scaleX]
  | a :: l, b :: h => by
    have ih := where_scale l h
    simp only [List.map_cons, List.zipWith_cons_cons, List.zip_cons_cons, scaleX] at ih ⊢
    rw [ih]
    congr 1
    simp only [X.sub, X.eq, Obs.scaleOf]
    by_cases hz : b - a = 0 <;> simp [hz]

theorem row_fixed : ∀ (l h r : List Rat),
    List.zipWith X.div (List.zipWith X.sub (r.map X.fin) (l.map X.fin)) (scaleX l h) =
      (Obs.normRowV true l h r).map toX
  | [], h, r => by cases r <;> simp [scaleX, Obs.normRowV]
  | _ :: _, [], r => by cases r <;> simp [scaleX, Obs.normRowV]
  | _ :: _, _ :: _, [] => by simp [scaleX, Obs.normRowV]
  | a :: l, b :: h, x :: r => by
    have ih := row_fixed l h r
    simp only [scaleX, Obs.normRowV, List.map_cons, List.zipWith_cons_cons, List.zip_cons_cons] at ih ⊢
    rw [ih]
    congr 1
    simp only [X.sub, X.div, Obs.normalizeV, Obs.normalizeFixed, toX, if_true]
    have : Obs.scaleOf a b ≠ 0 := by
      unfold Obs.scaleOf; split <;> simp_all
    simp [this]

theorem scaleX_length (l h : List Rat) : (scaleX l h).length = min l.length h.length := by
  simp [scaleX]

theorem allOk_none_iff {α} : ∀ (l : List (Option α)), Obs.allOk l = none ↔ l.any Option.isNone = true
  | [] => by simp [Obs.allOk]
  | none :: r => by simp [Obs.allOk]
  | some a :: r => by
    have := allOk_none_iff r
    cases h : Obs.allOk r <;> simp_all [Obs.allOk]

theorem npIn_hi (p : List Nat) (hi : List (Option Rat)) :
    npIn X.pinf ⟨p, hi.map hiX⟩ = hi.any Option.isNone := by
  unfold npIn
  induction hi with
  | nil => rfl
  | cons a r ih =>
    simp only [List.map_cons, List.any_cons] at ih ⊢
    rw [ih]; cases a <;> simp [hiX, X.eq]

theorem npIn_lo (p : List Nat) (lo : List (Option Rat)) :
    npIn (X.neg X.pinf) ⟨p, lo.map loX⟩ = lo.any Option.isNone := by
  unfold npIn
  induction lo with
  | nil => rfl
  | cons a r ih =>
    simp only [List.map_cons, List.any_cons] at ih ⊢
    rw [ih]; cases a <;> simp [loX, X.eq, X.neg]

/-- all bounds are exactly (0, 1) -/
def unitBounds (l h : List Rat) : Bool := h.all (· == 1) && l.all (· == 0)

theorem unit_check (p : List Nat) (l h : List Rat) :
    (npAll (npEqS ⟨p, (h.map some).map hiX⟩ (X.fin 1)) && npAll (npEqS ⟨p, (l.map some).map loX⟩ (X.fin 0))) =
      unitBounds l h := by
  unfold unitBounds npAll npEqS
  congr 1
  · induction h with
    | nil => rfl
    | cons a r ih => simp only [List.map_cons, List.all_cons] at ih ⊢; rw [ih]; simp only [hiX, X.eq]; by_cases ha : a = 1 <;> simp [ha]
  · induction l with
    | nil => rfl
    | cons a r ih => simp only [List.map_cons, List.all_cons] at ih ⊢; rw [ih]; simp only [loX, X.eq]; by_cases ha : a = 0 <;> simp [ha]

theorem row_unit : ∀ (l h r : List Rat), unitBounds l h = true → l.length = r.length → h.length = r.length →
    (Obs.normRowV true l h r).map toX = r.map X.fin
  | [], [], [], _, _, _ => rfl
  | a :: l, b :: h, x :: r, hu, h1, h2 => by
    simp only [unitBounds, List.all_cons, Bool.and_eq_true, beq_iff_eq] at hu
    obtain ⟨⟨hb, hh⟩, ha, hl⟩ := hu
    have ih := row_unit l h r (by simp [unitBounds, hh, hl]) (by simpa using h1) (by simpa using h2)
    simp only [Obs.normRowV, List.map_cons, List.zipWith_cons_cons, List.zip_cons_cons] at ih ⊢
    rw [ih]
    subst ha; subst hb
    simp [Obs.normalizeV, Obs.normalizeFixed, Obs.scaleOf, toX]
  | [], _ :: _, _, _, h1, h2 => by cases h1 ▸ h2
  | _ :: _, [], _, _, h1, h2 => by cases h2 ▸ h1
  | [], [], _ :: _, _, h1, _ => by cases h1
  | _ :: _, _ :: _, [], _, h1, _ => by cases h1

/-- projection of the model's answer -/
def projV : Except Obs.Err (List Nat × List Obs.Fl) → M (T X)
  | .ok (s, d) => .ok ⟨s, d.map toX⟩
  | .error _ => .error .broadcast


theorem map_some_hiX (h : List Rat) : (h.map some).map hiX = h.map X.fin := by simp [List.map_map, hiX, Function.comp_def]
theorem map_some_loX (l : List Rat) : (l.map some).map loX = l.map X.fin := by simp [List.map_map, loX, Function.comp_def]

theorem unit_check' (p : List Nat) (l h : List Rat) :
    (npAll (npEqS ⟨p, h.map X.fin⟩ (X.fin 1)) && npAll (npEqS ⟨p, l.map X.fin⟩ (X.fin 0))) =
      unitBounds l h := by
  rw [← map_some_hiX, ← map_some_loX]; exact unit_check p l h

theorem gen_apply_image_normalization_eq (isT : Bool) (p : List Nat) (lo hi : List (Option Rat))
    (hp : 0 < Obs.numel p) (hlo : lo.length = Obs.numel p) (hhi : hi.length = Obs.numel p)
    (batch : List Nat) (rows : List (List Rat)) (hv : ∀ r ∈ rows, r.length = Obs.numel p) :
    apply_image_normalization isT (tX ⟨batch ++ p, rows.flatten⟩) (boxOf p lo hi) =
      projV (Obs.applyNormV true p lo hi ⟨batch ++ p, rows.flatten⟩) := by
  unfold apply_image_normalization Obs.applyNormV Obs.allSomeR
  simp only [Box.high, Box.low, boxOf, npIn_hi, npIn_lo, tX]
  cases hh : Obs.allOk hi with
  | none =>
    have := (allOk_none_iff hi).mp hh
    cases hl : Obs.allOk lo <;> simp [this, projV, List.map_map, toX, Function.comp_def, pure, Except.pure]
  | some h =>
    have nh : hi.any Option.isNone = false := by
      cases e : hi.any Option.isNone
      · rfl
      · rw [(allOk_none_iff hi).mpr e] at hh; cases hh
    cases hl : Obs.allOk lo with
    | none =>
      have := (allOk_none_iff lo).mp hl
      simp [this, nh, projV, List.map_map, toX, Function.comp_def, pure, Except.pure]
    | some l =>
      have nl : lo.any Option.isNone = false := by
        cases e : lo.any Option.isNone
        · rfl
        · rw [(allOk_none_iff lo).mpr e] at hl; cases hl
      have elo := Obs.allOk_eq_some lo l hl
      have ehi := Obs.allOk_eq_some hi h hh
      subst elo; subst ehi
      have ll : l.length = Obs.numel p := by simpa using hlo
      have lh : h.length = Obs.numel p := by simpa using hhi
      simp only [nh, nl, map_some_hiX, map_some_loX, unit_check']
      have hc : ¬(l.length ≠ Obs.numel p ∨ h.length ≠ Obs.numel p ∨ Obs.numel p = 0 ∨
          (!Obs.endsWith (batch ++ p) p) = true) := by
        simp [Obs.endsWith_append, ll, lh]; try omega
      rw [Obs.chunk_flatten _ hp rows hv]
      simp only [if_neg hc]
      by_cases hu : unitBounds l h = true
      · simp only [hu, projV, pure, Except.pure, Bool.not_true, Bool.false_eq_true, if_false, if_true]
        simp only [List.map_flatten, List.map_map]
        congr 3
        apply List.map_congr_left
        intro r hr
        exact (row_unit l h r hu (by rw [ll, hv r hr]) (by rw [lh, hv r hr])).symm
      · have e1 : tSub ⟨p, h.map X.fin⟩ ⟨p, l.map X.fin⟩ =
            .ok ⟨p, List.zipWith X.sub (h.map X.fin) (l.map X.fin)⟩ :=
          bcast_same X.sub p _ _ hp (by simpa using lh) (by simpa using ll)
        have e2 : tWhere (npEqS ⟨p, List.zipWith X.sub (h.map X.fin) (l.map X.fin)⟩ (X.fin 0))
            (onesLike ⟨p, List.zipWith X.sub (h.map X.fin) (l.map X.fin)⟩)
            ⟨p, List.zipWith X.sub (h.map X.fin) (l.map X.fin)⟩ = .ok ⟨p, scaleX l h⟩ := by
          have := where_scale l h
          simp only [tWhere, npEqS, onesLike, and_self, if_true]
          simp only at this
          rw [this]
        have e3 : tSub ⟨batch ++ p, rows.flatten.map X.fin⟩ ⟨p, l.map X.fin⟩ =
            .ok ⟨batch ++ p, ((rows.map (List.map X.fin)).map
              (fun r => List.zipWith X.sub r (l.map X.fin))).flatten⟩ := by
          rw [List.map_flatten]
          exact bcast_rows X.sub batch p _ _ hp (by simpa using ll)
            (by intro r hr; rw [List.mem_map] at hr; obtain ⟨r', hr', rfl⟩ := hr; simpa using hv r' hr')
        have e4 : tDiv ⟨batch ++ p, ((rows.map (List.map X.fin)).map
              (fun r => List.zipWith X.sub r (l.map X.fin))).flatten⟩ ⟨p, scaleX l h⟩ =
            .ok ⟨batch ++ p, ((rows.map (Obs.normRowV true l h)).flatten).map toX⟩ := by
          have := bcast_rows X.div batch p ((rows.map (List.map X.fin)).map
              (fun r => List.zipWith X.sub r (l.map X.fin))) (scaleX l h) hp
              (by rw [scaleX_length, ll, lh]; simp)
              (by
                intro r hr
                simp only [List.map_map, List.mem_map, Function.comp] at hr
                obtain ⟨r', hr', rfl⟩ := hr
                simp [hv r' hr', ll])
          unfold tDiv
          rw [this, List.map_flatten]
          congr 3
          simp only [List.map_map]
          apply List.map_congr_left
          intro r _
          exact row_fixed l h r
        cases isT <;>
          simp only [hu, torchTensor, e1, e2, e3, e4, bind, Except.bind, pure, Except.pure, Bool.false_eq_true,
            if_false, if_true, ite_false, ite_true, reduceIte, Bool.not_true, projV]

/-- the division of the code AS FOUND (`(x - low) / (high - low)`, before the repair), element by element: the IEEE
    result is the model's `normalizeFound` — `nan` where `x = low = high`, `±inf` where only `low = high` -/
theorem elem_found (l h x : Rat) :
    X.div (X.sub (X.fin x) (X.fin l)) (X.sub (X.fin h) (X.fin l)) = toX (Obs.normalizeFound l h x) := by
  simp only [X.sub, X.div, Obs.normalizeFound]
  by_cases h0 : h - l = 0
  · by_cases h1 : x - l = 0
    · simp [h0, h1, toX]
    · by_cases h2 : 0 < x - l <;> simp [h0, h1, h2, toX]
  · simp [h0, toX]

/-! ### one-hot values -/

theorem mapM_long : ∀ (d : List Rat), mapM' xLong (d.map X.fin) = .ok (d.map Obs.toLong)
  | [] => rfl
  | q :: r => by simp [mapM', xLong, mapM_long r, ratTrunc, Obs.toLong]

theorem oneHotVec_cast (n v : Nat) :
    (ObsValGen.oneHotVec n v).map (fun (i : Int) => X.fin (i : Rat)) = (Obs.oneHotVec n v).map X.fin := by
  simp only [ObsValGen.oneHotVec, Obs.oneHotVec, List.map_map]
  apply List.map_congr_left
  intro i _
  by_cases h : i = v <;> simp [h]

theorem mapM_oneHot (n : Nat) : ∀ (vs : List Int),
    (match mapM' (oneHot1 n) vs with
     | .ok rows => (.ok (rows.flatten.map (fun (i : Int) => X.fin (i : Rat))) : M (List X))
     | .error e => .error e) =
    (match (Obs.allOk (vs.map (Obs.oneHot n))).map List.flatten with
     | some r => .ok (r.map X.fin)
     | none => .error .onehot)
  | [] => rfl
  | v :: r => by
    have ih := mapM_oneHot n r
    simp only [mapM', List.map_cons, Obs.allOk]
    by_cases hv : 0 ≤ v ∧ v < (n : Int)
    · simp only [oneHot1, Obs.oneHot, if_pos hv]
      cases hm : mapM' (oneHot1 n) r with
      | error e =>
        rw [hm] at ih
        cases ha : Obs.allOk (r.map (Obs.oneHot n)) with
        | none => simp [Obs.allOk, ha] at ih ⊢; exact ih
        | some a => rw [ha] at ih; simp at ih
      | ok rows =>
        rw [hm] at ih
        cases ha : Obs.allOk (r.map (Obs.oneHot n)) with
        | none => rw [ha] at ih; simp at ih
        | some a =>
          rw [ha] at ih
          simp only [Option.map_some, Except.ok.injEq] at ih
          simp [Obs.allOk, ha, oneHotVec_cast, ih]
    · simp [oneHot1, Obs.oneHot, if_neg hv, Obs.allOk]

/-- **`F.one_hot(x.long(), n).float()`** on a float tensor with finite values: shape `s ++ [n]`, data = the model's
    `oneHotAll`; a value outside `[0, n)` is the `onehot` error (torch raises) -/
theorem gen_one_hot_eq (n : Nat) (s : List Nat) (d : List Rat) :
    (do let t ← tLong (tX ⟨s, d⟩); let o ← fOneHot t n; pure (tFloat o) : M (T X)) =
      (match Obs.oneHotAll n d with
       | some r => .ok ⟨s ++ [n], r.map X.fin⟩
       | none => .error .onehot) := by
  have h2 := mapM_oneHot n (d.map Obs.toLong)
  simp only [tLong, ToLong.toLong, tLongX, tX, mapM_long, bind, Except.bind, fOneHot, pure, Except.pure, tFloat,
    ToFloat.toFloat, tFloatI, Obs.oneHotAll]
  simp only [List.map_map] at h2
  cases hm : mapM' (oneHot1 n) (d.map Obs.toLong) with
  | error e =>
    rw [hm] at h2
    cases ha : Obs.allOk (d.map (Obs.oneHot n ∘ Obs.toLong)) with
    | none => rw [ha] at h2; simp at h2; simp only [Function.comp_def] at ha; simp [ha, h2]
    | some a => rw [ha] at h2; simp at h2
  | ok rows =>
    rw [hm] at h2
    cases ha : Obs.allOk (d.map (Obs.oneHot n ∘ Obs.toLong)) with
    | none => rw [ha] at h2; simp at h2
    | some a =>
      rw [ha] at h2
      simp only [Option.map_some, Except.ok.injEq] at h2
      simp [Function.comp_def] at ha
      simp [ha, h2]

/-! ### shared policies: the numeric core of assemble / disassemble -/

theorem npReshape_data {α} (x t : T α) (dims : List (Option Nat)) (h : npReshape x dims = .ok t) :
    t.data = x.data := by
  unfold npReshape at h
  simp only at h
  split_ifs at h <;> cases h <;> rfl

theorem npStack_same {α} (sh : List Nat) (xs : List (List α)) (hne : xs ≠ []) :
    npStack (xs.map (fun x => (⟨sh, x⟩ : T α))) 0 = .ok ⟨xs.length :: sh, xs.flatten⟩ := by
  cases xs with
  | nil => exact absurd rfl hne
  | cons x r => simp [npStack, List.map_map, Function.comp_def]

/-- `np.reshape(np.stack(xs, axis=0), (len(xs) * vect_dim, -1))`: the flat data is the model's `assembleHomogeneous` -/
theorem gen_assemble_core {α} (sh : List Nat) (xs : List (List α)) (hne : xs ≠ []) (E : Nat) (t : T α)
    (h : (do let st ← npStack (xs.map (fun x => (⟨sh, x⟩ : T α))) 0
             npReshape st [some (xs.length * E), none] : M (T α)) = .ok t) :
    t.data = Obs.assembleHomogeneous xs := by
  rw [npStack_same sh xs hne] at h
  exact npReshape_data _ t _ (by simpa [bind, Except.bind] using h)

/-- `np.reshape(x, (n_agents, vect_dim, -1))[i]`: agent `i` gets chunk `i` of the model's `disassembleHomogeneous` -/
theorem gen_disassemble_core {α} (x : T α) (A E i : Nat) (hA : 0 < A) (hE : 0 < E) (w : Nat)
    (hx : x.data.length = A * (E * w)) (hi : i < A) :
    (do let r ← npReshape x [some A, some E, none]; tIdx0 r i : M (T α)) =
      .ok ⟨[E, w], (Obs.disassembleHomogeneous A x.data).getD i []⟩ := by
  have hk : (A * E) ≠ 0 := Nat.mul_ne_zero (by omega) (by omega)
  have hdiv : x.data.length / (A * E) = w := by
    rw [hx, ← Nat.mul_assoc]; exact Nat.mul_div_cancel_left w (Nat.pos_of_ne_zero hk)
  have hmod : x.data.length % (A * E) = 0 := by
    rw [hx, ← Nat.mul_assoc]; exact Nat.mul_mod_right _ _
  have hdivA : x.data.length / A = E * w := by
    rw [hx]; exact Nat.mul_div_cancel_left _ hA
  simp [npReshape, tIdx0, hk, hdiv, hmod, hi, bind, Except.bind, Obs.disassembleHomogeneous, hdivA,
    ObsValGen.numel, chunk_eq]



theorem gen_stack_critic_vec_eq (B : Nat) (ts : List (Obs.Tensor × Nat)) (hne : ts ≠ [])
    (hd : ∀ td ∈ ts, 0 < td.2) :
    torchCat (ts.map (fun td => (⟨[B, td.2], td.1.data⟩ : T Rat))) 1 =
      .ok ⟨[B, (ts.map (·.2)).sum], (Obs.stackCritic B ts).data⟩ := by
  cases ts with
  | nil => exact absurd rfl hne
  | cons t0 r =>
    simp only [torchCat, List.map_cons]
    rw [if_neg]
    swap
    · intro hc
      rcases hc with h | h | h
      · simp at h
      · simp at h
      · rw [List.any_eq_true] at h
        obtain ⟨t, ht, hc⟩ := h
        rw [← List.map_cons (f := fun td : Obs.Tensor × Nat => (⟨[B, td.2], td.1.data⟩ : T Rat)), List.mem_map] at ht
        obtain ⟨td, htd, rfl⟩ := ht
        have := hd td htd
        simp at hc; omega
    simp [Obs.stackCritic, Obs.catRows, lastRows, Obs.Tensor.rows, chunk_eq, ObsValGen.numel, List.map_map,
      Function.comp_def]
/-- the call condition of the normalisation in `preprocess_observation`: exactly `len(shape) == 3 and normalize_images`;
    afterwards only the batch dimension is added (a non-scalar Box) -/
theorem gen_preprocess_box_eq (t : T X) (sp : Box) (norm : Bool) (hp : sp.shape ≠ []) :
    preprocess_observation_Box t sp norm =
      (if sp.shape.length = 3 ∧ norm = true then
        (match apply_image_normalization true t sp with
         | .ok o => maybe_add_batch_dim false o sp.shape
         | .error e => .error e)
       else maybe_add_batch_dim false t sp.shape) := by
  have hl : (sp.shape.length == 0) = false := by
    cases h : sp.shape with
    | nil => exact absurd h hp
    | cons a r => simp
  unfold preprocess_observation_Box
  have em : ∀ (x : M (T X)), (match x with | .error err => (.error err : M (T X)) | .ok v => .ok v) = x := by
    intro x; cases x <;> rfl
  by_cases h3 : sp.shape.length = 3 <;> cases norm <;>
    simp [h3, hl, bind, Except.bind, pure, Except.pure, em]
  all_goals first
    | (generalize maybe_add_batch_dim false t sp.shape = x; cases x <;> rfl)
    | (cases apply_image_normalization true t sp with
       | error e => rfl
       | ok o => (simp only []; generalize maybe_add_batch_dim false o sp.shape = x; cases x <;> rfl))

end ObsValGenEq
