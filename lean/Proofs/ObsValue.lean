import Mathlib.Tactic.Linarith
import Mathlib.Algebra.Order.Field.Basic
import Mathlib.Algebra.Order.Field.Rat
import Proofs.ObsPrep

/-! C15: values — one-hot vectors, MultiDiscrete segments, min-max scaling. -/
namespace Obs

theorem oneHotVec_length (n v : Nat) : (oneHotVec n v).length = n := by simp [oneHotVec]

theorem oneHotVec_getElem (n v i : Nat) (h : i < (oneHotVec n v).length) :
    (oneHotVec n v)[i] = if i = v then 1 else 0 := by
  simp [oneHotVec]

theorem oneHotVec_sum : ∀ (n v : Nat), v < n → (oneHotVec n v).sum = 1 := by
  intro n
  induction n with
  | zero => intro v h; omega
  | succ m ih =>
    intro v h
    unfold oneHotVec at ih ⊢
    rw [List.range_succ, List.map_append, List.sum_append]
    by_cases hv : v = m
    · subst hv
      have : (List.map (fun i => if i = v then (1 : Rat) else 0) (List.range v)) =
          List.map (fun _ => (0 : Rat)) (List.range v) := by
        apply List.map_congr_left
        intro i hi
        have : i < v := List.mem_range.mp hi
        rw [if_neg (by omega)]
      rw [this]
      have z : ∀ k, (List.map (fun _ => (0 : Rat)) (List.range k)).sum = 0 := by
        intro k; induction k with
        | zero => rfl
        | succ j ihj => rw [List.range_succ, List.map_append, List.sum_append, ihj]; simp
      rw [z]; simp
    · rw [ih v (by omega)]
      simp [Ne.symm hv]

theorem toLong_intCast (v : Int) : toLong (v : Rat) = v := by
  simp [toLong]

theorem drop_add_append {α} (a b : List α) (n k : Nat) (h : a.length = n) :
    (a ++ b).drop (n + k) = b.drop k := by
  subst h; rw [List.drop_append]; simp

/-- segment `i` of a MultiDiscrete row is the one-hot of component `i` -/
theorem md_segment : ∀ (nv : List Nat) (r : List Rat), InRange nv r → ∀ (i : Nat) (hi : i < nv.length)
    (hr : i < r.length),
    ((prepRow false (.multiDiscrete nv) r).drop (mdOffset nv i)).take nv[i] =
      oneHotVec nv[i] (toLong r[i]).toNat
  | [], _, _, i, hi, _ => by simp at hi
  | _ :: _, [], h, _, _, _ => h.elim
  | n :: ns, q :: qs, h, 0, _, _ => by
    simp [prepRow, mdOffset, oneHotVec_length]
  | n :: ns, q :: qs, h, i + 1, hi, hr => by
    have ih := md_segment ns qs h.2 i (by simpa using hi) (by simpa using hr)
    simp only [prepRow, List.zipWith_cons_cons, List.flatten_cons, mdOffset, List.take_succ_cons,
      List.sum_cons, List.getElem_cons_succ] at ih ⊢
    rw [drop_add_append _ _ n _ (oneHotVec_length _ _)]
    exact ih

/-! ### min-max scaling -/

theorem normalize_bounds (lo hi x : Rat) (h : lo < hi) (h1 : lo ≤ x) (h2 : x ≤ hi) :
    0 ≤ normalize lo hi x ∧ normalize lo hi x ≤ 1 := by
  unfold normalize
  have hd : 0 < hi - lo := by linarith
  constructor
  · exact div_nonneg (by linarith) (le_of_lt hd)
  · rw [div_le_one hd]; linarith

theorem normalize_lo (lo hi : Rat) : normalize lo hi lo = 0 := by simp [normalize]

theorem normalize_hi (lo hi : Rat) (h : lo < hi) : normalize lo hi hi = 1 := by
  unfold normalize
  exact div_self (by linarith)

theorem normalize_zero_one (x : Rat) : normalize 0 1 x = x := by simp [normalize]

theorem normalize_strictMono (lo hi x y : Rat) (h : lo < hi) (hxy : x < y) :
    normalize lo hi x < normalize lo hi y := by
  unfold normalize
  exact div_lt_div_of_pos_right (by linarith) (by linarith)

theorem normRow_length (l h r : List Rat) (hl : l.length = r.length) (hh : h.length = r.length) :
    (normRow l h r).length = r.length := by
  simp [normRow, hl, hh]

theorem normRow_getElem (l h r : List Rat) (i : Nat) (hi : i < (normRow l h r).length)
    (h1 : i < l.length) (h2 : i < h.length) (h3 : i < r.length) :
    (normRow l h r)[i] = normalize l[i] h[i] r[i] := by
  simp [normRow]

theorem zipOneHot_length : ∀ (nv : List Nat) (r : List Rat), InRange nv r →
    ((List.zipWith (fun n q => oneHotVec n (toLong q).toNat) nv r).flatten).length = nv.sum
  | [], [], _ => rfl
  | n :: ns, q :: qs, h => by
    simp [oneHotVec_length, zipOneHot_length ns qs h.2]
  | [], _ :: _, h => h.elim
  | _ :: _, [], h => h.elim

theorem numel_netShape_box (p : List Nat) (lo hi : List (Option Rat)) :
    numel (Leaf.netShape (.box p lo hi)) = numel p := by
  cases p <;> simp [Leaf.netShape, numel]

theorem netShape_box_cons (d : Nat) (ps : List Nat) (lo hi : List (Option Rat)) :
    Leaf.netShape (.box (d :: ps) lo hi) = d :: ps := rfl

/-- what one observation becomes has exactly the network's input size -/
theorem prepRow_length (norm : Bool) (sp : Leaf) (hsp : WellFormed sp) (r : List Rat)
    (hv : ValidObs sp r) : (prepRow norm sp r).length = numel sp.netShape := by
  cases sp with
  | box p lo hi =>
    obtain ⟨_, hlo, hhi⟩ := hsp
    have hr : r.length = numel p := hv
    rw [numel_netShape_box]
    simp only [prepRow]
    split
    · unfold normData
      cases hl : allOk lo with
      | none => simpa using hr
      | some l =>
        cases hh : allOk hi with
        | none => simpa using hr
        | some h =>
          have el : l.length = numel p := by
            have := congrArg List.length (allOk_eq_some lo l hl); simp at this; omega
          have eh : h.length = numel p := by
            have := congrArg List.length (allOk_eq_some hi h hh); simp at this; omega
          simp only []
          rw [normRow_length l h r (by omega) (by omega)]; exact hr
    · exact hr
  | discrete n =>
    obtain ⟨q, rfl, _⟩ := hv
    simp [prepRow, Leaf.netShape, numel, oneHotVec_length]
  | multiDiscrete nv =>
    simp only [prepRow, Leaf.netShape, numel, Nat.mul_one]
    exact zipOneHot_length nv r hv
  | multiBinary n =>
    have : r.length = n := hv
    simp [prepRow, Leaf.netShape, numel, this]

end Obs
