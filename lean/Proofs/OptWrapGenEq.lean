import Gen.OptWrapGen
import Model.Coherence

/-!
  Proofs/OptWrapGenEq.lean — the definitions GENERATED from `agilerl/algorithms/core/wrappers.py` (Gen/OptWrapGen.lean: the
  constructor of `OptimizerWrapper`, `init_from_single` / `init_from_multiple`, the name inference, `state_dict` /
  `load_state_dict`, over dynamic Python values) are the `wrap*` functions of `Model/Coherence.lean`.

  `eArg / eLr / eNames / eContainer / eFrame` embed the model's typed arguments into `Val`; `dWrapper` reads a wrapper
  object back by attribute NAME.  Equalities, for EVERY number of networks, every parameter list, every lr object and
  every `optimizer_kwargs` that sets neither `params` nor `lr` (`KwOK`):
    * `gen_init_from_single`, `gen_init_from_multiple` (one group / one group per network, in order);
    * `gen_init_single_eq` (a module), `gen_init_joint_eq` (a list of n > 1 modules with n names, one optimizer),
      `gen_init_multi_eq` (multi-agent: one optimizer per module), `gen_init_given_rejects` — the constructor as
      `reinit_opt` / `clone` / checkpoint loading call it (names passed);
    * `gen_infer_parent_container`, `gen_infer_network_attr_names`, `gen_infer_lr_name` — the scans used when names are
      not passed;
    * `gen_state_dict_roundtrip_single`, `dGroup_unpack` (loading never changes the parameter objects of a group).
  Not proved: the composition `__init__` ∘ inference (names not passed) as one equality, the degenerate non-multi call
  with several networks but one name, the multi-agent round trip; `__getitem__`, `__iter__`, `zero_grad`, `step` are
  translated but have no model counterpart.
-/

set_option linter.unusedSimpArgs false
set_option linter.unusedVariables false

namespace OptWrapGenEq
open Coherence OptWrapGen

/-! ### embedding of the model's typed arguments -/

def eNet (n : WNet) : Val := .module n.id n.cells
def eArg : WArg → Val
  | .one n => eNet n
  | .many i ns => .list i (ns.map eNet)
def eLr (l : WLr) : Val := .float l.id l.val
def eNames : Option (List String) → Val
  | none => .none
  | some ns => .list 0 (ns.map .str)
def eStr : Option String → Val
  | none => .none
  | some s => .str s
def eContainer (c : List (String × Nat)) : Val := .record (c.map fun p => (p.1, .obj p.2))
/-- the frame `inspect.currentframe()` answers inside `_infer_parent_container`: two frames up is the algorithm's
    `__init__`, whose `self` is the parent container -/
def eFrame (c : List (String × Nat)) : Val :=
  .record [("f_back", .record [("f_back", .record [("f_locals", .dict [("self", eContainer c)])])])]

/-- `optimizer_kwargs`: `None` or a dict that sets neither `params` nor `lr` -/
def KwOK (kw : List (String × Val)) : Prop := look kw "params" = none ∧ look kw "lr" = none
def eKw : Option (List (String × Val)) → Val
  | none => .none
  | some kw => .dict kw
def kwOf : Option (List (String × Val)) → List (String × Val)
  | none => []
  | some kw => kw

/-! ### decoding of the generated wrapper -/

def dGroup : Val → Option WGroup
  | .dict kv =>
    match look kv "params", look kv "lr" with
    | some (.params cells), some (.float i v) => some { cells := cells, lr := { id := i, val := v } }
    | _, _ => none
  | _ => none

def optAll {α : Type} : List (Option α) → Option (List α)
  | [] => some []
  | some x :: r => (optAll r).map (x :: ·)
  | none :: _ => none

def dTorch : Val → Option (Nat × List WGroup)
  | .optimizer c gs _ => (optAll (gs.map dGroup)).map fun g => (c, g)
  | _ => none

def dOptim : Val → Option WOptim
  | .optimizer c gs _ => (optAll (gs.map dGroup)).map (.single c)
  | .list _ os => (optAll (os.map dTorch)).map .multi
  | _ => none

def dStr : Val → Option String
  | .str s => some s
  | _ => none

def dNames : Val → Option (List String)
  | .list _ xs => optAll (xs.map dStr)
  | _ => none

/-- what the model keeps of a wrapper object, read by attribute NAME (the order of the assignments in `__init__` does
    not matter) -/
def dWrapper : Val → Option Wrapper
  | .record fs =>
    match getField fs "multiagent", getField fs "network_names", getField fs "lr_name", getField fs "lr",
          getField fs "optimizer" with
    | some (.bool m), some ns, some (.str l), some (.float i v), some o =>
      match dNames ns, dOptim o with
      | some ns, some o => some { multi := m, names := ns, lrName := l, lr := { id := i, val := v }, optim := o }
      | _, _ => none
    | _, _, _, _, _ => none
  | _ => none

def ok? {α : Type} : M α → Option α
  | .ok a => some a
  | .error _ => none

/-! ### records and dicts -/

theorem getField_setField (fs : List (String × Val)) (k k' : String) (v : Val) :
    getField (setField fs k v) k' = if k = k' then some v else getField fs k' := by
  induction fs with
  | nil => simp [setField, getField]
  | cons p r ih =>
    obtain ⟨a, w⟩ := p
    by_cases hak : a = k
    · subst hak
      by_cases h2 : a = k' <;> simp [setField, getField, h2]
    · by_cases h2 : a = k'
      · subst h2
        have : ¬ k = a := fun h => hak h.symm
        simp [setField, getField, hak, this]
      · simp [setField, getField, hak, h2, ih]

theorem setField_setField (fs : List (String × Val)) (k : String) (v w : Val) :
    setField (setField fs k v) k w = setField fs k w := by
  induction fs with
  | nil => simp [setField]
  | cons p r ih =>
    obtain ⟨a, x⟩ := p
    by_cases h : a = k <;> simp [setField, h, ih]

theorem foldM'_enum {σ τ : Type} (emb : τ → σ) (f : σ → Val → M σ) (g : τ → WNet → τ)
    (hstep : ∀ (t : τ) (k : Nat) (n : WNet), f (emb t) (.tuple [.int k, eNet n]) = .ok (emb (g t n)))
    (ns : List WNet) (t : τ) (k : Nat) :
    foldM' f (emb t) (enumFrom k (ns.map eNet)) = .ok (emb (ns.foldl g t)) := by
  induction ns generalizing t k with
  | nil => rfl
  | cons n r ih =>
    simp only [List.map_cons, enumFrom, foldM', hstep, bind, Except.bind, List.foldl_cons]
    exact ih (g t n) (k + 1)

theorem foldl_snoc {α β : Type} (h : α → β) (l : List α) (acc : List β) :
    l.foldl (fun acc n => acc ++ [h n]) acc = acc ++ l.map h := by
  induction l generalizing acc with
  | nil => simp
  | cons x r ih => simp [ih]

theorem look_append (a b : List (String × Val)) (k : String) :
    look (a ++ b) k = match look b k with | some w => some w | none => look a k := by
  induction a with
  | nil => simp [look]; cases look b k <;> rfl
  | cons p r ih =>
    obtain ⟨k', v⟩ := p
    simp only [List.cons_append, look, ih]
    cases look b k <;> simp

theorem optAll_map_some {α β : Type} (l : List α) (f : α → Option β) (g : α → β) (h : ∀ x ∈ l, f x = some (g x)) :
    optAll (l.map f) = some (l.map g) := by
  induction l with
  | nil => rfl
  | cons x r ih =>
    simp only [List.map_cons, h x (by simp), optAll]
    rw [ih (fun y hy => h y (by simp [hy]))]
    rfl

/-! ### the two module-level functions -/

/-- the group torch builds for network `n` in `init_from_multiple` -/
def mGroup (lr : WLr) (kw : List (String × Val)) (n : WNet) : Val :=
  .dict ([("params", .params n.cells)] ++ [("lr", eLr lr)] ++ kw)

theorem dGroup_mGroup (lr : WLr) (kw : List (String × Val)) (hk : KwOK kw) (n : WNet) :
    dGroup (mGroup lr kw n) = some { cells := n.cells, lr := lr } := by
  simp [dGroup, mGroup, look_append, hk.1, hk.2, look, eLr]

theorem multiple_loop (lr : WLr) (kw : List (String × Val)) (ns : List WNet) (acc : List Val) (k : Nat) :
    foldM' (fun v_opt_args it1 => do
      let (v_i, v_net) ← pyUnpack2 it1
      let v_kwargs := (← (if pyTruthy (Val.bool (pyIsinstance (Val.dict kw) "list")) then (do pure (← pyGetItem (Val.dict kw) v_i)) else (do pure (Val.dict kw))))
      let v_opt_args := (← pyAppend v_opt_args (Val.dict ([("params", (← pyCallMethod v_net "parameters" []))] ++ [("lr", eLr lr)] ++ (← pyDictItems v_kwargs))))
      pure v_opt_args) (Val.list 0 acc) (enumFrom k (ns.map eNet))
      = .ok (Val.list 0 (acc ++ ns.map (mGroup lr kw))) := by
  rw [← foldl_snoc]
  apply foldM'_enum (fun acc => Val.list 0 acc)
  intro t k n
  simp [pyUnpack2, pyIsinstance, pyTruthy, eNet, pyCallMethod, pyDictItems, pyAppend, bind, Except.bind, pure, Except.pure, mGroup]

theorem torch_groups (lr : WLr) (kw : List (String × Val)) (hk : KwOK kw) (ns : List WNet) :
    mapM' (torchGroup []) (ns.map (mGroup lr kw)) = .ok (ns.map (mGroup lr kw)) := by
  induction ns with
  | nil => rfl
  | cons n r ih =>
    simp only [List.map_cons, mapM', ih, bind, Except.bind, pure, Except.pure]
    simp [torchGroup, mGroup, look_append, hk.1, look, pure, Except.pure]

theorem gen_init_from_multiple (c i : Nat) (lr : WLr) (kw : List (String × Val)) (hk : KwOK kw) (ns : List WNet) :
    init_from_multiple (.list i (ns.map eNet)) (.cls c) (eLr lr) (.dict kw)
      = .ok (.optimizer c (ns.map (mGroup lr kw)) (.dict [])) := by
  unfold init_from_multiple
  simp only [pyEnumerate, pyIter, bind, Except.bind, pure, Except.pure]
  have := multiple_loop lr kw ns [] 0
  simp only [bind, Except.bind, pure, Except.pure, List.nil_append] at this
  rw [this]
  simp only [pyCall, torch_groups lr kw hk ns, bind, Except.bind, pure, Except.pure]

/-- the group torch builds in `init_from_single` -/
def sGroup (lr : WLr) (kw : List (String × Val)) (n : WNet) : Val :=
  .dict ([("lr", eLr lr)] ++ kw ++ [("params", .params n.cells)])

theorem dGroup_sGroup (lr : WLr) (kw : List (String × Val)) (hk : KwOK kw) (n : WNet) :
    dGroup (sGroup lr kw n) = some { cells := n.cells, lr := lr } := by
  simp [dGroup, sGroup, look_append, hk.1, hk.2, look, eLr]

theorem gen_init_from_single (c : Nat) (lr : WLr) (kw : List (String × Val)) (n : WNet) :
    init_from_single (eNet n) (.cls c) (eLr lr) (.dict kw) = .ok (.optimizer c [sGroup lr kw n] (.dict [])) := by
  simp [init_from_single, eNet, pyCallMethod, pyDictItems, pyCall, sGroup, bind, Except.bind, pure, Except.pure]

theorem beq_cast (a b : Nat) : ((a : Int) == (b : Int)) = (a == b) := by
  by_cases h : a = b
  · subst h; rw [beq_self_eq_true, beq_self_eq_true]
  · have : (a : Int) ≠ b := by omega
    have h1 : ((a : Int) == (b : Int)) = false := beq_eq_false_iff_ne.mpr this
    have h2 : (a == b) = false := beq_eq_false_iff_ne.mpr h
    rw [h1, h2]

theorem ite_ok {α : Type} (c : Prop) [Decidable c] (a b : α) :
    (if c then (Except.ok a : M α) else Except.ok b) = Except.ok (if c then a else b) := by
  split <;> rfl

theorem gen_init_from_single_raw' (c i : Nat) (cells : List Nat) (lr : WLr) (kw : List (String × Val)) :
    init_from_single (.module i cells) (.cls c) (.float lr.id lr.val) (.dict kw) = .ok (.optimizer c [sGroup lr kw ⟨i, cells⟩] (.dict [])) :=
  gen_init_from_single c lr kw ⟨i, cells⟩

theorem gen_init_from_single_raw (c i : Nat) (cells : List Nat) (lr : WLr) (kw : List (String × Val)) :
    init_from_single (.module i cells) (.cls c) (eLr lr) (.dict kw) = .ok (.optimizer c [sGroup lr kw ⟨i, cells⟩] (.dict [])) :=
  gen_init_from_single c lr kw ⟨i, cells⟩

/-! ### name inference -/

theorem filterMapM'_map_ok {α β : Type} (f : Val → M (Option β)) (e : α → Val) (g : α → Option β)
    (h : ∀ a, f (e a) = .ok (g a)) (l : List α) : filterMapM' f (l.map e) = .ok (l.filterMap g) := by
  induction l with
  | nil => rfl
  | cons x r ih =>
    simp only [List.map_cons, filterMapM', h, ih, bind, Except.bind, pure, Except.pure, List.filterMap_cons]
    cases g x <;> rfl

theorem anyM'_map_ok {α : Type} (f : Val → M Bool) (e : α → Val) (g : α → Bool)
    (h : ∀ a, f (e a) = .ok (g a)) (l : List α) : anyM' f (l.map e) = .ok (l.any g) := by
  induction l with
  | nil => rfl
  | cons x r ih =>
    simp only [List.map_cons, anyM', h, ih, bind, Except.bind, pure, Except.pure, List.any_cons]
    cases g x <;> simp

theorem allM'_map_ok {α : Type} (f : Val → M Bool) (e : α → Val) (g : α → Bool)
    (h : ∀ a, f (e a) = .ok (g a)) (l : List α) : allM' f (l.map e) = .ok (l.all g) := by
  induction l with
  | nil => rfl
  | cons x r ih =>
    simp only [List.map_cons, allM', h, ih, bind, Except.bind, pure, Except.pure, List.all_cons]
    cases g x <;> simp

theorem filterMap_names (c : List (String × Nat)) (P : String × Nat → Bool) :
    c.filterMap (fun p => if P p then some (Val.str p.1) else none) = ((c.filter P).map (·.1)).map Val.str := by
  induction c with
  | nil => rfl
  | cons p r ih => by_cases h : P p = true <;> simp [List.filterMap_cons, List.filter_cons, h, ih]

/-- `self.networks` -/
def eSelfNets (arg : WArg) : Val := .list arg.listId (arg.nets.map eNet)

def eEntry (p : String × Nat) : Val := .tuple [.str p.1, .obj p.2]

theorem varsItems_container (c : List (String × Nat)) : pyVarsItems (eContainer c) = .ok (c.map eEntry) := by
  simp [pyVarsItems, eContainer, eEntry, pure, Except.pure, List.map_map, Function.comp_def]

theorem gen_infer_network_attr_names (fs : List (String × Val)) (m : Bool) (arg : WArg) (c : List (String × Nat))
    (hm : getField fs "multiagent" = some (.bool m)) (hn : getField fs "networks" = some (eSelfNets arg)) :
    OptimizerWrapper._infer_network_attr_names (.record fs) (eContainer c)
      = .ok (.list 0 ((inferNames m c arg).map .str)) := by
  unfold OptimizerWrapper._infer_network_attr_names inferNames
  simp only [varsItems_container, bind, Except.bind]
  rw [← filterMap_names]
  rw [filterMapM'_map_ok _ eEntry (fun p => if (if m then p.2 == arg.listId else arg.nets.any (fun n => p.2 == n.id)) then some (Val.str p.1) else none)]
  · rfl
  · intro p
    cases m
    · simp only [eEntry, pyUnpack2, pyGetAttr, hm, hn, pyTruthy, bind, Except.bind, pure, Except.pure, Bool.not_false, if_true,
        eSelfNets, pyIter]
      rw [anyM'_map_ok _ eNet (fun n => p.2 == n.id)]
      · simp [ite_ok]
      · intro n
        simp [pyEq, pyId, eNet, pyTruthy, pure, Except.pure, beq_cast]
    · simp [eEntry, pyUnpack2, pyGetAttr, hm, hn, pyTruthy, bind, Except.bind, pure, Except.pure, eSelfNets, pyEq, pyId, ite_ok,
        beq_cast]

theorem isInfixC_eq (p l : List Char) : isInfixC p l = isInfixChars p l := by
  induction l with
  | nil => simp [isInfixC, isInfixChars]
  | cons c cs ih => simp [isInfixC, isInfixChars, ih]

theorem foldM'_find {α : Type} (F : Option Val × Unit → Val → M (Option Val × Unit)) (e : α → Val) (p : α → Bool)
    (hs : ∀ r x, F (some r, ()) x = .ok (some r, ()))
    (hn : ∀ a, F (none, ()) (e a) = .ok (if p a then some (e a) else none, ())) (l : List α) :
    foldM' F (none, ()) (l.map e) = .ok ((l.find? p).map e, ()) := by
  induction l with
  | nil => rfl
  | cons x r ih =>
    simp only [List.map_cons, foldM', hn, bind, Except.bind, List.find?_cons]
    cases hp : p x
    · simpa using ih
    · simp only [if_true, Option.map_some]
      clear ih hp
      induction r with
      | nil => rfl
      | cons y r ih2 => simp only [List.map_cons, foldM', hs, bind, Except.bind]; exact ih2

theorem gen_infer_lr_name (fs : List (String × Val)) (lr : WLr) (c : List (String × Nat))
    (hl : getField fs "lr" = some (eLr lr)) :
    ok? (OptimizerWrapper._infer_lr_name (.record fs) (eContainer c)) = (inferLr c lr).map .str := by
  unfold OptimizerWrapper._infer_lr_name inferLr lrMatches
  simp only [varsItems_container, bind, Except.bind]
  rw [filterMapM'_map_ok _ eEntry (fun p => if (lr.id != 0 && lr.id == p.2) then some (Val.str p.1) else none)]
  · rw [filterMap_names]
    generalize ((c.filter fun p => lr.id != 0 && lr.id == p.2).map (·.1)) = ms
    match ms with
    | [] => simp [pyLen, pyEq, pyGt, pyTruthy, pure, Except.pure, ok?, throw, throwThe, MonadExceptOf.throw]
    | [m] => simp [pyLen, pyEq, pyGt, pyTruthy, pure, Except.pure, ok?, pyGetItem]
    | m1 :: m2 :: r =>
      have h1 : (((r.length + 1 + 1 : Nat) : Int) == 1) = false := by
        have : ((r.length + 1 + 1 : Nat) : Int) ≠ 1 := by omega
        simpa using this
      have h2 : decide (((r.length + 1 + 1 : Nat) : Int) > 1) = true := by
        have : ((r.length + 1 + 1 : Nat) : Int) > 1 := by omega
        simpa using this
      simp only [pyLen, pyEq, pyGt, pyTruthy, pure, Except.pure, List.length_map, List.length_cons, h1, h2, Bool.false_eq_true,
        if_false, if_true, pyIter]
      rw [foldM'_find _ Val.str lrish]
      · cases (m1 :: m2 :: r).find? lrish <;> simp [ok?, throw, throwThe, MonadExceptOf.throw, pure, Except.pure]
      · intro r x; rfl
      · intro a
        simp only [pyCallMethod, pyIn, pyTruthy, bind, Except.bind, pure, Except.pure, isInfixC_eq]
        unfold lrish
        cases isInfixChars "lr".toList (String.ofList (a.toList.map Char.toLower)).toList <;> simp <;> split <;> simp_all
  · intro p
    simp [eEntry, pyUnpack2, pyGetAttr, hl, pyTruthy, bind, Except.bind, pure, Except.pure, pyIs, eLr, pyId, ite_ok]

theorem gen_infer_parent_container (self : Val) (c : List (String × Nat)) :
    OptimizerWrapper._infer_parent_container self (eFrame c) = .ok (eContainer c) := by
  simp [OptimizerWrapper._infer_parent_container, eFrame, pyGetAttr, getField, pyGetItem, look, bind, Except.bind, pure, Except.pure]

/-! ### the constructor -/

theorem all_modules (ns : List WNet) :
    allM' (fun it1 => do let v_net := it1; pure (pyTruthy (Val.bool (pyIsinstance v_net "nn.Module")))) (ns.map eNet) = .ok true := by
  rw [allM'_map_ok _ eNet (fun _ => true)]
  · simp
  · intro n; rfl

/-- the multi-agent loop of `__init__`: one `init_from_single` per network, appended to `self.optimizer` -/
theorem multi_loop (fs : List (String × Val)) (c : Nat) (lr : WLr) (kw : List (String × Val)) (kwarg : Val)
    (hk : getField fs "optimizer_kwargs" = some (.dict kw)) (hl : getField fs "lr" = some (eLr lr))
    (ns : List WNet) (acc : List Val) (k : Nat) :
    foldM' (fun self it3 => do
          let (v_i, v_net) ← pyUnpack2 it3
          let v_optimizer := (← (if pyTruthy (Val.bool (pyIsinstance (Val.cls c) "list")) then (do pure (← pyGetItem (Val.cls c) v_i)) else (do pure (Val.cls c))))
          let v_kwargs := (← (if pyTruthy (Val.bool (pyIsinstance (← pyGetAttr self "optimizer_kwargs") "list")) then (do pure (← pyGetItem kwarg v_i)) else (do pure (← pyGetAttr self "optimizer_kwargs"))))
          let self ← (if pyTruthy (Val.bool (pyIsinstance v_net "list")) then (do
              let self ← pySetAttr self "optimizer" (← pyAppend (← pyGetAttr self "optimizer") (← init_from_multiple v_net v_optimizer (← pyGetAttr self "lr") v_kwargs))
              pure self
            ) else (do
              let self ← pySetAttr self "optimizer" (← pyAppend (← pyGetAttr self "optimizer") (← init_from_single v_net v_optimizer (← pyGetAttr self "lr") v_kwargs))
              pure self
            ))
          pure self
        ) (Val.record (setField fs "optimizer" (Val.list 0 acc))) (enumFrom k (ns.map eNet))
      = .ok (Val.record (setField fs "optimizer" (Val.list 0 (acc ++ ns.map fun n => .optimizer c [sGroup lr kw n] (.dict []))))) := by
  rw [← foldl_snoc]
  apply foldM'_enum (fun acc => Val.record (setField fs "optimizer" (Val.list 0 acc)))
  intro t k n
  simp [pyUnpack2, pyIsinstance, pyTruthy, pyGetAttr, pySetAttr, getField_setField, setField_setField, hk, hl, eNet, bind,
    Except.bind, pure, Except.pure, pyAppend, gen_init_from_single_raw]

theorem allM'_modules (f : Val → M Bool) (ns : List WNet) (h : ∀ n : WNet, f (.module n.id n.cells) = .ok true) :
    allM' f (ns.map eNet) = .ok true := by
  rw [allM'_map_ok f eNet (fun _ => true) h]
  simp

theorem gen_init_from_multiple_raw (c i : Nat) (lr : WLr) (kw : List (String × Val)) (hk : KwOK kw) (ns : List WNet) :
    init_from_multiple (.list i (ns.map eNet)) (.cls c) (.float lr.id lr.val) (.dict kw)
      = .ok (.optimizer c (ns.map (mGroup lr kw)) (.dict [])) := gen_init_from_multiple c i lr kw hk ns

theorem dGroups_m (lr : WLr) (kw : List (String × Val)) (hk : KwOK kw) (ns : List WNet) :
    optAll ((ns.map (mGroup lr kw)).map dGroup) = some (ns.map fun n => { cells := n.cells, lr := lr }) := by
  rw [List.map_map]
  exact optAll_map_some ns _ _ (fun n _ => dGroup_mGroup lr kw hk n)

theorem dTorch_s (c : Nat) (lr : WLr) (kw : List (String × Val)) (hk : KwOK kw) (ns : List WNet) :
    optAll ((ns.map fun n => Val.optimizer c [sGroup lr kw n] (.dict [])).map dTorch)
      = some (ns.map fun n => (c, [{ cells := n.cells, lr := lr }])) := by
  rw [List.map_map]
  exact optAll_map_some ns _ _ (fun n _ => by simp [dTorch, optAll, dGroup_sGroup lr kw hk n])

theorem dNames_str (ns : List String) : optAll ((ns.map Val.str).map dStr) = some ns := by
  rw [List.map_map]
  have := optAll_map_some ns (dStr ∘ Val.str) id (fun n _ => rfl)
  simpa using this

theorem dNames_str' (ns : List String) : optAll (List.map (dStr ∘ Val.str) ns) = some ns := by
  have := dNames_str ns
  rwa [List.map_map] at this

theorem dGroups_m' (lr : WLr) (kw : List (String × Val)) (hk : KwOK kw) (ns : List WNet) :
    optAll (List.map (dGroup ∘ mGroup lr kw) ns) = some (ns.map fun n => { cells := n.cells, lr := lr }) := by
  have := dGroups_m lr kw hk ns
  rwa [List.map_map] at this

theorem dTorch_s' (c : Nat) (lr : WLr) (kw : List (String × Val)) (hk : KwOK kw) (ns : List WNet) :
    optAll (List.map (dTorch ∘ fun n => Val.optimizer c [sGroup lr kw n] (.dict [])) ns)
      = some (ns.map fun n => (c, [{ cells := n.cells, lr := lr }])) := by
  have := dTorch_s c lr kw hk ns
  rwa [List.map_map] at this

/-- the constructor raises when `network_names` is passed without `lr_name`, or is empty -/
theorem gen_init_given_rejects (multi : Bool) (cls : Nat) (arg : WArg) (lr : WLr) (kw : Option (List (String × Val)))
    (ns : List String) (lrName : Option String) (frame : Val) (h : lrName = none ∨ ns = []) :
    (ok? (OptimizerWrapper.init (.record []) (.cls cls) (eArg arg) (eLr lr) (eKw kw) (eNames (some ns)) (eStr lrName)
        (.bool multi) frame)).bind dWrapper = none ∧ wrapInit multi cls arg lr (some ns) lrName [] = none := by
  unfold OptimizerWrapper.init
  rcases h with h | h
  · subst h
    cases kw <;> cases arg <;>
    simp [pySetAttr, pyGetAttr, setField, getField, pyIsinstance, pyTruthy, pyIsNone, eArg, eNet, eLr, eNames, eStr, eKw, kwOf, bind, Except.bind, pure, Except.pure, ok?, wrapInit, throw, throwThe, MonadExceptOf.throw, pyIter, pyLen, pyGt, pyEq, pyGetItem, gen_init_from_single_raw', getField_setField, setField_setField]
    all_goals (rw [allM'_modules _ _ (fun n => rfl)]; simp [pyTruthy])
  · subst h
    cases lrName <;> cases kw <;> cases multi <;> cases arg <;>
    simp [pySetAttr, pyGetAttr, setField, getField, pyIsinstance, pyTruthy, pyIsNone, eArg, eNet, eLr, eNames, eStr, eKw, kwOf, bind, Except.bind, pure, Except.pure, ok?, wrapInit, throw, throwThe, MonadExceptOf.throw, pyIter, pyLen, pyGt, pyEq, pyGetItem, gen_init_from_single_raw', getField_setField, setField_setField]
    all_goals (rw [allM'_modules _ _ (fun n => rfl)]; simp [pySetAttr, pyGetAttr, setField, getField, pyIsinstance, pyTruthy, pyIsNone, eArg, eNet, eLr, eNames, eStr, eKw, kwOf, bind, Except.bind, pure, Except.pure, ok?, wrapInit, throw, throwThe, MonadExceptOf.throw, pyIter, pyLen, pyGt, pyEq, pyGetItem, gen_init_from_single_raw', getField_setField, setField_setField])

/-- **single network** (`networks=<module>`, any number of names ≥ 1): one optimizer, one group holding exactly the
    module's parameters in order, with the given lr -/
theorem gen_init_single_eq (cls : Nat) (n : WNet) (lr : WLr) (kw : Option (List (String × Val))) (hk : KwOK (kwOf kw))
    (ns : List String) (l : String) (frame : Val) :
    (ok? (OptimizerWrapper.init (.record []) (.cls cls) (eArg (.one n)) (eLr lr) (eKw kw) (eNames (some ns)) (eStr (some l))
        (.bool false) frame)).bind dWrapper = wrapInit false cls (.one n) lr (some ns) (some l) [] := by
  by_cases hns : ns = []
  · subst hns
    have := gen_init_given_rejects false cls (.one n) lr kw [] (some l) frame (Or.inr rfl)
    rw [this.1, this.2]
  unfold OptimizerWrapper.init
  cases kw <;> simp [pySetAttr, pyGetAttr, setField, getField, pyIsinstance, pyTruthy, pyIsNone, eArg, eNet, eLr, eNames, eStr, eKw, kwOf, bind, Except.bind, pure, Except.pure, ok?, wrapInit, throw, throwThe, MonadExceptOf.throw, pyIter, pyLen, pyGt, pyEq, pyGetItem, gen_init_from_single_raw', getField_setField, setField_setField, hns]
  · simp [dWrapper, getField, dNames, dNames_str, dNames_str', dOptim, optAll, wrapOptim, WArg.nets, Option.bind, dGroup_sGroup lr [] hk n]
  · rename_i kw
    simp [dWrapper, getField, dNames, dNames_str, dNames_str', dOptim, optAll, wrapOptim, WArg.nets, Option.bind, dGroup_sGroup lr kw hk n]

/-- **one optimizer over several networks** (PPO: `networks=[actor, critic]` with as many names): one optimizer, one
    group PER network, in the order of the list, each with the given lr -/
theorem gen_init_joint_eq (cls i : Nat) (nets : List WNet) (lr : WLr) (kw : Option (List (String × Val))) (hk : KwOK (kwOf kw))
    (ns : List String) (l : String) (frame : Val) (h1 : 1 < nets.length) (h3 : nets.length = ns.length) :
    (ok? (OptimizerWrapper.init (.record []) (.cls cls) (eArg (.many i nets)) (eLr lr) (eKw kw) (eNames (some ns)) (eStr (some l))
        (.bool false) frame)).bind dWrapper = wrapInit false cls (.many i nets) lr (some ns) (some l) [] := by
  have hns : ns ≠ [] := by intro h; rw [h] at h3; simp at h3; rw [h3] at h1; simp at h1
  have h2 : 1 < ns.length := by omega
  have h1' : (1 : Int) < nets.length := by omega
  have h2' : (1 : Int) < ns.length := by omega
  have h3' : (nets.length : Int) = ns.length := by omega
  have key : ∀ kw : List (String × Val), KwOK kw →
      (ok? (OptimizerWrapper.init (.record []) (.cls cls) (eArg (.many i nets)) (eLr lr) (.dict kw) (eNames (some ns)) (eStr (some l))
        (.bool false) frame)).bind dWrapper = wrapInit false cls (.many i nets) lr (some ns) (some l) [] := by
    intro kw hk
    unfold OptimizerWrapper.init
    simp [pySetAttr, pyGetAttr, setField, getField, pyIsinstance, pyTruthy, pyIsNone, eArg, eNet, eLr, eNames, eStr, eKw, kwOf, bind, Except.bind, pure, Except.pure, ok?, wrapInit, throw, throwThe, MonadExceptOf.throw, pyIter, pyLen, pyGt, pyEq, pyGetItem, gen_init_from_single_raw', getField_setField, setField_setField, hns]
    rw [allM'_modules _ _ (fun n => rfl)]
    simp [pySetAttr, pyGetAttr, setField, getField, pyIsinstance, pyTruthy, pyIsNone, eArg, eNet, eLr, eNames, eStr, eKw, kwOf, bind, Except.bind, pure, Except.pure, ok?, wrapInit, throw, throwThe, MonadExceptOf.throw, pyIter, pyLen, pyGt, pyEq, pyGetItem, gen_init_from_single_raw', getField_setField, setField_setField, hns, h1, h2, h1', h2', h3, h3', gen_init_from_multiple_raw cls i lr kw hk nets, dWrapper, getField, dNames, dNames_str, dNames_str', dOptim, optAll, wrapOptim, WArg.nets, Option.bind, dGroups_m' lr kw hk nets]
  cases kw with
  | none =>
    have := key [] hk
    unfold OptimizerWrapper.init at this ⊢
    simpa [pySetAttr, pyGetAttr, setField, getField, pyIsinstance, pyTruthy, pyIsNone, eArg, eNet, eLr, eNames, eStr, eKw, kwOf, bind, Except.bind, pure, Except.pure, ok?, wrapInit, throw, throwThe, MonadExceptOf.throw, pyIter, pyLen, pyGt, pyEq, pyGetItem, gen_init_from_single_raw', getField_setField, setField_setField] using this
  | some kw => exact key kw hk

/-- **multi-agent** (`multiagent=True`, `networks=<list of modules>`): one optimizer PER network, in order, each with one
    group holding that network's parameters and the given lr — whatever the number of names -/
theorem gen_init_multi_eq (cls i : Nat) (nets : List WNet) (lr : WLr) (kw : Option (List (String × Val))) (hk : KwOK (kwOf kw))
    (ns : List String) (l : String) (frame : Val) (hne : nets ≠ []) :
    (ok? (OptimizerWrapper.init (.record []) (.cls cls) (eArg (.many i nets)) (eLr lr) (eKw kw) (eNames (some ns)) (eStr (some l))
        (.bool true) frame)).bind dWrapper = wrapInit true cls (.many i nets) lr (some ns) (some l) [] := by
  by_cases hns : ns = []
  · subst hns
    have := gen_init_given_rejects true cls (.many i nets) lr kw [] (some l) frame (Or.inr rfl)
    rw [this.1, this.2]
  have key : ∀ (kw : List (String × Val)) (kwarg : Val), KwOK kw → (kwarg = .none ∨ kwarg = .dict kw) →
      (if pyTruthy (Val.bool (!pyIsNone kwarg)) then (do pure kwarg) else (do pure (Val.dict ([]))) : M Val) = .ok (.dict kw) →
      (ok? (OptimizerWrapper.init (.record []) (.cls cls) (eArg (.many i nets)) (eLr lr) kwarg (eNames (some ns)) (eStr (some l))
        (.bool true) frame)).bind dWrapper = wrapInit true cls (.many i nets) lr (some ns) (some l) [] := by
    intro kw kwarg hk hkw hd
    unfold OptimizerWrapper.init
    simp only [hd, bind, Except.bind]
    simp [pySetAttr, pyGetAttr, setField, getField, pyIsinstance, pyTruthy, pyIsNone, eArg, eNet, eLr, eNames, eStr, eKw, kwOf, bind, Except.bind, pure, Except.pure, ok?, wrapInit, throw, throwThe, MonadExceptOf.throw, pyIter, pyLen, pyGt, pyEq, pyGetItem, gen_init_from_single_raw', getField_setField, setField_setField, hns]
    rw [allM'_modules _ _ (fun n => rfl)]
    obtain ⟨n, r, rfl⟩ : ∃ n r, nets = n :: r := by
      cases nets with
      | nil => exact absurd rfl hne
      | cons n r => exact ⟨n, r, rfl⟩
    simp [pySetAttr, pyGetAttr, setField, getField, pyIsinstance, pyTruthy, pyIsNone, eArg, eNet, eLr, eNames, eStr, eKw, kwOf, bind, Except.bind, pure, Except.pure, ok?, wrapInit, throw, throwThe, MonadExceptOf.throw, pyIter, pyLen, pyGt, pyEq, pyGetItem, gen_init_from_single_raw', getField_setField, setField_setField, hns, pyEnumerate]
    rw [show Val.module n.id n.cells :: List.map eNet r = List.map eNet (n :: r) from rfl]
    rw [foldM'_enum (fun acc => Val.record [("optimizer_cls", Val.cls cls), ("optimizer_kwargs", Val.dict kw),
        ("lr", Val.float lr.id lr.val), ("multiagent", Val.bool true), ("networks", Val.list i (List.map eNet (n :: r))),
        ("network_names", Val.list 0 (List.map Val.str ns)), ("lr_name", Val.str l), ("optimizer", Val.list 0 acc)]) _
        (fun acc m => acc ++ [Val.optimizer cls [sGroup lr kw m] (.dict [])]) ?_ (n :: r) [] 0]
    · rw [foldl_snoc]
      simp [dWrapper, getField, dNames, dNames_str, dNames_str', dOptim, optAll, wrapOptim, WArg.nets, Option.bind, dTorch_s' cls lr kw hk r, dTorch, dGroup_sGroup lr kw hk n]
    · intro t k m
      simp [pySetAttr, pyGetAttr, setField, getField, pyIsinstance, pyTruthy, pyIsNone, eArg, eNet, eLr, eNames, eStr, eKw, kwOf, bind, Except.bind, pure, Except.pure, ok?, wrapInit, throw, throwThe, MonadExceptOf.throw, pyIter, pyLen, pyGt, pyEq, pyGetItem, gen_init_from_single_raw', getField_setField, setField_setField, pyUnpack2, pyAppend]
  cases kw with
  | none => exact key [] .none hk (Or.inl rfl) rfl
  | some kw => exact key kw (.dict kw) hk (Or.inr rfl) rfl

/-! ### `state_dict` / `load_state_dict` -/

/-- loading NEVER changes which parameter objects a group holds; the lr becomes the saved one -/
theorem dGroup_unpack (own saved : Val) (g : WGroup) (i : Nat) (v : Rat) (kv : List (String × Val))
    (ho : dGroup own = some g) (hs : saved = .dict kv) (hl : look kv "lr" = some (.float i v)) :
    dGroup (unpackGroup own saved) = some { cells := g.cells, lr := { id := i, val := v } } := by
  subst hs
  cases own with
  | dict okv =>
    simp only [dGroup] at ho
    cases hp : look okv "params" with
    | none => simp [hp] at ho
    | some p =>
      cases p <;> simp [hp] at ho
      rename_i cells
      cases hlr : look okv "lr" with
      | none => simp [hlr] at ho
      | some q =>
        cases q <;> simp [hlr] at ho
        subst ho
        simp [unpackGroup, hp, dGroup, look_append, look, hl]
  | _ => simp [dGroup] at ho

theorem dGroup_pack_unpack (own : Val) (g : WGroup) (ho : dGroup own = some g) :
    dGroup (unpackGroup own (packGroup own)) = some g := by
  cases own with
  | dict okv =>
    have ho' := ho
    simp only [dGroup] at ho
    cases hp : look okv "params" with
    | none => simp [hp] at ho
    | some p =>
      cases p <;> simp [hp] at ho
      rename_i cells
      cases hlr : look okv "lr" with
      | none => simp [hlr] at ho
      | some q =>
        cases q <;> simp [hlr] at ho
        rename_i i v
        have := dGroup_unpack (.dict okv) (packGroup (.dict okv)) g i v (okv ++ [("params", .int cells.length)]) ho'
          (by simp [packGroup, hp]) (by simp [look_append, look, hlr])
        rw [this, ← ho]
  | _ => simp [dGroup] at ho

theorem zip_pack_unpack (gs : List Val) (ws : List WGroup) (h : optAll (gs.map dGroup) = some ws) :
    optAll ((List.zipWith unpackGroup gs (gs.map packGroup)).map dGroup) = some ws := by
  induction gs generalizing ws with
  | nil => simpa using h
  | cons g r ih =>
    simp only [List.map_cons, List.zipWith_cons_cons] at h ⊢
    cases hg : dGroup g with
    | none => simp [hg, optAll] at h
    | some w =>
      simp only [hg, optAll] at h
      cases hr : optAll (r.map dGroup) with
      | none => simp [hr] at h
      | some wr =>
        simp only [hr, Option.map_some] at h
        have h' : w :: wr = ws := by simpa using h
        rw [dGroup_pack_unpack g w hg]
        simp only [optAll, ih wr hr, Option.map_some, h']

/-- **round trip, single optimizer**: `w.load_state_dict(w.state_dict())` succeeds and leaves what the model keeps of
    the wrapper (groups, their parameter objects, their lrs) unchanged -/
theorem gen_state_dict_roundtrip_single (fs : List (String × Val)) (c : Nat) (gs : List Val) (st : Val)
    (hm : getField fs "multiagent" = some (.bool false)) (ho : getField fs "optimizer" = some (.optimizer c gs st))
    (W : Wrapper) (hw : dWrapper (.record fs) = some W) :
    ∃ sd w', OptimizerWrapper.state_dict (.record fs) = .ok sd ∧
      OptimizerWrapper.load_state_dict (.record fs) sd = .ok w' ∧ dWrapper w' = some W := by
  refine ⟨.dict [("state", st), ("param_groups", .list 0 (gs.map packGroup))],
    .record (setField fs "optimizer" (.optimizer c (List.zipWith unpackGroup gs (gs.map packGroup)) st)), ?_, ?_, ?_⟩
  · simp [OptimizerWrapper.state_dict, pyGetAttr, hm, ho, pyTruthy, pyCallMethod, bind, Except.bind, pure, Except.pure]
  · have hsz : ∀ gs : List Val, (gs.map groupSize == (gs.map packGroup).map groupSize) = true := by
      intro gs
      induction gs with
      | nil => rfl
      | cons g r ih =>
        have : groupSize (packGroup g) = groupSize g := by
          cases g <;> try rfl
          rename_i kv
          simp only [packGroup, groupSize]
          cases hp : look kv "params" with
          | none => simp [hp]
          | some p => cases p <;> simp [hp, look_append, look]
        simp only [List.map_cons, this]
        simpa using ih
    have hsz' : ∀ a ∈ gs, groupSize a = groupSize (packGroup a) := by
      have := hsz gs
      simpa using this
    simp [OptimizerWrapper.load_state_dict, pyGetAttr, pySetAttr, hm, ho, pyTruthy, pyIsinstance, pyCallMut, look, bind, Except.bind,
      pure, Except.pure]
    rw [if_pos hsz']
  · simp only [dWrapper, getField_setField] at hw ⊢
    simp only [hm, ho] at hw
    simp only [show ¬ ("optimizer" = "multiagent") by decide, show ¬ ("optimizer" = "network_names") by decide,
      show ¬ ("optimizer" = "lr_name") by decide, show ¬ ("optimizer" = "lr") by decide, if_false, if_true, hm]
    cases h1 : getField fs "network_names" <;> simp [h1] at hw
    rename_i nsv
    cases h2 : getField fs "lr_name" <;> simp [h2] at hw
    rename_i lv
    cases lv <;> try (simp at hw; done)
    cases h3 : getField fs "lr" <;> simp [h3] at hw
    rename_i lrv
    cases lrv <;> try (simp at hw; done)
    cases h4 : dNames nsv <;> simp [h4] at hw
    simp only [dOptim] at hw ⊢
    cases h5 : optAll (gs.map dGroup) <;> simp [h5] at hw
    rename_i ws
    rw [zip_pack_unpack gs ws h5]
    simp [h4, hw]

end OptWrapGenEq
