import Proofs.SegTreeGenEq
import Proofs.SegTreeSample
import Gen.PerGen

/-!
  Proofs/PerGenEq.lean — the definitions GENERATED from the source text of the class
  `PrioritizedReplayBuffer` (`Gen/PerGen.lean`, written by `harness/py2lean_per.py` on every run; they call the
  generated tree functions of `Gen/SegTreeGen.lean`) agree with the PER part of the hand-written model
  `Model/SegTree.lean`: `PER.new`, `updatePriority`, `addLoop` / `add`, `updateMany`, `strata` + `retrieve`,
  `weights`.

  The `ReplayBuffer` base class is opaque in the generated code (`Env.superInit / superAdd / maxSize / size`); it is
  instantiated here with the cursor / size arithmetic of the C09 ring (`ringEnv`).  The generated functions take
  one `fuel` for every tree call; the model uses a specific fuel per call, so the equalities hold for every
  `fuel ≥ 2 * capacity` (`Good`), using that the model loops do not depend on surplus fuel.
-/
namespace SegTree
open SegTreeGen PerGen

/-! ### the model loops do not depend on surplus fuel -/

theorem fixUp_fuel_irrel {α : Type} (op : α → α → α) (d : α) : ∀ (f f' idx : Nat) (t : List α),
    idx ≤ f → idx ≤ f' → fixUp op d f idx t = fixUp op d f' idx t
  | 0, f', idx, t, h, _ => by
    have : idx = 0 := by omega
    subst this
    cases f' with
    | zero => rfl
    | succ g => simp [fixUp]
  | f + 1, f', idx, t, h, h' => by
    by_cases hz : idx ≥ 1
    · obtain ⟨g, rfl⟩ : ∃ g, f' = g + 1 := ⟨f' - 1, by omega⟩
      unfold fixUp
      rw [if_pos hz, if_pos hz]
      exact fixUp_fuel_irrel op d f g _ _ (by omega) (by omega)
    · have : idx = 0 := by omega
      subst this
      cases f' with
      | zero => simp [fixUp]
      | succ g => simp [fixUp]

theorem retrieveLoop_fuel_irrel (cap : Nat) (t : List Rat) : ∀ (f f' idx : Nat) (u : Rat),
    1 ≤ idx → cap ≤ idx + f → cap ≤ idx + f' → retrieveLoop cap t f idx u = retrieveLoop cap t f' idx u
  | 0, f', idx, u, _, h, _ => by
    have hn : ¬ idx < cap := by omega
    cases f' with
    | zero => rfl
    | succ g => simp [retrieveLoop, hn]
  | f + 1, f', idx, u, h1, h, h' => by
    by_cases hc : idx < cap
    · obtain ⟨g, rfl⟩ : ∃ g, f' = g + 1 := ⟨f' - 1, by omega⟩
      unfold retrieveLoop
      rw [if_pos hc, if_pos hc]
      simp only
      split
      · exact retrieveLoop_fuel_irrel cap t f g _ _ (by omega) (by omega) (by omega)
      · exact retrieveLoop_fuel_irrel cap t f g _ _ (by omega) (by omega) (by omega)
    · cases f' with
      | zero => simp [retrieveLoop, hc]
      | succ g => simp [retrieveLoop, hc]

/-- the generated `retrieve` with any fuel `≥ capacity` is the model's `retrieve` -/
theorem gen_retrieve_fuel_eq (op : Rat → Rat → Rat) (cap : Nat) (hc : 0 < cap) (t : List Rat) (fuel : Nat)
    (hf : cap ≤ fuel) (u : Rat) :
    SumSegmentTree.retrieve op 0 cap t fuel u = retrieve cap t u := by
  obtain ⟨f, rfl⟩ : ∃ f, fuel = f + 1 := ⟨fuel - 1, by omega⟩
  unfold SumSegmentTree.retrieve retrieve retrieveWalk
  rw [gen_sum_eq, gen_operate_full op 0 cap t f]
  simp only [gen_retrieve_loop_eq]
  rw [retrieveLoop_fuel_irrel cap t (f + 1) cap 1 u (by omega) (by omega) (by omega)]
  rfl

/-! ### the ring part and the state correspondence -/

/-- the part of `ReplayBuffer` the model tracks: `max_size`, `_cursor`, `_size` -/
structure RingM where
  maxSize : Nat
  cursor : Nat
  size : Nat

/-- `super().__init__` / `super().add(data)` as modelled in `Model/Ring.lean` (C09: cursor and size after a batch of
    `n` rows), the attributes `max_size` / `size`, and the two power functions -/
def ringEnv (pw f : Rat → Rat) : Env RingM where
  superInit m := ⟨m, 0, 0⟩
  superAdd r n := ⟨r.maxSize, (r.cursor + n) % r.maxSize, min (r.size + n) r.maxSize⟩
  maxSize r := r.maxSize
  size r := r.size
  powAlpha := pw
  powNegBeta := f

def toModel (st : State RingM) : PER :=
  { maxSize := st.ring.maxSize, cap := st.sum_tree_cap, sumT := st.sum_tree, minT := st.min_tree,
    maxPriority := st.max_priority, treePtr := st.tree_ptr, cursor := st.ring.cursor, size := st.ring.size }

/-- side conditions under which generated code and model coincide (they hold on every reachable state) -/
structure Good (fuel : Nat) (st : State RingM) : Prop where
  caps : st.min_tree_cap = st.sum_tree_cap
  pos : 0 < st.ring.maxSize
  le : st.ring.maxSize ≤ st.sum_tree_cap
  ptr : st.tree_ptr < st.ring.maxSize
  fuel_ok : 2 * st.sum_tree_cap ≤ fuel

/-- generated state `st` represents model state `b` -/
def Sim (fuel : Nat) (st : State RingM) (b : PER) : Prop := Good fuel st ∧ toModel st = b

example : Good 8 ⟨⟨3, 0, 0⟩, 1, 0, 4, initTree 4 0, 4, initTree 4 none⟩ :=
  ⟨rfl, by decide, by decide, by decide, by decide⟩

/-! ### `__init__` -/

theorem gen_per_init_loop_eq (env : Env RingM) (m : Nat) : ∀ (fuel c : Nat),
    PrioritizedReplayBuffer.init_loop0 env m fuel c = capLoop m fuel c
  | 0, _ => rfl
  | fuel + 1, c => by
    unfold PrioritizedReplayBuffer.init_loop0 capLoop
    split
    · simp only [Nat.mul_comm c 2]; exact gen_per_init_loop_eq env m fuel _
    · rfl

theorem isPow2_two_pow (k : Nat) : isPow2 (2 ^ k) = true := by
  unfold isPow2
  have h : 2 ^ k > 0 := Nat.pos_of_ne_zero (by simp)
  simp [h, Nat.and_two_pow_sub_one_eq_mod]

/-- the generated constructor builds the model's initial buffer -/
theorem gen_per_init_eq (pw f : Rat → Rat) (m : Nat) (hm : 0 < m) (fuel : Nat)
    (hf : 2 * treeCapacity m ≤ fuel) :
    ∃ st, PrioritizedReplayBuffer.init (ringEnv pw f) m m = some st ∧ Sim fuel st (PER.new m) := by
  obtain ⟨⟨k, hk⟩, hge⟩ := treeCapacity_spec m
  have hp : isPow2 (treeCapacity m) = true := by rw [hk]; exact isPow2_two_pow k
  unfold PrioritizedReplayBuffer.init
  simp only [gen_per_init_loop_eq]
  have hc : capLoop m m 1 = treeCapacity m := rfl
  rw [hc, gen_sum_init_eq, gen_min_init_eq]
  simp only [hp, if_true]
  refine ⟨_, rfl, ⟨rfl, hm, hge, hm, hf⟩, rfl⟩

/-! ### `_update_priority` -/

theorem gen_per_update_priority_eq (pw f : Rat → Rat) (fuel : Nat) (st : State RingM) (b : PER)
    (hs : Sim fuel st b) (i : Nat) (p : Rat) :
    (i < b.maxSize → ∃ st', PrioritizedReplayBuffer.update_priority (ringEnv pw f) fuel st i p = some st' ∧
        Sim fuel st' (b.updatePriority pw i p) ∧ st'.tree_ptr = st.tree_ptr ∧ st'.ring = st.ring) ∧
    (¬ i < b.maxSize → PrioritizedReplayBuffer.update_priority (ringEnv pw f) fuel st i p = none) := by
  obtain ⟨hg, rfl⟩ := hs
  constructor
  · intro hi
    have hi' : 0 ≤ i ∧ i < (ringEnv pw f).maxSize st.ring := ⟨Nat.zero_le _, hi⟩
    unfold PrioritizedReplayBuffer.update_priority
    rw [if_pos hi']
    refine ⟨_, rfl, ⟨⟨hg.caps, hg.pos, hg.le, hg.ptr, hg.fuel_ok⟩, ?_⟩, rfl, rfl⟩
    have hlt : i + st.sum_tree_cap ≤ fuel := by
      have := hg.le; have := hg.fuel_ok
      have : i < st.ring.maxSize := hi
      omega
    unfold toModel PER.updatePriority setSum setMin setItem
    simp only [PER.mk.injEq, true_and, and_true]
    refine ⟨?_, ?_, rfl⟩
    · rw [gen_setitem_fuel_eq]
      exact fixUp_fuel_irrel _ _ _ _ _ _ (by omega) (by omega)
    · rw [gen_setitem_fuel_eq, hg.caps, gen_min_op_eq]
      exact fixUp_fuel_irrel _ _ _ _ _ _ (by omega) (by omega)
  · intro hi
    have hi' : ¬ (0 ≤ i ∧ i < (ringEnv pw f).maxSize st.ring) := fun h => hi h.2
    unfold PrioritizedReplayBuffer.update_priority
    rw [if_neg hi']

/-! ### `add` -/

theorem gen_per_add_loop_eq (pw f : Rat → Rat) (fuel : Nat) : ∀ (k : Nat) (st : State RingM) (b : PER),
    Sim fuel st b →
    ∃ st', PrioritizedReplayBuffer.add_for0 (ringEnv pw f) fuel k st = some st' ∧
      Sim fuel st' (PER.addLoop pw k b)
  | 0, st, b, hs => ⟨st, rfl, hs⟩
  | k + 1, st, b, hs => by
    have hptr : b.treePtr < b.maxSize := by obtain ⟨hg, rfl⟩ := hs; exact hg.ptr
    obtain ⟨st1, e1, ⟨hg1, hm1⟩, hp1, hr1⟩ :=
      (gen_per_update_priority_eq pw f fuel st b hs b.treePtr b.maxPriority).1 hptr
    have hst : st.tree_ptr = b.treePtr ∧ st.max_priority = b.maxPriority := by
      obtain ⟨_, rfl⟩ := hs; exact ⟨rfl, rfl⟩
    unfold PrioritizedReplayBuffer.add_for0
    rw [hst.1, hst.2, e1]
    have hmod : pyMod (st1.tree_ptr + 1) ((ringEnv pw f).maxSize st1.ring)
        = some ((st1.tree_ptr + 1) % st1.ring.maxSize) := by
      unfold pyMod
      have : ¬ (ringEnv pw f).maxSize st1.ring = 0 := by have := hg1.pos; exact Nat.pos_iff_ne_zero.mp this
      rw [if_neg this]; rfl
    simp only [hmod]
    apply gen_per_add_loop_eq pw f fuel k _ (b.addOne pw)
    refine ⟨⟨hg1.caps, hg1.pos, hg1.le, Nat.mod_lt _ hg1.pos, hg1.fuel_ok⟩, ?_⟩
    have hb1 : toModel st1 = b.updatePriority pw b.treePtr b.maxPriority := hm1
    unfold PER.addOne
    rw [← hb1]
    have hms : st1.ring.maxSize = b.maxSize := by rw [hr1]; obtain ⟨_, rfl⟩ := hs; rfl
    unfold toModel
    simp only [PER.mk.injEq, true_and, and_true]
    rw [hp1, hst.1, hms]

theorem gen_per_add_eq (pw f : Rat → Rat) (fuel : Nat) (st : State RingM) (b : PER) (hs : Sim fuel st b)
    (n : Nat) :
    ∃ st', PrioritizedReplayBuffer.add (ringEnv pw f) fuel st n = some st' ∧ Sim fuel st' (b.add pw n) := by
  obtain ⟨hg, rfl⟩ := hs
  have h0 : Sim fuel { st with ring := (ringEnv pw f).superAdd st.ring n } ((toModel st).pre n) :=
    ⟨⟨hg.caps, hg.pos, hg.le, hg.ptr, hg.fuel_ok⟩, rfl⟩
  obtain ⟨st', e, hs'⟩ := gen_per_add_loop_eq pw f fuel n _ _ h0
  refine ⟨st', ?_, by rw [add_eq]; exact hs'⟩
  unfold PrioritizedReplayBuffer.add
  simp only [e]

/-! ### `update_priorities` -/

theorem pyMax_eps (p : Rat) : pyMax p (mkRat 5902958103587057 590295810358705651712) = clampPriority p := rfl

theorem gen_per_update_loop_eq (pw f : Rat → Rat) (fuel : Nat) : ∀ (l : List (Nat × Rat)) (st : State RingM) (b : PER),
    Sim fuel st b →
    (((PER.updateMany pw b (l.map (fun x => ((x.1 : Int), x.2)))).2 = true →
      ∃ st', PrioritizedReplayBuffer.update_priorities_for0 (ringEnv pw f) fuel l st = some st' ∧
        Sim fuel st' (PER.updateMany pw b (l.map (fun x => ((x.1 : Int), x.2)))).1) ∧
    ((PER.updateMany pw b (l.map (fun x => ((x.1 : Int), x.2)))).2 = false →
      PrioritizedReplayBuffer.update_priorities_for0 (ringEnv pw f) fuel l st = none))
  | [], st, b, hs => ⟨fun _ => ⟨st, rfl, hs⟩, fun h => by simp [PER.updateMany] at h⟩
  | (i, p) :: rest, st, b, hs => by
    obtain ⟨u1, u2⟩ := gen_per_update_priority_eq pw f fuel st b hs i (clampPriority p)
    simp only [List.map_cons]
    unfold PER.updateMany PrioritizedReplayBuffer.update_priorities_for0
    simp only [pyMax_eps, Int.toNat_natCast, Int.natCast_nonneg, true_and]
    by_cases hi : i < b.maxSize
    · obtain ⟨st1, e1, hs1, _, _⟩ := u1 hi
      rw [if_pos hi, e1]
      exact gen_per_update_loop_eq pw f fuel rest st1 _ hs1
    · rw [if_neg hi, u2 hi]
      exact ⟨fun h => by simp at h, fun _ => rfl⟩

/-- `update_priorities(indices, priorities)`: the zip loop with the clamp is `updateMany` -/
theorem gen_per_update_priorities_eq (pw f : Rat → Rat) (fuel : Nat) (st : State RingM) (b : PER)
    (hs : Sim fuel st b) (idxs : List Nat) (ps : List Rat) :
    (((PER.updateMany pw b ((List.zip idxs ps).map (fun x => ((x.1 : Int), x.2)))).2 = true →
      ∃ st', PrioritizedReplayBuffer.update_priorities (ringEnv pw f) fuel st idxs ps = some st' ∧
        Sim fuel st' (PER.updateMany pw b ((List.zip idxs ps).map (fun x => ((x.1 : Int), x.2)))).1) ∧
    ((PER.updateMany pw b ((List.zip idxs ps).map (fun x => ((x.1 : Int), x.2)))).2 = false →
      PrioritizedReplayBuffer.update_priorities (ringEnv pw f) fuel st idxs ps = none)) := by
  obtain ⟨h1, h2⟩ := gen_per_update_loop_eq pw f fuel (List.zip idxs ps) st b hs
  unfold PrioritizedReplayBuffer.update_priorities
  constructor
  · intro h
    obtain ⟨st', e, hs'⟩ := h1 h
    exact ⟨st', by simp only [e], hs'⟩
  · intro h
    simp only [h2 h]

/-! ### lists filled position by position (`xs[i] = e` inside `for i in range(n)`) -/

/-- `v` after `v[i] = x₀; v[i+1] = x₁; …` -/
def fill {α : Type} : List α → Nat → List α → List α
  | v, _, [] => v
  | v, i, x :: l => fill (v.set i x) (i + 1) l

theorem fill_append {α : Type} : ∀ (l pre suf : List α), suf.length = l.length →
    fill (pre ++ suf) pre.length l = pre ++ l
  | [], pre, suf, h => by
    have : suf = [] := List.length_eq_zero_iff.mp (by simpa using h)
    simp [fill, this]
  | x :: l, pre, suf, h => by
    cases suf with
    | nil => simp at h
    | cons s suf' =>
      have hl : suf'.length = l.length := by simpa using h
      have e : (pre ++ s :: suf').set pre.length x = (pre ++ [x]) ++ suf' := by
        rw [List.set_append_right _ _ (Nat.le_refl _)]; simp
      have e2 : pre.length + 1 = (pre ++ [x]).length := by simp
      rw [fill, e, e2, fill_append l (pre ++ [x]) suf' hl]
      simp

theorem fill_replicate {α : Type} (l : List α) (z : α) : fill (List.replicate l.length z) 0 l = l := by
  have := fill_append l [] (List.replicate l.length z) (by simp)
  simpa using this

theorem allSome_length {α : Type} : ∀ (xs : List (Option α)) (l : List α), Util.allSome xs = some l →
    l.length = xs.length
  | [], l, h => by simp [Util.allSome] at h; subst h; rfl
  | none :: xs, l, h => by simp [Util.allSome] at h
  | some a :: xs, l, h => by
    simp only [Util.allSome, Option.map_eq_some_iff] at h
    obtain ⟨l', h1, rfl⟩ := h
    simp [allSome_length xs l' h1]

theorem allSome_map_some {α β : Type} (g : α → β) : ∀ (l : List α),
    Util.allSome (l.map (fun x => some (g x))) = some (l.map g)
  | [] => rfl
  | x :: l => by simp [Util.allSome, allSome_map_some g l]

theorem strataAux_length (seg : Rat) : ∀ (rs : List Rat) (i : Nat), (strataAux seg i rs).length = rs.length
  | [], _ => rfl
  | r :: rs, i => by simp [strataAux, strataAux_length seg rs (i + 1)]

/-! ### `_sample_proportional` -/

theorem gen_per_sample_loop_eq (pw f : Rat → Rat) (fuel : Nat) (st : State RingM) (hg : Good fuel st)
    (seg : Rat) : ∀ (rs : List Rat) (i : Nat) (v0 : List Nat),
    PrioritizedReplayBuffer.sample_proportional_for0 (ringEnv pw f) fuel st seg rs.length i rs v0 =
      (Util.allSome ((strataAux seg i rs).map (retrieve st.sum_tree_cap st.sum_tree))).map (fill v0 i)
  | [], i, v0 => by simp [PrioritizedReplayBuffer.sample_proportional_for0, strataAux, Util.allSome, fill]
  | r :: rs, i, v0 => by
    have hc : 0 < st.sum_tree_cap := lt_of_lt_of_le hg.pos hg.le
    have hf : st.sum_tree_cap ≤ fuel := by have := hg.fuel_ok; omega
    simp only [List.length_cons]
    unfold PrioritizedReplayBuffer.sample_proportional_for0
    simp only [strataAux, List.map_cons]
    have hcast : (((i + 1 : Nat) : Rat)) = (i : Rat) + 1 := by push_cast; rfl
    rw [hcast, show SumSegmentTree.initValue = (0 : Rat) from rfl, gen_retrieve_fuel_eq _ _ hc _ _ hf]
    cases hr : retrieve st.sum_tree_cap st.sum_tree (r * (seg * ((i : Rat) + 1) - seg * (i : Rat)) + seg * (i : Rat)) with
    | none => simp [Util.allSome]
    | some x =>
      simp only
      rw [gen_per_sample_loop_eq pw f fuel st hg seg rs (i + 1) (v0.set i x)]
      cases hall : Util.allSome ((strataAux seg (i + 1) rs).map (retrieve st.sum_tree_cap st.sum_tree)) with
      | none => simp [Util.allSome, hall]
      | some l => simp [Util.allSome, hall, fill]

/-- `_sample_proportional(batch_size)` with exactly `batch_size` explicit draws: the stratified masses of the model
    (`strata`), each sent through `retrieve`; `none` if `batch_size = 0` (ZeroDivisionError) or a `retrieve` asserts -/
theorem gen_per_sample_proportional_eq (pw f : Rat → Rat) (fuel : Nat) (st : State RingM) (b : PER)
    (hs : Sim fuel st b) (rs : List Rat) :
    PrioritizedReplayBuffer.sample_proportional (ringEnv pw f) fuel st rs rs.length =
      if rs.length = 0 then none
      else Util.allSome ((strata b.total rs).map (retrieve b.cap b.sumT)) := by
  obtain ⟨hg, rfl⟩ := hs
  obtain ⟨g, hgf⟩ : ∃ g, fuel = g + 1 := ⟨fuel - 1, by have := hg.fuel_ok; have := hg.pos; have := hg.le; omega⟩
  unfold PrioritizedReplayBuffer.sample_proportional
  rw [gen_sum_eq, hgf, gen_operate_full, ← hgf]
  simp only [pyDiv]
  by_cases h0 : rs.length = 0
  · simp [h0]
  · have hne : ¬ ((rs.length : Nat) : Rat) = 0 := by exact_mod_cast h0
    simp only [hne, h0, if_false]
    rw [gen_per_sample_loop_eq pw f fuel st hg]
    unfold strata
    have hT : nd SumSegmentTree.initValue st.sum_tree 1 = (toModel st).total := rfl
    rw [hT]
    show (match Option.map (fill (List.replicate rs.length 0) 0) (Util.allSome (List.map
        (retrieve (toModel st).cap (toModel st).sumT) (strataAux ((toModel st).total / (rs.length : Rat)) 0 rs))) with
      | none => none
      | some v0 => some v0) = _
    cases hall : Util.allSome (List.map (retrieve (toModel st).cap (toModel st).sumT)
        (strataAux ((toModel st).total / (rs.length : Rat)) 0 rs)) with
    | none => rfl
    | some l =>
      have hlen : l.length = rs.length := by
        have := allSome_length _ _ hall
        simpa [strataAux_length] using this
      simp only [Option.map_some]
      rw [← hlen, fill_replicate]

/-! ### `_calculate_weights` -/

theorem gen_per_weights_loop_eq (pw f : Rat → Rat) (fuel : Nat) (st : State RingM) (hg : Good fuel st) (v3 : Rat)
    (hv3 : v3 ≠ 0) (htot : nd 0 st.sum_tree 1 ≠ 0) : ∀ (l : List Nat) (i : Nat) (v1 : List Rat),
    (∀ x ∈ l, x < st.sum_tree_cap) →
    PrioritizedReplayBuffer.calculate_weights_for0 (ringEnv pw f) fuel st v3 l i v1 =
      some (fill v1 i (l.map (fun x =>
        f (nd 0 st.sum_tree (st.sum_tree_cap + x) / nd 0 st.sum_tree 1 * (st.ring.size : Rat)) / v3)))
  | [], i, v1, _ => rfl
  | x :: l, i, v1, h => by
    obtain ⟨g, hgf⟩ : ∃ g, fuel = g + 1 :=
      ⟨fuel - 1, by have := hg.fuel_ok; have := hg.pos; have := hg.le; omega⟩
    have hx : x < st.sum_tree_cap := h x (by simp)
    unfold PrioritizedReplayBuffer.calculate_weights_for0
    rw [gen_getitem_eq, if_pos hx, gen_sum_eq, hgf, gen_operate_full, ← hgf]
    have hT : nd SumSegmentTree.initValue st.sum_tree 1 = nd 0 st.sum_tree 1 := rfl
    have hL : nd SumSegmentTree.initValue st.sum_tree (st.sum_tree_cap + x) = nd 0 st.sum_tree (st.sum_tree_cap + x) := rfl
    simp only [pyDiv, hT, hL, htot, hv3, if_false]
    rw [gen_per_weights_loop_eq pw f fuel st hg v3 hv3 htot l (i + 1) _ (fun y hy => h y (by simp [hy]))]
    rfl

/-- `_calculate_weights(indices, beta)` where it does not raise: `f (N·P(i)) / f (N·P_min)` per index -/
theorem gen_per_calculate_weights_eq (pw f : Rat → Rat) (fuel : Nat) (st : State RingM) (b : PER)
    (hs : Sim fuel st b) (idxs : List Nat) (hidx : ∀ i ∈ idxs, i < b.cap) (m : Rat)
    (hm : b.minRoot = some m) (ht : b.total ≠ 0) (hf0 : f (m / b.total * (b.size : Rat)) ≠ 0) :
    PrioritizedReplayBuffer.calculate_weights (ringEnv pw f) fuel st idxs =
      some (idxs.map (fun i => f (b.leaf i / b.total * (b.size : Rat)) / f (m / b.total * (b.size : Rat)))) := by
  obtain ⟨hg, rfl⟩ := hs
  obtain ⟨g, hgf⟩ : ∃ g, fuel = g + 1 :=
    ⟨fuel - 1, by have := hg.fuel_ok; have := hg.pos; have := hg.le; omega⟩
  have hM : nd MinSegmentTree.initValue st.min_tree 1 = some m := hm
  have hT : nd SumSegmentTree.initValue st.sum_tree 1 = nd 0 st.sum_tree 1 := rfl
  have ht' : nd 0 st.sum_tree 1 ≠ 0 := ht
  unfold PrioritizedReplayBuffer.calculate_weights
  rw [gen_min_eq, gen_sum_eq, hgf, gen_operate_full, gen_operate_full, ← hgf, hM]
  simp only [pyDiv, hT, ht', if_false]
  rw [gen_per_weights_loop_eq pw f fuel st hg
    ((ringEnv pw f).powNegBeta (m / nd 0 st.sum_tree 1 * (((ringEnv pw f).size st.ring : Nat) : Rat))) hf0 ht' idxs 0 _ hidx]
  simp only
  have := fill_replicate (idxs.map (fun x =>
    f (nd 0 st.sum_tree (st.sum_tree_cap + x) / nd 0 st.sum_tree 1 * (st.ring.size : Rat)) /
      f (m / nd 0 st.sum_tree 1 * (st.ring.size : Rat)))) (0 : Rat)
  rw [List.length_map] at this
  exact congrArg some this

/-- … and where it does: an empty buffer (`min_tree.min()` = +inf) or a zero total -/
theorem gen_per_calculate_weights_none (pw f : Rat → Rat) (fuel : Nat) (st : State RingM) (b : PER)
    (hs : Sim fuel st b) (idxs : List Nat) (h : b.minRoot = none ∨ b.total = 0) :
    PrioritizedReplayBuffer.calculate_weights (ringEnv pw f) fuel st idxs = none := by
  obtain ⟨hg, rfl⟩ := hs
  obtain ⟨g, hgf⟩ : ∃ g, fuel = g + 1 :=
    ⟨fuel - 1, by have := hg.fuel_ok; have := hg.pos; have := hg.le; omega⟩
  have hT : nd SumSegmentTree.initValue st.sum_tree 1 = nd 0 st.sum_tree 1 := rfl
  unfold PrioritizedReplayBuffer.calculate_weights
  rw [gen_min_eq, gen_sum_eq, hgf, gen_operate_full, gen_operate_full, ← hgf]
  cases hm : nd MinSegmentTree.initValue st.min_tree 1 with
  | none => rfl
  | some m =>
    rcases h with h | h
    · have : nd MinSegmentTree.initValue st.min_tree 1 = none := h
      rw [this] at hm; cases hm
    · have h' : nd 0 st.sum_tree 1 = 0 := h
      simp [pyDiv, hT, h']

/-! ### all legal operation sequences through the generated code -/

/-- one buffer operation executed by the generated code (an update passes index and priority lists) -/
def genExec (pw f : Rat → Rat) (fuel : Nat) (st : State RingM) : Op → Option (State RingM)
  | .add n => PrioritizedReplayBuffer.add (ringEnv pw f) fuel st n
  | .update l => PrioritizedReplayBuffer.update_priorities (ringEnv pw f) fuel st
      (l.map (fun x => x.1.toNat)) (l.map (fun x => x.2))

def genRun (pw f : Rat → Rat) (fuel : Nat) : List Op → State RingM → Option (State RingM)
  | [], st => some st
  | o :: rest, st => (genExec pw f fuel st o).bind (genRun pw f fuel rest)

/-- the buffer made by the generated `__init__` and driven by the generated `add` / `update_priorities` -/
def genReach (pw f : Rat → Rat) (fuel m : Nat) (ops : List Op) : Option (State RingM) :=
  (PrioritizedReplayBuffer.init (ringEnv pw f) m m).bind (genRun pw f fuel ops)

theorem gen_per_run_sim (pw f : Rat → Rat) (fuel : Nat) : ∀ (ops : List Op) (st : State RingM) (b : PER)
    (count : Nat) (seen : List Rat), Sim fuel st b → PInv pw b count seen → Legal pw b ops →
    ∃ st', genRun pw f fuel ops st = some st' ∧ Sim fuel st' (b.run pw ops)
  | [], st, b, _, _, hs, _, _ => ⟨st, rfl, hs⟩
  | .add n :: rest, st, b, count, seen, hs, hp, hl => by
    obtain ⟨⟨_, _⟩, hrest⟩ := hl
    obtain ⟨st1, e1, hs1⟩ := gen_per_add_eq pw f fuel st b hs n
    obtain ⟨st', e', hs'⟩ := gen_per_run_sim pw f fuel rest st1 _ _ _ hs1 (add_inv pw b count seen hp n).1 hrest
    exact ⟨st', by simp only [genRun, genExec, e1, Option.bind_some]; exact e', hs'⟩
  | .update l :: rest, st, b, count, seen, hs, hp, hl => by
    obtain ⟨hleg, hrest⟩ := hl
    obtain ⟨hflag, hp1, _⟩ := updateMany_inv pw l b count seen hp hleg
    have hl' : (List.zip (l.map (fun x => x.1.toNat)) (l.map (fun x => x.2))).map (fun x => ((x.1 : Int), x.2)) = l := by
      rw [List.zip_map', List.map_map]
      conv_rhs => rw [← List.map_id l]
      apply List.map_congr_left
      intro x hx
      have := (hleg x hx).1
      simp only [Function.comp, id]
      rw [Int.toNat_of_nonneg this]
    obtain ⟨h1, _⟩ := gen_per_update_priorities_eq pw f fuel st b hs (l.map (fun x => x.1.toNat)) (l.map (fun x => x.2))
    rw [hl'] at h1
    obtain ⟨st1, e1, hs1⟩ := h1 hflag
    obtain ⟨st', e', hs'⟩ := gen_per_run_sim pw f fuel rest st1 _ _ _ hs1 hp1 hrest
    exact ⟨st', by simp only [genRun, genExec, e1, Option.bind_some]; exact e', hs'⟩

/-- **the generated buffer code simulates the model on every legal operation sequence** -/
theorem gen_per_reach_sim (pw f : Rat → Rat) (m : Nat) (hm : 0 < m) (fuel : Nat) (hf : 2 * treeCapacity m ≤ fuel)
    (ops : List Op) (hl : Legal pw (PER.new m) ops) :
    ∃ st, genReach pw f fuel m ops = some st ∧ Sim fuel st ((PER.new m).run pw ops) := by
  obtain ⟨st0, e0, hs0⟩ := gen_per_init_eq pw f m hm fuel hf
  obtain ⟨st, e, hs⟩ := gen_per_run_sim pw f fuel ops st0 _ 0 [] hs0 (new_inv pw m hm) hl
  exact ⟨st, by simp only [genReach, e0, Option.bind_some]; exact e, hs⟩

end SegTree
