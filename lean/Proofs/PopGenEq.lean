import Model.Tournament
import Model.HpMut
import Proofs.HpMutPop
import Gen.PopGen

-- the second arm of a `first | shared | perAgent` is unused while the source passes the configuration by reference
set_option linter.unusedTactic false
set_option linter.unreachableTactic false

/-!
# `Gen/PopGen.lean` (generated from the source text of `create_population` and `EvolvableAlgorithm.population`)
  = the models' initial populations

* `gen_create_population_eq` / `gen_population_eq`: for every branch (`algo ∈ algos`) and every `population_size`
  (any integer, also ≤ 0) the generated list of members, read as Tournament agents (`toAgent`: the `index` argument
  of the constructor call; a member without an integer `index` argument has no reading), is `Tournament.initialPop`:
  `population_size` members, member `i` with index `i`.
* `gen_create_population_cfg` / `gen_population_cfg`: every member's `hp_config` argument has ONE sharing class per
  branch, and it is one the HpMut model knows (`provOf`: one shared object, or a private object each).
* `gen_sharing_table_eq`: the table `sharingTable` the translator prints (and the harness compares with measured
  aliasing) is the table Lean derives from `create_population` itself with `Val.share`.
The proofs never name a loop-body definition (they are `@[simp]`), so adding, removing or renaming branches needs
no change here as long as every branch builds its members the same way.
-/
namespace PopGen

theorem pyFor_flat {body : List Val → Int → List Val} (h : ∀ acc i, body acc i = acc ++ body [] i)
    (xs : List Int) (acc : List Val) : pyFor xs acc body = acc ++ xs.flatMap (body []) := by
  induction xs generalizing acc with
  | nil => simp [pyFor]
  | cons x r ih =>
    simp only [pyFor, List.foldl_cons] at ih ⊢
    rw [ih, h acc x]; simp

theorem map_flatMap_single {α β γ : Type} {g : α → List β} {F : β → γ} {G : α → γ}
    (h : ∀ i, (g i).map F = [G i]) (xs : List α) : (xs.flatMap g).map F = xs.map G := by
  induction xs with
  | nil => rfl
  | cons x r ih => simp [List.flatMap_cons, h, ih]

theorem map_const_pyRange {α : Type} (n : Int) (x : α) :
    (pyRange n).map (fun _ => x) = List.replicate n.toNat x := by
  apply List.ext_getElem <;> simp [pyRange]

/-- a member as the Tournament model sees it: never evaluated, index = the constructor's `index` argument -/
def toAgent (v : Val) : Option Tournament.Agent :=
  v.indexOf.map fun i => { index := i, fitness := [], tag := i.toNat }

/-- the configuration-sharing classes the HpMut model covers -/
def provOf : Share → Option HpMut.CfgProv
  | .shared => some .shared
  | .fresh => some .perAgent
  | _ => none

def cfgProv (v : Val) : Option HpMut.CfgProv := (v.argShare "hp_config").bind provOf

theorem initialPop_eq (n : Int) :
    (Tournament.initialPop n.toNat).map some =
      (pyRange n).map fun i => some ({ index := i, fitness := [], tag := i.toNat } : Tournament.Agent) := by
  simp [Tournament.initialPop, pyRange, Function.comp_def]

set_option hygiene false in
/-- splits `h : algo ∈ algos` into one goal per branch -/
macro "pop_cases" h:ident : tactic =>
  `(tactic| (simp only [algos, List.mem_cons, List.not_mem_nil, or_false] at $h:ident
             repeat' (rcases $h:ident with rfl | $h:ident)
             all_goals (try subst $h:ident)))

/-- one branch: evaluate the `if` chain on the literal, turn the loop into a `flatMap`, look at one member -/
macro "pop_branch" : tactic =>
  `(tactic| (simp only [create_population, String.reduceBEq, Bool.false_eq_true, ↓reduceIte]
             rw [pyFor_flat (by intro acc i; simp)]
             simp only [List.nil_append]
             apply map_flatMap_single
             intro i
             simp [toAgent, cfgProv, provOf, Val.indexOf, Val.argShare, Val.agent, Val.ctorArgs, Val.lookup, Val.share]))

theorem gen_create_population_eq (algo : String) (h : algo ∈ algos) (n : Int) :
    (create_population algo n).map toAgent = (Tournament.initialPop n.toNat).map some := by
  rw [initialPop_eq]
  pop_cases h <;> pop_branch

theorem gen_population_eq (w : Bool) (n : Int) :
    (population w n).map toAgent = (Tournament.initialPop n.toNat).map some := by
  rw [initialPop_eq]
  cases w <;>
    simp [population, toAgent, Val.indexOf, Val.agent, Val.ctorArgs, Val.lookup, Function.comp_def]

/-- an unknown algorithm name builds nobody -/
theorem gen_create_population_unknown (algo : String) (h : algo ∉ algos) (n : Int) :
    create_population algo n = [] := by
  simp only [algos, List.mem_cons, List.not_mem_nil, or_false, not_or] at h
  simp [create_population, h]

theorem gen_create_population_cfg (algo : String) (h : algo ∈ algos) (n : Int) :
    ∃ prov, (create_population algo n).map cfgProv = (pyRange n).map fun _ => some prov := by
  pop_cases h <;>
    first
    | (refine ⟨.shared, ?_⟩; pop_branch; done)
    | (refine ⟨.perAgent, ?_⟩; pop_branch; done)

theorem gen_population_cfg (w : Bool) (n : Int) :
    ∃ prov, (population w n).map cfgProv = (pyRange n).map fun _ => some prov := by
  cases w <;>
    first
    | (refine ⟨.shared, ?_⟩
       simp [population, cfgProv, provOf, Val.argShare, Val.agent, Val.ctorArgs, Val.lookup, Val.share,
         Function.comp_def]; done)
    | (refine ⟨.perAgent, ?_⟩
       simp [population, cfgProv, provOf, Val.argShare, Val.agent, Val.ctorArgs, Val.lookup, Val.share,
         Function.comp_def]; done)

/-- the table Lean derives from the generated `create_population`: per literal the class and the sharing class of
    every constructor argument of the first member of a population of one -/
def derivedTable : List (String × String × List (String × Share)) :=
  algos.map fun a => match (create_population a 1).head?.bind Val.agent with
    | some ag => (a, ag.ctorName, ag.ctorArgs.kwShares)
    | none => (a, "?", [])

theorem gen_sharing_table_eq : sharingTable = derivedTable := by decide +kernel

end PopGen

/-! ## the HpMut model's initial population for either sharing class -/
namespace HpMut

theorem wf_initialWith (prov : CfgProv) (ps : List Param) (n : Nat) (attrs : List Rat) (opts : List Opt) :
    WF ps (Pop.initialWith prov ps n attrs opts) := by
  cases prov with
  | shared => exact wf_initial ps n attrs opts
  | perAgent =>
    constructor
    · intro a ha
      simp only [Pop.initialWith, List.mem_map, List.mem_range] at ha
      obtain ⟨i, hi, rfl⟩ := ha
      simpa [Pop.initialWith] using hi
    · intro c hc
      simp only [Pop.initialWith, List.mem_replicate] at hc
      rw [hc.2]

theorem obs_initialWith (prov : CfgProv) (ps : List Param) (n : Nat) (attrs : List Rat) (opts : List Opt) :
    (Pop.initialWith prov ps n attrs opts).obs = List.replicate n { attrs := attrs, opts := opts } := by
  cases prov with
  | shared => simp [Pop.initialWith, Pop.initial, Pop.obs, Agent.obs]
  | perAgent =>
    simp only [Pop.initialWith, Pop.obs, Agent.obs, List.map_map, Function.comp_def]
    apply List.ext_getElem <;> simp

/-- with `.perAgent` no two members refer to the same configuration object; with `.shared` all refer to one -/
theorem cfg_initialWith (prov : CfgProv) (ps : List Param) (n : Nat) (attrs : List Rat) (opts : List Opt) :
    (Pop.initialWith prov ps n attrs opts).agents.map (·.cfg) =
      match prov with
      | .shared => List.replicate n 0
      | .perAgent => List.range n := by
  cases prov <;> simp [Pop.initialWith, Pop.initial, Function.comp_def]

end HpMut
