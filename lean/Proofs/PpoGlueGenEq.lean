import Gen.PpoGlueGen
import Model.Dist
import Proofs.DistGenEq

/-!
  Proofs/PpoGlueGenEq.lean — the definitions `harness/py2lean_ppoglue.py` generates from `agilerl/algorithms/ppo.py`
  (`_get_action_and_values`, `evaluate_actions`, `get_action`, the minibatch statements of `learn`) and
  `agilerl/algorithms/ippo.py` (the per-group body of `get_action`, the minibatch statements of `_learn_individual`)
  are equal to the glue functions of `Model/Dist.lean`, for every carrier and every actor / critic / tensor primitive:

    PPO.get_action_and_values (toGen G) …  = G.ppoActionAndValues …
    PPO.get_action (toGen G) …             = G.ppoGetAction …            (entropy through `toGenEnt`)
    PPO.evaluate_actions (toGen G) …       = G.ppoEvaluate …
    PPO.learn_minibatch (toGen G) …        = G.ppoLearnMinibatch …
    IPPO.get_action_agent (toGen G) …      = G.ippoGetActionAgent …
    IPPO.learn_minibatch (toGen G) …       = G.ippoLearnMinibatch …

  The generated text has every local substituted; the proofs unfold both sides and split the conditions.  A mask handed
  to the re-evaluation, another action (scaled / clipped) stored, a dropped `unsqueeze`, `>=` for `>` in the minibatch
  guard, a swapped operand of `logratio`, or per-row entropy replaced by the stand-in leave a false goal.
-/

set_option linter.unusedSectionVars false
set_option linter.unusedSimpArgs false
set_option linter.unusedVariables false

namespace Dist
open Util

variable {α T O M D : Type} [Add T] [Sub T] [Mul T] [Add α] [Sub α] [Mul α] [Neg α]

/-- the model's primitives as the generated file's `Env` -/
def toGen (G : Glue α T O M D) : PpoGlueGen.Env α T O M D :=
  { lit := G.lit, num := G.num, exp := G.exp, mean := G.mean, squeeze := G.squeeze, unsqueeze := G.unsqueeze,
    dim := G.dim, clip := G.clip, scale_action := G.scale_action, squash_output := G.squash_output,
    forward_head := G.forward_head, forward := G.forward, action_log_prob := G.action_log_prob,
    critic := G.critic, critic_head := G.critic_head }

def toGenEnt : PEnt α → PpoGlueGen.Ent α
  | .scalar x => .scalar x
  | .rows xs => .rows xs

theorem gen_ent_mean_eq (mean : List α → α) (e : PEnt α) :
    PpoGlueGen.Ent.mean mean (toGenEnt e) = e.mean mean := by
  cases e <;> rfl

theorem gen_entOf_eq (G : Glue α T O M D) (ent : Option (List α)) (lp : List α) :
    (match ent with
      | none => PpoGlueGen.Ent.scalar (-(G.mean lp))
      | some r => PpoGlueGen.Ent.rows r) = toGenEnt (G.entOf ent lp) := by
  cases ent <;> rfl

theorem gen_ppo_get_action_and_values_eq (G : Glue α T O M D) (share : Bool) (obs : O) (mask : Option M) (d : D) :
    PpoGlueGen.PPO.get_action_and_values (toGen G) share obs mask d = G.ppoActionAndValues share obs mask d := by
  cases share <;> rfl

theorem gen_handed_eq (G : Glue α T O M D) (isDiscrete : Bool) (a : T) :
    (if (decide (G.dim (G.squeeze a) = 1) && !isDiscrete) = true then G.unsqueeze (G.squeeze a) 1 else G.squeeze a)
      = G.handed isDiscrete a := by
  unfold Glue.handed handedWith
  cases isDiscrete <;> by_cases h : G.dim (G.squeeze a) = 1 <;> simp [h]

theorem gen_ppo_get_action_eq (G : Glue α T O M D) (isBox share training : Bool) (high low : T) (obs : O)
    (mask : Option M) (d : D) :
    PpoGlueGen.PPO.get_action (toGen G) isBox share training high low obs mask d
      = (let r := G.ppoGetAction isBox share training high low obs mask d
         (r.1, r.2.1, toGenEnt r.2.2.1, r.2.2.2)) := by
  unfold PpoGlueGen.PPO.get_action Glue.ppoGetAction
  simp only [toGen, Glue.envAction, Glue.ppoScale, Glue.value, Glue.entOf]
  generalize G.forward_head obs d mask = r
  obtain ⟨act, lp, ent⟩ := r
  cases isBox <;> cases share <;> cases training <;> cases ent <;> rfl

theorem gen_ppo_evaluate_actions_eq (G : Glue α T O M D) (share : Bool) (obs : O) (actions : T) (d : D) :
    PpoGlueGen.PPO.evaluate_actions (toGen G) share obs actions d
      = (let r := G.ppoEvaluate share obs actions d
         (r.1, toGenEnt r.2.1, r.2.2)) := by
  unfold PpoGlueGen.PPO.evaluate_actions Glue.ppoEvaluate
  simp only [toGen, Glue.value, Glue.entOf]
  generalize G.forward_head obs d none = r
  obtain ⟨act, lp, ent⟩ := r
  cases share <;> cases ent <;> rfl

theorem gen_ppo_learn_minibatch_eq (G : Glue α T O M D) (isDiscrete : Bool) (n : Nat) (share : Bool) (obs : O)
    (a : T) (stored : List α) (d : D) :
    PpoGlueGen.PPO.learn_minibatch (toGen G) isDiscrete n share obs a stored d
      = G.ppoLearnMinibatch isDiscrete n share obs a stored d := by
  unfold PpoGlueGen.PPO.learn_minibatch Glue.ppoLearnMinibatch Glue.ppoEvaluate Glue.handed handedWith
  simp only [toGen, Glue.entOf]
  generalize G.forward_head obs d none = r
  obtain ⟨act, lp, ent⟩ := r
  cases isDiscrete <;> by_cases hk : G.dim (G.squeeze a) = 1 <;> by_cases hn : n > 1 <;> cases ent <;>
    simp [hk, hn, PEnt.mean, PpoGlueGen.Ent.mean]

theorem gen_ippo_get_action_agent_eq (G : Glue α T O M D) (isBox training : Bool) (high low : T) (obs : O)
    (mask : Option M) (d : D) :
    PpoGlueGen.IPPO.get_action_agent (toGen G) isBox training high low obs mask d
      = G.ippoGetActionAgent isBox training high low obs mask d := by
  unfold PpoGlueGen.IPPO.get_action_agent Glue.ippoGetActionAgent
  simp only [toGen, Glue.envAction]
  cases isBox <;> cases training <;> rfl

theorem gen_ippo_learn_minibatch_eq (G : Glue α T O M D) (isDiscrete : Bool) (n : Nat) (obs : O)
    (a : T) (stored : List α) (d : D) :
    PpoGlueGen.IPPO.learn_minibatch (toGen G) isDiscrete n obs a stored d
      = G.ippoLearnMinibatch isDiscrete n obs a stored d := by
  unfold PpoGlueGen.IPPO.learn_minibatch Glue.ippoLearnMinibatch Glue.handed handedWith
  simp only [toGen]
  cases isDiscrete <;> by_cases hk : G.dim (G.squeeze a) = 1 <;> by_cases hn : n > 1 <;> simp [hk, hn]

theorem zipWith_sub_self {α : Type} [Sub α] (zero : α) (hsub : ∀ x : α, x - x = zero) (l : List α) :
    List.zipWith (fun x y => x - y) l l = l.map (fun _ => zero) := by
  induction l with
  | nil => rfl
  | cons a l ih => simp [hsub, ih]

/-! ### a policy that acts row by row: the bridge to `Gen/DistGen.lean` -/

section rowwise
variable {α R U Mk A : Type}

/-- one mask option per row: no mask at all, or the rows of the mask batch -/
def maskRows (m : Option (List Mk)) (B : Nat) : List (Option Mk) :=
  match m with
  | none => List.replicate B none
  | some ms => ms.map some

/-- shape of a batch of `B` actions: `(B,)` for Discrete, `(B, d)` otherwise -/
def shapeOf (isDiscrete : Bool) (d B : Nat) : List Nat := if isDiscrete then [B] else [B, d]

/-- a forward pass of a policy that acts row by row: `fw logits draw mask = (action, log_prob, entropy?)` -/
def rowForward (fw : R → U → Option Mk → A × α × Option α) (isDiscrete : Bool) (d : Nat)
    (obs : List R) (us : List U) (m : Option (List Mk)) : Shaped A × List α × Option (List α) :=
  let outs := List.zipWith (fun (ru : R × U) mk => fw ru.1 ru.2 mk) (obs.zip us) (maskRows m obs.length)
  (⟨shapeOf isDiscrete d obs.length, outs.map (·.1)⟩, outs.map (·.2.1), allSome (outs.map (·.2.2)))

/-- the glue environment of a policy that acts row by row (the way `DistGen` describes the actor).  `action_log_prob`
    has row values only for an action tensor of the shape the distribution expects (`(B,)` / `(B, d)`): for any other
    shape torch broadcasts over the batch or raises — no row values (`[]`). -/
def rowGlue (fw : R → U → Option Mk → A × α × Option α) (lp : R → U → Option Mk → A → α) (isDiscrete : Bool) (d : Nat)
    (exp : α → α) (mean : List α → α) (num : Rat → α) (squash : Bool) (scale : A → A) (clip : A → A)
    (lit : Rat → Shaped A) (value : R → α) :
    Glue α (Shaped A) (List R) (List Mk) (List U) :=
  { lit := lit, num := num, exp := exp, mean := mean
    squeeze := Shaped.squeeze, unsqueeze := Shaped.unsqueeze, dim := Shaped.dim
    clip := fun a _ _ => { a with rows := a.rows.map clip }
    scale_action := fun a => { a with rows := a.rows.map scale }
    squash_output := squash
    forward_head := rowForward fw isDiscrete d
    -- `StochasticActor.forward` = `scale_action` ∘ head when squashing (`C16_source_translation_squash_log_prob`)
    forward := fun obs us m =>
      let r := rowForward fw isDiscrete d obs us m
      (if squash then { r.1 with rows := r.1.rows.map scale } else r.1, r.2)
    action_log_prob := fun obs us m a =>
      if a.shape = shapeOf isDiscrete d obs.length then
        List.zipWith (fun (x : (R × U) × Option Mk) act => lp x.1.1 x.1.2 x.2 act)
          ((obs.zip us).zip (maskRows m obs.length)) a.rows
      else []
    critic := fun obs => obs.map value
    critic_head := fun obs => obs.map value }

theorem rowForward_reeval (fw : R → U → Option Mk → A × α × Option α) (lp : R → U → Option Mk → A → α)
    (hrow : ∀ r u u', lp r u' none (fw r u none).1 = (fw r u none).2.1) :
    ∀ (obs : List R) (us us' : List U) (n : Nat), us.length = obs.length → us'.length = obs.length → n = obs.length →
      List.zipWith (fun (x : (R × U) × Option Mk) act => lp x.1.1 x.1.2 x.2 act)
          ((obs.zip us').zip (List.replicate n (none : Option Mk)))
          ((List.zipWith (fun (ru : R × U) mk => fw ru.1 ru.2 mk) (obs.zip us) (List.replicate n (none : Option Mk))).map (·.1))
        = (List.zipWith (fun (ru : R × U) mk => fw ru.1 ru.2 mk) (obs.zip us) (List.replicate n (none : Option Mk))).map (·.2.1) := by
  intro obs
  induction obs with
  | nil => intro us us' n _ _ hn; subst hn; simp
  | cons r rs ih =>
    intro us us' n hu hu' hn
    subst hn
    cases us with
    | nil => simp at hu
    | cons u us =>
      cases us' with
      | nil => simp at hu'
      | cons u' us' =>
        simp only [List.length_cons, List.replicate_succ, List.zip_cons_cons, List.zipWith_cons_cons, List.map_cons]
        rw [hrow r u u', ih us us' rs.length (by simpa using hu) (by simpa using hu') rfl]

end rowwise

/-! #### the row policies of `Gen/DistGen.lean`, one per action-space kind (PPO's view: `forward_head`, i.e. the
    action BEFORE `StochasticActor.scale_action` — `C16_source_translation_squash_log_prob`: `forward = scale ∘ head`) -/
section policies
variable {α : Type} [Add α] [Sub α] [Mul α] [Zero α] (P : DistGen.Prims α)

def discretePolicy : List α → Nat → Option (List Bool) → Nat × α × Option α := fun l k m =>
  match m with
  | none => (k, (DistGen.Discrete.forward P l k).2.1, some (DistGen.Discrete.forward P l k).2.2)
  | some mk => (k, (DistGen.Discrete.forward_masked P l mk k).2.1, some (DistGen.Discrete.forward_masked P l mk k).2.2)

def discreteLp : List α → Nat → Option (List Bool) → Nat → α := fun l _ m a =>
  match m with
  | none => DistGen.Discrete.log_prob_stored P l a
  | some mk => DistGen.Discrete.log_prob_stored P (DistGen.Discrete.masked_logits P l mk) a

def multiDiscretePolicy (nvec : List Nat) : List α → List Nat → Option (List Bool) → List Nat × α × Option α := fun l k m =>
  match m with
  | none => (k, (DistGen.MultiDiscrete.forward P nvec l k).2.1, some (DistGen.MultiDiscrete.forward P nvec l k).2.2)
  | some mk => (k, (DistGen.MultiDiscrete.forward_masked P nvec l mk k).2.1,
                some (DistGen.MultiDiscrete.forward_masked P nvec l mk k).2.2)

def multiDiscreteLp (nvec : List Nat) : List α → List Nat → Option (List Bool) → List Nat → α := fun l _ m a =>
  match m with
  | none => DistGen.MultiDiscrete.log_prob_stored P nvec l a
  | some mk => DistGen.MultiDiscrete.log_prob_stored P nvec (DistGen.MultiDiscrete.masked_logits P nvec l mk) a

def multiBinaryPolicy (n : Nat) : List α → List Bool → Option (List Bool) → List Bool × α × Option α := fun l k m =>
  match m with
  | none => (k, (DistGen.MultiBinary.forward P l k).2.1, some (DistGen.MultiBinary.forward P l k).2.2)
  | some mk => (k, (DistGen.MultiBinary.forward_masked P n l mk k).2.1, some (DistGen.MultiBinary.forward_masked P n l mk k).2.2)

def multiBinaryLp (n : Nat) : List α → List Bool → Option (List Bool) → List Bool → α := fun l _ m a =>
  match m with
  | none => DistGen.MultiBinary.log_prob_stored P l a
  | some mk => DistGen.MultiBinary.log_prob_stored P (DistGen.MultiBinary.masked_logits P n l mk) a

/-- Box: the head's action is the draw, or `tanh` of it when squashing (unscaled); masks are rejected by the source -/
def boxPolicy (sq : Bool) (low high log_std : List α) : List α → List α → Option (List Bool) → List α × α × Option α :=
  fun l u _ => (if sq then u.map P.tanh else u, (DistGen.Box.forward P sq low high log_std l u).2.1,
                (DistGen.Box.forward P sq low high log_std l u).2.2)

/-- Box: a stored action is never the object the last `sample()` returned (`action_is_squashed_sample = false`) -/
def boxLp (sq : Bool) (log_std : List α) (eps : α) : List α → List α → Option (List Bool) → List α → α :=
  fun l u' _ a => DistGen.Box.log_prob_stored P false sq log_std l u' eps a

/-- primitives over `Int` whose categorical log-probability depends on the whole logit vector (a stand-in for the
    normaliser): `logit_k − Σ logits` -/
def witPrims : DistGen.Prims Int := { exPrims with categoricalLogProb := fun l k => l.getD k 0 - l.sum }

/-- a two-row Discrete(2) policy over `witPrims` as a glue environment -/
def witGlue : Glue Int (Shaped Nat) (List (List Int)) (List (List Bool)) (List Nat) :=
  rowGlue (discretePolicy witPrims) (discreteLp witPrims) true 1 id List.sum (fun q => q.num) false id id
    (fun _ => ⟨[], []⟩) (fun _ => 0)

end policies

end Dist
