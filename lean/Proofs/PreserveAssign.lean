import Proofs.PreserveBox

/-! The general slice assignment (torch broadcasting) specialises to the common-box copy when the
    ranks agree and the unsliced axes have equal sizes; hence `shrink_preserve_parameters` and
    `preserve_parameters` coincide on everything an architecture mutation produces. Core Lean only. -/
namespace Preserve
variable {α : Type}

theorem stripLead_of_le (rv : Nat) (w : Shape) (h : w.length ≤ rv) : stripLead rv w = w := by
  unfold stripLead
  split
  · next rest => simp only [ite_eq_right_iff]; intro hc; omega
  · rfl

theorem compat_self : ∀ s : Shape, compat s s = true
  | [] => rfl
  | d :: ds => by simp [compat, compat_self ds]

theorem alignIdx_self : ∀ {s : Shape} {idx : List Nat}, inBounds s idx = true → alignIdx s idx = idx
  | [], [], _ => rfl
  | [], _ :: _, h => by simp [inBounds] at h
  | _ :: _, [], h => by simp [inBounds] at h
  | d :: ds, i :: is, h => by
    obtain ⟨hi, hr⟩ := inBounds_cons.mp h
    simp only [alignIdx, alignIdx_self hr, List.cons.injEq, and_true]
    split
    · omega
    · rfl

theorem boxMin_self : ∀ s : Shape, boxMin s s = s
  | [] => rfl
  | d :: ds => by simp [boxMin]

theorem view_eq : ∀ (r : Nat) (os ns : Shape), os.length = ns.length → os.drop r = ns.drop r →
    (boxMin os ns).take r ++ ns.drop r = boxMin os ns ∧
    (boxMin os ns).take r ++ os.drop r = boxMin os ns
  | 0, os, ns, _, h => by
    simp only [List.drop_zero] at h
    subst h
    simp [boxMin_self]
  | r + 1, [], [], _, _ => by simp [boxMin]
  | r + 1, [], _ :: _, h, _ => by simp at h
  | r + 1, _ :: _, [], h, _ => by simp at h
  | r + 1, o :: os, n :: ns, hl, h => by
    have hl' : os.length = ns.length := by simpa using hl
    have h' : os.drop r = ns.drop r := by simpa using h
    obtain ⟨e1, e2⟩ := view_eq r os ns hl' h'
    simp only [boxMin] at e1 e2
    simp [boxMin, e1, e2]

theorem boxMin_length (os ns : Shape) (h : os.length = ns.length) : (boxMin os ns).length = ns.length := by
  simp [boxMin, h]

/-- the plan of the slice assignment when ranks agree and the unsliced axes are equal:
    view = value = the common box, nothing is broadcast -/
theorem planAssign_box (r : Nat) (os ns : Shape) (hl : os.length = ns.length) (hr : r ≤ ns.length)
    (ht : os.drop r = ns.drop r) :
    planAssign r os ns = some { view := boxMin os ns, wst := boxMin os ns, pad := 0 } := by
  obtain ⟨e1, e2⟩ := view_eq r os ns hl ht
  have hro : r ≤ os.length := by omega
  simp only [planAssign, hro, hr, and_self, if_true, e1, e2]
  rw [stripLead_of_le _ _ (Nat.le_refl _)]
  simp [compat_self]

theorem planAssign_box_src (os ns : Shape) (idx : List Nat) :
    ({ view := boxMin os ns, wst := boxMin os ns, pad := 0 } : Assign).src idx = boxSrc os ns idx := by
  simp only [Assign.src, boxSrc, Nat.sub_self, List.drop_zero, List.replicate_zero, List.nil_append]
  by_cases h : inBounds (boxMin os ns) idx = true
  · simp [h, alignIdx_self h]
  · simp [h]

theorem assign_eq_copyBox (r : Nat) (old new : Tensor α) (hl : old.shape.length = new.shape.length)
    (hr : r ≤ new.shape.length) (ht : old.shape.drop r = new.shape.drop r) :
    assign r old new = some (copyBox old new) := by
  simp only [assign, planAssign_box r _ _ hl hr ht, Option.map_some, copyBox, Option.some.injEq,
    Tensor.mk.injEq, true_and]
  exact build_congr _ _ _ _ _ _ (planAssign_box_src _ _)

/-- `preserve_parameters`' single code path (`zip` + `setitem`) is the common-box copy whenever the
    ranks agree — the case split in `preserveT` is faithful to the one-branch source -/
theorem assign_full_rank (old new : Tensor α) (hl : old.shape.length = new.shape.length) :
    assign (min old.shape.length new.shape.length) old new = some (copyBox old new) := by
  apply assign_eq_copyBox _ _ _ hl
  · omega
  · rw [hl, Nat.min_self, List.drop_length, ← hl, List.drop_length]

/-- `shrink_preserve_parameters` = `preserve_parameters` when the axes it does not slice (2, 3, …)
    are unchanged — true for `remove_channel` / `remove_layer` / `remove_block`, which never touch
    kernel sizes -/
theorem preserveT_shrink_eq_full (pol : NormPolicy) (norm : Bool) (old new : Tensor α)
    (hl : old.shape.length = new.shape.length) (ht : old.shape.drop 2 = new.shape.drop 2) :
    preserveT pol .shrink norm old new = preserveT pol .full norm old new := by
  by_cases hs : old.shape = new.shape
  · simp [preserveT, hs]
  · by_cases hp : norm = true ∧ pol = .reset
    · simp [preserveT, hs, hp]
    · have h0 : new.shape.length ≠ 0 := by
        intro h0
        have hn : new.shape = [] := List.eq_nil_of_length_eq_zero h0
        have ho : old.shape = [] := List.eq_nil_of_length_eq_zero (by omega)
        exact hs (by rw [hn, ho])
      have h0' : old.shape.length ≠ 0 := by omega
      simp only [preserveT, hs, hp, if_false, hl, if_true, sliceRank, h0, or_self]
      by_cases h1 : new.shape.length = 1
      · simp only [h1, if_true]
        apply assign_eq_copyBox 1 _ _ hl (by omega)
        rw [List.drop_of_length_le (by omega), List.drop_of_length_le (by omega)]
      · simp only [h1, if_false]
        exact assign_eq_copyBox 2 _ _ hl (by omega) ht

/-- whatever the ranks: the result of a slice assignment has the new shape and size, and every
    element is the fresh one or an element of the old tensor -/
theorem assign_elems (r : Nat) (old new t : Tensor α) (h : assign r old new = some t) :
    t.shape = new.shape ∧ t.data.length = new.data.length ∧
    ∀ (k : Nat) (v : α), t.data[k]? = some v → new.data[k]? = some v ∨ ∃ j : Nat, old.data[j]? = some v := by
  simp only [assign] at h
  cases hp : planAssign r old.shape new.shape with
  | none => simp [hp] at h
  | some a =>
    simp only [hp, Option.map_some, Option.some.injEq] at h
    subst h
    exact ⟨rfl, build_length _ _ _ _ _, fun k v hv => build_elem _ _ _ _ _ k v hv⟩

end Preserve
