import Proofs.PreserveIndex

/-! What `preserve_parameters` does to one tensor and to a whole parameter list. Core Lean only. -/
namespace Preserve
variable {α : Type}

theorem build_length (os ns : Shape) (src) (od nd : List α) :
    (build os ns src od nd).length = nd.length := by
  simp [build]

theorem build_getElem? (os ns : Shape) (src) (od nd : List α) (k : Nat) :
    (build os ns src od nd)[k]? = nd[k]?.map (fun v => pick od v (provAt os ns src k)) := by
  simp [build, List.getElem?_mapIdx]

/-- two index maps that agree on every multi-index describe the same copy -/
theorem build_congr (os ns : Shape) (s1 s2 : List Nat → Option (List Nat)) (od nd : List α)
    (h : ∀ idx, s1 idx = s2 idx) : build os ns s1 od nd = build os ns s2 od nd := by
  have : s1 = s2 := funext h
  rw [this]

theorem copyBox_shape (old new : Tensor α) : (copyBox old new).shape = new.shape := rfl

theorem copyBox_wf (old new : Tensor α) (hn : new.WF) : (copyBox old new).WF := by
  simp [Tensor.WF, copyBox, build_length]; exact hn

/-- inside the common hyper-rectangle the re-created tensor holds the old values -/
theorem copyBox_get_in (old new : Tensor α) (ho : old.WF) (hn : new.WF)
    (hr : old.shape.length = new.shape.length) (idx : List Nat)
    (h : inBounds (boxMin old.shape new.shape) idx = true) :
    (copyBox old new).get idx = old.get idx := by
  obtain ⟨hio, hin⟩ := (inBounds_boxMin hr).mp h
  have hko : offset old.shape idx < old.data.length := by rw [ho]; exact offset_lt hio
  have hkn : offset new.shape idx < new.data.length := by rw [hn]; exact offset_lt hin
  simp only [Tensor.get, copyBox, hin, hio, if_true]
  rw [build_getElem?, List.getElem?_eq_getElem hkn, List.getElem?_eq_getElem hko]
  simp [provAt, unravel_offset hin, boxSrc, h, pick, List.getElem?_eq_getElem hko]

/-- outside the common hyper-rectangle it keeps its fresh initialisation -/
theorem copyBox_get_out (old new : Tensor α) (idx : List Nat)
    (h : inBounds (boxMin old.shape new.shape) idx = false) :
    (copyBox old new).get idx = new.get idx := by
  simp only [Tensor.get, copyBox]
  by_cases hin : inBounds new.shape idx = true
  · simp only [hin, if_true]
    rw [build_getElem?]
    cases hv : new.data[offset new.shape idx]? with
    | none => rfl
    | some v => simp [provAt, unravel_offset hin, boxSrc, h, pick]
  · simp [hin]

/-- every element of a built tensor is either the fresh one or some element of the old data -/
theorem build_elem (os ns : Shape) (src) (od nd : List α) (k : Nat) (v : α)
    (h : (build os ns src od nd)[k]? = some v) : nd[k]? = some v ∨ ∃ j : Nat, od[j]? = some v := by
  rw [build_getElem?] at h
  cases hn : nd[k]? with
  | none => simp [hn] at h
  | some w =>
    simp only [hn, Option.map_some, Option.some.injEq] at h
    cases hp : provAt os ns src k with
    | fresh => simp only [hp, pick] at h; left; rw [h]
    | old j =>
      simp only [hp, pick] at h
      cases ho : od[j]? with
      | none => simp only [ho, Option.getD_none] at h; left; rw [h]
      | some u => simp only [ho, Option.getD_some] at h; right; exact ⟨j, by rw [ho, h]⟩

/-! ### one parameter -/

theorem preserveT_same_shape (pol : NormPolicy) (mode : Mode) (norm : Bool) (old new : Tensor α)
    (h : old.shape = new.shape) : preserveT pol mode norm old new = some old := by
  simp [preserveT, h]

theorem preserveT_norm_reset (mode : Mode) (old new : Tensor α) (h : old.shape ≠ new.shape) :
    preserveT .reset mode true old new = some new := by
  simp [preserveT, h]

theorem preserveT_full_box (pol : NormPolicy) (norm : Bool) (old new : Tensor α)
    (h : old.shape ≠ new.shape) (hr : old.shape.length = new.shape.length)
    (hp : ¬ (norm = true ∧ pol = .reset)) :
    preserveT pol .full norm old new = some (copyBox old new) := by
  simp [preserveT, h, hp, hr]

/-- tensor-level statement of the property for `preserve_parameters` -/
theorem preserveT_common_box (pol : NormPolicy) (norm : Bool) (old new : Tensor α)
    (ho : old.WF) (hn : new.WF) (hr : old.shape.length = new.shape.length)
    (hp : ¬ (norm = true ∧ pol = .reset)) :
    ∃ t, preserveT pol .full norm old new = some t ∧ t.shape = new.shape ∧ t.WF ∧
      (∀ idx, inBounds (boxMin old.shape new.shape) idx = true → t.get idx = old.get idx) ∧
      (∀ idx, inBounds (boxMin old.shape new.shape) idx = false → t.get idx = new.get idx) := by
  by_cases h : old.shape = new.shape
  · refine ⟨old, preserveT_same_shape _ _ _ _ _ h, h, ho, fun _ _ => rfl, ?_⟩
    intro idx hb
    -- with equal shapes the box is the whole tensor, so an index outside it is out of bounds
    have : inBounds old.shape idx = false := by
      cases hi : inBounds old.shape idx with
      | false => rfl
      | true =>
        have := (inBounds_boxMin (idx := idx) hr).mpr ⟨hi, by rw [← h]; exact hi⟩
        rw [this] at hb; cases hb
    simp [Tensor.get, this, ← h]
  · exact ⟨copyBox old new, preserveT_full_box _ _ _ _ h hr hp, rfl, copyBox_wf _ _ hn,
      copyBox_get_in old new ho hn hr, copyBox_get_out old new⟩

/-! ### parameter lists -/

theorem lookup_mem {ps : Params α} {key : String} {t : Tensor α} (h : lookup ps key = some t) :
    (key, t) ∈ ps := by
  induction ps with
  | nil => simp [lookup] at h
  | cons kt rest ih =>
    obtain ⟨k, u⟩ := kt
    simp only [lookup] at h
    by_cases hk : k = key
    · simp only [hk, if_true, Option.some.injEq] at h
      simp [hk, h]
    · simp only [hk, if_false] at h
      exact List.mem_cons_of_mem _ (ih h)

/-- an association list with pairwise distinct keys finds every entry under its own key -/
theorem lookup_of_nodup {ps : Params α} (hnd : (ps.map Prod.fst).Nodup) :
    ∀ kt ∈ ps, lookup ps kt.1 = some kt.2 := by
  induction ps with
  | nil => intro kt h; cases h
  | cons p rest ih =>
    obtain ⟨k, u⟩ := p
    simp only [List.map_cons, List.nodup_cons] at hnd
    intro kt hkt
    rcases List.mem_cons.mp hkt with rfl | hm
    · simp [lookup]
    · have hne : k ≠ kt.1 := by
        intro e; apply hnd.1; rw [e]; exact List.mem_map_of_mem hm
      simp only [lookup, hne, if_false]
      exact ih hnd.2 kt hm

theorem preserveNet_mem {pol : NormPolicy} {mode : Mode} {old : Params α} :
    ∀ {new res : Params α}, preserveNet pol mode old new = some res →
      ∀ {key : String} {n : Tensor α}, (key, n) ∈ new →
        ∃ t, preserveKey pol mode old key n = some t ∧ (key, t) ∈ res
  | [], _, _, _, _, hm => by cases hm
  | (k, p) :: rest, res, h, key, n, hm => by
    simp only [preserveNet] at h
    cases h1 : preserveKey pol mode old k p with
    | none => simp [h1] at h
    | some t =>
      cases h2 : preserveNet pol mode old rest with
      | none => simp [h1, h2] at h
      | some r =>
        simp only [h1, h2, Option.some.injEq] at h
        subst h
        rcases List.mem_cons.mp hm with e | hm'
        · obtain ⟨rfl, rfl⟩ := Prod.mk.inj e
          exact ⟨t, h1, List.mem_cons_self⟩
        · obtain ⟨t', ht', hmem⟩ := preserveNet_mem h2 hm'
          exact ⟨t', ht', List.mem_cons_of_mem _ hmem⟩

theorem preserveNet_keys {pol : NormPolicy} {mode : Mode} {old : Params α} :
    ∀ {new res : Params α}, preserveNet pol mode old new = some res →
      res.map Prod.fst = new.map Prod.fst
  | [], res, h => by simp [preserveNet] at h; simp [← h]
  | (k, p) :: rest, res, h => by
    simp only [preserveNet] at h
    cases h1 : preserveKey pol mode old k p with
    | none => simp [h1] at h
    | some t =>
      cases h2 : preserveNet pol mode old rest with
      | none => simp [h1, h2] at h
      | some r =>
        simp only [h1, h2, Option.some.injEq] at h
        subst h
        simp [preserveNet_keys h2]

/-- same names, same shapes: `preserve_parameters` returns exactly the old parameters -/
theorem preserveNet_noop (pol : NormPolicy) (mode : Mode) (old : Params α)
    (hfun : ∀ kt ∈ old, lookup old kt.1 = some kt.2) :
    ∀ (suf new : Params α), (∀ kt ∈ suf, kt ∈ old) →
      suf.map (fun kt => (kt.1, kt.2.shape)) = new.map (fun kt => (kt.1, kt.2.shape)) →
      preserveNet pol mode old new = some suf
  | [], [], _, _ => rfl
  | [], _ :: _, _, h => by simp at h
  | _ :: _, [], _, h => by simp at h
  | (k, o) :: suf, (k', n) :: new, hsub, h => by
    simp only [List.map_cons, List.cons.injEq, Prod.mk.injEq] at h
    obtain ⟨⟨rfl, hs⟩, hrest⟩ := h
    have hl : lookup old k = some o := hfun (k, o) (hsub _ List.mem_cons_self)
    have ih := preserveNet_noop pol mode old hfun suf new
      (fun kt hkt => hsub kt (List.mem_cons_of_mem _ hkt)) hrest
    simp [preserveNet, preserveKey, hl, preserveT_same_shape _ _ _ _ _ hs, ih]

/-! ### load_state_dict -/

theorem load_map_eq (full : Params α) :
    ∀ (target src : Params α), target.map Prod.fst = src.map Prod.fst →
      (∀ kt ∈ src, lookup full kt.1 = some kt.2) →
      target.map (fun kt => (kt.1, (lookup full kt.1).getD kt.2)) = src
  | [], [], _, _ => rfl
  | [], _ :: _, h, _ => by simp at h
  | _ :: _, [], h, _ => by simp at h
  | p :: rest, q :: srest, h, hf => by
    simp only [List.map_cons, List.cons.injEq] at h
    have ih := load_map_eq full rest srest h.2 (fun kt hkt => hf kt (List.mem_cons_of_mem _ hkt))
    have hq := hf q List.mem_cons_self
    simp only [List.map_cons, ih, h.1, hq, Option.getD_some]

theorem loadStrict_same (target src : Params α) (hfun : ∀ kt ∈ src, lookup src kt.1 = some kt.2)
    (h : sameKeysShapes target src = true) : loadStrict target src = some src := by
  simp only [loadStrict, h, if_true, Option.some.injEq]
  have hk : target.map Prod.fst = src.map Prod.fst := by
    simp only [sameKeysShapes, beq_iff_eq] at h
    have := congrArg (List.map Prod.fst) h
    simpa [List.map_map, Function.comp_def] using this
  exact load_map_eq src target src hk hfun

theorem loadStrict_mismatch (target src : Params α) (h : sameKeysShapes target src = false) :
    loadStrict target src = none := by
  simp [loadStrict, h]

/-! ### wrapper clone -/

theorem cloneWrapper_map_eq (loadOwn : Bool) (isWrapped : String → Bool) (full : Params α) :
    ∀ (fresh self : Params α), fresh.map Prod.fst = self.map Prod.fst →
      (∀ kt ∈ self, lookup full kt.1 = some kt.2) →
      (∀ kt ∈ self, isWrapped kt.1 = true ∨ loadOwn = true) →
      fresh.map (fun kt => if isWrapped kt.1 || loadOwn then (kt.1, (lookup full kt.1).getD kt.2) else kt) = self
  | [], [], _, _, _ => rfl
  | [], _ :: _, h, _, _ => by simp at h
  | _ :: _, [], h, _, _ => by simp at h
  | p :: rest, q :: srest, h, hf, hw => by
    simp only [List.map_cons, List.cons.injEq] at h
    have ih := cloneWrapper_map_eq loadOwn isWrapped full rest srest h.2
      (fun kt hkt => hf kt (List.mem_cons_of_mem _ hkt)) (fun kt hkt => hw kt (List.mem_cons_of_mem _ hkt))
    have hq := hf q List.mem_cons_self
    have hc : (isWrapped q.1 || loadOwn) = true := by
      rcases hw q List.mem_cons_self with h1 | h1
      · rw [h1]; rfl
      · rw [h1]; simp
    simp only [List.map_cons, ih, h.1, hq, Option.getD_some, hc, if_true]

end Preserve
