import Model.Preserve
import Gen.PreserveGen
import Proofs.PreserveProv

/-!
  Proofs/PreserveGenEq.lean — the definitions GENERATED from the source text of
  `EvolvableModule.preserve_parameters`, `EvolvableCNN.shrink_preserve_parameters` (carry functions) and of
  `EvolvableModule.clone`, `EvolvableCNN.recreate_network`, `EvolvableMultiInput.recreate_network`,
  `EvolvableNetwork.recreate_encoder`, `Mutations.reinit_from_mutated` (wiring)
  (`Gen/PreserveGen.lean`, written by `harness/py2lean_preserve.py` on every run) agree with the hand-written
  model `Model/Preserve.lean`.

  The generated code works with Python dicts (`pyDict`, `pyUpdate`), torch basic indexing with arbitrary
  slices (`pyGetItem`, `pySetItem`: clipping, views, broadcasting of the assigned value) and integer
  arithmetic over `Int`; the model works with `lookup`, `copyBox` / `assign r` (slices `[0, min o n)` on the
  first `r` axes only) and `Nat`.  `toM` / `toMs` / `toState` map generated tensors, dicts and networks to the
  model's.  Main statements:

  * `setGet_eq_assign` — `new[S] = old[S]` for ANY tuple `S` whose slices select `[0, min o_k n_k)` on the
    first `r` axes of both tensors is the model's `assign r`; `zipSlices_range_*` — the tuple the source
    builds (`slice(0, min(o, n)) for o, n in zip(old_size, new_size)`) is of that kind with `r` = the
    shorter rank (`zip` truncates), `range_none_*` — so are `[:min_0]` and `[:min_0, :min_1]`;
  * `gen_preserve_parameters_body_eq`, `gen_shrink_preserve_parameters_body_eq` — one loop iteration =
    `preserveKey .slice .full` / `.shrink` (the repaired norm policy: no `"norm"` guard), for every dict,
    key and tensor, no hypothesis;
  * `gen_*_loop_eq` — the loop = `preserveNet`;
  * `gen_preserve_parameters_eq`, `gen_shrink_preserve_parameters_eq` — the function = `recreateMerged`
    (ONE dict of the old parameters and buffers serves new parameters and new buffers) under the invariant
    that the names of a network's parameters and buffers are pairwise distinct (what torch guarantees;
    shown satisfiable by an `example`); `recreateMerged_eq_recreate` — that is the model's `recreate` with
    `NormPolicy.slice`, `BufPolicy.carry` when no name is a parameter in one network and a buffer in the other;
  * `gen_cnn_recreate_network_eq`, `gen_recreate_encoder_eq`, `gen_multi_input_recreate_network_eq` — which
    network is `old`, which is `new`, which carry function the `shrink_params` flag selects;
  * `gen_clone_eq`, `gen_reinit_from_mutated_eq` — with the same architecture (names and shapes,
    `SameArchNet`) `load_state_dict` (strict or not) does not raise and the result is the source network.
    (On a mismatch torch loads the matching entries before it raises; the generated `clone` keeps that
    partially loaded state, the model's `clone` says "fresh" — no equality is claimed there.)
  If the source changes its behaviour these proofs stop checking; the C04 theorems are restated over the
  generated definitions in `Props/C04.lean` (`C04_source_translation_*`).  Core Lean only.
-/
namespace Preserve
open PreserveGen
variable {α : Type}

/-! ### the re-stated index arithmetic of the generated prelude is the model's -/

theorem gen_numel_eq : ∀ s : Shape, PreserveGen.numel s = Preserve.numel s
  | [] => rfl
  | d :: ds => by simp [PreserveGen.numel, Preserve.numel, gen_numel_eq ds]

theorem gen_inBounds_eq : ∀ (s : Shape) (i : List Nat), PreserveGen.inBounds s i = Preserve.inBounds s i
  | [], [] => rfl
  | [], _ :: _ => rfl
  | _ :: _, [] => rfl
  | d :: ds, i :: is => by simp [PreserveGen.inBounds, Preserve.inBounds, gen_inBounds_eq ds is]

theorem gen_offset_eq : ∀ (s : Shape) (i : List Nat), PreserveGen.offset s i = Preserve.offset s i
  | [], _ => by simp [PreserveGen.offset, Preserve.offset]
  | _ :: _, [] => by simp [PreserveGen.offset, Preserve.offset]
  | d :: ds, i :: is => by simp [PreserveGen.offset, Preserve.offset, gen_offset_eq ds is, gen_numel_eq]

theorem gen_unravel_eq : ∀ (s : Shape) (k : Nat), PreserveGen.unravel s k = Preserve.unravel s k
  | [], _ => rfl
  | d :: ds, k => by simp [PreserveGen.unravel, Preserve.unravel, gen_unravel_eq ds, gen_numel_eq]

theorem gen_stripLead_eq (rv : Nat) : ∀ s : Shape, PreserveGen.stripLead rv s = Preserve.stripLead rv s := by
  intro s
  fun_induction PreserveGen.stripLead rv s with
  | case1 rest h ih => rw [Preserve.stripLead, if_pos h, ih]
  | case2 rest h => rw [Preserve.stripLead, if_neg h]
  | case3 w h => 
    unfold Preserve.stripLead
    split
    · next rest => exact absurd rfl (h rest)
    · rfl

theorem gen_compat_eq : ∀ (s e : Shape), PreserveGen.compat s e = Preserve.compat s e
  | [], [] => rfl
  | [], _ :: _ => rfl
  | _ :: _, [] => rfl
  | d :: ds, e :: es => by simp [PreserveGen.compat, Preserve.compat, gen_compat_eq ds es]

theorem gen_alignIdx_eq : ∀ (s : Shape) (i : List Nat), PreserveGen.alignIdx s i = Preserve.alignIdx s i
  | [], _ => by simp [PreserveGen.alignIdx, Preserve.alignIdx]
  | _ :: _, [] => by simp [PreserveGen.alignIdx, Preserve.alignIdx]
  | d :: ds, i :: is => by simp [PreserveGen.alignIdx, Preserve.alignIdx, gen_alignIdx_eq ds is]


/-- `stripLead` only removes leading ones -/
theorem stripLead_ones (rv : Nat) (w : Shape) :
    w = List.replicate (w.length - (Preserve.stripLead rv w).length) 1 ++ Preserve.stripLead rv w := by
  fun_induction Preserve.stripLead rv w with
  | case1 rest h ih =>
    have hl : (Preserve.stripLead rv rest).length ≤ rest.length := by
      have := congrArg List.length ih
      simp at this; omega
    have e : (1 :: rest).length - (Preserve.stripLead rv rest).length
        = (rest.length - (Preserve.stripLead rv rest).length) + 1 := by simp; omega
    rw [e, List.replicate_succ, List.cons_append, ← ih]
  | case2 rest h => simp
  | case3 w h => simp

theorem inBounds_ones (p : Nat) (s : Shape) (x : List Nat) :
    Preserve.inBounds (List.replicate p 1 ++ s) (List.replicate p 0 ++ x) = Preserve.inBounds s x := by
  induction p with
  | zero => simp
  | succ p ih => simp [List.replicate_succ, Preserve.inBounds, ih]

theorem inBounds_align : ∀ (s e : Shape) (i : List Nat), Preserve.compat s e = true →
    Preserve.inBounds e i = true → Preserve.inBounds s (Preserve.alignIdx s i) = true
  | [], [], [], _, _ => by simp [Preserve.alignIdx, Preserve.inBounds]
  | [], [], _ :: _, _, h => by simp [Preserve.inBounds] at h
  | [], _ :: _, _, h, _ => by simp [Preserve.compat] at h
  | _ :: _, [], _, h, _ => by simp [Preserve.compat] at h
  | _ :: _, _ :: _, [], _, h => by simp [Preserve.inBounds] at h
  | d :: ds, e :: es, i :: is, hc, hi => by
    simp only [Preserve.compat, Bool.and_eq_true, Bool.or_eq_true, beq_iff_eq] at hc
    simp only [Preserve.inBounds, Bool.and_eq_true, decide_eq_true_eq] at hi
    simp only [Preserve.alignIdx, Preserve.inBounds, Bool.and_eq_true, decide_eq_true_eq]
    refine ⟨?_, inBounds_align ds es is hc.2 hi.2⟩
    split <;> omega

theorem inBounds_drop : ∀ (s : Shape) (i : List Nat) (n : Nat), Preserve.inBounds s i = true →
    Preserve.inBounds (s.drop n) (i.drop n) = true
  | s, i, 0, h => by simpa using h
  | [], [], n + 1, _ => by simp [Preserve.inBounds]
  | [], _ :: _, _ + 1, h => by simp [Preserve.inBounds] at h
  | _ :: _, [], _ + 1, h => by simp [Preserve.inBounds] at h
  | d :: ds, i :: is, n + 1, h => by
    simp only [Preserve.inBounds, Bool.and_eq_true] at h
    simpa using inBounds_drop ds is n h.2

/-- the element of the value that a view index reads (after broadcasting) exists -/
theorem inBounds_value (view w : Shape) (j : List Nat) (hj : Preserve.inBounds view j = true)
    (hc : Preserve.compat (Preserve.stripLead view.length w)
      (view.drop (view.length - (Preserve.stripLead view.length w).length)) = true) :
    Preserve.inBounds w (List.replicate (w.length - (Preserve.stripLead view.length w).length) 0 ++
      Preserve.alignIdx (Preserve.stripLead view.length w)
        (j.drop (view.length - (Preserve.stripLead view.length w).length))) = true := by
  have h1 := stripLead_ones view.length w
  generalize Preserve.stripLead view.length w = wst at *
  conv => lhs; arg 1; rw [h1]
  rw [inBounds_ones]
  exact inBounds_align _ _ _ hc (inBounds_drop _ _ _ hj)

/-! ### slices that start at 0 -/

theorem viewIdx_zero : ∀ (m : List Nat) (i : List Nat), viewIdx (m.map fun l => (0, l)) i = i
  | [], i => by simp [viewIdx]
  | _ :: _, [] => by simp [viewIdx]
  | a :: m, i :: is => by simp [viewIdx, viewIdx_zero m is]

theorem regionIdx_zero : ∀ (m : List Nat) (ns : Shape) (j : List Nat), m.length ≤ ns.length →
    regionIdx (m.map fun l => (0, l)) ns j =
      if Preserve.inBounds (m ++ ns.drop m.length) j = true then some j else none
  | [], ns, j, _ => by simp [regionIdx, gen_inBounds_eq]
  | _ :: _, [], _, h => by simp at h
  | a :: m, d :: ds, [], _ => by simp [regionIdx, Preserve.inBounds]
  | a :: m, d :: ds, j :: js, h => by
    have ih := regionIdx_zero m ds js (by simpa using h)
    simp only [List.map_cons, regionIdx, ih, Nat.zero_le, true_and, Nat.zero_add, Nat.sub_zero,
      List.length_cons, List.drop_succ_cons, List.cons_append, Preserve.inBounds, Bool.and_eq_true,
      decide_eq_true_eq]
    by_cases h1 : j < a <;> by_cases h2 : Preserve.inBounds (m ++ ds.drop m.length) js = true <;> simp [h1, h2]


/-! ### tensors -/

abbrev toM (t : PyTensor α) : Tensor α := ⟨t.shape, t.data⟩
abbrev ofM (t : Tensor α) : PyTensor α := ⟨t.shape, t.data⟩

@[simp] theorem toM_shape (t : PyTensor α) : (toM t).shape = t.shape := rfl
@[simp] theorem toM_data (t : PyTensor α) : (toM t).data = t.data := rfl
@[simp] theorem ofM_toM (t : PyTensor α) : ofM (toM t) = t := rfl
@[simp] theorem toM_ofM (t : Tensor α) : toM (ofM t) = t := rfl

theorem viewShape_zero (m : List Nat) (s : Shape) :
    viewShape (m.map fun l => (0, l)) s = m ++ s.drop m.length := by
  simp [viewShape, Function.comp_def]

/-- `new[S] = old[S]` for a tuple `S` of slices that select `[0, min o_k n_k)` on the first `r`
    axes of both tensors is the model's `assign r` -/
theorem setGet_eq_assign (old new : PyTensor α) (S : List PySlice) (r : Nat)
    (hr : r ≤ old.shape.length ∧ r ≤ new.shape.length)
    (ho : pyRanges old.shape S = some (((boxMin old.shape new.shape).take r).map fun l => (0, l)))
    (hn : pyRanges new.shape S = some (((boxMin old.shape new.shape).take r).map fun l => (0, l))) :
    (pyGetItem old S).bind (pySetItem new S) = (assign r (toM old) (toM new)).map ofM := by
  have hm : ((boxMin old.shape new.shape).take r).length = r := by
    simp [boxMin]; omega
  show _ = (assign r (⟨old.shape, old.data⟩ : Tensor α) ⟨new.shape, new.data⟩).map ofM
  simp only [pyGetItem, ho, Option.map_some, Option.bind_some, pySetItem, hn, assign, planAssign,
    hr, and_self, if_true, viewShape_zero, hm, gen_stripLead_eq, gen_compat_eq]
  split
  · next hc =>
    simp only [Option.map_some, ofM]
    congr 2
    apply List.ext_getElem?
    intro k
    simp only [List.getElem?_mapIdx, build]
    cases hk : new.data[k]? with
    | none => rfl
    | some x =>
      simp only [Option.map_some, Option.some.injEq, provAt, Assign.src, gen_unravel_eq]
      rw [regionIdx_zero _ new.shape _ (by omega), hm]
      by_cases hj : Preserve.inBounds ((boxMin old.shape new.shape).take r ++ new.shape.drop r)
          (Preserve.unravel new.shape k) = true
      · have hb := inBounds_value _ ((boxMin old.shape new.shape).take r ++ old.shape.drop r) _ hj hc.2
        simp only [hj, if_true, gen_inBounds_eq, gen_alignIdx_eq, hb, viewIdx_zero, gen_offset_eq, pick]
      · simp only [hj, pick]
        rfl
  · rfl

/-! ### the index tuples of the source -/

theorem pyClip_zero (d : Nat) : pyClip d 0 = 0 := by simp [pyClip]

theorem pyClip_pyMin_left (o n : Nat) : pyClip o (pyMin (o : Int) (n : Int)) = min o n := by
  unfold pyClip pyMin; split <;> split <;> omega

theorem pyClip_pyMin_right (o n : Nat) : pyClip n (pyMin (o : Int) (n : Int)) = min o n := by
  unfold pyClip pyMin; split <;> split <;> omega

/-- `tuple(slice(0, min(o, n)) for o, n in zip(old_size, new_size))` -/
def zipSlices (os ns : Shape) : List PySlice :=
  (List.zip os ns).map (fun (c0, c1) => PySlice.mk (some 0) (some (pyMin (c0 : Int) (c1 : Int))))

theorem zipSlices_length (os ns : Shape) : (zipSlices os ns).length = min os.length ns.length := by
  simp [zipSlices]

theorem zipSlices_range_left : ∀ (os ns : Shape),
    List.zipWith PySlice.range (zipSlices os ns) os = (boxMin os ns).map fun l => (0, l)
  | [], _ => by simp [zipSlices, boxMin]
  | _ :: _, [] => by simp [zipSlices, boxMin]
  | o :: os, n :: ns => by
    have ih := zipSlices_range_left os ns
    simp only [zipSlices, boxMin] at ih ⊢
    simp [ih, PySlice.range, pyClip_zero, pyClip_pyMin_left]

theorem zipSlices_range_right : ∀ (os ns : Shape),
    List.zipWith PySlice.range (zipSlices os ns) ns = (boxMin os ns).map fun l => (0, l)
  | [], _ => by simp [zipSlices, boxMin]
  | _ :: _, [] => by simp [zipSlices, boxMin]
  | o :: os, n :: ns => by
    have ih := zipSlices_range_right os ns
    simp only [zipSlices, boxMin] at ih ⊢
    simp [ih, PySlice.range, pyClip_zero, pyClip_pyMin_right]

theorem boxMin_take (os ns : Shape) : (boxMin os ns).take (min os.length ns.length) = boxMin os ns := by
  apply List.take_of_length_le; simp [boxMin]

theorem preserveT_slice_full (norm : Bool) (o p : Tensor α) (hs : o.shape ≠ p.shape) :
    preserveT .slice .full norm o p = assign (min o.shape.length p.shape.length) o p := by
  by_cases hl : o.shape.length = p.shape.length
  · have := assign_full_rank o p hl
    rw [hl, Nat.min_self] at this ⊢
    simp [preserveT, hs, hl, this]
  · simp [preserveT, hs, hl]

/-- the slice branch of `preserve_parameters` on one tensor -/
theorem gen_full_tensor (norm : Bool) (o p : PyTensor α) (hs : o.shape ≠ p.shape) :
    (pyGetItem o (zipSlices o.shape p.shape)).bind (pySetItem p (zipSlices o.shape p.shape)) =
      (preserveT .slice .full norm (toM o) (toM p)).map ofM := by
  rw [preserveT_slice_full norm _ _ (by simpa using hs)]
  apply setGet_eq_assign
  · exact ⟨Nat.min_le_left _ _, Nat.min_le_right _ _⟩
  · rw [boxMin_take, pyRanges, if_pos (by rw [zipSlices_length]; exact Nat.min_le_left _ _), zipSlices_range_left]
  · rw [boxMin_take, pyRanges, if_pos (by rw [zipSlices_length]; exact Nat.min_le_right _ _), zipSlices_range_right]

/-! ### dicts -/

def toMs (d : List (String × PyTensor α)) : Params α := d.map fun kt => (kt.1, toM kt.2)
def ofMs (d : Params α) : List (String × PyTensor α) := d.map fun kt => (kt.1, ofM kt.2)

@[simp] theorem toMs_nil : toMs ([] : List (String × PyTensor α)) = [] := rfl
@[simp] theorem toMs_cons (k : String) (t : PyTensor α) (r) : toMs ((k, t) :: r) = (k, toM t) :: toMs r := rfl
@[simp] theorem ofMs_toMs (d : List (String × PyTensor α)) : ofMs (toMs d) = d := by
  simp [ofMs, toMs, Function.comp_def]
@[simp] theorem toMs_ofMs (d : Params α) : toMs (ofMs d) = d := by
  simp [ofMs, toMs, Function.comp_def]
theorem toMs_append (a b : List (String × PyTensor α)) : toMs (a ++ b) = toMs a ++ toMs b := by simp [toMs]

theorem lookup_toMs : ∀ (d : PyDict α) (key : String), lookup (toMs d) key = (pyLookup d key).map toM
  | [], _ => rfl
  | (k, t) :: r, key => by
    simp only [toMs_cons, lookup, pyLookup]
    split
    · rfl
    · exact lookup_toMs r key

/-! ### one iteration -/

/-- the same tuple built in two steps (`[min(o, n) for …]`, then `slice(0, m) for m in …`) -/
theorem zipSlices_two_step (os ns : Shape) :
    ((List.zip os ns).map (fun (c0, c1) => pyMin (c0 : Int) (c1 : Int))).map
        (fun c2 => PySlice.mk (some 0) (some c2)) = zipSlices os ns := by
  simp [zipSlices, List.map_map, Function.comp_def]

/-- the operands of `zip` / `min` swapped: the same tuple -/
theorem zipSlices_swap : ∀ (os ns : Shape),
    (List.zip ns os).map (fun (c0, c1) => PySlice.mk (some 0) (some (pyMin (c0 : Int) (c1 : Int)))) = zipSlices os ns
  | [], ns => by cases ns <;> simp [zipSlices]
  | _ :: _, [] => by simp [zipSlices]
  | o :: os, n :: ns => by
    have ih := zipSlices_swap os ns
    simp only [zipSlices] at ih ⊢
    simp only [List.zip_cons_cons, List.map_cons, ih, List.cons.injEq, PySlice.mk.injEq, Option.some.injEq, true_and,
      and_true]
    unfold pyMin; split <;> split <;> omega

theorem gen_preserve_parameters_body_eq (old : PyDict α) (key : String) (p : PyTensor α) :
    EvolvableModule.preserve_parameters_body0 old key p =
      (preserveKey .slice .full (toMs old) key (toM p)).map ofM := by
  unfold EvolvableModule.preserve_parameters_body0
  simp only [preserveKey, lookup_toMs, pyContains]
  cases h : pyLookup old key with
  | none => simp
  | some o =>
    by_cases hs : o.shape = p.shape
    · have : (toM o).shape = (toM p).shape := hs
      simp [hs, preserveT_same_shape _ _ _ _ _ this]
    · have hs2 : ¬ p.shape = o.shape := fun e => hs e.symm
      have hk := gen_full_tensor (isNormKey key) o p hs
      have hk2 := hk
      rw [← zipSlices_swap] at hk2
      first
        | (simp only [Option.isSome_some, Option.map_some, hs, hs2, if_true, if_false, ne_eq, not_true_eq_false,
             not_false_eq_true, Bool.true_eq_false, reduceCtorEq, zipSlices_two_step, ← hk]
           try unfold zipSlices
           cases pyGetItem o _ with
           | none => rfl
           | some v =>
             simp only [Option.bind_some]
             cases pySetItem p _ v <;> rfl)
        | (simp only [Option.isSome_some, Option.map_some, hs, hs2, if_true, if_false, ne_eq, not_true_eq_false,
             not_false_eq_true, Bool.true_eq_false, reduceCtorEq, ← hk2]
           cases pyGetItem o _ with
           | none => rfl
           | some v =>
             simp only [Option.bind_some]
             cases pySetItem p _ v <;> rfl)

theorem pyIndex_zero (d : Nat) (ds : Shape) : pyIndex (d :: ds) 0 = some d := by simp [pyIndex]
theorem pyIndex_nil (i : Int) : pyIndex [] i = none := by
  simp only [pyIndex, List.length_nil]; split <;> simp
theorem pyIndex_one (d e : Nat) (ds : Shape) : pyIndex (d :: e :: ds) 1 = some e := by simp [pyIndex]
theorem pyIndex_one_single (d : Nat) : pyIndex [d] 1 = none := by simp [pyIndex]

theorem range_none_left (o n d : Nat) (h : d = o) :
    PySlice.range (PySlice.mk none (some (pyMin (o : Int) (n : Int)))) d = (0, min o n) := by
  subst h; simp [PySlice.range, pyClip_pyMin_left]

theorem range_none_right (o n d : Nat) (h : d = n) :
    PySlice.range (PySlice.mk none (some (pyMin (o : Int) (n : Int)))) d = (0, min o n) := by
  subst h; simp [PySlice.range, pyClip_pyMin_right]

theorem assign_none_of_rank (r : Nat) (o p : Tensor α) (h : ¬ (r ≤ o.shape.length ∧ r ≤ p.shape.length)) :
    assign r o p = none := by
  simp [assign, planAssign, h]

theorem gen_shrink_preserve_parameters_body_eq (old : PyDict α) (key : String) (p : PyTensor α) :
    EvolvableCNN.shrink_preserve_parameters_body0 old key p =
      (preserveKey .slice .shrink (toMs old) key (toM p)).map ofM := by
  unfold EvolvableCNN.shrink_preserve_parameters_body0
  simp only [preserveKey, lookup_toMs, pyContains]
  cases h : pyLookup old key with
  | none => simp
  | some o =>
    simp only [Option.isSome_some, if_true, Option.map_some]
    by_cases hs : o.shape = p.shape
    · have : (toM o).shape = (toM p).shape := hs
      simp [hs, preserveT_same_shape _ _ _ _ _ this]
    · rw [if_neg hs]
      obtain ⟨os, od⟩ := o
      obtain ⟨ns, nd⟩ := p
      simp only at hs
      simp only [preserveT, hs, if_false, sliceRank, reduceCtorEq, and_false]
      match os, ns, hs with
      | [], _, _ => simp [pyIndex_nil]
      | _ :: _, [], _ => simp [pyIndex_nil, pyIndex_zero]
      | o0 :: os', [n0], _ =>
        have key1 := setGet_eq_assign ⟨o0 :: os', od⟩ ⟨[n0], nd⟩ [PySlice.mk none (some (pyMin (o0 : Int) (n0 : Int)))] 1
          (by simp) (by simp [pyRanges, boxMin, range_none_left]) (by simp [pyRanges, boxMin, range_none_right])
        simp only [pyIndex_zero, List.length_cons, List.length_nil, Nat.zero_add]
        rw [if_pos (show ((1 : Nat) : Int) = 1 from rfl)]
        simp only [Nat.add_eq_zero_iff, Nat.succ_ne_self, and_false, or_self, if_false, if_true]
        rw [← key1]
        cases pyGetItem (⟨o0 :: os', od⟩ : PyTensor α) _ with
        | none => rfl
        | some v => simp only [Option.bind_some]; cases pySetItem _ _ v <;> rfl
      | [o0], n0 :: n1 :: ns', _ =>
        have : ((n0 :: n1 :: ns').length : Int) ≠ 1 := by simp; omega
        have hr : assign 2 (toM ⟨[o0], od⟩) (toM ⟨n0 :: n1 :: ns', nd⟩) = none :=
          assign_none_of_rank _ _ _ (by simp)
        simp only [pyIndex_zero, this, if_false, pyIndex_one_single]
        simp [hr]
      | o0 :: o1 :: os', n0 :: n1 :: ns', _ =>
        have hne : ((n0 :: n1 :: ns').length : Int) ≠ 1 := by simp; omega
        have key2 := setGet_eq_assign ⟨o0 :: o1 :: os', od⟩ ⟨n0 :: n1 :: ns', nd⟩
          [PySlice.mk none (some (pyMin (o0 : Int) (n0 : Int))), PySlice.mk none (some (pyMin (o1 : Int) (n1 : Int)))] 2
          (by simp) (by simp [pyRanges, boxMin, range_none_left]) (by simp [pyRanges, boxMin, range_none_right])
        simp only [pyIndex_zero, hne, if_false, pyIndex_one]
        simp only [List.length_cons, Nat.add_eq_zero_iff, Nat.succ_ne_self, and_false, or_self, if_false]
        have h1 : ¬ (ns'.length + 1 + 1 = 1) := by omega
        simp only [h1, if_false]
        rw [← key2]
        cases pyGetItem (⟨o0 :: o1 :: os', od⟩ : PyTensor α) _ with
        | none => rfl
        | some v => simp only [Option.bind_some]; cases pySetItem _ _ v <;> rfl

/-! ### `dict(...)`, `update`, the write-back -/

def keys (d : List (String × PyTensor α)) : List String := d.map Prod.fst

theorem pyInsert_fresh : ∀ (d : PyDict α) (k : String) (t : PyTensor α), k ∉ keys d →
    pyInsert d k t = d ++ [(k, t)]
  | [], _, _, _ => rfl
  | (k', t') :: r, k, t, h => by
    simp only [keys, List.map_cons, List.mem_cons, not_or] at h
    simp only [pyInsert, if_neg (Ne.symm h.1), List.cons_append]
    rw [pyInsert_fresh r k t h.2]

/-- distinct new keys are appended in order -/
theorem pyUpdate_append : ∀ (items d : List (String × PyTensor α)), (keys (d ++ items)).Nodup →
    pyUpdate d items = d ++ items
  | [], d, _ => by simp [pyUpdate]
  | (k, t) :: r, d, h => by
    have hk : k ∉ keys d := by
      simp only [keys, List.map_append, List.map_cons] at h
      have := (List.nodup_append.mp h).2.2
      intro hm
      exact this k hm k (by simp) rfl
    have h' : (keys ((d ++ [(k, t)]) ++ r)).Nodup := by simpa [keys] using h
    have ih := pyUpdate_append r (d ++ [(k, t)]) h'
    simp only [pyUpdate, List.foldl_cons] at ih ⊢
    rw [pyInsert_fresh d k t hk, ih]
    simp

theorem pyDict_update (ps bs : List (String × PyTensor α)) (h : (keys (ps ++ bs)).Nodup) :
    pyUpdate (pyDict ps) bs = ps ++ bs := by
  have h1 : (keys ps).Nodup := by
    simp only [keys, List.map_append] at h
    exact (List.nodup_append.mp h).1
  rw [pyDict, pyUpdate_append ps [] (by simpa using h1)]
  exact pyUpdate_append bs _ (by simpa using h)

theorem pyLookup_of_mem : ∀ (d : PyDict α) (k : String) (t : PyTensor α), (keys d).Nodup → (k, t) ∈ d →
    pyLookup d k = some t
  | (k', t') :: r, k, t, hnd, hm => by
    simp only [keys, List.map_cons, List.nodup_cons] at hnd
    simp only [List.mem_cons, Prod.mk.injEq] at hm
    rcases hm with ⟨rfl, rfl⟩ | hm
    · simp [pyLookup]
    · have : k' ≠ k := by
        rintro rfl
        exact hnd.1 (List.mem_map_of_mem (f := Prod.fst) hm)
      simp only [pyLookup, if_neg this]
      exact pyLookup_of_mem r k t hnd.2 hm

/-- writing back a dict that has exactly the network's names -/
theorem pyStore_split (net : PyNet α) (ps bs : List (String × PyTensor α))
    (hp : keys ps = keys net.named_parameters) (hb : keys bs = keys net.named_buffers)
    (hnd : (keys (net.named_parameters ++ net.named_buffers)).Nodup) :
    pyStore net (ps ++ bs) = ⟨ps, bs⟩ := by
  have hnd' : (keys (ps ++ bs)).Nodup := by
    have e : keys (ps ++ bs) = keys (net.named_parameters ++ net.named_buffers) := by
      simp only [keys, List.map_append] at hp hb ⊢
      rw [hp, hb]
    rw [e]; exact hnd
  have aux : ∀ (l l' : List (String × PyTensor α)), keys l' = keys l → (∀ kt ∈ l', kt ∈ ps ++ bs) →
      l.map (fun kt => (kt.1, (pyLookup (ps ++ bs) kt.1).getD kt.2)) = l' := by
    intro l
    induction l with
    | nil => intro l' h _; cases l' with
      | nil => rfl
      | cons a b => simp [keys] at h
    | cons a l ih =>
      intro l' h hm
      cases l' with
      | nil => simp [keys] at h
      | cons b l' =>
        simp only [keys, List.map_cons, List.cons.injEq] at h
        simp only [List.map_cons, List.cons.injEq]
        refine ⟨?_, ih l' h.2 (fun kt hk => hm kt (List.mem_cons_of_mem _ hk))⟩
        rw [← h.1, pyLookup_of_mem _ b.1 b.2 hnd' (hm b (List.mem_cons_self ..))]
        rfl
  simp only [pyStore]
  congr 1
  · exact aux _ _ hp (fun kt h => List.mem_append_left _ h)
  · exact aux _ _ hb (fun kt h => List.mem_append_right _ h)

/-! ### the loops -/

theorem preserveNet_cons (pol : NormPolicy) (mode : Mode) (old : Params α) (key : String) (p : Tensor α)
    (rest : Params α) :
    preserveNet pol mode old ((key, p) :: rest) =
      (preserveKey pol mode old key p).bind fun t => (preserveNet pol mode old rest).map fun r => (key, t) :: r := by
  simp only [preserveNet]
  cases preserveKey pol mode old key p <;> cases preserveNet pol mode old rest <;> rfl

theorem gen_preserve_parameters_loop_eq (old : PyDict α) : ∀ items : List (String × PyTensor α),
    EvolvableModule.preserve_parameters_loop0 old items =
      (preserveNet .slice .full (toMs old) (toMs items)).map ofMs
  | [] => rfl
  | (k, p) :: rest => by
    rw [EvolvableModule.preserve_parameters_loop0, gen_preserve_parameters_body_eq,
      gen_preserve_parameters_loop_eq old rest, toMs_cons, preserveNet_cons]
    cases preserveKey .slice .full (toMs old) k (toM p) <;>
      cases preserveNet .slice .full (toMs old) (toMs rest) <;> rfl

theorem gen_shrink_preserve_parameters_loop_eq (old : PyDict α) : ∀ items : List (String × PyTensor α),
    EvolvableCNN.shrink_preserve_parameters_loop0 old items =
      (preserveNet .slice .shrink (toMs old) (toMs items)).map ofMs
  | [] => rfl
  | (k, p) :: rest => by
    rw [EvolvableCNN.shrink_preserve_parameters_loop0, gen_shrink_preserve_parameters_body_eq,
      gen_shrink_preserve_parameters_loop_eq old rest, toMs_cons, preserveNet_cons]
    cases preserveKey .slice .shrink (toMs old) k (toM p) <;>
      cases preserveNet .slice .shrink (toMs old) (toMs rest) <;> rfl

/-! ### the functions -/

def toState (n : PyNet α) : NetState α := ⟨toMs n.named_parameters, toMs n.named_buffers⟩

/-- what the source does: ONE dict of the old parameters and buffers serves the new parameters and
    the new buffers -/
def recreateMerged (mode : Mode) (old fresh : NetState α) : Option (NetState α) :=
  match preserveNet .slice mode (old.params ++ old.buffers) fresh.params,
        preserveNet .slice mode (old.params ++ old.buffers) fresh.buffers with
  | some ps, some bs => some ⟨ps, bs⟩
  | _, _ => none

theorem preserveNet_append (pol : NormPolicy) (mode : Mode) (old : Params α) : ∀ (a b : Params α),
    preserveNet pol mode old (a ++ b) =
      match preserveNet pol mode old a, preserveNet pol mode old b with
      | some x, some y => some (x ++ y)
      | _, _ => none
  | [], b => by cases h : preserveNet pol mode old b <;> simp [preserveNet, h]
  | (k, p) :: a, b => by
    rw [List.cons_append, preserveNet_cons, preserveNet_cons, preserveNet_append pol mode old a b]
    cases preserveKey pol mode old k p <;> cases preserveNet pol mode old a <;>
      cases preserveNet pol mode old b <;> rfl

theorem keys_ofMs (d : Params α) : keys (ofMs d) = d.map Prod.fst := by
  simp [keys, ofMs, Function.comp_def]

theorem keys_toMs (d : List (String × PyTensor α)) : (toMs d).map Prod.fst = keys d := by
  simp [keys, toMs, Function.comp_def]

theorem gen_store_eq (mode : Mode) (old : PyDict α) (new : PyNet α)
    (hn : (keys (new.named_parameters ++ new.named_buffers)).Nodup) :
    ((preserveNet .slice mode (toMs old) (toMs (new.named_parameters ++ new.named_buffers))).map
        fun d => toState (pyStore new (ofMs d))) =
      match preserveNet .slice mode (toMs old) (toMs new.named_parameters),
            preserveNet .slice mode (toMs old) (toMs new.named_buffers) with
      | some ps, some bs => some ⟨ps, bs⟩
      | _, _ => none := by
  rw [toMs_append, preserveNet_append]
  cases hx : preserveNet .slice mode (toMs old) (toMs new.named_parameters) with
  | none => rfl
  | some x =>
    cases hy : preserveNet .slice mode (toMs old) (toMs new.named_buffers) with
    | none => rfl
    | some y =>
      simp only [Option.map_some, Option.some.injEq]
      have e : ofMs (x ++ y) = ofMs x ++ ofMs y := by simp [ofMs]
      rw [e, pyStore_split new (ofMs x) (ofMs y)
        (by rw [keys_ofMs, preserveNet_keys hx, keys_toMs]) (by rw [keys_ofMs, preserveNet_keys hy, keys_toMs]) hn]
      simp [toState]

/-- `EvolvableModule.preserve_parameters(old_net, new_net)` -/
theorem gen_preserve_parameters_eq (old new : PyNet α)
    (ho : (keys (old.named_parameters ++ old.named_buffers)).Nodup)
    (hn : (keys (new.named_parameters ++ new.named_buffers)).Nodup) :
    (EvolvableModule.preserve_parameters old new).map toState =
      recreateMerged .full (toState old) (toState new) := by
  simp only [EvolvableModule.preserve_parameters, pyDict_update _ _ ho, pyDict_update _ _ hn,
    gen_preserve_parameters_loop_eq, recreateMerged, toState, ← toMs_append]
  rw [← gen_store_eq .full _ new hn]
  cases preserveNet .slice .full (toMs (old.named_parameters ++ old.named_buffers))
    (toMs (new.named_parameters ++ new.named_buffers)) <;> rfl

/-- `EvolvableCNN.shrink_preserve_parameters(old_net, new_net)` -/
theorem gen_shrink_preserve_parameters_eq (old new : PyNet α)
    (ho : (keys (old.named_parameters ++ old.named_buffers)).Nodup)
    (hn : (keys (new.named_parameters ++ new.named_buffers)).Nodup) :
    (EvolvableCNN.shrink_preserve_parameters old new).map toState =
      recreateMerged .shrink (toState old) (toState new) := by
  simp only [EvolvableCNN.shrink_preserve_parameters, pyDict_update _ _ ho, pyDict_update _ _ hn,
    gen_shrink_preserve_parameters_loop_eq, recreateMerged, toState, ← toMs_append]
  rw [← gen_store_eq .shrink _ new hn]
  cases preserveNet .slice .shrink (toMs (old.named_parameters ++ old.named_buffers))
    (toMs (new.named_parameters ++ new.named_buffers)) <;> rfl

/-! ### the merged dict against `recreate` -/

theorem lookup_append (a b : Params α) (k : String) :
    lookup (a ++ b) k = match lookup a k with
      | some t => some t
      | none => lookup b k := by
  induction a with
  | nil => rfl
  | cons x a ih =>
    obtain ⟨k', t⟩ := x
    simp only [List.cons_append, lookup]
    split
    · rfl
    · exact ih

theorem preserveNet_congr (pol : NormPolicy) (mode : Mode) (old old' : Params α) : ∀ (new : Params α),
    (∀ kt ∈ new, lookup old kt.1 = lookup old' kt.1) →
    preserveNet pol mode old new = preserveNet pol mode old' new
  | [], _ => rfl
  | (k, p) :: rest, h => by
    rw [preserveNet_cons, preserveNet_cons,
      preserveNet_congr pol mode old old' rest (fun kt hk => h kt (List.mem_cons_of_mem _ hk))]
    have := h (k, p) (List.mem_cons_self ..)
    simp only [preserveKey, this]

/-- no name is a parameter in one network and a buffer in the other: the merged dict is the model's
    `recreate` with the repaired switches (`NormPolicy.slice`, `BufPolicy.carry`) -/
theorem recreateMerged_eq_recreate (mode : Mode) (old fresh : NetState α)
    (h1 : ∀ kt ∈ fresh.params, lookup old.buffers kt.1 = none)
    (h2 : ∀ kt ∈ fresh.buffers, lookup old.params kt.1 = none) :
    recreateMerged mode old fresh = recreate .slice .carry mode old fresh := by
  have e1 : preserveNet .slice mode (old.params ++ old.buffers) fresh.params =
      preserveNet .slice mode old.params fresh.params :=
    preserveNet_congr _ _ _ _ _ (fun kt hk => by
      rw [lookup_append, h1 kt hk]; cases lookup old.params kt.1 <;> rfl)
  have e2 : preserveNet .slice mode (old.params ++ old.buffers) fresh.buffers =
      preserveNet .slice mode old.buffers fresh.buffers :=
    preserveNet_congr _ _ _ _ _ (fun kt hk => by rw [lookup_append, h2 kt hk])
  simp only [recreateMerged, recreate, e1, e2]
  cases preserveNet .slice mode old.params fresh.params <;>
    cases preserveNet .slice mode old.buffers fresh.buffers <;> rfl

/-! ### the methods that build a new network and carry the weights over -/

/-- `EvolvableCNN.recreate_network(shrink_params)`: the flag selects the carry function; old = `self.model`,
    new = the network just built -/
theorem gen_cnn_recreate_network_eq (model fresh : PyNet α) (shrink : Bool)
    (ho : (keys (model.named_parameters ++ model.named_buffers)).Nodup)
    (hn : (keys (fresh.named_parameters ++ fresh.named_buffers)).Nodup) :
    (EvolvableCNN.recreate_network model shrink fresh).map toState =
      recreateMerged (if shrink then .shrink else .full) (toState model) (toState fresh) := by
  cases shrink
  · have := gen_preserve_parameters_eq model fresh ho hn
    simp only [EvolvableCNN.recreate_network, Bool.false_eq_true, if_false] at this ⊢
    rw [← this]
    cases EvolvableModule.preserve_parameters model fresh <;> rfl
  · have := gen_shrink_preserve_parameters_eq model fresh ho hn
    simp only [EvolvableCNN.recreate_network, if_true] at this ⊢
    rw [← this]
    cases EvolvableCNN.shrink_preserve_parameters model fresh <;> rfl

/-- `EvolvableNetwork.recreate_encoder`: old = `self.encoder`, new = the encoder just built -/
theorem gen_recreate_encoder_eq (encoder fresh : PyNet α)
    (ho : (keys (encoder.named_parameters ++ encoder.named_buffers)).Nodup)
    (hn : (keys (fresh.named_parameters ++ fresh.named_buffers)).Nodup) :
    (EvolvableNetwork.recreate_encoder encoder fresh).map toState =
      recreateMerged .full (toState encoder) (toState fresh) := by
  rw [← gen_preserve_parameters_eq encoder fresh ho hn]
  simp only [EvolvableNetwork.recreate_encoder]
  cases EvolvableModule.preserve_parameters encoder fresh <;> rfl

/-- `EvolvableMultiInput.recreate_network`: the feature extractors and the final dense layer are each
    carried over from their own predecessor -/
theorem gen_multi_input_recreate_network_eq (fnet dense f0 f1 : PyNet α)
    (h1 : (keys (fnet.named_parameters ++ fnet.named_buffers)).Nodup)
    (h2 : (keys (f0.named_parameters ++ f0.named_buffers)).Nodup)
    (h3 : (keys (dense.named_parameters ++ dense.named_buffers)).Nodup)
    (h4 : (keys (f1.named_parameters ++ f1.named_buffers)).Nodup) :
    (EvolvableMultiInput.recreate_network fnet dense f0 f1).map (fun r => (toState r.1, toState r.2)) =
      match recreateMerged .full (toState fnet) (toState f0), recreateMerged .full (toState dense) (toState f1) with
      | some a, some b => some (a, b)
      | _, _ => none := by
  rw [← gen_preserve_parameters_eq fnet f0 h1 h2, ← gen_preserve_parameters_eq dense f1 h3 h4]
  simp only [EvolvableMultiInput.recreate_network]
  cases EvolvableModule.preserve_parameters fnet f0 <;>
    cases EvolvableModule.preserve_parameters dense f1 <;> rfl

/-! ### `load_state_dict` -/

theorem pyLoadEntries_same (sd : List (String × PyTensor α)) : ∀ (l l' : List (String × PyTensor α)),
    (∀ kt ∈ l', pyLookup sd kt.1 = some kt.2) →
    l.map (fun kt => (kt.1, kt.2.shape)) = l'.map (fun kt => (kt.1, kt.2.shape)) →
    pyLoadEntries sd l = l' ∧ pyLoadErrors true sd l = false
  | [], [], _, _ => ⟨rfl, rfl⟩
  | [], _ :: _, _, h => by simp at h
  | _ :: _, [], _, h => by simp at h
  | (k, t) :: l, (k', t') :: l', hl, h => by
    simp only [List.map_cons, List.cons.injEq, Prod.mk.injEq] at h
    obtain ⟨⟨rfl, hs⟩, hr⟩ := h
    have ih := pyLoadEntries_same sd l l' (fun kt hk => hl kt (List.mem_cons_of_mem _ hk)) hr
    have h0 := hl (k, t') (List.mem_cons_self ..)
    simp only at h0
    simp only [pyLoadEntries, pyLoadErrors, List.map_cons, List.any_cons, h0, hs.symm, if_true] at ih ⊢
    exact ⟨by rw [ih.1], by simp [ih.2]⟩

theorem pyLookup_append (a b : List (String × PyTensor α)) (k : String) :
    pyLookup (a ++ b) k = match pyLookup a k with
      | some t => some t
      | none => pyLookup b k := by
  induction a with
  | nil => rfl
  | cons x a ih =>
    obtain ⟨k', t⟩ := x
    simp only [List.cons_append, pyLookup]
    split
    · rfl
    · exact ih

theorem pyLookup_none_of_not_mem : ∀ (d : List (String × PyTensor α)) (k : String), k ∉ keys d → pyLookup d k = none
  | [], _, _ => rfl
  | (k', t) :: r, k, h => by
    simp only [keys, List.map_cons, List.mem_cons, not_or] at h
    simp only [pyLookup, if_neg (Ne.symm h.1)]
    exact pyLookup_none_of_not_mem r k h.2

/-- `same architecture`: names and shapes of parameters and of buffers agree, in order -/
def SameArchNet (a b : PyNet α) : Prop :=
  a.named_parameters.map (fun kt => (kt.1, kt.2.shape)) = b.named_parameters.map (fun kt => (kt.1, kt.2.shape)) ∧
  a.named_buffers.map (fun kt => (kt.1, kt.2.shape)) = b.named_buffers.map (fun kt => (kt.1, kt.2.shape))

theorem keys_of_shapes {a b : List (String × PyTensor α)}
    (h : a.map (fun kt => (kt.1, kt.2.shape)) = b.map (fun kt => (kt.1, kt.2.shape))) : keys a = keys b := by
  have := congrArg (List.map Prod.fst) h
  simpa [keys, Function.comp_def] using this

/-- loading the state dict of a network of the same architecture gives that network's state and does
    not raise (strict or not) -/
theorem pyLoadStateDict_same (strict : Bool) (fresh self : PyNet α) (hs : SameArchNet fresh self)
    (hnd : (keys (self.named_parameters ++ self.named_buffers)).Nodup) :
    pyLoadStateDict strict fresh (pyStateDict self) = (self, false) := by
  have hp : ∀ kt ∈ self.named_parameters, pyLookup (pyStateDict self) kt.1 = some kt.2 := fun kt hk =>
    pyLookup_of_mem _ kt.1 kt.2 hnd (List.mem_append_left _ hk)
  have hb : ∀ kt ∈ self.named_buffers, pyLookup (pyStateDict self) kt.1 = some kt.2 := fun kt hk =>
    pyLookup_of_mem _ kt.1 kt.2 hnd (List.mem_append_right _ hk)
  obtain ⟨e1, x1⟩ := pyLoadEntries_same (pyStateDict self) _ _ hp hs.1
  obtain ⟨e2, x2⟩ := pyLoadEntries_same (pyStateDict self) _ _ hb hs.2
  have x1' : pyLoadErrors strict (pyStateDict self) fresh.named_parameters = false := by
    cases strict
    · simp only [pyLoadErrors, List.any_eq_false] at x1 ⊢
      intro kt hk; have := x1 kt hk
      cases h : pyLookup (pyStateDict self) kt.1 <;> simp_all
    · exact x1
  have x2' : pyLoadErrors strict (pyStateDict self) fresh.named_buffers = false := by
    cases strict
    · simp only [pyLoadErrors, List.any_eq_false] at x2 ⊢
      intro kt hk; have := x2 kt hk
      cases h : pyLookup (pyStateDict self) kt.1 <;> simp_all
    · exact x2
  have hk : keys (pyStateDict fresh) = keys (pyStateDict self) := by
    simp only [pyStateDict, keys, List.map_append]
    have a := keys_of_shapes hs.1; have b := keys_of_shapes hs.2
    simp only [keys] at a b; rw [a, b]
  have x3 : ((pyStateDict self).any fun kt => !(pyContains (pyStateDict fresh) kt.1)) = false := by
    simp only [List.any_eq_false, Bool.not_eq_true, Bool.not_eq_false', pyContains]
    intro kt hkt
    have hm : kt.1 ∈ keys (pyStateDict fresh) := by
      rw [hk]; exact List.mem_map_of_mem (f := Prod.fst) hkt
    cases hl : pyLookup (pyStateDict fresh) kt.1 with
    | some _ => rfl
    | none =>
      exfalso
      have : ∀ (d : List (String × PyTensor α)) (k : String), k ∈ keys d → pyLookup d k ≠ none := by
        intro d
        induction d with
        | nil => intro k h; simp [keys] at h
        | cons x d ih =>
          intro k h
          obtain ⟨k', t⟩ := x
          simp only [pyLookup]
          split
          · simp
          · next hne =>
            simp only [keys, List.map_cons, List.mem_cons] at h
            rcases h with h | h
            · exact absurd h.symm hne
            · exact ih k h
      exact this _ _ hm hl
  simp only [pyLoadStateDict, e1, e2, x1', x2', x3, Bool.and_false, Bool.or_false]

/-- `EvolvableModule.clone`: when `cls(**init_dict)` rebuilds the same architecture the clone's state is
    the original's (= the model's `clone`) -/
theorem gen_clone_eq (self fresh : PyNet α) (hs : SameArchNet fresh self)
    (hnd : (keys (self.named_parameters ++ self.named_buffers)).Nodup) :
    EvolvableModule.clone self fresh = some self := by
  simp only [EvolvableModule.clone, pyLoadStateDict_same true fresh self hs hnd]

/-- `Mutations.reinit_from_mutated` (single network): the re-created shared / target network takes the
    mutated evaluation network's state -/
theorem gen_reinit_from_mutated_eq (offspring fresh : PyNet α) (hs : SameArchNet fresh offspring)
    (hnd : (keys (offspring.named_parameters ++ offspring.named_buffers)).Nodup) :
    Mutations.reinit_from_mutated offspring fresh = some offspring := by
  simp [Mutations.reinit_from_mutated, pyLoadStateDict_same false fresh offspring hs hnd]

/-! ### consequences used by `Props/C04.lean` -/

/-- all tensors of a network, parameters first -/
def allT (n : PyNet α) : Params α := toMs (n.named_parameters ++ n.named_buffers)

theorem recreateMerged_all (mode : Mode) (old fresh st : NetState α) (h : recreateMerged mode old fresh = some st) :
    preserveNet .slice mode (old.params ++ old.buffers) (fresh.params ++ fresh.buffers) =
      some (st.params ++ st.buffers) := by
  rw [preserveNet_append]
  simp only [recreateMerged] at h
  cases hx : preserveNet .slice mode (old.params ++ old.buffers) fresh.params with
  | none => simp [hx] at h
  | some x =>
    cases hy : preserveNet .slice mode (old.params ++ old.buffers) fresh.buffers with
    | none => simp [hx, hy] at h
    | some y =>
      simp only [hx, hy, Option.some.injEq] at h
      subst h; rfl

theorem gen_preserve_parameters_all (old new res : PyNet α)
    (ho : (keys (old.named_parameters ++ old.named_buffers)).Nodup)
    (hn : (keys (new.named_parameters ++ new.named_buffers)).Nodup)
    (h : EvolvableModule.preserve_parameters old new = some res) :
    preserveNet .slice .full (allT old) (allT new) = some (allT res) := by
  have e := gen_preserve_parameters_eq old new ho hn
  rw [h] at e
  have := recreateMerged_all .full _ _ _ e.symm
  simpa [allT, toState, toMs_append] using this

theorem gen_shrink_preserve_parameters_all (old new res : PyNet α)
    (ho : (keys (old.named_parameters ++ old.named_buffers)).Nodup)
    (hn : (keys (new.named_parameters ++ new.named_buffers)).Nodup)
    (h : EvolvableCNN.shrink_preserve_parameters old new = some res) :
    preserveNet .slice .shrink (allT old) (allT new) = some (allT res) := by
  have e := gen_shrink_preserve_parameters_eq old new ho hn
  rw [h] at e
  have := recreateMerged_all .shrink _ _ _ e.symm
  simpa [allT, toState, toMs_append] using this

theorem toMs_inj : ∀ {a b : List (String × PyTensor α)}, toMs a = toMs b → a = b
  | [], [], _ => rfl
  | [], _ :: _, h => by simp [toMs] at h
  | _ :: _, [], h => by simp [toMs] at h
  | (k, t) :: a, (k', t') :: b, h => by
    simp only [toMs_cons, List.cons.injEq, Prod.mk.injEq, toM, Tensor.mk.injEq] at h
    obtain ⟨⟨rfl, hs, hd⟩, hr⟩ := h
    cases t; cases t'
    simp only at hs hd
    subst hs; subst hd
    rw [toMs_inj hr]

theorem toState_inj {a b : PyNet α} (h : toState a = toState b) : a = b := by
  cases a; cases b
  simp only [toState, NetState.mk.injEq] at h
  rw [toMs_inj h.1, toMs_inj h.2]

theorem nodup_of_sameArch {a b : PyNet α} (hs : SameArchNet a b)
    (hb : (keys (b.named_parameters ++ b.named_buffers)).Nodup) :
    (keys (a.named_parameters ++ a.named_buffers)).Nodup := by
  have e1 := keys_of_shapes hs.1
  have e2 := keys_of_shapes hs.2
  simp only [keys, List.map_append] at e1 e2 hb ⊢
  rw [e1, e2]; exact hb

theorem recreateMerged_noop (mode : Mode) (old fresh : PyNet α) (hs : SameArchNet old fresh)
    (ho : (keys (old.named_parameters ++ old.named_buffers)).Nodup) :
    recreateMerged mode (toState old) (toState fresh) = some (toState old) := by
  have hnd : ((toMs (old.named_parameters ++ old.named_buffers)).map Prod.fst).Nodup := by
    rw [keys_toMs]; exact ho
  have hf := lookup_of_nodup hnd
  have sh : ∀ (a b : List (String × PyTensor α)),
      a.map (fun kt => (kt.1, kt.2.shape)) = b.map (fun kt => (kt.1, kt.2.shape)) →
      (toMs a).map (fun kt => (kt.1, kt.2.shape)) = (toMs b).map (fun kt => (kt.1, kt.2.shape)) := by
    intro a b h; simpa [toMs, Function.comp_def] using h
  have e1 := preserveNet_noop .slice mode _ hf (toMs old.named_parameters) (toMs fresh.named_parameters)
    (fun kt hk => by rw [toMs_append]; exact List.mem_append_left _ hk) (sh _ _ hs.1)
  have e2 := preserveNet_noop .slice mode _ hf (toMs old.named_buffers) (toMs fresh.named_buffers)
    (fun kt hk => by rw [toMs_append]; exact List.mem_append_right _ hk) (sh _ _ hs.2)
  rw [toMs_append] at e1 e2
  simp only [recreateMerged, toState, e1, e2]

/-- an unchanged architecture: `preserve_parameters` returns the old network's state, all of it -/
theorem gen_preserve_parameters_noop (old fresh : PyNet α) (hs : SameArchNet old fresh)
    (ho : (keys (old.named_parameters ++ old.named_buffers)).Nodup) :
    EvolvableModule.preserve_parameters old fresh = some old := by
  have hn : (keys (fresh.named_parameters ++ fresh.named_buffers)).Nodup :=
    nodup_of_sameArch ⟨hs.1.symm, hs.2.symm⟩ ho
  have e := gen_preserve_parameters_eq old fresh ho hn
  rw [recreateMerged_noop .full old fresh hs ho] at e
  cases h : EvolvableModule.preserve_parameters old fresh with
  | none => simp [h] at e
  | some x =>
    simp only [h, Option.map_some, Option.some.injEq] at e
    rw [toState_inj e]

theorem gen_shrink_preserve_parameters_noop (old fresh : PyNet α) (hs : SameArchNet old fresh)
    (ho : (keys (old.named_parameters ++ old.named_buffers)).Nodup) :
    EvolvableCNN.shrink_preserve_parameters old fresh = some old := by
  have hn : (keys (fresh.named_parameters ++ fresh.named_buffers)).Nodup :=
    nodup_of_sameArch ⟨hs.1.symm, hs.2.symm⟩ ho
  have e := gen_shrink_preserve_parameters_eq old fresh ho hn
  rw [recreateMerged_noop .shrink old fresh hs ho] at e
  cases h : EvolvableCNN.shrink_preserve_parameters old fresh with
  | none => simp [h] at e
  | some x =>
    simp only [h, Option.map_some, Option.some.injEq] at e
    rw [toState_inj e]

/-! ### the invariants are satisfiable -/

example : (keys ([("w", ⟨[2, 3], [1, 2, 3, 4, 5, 6]⟩), ("b", ⟨[2], [7, 8]⟩)] ++
    [("bn.running_mean", (⟨[2], [0, 0]⟩ : PyTensor Nat))])).Nodup := by decide

example : SameArchNet (⟨[("w", ⟨[2], [0, 0]⟩)], [("m", ⟨[1], [0]⟩)]⟩ : PyNet Nat)
    ⟨[("w", ⟨[2], [4, 5]⟩)], [("m", ⟨[1], [9]⟩)]⟩ := by
  constructor <;> decide

/-- the generated function on a concrete pair: a `[2,3]` weight grown to `[3,4]`, a new bias, a carried buffer -/
example : (EvolvableModule.preserve_parameters
      (⟨[("w", ⟨[2, 3], [1, 2, 3, 4, 5, 6]⟩)], [("m", ⟨[2], [7, 8]⟩)]⟩ : PyNet Nat)
      ⟨[("w", ⟨[3, 4], [0, 0, 0, 0, 0, 0, 0, 0, 0, 0, 0, 0]⟩), ("b", ⟨[3], [9, 9, 9]⟩)], [("m", ⟨[3], [0, 0, 0]⟩)]⟩).map toState =
    some ⟨[("w", ⟨[3, 4], [1, 2, 3, 0, 4, 5, 6, 0, 0, 0, 0, 0]⟩), ("b", ⟨[3], [9, 9, 9]⟩)], [("m", ⟨[3], [7, 8, 0]⟩)]⟩ := by
  decide

end Preserve
