import Model.Preserve

/-! Index arithmetic of row-major tensors: `offset` / `unravel` are mutually inverse bijections
    between in-bounds multi-indices and `[0, numel)`.  Core Lean only. -/
namespace Preserve

theorem inBounds_cons {d : Nat} {ds : Shape} {i : Nat} {is : List Nat} :
    inBounds (d :: ds) (i :: is) = true ↔ i < d ∧ inBounds ds is = true := by
  simp [inBounds]

theorem inBounds_nil_left {idx : List Nat} : inBounds [] idx = true ↔ idx = [] := by
  cases idx <;> simp [inBounds]

theorem inBounds_length : ∀ {s : Shape} {idx : List Nat}, inBounds s idx = true → idx.length = s.length
  | [], [], _ => rfl
  | [], _ :: _, h => by simp [inBounds] at h
  | _ :: _, [], h => by simp [inBounds] at h
  | d :: ds, i :: is, h => by
    have := inBounds_length (inBounds_cons.mp h).2
    simp [this]

theorem offset_lt : ∀ {s : Shape} {idx : List Nat}, inBounds s idx = true → offset s idx < numel s
  | [], [], _ => by simp [offset, numel]
  | [], _ :: _, h => by simp [inBounds] at h
  | _ :: _, [], h => by simp [inBounds] at h
  | d :: ds, i :: is, h => by
    obtain ⟨hi, hr⟩ := inBounds_cons.mp h
    have ih := offset_lt hr
    have h1 : (i + 1) * numel ds ≤ d * numel ds := Nat.mul_le_mul_right _ hi
    rw [Nat.succ_mul] at h1
    simp only [offset, numel]
    generalize i * numel ds = a at h1 ⊢
    generalize d * numel ds = b at h1 ⊢
    omega

theorem unravel_offset : ∀ {s : Shape} {idx : List Nat}, inBounds s idx = true →
    unravel s (offset s idx) = idx
  | [], [], _ => rfl
  | [], _ :: _, h => by simp [inBounds] at h
  | _ :: _, [], h => by simp [inBounds] at h
  | d :: ds, i :: is, h => by
    obtain ⟨_, hr⟩ := inBounds_cons.mp h
    have hlt := offset_lt hr
    have ih := unravel_offset hr
    have hpos : 0 < numel ds := by omega
    simp only [offset, unravel]
    have e1 : (i * numel ds + offset ds is) / numel ds = i := by
      rw [Nat.add_comm, Nat.add_mul_div_right _ _ hpos, Nat.div_eq_of_lt hlt, Nat.zero_add]
    have e2 : (i * numel ds + offset ds is) % numel ds = offset ds is := by
      rw [Nat.add_comm, Nat.add_mul_mod_self_right, Nat.mod_eq_of_lt hlt]
    rw [e1, e2, ih]

theorem offset_unravel : ∀ {s : Shape} {k : Nat}, k < numel s →
    offset s (unravel s k) = k ∧ inBounds s (unravel s k) = true
  | [], k, h => by
    simp only [numel] at h
    simp [unravel, offset, inBounds]; omega
  | d :: ds, k, h => by
    simp only [numel] at h
    have hpos : 0 < numel ds := by
      rcases Nat.eq_zero_or_pos (numel ds) with h0 | h0
      · rw [h0] at h; simp at h
      · exact h0
    have hm : k % numel ds < numel ds := Nat.mod_lt _ hpos
    obtain ⟨ih1, ih2⟩ := offset_unravel hm
    have hd : k / numel ds < d := by
      rw [Nat.div_lt_iff_lt_mul hpos]; exact h
    refine ⟨?_, ?_⟩
    · simp only [unravel, offset, ih1]
      exact Nat.div_add_mod' k (numel ds)
    · simp only [unravel]
      exact inBounds_cons.mpr ⟨hd, ih2⟩

theorem offset_inj {s : Shape} {a b : List Nat} (ha : inBounds s a = true) (hb : inBounds s b = true)
    (h : offset s a = offset s b) : a = b := by
  rw [← unravel_offset ha, ← unravel_offset hb, h]

/-- in-bounds of the component-wise minimum = in-bounds of both (equal ranks) -/
theorem inBounds_boxMin : ∀ {os ns : Shape} {idx : List Nat}, os.length = ns.length →
    (inBounds (boxMin os ns) idx = true ↔ inBounds os idx = true ∧ inBounds ns idx = true)
  | [], [], idx, _ => by simp [boxMin]
  | [], _ :: _, _, h => by simp at h
  | _ :: _, [], _, h => by simp at h
  | o :: os, n :: ns, [], _ => by simp [boxMin, inBounds]
  | o :: os, n :: ns, i :: is, h => by
    have hl : os.length = ns.length := by simpa using h
    have ih := inBounds_boxMin (idx := is) hl
    simp only [boxMin] at ih
    simp only [boxMin, List.zipWith_cons_cons, inBounds_cons, ih]
    constructor
    · rintro ⟨h1, h2, h3⟩; exact ⟨⟨by omega, h2⟩, ⟨by omega, h3⟩⟩
    · rintro ⟨⟨h1, h2⟩, ⟨h3, h4⟩⟩; exact ⟨by omega, h2, h4⟩

end Preserve
