import Model.Preserve
import Gen.PreserveMaGen
import Proofs.PreserveGenEq

/-!
  Proofs/PreserveMaGenEq.lean — the definitions GENERATED from the list branch of the weight plumbing of
  `agilerl/hpo/mutation.py` (`Mutations.load_state_dicts`, `reinit_from_mutated`, `_apply_arch_mutation`, the clone
  comprehension of `get_offspring_eval_modules`) and from the mutation decorator of `agilerl/modules/base.py`
  (`MutationContext.{__enter__, _resolve_final_mutation_attr, __exit__}`, `_mutation_wrapper.wrapped`)
  (`Gen/PreserveMaGen.lean`, written by `harness/py2lean_preservema.py` on every run) agree with the hand-written model
  (`Model/Preserve.lean`: `loadLoose`, `loadList`, `reinitList`, `applyList`, `Deco.enter / resolve / exit / wrapBody`).

  * `gen_load_loose_eq`, `gen_load_state_dicts_eq`, `gen_reinit_from_mutated_list_eq` — for every list of modules /
    state dicts / offspring / fresh networks (also of different lengths: `zip` truncates) and every
    `remove_compile_prefix` function; no hypothesis besides "the model's prefix function is the generated one's";
  * `gen_apply_arch_mutation_list_eq` — for every dynamic call function, every method argument, every keyword list;
  * `gen_offspring_list_same` — the clone comprehension under "same architecture position by position";
  * `gen_enter_eq`, `gen_resolve_eq`, `gen_exit_eq`, `pyWrapOut_eq`, `gen_wrapped_eq` — the decorator: what is read from
    other objects (`getattr` chain, `.wrapped`) is passed to the model as values (`nestedOf`).
-/
namespace Preserve
open PreserveGen PreserveMaGen
variable {α σ κ : Type}

/-! ### non-strict `load_state_dict` -/

theorem looseEntries_toMs (sd l : List (String × PyTensor α)) :
    looseEntries (toMs sd) (toMs l) = toMs (pyLoadEntries sd l) := by
  simp only [looseEntries, pyLoadEntries, toMs, List.map_map]
  apply List.map_congr_left
  intro kt _
  have := lookup_toMs sd kt.1
  simp only [toMs] at this
  simp only [Function.comp, this]
  cases pyLookup sd kt.1 with
  | none => rfl
  | some s =>
    simp only [Option.map_some]
    by_cases h : s.shape = kt.2.shape <;> simp [h]

theorem looseErr_toMs (sd l : List (String × PyTensor α)) :
    looseErr (toMs sd) (toMs l) = pyLoadErrors false sd l := by
  simp only [looseErr, pyLoadErrors, toMs, List.any_map]
  congr 1
  funext kt
  have := lookup_toMs sd kt.1
  simp only [toMs] at this
  simp only [Function.comp, this]
  cases pyLookup sd kt.1 <;> rfl

/-- `module.load_state_dict(sd, strict=False)` as the generated code performs it is the model's `loadLoose` -/
theorem gen_load_loose_eq (t : PyNet α) (sd : SD α) :
    (if (pyLoadStateDict false t sd).2 = true then none else some (toState (pyLoadStateDict false t sd).1)) =
      loadLoose (toState t) (toMs sd) := by
  simp only [pyLoadStateDict, loadLoose, toState, looseErr_toMs, looseEntries_toMs, Bool.false_and, Bool.or_false]

theorem gen_load_state_dicts_loop_eq (rcp : SD α → SD α) (rcp' : Params α → Params α)
    (hr : ∀ sd, toMs (rcp sd) = rcp' (toMs sd)) (strip : Bool) :
    ∀ (ms : List (PyNet α)) (sds : List (SD α)),
      (Mutations.load_state_dicts rcp ms sds strip).map (List.map toState) =
        loadList rcp' strip (ms.map toState) (sds.map toMs)
  | [], sds => by simp [Mutations.load_state_dicts, Mutations.load_state_dicts_loop0, loadList, zipInPlace]
  | m :: ms, [] => by
    simp [Mutations.load_state_dicts, Mutations.load_state_dicts_loop0, loadList, zipInPlace]
  | m :: ms, sd :: sds => by
    have ih := gen_load_state_dicts_loop_eq rcp rcp' hr strip ms sds
    have h1 := gen_load_loose_eq m (if strip = true then rcp sd else sd)
    have e : toMs (if strip = true then rcp sd else sd) = (if strip = true then rcp' (toMs sd) else toMs sd) := by
      cases strip <;> simp [hr]
    rw [e] at h1
    simp only [Mutations.load_state_dicts, List.zip_cons_cons, Mutations.load_state_dicts_loop0, loadList,
      List.map_cons, zipInPlace] at ih ⊢
    rw [← h1, ← ih]
    by_cases hb : (pyLoadStateDict false m (if strip = true then rcp sd else sd)).2 = true
    · simp [hb]
    · simp only [hb]
      cases Mutations.load_state_dicts_loop0 rcp strip (ms.zip sds) <;> simp

/-- **`Mutations.load_state_dicts` = the model's `loadList`** -/
theorem gen_load_state_dicts_eq (rcp : SD α → SD α) (rcp' : Params α → Params α)
    (hr : ∀ sd, toMs (rcp sd) = rcp' (toMs sd)) (strip : Bool) (ms : List (PyNet α)) (sds : List (SD α)) :
    (Mutations.load_state_dicts rcp ms sds strip).map (List.map toState) =
      loadList rcp' strip (ms.map toState) (sds.map toMs) :=
  gen_load_state_dicts_loop_eq rcp rcp' hr strip ms sds

theorem stateDict_toState (n : PyNet α) : stateDict (toState n) = toMs (pyStateDict n) := by
  simp [stateDict, toState, pyStateDict, toMs]

theorem zipWith_snd_map {β γ δ ε : Type} (f : γ → ε) (g : β → δ) : ∀ (xs : List β) (ys : List γ),
    (List.zipWith (fun _ n => n) xs ys).map f = List.zipWith (fun _ n => n) (xs.map g) (ys.map f)
  | [], _ => rfl
  | _ :: _, [] => rfl
  | x :: xs, y :: ys => by simp [zipWith_snd_map f g xs ys]

/-- **`Mutations.reinit_from_mutated`, list branch = the model's `reinitList`** -/
theorem gen_reinit_from_mutated_list_eq (rcp : SD α → SD α) (rcp' : Params α → Params α)
    (hr : ∀ sd, toMs (rcp sd) = rcp' (toMs sd)) (strip : Bool) (offs fresh : List (PyNet α)) :
    (Mutations.reinit_from_mutated_list rcp offs strip fresh).map (List.map toState) =
      reinitList rcp' strip (offs.map toState) (fresh.map toState) := by
  have h := gen_load_state_dicts_eq rcp rcp' hr strip (pyFreshEach offs fresh) (offs.map fun c => pyStateDict c)
  simp only [Mutations.reinit_from_mutated_list, reinitList]
  have e1 : (pyFreshEach offs fresh).map toState =
      List.zipWith (fun _ n => n) (offs.map toState) (fresh.map toState) := zipWith_snd_map toState toState offs fresh
  have e2 : (offs.map fun c => pyStateDict c).map toMs = (offs.map toState).map stateDict := by
    simp [List.map_map, Function.comp_def, stateDict_toState]
  rw [e1, e2] at h
  rw [← h]
  cases Mutations.load_state_dicts rcp (pyFreshEach offs fresh) (offs.map fun c => pyStateDict c) strip <;> rfl

end Preserve

namespace Preserve
open PreserveGen PreserveMaGen
variable {α σ κ : Type}

/-! ### `_apply_arch_mutation`, list branch -/

/-- the two stores `net.last_mutation_attr = None; net.last_mutation = None` -/
def pyClear (e : PyObj σ) : PyObj σ := { { e with last_mutation_attr := none } with last_mutation := none }

theorem gen_apply_loop_eq (call : PyObj σ → String → κ → Option (PyObj σ × Option κ)) (empty : κ)
    (ms : List (Option String)) (ks : List κ) : ∀ (i : Nat) (nets : List (PyObj σ)),
    Mutations._apply_arch_mutation_loop0 call empty ms ks (pyEnumFrom i nets) =
      applyLoop call pyClear (·.last_mutation_attr) empty ms ks i nets
  | _, [] => rfl
  | i, e :: rest => by
    have ih := gen_apply_loop_eq call empty ms ks (i + 1) rest
    simp only [pyEnumFrom, Mutations._apply_arch_mutation_loop0, applyLoop, applyAt, ih]
    cases h1 : ms[i]? with
    | none => rfl
    | some m =>
      cases m with
      | none =>
        simp only [pyClear]
        cases applyLoop call pyClear (·.last_mutation_attr) empty ms ks (i + 1) rest <;> rfl
      | some s =>
        simp only []
        cases h2 : ks[i]? with
        | none => rfl
        | some kw =>
          simp only []
          cases h3 : call e s kw with
          | none => rfl
          | some r =>
            simp only []
            cases applyLoop call pyClear (·.last_mutation_attr) empty ms ks (i + 1) rest with
            | none => rfl
            | some out => cases h4 : r.2 <;> simp [Option.getD]

def methsToSum : PyMeths → Option String ⊕ List (Option String)
  | .one m => .inl m
  | .many l => .inr l

/-- **`Mutations._apply_arch_mutation`, list branch = the model's `applyList`** -/
theorem gen_apply_arch_mutation_list_eq (call : PyObj σ → String → κ → Option (PyObj σ × Option κ)) (empty : κ)
    (nets : List (PyObj σ)) (meth : PyMeths) (kws : Option (List κ)) :
    Mutations._apply_arch_mutation_list call empty nets meth kws =
      applyList call pyClear (·.last_mutation_attr) empty nets (methsToSum meth) kws := by
  simp only [Mutations._apply_arch_mutation_list, applyList, gen_apply_loop_eq]
  cases meth <;> cases kws <;> rfl

/-! ### the clone comprehension of `get_offspring_eval_modules` -/

/-- `R` holds position by position and the lists have the same length -/
def AllPairs {β γ : Type} (R : β → γ → Prop) : List β → List γ → Prop
  | [], [] => True
  | x :: xs, y :: ys => R x y ∧ AllPairs R xs ys
  | _, _ => False

/-- with the same architectures position by position the offspring list is the list of the originals' states -/
theorem gen_offspring_list_same : ∀ (selfs fresh : List (PyNet α)),
    AllPairs (fun f s => SameArchNet f s ∧ (keys (s.named_parameters ++ s.named_buffers)).Nodup) fresh selfs →
    get_offspring_eval_modules_list selfs fresh = some selfs
  | [], [], _ => rfl
  | s :: ss, f :: fs, h => by
    obtain ⟨h1, h2⟩ := h
    have ih := gen_offspring_list_same ss fs h2
    simp only [get_offspring_eval_modules_list] at ih ⊢
    simp only [pyZipM, gen_clone_eq s f h1.1 h1.2]
    cases hz : pyZipM (fun c0 new => EvolvableModule.clone c0 new) ss fs with
    | none => simp [hz] at ih
    | some r => simp [hz] at ih; simp [ih]
  | [], _ :: _, h => by cases h
  | _ :: _, [], h => by cases h

/-! ### the decorator -/
namespace Deco

def toMeth (m : PyMeth) : Meth := ⟨m.name, m._recreate_kwargs⟩
def toEv : PyEv → DEv
  | .recreate k => .recreate k
  | .hook => .hook
def toMod (m : PyMod) : Mod :=
  { depth := m._mutation_depth, last := m.last_mutation.map toMeth, lastAttr := m.last_mutation_attr,
    methods := m.mutation_methods, forwarded := m._mutations_forwarded, isWrapper := m.is_wrapper,
    hasHook := m.has_hook, recreateParams := m.recreate_params, log := m.log.map toEv }

theorem gen_split_eq (s : String) : pySplit '.' s = splitDot s := by
  have : ∀ (cs cur : List Char), pySplitAux '.' cs cur = splitAux '.' cs cur := by
    intro cs
    induction cs with
    | nil => intro cur; rfl
    | cons c cs ih => intro cur; simp only [pySplitAux, splitAux, ih]
  simp only [pySplit, splitDot, this]

theorem gen_hasPrefix_eq : ∀ (p s : List Char), pyHasPrefix p s = hasPrefix p s
  | [], _ => rfl
  | _ :: _, [] => rfl
  | p :: ps, c :: cs => by simp only [pyHasPrefix, hasPrefix, gen_hasPrefix_eq ps cs]

theorem gen_hasInfix_eq (p : List Char) : ∀ s : List Char, pyHasInfix p s = hasInfix p s
  | [] => rfl
  | c :: cs => by simp only [pyHasInfix, hasInfix, gen_hasPrefix_eq, gen_hasInfix_eq p cs]

theorem gen_dotted_eq (s : String) : pyStrContains "." s = dotted s := by
  simp only [pyStrContains, dotted, gen_hasInfix_eq]
  rfl

/-- **`MutationContext.__enter__`** -/
theorem gen_enter_eq (m : PyMod) (meth : PyMeth) (attr : String) :
    toMod (MutationContext.__enter__ m meth attr) = enter (toMod m) (toMeth meth) attr := rfl

/-- what the generated `_resolve_final_mutation_attr` reads from OTHER objects: the nested module's
    `last_mutation_attr` along the dotted path -/
def nestedOf (getattr : PyMod → String → Option PyMod) (m : PyMod) : Option (Option String) :=
  match m.last_mutation_attr with
  | some a => (pyGetattrChain getattr m ((pySplit '.' a).take ((pySplit '.' a).length - 1))).map (·.last_mutation_attr)
  | none => some none

/-- **`MutationContext._resolve_final_mutation_attr`** -/
theorem gen_resolve_eq (getattr : PyMod → String → Option PyMod) (wrapped : PyMod → PyMod) (m : PyMod)
    (meth : PyMeth) (attr : String) :
    MutationContext._resolve_final_mutation_attr getattr wrapped m meth attr =
      resolve (toMod m) (nestedOf getattr m) (wrapped m).last_mutation_attr := by
  simp only [MutationContext._resolve_final_mutation_attr, resolve, nestedOf, toMod, gen_dotted_eq]
  cases h : m.last_mutation_attr with
  | none => simp only []; split <;> simp_all
  | some a =>
    simp only [gen_split_eq]
    by_cases hd : dotted a = true
    · simp only [hd, if_true]
      cases pyGetattrChain getattr m ((splitDot a).take ((splitDot a).length - 1)) with
      | none => rfl
      | some c =>
        simp only [Option.map_some]
        cases c.last_mutation_attr <;> rfl
    · simp only [hd, if_false, Bool.false_eq_true]
      split <;> simp_all

end Deco
end Preserve

namespace Preserve
namespace Deco
open PreserveGen PreserveMaGen
variable {κ : Type}

/-- the module record when `__exit__` has decremented the depth -/
def decr (m : PyMod) : PyMod := { m with _mutation_depth := m._mutation_depth - 1 }

theorem filter_nil_kwargs (meth : PyMeth) (ps : List String) (h : meth._recreate_kwargs = []) :
    (toMeth meth).kwargs.filter (fun c => decide (c.1 ∈ ps)) = [] := by
  simp [toMeth, h]

/-- **`MutationContext.__exit__` = the model's closed form `Deco.exit`** (`tbl` = the module's method table:
    `getattr(module, name)` does not depend on the bookkeeping fields) -/
theorem gen_exit_eq (getattr : PyMod → String → Option PyMod) (wrapped : PyMod → PyMod) (tbl : String → PyMeth)
    (m : PyMod) (meth : PyMeth) (attr : String) :
    (MutationContext.__exit__ getattr wrapped (fun _ s => tbl s) m meth attr).map toMod =
      exit (toMod m) (toMeth meth) (nestedOf getattr (decr m)) (wrapped (decr m)).last_mutation_attr
        (fun s => toMeth (tbl s)) := by
  simp only [MutationContext.__exit__, exit, gen_resolve_eq, gen_dotted_eq]
  by_cases hd : m._mutation_depth - 1 = 0
  · have hd' : (toMod m).depth - 1 = 0 := hd
    have e : decr m = { m with _mutation_depth := 0 } := by simp [decr, hd]
    have hr : ∀ n w, resolve (toMod { m with _mutation_depth := 0 }) n w = resolve (toMod m) n w := fun _ _ => rfl
    rw [e]
    simp only [hd, hd', if_true, ne_eq, not_true_eq_false, if_false, hr]
    generalize nestedOf getattr { m with _mutation_depth := 0 } = nst
    generalize (wrapped { m with _mutation_depth := 0 }).last_mutation_attr = wl
    cases resolve (toMod m) nst wl with
    | none => rfl
    | some fin =>
      cases fin with
      | none =>
        simp only [recreates]
        by_cases hh : m.has_hook = true <;> simp [hh, toMod, toEv]
      | some a =>
        simp only [recreates]
        by_cases hdot : dotted a = true <;> by_cases hw : m.is_wrapper = true <;>
          by_cases hk : meth._recreate_kwargs = [] <;> by_cases hh : m.has_hook = true <;>
          simp [hdot, hw, hk, hh, toMod, toEv, toMeth]
  · have hd' : ¬ (toMod m).depth - 1 = 0 := hd
    simp only [hd, hd', if_false, ne_eq, not_false_eq_true, if_true]
    rfl

/-- the outcome of the `with` body (module record, result) in the generated types -/
def pyWrapOut (body : PyMod → PyMeth → PyMod × PyRes κ) (nested : PyMod → String → PyMod × PyRes κ)
    (m : PyMod) (meth : PyMeth) (attr : String) : PyMod × PyRes κ :=
  let m0 := MutationContext.__enter__ m meth attr
  if attr ∉ m0.mutation_methods ∧ m0._mutations_forwarded = false then
    ({ m0 with last_mutation_attr := none, last_mutation := none }, PyRes.ret none)
  else if pyStrContains "." attr = true then nested m0 attr else body m0 meth

/-- … is the model's `wrapBody` after the model's `enter` -/
theorem pyWrapOut_eq (body : PyMod → PyMeth → PyMod × PyRes κ) (nested : PyMod → String → PyMod × PyRes κ)
    (m : PyMod) (meth : PyMeth) (attr : String) :
    (toMod (pyWrapOut body nested m meth attr).1, (pyWrapOut body nested m meth attr).2) =
      wrapBody (PyRes.ret none) (enter (toMod m) (toMeth meth) attr) attr
        (toMod (body (MutationContext.__enter__ m meth attr) meth).1, (body (MutationContext.__enter__ m meth attr) meth).2)
        (toMod (nested (MutationContext.__enter__ m meth attr) attr).1, (nested (MutationContext.__enter__ m meth attr) attr).2) := by
  rw [← gen_enter_eq]
  simp only [pyWrapOut, wrapBody, gen_dotted_eq]
  generalize MutationContext.__enter__ m meth attr = m0
  by_cases h1 : attr ∈ m0.mutation_methods <;> by_cases h2 : m0._mutations_forwarded = true <;>
    by_cases h3 : dotted attr = true <;> simp [h1, h2, h3, toMod]

/-- **`_mutation_wrapper.wrapped` = `__enter__`, the body (`wrapBody`), `__exit__` on every path; the outcome of the
    body is what the caller sees** -/
theorem gen_wrapped_eq (getattr : PyMod → String → Option PyMod) (wrapped : PyMod → PyMod) (tbl : String → PyMeth)
    (body : PyMod → PyMeth → PyMod × PyRes κ) (nested : PyMod → String → PyMod × PyRes κ)
    (m : PyMod) (meth : PyMeth) (attr : String) :
    _mutation_wrapper.wrapped getattr wrapped (fun _ s => tbl s) body nested m meth attr =
      (MutationContext.__exit__ getattr wrapped (fun _ s => tbl s) (pyWrapOut body nested m meth attr).1 meth attr).map
        fun m1 => (m1, (pyWrapOut body nested m meth attr).2) := by
  have e : (if (¬ attr ∈ (MutationContext.__enter__ m meth attr).mutation_methods ∧
        ¬ (MutationContext.__enter__ m meth attr)._mutations_forwarded = true) then
        (({ ({ MutationContext.__enter__ m meth attr with last_mutation_attr := none } : PyMod) with last_mutation := none } : PyMod),
          (PyRes.ret none : PyRes κ))
      else if pyStrContains "." attr = true then nested (MutationContext.__enter__ m meth attr) attr
      else body (MutationContext.__enter__ m meth attr) meth) = pyWrapOut body nested m meth attr := by
    simp only [pyWrapOut]
    by_cases h2 : (MutationContext.__enter__ m meth attr)._mutations_forwarded = true <;> simp [h2]
  simp only [_mutation_wrapper.wrapped, e]
  cases MutationContext.__exit__ getattr wrapped (fun _ s => tbl s) (pyWrapOut body nested m meth attr).1 meth attr <;> rfl

end Deco
end Preserve
