import Proofs.PreserveAssign

/-! The provenance map the driver prints (`provT`, computed from key class and shapes only) describes
    exactly what `preserveT` does to the data. Core Lean only. -/
namespace Preserve
variable {α : Type}

/-- materialise a provenance map: element `k` of the result is `pick old v p[k]` -/
def applyProv (p : List Src) (od nd : List α) : List α :=
  nd.mapIdx fun k v => pick od v (p.getD k .fresh)

theorem applyProv_tab (f : Nat → Src) (n : Nat) (od nd : List α) (hn : nd.length = n) :
    applyProv ((List.range n).map f) od nd = nd.mapIdx fun k v => pick od v (f k) := by
  apply List.ext_getElem?
  intro k
  simp only [applyProv, List.getElem?_mapIdx]
  cases hk : nd[k]? with
  | none => rfl
  | some v =>
    have hlt : k < n := by
      rw [← hn]; exact (List.getElem?_eq_some_iff.mp hk).1
    simp [List.getD_eq_getElem?_getD, hlt]

theorem applyProv_build (os ns : Shape) (src) (od nd : List α) (hn : nd.length = numel ns) :
    applyProv ((List.range (numel ns)).map (provAt os ns src)) od nd = build os ns src od nd := by
  rw [applyProv_tab _ _ _ _ hn]; rfl

theorem applyProv_old (od nd : List α) (n : Nat) (ho : od.length = n) (hn : nd.length = n) :
    applyProv ((List.range n).map Src.old) od nd = od := by
  rw [applyProv_tab _ _ _ _ hn]
  apply List.ext_getElem?
  intro k
  simp only [List.getElem?_mapIdx, pick]
  by_cases hk : k < n
  · have h1 : k < nd.length := by omega
    have h2 : k < od.length := by omega
    simp [List.getElem?_eq_getElem h1, List.getElem?_eq_getElem h2]
  · have h1 : nd[k]? = none := List.getElem?_eq_none (by omega)
    have h2 : od[k]? = none := List.getElem?_eq_none (by omega)
    simp [h1, h2]

theorem applyProv_fresh (od nd : List α) (n : Nat) (hn : nd.length = n) :
    applyProv ((List.range n).map fun _ => Src.fresh) od nd = nd := by
  rw [applyProv_tab _ _ _ _ hn]
  apply List.ext_getElem?
  intro k
  simp only [List.getElem?_mapIdx, pick]
  cases nd[k]? <;> rfl

/-- the driver's provenance map is sound and complete for `preserveT`: they raise together, and
    otherwise the result has the new shape and its data is the materialised provenance map -/
theorem provT_spec (pol : NormPolicy) (mode : Mode) (norm : Bool) (old new : Tensor α)
    (ho : old.WF) (hn : new.WF) :
    match provT pol mode norm old.shape new.shape, preserveT pol mode norm old new with
    | none, none => True
    | some p, some t => t.shape = new.shape ∧ t.data = applyProv p old.data new.data
    | _, _ => False := by
  unfold Tensor.WF at ho hn
  by_cases hs : old.shape = new.shape
  · simp only [provT, preserveT, hs, if_true]
    exact ⟨trivial, (applyProv_old _ _ _ (by rw [ho, hs]) hn).symm⟩
  · by_cases hp : norm = true ∧ pol = .reset
    · simp only [provT, preserveT, hs, hp, and_self, if_true, if_false]
      exact ⟨trivial, (applyProv_fresh _ _ _ hn).symm⟩
    · have key : ∀ r, match (planAssign r old.shape new.shape).map
            (fun a => (List.range (numel new.shape)).map (provAt old.shape new.shape a.src)),
          assign r old new with
          | none, none => True
          | some p, some t => t.shape = new.shape ∧ t.data = applyProv p old.data new.data
          | _, _ => False := by
        intro r
        simp only [assign]
        cases planAssign r old.shape new.shape with
        | none => trivial
        | some a => exact ⟨rfl, (applyProv_build _ _ _ _ _ hn).symm⟩
      cases mode with
      | full =>
        by_cases hl : old.shape.length = new.shape.length
        · simp only [provT, preserveT, hs, hp, hl, if_true, if_false]
          exact ⟨rfl, (applyProv_build _ _ _ _ _ hn).symm⟩
        · simp only [provT, preserveT, hs, hp, hl, if_false]
          exact key _
      | shrink =>
        simp only [provT, preserveT, hs, hp, if_false]
        cases sliceRank .shrink old.shape new.shape with
        | none => trivial
        | some r => exact key r

end Preserve
