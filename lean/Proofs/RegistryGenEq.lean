import Gen.RegistryGen
import Model.Coherence
/-
  Proofs/RegistryGenEq.lean — the definitions GENERATED from agilerl/algorithms/core/registry.py and base.py
  (`Gen/RegistryGen.lean`) equal the registry model of `Model/Coherence.lean` (`RegData`, `registryCheck`,
  `WellFormedRegistry`), for all registries.
-/
namespace RegistryGenEq
open Coherence RegistryGen

def toG (g : Grp) : RGroup := { eval := g.eval, shared := g.shared, policy := g.policy, multi := g.multiagent }
def toO (o : OptCfg) : ROpt := { name := o.name, nets := o.networks, lr := o.lr, multi := o.multiagent }

/-- the generated registry-as-data as the model's -/
def toModel (r : RegistryData) : RegData :=
  { groups := r.registry.groups.map toG, opts := r.registry.optimizers.map toO, hooks := r.registry.hooks,
    hps := r.registry.hp_config, evolvable := r.evolvable, attrs := r.attrs }

theorem flatMap_single {α β} (l : List α) (f : α → β) : (l.flatMap fun x => [f x]) = l.map f := by
  induction l with
  | nil => rfl
  | cons a t ih => simp [List.flatMap_cons, ih]

theorem flatMap_filter {α} (l : List α) (p : α → Bool) : (l.flatMap fun x => if p x then [x] else []) = l.filter p := by
  induction l with
  | nil => rfl
  | cons a t ih => by_cases h : p a <;> simp [List.flatMap_cons, List.filter_cons, h, ih]

theorem asList_eq (o : Option (List Nat)) : asList o = o.getD [] := by cases o <;> rfl

theorem gen_all_registered_eq (r : RegistryData) : all_registered r.registry = (toModel r).registered := by
  simp only [all_registered, RegData.registered, toModel, flatMap_single, List.map_map, List.flatMap_map]
  congr 1
  congr 1
  induction r.registry.groups with
  | nil => rfl
  | cons g t ih =>
    simp only [List.flatMap_cons, ih]
    cases hg : g.shared <;> simp [asList, RGroup.sharedL, toG, hg, flatMap_single]

theorem forReturn_eq {α β} (l : List α) (p : α → Bool) (f : α → β) :
    (forReturn l fun x => if p x then some (f x) else none) = (l.find? p).map f := by
  induction l with
  | nil => rfl
  | cons a t ih => by_cases h : p a <;> simp [forReturn, List.find?_cons, h, ih]

theorem gen_policy_eq (r : RegistryData) : policy r.registry = (toModel r).policy := by
  simp only [policy, RegData.policy, toModel]
  rw [forReturn_eq r.registry.groups (fun g => g.policy) (fun g => g.eval)]
  induction r.registry.groups with
  | nil => rfl
  | cons a t ih => by_cases h : a.policy <;> simp [List.find?_cons, toG, h] at ih ⊢ <;> exact ih

theorem gen_optimizer_networks_eq (r : RegistryData) :
    optimizer_networks r.registry = (toModel r).opts.map fun o => (o.name, o.nets) := by
  simp [optimizer_networks, toModel, flatMap_single, toO, Function.comp_def]

@[simp] theorem seq_ok (b : M Unit) : seq (.ok ()) b = b := rfl
@[simp] theorem seq_err (e : String) (b : M Unit) : seq (.error e) b = .error e := rfl

theorem forM'_eq {α} (l : List α) (p : α → Bool) (e : String) :
    (forM' l fun x => seq (if p x then .error e else .ok ()) (.ok ())) = if l.all (fun x => !p x) then .ok () else .error e := by
  induction l with
  | nil => rfl
  | cons a t ih => by_cases h : p a <;> simp [forM', h, ih]

def errOf : Option RegError → M Unit
  | none => .ok ()
  | some _ => .error "AttributeError"

theorem init_aux (b1 b2 b3 b4 : Bool) :
    seq (if (!!b1) = true then Except.error "AttributeError" else Except.ok ())
        (seq (if (!b2) = true then Except.error "AttributeError" else Except.ok ())
          (seq (if (!b3) = true then Except.error "AttributeError" else Except.ok ())
            (seq
              (if True then seq (if b4 = true then Except.ok () else Except.error "AttributeError") (Except.ok ())
              else Except.ok ())
              (Except.ok ())))) =
      errOf
        (if b1 = true then some RegError.noGroups
        else
          if (!b2) = true then some RegError.notRegistered
          else if (!b3) = true then some RegError.noPolicy else if (!b4) = true then some RegError.hpMissing else none) := by
  cases b1 <;> cases b2 <;> cases b3 <;> cases b4 <;> rfl

/-- `_registry_init` raises exactly when the model's check fails, and always `AttributeError` -/
theorem gen_registry_init_eq (r : RegistryData) : registry_init r = errOf (registryCheck (toModel r)) := by
  have hreg := gen_all_registered_eq r
  unfold registry_init registryCheck
  simp only [hreg, flatMap_single, flatMap_filter, forM'_eq, asList_eq]
  have hg : (toModel r).groups.isEmpty = r.registry.groups.isEmpty := by simp [toModel]
  have hp : (toModel r).groups.any (·.policy) = (r.registry.groups.map fun g => g.policy).any id := by
    simp [toModel, List.any_map, Function.comp_def, toG]
  have he : (toModel r).evolvable = r.evolvable := rfl
  have ha : (toModel r).attrs = r.attrs := rfl
  have hh : (toModel r).hps = r.registry.hp_config := rfl
  rw [hg, hp, he, ha, hh]
  have hnf : (r.evolvable.filter fun attr => !(toModel r).registered.contains attr).isEmpty
      = r.evolvable.all fun a => (toModel r).registered.contains a := by
    rw [Bool.eq_iff_iff]; simp [List.isEmpty_iff, List.filter_eq_nil_iff]
  rw [hnf]
  generalize r.registry.groups.isEmpty = b1
  generalize (r.evolvable.all fun a => (toModel r).registered.contains a) = b2
  generalize (r.registry.groups.map fun g => g.policy).any id = b3
  cases h4 : r.registry.hp_config with
  | none => cases b1 <;> cases b2 <;> cases b3 <;> simp [errOf]
  | some hs =>
    have h5 : (hs.all fun x => !!r.attrs.contains x) = hs.all fun h => r.attrs.contains h := by simp
    simp only [Option.isSome_some, Option.getD_some, h5]
    exact init_aux b1 b2 b3 (hs.all fun h => r.attrs.contains h)

theorem registryCheck_none_iff (r : RegData) : registryCheck r = none ↔ WellFormedRegistry r := by
  unfold registryCheck WellFormedRegistry
  have e1 : r.groups.isEmpty = true ↔ r.groups = [] := List.isEmpty_iff
  have e2 : (r.evolvable.all fun a => r.registered.contains a) = true ↔ ∀ a ∈ r.evolvable, a ∈ r.registered := by simp
  have e3 : r.groups.any (·.policy) = true ↔ ∃ g ∈ r.groups, g.policy = true := by simp
  have e4 : ((r.hps.getD []).all fun h => r.attrs.contains h) = true ↔ ∀ h ∈ r.hps.getD [], h ∈ r.attrs := by simp
  rw [← e2, ← e3, ← e4, Ne, ← e1]
  generalize r.groups.isEmpty = b1
  generalize (r.evolvable.all fun a => r.registered.contains a) = b2
  generalize r.groups.any (·.policy) = b3
  generalize ((r.hps.getD []).all fun h => r.attrs.contains h) = b4
  cases b1 <;> cases b2 <;> cases b3 <;> cases b4 <;> simp

/-- generated = model: the constructor accepts the registry iff it is `WellFormedRegistry` -/
theorem gen_registryAccepted_iff (r : RegistryData) : registryAccepted r = true ↔ WellFormedRegistry (toModel r) := by
  rw [← registryCheck_none_iff, registryAccepted, gen_registry_init_eq]
  cases registryCheck (toModel r) <;> simp [errOf]

theorem gen_register_group_eq (r : RegistryData) (g : Grp) :
    toModel (algo_register_network_group r g) = (toModel r).addGroup (toG g) := by
  simp [algo_register_network_group, register_group, toModel, RegData.addGroup]

theorem gen_register_hook_eq (r : RegistryData) (h : Nat) :
    toModel (algo_register_mutation_hook r h) = (toModel r).addHook h := by
  simp [algo_register_mutation_hook, register_hook, toModel, RegData.addHook]

theorem gen_setattr_eq (r : RegistryData) (name : Nat) (w : Option Wrap) :
    toModel (setattr_ r name w) = (toModel r).setOpt name (w.map fun w => (w.network_names, w.lr_name, w.multiagent)) := by
  cases w with
  | none => simp [setattr_, RegData.setOpt, toModel]
  | some w =>
    by_cases h : (r.registry.optimizers.map fun c => c.name).contains name = true
    · have h' : ((toModel r).opts.map (·.name)).contains name = true := by
        simpa [toModel, toO, Function.comp_def] using h
      have hc : ((some w).isSome && !(List.map (fun config => config.name) r.registry.optimizers).contains name) = false := by
        simp only [h]; rfl
      simp only [setattr_, flatMap_single, hc, RegData.setOpt, Option.map_some, h']
      simp [toModel]
    · have h0 : (r.registry.optimizers.map fun c => c.name).contains name = false := by simpa using h
      have h' : ((toModel r).opts.map (·.name)).contains name = false := by
        simpa [toModel, toO, Function.comp_def] using h
      have hc : ((some w).isSome && !(List.map (fun config => config.name) r.registry.optimizers).contains name) = true := by
        simp only [h0]; rfl
      simp only [setattr_, flatMap_single, hc, RegData.setOpt, Option.map_some, h']
      simp [toModel, register_optimizer, wrapGet, toO]

theorem listEqBy_eq (l1 l2 : List OptCfg) :
    listEqBy optcfg_eq l1 l2 = ((l1.map fun o => (o.name, o.networks)) == (l2.map fun o => (o.name, o.networks))) := by
  induction l1 generalizing l2 with
  | nil => cases l2 <;> simp [listEqBy]
  | cons a t ih =>
    cases l2 with
    | nil => simp [listEqBy]
    | cons b u =>
      simp only [listEqBy, ih, List.map_cons, optcfg_eq]
      rw [Bool.eq_iff_iff]; simp [Prod.ext_iff]

theorem toG_inj : Function.Injective toG := by
  intro a b h
  cases a; cases b; simp [toG] at h; simp [h]

theorem map_toG_inj : ∀ l1 l2 : List Grp, l1.map toG = l2.map toG → l1 = l2
  | [], [], _ => rfl
  | [], _ :: _, h => by simp at h
  | _ :: _, [], h => by simp at h
  | a :: t, b :: u, h => by
    simp only [List.map_cons, List.cons.injEq] at h
    rw [toG_inj h.1, map_toG_inj t u h.2]

theorem gen_registry_eq (r s : RegistryData) : registry_eq r.registry s.registry = (toModel r).regEq (toModel s) := by
  simp only [registry_eq, RegData.regEq, listEqBy_eq, toModel, List.map_map]
  congr 1
  rw [Bool.eq_iff_iff]
  simp only [beq_iff_eq]
  exact ⟨fun h => by rw [h], map_toG_inj _ _⟩

end RegistryGenEq
