import Mathlib.Data.List.Nodup
import Model.Ring
import Gen.ReorgGen
import Proofs.RingGenEq

/-!
# `Gen/ReorgGen.lean` (generated from the source) = `Model/Ring.lean` (section Reorg)

`_reorganize_dicts` as translated — three nested loops appending one dict per (environment, field) — equals the
model's `reorganizeDicts` (transpose of the per-environment transitions), for every number of fields, agents,
environments, container kinds and key orders, INCLUDING when it raises; `zip(*results)` gives the per-environment
transitions back; `save_to_memory_vect_envs` appends them to the bounded deque in environment order.
Assumptions: `np.array(x)` keeps the content of a row (`hnp`), the keys of every field dict are distinct (`hkeys`).
-/
namespace Ring
open ReorgGen

variable {κ α : Type} [DecidableEq κ]

/-! ### prelude lemmas -/

theorem pyAll_eq {β : Type} (l : List (Option β)) : pyAll l = optAll l := by
  induction l with
  | nil => rfl
  | cons x r ih =>
    unfold pyAll optAll
    rw [ih]
    cases x <;> cases optAll r <;> rfl

theorem pyIndex_nat {β : Type} (l : List β) (i : Nat) : pyIndex l (i : Int) = l[i]? := by
  unfold pyIndex
  have h1 : ¬ ((i : Int) < 0) := by omega
  simp only [h1, if_false, Int.toNat_natCast]

theorem optAll_length {β : Type} : ∀ (l : List (Option β)) (r : List β), optAll l = some r → r.length = l.length
  | [], r, h => by cases h; rfl
  | x :: l, r, h => by
    unfold optAll at h
    cases x with
    | none => simp at h
    | some a =>
      cases h2 : optAll l with
      | none => simp [h2] at h
      | some as =>
        simp only [h2, Option.some.injEq] at h
        subst h
        simp [optAll_length l as h2]

theorem optAll_mem {β : Type} : ∀ (l : List (Option β)) (r : List β), optAll l = some r → ∀ x ∈ r, some x ∈ l
  | [], r, h, x, hx => by cases h; simp at hx
  | y :: l, r, h, x, hx => by
    unfold optAll at h
    cases y with
    | none => simp at h
    | some a =>
      cases h2 : optAll l with
      | none => simp [h2] at h
      | some as =>
        simp only [h2, Option.some.injEq] at h
        subst h
        rcases List.mem_cons.mp hx with rfl | hx'
        · simp
        · exact List.mem_cons_of_mem _ (optAll_mem l as h2 x hx')

/-- pointwise reading of `optAll` -/
theorem optAll_getElem {β : Type} : ∀ (l : List (Option β)) (r : List β), optAll l = some r →
    ∀ i, i < l.length → l[i]? = some r[i]?
  | [], r, h, i, hi => by simp at hi
  | y :: l, r, h, i, hi => by
    unfold optAll at h
    cases y with
    | none => simp at h
    | some a =>
      cases h2 : optAll l with
      | none => simp [h2] at h
      | some as =>
        simp only [h2, Option.some.injEq] at h
        subst h
        cases i with
        | zero => simp
        | succ i =>
          simp only [List.getElem?_cons_succ]
          exact optAll_getElem l as h2 i (by simpa using hi)

theorem optAll_cons {β : Type} (x : Option β) (l : List (Option β)) :
    optAll (x :: l) = match x with | none => none | some a => (optAll l).map (a :: ·) := by
  cases x <;> cases h : optAll l <;> simp [optAll, h]

theorem pySetItem_fresh {β : Type} (d : List (κ × β)) (k : κ) (v : β) (h : k ∉ d.map Prod.fst) :
    pySetItem d k v = d ++ [(k, v)] := by
  induction d with
  | nil => rfl
  | cons p r ih =>
    obtain ⟨k', v'⟩ := p
    simp only [List.map_cons, List.mem_cons, not_or] at h
    unfold pySetItem
    rw [if_neg (fun e => h.1 e.symm), ih h.2]
    rfl

theorem maybe_to_array_eq (np : α → α) (isnd : α → Bool) (hnp : ∀ x, np x = x) (x : α) :
    MultiAgentReplayBuffer.reorganize_dicts.maybe_to_array np isnd x = x := by
  unfold MultiAgentReplayBuffer.reorganize_dicts.maybe_to_array
  split <;> simp [hnp]

/-! ### the three loops -/

/-- the innermost loop (over `arg.items()`) builds column `i` of the field -/
theorem gen_loop2_eq (np : α → α) (isnd : α → Bool) (hnp : ∀ x, np x = x) (a0 : List (Field κ α))
    (v0 : List (List (EnvField κ α))) (v1 : List α) (v2 i v4 : Nat) (v5 : Field κ α) :
    ∀ (items : Field κ α) (acc : EnvField κ α), (items.map Prod.fst).Nodup →
      (∀ k ∈ items.map Prod.fst, k ∉ acc.map Prod.fst) →
      MultiAgentReplayBuffer.reorganize_dicts_loop2 np isnd a0 v0 v1 v2 i v4 v5 acc items
        = (fieldCol i items).map (acc ++ ·) := by
  intro items
  induction items with
  | nil => intro acc _ _; simp [MultiAgentReplayBuffer.reorganize_dicts_loop2, fieldCol, optAll]
  | cons p rest ih =>
    intro acc hnd hfresh
    obtain ⟨k, v⟩ := p
    have hk : k ∉ acc.map Prod.fst := hfresh k (by simp)
    have hnd' : (rest.map Prod.fst).Nodup := (List.nodup_cons.mp (by simpa using hnd)).2
    have hk' : k ∉ rest.map Prod.fst := (List.nodup_cons.mp (by simpa using hnd)).1
    have step : ∀ e : Ent κ α, (∀ k' ∈ rest.map Prod.fst, k' ∉ (acc ++ [(k, e)]).map Prod.fst) := by
      intro e k' hk'' hmem
      simp only [List.map_append, List.map_cons, List.map_nil, List.mem_append, List.mem_singleton] at hmem
      rcases hmem with h | h
      · exact hfresh k' (by simp [hk'']) h
      · subst h; exact hk' hk''
    unfold MultiAgentReplayBuffer.reorganize_dicts_loop2
    simp only [fieldCol, List.map_cons, optAll_cons]
    rcases v with rows | kv | xs
    · -- array
      simp only [pyIndex_nat, Val.col]
      cases hr : rows[i]? with
      | none => simp
      | some r =>
        simp only [maybe_to_array_eq np isnd hnp, pySetItem_fresh acc k _ hk]
        rw [ih _ hnd' (step _)]
        simp only [fieldCol, Option.map_map]
        congr 1; funext x; simp
    · -- dict of arrays
      simp only [pyIndex_nat, Val.col, pyAll_eq, maybe_to_array_eq np isnd hnp]
      cases hr : optAll (kv.map (fun p => match p.2[i]? with | none => none | some r => some (p.1, r))) with
      | none => simp [hr]
      | some l =>
        simp only [hr, pySetItem_fresh acc k _ hk]
        rw [ih _ hnd' (step _)]
        simp only [fieldCol, Option.map_map]
        congr 1; funext x; simp
    · -- tuple of arrays
      simp only [pyIndex_nat, Val.col, pyAll_eq, maybe_to_array_eq np isnd hnp]
      have key : ∀ (f : List α → Option α), (∀ v, f v = v[i]?) →
          optAll (xs.map f) = optAll (xs.map (fun v => v[i]?)) := by
        intro f hf; congr 1; exact List.map_congr_left (fun v _ => hf v)
      rw [key _ (fun v => by cases v[i]? <;> rfl)]
      cases hr : optAll (xs.map (fun v => v[i]?)) with
      | none => simp [hr]
      | some l =>
        simp only [hr, pySetItem_fresh acc k _ hk]
        rw [ih _ hnd' (step _)]
        simp only [fieldCol, Option.map_map]
        congr 1; funext x; simp

theorem pyAppendAt_mid {β : Type} (pre : List (List β)) (s : List β) (suf : List (List β)) (x : β) :
    pyAppendAt (pre ++ s :: suf) (pre.length : Int) x = some (pre ++ (s ++ [x]) :: suf) := by
  unfold pyAppendAt
  have h1 : ¬ ((pre.length : Int) < 0) := by omega
  simp [h1]

/-- the middle loop (over `enumerate(args)`) appends column `i` of every field to that field's list -/
theorem gen_loop1_eq (np : α → α) (isnd : α → Bool) (hnp : ∀ x, np x = x) (a0 : List (Field κ α))
    (v1 : List α) (v2 i : Nat) :
    ∀ (fs : List (Field κ α)) (pre suf : List (List (EnvField κ α))), suf.length = fs.length →
      (∀ f ∈ fs, (f.map Prod.fst).Nodup) →
      MultiAgentReplayBuffer.reorganize_dicts_loop1 np isnd a0 v1 v2 i (pre ++ suf) (pyEnumerateFrom pre.length fs)
        = (optAll (fs.map (fieldCol i))).map (fun col => pre ++ List.zipWith (fun r d => r ++ [d]) suf col) := by
  intro fs
  induction fs with
  | nil =>
    intro pre suf hl _
    have : suf = [] := List.eq_nil_of_length_eq_zero hl
    subst this
    simp [pyEnumerateFrom, MultiAgentReplayBuffer.reorganize_dicts_loop1, optAll]
  | cons f rest ih =>
    intro pre suf hl hkeys
    cases suf with
    | nil => simp at hl
    | cons s suf' =>
      have hl' : suf'.length = rest.length := by simpa using hl
      simp only [pyEnumerateFrom, MultiAgentReplayBuffer.reorganize_dicts_loop1]
      rw [gen_loop2_eq np isnd hnp a0 _ v1 v2 i _ f f [] (hkeys f (by simp)) (by intro _ _ h; simp at h)]
      simp only [List.map_cons, optAll_cons]
      cases hc : fieldCol i f with
      | none => simp
      | some d =>
        simp only [Option.map_some, List.nil_append, pyAppendAt_mid]
        have := ih (pre ++ [s ++ [d]]) suf' hl' (fun g hg => hkeys g (List.mem_cons_of_mem _ hg))
        simp only [List.length_append, List.length_cons, List.length_nil, List.append_assoc, List.cons_append,
          List.nil_append, Nat.zero_add] at this
        rw [this]
        cases optAll (rest.map (fieldCol i)) <;> simp

theorem zipWith_cons_snoc {β : Type} : ∀ (e : List β) (t : List (List β)) (col : List β),
    List.zipWith (fun x r => x :: r) e (List.zipWith (fun r d => r ++ [d]) t col)
      = List.zipWith (fun r d => r ++ [d]) (List.zipWith (fun x r => x :: r) e t) col
  | [], _, _ => by simp
  | _ :: _, [], _ => by simp
  | _ :: _, _ :: _, [] => by simp
  | x :: e, r :: t, d :: col => by simp [zipWith_cons_snoc e t col]

theorem transpose_base {β : Type} : ∀ (m : Nat) (col : List β),
    List.zipWith (fun x r => x :: r) col (List.replicate m ([] : List β))
      = List.zipWith (fun r d => r ++ [d]) (List.replicate m []) col
  | 0, col => by simp
  | m + 1, [] => by simp
  | m + 1, x :: col => by simp [List.replicate_succ, transpose_base m col]

/-- appending one more environment = appending its members to the `m` lists -/
theorem transposeTo_snoc {β : Type} (m : Nat) (col : List β) : ∀ (es : List (List β)),
    transposeTo m (es ++ [col]) = List.zipWith (fun r d => r ++ [d]) (transposeTo m es) col
  | [] => by simp [transposeTo, transpose_base]
  | e :: es => by
    simp only [List.cons_append, transposeTo, transposeTo_snoc m col es, zipWith_cons_snoc]

/-- the outer loop (over `range(num_entries)`) -/
theorem gen_loop0_eq (np : α → α) (isnd : α → Bool) (hnp : ∀ x, np x = x) (args : List (Field κ α))
    (hkeys : ∀ f ∈ args, (f.map Prod.fst).Nodup) (v1 : List α) (v2 : Nat) :
    ∀ (is : List Nat) (done : List (Trans κ α)), (∀ e ∈ done, e.length = args.length) →
      MultiAgentReplayBuffer.reorganize_dicts_loop0 np isnd args v1 v2 (transposeTo args.length done) is
        = (optAll (is.map (envTransition args))).map (fun envs => transposeTo args.length (done ++ envs)) := by
  intro is
  induction is with
  | nil => intro done _; simp [MultiAgentReplayBuffer.reorganize_dicts_loop0, optAll]
  | cons i rest ih =>
    intro done hdone
    have hlen : ∀ (es : List (Trans κ α)), (∀ e ∈ es, e.length = args.length) →
        (transposeTo args.length es).length = args.length := by
      intro es
      induction es with
      | nil => intro _; simp [transposeTo]
      | cons e es ih2 =>
        intro h
        simp only [transposeTo, List.length_zipWith, ih2 (fun x hx => h x (List.mem_cons_of_mem _ hx)),
          h e (by simp), Nat.min_self]
    unfold MultiAgentReplayBuffer.reorganize_dicts_loop0
    have := gen_loop1_eq np isnd hnp args v1 v2 i args [] (transposeTo args.length done) (hlen done hdone) hkeys
    simp only [List.nil_append, List.length_nil] at this
    simp only [pyEnumerate, this, List.map_cons, optAll_cons, envTransition]
    cases hc : optAll (args.map (fieldCol i)) with
    | none => simp
    | some col =>
      have hcl : col.length = args.length := by rw [optAll_length _ _ hc]; simp
      simp only [Option.map_some, ← transposeTo_snoc]
      rw [ih (done ++ [col]) (by
        intro e he
        rcases List.mem_append.mp he with h | h
        · exact hdone e h
        · simp at h; subst h; exact hcl)]
      rw [Option.map_map]
      congr 1; funext x; simp

/-- **`_reorganize_dicts` as written = the model's transpose**, for all inputs (also the raising ones) -/
theorem gen_reorganize_dicts_eq (np : α → α) (isnd : α → Bool) (hnp : ∀ x, np x = x) (args : List (Field κ α))
    (hkeys : ∀ f ∈ args, (f.map Prod.fst).Nodup) :
    MultiAgentReplayBuffer.reorganize_dicts np isnd args = reorganizeDicts args := by
  have hrep : ((List.range args.length).map (fun _ => ([] : List (EnvField κ α)))) = transposeTo args.length [] := by
    simp [transposeTo, List.map_const']
  have main : ∀ (v1 : List α), (match MultiAgentReplayBuffer.reorganize_dicts_loop0 np isnd args v1 v1.length
        ((List.range args.length).map (fun _ => [])) (List.range v1.length) with
      | none => none | some v0 => some v0)
      = match optAll ((List.range v1.length).map (envTransition args)) with
        | none => none | some envs => some (transposeTo args.length envs) := by
    intro v1
    rw [hrep, gen_loop0_eq np isnd hnp args hkeys v1 v1.length _ [] (by simp)]
    cases optAll ((List.range v1.length).map (envTransition args)) <;> simp
  unfold MultiAgentReplayBuffer.reorganize_dicts reorganizeDicts perEnv numEntries
  cases args with
  | nil => simp [pyIndex]
  | cons f fs =>
    have h0 : pyIndex (f :: fs) (0 : Int) = some f := by simp [pyIndex]
    simp only [h0]
    cases f with
    | nil => simp [pyValues]
    | cons p ps =>
      obtain ⟨k, v⟩ := p
      simp only [pyValues, List.map_cons, List.head?_cons]
      rcases v with rows | kv | xs
      · simp only [Val.first]
        exact main rows
      · cases kv with
        | nil => simp [Val.first]
        | cons q qs =>
          simp only [Val.first, List.map_cons, List.head?_cons]
          exact main q.2
      · cases xs with
        | nil => simp [Val.first, pyIndex]
        | cons q qs =>
          have : pyIndex (q :: qs) (0 : Int) = some q := by simp [pyIndex]
          simp only [Val.first, this, List.head?_cons]
          exact main q

/-! ### `zip(*results)` gives the per-environment transitions back -/

theorem transposeTo_length {β : Type} (m : Nat) : ∀ (es : List (List β)), (∀ e ∈ es, e.length = m) →
    (transposeTo m es).length = m ∧ ∀ l ∈ transposeTo m es, l.length = es.length
  | [], _ => by simp [transposeTo]
  | e :: es, h => by
    obtain ⟨h1, h2⟩ := transposeTo_length m es (fun x hx => h x (List.mem_cons_of_mem _ hx))
    have he := h e (by simp)
    refine ⟨by simp [transposeTo, h1, he], ?_⟩
    intro l hl
    simp only [transposeTo] at hl
    obtain ⟨i, hi, rfl⟩ := List.mem_iff_getElem.mp hl
    simp only [List.getElem_zipWith, List.length_cons]
    rw [h2 _ (List.getElem_mem _)]

theorem heads_tails_zipWith_cons {β : Type} : ∀ (e : List β) (t : List (List β)), e.length = t.length →
    optAll ((List.zipWith (fun x r => x :: r) e t).map List.head?) = some e ∧
    (List.zipWith (fun x r => x :: r) e t).map List.tail = t
  | [], [], _ => by simp [optAll]
  | [], _ :: _, h => by simp at h
  | _ :: _, [], h => by simp at h
  | x :: e, r :: t, h => by
    obtain ⟨h1, h2⟩ := heads_tails_zipWith_cons e t (by simpa using h)
    simp only [List.zipWith_cons_cons, List.map_cons, List.head?_cons, List.tail_cons, optAll_cons, h1, h2]
    simp

theorem pyZipStarN_transpose {β : Type} (m : Nat) : ∀ (es : List (List β)), (∀ e ∈ es, e.length = m) →
    pyZipStarN es.length (transposeTo m es) = es
  | [], _ => by simp [pyZipStarN]
  | e :: es, h => by
    have h' := fun x hx => h x (List.mem_cons_of_mem _ hx)
    obtain ⟨h1, h2⟩ := heads_tails_zipWith_cons e (transposeTo m es)
      (by rw [(transposeTo_length m es h').1]; exact h e (by simp))
    simp only [List.length_cons, pyZipStarN, transposeTo, pyAll_eq, h1, h2, pyZipStarN_transpose m es h']

/-- `zip(*_reorganize_dicts(...))` = the per-environment transitions, in environment order -/
theorem pyZipStar_transpose {β : Type} (m : Nat) (hm : 0 < m) (es : List (List β)) (h : ∀ e ∈ es, e.length = m) :
    pyZipStar (transposeTo m es) = es := by
  obtain ⟨h1, h2⟩ := transposeTo_length m es h
  unfold pyZipStar
  cases ht : transposeTo m es with
  | nil => rw [ht] at h1; simp at h1; omega
  | cons l r =>
    have : l.length = es.length := h2 l (by rw [ht]; simp)
    simp only [this, ← ht]
    exact pyZipStarN_transpose m es h

/-- member `i` of list `j` of the transpose = member `j` of element `i` -/
theorem transposeTo_get {β : Type} (m : Nat) : ∀ (es : List (List β)), (∀ e ∈ es, e.length = m) →
    ∀ (i j : Nat), j < m → ((transposeTo m es)[j]?.bind (fun (l : List β) => l[i]?)) = (es[i]?.bind (fun (l : List β) => l[j]?))
  | [], _, i, j, hj => by simp [transposeTo, hj]
  | e :: es, h, i, j, hj => by
    have h' := fun x hx => h x (List.mem_cons_of_mem _ hx)
    have he : e.length = m := h e (by simp)
    have hT := (transposeTo_length m es h').1
    have ih := transposeTo_get m es h'
    have h1 : j < e.length := by omega
    have h2 : j < (transposeTo m es).length := by omega
    simp only [transposeTo, List.getElem?_zipWith, List.getElem?_eq_getElem h1, List.getElem?_eq_getElem h2]
    cases i with
    | zero => simp
    | succ i =>
      have := ih i j hj
      simp only [List.getElem?_eq_getElem h2, Option.bind_some] at this
      simpa using this

theorem optAll_none_of_mem {β : Type} : ∀ (l : List (Option β)), none ∈ l → optAll l = none
  | [], h => by simp at h
  | x :: l, h => by
    rw [optAll_cons]
    cases x with
    | none => rfl
    | some a =>
      have : none ∈ l := by simpa using h
      simp [optAll_none_of_mem l this]

omit [DecidableEq κ] in
/-- every per-environment transition has one entry per field -/
theorem perEnv_lengths (args : List (Field κ α)) (envs : List (Trans κ α)) (h : perEnv args = some envs) :
    args ≠ [] ∧ (∀ e ∈ envs, e.length = args.length) ∧
    ∃ n, numEntries args = some n ∧ envs.length = n := by
  unfold perEnv at h
  cases hn : numEntries args with
  | none => simp [hn] at h
  | some n =>
    simp only [hn] at h
    refine ⟨?_, ?_, n, rfl, ?_⟩
    · rintro rfl; simp [numEntries] at hn
    · intro e he
      have := optAll_mem _ _ h e he
      obtain ⟨i, _, hi⟩ := List.mem_map.mp this
      simp only [envTransition] at hi
      rw [optAll_length _ _ hi]; simp
    · rw [optAll_length _ _ h]; simp

/-! ### `save_to_memory_vect_envs` / `save_to_memory_single_env` on the bounded deque -/

theorem lastN_append_lastN {β : Type} (m : Nat) (a b : List β) : lastN m (lastN m a ++ b) = lastN m (a ++ b) := by
  simp only [lastN, List.length_append, List.length_drop]
  by_cases h : a.length ≤ m
  · have : a.length - m = 0 := by omega
    simp [this]
  · rw [← List.drop_append_of_le_length (l₂ := b) (by omega : a.length - m ≤ a.length), List.drop_drop]
    congr 1; omega

theorem lastN_length_le {β : Type} (m : Nat) (a : List β) : (lastN m a).length ≤ m := by
  simp only [lastN, List.length_drop]; omega

/-- representation invariant of the generated multi-agent buffer holding real transitions -/
structure MAInv (st : MA κ α) (m : Nat) : Prop where
  maxlen : st.memory.maxlen = some (m : Int)
  len : st.memory.items.length ≤ m

omit [DecidableEq κ] in
/-- `save_to_memory_single_env` (`_add` + counter): the deque keeps the last `m` transitions -/
theorem gen_reorg_single_eq (np : α → α) (isnd : α → Bool) (st : MA κ α) (m : Nat) (h : MAInv st m) (x : Trans κ α) :
    ∃ st', MultiAgentReplayBuffer.save_to_memory_single_env np isnd st x = some st' ∧ MAInv st' m ∧
      st'.memory.items = lastN m (st.memory.items ++ [x]) ∧ st'.counter = st.counter + 1 := by
  obtain ⟨a1, a2⟩ := gen_deque_append_eq st.memory m h.maxlen h.len x
  refine ⟨_, rfl, ⟨a1, ?_⟩, a2, rfl⟩
  show (st.memory.append x).items.length ≤ m
  rw [a2]; simp only [List.length_drop]; omega

/-- the loop of `save_to_memory_vect_envs` over `zip(*args)`: one `_add` and one count per environment, in order -/
theorem gen_reorg_vect_loop_eq (np : α → α) (isnd : α → Bool) (a0 : List (List (EnvField κ α))) (m : Nat) :
    ∀ (xs : List (Trans κ α)) (st : MA κ α), MAInv st m →
      ∃ st', MultiAgentReplayBuffer.save_to_memory_vect_envs_loop0 np isnd a0 st xs = some st' ∧ MAInv st' m ∧
        st'.memory.items = lastN m (st.memory.items ++ xs) ∧ st'.counter = st.counter + xs.length := by
  intro xs
  induction xs with
  | nil =>
    intro st h
    refine ⟨st, rfl, h, ?_, by simp⟩
    simp only [List.append_nil, lastN]
    have : st.memory.items.length - m = 0 := by have := h.len; omega
    simp [this]
  | cons x rest ih =>
    intro st h
    obtain ⟨st1, e1, i1, it1, c1⟩ := gen_reorg_single_eq np isnd st m h x
    obtain ⟨st2, e2, i2, it2, c2⟩ := ih st1 i1
    refine ⟨st2, ?_, i2, ?_, ?_⟩
    · unfold MultiAgentReplayBuffer.save_to_memory_vect_envs_loop0
      unfold MultiAgentReplayBuffer.save_to_memory_single_env at e1
      simp only [MultiAgentReplayBuffer.add] at e1 ⊢
      simp only [Option.some.injEq] at e1
      rw [e1]; exact e2
    · rw [it2, it1, lastN_append_lastN]; simp
    · rw [c2, c1]; simp only [List.length_cons]; push_cast; omega

/-- **`save_to_memory_vect_envs`**: raises iff the split raises; otherwise appends exactly the per-environment
    transitions `perEnv args`, in environment order, and counts them -/
theorem gen_reorg_vect_eq (np : α → α) (isnd : α → Bool) (hnp : ∀ x, np x = x) (st : MA κ α) (m : Nat)
    (h : MAInv st m) (args : List (Field κ α)) (hkeys : ∀ f ∈ args, (f.map Prod.fst).Nodup) :
    match perEnv args with
    | none => MultiAgentReplayBuffer.save_to_memory_vect_envs np isnd st args = none
    | some envs => ∃ st', MultiAgentReplayBuffer.save_to_memory_vect_envs np isnd st args = some st' ∧ MAInv st' m ∧
        st'.memory.items = lastN m (st.memory.items ++ envs) ∧ st'.counter = st.counter + envs.length := by
  unfold MultiAgentReplayBuffer.save_to_memory_vect_envs
  rw [gen_reorganize_dicts_eq np isnd hnp args hkeys]
  unfold reorganizeDicts
  cases hp : perEnv args with
  | none => simp
  | some envs =>
    obtain ⟨hne, hl, _⟩ := perEnv_lengths args envs hp
    have hm : 0 < args.length := List.length_pos_iff.mpr hne
    simp only [pyZipStar_transpose args.length hm envs hl]
    obtain ⟨st', e, i, it, c⟩ := gen_reorg_vect_loop_eq np isnd (transposeTo args.length envs) m envs st h
    exact ⟨st', by rw [e], i, it, c⟩

/-! ### shape / key functions of `data.py` and the reshape loop of `ReplayBuffer.add` -/

theorem pyEnumerateFrom_keys {β : Type} (g : Nat → String) : ∀ (l : List β) (k : Nat),
    (pyEnumerateFrom k l).map (fun p => g p.1) = (List.range' k l.length).map g ∧
    (pyEnumerateFrom k l).map (fun p => p.2) = l
  | [], k => by simp [pyEnumerateFrom]
  | x :: l, k => by
    obtain ⟨h1, h2⟩ := pyEnumerateFrom_keys g l (k + 1)
    simp only [pyEnumerateFrom, List.map_cons, List.length_cons, List.range'_succ, h1, h2, and_self]

/-- `to_tensordict` of a tuple observation: keys `tuple_obs_0 …` in member order, members unchanged -/
theorem gen_to_tensordict_tuple_eq {α : Type} (xs : List (PyT α)) :
    ∃ kv, to_tensordict (PyObs.tup xs) = PyObsTD.td kv ∧ kv.map Prod.fst = tupleKeys xs.length ∧
      kv.map Prod.snd = xs := by
  obtain ⟨h1, h2⟩ := pyEnumerateFrom_keys (fun i => "tuple_obs_" ++ toString i) xs 0
  refine ⟨_, rfl, ?_, ?_⟩
  · simp only [pyEnumerate, tupleKeys, List.map_map, List.range_eq_range']
    exact h1
  · simp only [pyEnumerate, List.map_map]
    exact h2

/-- `to_tensordict` of a dict observation keeps keys, order and members; a tensor passes -/
theorem gen_to_tensordict_dict_eq {α : Type} (kv : List (String × PyT α)) (t : PyT α) :
    to_tensordict (PyObs.dict kv) = PyObsTD.td kv ∧ to_tensordict (PyObs.tensor t) = PyObsTD.tensor t := ⟨rfl, rfl⟩

/-- `Transition.__post_init__`: reward / done get `normLeaf` of their shape, content untouched; action untouched -/
theorem gen_post_init_eq {α : Type} (t : Transition α) :
    ∃ t', t.post_init = some t' ∧
      t'.reward.shape = normLeaf t.reward.shape ∧ t'.reward.data = t.reward.data ∧
      t'.done.shape = normLeaf t.done.shape ∧ t'.done.data = t.done.data ∧
      t'.action = t.action ∧
      t'.obs_td = (match t.obs with | PyObs.tensor x => PyObsTD.tensor x | o => to_tensordict o) ∧
      t'.next_obs_td = (match t.next_obs with | PyObs.tensor x => PyObsTD.tensor x | o => to_tensordict o) := by
  unfold Transition.post_init
  simp only [to_torch_tensor, PyT.ndim, PyT.unsqueeze, normLeaf]
  by_cases h1 : t.done.shape.length = 0 <;> by_cases h2 : t.reward.shape.length = 0 <;>
    simp [h1, h2] <;> (constructor <;> (cases t.obs <;> first | rfl | cases t.next_obs <;> rfl))

/-- the reshape loop of `ReplayBuffer.add` on one leaf (top-level or nested alike): shape `addLeafShape`, content
    untouched; it fails only for a 1-d leaf whose length is not the batch size -/
theorem gen_add_leaf_eq {α : Type} (n : Nat) (v : PyT α) (h : v.shape.length = 1 → v.shape = [n]) :
    ∃ v', add_leaf_top n v = some v' ∧ add_leaf_nested n v = some v' ∧
      v'.shape = addLeafShape n v.shape ∧ v'.data = v.data := by
  unfold add_leaf_top add_leaf_nested PyT.reshape2 addLeafShape PyT.ndim
  by_cases h1 : v.shape.length = 1
  · simp [h1, h h1]
  · simp [h1]

end Ring
