import Proofs.RingInv

namespace Ring

/-- converse direction: every filled slot holds one of the most recent transitions -/
def Conv (b : Buf) (hist : List Nat) : Prop :=
  ∀ j, j < b.size → ∃ k, ∃ hk : k < hist.length, hist.length - k ≤ b.cap ∧ k % b.cap = j ∧
    b.store[j]? = some (some hist[k])

theorem conv_empty (cap : Nat) : Conv (Buf.empty cap) [] := by
  intro j hj; simp [Buf.empty] at hj

theorem conv_add (b : Buf) (hist xs : List Nat) (h : Inv b hist) (hcv : Conv b hist)
    (hw : xs.length ≤ b.cap) : Conv (b.add xs) (hist ++ xs) := by
  obtain ⟨hpos, hlen, hcur, hsize, hcnt, hslots⟩ := h
  have hclt : b.cursor < b.cap := by rw [hcur]; exact Nat.mod_lt _ hpos
  intro j hj
  have hcap : (b.add xs).cap = b.cap := rfl
  have hsz : (b.add xs).size = min (b.size + xs.length) b.cap := rfl
  rw [hsz] at hj
  have hjlt : j < b.cap := by omega
  rw [hcap, add_store_getElem? b xs hlen hclt hw j hjlt]
  have hL : (hist ++ xs).length = hist.length + xs.length := List.length_append
  -- a helper: the slot written by the i-th new element
  have fresh : ∀ i, i < xs.length →
      (hist.length + i) % b.cap = if b.cursor + i < b.cap then b.cursor + i else b.cursor + i - b.cap := by
    intro i hi
    have hwrap := add_mod_wrap (len := hist.length) (i := i) hpos (by rw [← hcur]; omega)
    rw [← hcur] at hwrap; exact hwrap
  by_cases hA : b.cursor ≤ j ∧ j < b.cursor + xs.length
  · simp only [hA, and_self, if_true]
    have hi : j - b.cursor < xs.length := by omega
    refine ⟨hist.length + (j - b.cursor), by omega, by omega, ?_, ?_⟩
    · rw [fresh _ hi]; have : b.cursor + (j - b.cursor) < b.cap := by omega
      rw [if_pos this]; omega
    · rw [List.getElem_append_right (by omega)]
      simp [List.getElem?_eq_getElem hi]
  · simp only [hA, if_false]
    by_cases hB : j + b.cap < b.cursor + xs.length
    · simp only [hB, if_true]
      have hi : j + b.cap - b.cursor < xs.length := by omega
      refine ⟨hist.length + (j + b.cap - b.cursor), by omega, by omega, ?_, ?_⟩
      · rw [fresh _ hi]; have : ¬ (b.cursor + (j + b.cap - b.cursor) < b.cap) := by omega
        rw [if_neg this]; omega
      · rw [List.getElem_append_right (by omega)]
        simp [List.getElem?_eq_getElem hi]
    · simp only [hB, if_false]
      -- untouched slot: it was filled before, and its occupant has not expired
      have hjs : j < b.size := by
        rw [hsize]
        by_cases hfull : hist.length < b.cap
        · -- not yet full: cursor = hist.length, new slots are exactly the written ones
          have : b.cursor = hist.length := by rw [hcur]; exact Nat.mod_eq_of_lt hfull
          rw [hsize] at hj
          omega
        · omega
      obtain ⟨k, hk, hrec, hmod, hst⟩ := hcv j hjs
      refine ⟨k, by omega, ?_, hmod, ?_⟩
      · -- if k had expired, slot j would have been overwritten by element k + cap
        apply Decidable.byContradiction
        intro hexp
        have hi : k + b.cap - hist.length < xs.length := by omega
        have hfr := fresh _ hi
        have e : hist.length + (k + b.cap - hist.length) = k + b.cap := by omega
        rw [e, Nat.add_mod_right, hmod] at hfr
        by_cases hc : b.cursor + (k + b.cap - hist.length) < b.cap
        · rw [if_pos hc] at hfr; omega
        · rw [if_neg hc] at hfr; omega
      · rw [List.getElem_append_left hk]; exact hst

theorem conv_adds (cap : Nat) (hpos : 0 < cap) (ops : List (List Nat))
    (hw : ∀ xs ∈ ops, xs.length ≤ cap) :
    Conv (ops.foldl Buf.add (Buf.empty cap)) ops.flatten := by
  suffices H : ∀ (b : Buf) (hist : List Nat), Inv b hist → Conv b hist → b.cap = cap →
      Conv (ops.foldl Buf.add b) (hist ++ ops.flatten) by
    simpa using H (Buf.empty cap) [] (inv_empty cap hpos) (conv_empty cap) rfl
  induction ops with
  | nil => intro b hist _ hb _; simpa using hb
  | cons xs rest ih =>
    intro b hist hb hcv hc
    have hx : xs.length ≤ b.cap := by rw [hc]; exact hw xs (by simp)
    have := ih (fun ys hy => hw ys (by simp [hy])) (b.add xs) (hist ++ xs)
      (inv_add b hist xs hb hx) (conv_add b hist xs hb hcv hx) hc
    simpa [List.flatten_cons, List.append_assoc] using this

end Ring
