import Model.Ring
import Gen.RingGen
import Proofs.RingLemmas

/-!
  Proofs/RingGenEq.lean — the definitions GENERATED from the source text of
  `agilerl/components/replay_buffer.py` (class `ReplayBuffer`) and
  `agilerl/components/multi_agent_replay_buffer.py` (class `MultiAgentReplayBuffer`)
  (`Gen/RingGen.lean`, written by `harness/py2lean_ring.py` on every run) agree with the hand-written model
  `Model/Ring.lean`.  The generated code works on Python integers (`Int`), Python slices with open ends and
  clipping, a storage that may be `None`, and a `deque(maxlen)`; the model works on `Nat`, `writeSlice` and
  lists.  `absBuf` / `absDeq` map a generated state to the model state; every theorem says: on a state that
  meets the representation invariant (`GenInv`: `0 ≤ _cursor < max_size`, the storage — if allocated — has
  `max_size` rows, size and counter non-negative; `GenDeqInv`: bounded deque not over-full) the generated
  method succeeds (`some`), its result abstracts to the model function applied to the abstraction, and the
  invariant is kept.  Assumed about the external calls: `InitSpec` (`_init` installs `max_size` zero rows).
  If the source changes its behaviour these proofs stop checking; the C09 theorems are restated over the
  generated definitions in `Props/C09.lean` (`C09_source_translation_*`).  Core Lean only.
-/
namespace Ring
open RingGen

section prelude
variable {α : Type}

theorem pyClip_of_nonneg (len : Nat) (i : Int) (h : 0 ≤ i) : pyClip len i = min i.toNat len := by
  unfold pyClip; rw [if_neg (by omega)]

theorem take_min_length (l : List α) (k : Nat) : l.take (min k l.length) = l.take k := by
  by_cases h : k ≤ l.length
  · rw [Nat.min_eq_left h]
  · rw [Nat.min_eq_right (by omega), List.take_length, List.take_of_length_le (by omega)]

theorem drop_min_length (l : List α) (k : Nat) : l.drop (min k l.length) = l.drop k := by
  by_cases h : k ≤ l.length
  · rw [Nat.min_eq_left h]
  · rw [Nat.min_eq_right (by omega), List.drop_length, List.drop_eq_nil_of_le (by omega)]

theorem pyGetSlice_none_some (l : List α) (i : Int) (h : 0 ≤ i) :
    pyGetSlice l none (some i) = l.take i.toNat := by
  simp only [pyGetSlice, pyHi, pyLo, pyClip_of_nonneg _ _ h, List.drop_zero, take_min_length]

theorem pyGetSlice_some_none (l : List α) (i : Int) (h : 0 ≤ i) :
    pyGetSlice l (some i) none = l.drop i.toNat := by
  simp only [pyGetSlice, pyHi, pyLo, pyClip_of_nonneg _ _ h, List.take_length, drop_min_length]

theorem pySetSlice_some_none (l xs : List α) (i : Int) (h0 : 0 ≤ i) (h1 : i.toNat ≤ l.length)
    (hx : xs.length = l.length - i.toNat) :
    pySetSlice l (some i) none xs = some (writeSlice l i.toNat xs) := by
  simp only [pySetSlice, pyHi, pyLo, pyClip_of_nonneg _ _ h0, writeSlice]
  rw [Nat.min_eq_left h1, Nat.max_eq_right h1, if_pos hx]
  congr 3; omega

theorem pySetSlice_none_some (l xs : List α) (j : Int) (h0 : 0 ≤ j) (h1 : j.toNat ≤ l.length)
    (hx : xs.length = j.toNat) :
    pySetSlice l none (some j) xs = some (writeSlice l 0 xs) := by
  simp only [pySetSlice, pyHi, pyLo, pyClip_of_nonneg _ _ h0, writeSlice]
  rw [Nat.min_eq_left h1, Nat.max_eq_right (Nat.zero_le _), if_pos (by omega)]
  congr 3; omega

theorem pySetSlice_some_some (l xs : List α) (i j : Int) (h0 : 0 ≤ i) (hij : i ≤ j)
    (h1 : j.toNat ≤ l.length) (hx : xs.length = j.toNat - i.toNat) :
    pySetSlice l (some i) (some j) xs = some (writeSlice l i.toNat xs) := by
  simp only [pySetSlice, pyHi, pyLo, pyClip_of_nonneg _ _ h0, pyClip_of_nonneg _ _ (Int.le_trans h0 hij), writeSlice]
  rw [Nat.min_eq_left h1, Nat.min_eq_left (by omega), Nat.max_eq_right (by omega), if_pos hx]
  congr 3; omega
end prelude

/-! ### `ReplayBuffer` — the circular storage -/

abbrev GBuf := ReplayBuffer (Option Nat)

def absBuf (st : GBuf) : Buf :=
  { cap := st.max_size.toNat, cursor := st._cursor.toNat, size := st._size.toNat,
    store := st._storage.getD (List.replicate st.max_size.toNat none), counter := st.counter.toNat }

structure GenInv (st : GBuf) : Prop where
  cap_pos : 0 < st.max_size
  cursor_nonneg : 0 ≤ st._cursor
  cursor_lt : st._cursor < st.max_size
  size_nonneg : 0 ≤ st._size
  counter_nonneg : 0 ≤ st.counter
  len : ∀ s, st._storage = some s → s.length = st.max_size.toNat

def InitSpec (f : GBuf → List (Option Nat) → GBuf) : Prop :=
  ∀ st d, f st d = { st with _storage := some (List.replicate st.max_size.toNat none), initialized := true }

theorem gen_add_some (f : GBuf → List (Option Nat) → GBuf) (st : GBuf) (h : GenInv st)
    (s : List (Option Nat)) (hs : st._storage = some s)
    (xs : List Nat) (hw : (xs.length : Int) ≤ st.max_size) :
    ∃ st', ReplayBuffer.add f st (xs.map some) = some st' ∧ absBuf st' = (absBuf st).add xs ∧ GenInv st' ∧
      st'._storage.isSome := by
  obtain ⟨M, k, ini, c, z, sto⟩ := st
  obtain ⟨hM, hc0, hcM, hz, hk, hlen⟩ := h
  simp only at hM hc0 hcM hz hk hlen hw hs
  subst hs
  have hl := hlen s rfl
  have hfm : ∀ a : Int, a.fmod M = a % M := fun a => Int.fmod_eq_emod_of_nonneg a (by omega)
  have hmod0 : ∀ a : Int, 0 ≤ a % M := fun a => Int.emod_nonneg a (by omega)
  have hmodM : ∀ a : Int, a % M < M := fun a => Int.emod_lt_of_pos a hM
  unfold ReplayBuffer.add
  simp only [Option.isNone_some, List.length_map, Bool.false_eq_true, if_false, pySetSliceOpt]
  by_cases hwrap : c + (xs.length : Int) > M
  · -- the two-slice write across the end of the storage
    rw [if_pos (by omega)]
    rw [pyGetSlice_none_some _ _ (by omega), pyGetSlice_some_none _ _ (by omega),
      pySetSlice_some_none _ _ _ hc0 (by omega) (by simp; omega)]
    simp only []
    rw [pySetSlice_none_some _ _ _ (by omega) (by rw [writeSlice_length _ _ _ (by simp; omega)]; omega)
      (by simp; omega)]
    simp only [if_neg (Int.ne_of_gt hM)]
    refine ⟨_, rfl, ?_, ?_, rfl⟩
    · simp only [absBuf, Buf.add, Option.getD_some, Buf.mk.injEq, true_and]
      have hw' : c.toNat + xs.length > M.toNat := by omega
      simp only [hw', if_true]
      refine ⟨?_, ?_, ?_, ?_⟩
      · rw [hfm, Int.toNat_emod (by omega) (by omega)]; congr 1; omega
      · unfold pyMin; split <;> omega
      · congr 3 <;> omega
      · omega
    · refine ⟨hM, (by dsimp only; rw [hfm]; exact hmod0 _), (by dsimp only; rw [hfm]; exact hmodM _), ?_, ?_, ?_⟩
      · dsimp only; unfold pyMin; split <;> omega
      · dsimp only; omega
      · intro s' hs'
        simp only [Option.some.injEq] at hs'
        subst hs'
        rw [writeSlice_length _ _ _ (by rw [writeSlice_length _ _ _ (by simp; omega)]; simp; omega),
          writeSlice_length _ _ _ (by simp; omega), hl]
  · -- one slice
    rw [if_neg (by omega)]
    rw [pySetSlice_some_some _ _ _ _ hc0 (by omega) (by omega) (by simp; omega)]
    simp only [if_neg (Int.ne_of_gt hM)]
    refine ⟨_, rfl, ?_, ?_, rfl⟩
    · simp only [absBuf, Buf.add, Option.getD_some, Buf.mk.injEq, true_and]
      have hw' : ¬ (c.toNat + xs.length > M.toNat) := by omega
      simp only [hw', if_false]
      refine ⟨?_, ?_, trivial, ?_⟩
      · rw [hfm, Int.toNat_emod (by omega) (by omega)]; congr 1; omega
      · unfold pyMin; split <;> omega
      · omega
    · refine ⟨hM, (by dsimp only; rw [hfm]; exact hmod0 _), (by dsimp only; rw [hfm]; exact hmodM _), ?_, ?_, ?_⟩
      · dsimp only; unfold pyMin; split <;> omega
      · dsimp only; omega
      · intro s' hs'
        simp only [Option.some.injEq] at hs'
        subst hs'
        rw [writeSlice_length _ _ _ (by simp; omega), hl]

/-- the lazy `_init`: on an empty storage `add` first installs the storage `_init` creates -/
theorem gen_add_lazy (f : GBuf → List (Option Nat) → GBuf) (hf : InitSpec f) (st : GBuf)
    (hs : st._storage = none) (ys : List (Option Nat)) :
    ReplayBuffer.add f st ys = ReplayBuffer.add f (f st ys) ys := by
  have h2 : (f st ys)._storage.isNone = false := by rw [hf]; rfl
  conv => rhs; unfold ReplayBuffer.add; simp only [h2, Bool.false_eq_true, if_false]
  conv => lhs; unfold ReplayBuffer.add; simp only [hs, Option.isNone_none, if_true]

theorem gen_add_eq (f : GBuf → List (Option Nat) → GBuf) (hf : InitSpec f) (st : GBuf) (h : GenInv st)
    (xs : List Nat) (hw : (xs.length : Int) ≤ st.max_size) :
    ∃ st', ReplayBuffer.add f st (xs.map some) = some st' ∧ absBuf st' = (absBuf st).add xs ∧ GenInv st' ∧
      st'._storage.isSome := by
  cases hs : st._storage with
  | some s => exact gen_add_some f st h s hs xs hw
  | none =>
    rw [gen_add_lazy f hf st hs]
    have hinv : GenInv (f st (xs.map some)) := by
      rw [hf]
      exact ⟨h.cap_pos, h.cursor_nonneg, h.cursor_lt, h.size_nonneg, h.counter_nonneg,
        fun s' hs' => by simp only [Option.some.injEq] at hs'; subst hs'; simp⟩
    have habs : absBuf (f st (xs.map some)) = absBuf st := by
      rw [hf]; simp [absBuf, hs]
    have := gen_add_some f (f st (xs.map some)) hinv _ (by rw [hf]) xs (by rw [hf]; exact hw)
    rw [habs] at this
    exact this

/-- any sequence of generated `add`s is the model's fold of `Buf.add` -/
theorem gen_adds_eq (f : GBuf → List (Option Nat) → GBuf) (hf : InitSpec f) (ops : List (List Nat)) :
    ∀ (st : GBuf), GenInv st → (∀ xs ∈ ops, (xs.length : Int) ≤ st.max_size) →
    ∃ st', ops.foldlM (fun s xs => ReplayBuffer.add f s (xs.map some)) st = some st' ∧
      absBuf st' = ops.foldl Buf.add (absBuf st) ∧ GenInv st' ∧ st'.max_size = st.max_size ∧
      (ops ≠ [] → st'._storage.isSome) := by
  suffices H : ∀ (st : GBuf), GenInv st → (∀ xs ∈ ops, (xs.length : Int) ≤ st.max_size) →
      ∃ st', ops.foldlM (fun s xs => ReplayBuffer.add f s (xs.map some)) st = some st' ∧
        absBuf st' = ops.foldl Buf.add (absBuf st) ∧ GenInv st' ∧ st'.max_size = st.max_size ∧
        (ops ≠ [] ∨ st._storage.isSome → st'._storage.isSome) by
    intro st h hw
    obtain ⟨st', a, b, c, d, e⟩ := H st h hw
    exact ⟨st', a, b, c, d, fun hne => e (Or.inl hne)⟩
  induction ops with
  | nil => intro st h _; exact ⟨st, rfl, rfl, h, rfl, fun hh => hh.elim (fun x => absurd rfl x) id⟩
  | cons xs rest ih =>
    intro st h hw
    obtain ⟨st1, e1, a1, i1, s1⟩ := gen_add_eq f hf st h xs (hw xs (List.mem_cons_self))
    have hm : st1.max_size = st.max_size := by
      have := congrArg Buf.cap a1
      have h1 := i1.cap_pos
      have h0 := h.cap_pos
      simp only [absBuf, Buf.add] at this
      omega
    obtain ⟨st2, e2, a2, i2, m2, s2⟩ := ih st1 i1 (fun ys hy => by rw [hm]; exact hw ys (List.mem_cons_of_mem _ hy))
    refine ⟨st2, ?_, ?_, i2, by rw [m2, hm], fun _ => s2 (Or.inr s1)⟩
    · simp only [List.foldlM_cons, e1]; exact e2
    · rw [a2, a1]; rfl

/-- `__init__`: the fresh generated buffer is the model's empty buffer -/
theorem gen_init_eq (cap : Nat) :
    absBuf (ReplayBuffer.init (cap : Int)) = Buf.empty cap := by
  simp [absBuf, ReplayBuffer.init, Buf.empty]

theorem gen_init_inv (cap : Nat) (h : 0 < cap) : GenInv (ReplayBuffer.init (cap : Int)) := by
  refine ⟨?_, ?_, ?_, ?_, ?_, ?_⟩ <;> simp [ReplayBuffer.init] <;> omega

/-- `clear` -/
theorem gen_clear_eq (st : GBuf) (h : GenInv st) :
    ∃ st', ReplayBuffer.clear st = some st' ∧ absBuf st' = (absBuf st).clear ∧ GenInv st' ∧
      st'._storage = none ∧ st'.initialized = false := by
  refine ⟨_, rfl, ?_, ?_, rfl, rfl⟩
  · simp [absBuf, Buf.clear]
  · exact ⟨h.cap_pos, Int.le_refl 0, h.cap_pos, Int.le_refl 0, h.counter_nonneg, fun s hs => by cases hs⟩

/-- `__len__` and the property `size` -/
theorem gen_len_eq (st : GBuf) (h : GenInv st) :
    ReplayBuffer.len st = ((absBuf st).size : Int) ∧ ReplayBuffer.size st = ((absBuf st).size : Int) := by
  have := h.size_nonneg
  simp only [ReplayBuffer.len, ReplayBuffer.size, absBuf]
  omega

theorem pyGather_eq {α : Type} (l : List α) (d : α) (idx : List Int) (h : ∀ i ∈ idx, 0 ≤ i ∧ i.toNat < l.length) :
    pyGather l idx = some (idx.map (fun i => l.getD i.toNat d)) := by
  induction idx with
  | nil => rfl
  | cons i r ih =>
    have hi := h i List.mem_cons_self
    have hr := ih (fun j hj => h j (List.mem_cons_of_mem _ hj))
    have e : pyRow l i = some (l.getD i.toNat d) := by
      unfold pyRow
      simp only [if_neg (Int.not_lt.mpr hi.1)]
      rw [List.getD_eq_getElem?_getD, List.getElem?_eq_getElem hi.2]; rfl
    simp only [pyGather, e, hr, List.map_cons]

/-- `sample`: a prefix of the permutation, gathered from the storage -/
theorem gen_sample_eq (rp : Int → List Int) (st : GBuf) (s : List (Option Nat)) (hs : st._storage = some s)
    (k : Int) (hk : 0 ≤ k) (ret : Bool)
    (hrange : ∀ i ∈ rp (ReplayBuffer.size st), 0 ≤ i ∧ i.toNat < s.length) :
    ReplayBuffer.sample rp st k ret
      = some ((absBuf st).sample ((rp (ReplayBuffer.size st)).map Int.toNat) k.toNat) := by
  unfold ReplayBuffer.sample
  simp only [hs, pyGatherOpt, pyGetSlice_none_some _ _ hk]
  rw [pyGather_eq s none _ (fun i hi => hrange i (List.mem_of_mem_take hi))]
  simp only [Buf.sample, absBuf, hs, Option.getD_some, List.map_take, List.map_map]
  rfl

/-! ### `MultiAgentReplayBuffer` — the bounded deque -/

abbrev GDeq := MultiAgentReplayBuffer Nat

def absDeq (st : GDeq) : Deq :=
  { cap := (st.memory.maxlen.getD 0).toNat, items := st.memory.items, counter := st.counter.toNat }

structure GenDeqInv (st : GDeq) : Prop where
  bounded : ∃ m : Nat, st.memory.maxlen = some (m : Int)
  len : st.memory.items.length ≤ (st.memory.maxlen.getD 0).toNat
  counter_nonneg : 0 ≤ st.counter

/-- `deque(maxlen=m).append(x)` keeps the last `m` elements -/
theorem gen_deque_append_eq {α : Type} (d : PyDeque α) (m : Nat) (hm : d.maxlen = some (m : Int))
    (hl : d.items.length ≤ m) (x : α) :
    (d.append x).maxlen = some (m : Int) ∧
    (d.append x).items = (d.items ++ [x]).drop ((d.items ++ [x]).length - m) := by
  unfold PyDeque.append
  simp only [hm]
  by_cases h0 : (m : Int) = 0
  · have : m = 0 := by omega
    have hnil : d.items = [] := List.eq_nil_of_length_eq_zero (by omega)
    simp [hm, hnil, this]
  · simp only [h0, if_false]
    by_cases h1 : (((d.items ++ [x]).length : Nat) : Int) > (m : Int)
    · simp only [h1, if_true, true_and]
      congr 1
      simp only [List.length_append, List.length_cons, List.length_nil] at h1 ⊢
      omega
    · simp only [h1, if_false, true_and]
      simp only [List.length_append, List.length_cons, List.length_nil] at h1 ⊢
      have : d.items.length + (0 + 1) - m = 0 := by omega
      rw [this, List.drop_zero]

/-- `__init__` of the multi-agent buffer: the assertion `memory_size > 0` and the empty deque -/
theorem gen_ma_init_eq (cap : Nat) (h : 0 < cap) :
    ∃ st : GDeq, MultiAgentReplayBuffer.init (cap : Int) = some st ∧ absDeq st = Deq.empty cap ∧ GenDeqInv st := by
  refine ⟨_, by unfold MultiAgentReplayBuffer.init; rw [if_pos (by omega)], ?_, ?_⟩
  · simp [absDeq, PyDeque.new, Deq.empty]
  · exact ⟨⟨cap, rfl⟩, by simp [PyDeque.new], Int.le_refl 0⟩

/-- `save_to_memory_single_env` (`_add` + counter) is `Deq.push` -/
theorem gen_ma_single_eq (st : GDeq) (h : GenDeqInv st) (x : Nat) :
    ∃ st', MultiAgentReplayBuffer.save_to_memory_single_env st x = some st' ∧
      absDeq st' = (absDeq st).push x ∧ GenDeqInv st' := by
  obtain ⟨⟨m, hm⟩, hl, hc⟩ := h
  have hl' : st.memory.items.length ≤ m := by simpa [hm] using hl
  obtain ⟨a1, a2⟩ := gen_deque_append_eq st.memory m hm hl' x
  refine ⟨_, rfl, ?_, ?_⟩
  · simp only [absDeq, Deq.push, a1, a2, hm, Option.getD_some, Int.toNat_natCast, Deq.mk.injEq, true_and]
    omega
  · refine ⟨⟨m, a1⟩, ?_, ?_⟩
    · show (st.memory.append x).items.length ≤ ((st.memory.append x).maxlen.getD 0).toNat
      rw [a1, a2]; simp; omega
    · show 0 ≤ st.counter + 1
      omega

/-- the per-environment loop of `save_to_memory_vect_envs` is `Deq.pushMany` -/
theorem gen_ma_loop_eq (r : Nat → List Nat) (xs : List Nat) : ∀ (st : GDeq), GenDeqInv st →
    ∃ st', MultiAgentReplayBuffer.save_to_memory_vect_envs_loop0 r st xs = some st' ∧
      absDeq st' = (absDeq st).pushMany xs ∧ GenDeqInv st' := by
  induction xs with
  | nil => intro st h; exact ⟨st, rfl, rfl, h⟩
  | cons x rest ih =>
    intro st h
    obtain ⟨st1, e1, a1, i1⟩ := gen_ma_single_eq st h x
    obtain ⟨st2, e2, a2, i2⟩ := ih st1 i1
    refine ⟨st2, ?_, ?_, i2⟩
    · unfold MultiAgentReplayBuffer.save_to_memory_vect_envs_loop0
      unfold MultiAgentReplayBuffer.save_to_memory_single_env at e1
      simp only [MultiAgentReplayBuffer.add] at e1 ⊢
      simp only [Option.some.injEq] at e1
      rw [e1]; exact e2
    · rw [a2, a1]; rfl

theorem gen_ma_vect_eq (r : Nat → List Nat) (st : GDeq) (h : GenDeqInv st) (a : Nat) :
    ∃ st', MultiAgentReplayBuffer.save_to_memory_vect_envs r st a = some st' ∧
      absDeq st' = (absDeq st).pushMany (r a) ∧ GenDeqInv st' := by
  obtain ⟨st', e, a', i'⟩ := gen_ma_loop_eq r (r a) st h
  exact ⟨st', by unfold MultiAgentReplayBuffer.save_to_memory_vect_envs; simp only [e], a', i'⟩

/-- the dispatcher `save_to_memory(..., is_vectorised=b)` -/
theorem gen_ma_save_eq (r : Nat → List Nat) (st : GDeq) (h : GenDeqInv st) (a : Nat) (b : Bool) :
    ∃ st', MultiAgentReplayBuffer.save_to_memory r st a b = some st' ∧
      absDeq st' = (if b then (absDeq st).pushMany (r a) else (absDeq st).push a) ∧ GenDeqInv st' := by
  cases b with
  | true =>
    obtain ⟨st', e, a', i'⟩ := gen_ma_vect_eq r st h a
    exact ⟨st', by unfold MultiAgentReplayBuffer.save_to_memory; simp only [e, if_true], a', i'⟩
  | false =>
    obtain ⟨st', e, a', i'⟩ := gen_ma_single_eq st h a
    exact ⟨st', by unfold MultiAgentReplayBuffer.save_to_memory; simp only [e, Bool.false_eq_true, if_false], a', i'⟩

/-- `__len__` of the multi-agent buffer -/
theorem gen_ma_len_eq (st : GDeq) : MultiAgentReplayBuffer.len st = ((absDeq st).items.length : Int) := rfl

/-- what a sequence of `save_to_memory(x, is_vectorised=b)` calls adds, in order -/
def maHist (r : Nat → List Nat) (calls : List (Nat × Bool)) : List Nat :=
  calls.flatMap (fun c => if c.2 then r c.1 else [c.1])

/-- any sequence of generated `save_to_memory` calls is `Deq.pushMany` of what they add -/
theorem gen_ma_run_eq (r : Nat → List Nat) (calls : List (Nat × Bool)) : ∀ (st : GDeq), GenDeqInv st →
    ∃ st', calls.foldlM (fun s c => MultiAgentReplayBuffer.save_to_memory r s c.1 c.2) st = some st' ∧
      absDeq st' = (absDeq st).pushMany (maHist r calls) ∧ GenDeqInv st' := by
  induction calls with
  | nil => intro st h; exact ⟨st, rfl, rfl, h⟩
  | cons c rest ih =>
    intro st h
    obtain ⟨st1, e1, a1, i1⟩ := gen_ma_save_eq r st h c.1 c.2
    obtain ⟨st2, e2, a2, i2⟩ := ih st1 i1
    refine ⟨st2, by simp only [List.foldlM_cons, e1]; exact e2, ?_, i2⟩
    rw [a2, a1]
    simp only [maHist, List.flatMap_cons, Deq.pushMany, List.foldl_append]
    cases c.2 <;> simp

/-! non-vacuity: concrete generated states meet the invariants, and the generated functions compute the
    expected wrap-around buffer -/
example : GenInv ({ max_size := 3, counter := 4, initialized := true, _cursor := 1, _size := 3, _storage := some [some 4, some 2, some 3] } : GBuf) :=
  ⟨by decide, by decide, by decide, by decide, by decide, fun s hs => by cases hs; rfl⟩
example : InitSpec (fun st _ => { st with _storage := some (List.replicate st.max_size.toNat none), initialized := true }) :=
  fun _ _ => rfl
example : ([[1, 2], [3, 4], [5]].foldlM (fun s xs => ReplayBuffer.add
      (fun st _ => { st with _storage := some (List.replicate st.max_size.toNat none), initialized := true })
      s (xs.map some)) (ReplayBuffer.init 3 : GBuf)).map (fun st => (st._storage, st._cursor, st._size, st.counter))
    = some (some [some 4, some 5, some 3], 2, 3, 5) := by decide
example : GenDeqInv ({ memory := { maxlen := some 2, items := [7, 8] }, counter := 5 } : GDeq) :=
  ⟨⟨2, rfl⟩, by decide, by decide⟩
example : ((MultiAgentReplayBuffer.init 2 : Option GDeq).bind (fun st =>
      MultiAgentReplayBuffer.save_to_memory (fun n => [n, n + 1, n + 2]) st 1 true)).map (fun st => (st.memory.items, st.counter))
    = some ([2, 3], 3) := by decide
end Ring
