import Proofs.RingLemmas

namespace Ring

/-- representation invariant tying a buffer to the history of everything ever added -/
structure Inv (b : Buf) (hist : List Nat) : Prop where
  cap_pos : 0 < b.cap
  len     : b.store.length = b.cap
  cursor  : b.cursor = hist.length % b.cap
  size    : b.size = min hist.length b.cap
  counter : b.counter = hist.length
  slots   : ∀ k, (hk : k < hist.length) → hist.length - k ≤ b.cap →
              b.store[k % b.cap]? = some (some hist[k])

theorem inv_empty (cap : Nat) (h : 0 < cap) : Inv (Buf.empty cap) [] := by
  refine ⟨h, by simp [Buf.empty], by simp [Buf.empty], by simp [Buf.empty], by simp [Buf.empty], ?_⟩
  intro k hk; simp at hk

/-- pointwise description of the storage after `add` (mod-free) -/
theorem add_store_getElem? (b : Buf) (xs : List Nat) (hl : b.store.length = b.cap)
    (hc : b.cursor < b.cap) (hw : xs.length ≤ b.cap) (j : Nat) (hj : j < b.cap) :
    (b.add xs).store[j]? =
      if b.cursor ≤ j ∧ j < b.cursor + xs.length then some (xs[j - b.cursor]?)
      else if j + b.cap < b.cursor + xs.length then some (xs[j + b.cap - b.cursor]?)
      else b.store[j]? := by
  unfold Buf.add
  simp only
  by_cases hwrap : b.cursor + xs.length > b.cap
  · simp only [hwrap, if_true]
    have h1 : b.cursor + (List.take (b.cap - b.cursor) (xs.map some)).length ≤ b.store.length := by
      simp; omega
    have hl1 := writeSlice_length b.store b.cursor (List.take (b.cap - b.cursor) (xs.map some)) h1
    rw [writeSlice_getElem? _ _ _ (by simp [hl1]; omega)]
    simp only [Nat.not_lt_zero, if_false, Nat.zero_add, Nat.sub_zero]
    rw [writeSlice_getElem? _ _ _ h1]
    simp only [List.length_drop, List.length_map, List.length_take, List.getElem?_drop,
      List.getElem?_take, List.getElem?_map]
    by_cases hA : j < xs.length - (b.cap - b.cursor)
    · have : ¬ (b.cursor ≤ j ∧ j < b.cursor + xs.length) := by omega
      simp only [hA, if_true, this, if_false]
      have : j + b.cap < b.cursor + xs.length := by omega
      simp only [this, if_true]
      have e : b.cap - b.cursor + j = j + b.cap - b.cursor := by omega
      rw [e]
      cases hx : xs[j + b.cap - b.cursor]? with
      | none =>
        have := List.getElem?_eq_none_iff.mp hx
        omega
      | some v => simp
    · simp only [hA, if_false]
      by_cases hB : j < b.cursor
      · have : ¬ (b.cursor ≤ j ∧ j < b.cursor + xs.length) := by omega
        have h2 : ¬ (j + b.cap < b.cursor + xs.length) := by omega
        simp [hB, this, h2]
      · have hBB : b.cursor ≤ j ∧ j < b.cursor + xs.length := by omega
        simp only [hB, if_false, hBB, and_self, if_true]
        have : j < b.cursor + min (b.cap - b.cursor) xs.length := by omega
        simp only [this, if_true]
        have : j - b.cursor < b.cap - b.cursor := by omega
        simp only [this, if_true]
        cases hx : xs[j - b.cursor]? with
        | none =>
          have := List.getElem?_eq_none_iff.mp hx
          omega
        | some v => simp
  · simp only [hwrap, if_false]
    rw [writeSlice_getElem? _ _ _ (by simp; omega)]
    simp only [List.length_map, List.getElem?_map]
    have h2 : ¬ (j + b.cap < b.cursor + xs.length) := by omega
    by_cases hB : j < b.cursor
    · have : ¬ (b.cursor ≤ j ∧ j < b.cursor + xs.length) := by omega
      simp [hB, this, h2]
    · simp only [hB, if_false]
      by_cases hC : j < b.cursor + xs.length
      · have hBB : b.cursor ≤ j ∧ j < b.cursor + xs.length := by omega
        simp only [hC, if_true, hBB, and_self]
        cases hx : xs[j - b.cursor]? with
        | none =>
          have := List.getElem?_eq_none_iff.mp hx
          omega
        | some v => simp
      · have : ¬ (b.cursor ≤ j ∧ j < b.cursor + xs.length) := by omega
        simp [hC, this, h2]

theorem add_store_length (b : Buf) (xs : List Nat) (hl : b.store.length = b.cap)
    (hc : b.cursor < b.cap) (hw : xs.length ≤ b.cap) : (b.add xs).store.length = b.cap := by
  unfold Buf.add
  simp only
  split
  · have h1 : b.cursor + (List.take (b.cap - b.cursor) (xs.map some)).length ≤ b.store.length := by
      simp only [List.length_take, List.length_map]; omega
    have hl1 := writeSlice_length b.store b.cursor _ h1
    rw [writeSlice_length _ _ _ (by simp only [hl1, List.length_drop, List.length_map]; omega), hl1, hl]
  · rw [writeSlice_length _ _ _ (by simp only [List.length_map]; omega), hl]

/-- one `add` of a batch no wider than the capacity preserves the invariant -/
theorem inv_add (b : Buf) (hist xs : List Nat) (h : Inv b hist) (hw : xs.length ≤ b.cap) :
    Inv (b.add xs) (hist ++ xs) := by
  obtain ⟨hpos, hlen, hcur, hsize, hcnt, hslots⟩ := h
  have hclt : b.cursor < b.cap := by rw [hcur]; exact Nat.mod_lt _ hpos
  have hcap : (b.add xs).cap = b.cap := rfl
  refine ⟨hpos, ?_, ?_, ?_, ?_, ?_⟩
  · rw [hcap]; exact add_store_length b xs hlen hclt hw
  · show (b.cursor + xs.length) % b.cap = _
    rw [hcur, List.length_append, Nat.add_mod, Nat.mod_mod, ← Nat.add_mod]; rfl
  · show min (b.size + xs.length) b.cap = _
    rw [hsize, List.length_append]; omega
  · show b.counter + xs.length = _
    rw [hcnt, List.length_append]
  · intro k hk hrecent
    rw [hcap]
    rw [List.length_append] at hk hrecent
    have hjlt : k % b.cap < b.cap := Nat.mod_lt _ hpos
    rw [add_store_getElem? b xs hlen hclt hw (k % b.cap) hjlt]
    by_cases hnew : hist.length ≤ k
    · -- a freshly written transition
      obtain ⟨i, rfl⟩ : ∃ i, k = hist.length + i := ⟨k - hist.length, by omega⟩
      have hi : i < xs.length := by omega
      have hwrap := add_mod_wrap (len := hist.length) (i := i) hpos (by rw [← hcur]; omega)
      rw [← hcur] at hwrap
      rw [hwrap]
      have hget : (hist ++ xs)[hist.length + i] = xs[i] := by
        rw [List.getElem_append_right (by omega)]; simp
      rw [hget]
      by_cases hA : b.cursor + i < b.cap
      · simp only [hA, if_true]
        have : b.cursor ≤ b.cursor + i ∧ b.cursor + i < b.cursor + xs.length := by omega
        simp only [this, and_self, if_true]
        have e : b.cursor + i - b.cursor = i := by omega
        rw [e, List.getElem?_eq_getElem hi]
      · simp only [hA, if_false]
        have h1 : ¬ (b.cursor ≤ b.cursor + i - b.cap ∧ b.cursor + i - b.cap < b.cursor + xs.length) := by
          omega
        have h2 : b.cursor + i - b.cap + b.cap < b.cursor + xs.length := by omega
        simp only [h1, if_false, h2, if_true]
        have e : b.cursor + i - b.cap + b.cap - b.cursor = i := by omega
        rw [e, List.getElem?_eq_getElem hi]
    · -- an older transition that must not have been overwritten
      have hk' : k < hist.length := by omega
      have hget : (hist ++ xs)[k] = hist[k] := by
        rw [List.getElem_append_left hk']
      rw [hget]
      have hnot1 : ¬ (b.cursor ≤ k % b.cap ∧ k % b.cap < b.cursor + xs.length) := by
        intro ⟨ha, hb⟩
        let i := k % b.cap - b.cursor
        have hi : i < xs.length := by omega
        have hne := mod_ne_of_close (k := k) (n := hist.length + i) (cap := b.cap) (by omega) (by omega)
        have hwrap := add_mod_wrap (len := hist.length) (i := i) hpos (by rw [← hcur]; omega)
        rw [← hcur] at hwrap
        have : b.cursor + i < b.cap := by omega
        rw [if_pos this] at hwrap
        omega
      have hnot2 : ¬ (k % b.cap + b.cap < b.cursor + xs.length) := by
        intro ha
        let i := k % b.cap + b.cap - b.cursor
        have hi : i < xs.length := by omega
        have hne := mod_ne_of_close (k := k) (n := hist.length + i) (cap := b.cap) (by omega) (by omega)
        have hwrap := add_mod_wrap (len := hist.length) (i := i) hpos (by rw [← hcur]; omega)
        rw [← hcur] at hwrap
        have : ¬ (b.cursor + i < b.cap) := by omega
        rw [if_neg this] at hwrap
        omega
      simp only [hnot1, hnot2, if_false]
      exact hslots k hk' (by omega)

/-- every reachable state: fold over any list of batches, each no wider than the capacity -/
theorem inv_adds (cap : Nat) (hpos : 0 < cap) (ops : List (List Nat))
    (hw : ∀ xs ∈ ops, xs.length ≤ cap) :
    Inv (ops.foldl Buf.add (Buf.empty cap)) ops.flatten ∧
      (ops.foldl Buf.add (Buf.empty cap)).cap = cap := by
  suffices H : ∀ (b : Buf) (hist : List Nat), Inv b hist → b.cap = cap →
      Inv (ops.foldl Buf.add b) (hist ++ ops.flatten) ∧ (ops.foldl Buf.add b).cap = cap by
    simpa using H (Buf.empty cap) [] (inv_empty cap hpos) rfl
  induction ops with
  | nil => intro b hist hb hc; simpa using ⟨hb, hc⟩
  | cons xs rest ih =>
    intro b hist hb hc
    have hx : xs.length ≤ b.cap := by rw [hc]; exact hw xs (by simp)
    have := ih (fun ys hy => hw ys (by simp [hy])) (b.add xs) (hist ++ xs) (inv_add b hist xs hb hx) hc
    simpa [List.flatten_cons, List.append_assoc] using this

end Ring
