import Model.Ring

/-! Helper lemmas for C09 (ring buffer). Core Lean only. -/
namespace Ring

theorem writeSlice_length {α} (l : List α) (s : Nat) (xs : List α) (h : s + xs.length ≤ l.length) :
    (writeSlice l s xs).length = l.length := by
  simp [writeSlice]; omega

theorem writeSlice_getElem? {α} (l : List α) (s : Nat) (xs : List α) (h : s + xs.length ≤ l.length)
    (i : Nat) :
    (writeSlice l s xs)[i]? =
      if i < s then l[i]? else if i < s + xs.length then xs[i - s]? else l[i]? := by
  unfold writeSlice
  by_cases h1 : i < s
  · simp only [h1, if_true]
    rw [List.getElem?_append_left (by simp; omega)]
    rw [List.getElem?_append_left (by simp; omega)]
    simp [List.getElem?_take, h1]
  · simp only [h1, if_false]
    have hs : (l.take s).length = s := by simp; omega
    by_cases h2 : i < s + xs.length
    · simp only [h2, if_true]
      rw [List.getElem?_append_left (by simp; omega)]
      rw [List.getElem?_append_right (by simp; omega)]
      simp [hs]
    · simp only [h2, if_false]
      rw [List.getElem?_append_right (by simp; omega)]
      simp only [List.length_append, hs, List.getElem?_drop]
      congr 1; omega

/-- two residues that are closer than `cap` apart are different -/
theorem mod_ne_of_close {k n cap : Nat} (h1 : k < n) (h2 : n - k < cap) : k % cap ≠ n % cap := by
  intro e
  have hd : cap ∣ n - k := Nat.dvd_of_mod_eq_zero (Nat.sub_mod_eq_zero_of_mod_eq e.symm)
  have := Nat.le_of_dvd (by omega) hd
  omega

theorem add_mod_wrap {len i cap : Nat} (hc : 0 < cap) (hi : len % cap + i < 2 * cap) :
    (len + i) % cap = if len % cap + i < cap then len % cap + i else len % cap + i - cap := by
  rw [Nat.add_mod]
  have hlt := Nat.mod_lt len hc
  by_cases h : len % cap + i < cap
  · simp only [h, if_true]
    by_cases hi' : i < cap
    · rw [Nat.mod_eq_of_lt hi', Nat.mod_eq_of_lt h]
    · omega
  · simp only [h, if_false]
    rw [← Nat.add_mod, Nat.add_mod]
    by_cases hi' : i < cap
    · rw [Nat.mod_eq_of_lt hi', Nat.mod_eq_sub_mod (by omega), Nat.mod_eq_of_lt (by omega)]
    · have : i % cap = i - cap := by
        rw [Nat.mod_eq_sub_mod (by omega), Nat.mod_eq_of_lt (by omega)]
      rw [this]
      have e : len % cap + (i - cap) = len % cap + i - cap := by omega
      rw [e, Nat.mod_eq_of_lt (by omega)]

end Ring
