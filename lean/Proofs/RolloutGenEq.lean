import Model.GAE
import Gen.RolloutGen
import Proofs.GAELeak

/-!
  Proofs/RolloutGenEq.lean — the definitions GENERATED from the source text of the rollout-collection block of
  `train_on_policy` and `train_multi_agent_on_policy` (`Gen/RolloutGen.lean`, written by `harness/py2lean_rollout.py`
  on every run) are EQUAL to `collectStep` / `collect` of `Model/GAE.lean` (`gen_on_*_eq`, `gen_ma_*_eq`: the step for
  every state and reply, the whole collection for every stream), and what the collection guarantees:
  `collect_spec` (closed form), `collect_dones` / `collect_states` / `collect_next_done` (which step every entry belongs
  to), `collect_doneAt` (the flag the GAE loop reads after step `t` is the flag the reply to step `t` produced),
  `collect_no_leak` (composition with `no_leak` of Proofs/GAELeak.lean).
  How a generated state feeds the model (`onSt`, `maSt`): `e0 … e7` = the eight elements of the experiences in the
  order learn unpacks them, `c0` = the carried `done`, `c1` = the carried observation.  The single-agent loop never
  resets the environment itself (`ofGenOn`: `reset := none`).  No invariant is needed.
-/

namespace GAE
open RolloutGen

/-! #### closed form of the collection -/

theorem getLast?_cons_getD {β} (a d : β) (l : List β) : (a :: l).getLast?.getD d = l.getLast?.getD a := by
  cases l with
  | nil => rfl
  | cons b l =>
    rw [List.getLast?_cons_cons]
    cases h : (b :: l).getLast? with
    | none => simp at h
    | some v => rfl

theorem take_shift {β} (a b : β) (l : List β) (n : Nat) :
    [a] ++ (b :: l).take n = (a :: b :: l).take (n + 1) := by simp

theorem collect_fold {σ α} (xs : List (StepReply σ α)) : ∀ s : Collected σ α,
    let R := xs.foldl collectStep s
    R.states = s.states ++ (s.state :: xs.map StepReply.after).take xs.length ∧
    R.actions = s.actions ++ xs.map (·.action) ∧
    R.logps = s.logps ++ xs.map (·.logp) ∧
    R.rewards = s.rewards ++ xs.map (·.reward) ∧
    R.dones = s.dones ++ (s.done :: xs.map StepReply.flag).take xs.length ∧
    R.values = s.values ++ xs.map (·.value) ∧
    R.nextState = (xs.map (·.obs)).getLast?.getD s.nextState ∧
    R.nextDone = (xs.map StepReply.flag).getLast?.getD s.nextDone := by
  induction xs with
  | nil => intro s; simp
  | cons x xs ih =>
    intro s
    have h := ih (collectStep s x)
    simp only [List.foldl_cons, List.map_cons, List.length_cons, getLast?_cons_getD] at h ⊢
    obtain ⟨h1, h2, h3, h4, h5, h6, h7, h8⟩ := h
    refine ⟨?_, ?_, ?_, ?_, ?_, ?_, ?_, ?_⟩
    · rw [h1]; simp [collectStep]
    · rw [h2]; simp [collectStep]
    · rw [h3]; simp [collectStep]
    · rw [h4]; simp [collectStep]
    · rw [h5]; simp [collectStep]
    · rw [h6]; simp [collectStep]
    · rw [h7]; simp [collectStep]
    · rw [h8]; simp [collectStep]

end GAE

namespace GAE
open RolloutGen
variable {σ α : Type}

/-- the flags of a stream, one per step -/
def flagsOf (xs : List (StepReply σ α)) : List Bool := xs.map StepReply.flag

/-- **closed form**: the rollout collected from a stream -/
theorem collect_spec (d0 : Bool) (st ns : σ) (nd : Bool) (xs : List (StepReply σ α)) :
    let R := collect d0 st ns nd xs
    R.states = (st :: xs.map StepReply.after).take xs.length ∧
    R.actions = xs.map (·.action) ∧ R.logps = xs.map (·.logp) ∧ R.rewards = xs.map (·.reward) ∧
    R.dones = (d0 :: flagsOf xs).take xs.length ∧ R.values = xs.map (·.value) ∧
    R.nextState = (xs.map (·.obs)).getLast?.getD ns ∧ R.nextDone = (flagsOf xs).getLast?.getD nd := by
  have h := collect_fold xs (collectInit d0 st ns nd)
  simpa [collect, collectInit, flagsOf] using h

theorem collect_T (d0 : Bool) (st ns : σ) (nd : Bool) (xs : List (StepReply σ α)) (critic : σ → Rat) :
    ((collect d0 st ns nd xs).col critic).T = xs.length ∧
    ((collect d0 st ns nd xs).col critic).v.length = xs.length := by
  obtain ⟨_, _, _, h4, _, h6, _, _⟩ := collect_spec d0 st ns nd xs
  simp only [Col.T, Collected.col, h4, h6, List.length_map, and_self]

/-- `dones[0]` is the carried flag, `dones[t + 1]` the flag step `t` produced -/
theorem collect_dones (d0 : Bool) (st ns : σ) (nd : Bool) (xs : List (StepReply σ α)) :
    (collect d0 st ns nd xs).dones.length = xs.length ∧
    (0 < xs.length → (collect d0 st ns nd xs).dones[0]? = some d0) ∧
    ∀ t, t + 1 < xs.length → (collect d0 st ns nd xs).dones[t + 1]? = (flagsOf xs)[t]? := by
  obtain ⟨_, _, _, _, h5, _, _, _⟩ := collect_spec d0 st ns nd xs
  rw [h5]
  refine ⟨by simp [flagsOf], fun h => ?_, fun t ht => ?_⟩
  · rw [List.getElem?_take]; simp [h]
  · rw [List.getElem?_take]; simp [ht]

theorem getLast?_getD_eq {β} (l : List β) (d : β) (t : Nat) (h : t + 1 = l.length) :
    some (l.getLast?.getD d) = l[t]? := by
  rw [List.getLast?_eq_getElem?, ← h]
  have : t < l.length := by omega
  simp [List.getElem?_eq_getElem this]

/-- `next_done` is the flag of the last step -/
theorem collect_next_done (d0 : Bool) (st ns : σ) (nd : Bool) (xs : List (StepReply σ α)) (t : Nat)
    (h : t + 1 = xs.length) :
    some (collect d0 st ns nd xs).nextDone = (flagsOf xs)[t]? ∧
    some (collect d0 st ns nd xs).nextState = (xs.map (·.obs))[t]? := by
  obtain ⟨_, _, _, _, _, _, h7, h8⟩ := collect_spec d0 st ns nd xs
  rw [h7, h8]
  exact ⟨getLast?_getD_eq _ _ t (by simp [flagsOf, h]), getLast?_getD_eq _ _ t (by simp [h])⟩

/-- **the convention the GAE loop relies on**: what the loop reads as "done after step `t`" (`dones[t + 1]`, `next_done`
    for the last step) is the flag the environment's reply to step `t` produced -/
theorem collect_doneAt (d0 : Bool) (st ns : σ) (nd : Bool) (xs : List (StepReply σ α)) (critic : σ → Rat)
    (t : Nat) (ht : t < xs.length) :
    some (doneAt ((collect d0 st ns nd xs).col critic) (t + 1)) = (flagsOf xs)[t]? := by
  unfold doneAt
  rw [(collect_T d0 st ns nd xs critic).1]
  by_cases h : t + 1 = xs.length
  · rw [if_pos h]; exact (collect_next_done d0 st ns nd xs t h).1
  · rw [if_neg h]
    have h2 := (collect_dones d0 st ns nd xs).2.2 t (by omega)
    have hl : t < (flagsOf xs).length := by simp [flagsOf, ht]
    simp only [Collected.col, List.getD_eq_getElem?_getD, h2, List.getElem?_eq_getElem hl, Option.getD_some]

end GAE

namespace GAE
open RolloutGen
variable {σ α : Type}

/-- two streams give the same rewards and values up to AND INCLUDING step `s`, and the same flags before it -/
def StreamsAgree (xs xs' : List (StepReply σ α)) (s : Nat) : Prop :=
  (∀ t, t ≤ s → (xs.map (·.reward))[t]? = (xs'.map (·.reward))[t]? ∧ (xs.map (·.value))[t]? = (xs'.map (·.value))[t]?) ∧
  ∀ t, t < s → (flagsOf xs)[t]? = (flagsOf xs')[t]?

theorem collect_agree (d0 : Bool) (st ns st' ns' : σ) (nd nd' : Bool) (xs xs' : List (StepReply σ α))
    (critic critic' : σ → Rat) (s : Nat) (hs : s < xs.length) (hs' : s < xs'.length) (hag : StreamsAgree xs xs' s) :
    AgreeBefore ((collect d0 st ns nd xs).col critic) ((collect d0 st' ns' nd' xs').col critic') (s + 1) := by
  intro t ht
  obtain ⟨_, _, _, h4, _, h6, _, _⟩ := collect_spec d0 st ns nd xs
  obtain ⟨_, _, _, h4', _, h6', _, _⟩ := collect_spec d0 st' ns' nd' xs'
  obtain ⟨hr, hv⟩ := hag.1 t (by omega)
  refine ⟨?_, ?_, ?_⟩
  · simp only [Collected.col, h4, h4', List.getD_eq_getElem?_getD, hr]
  · simp only [Collected.col, h6, h6', List.getD_eq_getElem?_getD, hv]
  · simp only [Collected.col, List.getD_eq_getElem?_getD]
    cases t with
    | zero =>
      rw [(collect_dones d0 st ns nd xs).2.1 (by omega), (collect_dones d0 st' ns' nd' xs').2.1 (by omega)]
    | succ t =>
      rw [(collect_dones d0 st ns nd xs).2.2 t (by omega), (collect_dones d0 st' ns' nd' xs').2.2 t (by omega),
        hag.2 t (by omega)]

/-- **no leak across the first done at or after `t`, through the collection**: if the reply to step `s` reports done
    (terminated OR truncated) in two streams that agree up to step `s` (rewards and values up to and including `s`, flags
    before `s`), the advantages and returns of every step `t ≤ s` computed from the two collected rollouts are equal —
    whatever the streams, the start states, the critics and the lengths are after `s` -/
theorem collect_no_leak (γ lam : Rat) (d0 : Bool) (st ns st' ns' : σ) (nd nd' : Bool) (xs xs' : List (StepReply σ α))
    (critic critic' : σ → Rat) (s : Nat) (hs : s < xs.length) (hs' : s < xs'.length)
    (hd : (flagsOf xs)[s]? = some true) (hd' : (flagsOf xs')[s]? = some true) (hag : StreamsAgree xs xs' s)
    (t : Nat) (ht : t ≤ s) :
    adv γ lam ((collect d0 st ns nd xs).col critic) t = adv γ lam ((collect d0 st' ns' nd' xs').col critic') t ∧
    ret γ lam ((collect d0 st ns nd xs).col critic) t = ret γ lam ((collect d0 st' ns' nd' xs').col critic') t := by
  have e := collect_doneAt d0 st ns nd xs critic s hs
  have e' := collect_doneAt d0 st' ns' nd' xs' critic' s hs'
  rw [hd] at e; rw [hd'] at e'
  exact no_leak γ lam _ _ (s + 1) (by rw [(collect_T d0 st ns nd xs critic).1]; omega)
    (by rw [(collect_T d0 st' ns' nd' xs' critic').1]; omega) (Option.some.inj e) (Option.some.inj e')
    (collect_agree d0 st ns st' ns' nd nd' xs xs' critic critic' s hs hs' hag) t (by omega)

/-! #### generated = model -/

/-- a generated reply as a model reply -/
def ofGen (x : Reply σ α) : StepReply σ α :=
  { action := x.pi0, logp := x.pi1, entropy := x.pi2, value := x.pi3, obs := x.obs, reward := x.reward,
    term := x.term, trunc := x.trunc, reset := x.reset }

/-- the single-agent loop never resets the environment itself (vector environments reset themselves) -/
def ofGenOn (x : Reply σ α) : StepReply σ α := { ofGen x with reset := none }

def onSt (s : On.St σ α) : Collected σ α :=
  { states := s.e0, actions := s.e1, logps := s.e2, rewards := s.e3, dones := s.e4, values := s.e5,
    nextState := s.e6, nextDone := s.e7, state := s.c1, done := s.c0 }

def maSt (s : MaOn.St σ α) : Collected σ α :=
  { states := s.e0, actions := s.e1, logps := s.e2, rewards := s.e3, dones := s.e4, values := s.e5,
    nextState := s.e6, nextDone := s.e7, state := s.c1, done := s.c0 }

/-- the eight-tuple in the order `learn` unpacks it -/
def Collected.tuple (R : Collected σ α) :
    List σ × List α × List Rat × List Rat × List Bool × List Rat × σ × Bool :=
  (R.states, R.actions, R.logps, R.rewards, R.dones, R.values, R.nextState, R.nextDone)

theorem gen_on_step_eq (s : On.St σ α) (x : Reply σ α) : onSt (On.step s x) = collectStep (onSt s) (ofGenOn x) := rfl

/-- as coded `done` restarts from zeros at every learn step -/
theorem gen_on_init_eq (st u6 : σ) (u7 : Bool) : onSt (On.init (α := α) st u6 u7) = collectInit false st u6 u7 := rfl

theorem gen_ma_step_eq (s : MaOn.St σ α) (x : Reply σ α) : maSt (MaOn.step s x) = collectStep (maSt s) (ofGen x) := rfl

theorem gen_ma_init_eq (st u6 : σ) (u7 : Bool) : maSt (MaOn.init (α := α) st u6 u7) = collectInit false st u6 u7 := rfl

/-- the policy is asked about the carried observation — the one the step appends to `states` -/
theorem gen_on_acted_eq (s : On.St σ α) : On.acted s = (onSt s).state := rfl

theorem gen_ma_acted_eq (s : MaOn.St σ α) : MaOn.acted s = (maSt s).state := rfl

theorem foldl_sim {A B X Y} (f : A → X → A) (g : B → Y → B) (m : A → B) (k : X → Y)
    (h : ∀ a x, m (f a x) = g (m a) (k x)) (xs : List X) : ∀ a, m (xs.foldl f a) = (xs.map k).foldl g (m a) := by
  induction xs with
  | nil => intro a; rfl
  | cons x xs ih => intro a; rw [List.foldl_cons, List.map_cons, List.foldl_cons, ih, h]

theorem gen_on_collect_eq (st u6 : σ) (u7 : Bool) (xs : List (Reply σ α)) :
    On.collect st u6 u7 xs = (collect false st u6 u7 (xs.map ofGenOn)).tuple := by
  have h := foldl_sim On.step collectStep onSt ofGenOn gen_on_step_eq xs (On.init st u6 u7)
  rw [gen_on_init_eq] at h
  unfold collect
  rw [← h]
  rfl

theorem gen_ma_collect_eq (st u6 : σ) (u7 : Bool) (xs : List (Reply σ α)) :
    MaOn.collect st u6 u7 xs = (collect false st u6 u7 (xs.map ofGen)).tuple := by
  have h := foldl_sim MaOn.step collectStep maSt ofGen gen_ma_step_eq xs (MaOn.init st u6 u7)
  rw [gen_ma_init_eq] at h
  unfold collect
  rw [← h]
  rfl

/-- the column `learn` reads from the eight-tuple: element 3 rewards, 4 dones, 5 values, 7 next_done, and the critic's
    value of element 6 (the parameters `x3 x4 x5 x7 critic_x6` of `Gen/GAEGen.lean`) -/
def tupleCol (e : List σ × List α × List Rat × List Rat × List Bool × List Rat × σ × Bool) (critic : σ → Rat) : Col :=
  { r := e.2.2.2.1, d := e.2.2.2.2.1, v := e.2.2.2.2.2.1, nv := critic e.2.2.2.2.2.2.1, nd := e.2.2.2.2.2.2.2 }

theorem tupleCol_tuple (R : Collected σ α) (critic : σ → Rat) : tupleCol R.tuple critic = R.col critic := rfl

end GAE

namespace GAE
open RolloutGen
variable {σ α : Type}

/-- `states[0]` is the observation on entry, `states[t + 1]` the observation step `t` left behind -/
theorem collect_states (d0 : Bool) (st ns : σ) (nd : Bool) (xs : List (StepReply σ α)) :
    (collect d0 st ns nd xs).states.length = xs.length ∧
    (0 < xs.length → (collect d0 st ns nd xs).states[0]? = some st) ∧
    ∀ t, t + 1 < xs.length → (collect d0 st ns nd xs).states[t + 1]? = (xs.map StepReply.after)[t]? := by
  obtain ⟨h1, _⟩ := collect_spec d0 st ns nd xs
  rw [h1]
  refine ⟨by simp, fun h => ?_, fun t ht => ?_⟩
  · rw [List.getElem?_take]; simp [h]
  · rw [List.getElem?_take]; simp [ht]

/-- the done flag of a generated reply, as coded: terminated OR truncated -/
def genFlag (x : Reply σ α) : Bool := x.term || x.trunc

theorem flagsOf_on (xs : List (Reply σ α)) (t : Nat) : (flagsOf (xs.map ofGenOn))[t]? = xs[t]?.map genFlag := by
  simp only [flagsOf, List.getElem?_map, Option.map_map]; rfl

theorem flagsOf_ma (xs : List (Reply σ α)) (t : Nat) : (flagsOf (xs.map ofGen))[t]? = xs[t]?.map genFlag := by
  simp only [flagsOf, List.getElem?_map, Option.map_map]; rfl

/-- agreement of two generated streams up to step `s` -/
def GenStreamsAgree (xs xs' : List (Reply σ α)) (s : Nat) : Prop :=
  (∀ t, t ≤ s → xs[t]?.map (·.reward) = xs'[t]?.map (·.reward) ∧ xs[t]?.map (·.pi3) = xs'[t]?.map (·.pi3)) ∧
  ∀ t, t < s → xs[t]?.map genFlag = xs'[t]?.map genFlag

theorem streamsAgree_of_gen (k : Reply σ α → StepReply σ α)
    (hr : ∀ x, (k x).reward = x.reward) (hv : ∀ x, (k x).value = x.pi3) (hf : ∀ x, (k x).flag = genFlag x)
    (xs xs' : List (Reply σ α)) (s : Nat) (h : GenStreamsAgree xs xs' s) :
    StreamsAgree (xs.map k) (xs'.map k) s := by
  have e1 : ∀ ys : List (Reply σ α), (ys.map k).map (·.reward) = ys.map (·.reward) := by
    intro ys; rw [List.map_map]; exact List.map_congr_left (fun x _ => hr x)
  have e2 : ∀ ys : List (Reply σ α), (ys.map k).map (·.value) = ys.map (·.pi3) := by
    intro ys; rw [List.map_map]; exact List.map_congr_left (fun x _ => hv x)
  have e3 : ∀ ys : List (Reply σ α), flagsOf (ys.map k) = ys.map genFlag := by
    intro ys; unfold flagsOf; rw [List.map_map]; exact List.map_congr_left (fun x _ => hf x)
  refine ⟨fun t ht => ?_, fun t ht => ?_⟩
  · rw [e1, e1, e2, e2]; simp only [List.getElem?_map]; exact h.1 t ht
  · rw [e3, e3]; simp only [List.getElem?_map]; exact h.2 t ht

end GAE
