import Proofs.NStepGenEq
import Gen.SamplerGen

/-!
# Proofs/SamplerGenEq.lean — `Gen/SamplerGen.lean` (translated from the source text of
`components/replay_buffer.py`, `components/sampler.py`, `training/train_off_policy.py`) equals the sampling
model of `Model/NStep.lean`.

The generated definitions live over their own structures (`SamplerGen.Mem`, `IdxT`, `Batch`, `Sampler`); the
model talks about plain lists (`sampleBlock`, `Paired`).  `toKind / toMode / viewIdx / viewCall` are the views
between the two.  Every equality is for all storages, sizes, draws, batch sizes and learners.
-/
namespace NStep
open SamplerGen

/-! ### views -/

def toKind : MemClass → MemKind
  | .none => .none
  | .replay => .ReplayBuffer
  | .multiStep => .MultiStepReplayBuffer
  | .prioritized => .PrioritizedReplayBuffer
  | .multiAgent => .MultiAgentReplayBuffer
  | .other => .other

def toMode : SMode → Mode
  | .standard => .sample_standard
  | .per => .sample_per
  | .nStep => .sample_n_step
  | .distributed => .sample_distributed

def viewIdx (i : IdxT) : IdxCol := ⟨i.vals, i.extra⟩

/-- what the model says about one `agent.learn` call -/
def viewCall {α ω : Type} (c : LearnCall α ω) : Paired α :=
  { one := c.experiences.rows, oneExtra := c.experiences.extra,
    oneIdx := c.experiences.idxs.map viewIdx,
    nst := c.n_experiences.map (·.rows),
    nstExtra := (c.n_experiences.map (·.extra)).getD 0 }

/-! ### replay_buffer.py -/

/-- the class statements: `isinstance` as the model's class tests -/
theorem gen_isinstance_eq (c : MemClass) :
    isinstance_PrioritizedReplayBuffer (toKind c) = decide (c = .prioritized) ∧
    isinstance_MultiStepReplayBuffer (toKind c) = decide (c = .multiStep) ∧
    isinstance_ReplayBuffer (toKind c) = decide (c = .replay ∨ c = .multiStep ∨ c = .prioritized) ∧
    isinstance_MultiAgentReplayBuffer (toKind c) = decide (c = .multiAgent) := by
  cases c <;> decide

/-- `ReplayBuffer.sample`: the first `B` values of the permutation, read from the storage, one record per
    row; the indices are attached (flat) iff `return_idx` -/
theorem gen_replay_sample_eq {α β ω : Type} (m : Mem α) (env : Env β ω) (B : Nat) (r : Bool) :
    ReplayBuffer_sample m env B r =
      some { rows := (pairedSample ((env.randperm 0 m.size).take B) m.store m.store).1, extra := 0,
             idxs := if r then some ⟨(env.randperm 0 m.size).take B, 0, true⟩ else none, weights := none } := by
  cases r <;> rfl

/-- `PrioritizedReplayBuffer.sample`: the proportional draw, read from the storage, one record per row; the
    indices are attached as a (B,1) column, the weights are those of the same indices -/
theorem gen_per_sample_eq {α β ω : Type} (m : Mem α) (env : Env β ω) (B : Nat) (b : β) :
    PrioritizedReplayBuffer_sample m env B b =
      some { rows := (pairedSample (env.sample_proportional 0 B) m.store m.store).1, extra := 0,
             idxs := some ⟨env.sample_proportional 0 B, 1, true⟩,
             weights := some (env.calculate_weights ⟨env.sample_proportional 0 B, 0, true⟩ b) } := rfl

/-- `MultiStepReplayBuffer.sample_from_indices`: the storage read with the given index tensor as it is -/
theorem gen_sample_from_indices_eq {α β ω : Type} (m : Mem α) (env : Env β ω) (i : IdxT) :
    (MultiStepReplayBuffer_sample_from_indices m env i : Option (Batch α ω)) =
      some { rows := i.vals.map m.store, extra := i.extra, idxs := none, weights := none } := rfl

/-! ### sampler.py -/

/-- `Sampler.__init__` = the model's decision on the flags -/
theorem gen_sampler_init_eq {α : Type} (c : MemClass) (store : Nat → α) (size : Nat) (ds : Bool) (dl : DLKind) :
    (Sampler_init ⟨toKind c, store, size⟩ ds dl).map (·.sample) =
      (samplerMode c ds (dl != .none) (dl == .DataLoader)).map toMode := by
  cases c <;> cases ds <;> cases dl <;> rfl

/-- … and the attributes it sets: the memory is kept, `per` / `n_step` are the class tests -/
theorem gen_sampler_init_fields {α : Type} (c : MemClass) (store : Nat → α) (size : Nat) (ds : Bool) (dl : DLKind)
    (s : Sampler α) (hs : Sampler_init ⟨toKind c, store, size⟩ ds dl = some s) :
    s.memory = ⟨toKind c, store, size⟩ ∧ s.per = decide (c = .prioritized) ∧ s.n_step = decide (c = .multiStep) ∧
      s.distributed = (dl != .none && ds && dl == .DataLoader) := by
  cases c <;> cases ds <;> cases dl <;>
    first
    | (cases hs; exact ⟨rfl, rfl, rfl, rfl⟩)
    | cases hs

/-- a sampler built around a memory alone (`Sampler(memory=m)`, as `train_off_policy` does) -/
theorem gen_sampler_of_memory {α : Type} (c : MemClass) (hc : c ≠ .none) (store : Nat → α) (size : Nat) :
    ∃ s, Sampler_init ⟨toKind c, store, size⟩ false .none = some s ∧ s.memory = ⟨toKind c, store, size⟩ ∧
      some s.sample = (samplerMode c false false false).map toMode := by
  cases c <;> first | exact absurd rfl hc | exact ⟨_, rfl, rfl, rfl⟩

/-- `Sampler.sample_standard` around a uniform buffer -/
theorem gen_sample_standard_eq {α β ω : Type} (s : Sampler α) (h : s.memory.kind = .ReplayBuffer) (env : Env β ω)
    (B : Nat) (r : Bool) : Sampler_sample_standard s env B r = ReplayBuffer_sample s.memory env B r := by
  unfold Sampler_sample_standard
  rw [h]
  cases ReplayBuffer_sample s.memory env B r <;> rfl

/-- `Sampler.sample_per` around a prioritised buffer -/
theorem gen_sample_per_eq {α β ω : Type} (s : Sampler α) (h : s.memory.kind = .PrioritizedReplayBuffer)
    (env : Env β ω) (B : Nat) (b : β) :
    Sampler_sample_per s env B b = PrioritizedReplayBuffer_sample s.memory env B b := by
  unfold Sampler_sample_per
  rw [h]
  cases PrioritizedReplayBuffer_sample s.memory env B b <;> rfl

/-- `Sampler.sample_n_step` around a multi-step buffer: a tensor of indices is flattened first, then the
    storage is read with it -/
theorem gen_sample_n_step_eq {α β ω : Type} (s : Sampler α) (h : s.memory.kind = .MultiStepReplayBuffer)
    (env : Env β ω) (i : IdxT) :
    (Sampler_sample_n_step s env i : Option (Batch α ω)) =
      some { rows := i.vals.map s.memory.store, extra := if i.tensor then 0 else i.extra, idxs := none,
             weights := none } := by
  unfold Sampler_sample_n_step
  rw [h]
  cases i.tensor <;> rfl

/-! ### train_off_policy.py -/

/-- every `if per:` learn block of the function has the same translation -/
theorem gen_learn_blocks_eq {α β ω π : Type} :
    ∀ b ∈ (learn_blocks : List (Bool → Mem α → Option (Mem α) → Sampler α → Option (Sampler α) → (Nat → Env β ω) → Nat → β →
      (Batch α ω → Option (Batch α ω) → Bool → LearnRet π) → Option (BlockOut α ω π))), b = learn_block_0 := by
  intro b hb
  simpa [learn_blocks] using hb

/-- SETUP: one sampler per buffer, each choosing its method from the class of its buffer -/
theorem gen_setup_eq {α : Type} (c : MemClass) (hc : c ≠ .none) (store : Nat → α) (size : Nat)
    (nm : Option (Mem α)) (hn : ∀ m ∈ nm, m.kind = .MultiStepReplayBuffer) :
    ∃ s, setup ⟨toKind c, store, size⟩ nm = some (s, nm.map (fun m => ⟨false, false, true, m, .sample_n_step⟩)) ∧
      s.memory = ⟨toKind c, store, size⟩ ∧ some s.sample = (samplerMode c false false false).map toMode := by
  obtain ⟨s, h1, h2, h3⟩ := gen_sampler_of_memory c hc store size
  refine ⟨s, ?_, h2, h3⟩
  unfold setup
  rw [h1]
  cases nm with
  | none => rfl
  | some m =>
    obtain ⟨k, st, sz⟩ := m
    have : k = .MultiStepReplayBuffer := hn ⟨k, st, sz⟩ rfl
    subst this
    rfl

/-- **SETUP + LEARN = the model's sampling block.**  For a uniform or a prioritised 1-step buffer, `per` set
    accordingly, with or without a multi-step buffer beside it, for all storages, draws and learners: the
    block performs exactly one `agent.learn` call; what that call receives is `sampleBlock true per …` of the
    indices drawn by the 1-step buffer; `memory.update_priorities` is called iff `per`, with what the learner
    returned. -/
theorem gen_train_sample_eq {α β ω π : Type} (c : MemClass) (hc : c = .replay ∨ c = .prioritized)
    (store : Nat → α) (size : Nat) (nstore : Option (Nat → α)) (nsize : Nat) (env : Nat → Env β ω) (B : Nat) (b : β)
    (learn : Batch α ω → Option (Batch α ω) → Bool → LearnRet π) :
    let memory : Mem α := ⟨toKind c, store, size⟩
    let nmem : Option (Mem α) := nstore.map (fun s => ⟨.MultiStepReplayBuffer, s, nsize⟩)
    let per := decide (c = .prioritized)
    let drawn := if per then (env 0).sample_proportional 0 B else ((env 0).randperm 0 size).take B
    ∃ out call, ((setup memory nmem).bind fun p => learn_block_0 per memory nmem p.1 p.2 env B b learn) = some out ∧
      out.calls = [call] ∧ call.per = per ∧
      viewCall call = sampleBlock true per store nstore drawn ∧
      out.updates = updatesOf per
        ((learn call.experiences call.n_experiences per).idxs, (learn call.experiences call.n_experiences per).priorities) ∧
      (per = true → call.experiences.weights = some ((env 0).calculate_weights ⟨drawn, 0, true⟩ b)) := by
  intro memory nmem per drawn
  have hcn : c ≠ .none := by rcases hc with h | h <;> rw [h] <;> decide
  obtain ⟨s, hs, hmem, hmode⟩ := gen_setup_eq c hcn store size nmem (by
    intro m hm
    cases nstore with
    | none => simp [nmem] at hm
    | some st => simp [nmem] at hm; rw [← hm])
  obtain ⟨d, p, nn, mm, md⟩ := s
  simp only at hmem hmode
  subst hmem
  rw [show setup memory nmem = _ from hs]
  rcases hc with h | h <;> subst h
  · -- uniform buffer
    have hmd : md = .sample_standard := by simpa [samplerMode, toMode] using hmode
    subst hmd
    cases nstore with
    | none => exact ⟨_, _, rfl, rfl, rfl, rfl, rfl, by intro h; exact absurd h (by decide)⟩
    | some st => exact ⟨_, _, rfl, rfl, rfl, rfl, rfl, by intro h; exact absurd h (by decide)⟩
  · -- prioritised buffer
    have hmd : md = .sample_per := by simpa [samplerMode, toMode] using hmode
    subst hmd
    cases nstore with
    | none => exact ⟨_, _, rfl, rfl, rfl, rfl, rfl, fun _ => rfl⟩
    | some st => exact ⟨_, _, rfl, rfl, rfl, rfl, rfl, fun _ => rfl⟩

/-- STORE without an n-step memory: the transition itself goes to the 1-step buffer -/
theorem gen_store_block_plain {σ τ : Type} (nAdd : σ → τ → Option (σ × Option τ)) (t : τ) :
    store_block none nAdd t = some (none, [t]) := rfl

/-- `n_step_memory.add` as the generated `NStepGen.add` acting on the log of `Proofs/NStepGenEq.lean` -/
def nAddG (n : Nat) (γ : Rat) (g : GenState) (x : NStepGen.TD) : Option (GenState × Option NStepGen.TD) :=
  match NStepGen.add n γ g.buf x with
  | none => none
  | some a => some (⟨a.buf, g.stored ++ a.stored.toList, g.ret⟩, a.ret)

/-- one iteration of the storing statements of `train_off_policy`, as translated -/
def genStoreStep (n : Nat) (γ : Rat) (g : Option GenState) (x : NStepGen.TD) : Option GenState :=
  match store_block g (nAddG n γ) x with
  | some (some s, added) => some { s with ret := s.ret ++ added }
  | _ => none

/-- STORE with an n-step memory = the pairing `genStep` that `C10_source_translation_kth_records_aligned` is about:
    the 1-step buffer receives the returned transition exactly when `add` returned one -/
theorem gen_store_block_eq (n : Nat) (γ : Rat) (g : Option GenState) (x : NStepGen.TD) :
    genStoreStep n γ g x = genStep n γ g x := by
  unfold genStoreStep genStep store_block nAddG
  cases g with
  | none => rfl
  | some g =>
    simp only
    cases NStepGen.add n γ g.buf x with
    | none => rfl
    | some a =>
      obtain ⟨bf, stt, rt⟩ := a
      cases rt <;> simp

/-- folding the translated storing statements over a stream = `genRun` -/
theorem gen_store_run_eq (n : Nat) (γ : Rat) (X : List NStepGen.TD) :
    X.foldl (genStoreStep n γ) (some ⟨[], [], []⟩) = genRun n γ X := by
  unfold genRun
  have : genStoreStep n γ = genStep n γ := by funext g x; exact gen_store_block_eq n γ g x
  rw [this]

end NStep
