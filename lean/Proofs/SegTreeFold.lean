import Proofs.SegTreeInv
import Mathlib.Tactic.Ring
import Mathlib.Tactic.Linarith

/-!
  Proofs/SegTreeFold.lean — a node of an invariant-satisfying tree equals the left fold of the
  leaves below it; `operate` / `_operate_helper` over a feasible range equals the fold over that
  range.  Generic in the operation (associative, with the initial value as two-sided identity).
-/
namespace SegTree
section generic
variable {α : Type} (op : α → α → α) (d : α)

/-- `functools.reduce(op, [g(s), …, g(s+n-1)], d)` -/
def foldN (g : Nat → α) (s : Nat) : Nat → α
  | 0 => d
  | n + 1 => op (foldN g s n) (g (s + n))

structure IsMonoid : Prop where
  assoc : ∀ a b c, op (op a b) c = op a (op b c)
  idL : ∀ a, op d a = a
  idR : ∀ a, op a d = a

variable {op d}

theorem foldN_add (hm : IsMonoid op d) (g : Nat → α) (s a : Nat) : ∀ b,
    foldN op d g s (a + b) = op (foldN op d g s a) (foldN op d g (s + a) b)
  | 0 => by simp [foldN, hm.idR]
  | b + 1 => by
    rw [← Nat.add_assoc, foldN, foldN, foldN_add hm g s a b, hm.assoc, Nat.add_assoc]

theorem foldN_one (hm : IsMonoid op d) (g : Nat → α) (s : Nat) : foldN op d g s 1 = g s := by
  simp [foldN, hm.idL]

theorem foldN_congr (g g' : Nat → α) (s s' : Nat) : ∀ n, (∀ j, j < n → g (s + j) = g' (s' + j)) →
    foldN op d g s n = foldN op d g' s' n
  | 0, _ => rfl
  | n + 1, h => by
    rw [foldN, foldN, foldN_congr g g' s s' n (fun j hj => h j (by omega)), h n (by omega)]

/-- node `idx`, `h` levels above the leaves, is the fold of the `2^h` leaves below it
    (positions are tree positions: leaf `j` sits at `cap + j`) -/
theorem node_fold (hm : IsMonoid op d) (cap : Nat) (t : List α) (hinv : Inv op d cap t) :
    ∀ (h idx : Nat), 1 ≤ idx → (idx + 1) * 2 ^ h ≤ 2 * cap →
      nd d t idx = foldN op d (nd d t) (idx * 2 ^ h) (2 ^ h)
  | 0, idx, _, _ => by simp [foldN_one hm]
  | h + 1, idx, h1, h2 => by
    have hP : 0 < 2 ^ h := Nat.pos_of_ne_zero (by simp)
    have e2 : 2 ^ (h + 1) = 2 ^ h + 2 ^ h := by rw [Nat.pow_succ]; omega
    have hlt : idx < cap := by
      rw [e2] at h2
      have : (idx + 1) * (2 ^ h + 2 ^ h) = (idx + 1) * 2 * 2 ^ h := by ring
      rw [this] at h2
      have := Nat.le_of_mul_le_mul_right (c := 1) (a := (idx + 1) * 2) (b := 2 * cap) (by
        have : (idx + 1) * 2 * 1 ≤ (idx + 1) * 2 * 2 ^ h := Nat.mul_le_mul_left _ hP
        omega) (by omega)
      omega
    have c1 : (2 * idx + 1) * 2 ^ h ≤ 2 * cap := by
      have : (2 * idx + 1) * 2 ^ h ≤ (idx + 1) * 2 ^ (h + 1) := by
        have : (idx + 1) * 2 ^ (h + 1) = (2 * idx + 2) * 2 ^ h := by ring
        rw [this]; exact Nat.mul_le_mul_right _ (by omega)
      omega
    have c2 : (2 * idx + 1 + 1) * 2 ^ h ≤ 2 * cap := by
      have : (2 * idx + 1 + 1) * 2 ^ h = (idx + 1) * 2 ^ (h + 1) := by ring
      omega
    rw [hinv.2 idx h1 hlt, node_fold hm cap t hinv h (2 * idx) (by omega) c1,
      node_fold hm cap t hinv h (2 * idx + 1) (by omega) c2, e2, foldN_add hm]
    have p1 : 2 * idx * 2 ^ h = idx * (2 ^ h + 2 ^ h) := by ring
    have p2 : (2 * idx + 1) * 2 ^ h = idx * (2 ^ h + 2 ^ h) + 2 ^ h := by ring
    rw [p1, p2]

/-- the root is the fold of all leaves -/
theorem root_fold (hm : IsMonoid op d) (k : Nat) (t : List α) (hinv : Inv op d (2 ^ k) t) :
    nd d t 1 = foldN op d (fun j => nd d t (2 ^ k + j)) 0 (2 ^ k) := by
  rw [node_fold hm (2 ^ k) t hinv k 1 (by omega) (by omega)]
  apply foldN_congr
  intro j _; simp

/-- `_operate_helper` on a node whose range `[ns, ne]` has `2^h` leaves and contains `[s, e]` -/
theorem operateAux_spec (hm : IsMonoid op d) (cap : Nat) (t : List α) (hinv : Inv op d cap t) :
    ∀ (h fuel s e node ns ne : Nat), h < fuel → ne + 1 = ns + 2 ^ h → node * 2 ^ h = cap + ns →
      ne < cap → ns ≤ s → s ≤ e → e ≤ ne →
      operateAux op d t fuel s e node ns ne =
        some (foldN op d (fun j => nd d t (cap + j)) s (e + 1 - s))
  | h, 0, _, _, _, _, _, hf, _, _, _, _, _, _ => by omega
  | 0, fuel + 1, s, e, node, ns, ne, _, hr, hn, _, h1, h2, h3 => by
    have : s = ns ∧ e = ne := by simp at hr; omega
    unfold operateAux
    rw [if_pos this]
    obtain ⟨rfl, rfl⟩ := this
    have : e + 1 - s = 1 := by omega
    rw [this, foldN_one hm]
    simp at hn; rw [hn]
  | h + 1, fuel + 1, s, e, node, ns, ne, hf, hr, hn, hc, h1, h2, h3 => by
    have hP : 0 < 2 ^ h := Nat.pos_of_ne_zero (by simp)
    have e2 : 2 ^ (h + 1) = 2 ^ h + 2 ^ h := by rw [Nat.pow_succ]; omega
    have hnode : 1 ≤ node := by
      rcases Nat.eq_zero_or_pos node with hz | hz
      · rw [hz] at hn; simp at hn; omega
      · exact hz
    unfold operateAux
    by_cases hfull : s = ns ∧ e = ne
    · rw [if_pos hfull]
      obtain ⟨rfl, rfl⟩ := hfull
      have hb : (node + 1) * 2 ^ (h + 1) ≤ 2 * cap := by
        have : (node + 1) * 2 ^ (h + 1) = node * 2 ^ (h + 1) + 2 ^ (h + 1) := by ring
        omega
      rw [node_fold hm cap t hinv (h + 1) node hnode hb, hn]
      have : e + 1 - s = 2 ^ (h + 1) := by omega
      rw [this]
      congr 1
      apply foldN_congr
      intro j _; rw [Nat.add_assoc]
    · rw [if_neg hfull]
      have hmid : (ns + ne) / 2 = ns + 2 ^ h - 1 := by
        rw [e2] at hr; generalize 2 ^ h = P at hr hP ⊢; omega
      simp only [hmid]
      have hnl : 2 * node * 2 ^ h = cap + ns := by
        have : 2 * node * 2 ^ h = node * 2 ^ (h + 1) := by ring
        omega
      have hnr : (2 * node + 1) * 2 ^ h = cap + (ns + 2 ^ h - 1 + 1) := by
        have : (2 * node + 1) * 2 ^ h = node * 2 ^ (h + 1) + 2 ^ h := by ring
        omega
      have hrl : ns + 2 ^ h - 1 + 1 = ns + 2 ^ h := by omega
      have hrr : ne + 1 = (ns + 2 ^ h - 1 + 1) + 2 ^ h := by omega
      by_cases hl : e ≤ ns + 2 ^ h - 1
      · rw [if_pos hl]
        exact operateAux_spec hm cap t hinv h fuel s e (2 * node) ns (ns + 2 ^ h - 1) (by omega) hrl hnl
          (by omega) h1 h2 hl
      · rw [if_neg hl]
        by_cases hrt : ns + 2 ^ h - 1 + 1 ≤ s
        · rw [if_pos hrt]
          exact operateAux_spec hm cap t hinv h fuel s e (2 * node + 1) (ns + 2 ^ h - 1 + 1) ne (by omega)
            hrr hnr hc hrt h2 h3
        · rw [if_neg hrt]
          rw [operateAux_spec hm cap t hinv h fuel s (ns + 2 ^ h - 1) (2 * node) ns (ns + 2 ^ h - 1)
              (by omega) hrl hnl (by omega) h1 (by omega) (by omega),
            operateAux_spec hm cap t hinv h fuel (ns + 2 ^ h - 1 + 1) e (2 * node + 1) (ns + 2 ^ h - 1 + 1) ne
              (by omega) hrr hnr hc (by omega) (by omega) h3]
          simp only
          have hs : e + 1 - s = (ns + 2 ^ h - 1 + 1 - s) + (e + 1 - (ns + 2 ^ h - 1 + 1)) := by omega
          rw [hs, foldN_add hm]
          have : s + (ns + 2 ^ h - 1 + 1 - s) = ns + 2 ^ h - 1 + 1 := by omega
          rw [this]

theorem k_lt_two_pow (k : Nat) : k < 2 ^ k := Nat.lt_two_pow_self

/-- `operate(start, end)` on a feasible range is the fold of the leaves `start … end'`
    (`end' = end - 1`, with `end = 0` standing for `capacity`) -/
theorem operate_spec (hm : IsMonoid op d) (k : Nat) (t : List α) (hinv : Inv op d (2 ^ k) t)
    (s e : Nat) (hfeas : s ≤ (if e = 0 then e + 2 ^ k else e) - 1 ∧ (if e = 0 then e + 2 ^ k else e) - 1 < 2 ^ k) :
    operate op d (2 ^ k) t s e =
      some (foldN op d (fun j => nd d t (2 ^ k + j)) s ((if e = 0 then e + 2 ^ k else e) - s)) := by
  unfold operate
  simp only
  rw [if_pos hfeas]
  have hP : 0 < 2 ^ k := Nat.pos_of_ne_zero (by simp)
  rw [operateAux_spec hm (2 ^ k) t hinv k (2 ^ k + 1) s _ 1 0 (2 ^ k - 1) (by have := k_lt_two_pow k; omega)
    (by omega) (by omega) (by omega) (by omega) hfeas.1 (by omega)]
  have h1 : 1 ≤ (if e = 0 then e + 2 ^ k else e) := by split <;> omega
  congr 2
  generalize (if e = 0 then e + 2 ^ k else e) = E at h1 hfeas ⊢
  omega

/-- infeasible ranges are rejected -/
theorem operate_infeasible (cap : Nat) (t : List α) (s e : Nat)
    (h : ¬ (s ≤ (if e = 0 then e + cap else e) - 1 ∧ (if e = 0 then e + cap else e) - 1 < cap)) :
    operate op d cap t s e = none := by
  unfold operate; simp only; rw [if_neg h]

end generic
end SegTree
