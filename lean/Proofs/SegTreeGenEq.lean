import Model.SegTree
import Gen.SegTreeGen

/-!
  Proofs/SegTreeGenEq.lean — the definitions GENERATED from the source text of
  `agilerl/components/segment_tree.py` (`Gen/SegTreeGen.lean`, written by
  `harness/py2lean_segtree.py` on every run) are EQUAL to the hand-written model functions of
  `Model/SegTree.lean`, for all inputs and all fuel.  If the source changes its behaviour these
  proofs stop checking; the C11 theorems are restated over the generated definitions in
  `Props/C11.lean` (`C11_source_translation_*`).  Core Lean only.
-/
namespace SegTree
open SegTreeGen

section generic
variable {α : Type} (op : α → α → α) (d : α)

/-- `SegmentTree.__init__`: power-of-two assertion and the initial list -/
theorem gen_init_eq (c : Nat) :
    SegmentTree.init c d = if isPow2 c = true then some (initTree c d) else none := by
  unfold SegmentTree.init isPow2 initTree
  by_cases h1 : c > 0 <;> by_cases h2 : (c &&& (c - 1)) = 0 <;> simp [h1, h2]

/-- the `while idx >= 1` loop of `__setitem__` is `fixUp`, for all fuel -/
theorem gen_setitem_loop_eq (cap : Nat) : ∀ (fuel idx : Nat) (t : List α),
    SegmentTree.setitem_loop0 op d cap fuel t idx = fixUp op d fuel idx t
  | 0, _, _ => rfl
  | fuel + 1, idx, t => by
    unfold SegmentTree.setitem_loop0 fixUp
    by_cases h : idx ≥ 1
    · simp only [h, if_true, nd]
      exact gen_setitem_loop_eq cap fuel _ _
    · simp only [h, if_false]

/-- `__setitem__` with any fuel is the index shift, the store and `fixUp`; with the model's fuel it
    is `setItem` -/
theorem gen_setitem_fuel_eq (cap : Nat) (t : List α) (fuel i : Nat) (v : α) :
    SegmentTree.setitem op d cap t fuel i v = fixUp op d fuel ((i + cap) / 2) (t.set (i + cap) v) := by
  unfold SegmentTree.setitem
  simp only [gen_setitem_loop_eq]

theorem gen_setitem_eq (cap : Nat) (t : List α) (i : Nat) (v : α) :
    SegmentTree.setitem op d cap t (i + cap) i v = setItem op d cap t i v := by
  rw [gen_setitem_fuel_eq]; rfl

/-- `_operate_helper` is `operateAux`, for all fuel -/
theorem gen_operate_helper_eq (cap : Nat) (t : List α) : ∀ (fuel s e node ns ne : Nat),
    SegmentTree.operate_helper op d cap t fuel s e node ns ne = operateAux op d t fuel s e node ns ne
  | 0, _, _, _, _, _ => rfl
  | fuel + 1, s, e, node, ns, ne => by
    unfold SegmentTree.operate_helper operateAux
    simp only [gen_operate_helper_eq cap t fuel, nd]
    by_cases h1 : s = ns ∧ e = ne
    · simp only [h1, and_self, if_true]
    · simp only [h1, if_false]
      by_cases h2 : e ≤ (ns + ne) / 2
      · simp only [h2, if_true]
      · simp only [h2, if_false]
        by_cases h3 : (ns + ne) / 2 + 1 ≤ s
        · simp only [h3, if_true]
        · simp only [h3, if_false]
          cases operateAux op d t fuel s ((ns + ne) / 2) (2 * node) ns ((ns + ne) / 2) <;>
            cases operateAux op d t fuel ((ns + ne) / 2 + 1) e (2 * node + 1) ((ns + ne) / 2 + 1) ne <;> rfl

/-- `operate` with any fuel: the `end <= 0` adjustment followed by `operateAux` -/
theorem gen_operate_fuel_eq (cap : Nat) (t : List α) (fuel s e : Nat) :
    SegmentTree.operate op d cap t fuel s e =
      operateAux op d t fuel s ((if e = 0 then e + cap else e) - 1) 1 0 (cap - 1) := by
  unfold SegmentTree.operate
  simp only [gen_operate_helper_eq, Nat.le_zero_eq]

/-- on feasible ranges `operate` with the model's fuel is the model's `operate` (which answers
    `none` on infeasible ranges, where the Python ends in RecursionError / IndexError) -/
theorem gen_operate_eq (cap : Nat) (t : List α) (s e : Nat)
    (hfeas : s ≤ (if e = 0 then e + cap else e) - 1 ∧ (if e = 0 then e + cap else e) - 1 < cap) :
    SegmentTree.operate op d cap t (cap + 1) s e = operate op d cap t s e := by
  rw [gen_operate_fuel_eq]
  unfold operate
  simp only
  rw [if_pos hfeas]

/-- `operate()` with default arguments is `tree[1]` -/
theorem gen_operate_full (cap : Nat) (t : List α) (fuel : Nat) :
    SegmentTree.operate op d cap t (fuel + 1) 0 0 = some (nd d t 1) := by
  rw [gen_operate_fuel_eq]
  unfold operateAux
  simp [nd]

/-- `__getitem__` -/
theorem gen_getitem_eq (cap : Nat) (t : List α) (i : Nat) :
    SegmentTree.getitem op d cap t i = if i < cap then some (nd d t (cap + i)) else none := by
  unfold SegmentTree.getitem
  simp [nd]

end generic

/-! ### the two subclasses -/

theorem gen_sum_op_eq : SumSegmentTree.op = fun a b : Rat => a + b := rfl
theorem gen_sum_init_value_eq : SumSegmentTree.initValue = 0 := rfl
theorem gen_min_op_eq : MinSegmentTree.op = minInf := by
  funext a b
  cases a <;> cases b <;> rfl
theorem gen_min_init_value_eq : MinSegmentTree.initValue = none := rfl

theorem gen_sum_init_eq (c : Nat) :
    SumSegmentTree.init c = if isPow2 c = true then some (initTree c (0 : Rat)) else none := by
  unfold SumSegmentTree.init; rw [gen_init_eq]; rfl

theorem gen_min_init_eq (c : Nat) :
    MinSegmentTree.init c = if isPow2 c = true then some (initTree c (none : Option Rat)) else none := by
  unfold MinSegmentTree.init; rw [gen_init_eq]; rfl

/-- the `sum` / `min` wrappers are `operate` -/
theorem gen_sum_eq (op : Rat → Rat → Rat) (d : Rat) (cap : Nat) (t : List Rat) (fuel s e : Nat) :
    SumSegmentTree.sum op d cap t fuel s e = SegmentTree.operate op d cap t fuel s e := rfl
theorem gen_min_eq (op : Option Rat → Option Rat → Option Rat) (d : Option Rat) (cap : Nat)
    (t : List (Option Rat)) (fuel s e : Nat) :
    MinSegmentTree.min op d cap t fuel s e = SegmentTree.operate op d cap t fuel s e := rfl

/-- the `while idx < self.capacity` loop of `retrieve` is `retrieveLoop`, for all fuel -/
theorem gen_retrieve_loop_eq (op : Rat → Rat → Rat) (cap : Nat) (t : List Rat) : ∀ (fuel idx : Nat) (u : Rat),
    SumSegmentTree.retrieve_loop0 op 0 cap t fuel u idx = retrieveLoop cap t fuel idx u
  | 0, _, _ => rfl
  | fuel + 1, idx, u => by
    unfold SumSegmentTree.retrieve_loop0 retrieveLoop
    by_cases h1 : idx < cap
    · simp only [h1, if_true, nd]
      by_cases h2 : t.getD (2 * idx) 0 > u
      · simp only [h2, if_true]; exact gen_retrieve_loop_eq op cap t fuel _ _
      · simp only [h2, if_false]; exact gen_retrieve_loop_eq op cap t fuel _ _
    · simp only [h1, if_false]

/-- `retrieve` (assertion `0 <= u <= self.sum() + 1e-5`, walk, `idx - capacity`) is the model's
    `retrieve`; the float literal `1e-5` is the model's `eps` -/
theorem gen_retrieve_eq (op : Rat → Rat → Rat) (cap : Nat) (hc : 0 < cap) (t : List Rat) (u : Rat) :
    SumSegmentTree.retrieve op 0 cap t cap u = retrieve cap t u := by
  obtain ⟨f, rfl⟩ : ∃ f, cap = f + 1 := ⟨cap - 1, by omega⟩
  unfold SumSegmentTree.retrieve retrieve retrieveWalk
  rw [gen_sum_eq, gen_operate_full op 0 (f + 1) t f]
  simp only [gen_retrieve_loop_eq]
  rfl

end SegTree
