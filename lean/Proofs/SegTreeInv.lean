import Model.SegTree

/-!
  Proofs/SegTreeInv.lean — the structural invariant of the array segment tree
  ("every internal node is the operation of its two children") and its preservation by
  `SegmentTree.__setitem__`, for an arbitrary operation.  Core Lean only.
-/
namespace SegTree
section generic
variable {α : Type} (op : α → α → α) (d : α)

theorem nd_set (t : List α) (i n : Nat) (v : α) :
    nd d (t.set i v) n = if n = i ∧ i < t.length then v else nd d t n := by
  unfold nd
  simp only [List.getD_eq_getElem?_getD, List.getElem?_set]
  by_cases h : i = n
  · subst h
    by_cases hl : i < t.length
    · simp [hl]
    · have : t[i]? = none := List.getElem?_eq_none (by omega)
      simp [hl]
  · have h' : ¬ n = i := fun e => h e.symm
    simp [h, h']

theorem nd_set_ne (t : List α) (i n : Nat) (v : α) (h : n ≠ i) : nd d (t.set i v) n = nd d t n := by
  rw [nd_set]; simp [h]

theorem nd_set_eq (t : List α) (i : Nat) (v : α) (h : i < t.length) : nd d (t.set i v) i = v := by
  rw [nd_set]; simp [h]

/-- every internal node is the operation of its two children; the list has the Python length -/
def Inv (cap : Nat) (t : List α) : Prop :=
  t.length = 2 * cap ∧
  ∀ n, 1 ≤ n → n < cap → nd d t n = op (nd d t (2 * n)) (nd d t (2 * n + 1))

/-- the invariant with node `m` possibly stale (the state inside the loop of `__setitem__`) -/
def InvExcept (cap : Nat) (t : List α) (m : Nat) : Prop :=
  t.length = 2 * cap ∧
  ∀ n, 1 ≤ n → n < cap → n ≠ m → nd d t n = op (nd d t (2 * n)) (nd d t (2 * n + 1))

theorem fixUp_spec (cap : Nat) : ∀ (fuel idx : Nat) (t : List α), idx ≤ fuel → idx < cap →
    InvExcept op d cap t idx →
    Inv op d cap (fixUp op d fuel idx t) ∧ ∀ n, idx < n → nd d (fixUp op d fuel idx t) n = nd d t n
  | 0, idx, t, hf, _, h => by
    have : idx = 0 := by omega
    subst this
    refine ⟨⟨h.1, fun n h1 h2 => h.2 n h1 h2 (by omega)⟩, fun n _ => rfl⟩
  | fuel + 1, idx, t, hf, hc, h => by
    unfold fixUp
    by_cases hz : idx ≥ 1
    · rw [if_pos hz]
      have hlen : idx < t.length := by rw [h.1]; omega
      have hex : InvExcept op d cap (t.set idx (op (nd d t (2 * idx)) (nd d t (2 * idx + 1)))) (idx / 2) := by
        refine ⟨by rw [List.length_set]; exact h.1, ?_⟩
        intro n h1 h2 h3
        by_cases hn : n = idx
        · subst hn
          rw [nd_set_eq d _ _ _ hlen, nd_set_ne d _ _ _ _ (by omega), nd_set_ne d _ _ _ _ (by omega)]
        · rw [nd_set_ne d _ _ _ _ hn, nd_set_ne d _ _ _ _ (by omega), nd_set_ne d _ _ _ _ (by omega)]
          exact h.2 n h1 h2 hn
      obtain ⟨i1, i2⟩ := fixUp_spec cap fuel (idx / 2) _ (by omega) (by omega) hex
      refine ⟨i1, fun n hn => ?_⟩
      rw [i2 n (by omega), nd_set_ne d _ _ _ _ (by omega)]
    · have : idx = 0 := by omega
      subst this
      rw [if_neg hz]
      exact ⟨⟨h.1, fun n h1 h2 => h.2 n h1 h2 (by omega)⟩, fun n _ => rfl⟩

/-- `tree[i] = v` keeps the invariant, writes leaf `i`, and leaves every other leaf alone -/
theorem setItem_spec (cap : Nat) (t : List α) (i : Nat) (v : α) (hi : i < cap)
    (h : Inv op d cap t) :
    Inv op d cap (setItem op d cap t i v) ∧
    nd d (setItem op d cap t i v) (cap + i) = v ∧
    ∀ n, cap ≤ n → n ≠ cap + i → nd d (setItem op d cap t i v) n = nd d t n := by
  unfold setItem
  simp only
  have hlen : i + cap < t.length := by rw [h.1]; omega
  have hex : InvExcept op d cap (t.set (i + cap) v) ((i + cap) / 2) := by
    refine ⟨by rw [List.length_set]; exact h.1, ?_⟩
    intro n h1 h2 h3
    rw [nd_set_ne d _ _ _ _ (by omega), nd_set_ne d _ _ _ _ (by omega), nd_set_ne d _ _ _ _ (by omega)]
    exact h.2 n h1 h2
  obtain ⟨i1, i2⟩ := fixUp_spec op d cap (i + cap) ((i + cap) / 2) _ (by omega) (by omega) hex
  refine ⟨i1, ?_, ?_⟩
  · rw [i2 (cap + i) (by omega), Nat.add_comm cap i, nd_set_eq d _ _ _ hlen]
  · intro n h1 h2
    rw [i2 n (by omega), nd_set_ne d _ _ _ _ (by omega)]

theorem nd_initTree (cap n : Nat) : nd d (initTree cap d) n = d := by
  unfold nd initTree
  rw [List.getD_eq_getElem?_getD]
  by_cases h : n < 2 * cap
  · simp [h]
  · simp [h]

/-- the initial tree satisfies the invariant as soon as `op init init = init` -/
theorem initTree_inv (cap : Nat) (hd : op d d = d) : Inv op d cap (initTree cap d) := by
  refine ⟨by simp [initTree], fun n _ _ => ?_⟩
  rw [nd_initTree, nd_initTree, nd_initTree, hd]

/-- all sequences of writes -/
def setMany (cap : Nat) (t : List α) (ws : List (Nat × α)) : List α :=
  ws.foldl (fun t w => setItem op d cap t w.1 w.2) t

theorem setMany_inv (cap : Nat) (ws : List (Nat × α)) : ∀ (t : List α), Inv op d cap t →
    (∀ w ∈ ws, w.1 < cap) → Inv op d cap (setMany op d cap t ws) := by
  induction ws with
  | nil => intro t h _; exact h
  | cons w rest ih =>
    intro t h hw
    simp only [setMany, List.foldl_cons]
    exact ih _ (setItem_spec op d cap t w.1 w.2 (hw w (by simp)) h).1
      (fun x hx => hw x (List.mem_cons_of_mem _ hx))

/-- the last value written to leaf `i` by the sequence `ws`, else `dflt` -/
def lastWritten (dflt : α) (ws : List (Nat × α)) (i : Nat) : α :=
  match ws.reverse.find? (fun w => w.1 = i) with
  | some w => w.2
  | none => dflt

/-- value of leaf `i` after a sequence of writes: the last value written to it, else the old one -/
theorem setMany_leaf (cap : Nat) (ws : List (Nat × α)) : ∀ (t : List α), Inv op d cap t →
    (∀ w ∈ ws, w.1 < cap) → ∀ i, i < cap →
    nd d (setMany op d cap t ws) (cap + i) = lastWritten (nd d t (cap + i)) ws i := by
  unfold lastWritten
  induction ws with
  | nil => intro t _ _ i _; simp [setMany]
  | cons w rest ih =>
    intro t h hw i hi
    have hrest : ∀ x ∈ rest, x.1 < cap := fun x hx => hw x (List.mem_cons_of_mem _ hx)
    have hwc : w.1 < cap := hw w (by simp)
    obtain ⟨s1, s2, s3⟩ := setItem_spec op d cap t w.1 w.2 hwc h
    have e : setMany op d cap t (w :: rest) = setMany op d cap (setItem op d cap t w.1 w.2) rest := by
      simp [setMany]
    rw [e, ih _ s1 hrest i hi, List.reverse_cons, List.find?_append]
    cases hf : rest.reverse.find? (fun w => decide (w.1 = i)) with
    | some x => simp
    | none =>
      by_cases hwi : w.1 = i
      · subst hwi; simp [s2]
      · simp [hwi]
        exact s3 (cap + i) (by omega) (by omega)

end generic
end SegTree
