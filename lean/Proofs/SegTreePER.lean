import Proofs.SegTreeRetrieve

/-!
  Proofs/SegTreePER.lean — invariant of `PrioritizedReplayBuffer` over all legal operation
  sequences (additions with wrap-around, priority updates of stored indices).
-/
open Finset

namespace SegTree

/-! ### tree capacity -/

theorem capLoop_spec (m : Nat) : ∀ (fuel c : Nat), (∃ j, c = 2 ^ j) → m ≤ c + fuel →
    (∃ k, capLoop m fuel c = 2 ^ k) ∧ m ≤ capLoop m fuel c
  | 0, c, hc, hm => by simpa [capLoop] using ⟨hc, hm⟩
  | fuel + 1, c, ⟨j, hj⟩, hm => by
    unfold capLoop
    by_cases h : c < m
    · rw [if_pos h]
      have hc1 : 1 ≤ c := by rw [hj]; exact Nat.one_le_two_pow
      exact capLoop_spec m fuel (2 * c) ⟨j + 1, by rw [hj, Nat.pow_succ]; omega⟩ (by omega)
    · rw [if_neg h]; exact ⟨⟨j, hj⟩, by omega⟩

theorem treeCapacity_spec (m : Nat) : (∃ k, treeCapacity m = 2 ^ k) ∧ m ≤ treeCapacity m :=
  capLoop_spec m m 1 ⟨0, rfl⟩ (by omega)

/-! ### tree-level invariant (holds also inside the loop of `add`) -/

structure TInv (pw : Rat → Rat) (b : PER) : Prop where
  msz : 0 < b.maxSize
  capPow : ∃ k, b.cap = 2 ^ k
  capGe : b.maxSize ≤ b.cap
  sumInv : Inv (fun a b : Rat => a + b) 0 b.cap b.sumT
  minInv : Inv minInf none b.cap b.minT
  maxGe : 1 ≤ b.maxPriority
  leaves : ∀ i, i < b.cap →
    (b.leaf i = 0 ∧ b.minLeaf i = none) ∨
    (∃ p, 0 < p ∧ p ≤ b.maxPriority ∧ b.leaf i = pw p ∧ b.minLeaf i = some (pw p))

theorem max_ite (a p : Rat) : (if a < p then p else a) = max a p := by
  rw [max_def]
  by_cases h : a < p
  · simp [h, le_of_lt h]
  · have := not_lt.mp h
    by_cases h2 : a ≤ p
    · have : a = p := le_antisymm h2 this
      simp [this]
    · simp [h, h2]

theorem updatePriority_spec (pw : Rat → Rat) (b : PER) (hb : TInv pw b) (idx : Nat) (p : Rat)
    (hidx : idx < b.cap) (hp : 0 < p) :
    TInv pw (b.updatePriority pw idx p) ∧
    (b.updatePriority pw idx p).maxPriority = max b.maxPriority p ∧
    (b.updatePriority pw idx p).leaf idx = pw p ∧
    (b.updatePriority pw idx p).minLeaf idx = some (pw p) ∧
    (∀ i, i < b.cap → i ≠ idx → (b.updatePriority pw idx p).leaf i = b.leaf i ∧
        (b.updatePriority pw idx p).minLeaf i = b.minLeaf i) := by
  obtain ⟨s1, s2, s3⟩ := setItem_spec (fun a b : Rat => a + b) 0 b.cap b.sumT idx (pw p) hidx hb.sumInv
  obtain ⟨m1, m2, m3⟩ := setItem_spec minInf none b.cap b.minT idx (some (pw p)) hidx hb.minInv
  have hmax : (b.updatePriority pw idx p).maxPriority = max b.maxPriority p := by
    simp only [PER.updatePriority]; exact max_ite _ _
  have hl : (b.updatePriority pw idx p).leaf idx = pw p := s2
  have hm : (b.updatePriority pw idx p).minLeaf idx = some (pw p) := m2
  have hothers : ∀ i, i < b.cap → i ≠ idx → (b.updatePriority pw idx p).leaf i = b.leaf i ∧
      (b.updatePriority pw idx p).minLeaf i = b.minLeaf i := by
    intro i _ hne
    exact ⟨s3 (b.cap + i) (by omega) (by omega), m3 (b.cap + i) (by omega) (by omega)⟩
  refine ⟨⟨hb.msz, hb.capPow, hb.capGe, s1, m1, ?_, ?_⟩, hmax, hl, hm, hothers⟩
  · rw [hmax]; exact le_trans hb.maxGe (le_max_left _ _)
  · intro i hi
    by_cases hne : i = idx
    · subst hne
      exact Or.inr ⟨p, hp, by rw [hmax]; exact le_max_right _ _, hl, hm⟩
    · obtain ⟨e1, e2⟩ := hothers i hi hne
      rcases hb.leaves i hi with h | ⟨q, q0, q1, q2, q3⟩
      · exact Or.inl ⟨by rw [e1]; exact h.1, by rw [e2]; exact h.2⟩
      · exact Or.inr ⟨q, q0, by rw [hmax]; exact le_trans q1 (le_max_left _ _), by rw [e1]; exact q2,
          by rw [e2]; exact q3⟩

/-! ### the loop of `add` -/

theorem addOne_fields (pw : Rat → Rat) (b : PER) :
    (b.addOne pw).maxSize = b.maxSize ∧ (b.addOne pw).cap = b.cap ∧ (b.addOne pw).cursor = b.cursor ∧
    (b.addOne pw).size = b.size ∧ (b.addOne pw).treePtr = (b.treePtr + 1) % b.maxSize :=
  ⟨rfl, rfl, rfl, rfl, rfl⟩

theorem addLoop_spec (pw : Rat → Rat) : ∀ (n : Nat) (b : PER), TInv pw b → b.treePtr < b.maxSize →
    TInv pw (PER.addLoop pw n b) ∧
    (PER.addLoop pw n b).maxPriority = b.maxPriority ∧
    (PER.addLoop pw n b).treePtr = (b.treePtr + n) % b.maxSize ∧
    (PER.addLoop pw n b).maxSize = b.maxSize ∧ (PER.addLoop pw n b).cap = b.cap ∧
    (PER.addLoop pw n b).cursor = b.cursor ∧ (PER.addLoop pw n b).size = b.size ∧
    ∀ i, i < b.cap →
      ((∃ j, j < n ∧ i = (b.treePtr + j) % b.maxSize) →
        (PER.addLoop pw n b).leaf i = pw b.maxPriority ∧
        (PER.addLoop pw n b).minLeaf i = some (pw b.maxPriority)) ∧
      ((¬ ∃ j, j < n ∧ i = (b.treePtr + j) % b.maxSize) →
        (PER.addLoop pw n b).leaf i = b.leaf i ∧ (PER.addLoop pw n b).minLeaf i = b.minLeaf i)
  | 0, b, hb, hp => by
    refine ⟨hb, rfl, ?_, rfl, rfl, rfl, rfl, ?_⟩
    · simp [PER.addLoop, Nat.mod_eq_of_lt hp]
    · intro i _
      exact ⟨fun ⟨j, hj, _⟩ => by omega, fun _ => ⟨rfl, rfl⟩⟩
  | n + 1, b, hb, hp => by
    have hpc : b.treePtr < b.cap := lt_of_lt_of_le hp hb.capGe
    have hmp : 0 < b.maxPriority := lt_of_lt_of_le (by norm_num) hb.maxGe
    obtain ⟨u1, u2, u3, u4, u5⟩ := updatePriority_spec pw b hb b.treePtr b.maxPriority hpc hmp
    have hmaxeq : (b.addOne pw).maxPriority = b.maxPriority := by
      show (b.updatePriority pw b.treePtr b.maxPriority).maxPriority = b.maxPriority
      rw [u2, max_self]
    have hT : TInv pw (b.addOne pw) :=
      ⟨u1.msz, u1.capPow, u1.capGe, u1.sumInv, u1.minInv, u1.maxGe, u1.leaves⟩
    have hptr : (b.addOne pw).treePtr < (b.addOne pw).maxSize := Nat.mod_lt _ hb.msz
    obtain ⟨r1, r2, r3, r4, r5, r6, r7, r8⟩ := addLoop_spec pw n (b.addOne pw) hT hptr
    have hslot : ∀ j, ((b.addOne pw).treePtr + j) % (b.addOne pw).maxSize = (b.treePtr + (j + 1)) % b.maxSize := by
      intro j
      show ((b.treePtr + 1) % b.maxSize + j) % b.maxSize = _
      rw [Nat.mod_add_mod]; congr 1; omega
    rw [show PER.addLoop pw (n + 1) b = PER.addLoop pw n (b.addOne pw) from rfl]
    refine ⟨r1, by rw [r2, hmaxeq], ?_, r4, r5, r6, r7, ?_⟩
    · rw [r3]
      show ((b.treePtr + 1) % b.maxSize + n) % b.maxSize = _
      rw [Nat.mod_add_mod]; congr 1; omega
    · intro i hi
      obtain ⟨a1, a2⟩ := r8 i hi
      constructor
      · rintro ⟨j, hj, hij⟩
        by_cases hlater : ∃ j', j' < n ∧ i = ((b.addOne pw).treePtr + j') % (b.addOne pw).maxSize
        · have := a1 hlater
          rw [hmaxeq] at this; exact this
        · obtain ⟨e1, e2⟩ := a2 hlater
          have hj0 : j = 0 := by
            rcases Nat.eq_zero_or_pos j with h | h
            · exact h
            · exfalso; apply hlater
              refine ⟨j - 1, by omega, ?_⟩
              rw [hslot (j - 1), hij]; congr 2; omega
          subst hj0
          have hi' : i = b.treePtr := by rw [hij]; simp [Nat.mod_eq_of_lt hp]
          subst hi'
          rw [e1, e2]
          exact ⟨u3, u4⟩
      · intro hno
        have hlater : ¬ ∃ j', j' < n ∧ i = ((b.addOne pw).treePtr + j') % (b.addOne pw).maxSize := by
          rintro ⟨j', hj', e⟩
          exact hno ⟨j' + 1, by omega, by rw [e, hslot j']⟩
        obtain ⟨e1, e2⟩ := a2 hlater
        have hne : i ≠ b.treePtr := by
          intro e; apply hno
          exact ⟨0, by omega, by simp [e, Nat.mod_eq_of_lt hp]⟩
        obtain ⟨o1, o2⟩ := u5 i hi hne
        rw [e1, e2]
        exact ⟨o1, o2⟩

/-! ### which slots a batch of `n` additions writes -/

theorem slots_iff (m count n i : Nat) (hm : 0 < m) :
    ((∃ j, j < n ∧ i = (count % m + j) % m) ∨ i < min count m) ↔ i < min (count + n) m := by
  have hmod : ∀ j, (count % m + j) % m = (count + j) % m := fun j => Nat.mod_add_mod _ _ _
  constructor
  · rintro (⟨j, hj, rfl⟩ | h)
    · rw [hmod]
      by_cases hc : count + n ≤ m
      · have : (count + j) % m = count + j := Nat.mod_eq_of_lt (by omega)
        rw [this]; omega
      · have : (count + j) % m < m := Nat.mod_lt _ hm
        omega
    · omega
  · intro h
    by_cases hc : i < min count m
    · exact Or.inr hc
    · left
      have hcm : count < m := by omega
      refine ⟨i - count, by omega, ?_⟩
      rw [hmod]
      have : count + (i - count) = i := by omega
      rw [this, Nat.mod_eq_of_lt (by omega)]

/-! ### buffer-level invariant -/

/-- `count` = number of transitions ever added, `seen` = every (clamped) priority ever passed to
    `update_priorities` -/
structure PInv (pw : Rat → Rat) (b : PER) (count : Nat) (seen : List Rat) : Prop where
  t : TInv pw b
  ptr : b.treePtr = count % b.maxSize
  cur : b.cursor = count % b.maxSize
  size : b.size = min count b.maxSize
  dom : ∀ i, i < b.cap → (b.minLeaf i ≠ none ↔ i < b.size)
  maxEq : b.maxPriority = seen.foldl max 1

theorem new_inv (pw : Rat → Rat) (m : Nat) (hm : 0 < m) : PInv pw (PER.new m) 0 [] := by
  obtain ⟨hk, hge⟩ := treeCapacity_spec m
  have hl : ∀ i, (PER.new m).leaf i = 0 := fun i => nd_initTree 0 _ _
  have hml : ∀ i, (PER.new m).minLeaf i = none := fun i => nd_initTree none _ _
  refine ⟨⟨hm, hk, hge, initTree_inv _ _ _ (by norm_num), initTree_inv _ _ _ rfl, le_refl _, ?_⟩,
    by simp [PER.new], by simp [PER.new], by simp [PER.new], ?_, rfl⟩
  · intro i _; exact Or.inl ⟨hl i, hml i⟩
  · intro i _
    rw [hml i]
    simp [PER.new]

/-- the state after `ReplayBuffer.add` moved cursor and size, before the priority loop -/
def PER.pre (b : PER) (n : Nat) : PER :=
  { b with cursor := (b.cursor + n) % b.maxSize, size := min (b.size + n) b.maxSize }

theorem add_eq (pw : Rat → Rat) (b : PER) (n : Nat) : b.add pw n = PER.addLoop pw n (b.pre n) := rfl

theorem add_inv (pw : Rat → Rat) (b : PER) (count : Nat) (seen : List Rat) (hb : PInv pw b count seen)
    (n : Nat) :
    PInv pw (b.add pw n) (count + n) seen ∧ (b.add pw n).maxPriority = b.maxPriority ∧
    (b.add pw n).maxSize = b.maxSize ∧
    ∀ j, j < n → (b.add pw n).leaf ((b.treePtr + j) % b.maxSize) = pw b.maxPriority := by
  have hT1 : TInv pw (b.pre n) :=
    ⟨hb.t.msz, hb.t.capPow, hb.t.capGe, hb.t.sumInv, hb.t.minInv, hb.t.maxGe, hb.t.leaves⟩
  have hm := hb.t.msz
  have hp1 : (b.pre n).treePtr < (b.pre n).maxSize := by
    show b.treePtr < b.maxSize
    rw [hb.ptr]; exact Nat.mod_lt _ hm
  obtain ⟨r1, r2, r3, r4, r5, r6, r7, r8⟩ := addLoop_spec pw n (b.pre n) hT1 hp1
  rw [← add_eq] at r1 r2 r3 r4 r5 r6 r7 r8
  have r2' : (b.add pw n).maxPriority = b.maxPriority := r2
  have r3' : (b.add pw n).treePtr = (b.treePtr + n) % b.maxSize := r3
  have r4' : (b.add pw n).maxSize = b.maxSize := r4
  have r5' : (b.add pw n).cap = b.cap := r5
  have r6' : (b.add pw n).cursor = (b.cursor + n) % b.maxSize := r6
  have r7' : (b.add pw n).size = min (b.size + n) b.maxSize := r7
  have r8' : ∀ i, i < b.cap →
      ((∃ j, j < n ∧ i = (b.treePtr + j) % b.maxSize) →
        (b.add pw n).leaf i = pw b.maxPriority ∧ (b.add pw n).minLeaf i = some (pw b.maxPriority)) ∧
      ((¬ ∃ j, j < n ∧ i = (b.treePtr + j) % b.maxSize) →
        (b.add pw n).leaf i = b.leaf i ∧ (b.add pw n).minLeaf i = b.minLeaf i) := r8
  clear r2 r3 r4 r5 r6 r7 r8
  have hsz : min (b.size + n) b.maxSize = min (count + n) b.maxSize := by rw [hb.size]; omega
  refine ⟨⟨r1, ?_, ?_, ?_, ?_, ?_⟩, r2', r4', ?_⟩
  · rw [r3', r4', hb.ptr, Nat.mod_add_mod]
  · rw [r6', r4', hb.cur, Nat.mod_add_mod]
  · rw [r7', r4', hsz]
  · intro i hi
    rw [r5'] at hi
    rw [r7', hsz]
    obtain ⟨a1, a2⟩ := r8' i hi
    have hslots := slots_iff b.maxSize count n i hm
    rw [hb.ptr] at a1 a2
    by_cases hs : ∃ j, j < n ∧ i = (count % b.maxSize + j) % b.maxSize
    · obtain ⟨_, e2⟩ := a1 hs
      rw [e2]
      simp only [ne_eq, reduceCtorEq, not_false_eq_true, true_iff]
      exact hslots.mp (Or.inl hs)
    · obtain ⟨_, e2⟩ := a2 hs
      rw [e2]
      have hold : b.minLeaf i ≠ none ↔ i < min count b.maxSize := by
        have := hb.dom i hi
        rw [hb.size] at this; exact this
      rw [hold]
      constructor
      · intro h; exact hslots.mp (Or.inr h)
      · intro h
        rcases hslots.mpr h with h | h
        · exact absurd h hs
        · exact h
  · rw [r2']; exact hb.maxEq
  · intro j hj
    have hlt : (b.treePtr + j) % b.maxSize < b.cap := lt_of_lt_of_le (Nat.mod_lt _ hm) hb.t.capGe
    exact ((r8' _ hlt).1 ⟨j, hj, rfl⟩).1

/-! ### `update_priorities` -/

theorem eps_pos : 0 < eps := by decide

theorem clampPriority_pos (p : Rat) : 0 < clampPriority p := by
  unfold clampPriority
  split
  · exact eps_pos
  · next h => exact lt_of_lt_of_le eps_pos (not_lt.mp h)

theorem clampPriority_ge (p : Rat) : eps ≤ clampPriority p ∧ p ≤ clampPriority p := by
  unfold clampPriority
  split
  · next h => exact ⟨le_refl _, le_of_lt h⟩
  · next h => exact ⟨not_lt.mp h, le_refl _⟩

theorem updateMany_inv (pw : Rat → Rat) : ∀ (l : List (Int × Rat)) (b : PER) (count : Nat) (seen : List Rat),
    PInv pw b count seen → (∀ x ∈ l, 0 ≤ x.1 ∧ x.1.toNat < b.size) →
    (PER.updateMany pw b l).2 = true ∧
    PInv pw (PER.updateMany pw b l).1 count (seen ++ l.map (fun x => clampPriority x.2)) ∧
    (PER.updateMany pw b l).1.maxSize = b.maxSize
  | [], b, count, seen, hb, _ => by simpa [PER.updateMany] using hb
  | (i, p) :: rest, b, count, seen, hb, hl => by
    obtain ⟨hi0, hi1⟩ := hl (i, p) (by simp)
    have hsz : b.size ≤ b.maxSize := by rw [hb.size]; omega
    have hcond : 0 ≤ i ∧ i.toNat < b.maxSize := ⟨hi0, by simp only at hi1; omega⟩
    unfold PER.updateMany
    rw [if_pos hcond]
    have hcap : i.toNat < b.cap := lt_of_lt_of_le hcond.2 hb.t.capGe
    obtain ⟨u1, u2, u3, u4, u5⟩ := updatePriority_spec pw b hb.t i.toNat (clampPriority p) hcap (clampPriority_pos p)
    have hnext : PInv pw (b.updatePriority pw i.toNat (clampPriority p)) count (seen ++ [clampPriority p]) := by
      refine ⟨u1, hb.ptr, hb.cur, hb.size, ?_, ?_⟩
      · intro j hj
        have hj' : j < b.cap := hj
        show _ ↔ j < b.size
        by_cases hji : j = i.toNat
        · subst hji
          rw [u4]
          simp only [ne_eq, reduceCtorEq, not_false_eq_true, true_iff]
          exact hi1
        · rw [(u5 j hj' hji).2]; exact hb.dom j hj'
      · rw [u2, hb.maxEq, List.foldl_append]; rfl
    obtain ⟨r1, r2, r3⟩ := updateMany_inv pw rest _ count _ hnext
      (fun x hx => hl x (List.mem_cons_of_mem _ hx))
    refine ⟨r1, ?_, r3⟩
    simpa [List.append_assoc] using r2

/-! ### all legal operation sequences -/

inductive Op
  | add (n : Nat)
  | update (l : List (Int × Rat))

def PER.exec (pw : Rat → Rat) (b : PER) : Op → PER
  | .add n => b.add pw n
  | .update l => (PER.updateMany pw b l).1

/-- what the callers guarantee: batches of `1 … max_size` transitions; priorities are updated
    only for indices that `sample` handed out, i.e. stored ones -/
def Op.legal (b : PER) : Op → Prop
  | .add n => 1 ≤ n ∧ n ≤ b.maxSize
  | .update l => ∀ x ∈ l, 0 ≤ x.1 ∧ x.1.toNat < b.size

def Legal (pw : Rat → Rat) : PER → List Op → Prop
  | _, [] => True
  | b, o :: rest => o.legal b ∧ Legal pw (b.exec pw o) rest

instance decOpLegal (b : PER) : (o : Op) → Decidable (o.legal b)
  | .add n => inferInstanceAs (Decidable (1 ≤ n ∧ n ≤ b.maxSize))
  | .update l => inferInstanceAs (Decidable (∀ x ∈ l, 0 ≤ x.1 ∧ x.1.toNat < b.size))

instance decLegal (pw : Rat → Rat) : (b : PER) → (ops : List Op) → Decidable (Legal pw b ops)
  | _, [] => isTrue trivial
  | b, o :: rest =>
    have := decLegal pw (b.exec pw o) rest
    inferInstanceAs (Decidable (o.legal b ∧ Legal pw (b.exec pw o) rest))

def PER.run (pw : Rat → Rat) (b : PER) (ops : List Op) : PER := ops.foldl (PER.exec pw) b

def countAdded : List Op → Nat
  | [] => 0
  | .add n :: rest => n + countAdded rest
  | .update _ :: rest => countAdded rest

def seenPriorities : List Op → List Rat
  | [] => []
  | .add _ :: rest => seenPriorities rest
  | .update l :: rest => l.map (fun x => clampPriority x.2) ++ seenPriorities rest

theorem run_inv (pw : Rat → Rat) : ∀ (ops : List Op) (b : PER) (count : Nat) (seen : List Rat),
    PInv pw b count seen → Legal pw b ops →
    PInv pw (b.run pw ops) (count + countAdded ops) (seen ++ seenPriorities ops)
  | [], b, count, seen, hb, _ => by simpa [PER.run, countAdded, seenPriorities] using hb
  | .add n :: rest, b, count, seen, hb, hl => by
    obtain ⟨⟨_, h2⟩, hrest⟩ := hl
    have := run_inv pw rest _ _ _ (add_inv pw b count seen hb n).1 hrest
    simpa [PER.run, PER.exec, countAdded, seenPriorities, Nat.add_assoc] using this
  | .update l :: rest, b, count, seen, hb, hl => by
    obtain ⟨h1, hrest⟩ := hl
    have := run_inv pw rest _ _ _ (updateMany_inv pw l b count seen hb h1).2.1 hrest
    simpa [PER.run, PER.exec, countAdded, seenPriorities, List.append_assoc] using this

/-! ### consequences of the invariant used by the sampling theorems -/

section consequences
variable {pw : Rat → Rat} {b : PER} {count : Nat} {seen : List Rat}

theorem PInv.leaf_nonneg (hpw : ∀ p, 0 < p → 0 < pw p) (hb : PInv pw b count seen) (i : Nat)
    (hi : i < b.cap) : 0 ≤ b.leaf i := by
  rcases hb.t.leaves i hi with h | ⟨p, p0, _, p2, _⟩
  · rw [h.1]
  · rw [p2]; exact le_of_lt (hpw p p0)

theorem PInv.unstored (hb : PInv pw b count seen) (i : Nat) (hi : i < b.cap) (hs : b.size ≤ i) :
    b.leaf i = 0 ∧ b.minLeaf i = none := by
  rcases hb.t.leaves i hi with h | ⟨p, _, _, _, p3⟩
  · exact h
  · exfalso
    have := (hb.dom i hi).mp (by rw [p3]; simp)
    omega

theorem PInv.stored (hb : PInv pw b count seen) (i : Nat) (hs : i < b.size) :
    ∃ p, 0 < p ∧ p ≤ b.maxPriority ∧ b.leaf i = pw p ∧ b.minLeaf i = some (pw p) := by
  have hsz : b.size ≤ b.maxSize := by rw [hb.size]; omega
  have hi : i < b.cap := lt_of_lt_of_le (lt_of_lt_of_le hs hsz) hb.t.capGe
  rcases hb.t.leaves i hi with h | h
  · exfalso
    exact (hb.dom i hi).mpr hs h.2
  · exact h

theorem PInv.total_eq (hb : PInv pw b count seen) :
    b.total = ∑ j ∈ range b.size, b.leaf j := by
  obtain ⟨k, hk⟩ := hb.t.capPow
  have hinv := hb.t.sumInv
  rw [hk] at hinv
  have hroot := root_fold sumMonoid k b.sumT hinv
  rw [foldN_sum] at hroot
  have hsz : b.size ≤ 2 ^ k := by
    have : b.size ≤ b.maxSize := by rw [hb.size]; omega
    rw [← hk]; exact le_trans this hb.t.capGe
  unfold PER.total
  rw [hroot]
  obtain ⟨r, hr⟩ : ∃ r, 2 ^ k = b.size + r := ⟨2 ^ k - b.size, by omega⟩
  rw [hr, sum_range_add]
  have hz : ∑ x ∈ range r, nd 0 b.sumT (b.size + r + (0 + (b.size + x))) = 0 := by
    apply sum_eq_zero
    intro x hx
    have hx' : x < r := mem_range.mp hx
    have := (hb.unstored (b.size + x) (by rw [hk]; omega) (by omega)).1
    unfold PER.leaf at this
    rw [hk, hr] at this
    simpa using this
  rw [hz, add_zero]
  apply sum_congr rfl
  intro x _
  unfold PER.leaf
  rw [hk, hr]; simp

theorem PInv.total_pos (hpw : ∀ p, 0 < p → 0 < pw p) (hb : PInv pw b count seen) (hs : 0 < b.size) :
    0 < b.total := by
  rw [hb.total_eq]
  have hsz : b.size ≤ b.maxSize := by rw [hb.size]; omega
  apply sum_pos
  · intro i hi
    obtain ⟨p, p0, _, p2, _⟩ := hb.stored i (mem_range.mp hi)
    rw [p2]; exact hpw p p0
  · exact ⟨0, mem_range.mpr hs⟩

/-- the root of the min tree is the least stored `priority ** alpha`, and it is positive -/
theorem PInv.minRoot_spec (hpw : ∀ p, 0 < p → 0 < pw p) (hb : PInv pw b count seen) (hs : 0 < b.size) :
    ∃ m, b.minRoot = some m ∧ 0 < m ∧ (∃ j, j < b.size ∧ b.leaf j = m) ∧
      ∀ i, i < b.size → m ≤ b.leaf i := by
  obtain ⟨k, hk⟩ := hb.t.capPow
  have hinv := hb.t.minInv
  rw [hk] at hinv
  have hroot := root_fold minMonoid k b.minT hinv
  obtain ⟨f1, f2⟩ := foldN_min (fun j => nd none b.minT (2 ^ k + j)) 0 (2 ^ k)
  have hsz : b.size ≤ b.maxSize := by rw [hb.size]; omega
  have hml : ∀ j, nd none b.minT (2 ^ k + (0 + j)) = b.minLeaf j := by
    intro j; unfold PER.minLeaf; rw [hk]; simp
  cases hm : b.minRoot with
  | none =>
    exfalso
    unfold PER.minRoot at hm
    rw [hroot] at hm
    have := f1.mp hm 0 (by rw [← hk]; exact lt_of_lt_of_le (lt_of_lt_of_le hs hsz) hb.t.capGe)
    rw [hml 0] at this
    obtain ⟨p, _, _, _, p3⟩ := hb.stored 0 hs
    rw [p3] at this; cases this
  | some m =>
    unfold PER.minRoot at hm
    rw [hroot] at hm
    obtain ⟨⟨j, hj, hje⟩, hlb⟩ := f2 m hm
    rw [hml j] at hje
    have hjs : j < b.size := (hb.dom j (by rw [hk]; exact hj)).mp (by rw [hje]; simp)
    obtain ⟨p, p0, _, p2, p3⟩ := hb.stored j hjs
    have hmj : m = b.leaf j := by rw [p3] at hje; rw [p2]; exact (Option.some.inj hje).symm
    refine ⟨m, rfl, by rw [hmj, p2]; exact hpw p p0, ⟨j, hjs, hmj.symm⟩, ?_⟩
    intro i hi
    obtain ⟨q, _, _, q2, q3⟩ := hb.stored i hi
    have hic : i < 2 ^ k := by rw [← hk]; exact lt_of_lt_of_le (lt_of_lt_of_le hi hsz) hb.t.capGe
    have := hlb i hic (pw q) (by show nd none b.minT (2 ^ k + (0 + i)) = some (pw q); rw [hml i]; exact q3)
    rw [q2]; exact this

end consequences

end SegTree
