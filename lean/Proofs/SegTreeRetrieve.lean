import Proofs.SegTreeFold
import Mathlib.Algebra.BigOperators.Group.Finset.Basic
import Mathlib.Algebra.Order.BigOperators.Group.Finset
import Mathlib.Algebra.Order.Field.Rat
import Mathlib.Tactic.Ring
import Mathlib.Tactic.Linarith

/-!
  Proofs/SegTreeRetrieve.lean — sum / min instances of the fold lemmas and the specification
  of `SumSegmentTree.retrieve` (prefix-sum search), first over a tree given as a function
  `Nat → Rat` (the design-round prototype), then bridged to the executable list model.
-/
open Finset

namespace SegTree

/-! ### the two operations are monoids with the initial value as identity -/

theorem sumMonoid : IsMonoid (fun a b : Rat => a + b) 0 :=
  ⟨fun a b c => add_assoc a b c, fun a => zero_add a, fun a => add_zero a⟩

theorem minInf_some (a b : Rat) : minInf (some a) (some b) = some (min a b) := by
  simp only [minInf, min_def]
  congr 1
  by_cases h : b < a
  · simp [h, not_le.mpr h]
  · simp [h, not_lt.mp h]

theorem minMonoid : IsMonoid minInf none := by
  refine ⟨?_, fun a => by cases a <;> rfl, fun a => by cases a <;> rfl⟩
  intro a b c
  cases a <;> cases b <;> cases c <;>
    first
    | rfl
    | (rw [minInf_some, minInf_some, minInf_some, minInf_some, min_assoc])

theorem foldN_sum (g : Nat → Rat) (s : Nat) : ∀ n,
    foldN (fun a b : Rat => a + b) 0 g s n = ∑ j ∈ range n, g (s + j)
  | 0 => by simp [foldN]
  | n + 1 => by rw [foldN, foldN_sum g s n, sum_range_succ]

/-- the fold with `min` is `+∞` iff every element is, otherwise it is attained and a lower bound -/
theorem foldN_min (g : Nat → Option Rat) (s : Nat) : ∀ n,
    (foldN minInf none g s n = none ↔ ∀ j, j < n → g (s + j) = none) ∧
    (∀ m, foldN minInf none g s n = some m →
        (∃ j, j < n ∧ g (s + j) = some m) ∧ ∀ j, j < n → ∀ x, g (s + j) = some x → m ≤ x)
  | 0 => by simp [foldN]
  | n + 1 => by
    obtain ⟨ih1, ih2⟩ := foldN_min g s n
    rw [foldN]
    cases hf : foldN minInf none g s n with
    | none =>
      have hall := ih1.mp hf
      cases hg : g (s + n) with
      | none =>
        refine ⟨⟨fun _ j hj => ?_, fun _ => rfl⟩, fun m hm => by simp [minInf] at hm⟩
        rcases Nat.lt_succ_iff_lt_or_eq.mp hj with h | h
        · exact hall j h
        · rw [h]; exact hg
      | some y =>
        refine ⟨⟨fun h => (by simp [minInf] at h), fun h => ?_⟩, fun m hm => ?_⟩
        · have := h n (by omega); rw [hg] at this; cases this
        · simp only [minInf, Option.some.injEq] at hm
          subst hm
          refine ⟨⟨n, by omega, hg⟩, fun j hj x hx => ?_⟩
          rcases Nat.lt_succ_iff_lt_or_eq.mp hj with h | h
          · rw [hall j h] at hx; cases hx
          · rw [h, hg] at hx; cases hx; exact le_refl _
    | some a =>
      obtain ⟨⟨j0, hj0, hj0e⟩, hlb⟩ := ih2 a hf
      cases hg : g (s + n) with
      | none =>
        refine ⟨⟨fun h => (by simp [minInf] at h), fun h => ?_⟩, fun m hm => ?_⟩
        · have := h j0 (by omega); rw [hj0e] at this; cases this
        · simp only [minInf, Option.some.injEq] at hm
          subst hm
          refine ⟨⟨j0, by omega, hj0e⟩, fun j hj x hx => ?_⟩
          rcases Nat.lt_succ_iff_lt_or_eq.mp hj with h | h
          · exact hlb j h x hx
          · rw [h, hg] at hx; cases hx
      | some y =>
        rw [minInf_some]
        refine ⟨⟨fun h => (by cases h), fun h => ?_⟩, fun m hm => ?_⟩
        · have := h n (by omega); rw [hg] at this; cases this
        · simp only [Option.some.injEq] at hm
          subst hm
          constructor
          · rcases min_choice a y with h | h
            · exact ⟨j0, by omega, by rw [h]; exact hj0e⟩
            · exact ⟨n, by omega, by rw [h]; exact hg⟩
          · intro j hj x hx
            rcases Nat.lt_succ_iff_lt_or_eq.mp hj with h | h
            · exact le_trans (min_le_left _ _) (hlb j h x hx)
            · rw [h, hg] at hx; cases hx; exact min_le_right _ _

/-! ### `retrieve` over a tree given as a function (prototype of the design round) -/

/-- walk down `d` levels from node `idx` exactly as `SumSegmentTree.retrieve` does -/
def retrieveAux (t : Nat → Rat) : Nat → Nat → Rat → Nat
  | 0, idx, _ => idx
  | d+1, idx, u =>
    if t (2*idx) > u then retrieveAux t d (2*idx) u
    else retrieveAux t d (2*idx+1) (u - t (2*idx))

def leafSum (t : Nat → Rat) (lo n : Nat) : Rat := ∑ j ∈ range n, t (lo + j)

/-- node `idx`, `d` levels above the leaves, equals the sum of the leaves below it -/
def NodeOK (t : Nat → Rat) : Nat → Nat → Prop
  | 0, _ => True
  | d+1, idx => t idx = t (2*idx) + t (2*idx+1) ∧ NodeOK t d (2*idx) ∧ NodeOK t d (2*idx+1)

theorem node_sum (t : Nat → Rat) : ∀ d idx, NodeOK t d idx → t idx = leafSum t (idx * 2^d) (2^d)
  | 0, idx, _ => by simp [leafSum]
  | d+1, idx, ⟨h, hl, hr⟩ => by
    have e1 := node_sum t d (2*idx) hl
    have e2 := node_sum t d (2*idx+1) hr
    rw [h, e1, e2]
    unfold leafSum
    have : 2^(d+1) = 2^d + 2^d := by ring
    rw [this, sum_range_add]
    congr 1
    · apply sum_congr rfl; intro j _; congr 1; ring
    · apply sum_congr rfl; intro j _; congr 1; ring

theorem retrieve_spec (t : Nat → Rat) :
    ∀ d idx u, NodeOK t d idx → 0 ≤ u → u < t idx →
      let r := retrieveAux t d idx u
      idx * 2^d ≤ r ∧ r < (idx+1) * 2^d ∧
      leafSum t (idx * 2^d) (r - idx * 2^d) ≤ u ∧
      u < leafSum t (idx * 2^d) (r - idx * 2^d) + t r
  | 0, idx, u, _, h0, h1 => by
    simp [retrieveAux, leafSum]; exact ⟨h0, h1⟩
  | d+1, idx, u, ⟨h, hl, hr⟩, h0, h1 => by
    simp only [retrieveAux]
    split
    · next hlt =>
      obtain ⟨a, b, c, e⟩ := retrieve_spec t d (2*idx) u hl h0 hlt
      have p : 2 * idx * 2^d = idx * 2^(d+1) := by ring
      rw [p] at a c e
      refine ⟨a, ?_, c, e⟩
      have : (2*idx+1) * 2^d ≤ (idx+1) * 2^(d+1) := by
        have : (idx+1) * 2^(d+1) = (2*idx+2) * 2^d := by ring
        rw [this]; exact Nat.mul_le_mul_right _ (by omega)
      omega
    · next hge =>
      have hge : t (2*idx) ≤ u := not_lt.mp hge
      have hu' : u - t (2*idx) < t (2*idx+1) := by rw [h] at h1; linarith
      obtain ⟨a, b, c, e⟩ := retrieve_spec t d (2*idx+1) (u - t (2*idx)) hr (by linarith) hu'
      have p : (2 * idx + 1) * 2^d = idx * 2^(d+1) + 2^d := by ring
      have q : (2 * idx + 1 + 1) * 2^d = (idx+1) * 2^(d+1) := by ring
      rw [p] at a c e; rw [q] at b
      generalize retrieveAux t d (2*idx+1) (u - t (2*idx)) = r at a b c e
      have hsplit : r - idx * 2^(d+1) = 2^d + (r - (idx * 2^(d+1) + 2^d)) := by
        generalize idx * 2^(d+1) = X at a ⊢; generalize 2^d = Y at a ⊢; omega
      have hleft : leafSum t (idx * 2^(d+1)) (2^d) = t (2*idx) := by
        rw [node_sum t d (2*idx) hl]; congr 1; ring
      have hshift : ∀ n, ∑ x ∈ range n, t (idx * 2^(d+1) + (2^d + x)) = leafSum t (idx * 2^(d+1) + 2^d) n := by
        intro n; unfold leafSum; apply sum_congr rfl; intro j _; congr 1; ring
      have hsum : leafSum t (idx * 2^(d+1)) (r - idx * 2^(d+1)) =
          t (2*idx) + leafSum t (idx * 2^(d+1) + 2^d) (r - (idx * 2^(d+1) + 2^d)) := by
        rw [hsplit]; conv_lhs => unfold leafSum
        rw [sum_range_add, hshift]; unfold leafSum at hleft; rw [hleft]
      refine ⟨by generalize idx * 2^(d+1) = X at a ⊢; generalize 2^d = Y at a ⊢; omega, b, ?_, ?_⟩
      · rw [hsum]; linarith
      · rw [hsum]; linarith

/-! ### bridge: list model ↔ function model -/

/-- the invariant on the list gives `NodeOK` for every subtree that fits in the tree -/
theorem nodeOK_of_inv (cap : Nat) (t : List Rat) (hinv : Inv (fun a b : Rat => a + b) 0 cap t) :
    ∀ (h idx : Nat), 1 ≤ idx → (idx + 1) * 2 ^ h ≤ 2 * cap → NodeOK (nd 0 t) h idx
  | 0, _, _, _ => trivial
  | h + 1, idx, h1, h2 => by
    have hP : 0 < 2 ^ h := Nat.pos_of_ne_zero (by simp)
    have e2 : 2 ^ (h + 1) = 2 * 2 ^ h := by ring
    have hlt : idx < cap := by
      rw [e2] at h2
      have : (idx + 1) * (2 * 2 ^ h) = 2 * ((idx + 1) * 2 ^ h) := by ring
      rw [this] at h2
      have : (idx + 1) * 1 ≤ (idx + 1) * 2 ^ h := Nat.mul_le_mul_left _ hP
      omega
    have c1 : (2 * idx + 1) * 2 ^ h ≤ 2 * cap := by
      have : (2 * idx + 1) * 2 ^ h ≤ (idx + 1) * 2 ^ (h + 1) := by
        have : (idx + 1) * 2 ^ (h + 1) = (2 * idx + 2) * 2 ^ h := by ring
        rw [this]; exact Nat.mul_le_mul_right _ (by omega)
      omega
    have c2 : (2 * idx + 1 + 1) * 2 ^ h ≤ 2 * cap := by
      have : (2 * idx + 1 + 1) * 2 ^ h = (idx + 1) * 2 ^ (h + 1) := by ring
      omega
    exact ⟨hinv.2 idx h1 hlt, nodeOK_of_inv cap t hinv h (2 * idx) (by omega) c1,
      nodeOK_of_inv cap t hinv h (2 * idx + 1) (by omega) c2⟩

/-- the `while idx < capacity` loop, started at a node `h` levels above the leaves with at least
    `h` units of fuel, is the `h`-level walk of the prototype -/
theorem retrieveLoop_eq (k : Nat) (t : List Rat) :
    ∀ (h fuel e idx : Nat) (u : Rat), h ≤ fuel → e + h = k → 2 ^ e ≤ idx → idx < 2 ^ (e + 1) →
      retrieveLoop (2 ^ k) t fuel idx u = retrieveAux (nd 0 t) h idx u
  | 0, fuel, e, idx, u, _, he, h1, _ => by
    have : ¬ idx < 2 ^ k := by simp at he; subst he; omega
    cases fuel with
    | zero => rfl
    | succ f => unfold retrieveLoop; rw [if_neg this]; rfl
  | h + 1, 0, _, _, _, hf, _, _, _ => by omega
  | h + 1, fuel + 1, e, idx, u, hf, he, h1, h2 => by
    have hlt : idx < 2 ^ k := by
      have : 2 ^ (e + 1) ≤ 2 ^ k := Nat.pow_le_pow_right (by omega) (by omega)
      omega
    have e2 : 2 ^ (e + 1) = 2 * 2 ^ e := by ring
    have e3 : 2 ^ (e + 1 + 1) = 2 * 2 ^ (e + 1) := by ring
    unfold retrieveLoop retrieveAux
    rw [if_pos hlt]
    simp only
    by_cases hc : nd 0 t (2 * idx) > u
    · rw [if_pos hc, if_pos hc]
      exact retrieveLoop_eq k t h fuel (e + 1) (2 * idx) u (by omega) (by omega) (by omega) (by omega)
    · rw [if_neg hc, if_neg hc]
      exact retrieveLoop_eq k t h fuel (e + 1) (2 * idx + 1) _ (by omega) (by omega) (by omega) (by omega)

/-- prefix sum of the leaves `0 … i-1` -/
def prefixSum (cap : Nat) (t : List Rat) (i : Nat) : Rat := ∑ j ∈ range i, nd 0 t (cap + j)

/-- **retrieve specification on the executable model**: for `0 ≤ u < total` the walk ends in a
    leaf `i < capacity` with `prefix i ≤ u < prefix i + leaf i` -/
theorem retrieveWalk_spec (k : Nat) (t : List Rat) (hinv : Inv (fun a b : Rat => a + b) 0 (2 ^ k) t)
    (u : Rat) (h0 : 0 ≤ u) (h1 : u < nd 0 t 1) :
    retrieveWalk (2 ^ k) t u < 2 ^ k ∧
    prefixSum (2 ^ k) t (retrieveWalk (2 ^ k) t u) ≤ u ∧
    u < prefixSum (2 ^ k) t (retrieveWalk (2 ^ k) t u) + nd 0 t (2 ^ k + retrieveWalk (2 ^ k) t u) := by
  have hk := k_lt_two_pow k
  have hb := retrieveLoop_eq k t k (2 ^ k) 0 1 u (by omega) (by omega) (by simp) (by simp)
  have hok := nodeOK_of_inv (2 ^ k) t hinv k 1 (by omega) (by omega)
  obtain ⟨a, b, c, e⟩ := retrieve_spec (nd 0 t) k 1 u hok h0 h1
  unfold retrieveWalk
  rw [hb]
  generalize retrieveAux (nd 0 t) k 1 u = r at a b c e
  simp only [Nat.one_mul] at a c e
  have hb2 : r < 2 * 2 ^ k := by omega
  have hr : 2 ^ k + (r - 2 ^ k) = r := by omega
  refine ⟨by omega, ?_, ?_⟩
  · exact c
  · rw [hr]; exact e

theorem prefixSum_mono (cap : Nat) (t : List Rat) (hnn : ∀ j, 0 ≤ nd 0 t (cap + j)) :
    ∀ i j, i ≤ j → prefixSum cap t i ≤ prefixSum cap t j := by
  intro i j hij
  unfold prefixSum
  exact sum_le_sum_of_subset_of_nonneg (range_mono hij) (fun x _ _ => hnn x)

theorem prefixSum_succ (cap : Nat) (t : List Rat) (i : Nat) :
    prefixSum cap t (i + 1) = prefixSum cap t i + nd 0 t (cap + i) := by
  unfold prefixSum; rw [sum_range_succ]

end SegTree
