import Mathlib.Analysis.SpecialFunctions.Pow.Real

/-!
  Proofs/SegTreeRpow.lean — the real power `x ↦ x ^ (-β)` (Python `x ** -beta`) is positive and
  antitone on the positive reals for `β ≥ 0`, so the normalised importance weight is in `(0, 1]`.
-/
namespace SegTree

theorem rpow_ratio_unit (β : ℝ) (hβ : 0 ≤ β) (xm x : ℚ) (h0 : 0 < xm) (h1 : xm ≤ x) :
    0 < ((x : ℝ) ^ (-β)) / ((xm : ℝ) ^ (-β)) ∧ ((x : ℝ) ^ (-β)) / ((xm : ℝ) ^ (-β)) ≤ 1 := by
  have hxm : (0 : ℝ) < (xm : ℝ) := by exact_mod_cast h0
  have hle : (xm : ℝ) ≤ (x : ℝ) := by exact_mod_cast h1
  have hx : (0 : ℝ) < (x : ℝ) := lt_of_lt_of_le hxm hle
  have hp1 := Real.rpow_pos_of_pos hxm (-β)
  have hp2 := Real.rpow_pos_of_pos hx (-β)
  exact ⟨div_pos hp2 hp1, (div_le_one hp1).mpr (Real.rpow_le_rpow_of_nonpos hxm hle (by linarith))⟩

end SegTree
