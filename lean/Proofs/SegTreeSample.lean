import Proofs.SegTreePER
import Mathlib.Tactic.FieldSimp
import Mathlib.Algebra.Order.Field.Basic

/-!
  Proofs/SegTreeSample.lean — `_sample_proportional` and `_calculate_weights` on states that
  satisfy the buffer invariant.
-/
open Finset

namespace SegTree

/-! ### the stratified masses -/

/-- element `j` of the loop started at stratum `i` is the draw `r_j` mapped into stratum `i + j` -/
theorem strataAux_getElem? (seg : Rat) : ∀ (rs : List Rat) (i j : Nat),
    (strataAux seg i rs)[j]? =
      (rs[j]?).map (fun r => r * (seg * (((i + j : Nat) : Rat) + 1) - seg * ((i + j : Nat) : Rat))
        + seg * ((i + j : Nat) : Rat))
  | [], _, _ => by simp [strataAux]
  | r :: rs, i, 0 => by simp [strataAux]
  | r :: rs, i, j + 1 => by
    simp only [strataAux, List.getElem?_cons_succ]
    rw [strataAux_getElem? seg rs (i + 1) j]
    have : i + 1 + j = i + (j + 1) := by omega
    rw [this]

theorem strata_getElem? (total : Rat) (rs : List Rat) (j : Nat) :
    (strata total rs)[j]? =
      (rs[j]?).map (fun r => total / (rs.length : Rat) * (j : Rat) + r * (total / (rs.length : Rat))) := by
  unfold strata
  rw [strataAux_getElem?]
  cases rs[j]? with
  | none => rfl
  | some r => simp only [Option.map_some, Nat.zero_add]; congr 1; ring

theorem strata_length (total : Rat) (rs : List Rat) : (strata total rs).length = rs.length := by
  have : ∀ (seg : Rat) (rs : List Rat) (i : Nat), (strataAux seg i rs).length = rs.length := by
    intro seg rs
    induction rs with
    | nil => intro i; rfl
    | cons r rs ih => intro i; simp [strataAux, ih]
  exact this _ _ _

/-- every query mass lies in its stratum, hence in `[0, total)` -/
theorem strata_bounds (total : Rat) (ht : 0 < total) (rs : List Rat)
    (hr : ∀ r ∈ rs, 0 ≤ r ∧ r < 1) (j : Nat) (u : Rat) (hu : (strata total rs)[j]? = some u) :
    total / (rs.length : Rat) * (j : Rat) ≤ u ∧ u < total / (rs.length : Rat) * ((j : Rat) + 1) ∧
    0 ≤ u ∧ u < total := by
  rw [strata_getElem?] at hu
  cases hrj : rs[j]? with
  | none => rw [hrj] at hu; cases hu
  | some r =>
    rw [hrj] at hu
    simp only [Option.map_some, Option.some.injEq] at hu
    have hjlt : j < rs.length := by
      by_contra h
      have : rs[j]? = none := List.getElem?_eq_none (by omega)
      rw [this] at hrj; cases hrj
    obtain ⟨r0, r1⟩ := hr r (List.mem_of_getElem? hrj)
    have hB : (0 : Rat) < (rs.length : Rat) := by exact_mod_cast (by omega : 0 < rs.length)
    have hseg : 0 < total / (rs.length : Rat) := div_pos ht hB
    have hj0 : (0 : Rat) ≤ (j : Rat) := by exact_mod_cast Nat.zero_le j
    have hj1 : (j : Rat) + 1 ≤ (rs.length : Rat) := by exact_mod_cast hjlt
    have htot : total / (rs.length : Rat) * (rs.length : Rat) = total := div_mul_cancel₀ _ (ne_of_gt hB)
    generalize total / (rs.length : Rat) = seg at hu hseg htot ⊢
    subst hu
    have h1 : 0 ≤ r * seg := mul_nonneg r0 (le_of_lt hseg)
    have h2 : r * seg < seg := by nlinarith
    have h3 : seg * ((j : Rat) + 1) ≤ total := by
      rw [← htot]; exact mul_le_mul_of_nonneg_left hj1 (le_of_lt hseg)
    have h4 : 0 ≤ seg * (j : Rat) := mul_nonneg (le_of_lt hseg) hj0
    refine ⟨by linarith, by linarith, by linarith, by linarith⟩

/-! ### retrieve on a buffer that satisfies the invariant -/

section
variable {pw : Rat → Rat} {b : PER} {count : Nat} {seen : List Rat}

/-- prefix mass in front of leaf `i` -/
def PER.prefix (b : PER) (i : Nat) : Rat := ∑ j ∈ range i, b.leaf j

theorem prefix_eq (b : PER) (i : Nat) : b.prefix i = prefixSum b.cap b.sumT i := rfl

/-- for `0 ≤ u < total` the walk of `retrieve` ends in a *stored* index `i` with
    `prefix i ≤ u < prefix i + leaf i`, and the assertion of `retrieve` passes -/
theorem retrieve_stored (hb : PInv pw b count seen) (u : Rat) (h0 : 0 ≤ u) (h1 : u < b.total) :
    retrieve b.cap b.sumT u = some (retrieveWalk b.cap b.sumT u) ∧
    retrieveWalk b.cap b.sumT u < b.size ∧
    b.prefix (retrieveWalk b.cap b.sumT u) ≤ u ∧
    u < b.prefix (retrieveWalk b.cap b.sumT u) + b.leaf (retrieveWalk b.cap b.sumT u) := by
  obtain ⟨k, hk⟩ := hb.t.capPow
  have hinv := hb.t.sumInv
  rw [hk] at hinv
  obtain ⟨a, c, e⟩ := retrieveWalk_spec k b.sumT hinv u h0 h1
  rw [← hk] at a c e
  have hassert : 0 ≤ u ∧ u ≤ nd 0 b.sumT 1 + eps :=
    ⟨h0, le_trans (le_of_lt h1) (le_add_of_nonneg_right (le_of_lt eps_pos))⟩
  refine ⟨by unfold retrieve; rw [if_pos hassert], ?_, c, e⟩
  by_contra hns
  have hz := (hb.unstored _ a (not_lt.mp hns)).1
  unfold PER.leaf at hz
  rw [hz] at e
  linarith

/-- the prefix masses are monotone when no leaf is negative -/
theorem prefix_mono (hpw : ∀ p, 0 < p → 0 < pw p) (hb : PInv pw b count seen) (i j : Nat) (hij : i ≤ j)
    (hj : j ≤ b.cap) : b.prefix i ≤ b.prefix j := by
  unfold PER.prefix
  obtain ⟨r, rfl⟩ : ∃ r, j = i + r := ⟨j - i, by omega⟩
  rw [sum_range_add]
  have : 0 ≤ ∑ x ∈ range r, b.leaf (i + x) :=
    sum_nonneg (fun x hx => hb.leaf_nonneg hpw (i + x) (by have := mem_range.mp hx; omega))
  linarith

/-- the masses sent to index `i` are exactly the interval `[prefix i, prefix i + leaf i)` -/
theorem retrieve_iff (hpw : ∀ p, 0 < p → 0 < pw p) (hb : PInv pw b count seen) (u : Rat) (h0 : 0 ≤ u)
    (h1 : u < b.total) (i : Nat) (hi : i < b.cap) :
    retrieveWalk b.cap b.sumT u = i ↔ (b.prefix i ≤ u ∧ u < b.prefix i + b.leaf i) := by
  obtain ⟨_, hs, c, e⟩ := retrieve_stored hb u h0 h1
  have hsz : b.size ≤ b.cap := by
    have : b.size ≤ b.maxSize := by rw [hb.size]; omega
    exact le_trans this hb.t.capGe
  constructor
  · intro h; rw [← h]; exact ⟨c, e⟩
  · rintro ⟨c', e'⟩
    generalize retrieveWalk b.cap b.sumT u = r at hs c e
    have hsucc : ∀ x, b.prefix (x + 1) = b.prefix x + b.leaf x := fun x => by
      unfold PER.prefix; rw [sum_range_succ]
    rcases Nat.lt_trichotomy r i with h | h | h
    · have := prefix_mono hpw hb (r + 1) i h (by omega)
      rw [hsucc] at this; linarith
    · exact h
    · have := prefix_mono hpw hb (i + 1) r h (by omega)
      rw [hsucc] at this; linarith

/-! ### `_sample_proportional` -/

theorem filterMap_id_map_some {α β} (f : α → β) (l : List α) :
    (l.map (fun x => some (f x))).filterMap id = l.map f := by
  induction l with
  | nil => rfl
  | cons x xs ih => simp

theorem sampleIdx_spec (hpw : ∀ p, 0 < p → 0 < pw p) (hb : PInv pw b count seen) (hs : 0 < b.size)
    (rs : List Rat) (hne : rs ≠ []) (hr : ∀ r ∈ rs, 0 ≤ r ∧ r < 1) :
    b.sampleIdx rs = some ((strata b.total rs).map (retrieveWalk b.cap b.sumT)) ∧
    ∀ u ∈ strata b.total rs, 0 ≤ u ∧ u < b.total ∧ retrieveWalk b.cap b.sumT u < b.size := by
  have ht := hb.total_pos hpw hs
  have hsz : b.size ≤ b.maxSize := by rw [hb.size]; omega
  have hmem : ∀ u ∈ strata b.total rs, 0 ≤ u ∧ u < b.total ∧ retrieveWalk b.cap b.sumT u < b.size := by
    intro u hu
    obtain ⟨j, hj⟩ := List.mem_iff_getElem?.mp hu
    obtain ⟨_, _, u0, u1⟩ := strata_bounds b.total ht rs hr j u hj
    exact ⟨u0, u1, (retrieve_stored hb u u0 u1).2.1⟩
  refine ⟨?_, hmem⟩
  unfold PER.sampleIdx
  have hlen : ¬ (rs.length = 0 ∨ b.size = 0) := by
    intro h
    rcases h with h | h
    · exact hne (List.length_eq_zero_iff.mp h)
    · omega
  rw [if_neg hlen]
  have hmap : (strata b.total rs).map (retrieve b.cap b.sumT) =
      (strata b.total rs).map (fun u => some (retrieveWalk b.cap b.sumT u)) := by
    apply List.map_congr_left
    intro u hu
    obtain ⟨u0, u1, _⟩ := hmem u hu
    exact (retrieve_stored hb u u0 u1).1
  simp only [hmap]
  split
  · rw [filterMap_id_map_some]
  · next hnot =>
    exfalso; apply hnot
    rw [List.all_eq_true]
    intro o ho
    obtain ⟨u, hu, rfl⟩ := List.mem_map.mp ho
    have := (hmem u hu).2.2
    simp only [decide_eq_true_eq]
    omega

/-! ### `_calculate_weights` -/

theorem weights_spec (hpw : ∀ p, 0 < p → 0 < pw p) (hb : PInv pw b count seen) (hs : 0 < b.size)
    (idxs : List Nat) (hidx : ∀ i ∈ idxs, i < b.size) (f : Rat → Rat) :
    ∃ m, b.minRoot = some m ∧ 0 < m ∧ (∀ i, i < b.size → m ≤ b.leaf i) ∧
      b.bases idxs = some (m / b.total * (b.size : Rat),
        idxs.map (fun i => b.leaf i / b.total * (b.size : Rat))) ∧
      b.weights f idxs = some (idxs.map (fun i =>
        f (b.leaf i / b.total * (b.size : Rat)) / f (m / b.total * (b.size : Rat)))) ∧
      0 < m / b.total * (b.size : Rat) ∧
      ∀ i ∈ idxs, m / b.total * (b.size : Rat) ≤ b.leaf i / b.total * (b.size : Rat) := by
  obtain ⟨m, hm, m0, _, hlb⟩ := hb.minRoot_spec hpw hs
  have ht := hb.total_pos hpw hs
  have hN : (0 : Rat) < (b.size : Rat) := by exact_mod_cast hs
  have hsz : b.size ≤ b.cap := by
    have : b.size ≤ b.maxSize := by rw [hb.size]; omega
    exact le_trans this hb.t.capGe
  have hbases : b.bases idxs = some (m / b.total * (b.size : Rat),
      idxs.map (fun i => b.leaf i / b.total * (b.size : Rat))) := by
    unfold PER.bases
    rw [hm]
    simp only [ne_of_gt ht, if_false]
  have hxm : 0 < m / b.total * (b.size : Rat) := mul_pos (div_pos m0 ht) hN
  have hle : ∀ i ∈ idxs, m / b.total * (b.size : Rat) ≤ b.leaf i / b.total * (b.size : Rat) := by
    intro i hi
    exact mul_le_mul_of_nonneg_right (div_le_div_of_nonneg_right (hlb i (hidx i hi)) (le_of_lt ht))
      (le_of_lt hN)
  refine ⟨m, hm, m0, hlb, hbases, ?_, hxm, hle⟩
  unfold PER.weights
  rw [hbases]
  simp only
  have hcond : ¬ (m / b.total * (b.size : Rat) = 0 ∨
      (idxs.map (fun i => b.leaf i / b.total * (b.size : Rat))).any (fun x => decide (x = 0)) = true ∨
      idxs.any (fun i => decide (b.cap ≤ i)) = true) := by
    rintro (h | h | h)
    · exact ne_of_gt hxm h
    · rw [List.any_eq_true] at h
      obtain ⟨x, hx, hx0⟩ := h
      obtain ⟨i, hi, rfl⟩ := List.mem_map.mp hx
      have := hle i hi
      simp only [decide_eq_true_eq] at hx0
      linarith
    · rw [List.any_eq_true] at h
      obtain ⟨i, hi, hic⟩ := h
      simp only [decide_eq_true_eq] at hic
      have := hidx i hi
      omega
  rw [if_neg hcond, List.map_map]
  rfl

/-- a ratio `f x / f x_min` with `x_min ≤ x` lies in `(0, 1]` for every positive antitone `f` -/
theorem ratio_unit (f : Rat → Rat) (hfpos : ∀ x, 0 < x → 0 < f x)
    (hanti : ∀ x y, 0 < x → x ≤ y → f y ≤ f x) (xm x : Rat) (h0 : 0 < xm) (h1 : xm ≤ x) :
    0 < f x / f xm ∧ f x / f xm ≤ 1 := by
  have hx : 0 < x := lt_of_lt_of_le h0 h1
  exact ⟨div_pos (hfpos x hx) (hfpos xm h0), (div_le_one (hfpos xm h0)).mpr (hanti xm x h0 h1)⟩

end
end SegTree
