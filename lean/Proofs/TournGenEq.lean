import Mathlib.Data.List.Nodup
import Mathlib.Data.List.Perm.Subperm
import Proofs.TournamentSelect
import Gen.TournGen
import Mathlib.Tactic.SplitIfs

/-!
  Proofs/TournGenEq.lean — the definitions GENERATED from the source text of
  `TournamentSelection.{__init__, _tournament, _elitism, select}` (`agilerl/hpo/tournament.py` →
  `Gen/TournGen.lean`, written by `harness/py2lean_tourn.py` on every run of the C05 check) are EQUAL
  to the hand-written model of `Model/Tournament.lean`:

  * `gen_init_iff` / `gen_init_eq`   `__init__` accepts exactly `Cfg.valid` and stores its arguments;
  * `gen_tournament_eq`              `_tournament(rank)` on a draw = `winner rank draw` (a list that is
                                     not a possible `randint` result is not a result: `none`);
  * `gen_elitism_eq`                 `_elitism` = (`clone()` of the agent at `elitePos`, the rank array,
                                     `maxId`), and the rank array satisfies the model's `IsRanking`;
  * `gen_select_eq_clone`            `select` for ANY `clone` function, `gen_select_eq` = `(eliteOf, newPop)`
                                     for the model's `clone`.

  The model takes the ranking `np.argsort(x).argsort()` as a parameter constrained by `IsRanking`
  (numpy's default sort is not stable).  The generated definitions go one step further down: each of
  the three `np.argsort` calls is an explicit parameter, guarded by `isArgsort` ("a permutation of the
  positions that lists the values in ascending order", ties in any order).  `isRanking_of_argsort`
  DERIVES the model's `IsRanking` from that specification (`argsort` of a permutation is its inverse:
  `strictMono_id`), `last_argsort_eq_elitePos` shows `np.argsort(rank)[-1] = elitePos rank`.

  Invariants of the equalities (`NumpyOk`, shown satisfiable by the `example`s at the end): the
  population is not empty, the configuration passed `__init__`, the three sort parameters are sorting
  permutations of what they sort, every draw has `tournament_size` entries `< len(population)`.
  If the source changes its behaviour these proofs stop checking.
-/
-- the fall-back steps that absorb harmless rewrites of the source do nothing on the text as it is now
set_option linter.unusedTactic false
set_option linter.unreachableTactic false
set_option linter.unusedSimpArgs false
set_option linter.unnecessarySeqFocus false

namespace Tournament
open TournGen

/-! ### prelude = model primitives -/

theorem gen_keyLe_eq (a b : Key) : keyLe a b = kle a b := by
  cases a <;> cases b <;> rfl

theorem gen_npMean_eq (l : List Rat) : npMean l = mean? l := by
  cases l <;> rfl

theorem gen_slice_eq {w : Nat} (hw : 0 < w) (l : List Rat) :
    pySliceFrom l (-(w : Int)) = lastN w l := by
  unfold pySliceFrom lastN
  have h : (-(w : Int)) < 0 := by omega
  rw [if_pos h]
  congr 1
  omega

theorem gen_npArgmax_eq : ∀ (vs : List Nat), vs ≠ [] → npArgmax vs = some (argmaxFirst vs)
  | [], h => absurd rfl h
  | [v], _ => by simp [npArgmax, argmaxFirst]
  | v :: w :: ws, _ => by
    have ih := gen_npArgmax_eq (w :: ws) (by simp)
    have hdef : argmaxFirst (v :: w :: ws) =
        if (w :: ws).getD (argmaxFirst (w :: ws)) 0 > v then argmaxFirst (w :: ws) + 1 else 0 := by
      simp [argmaxFirst]
    rw [npArgmax, ih, hdef]
    simp only []
    split <;> rfl

theorem gen_npArgmax_nil : npArgmax [] = none := rfl

theorem gen_pyMaxList_eq (pop : List Agent) (h : pop ≠ []) :
    pyMaxList (pop.map (fun a => a.index)) = some (maxId pop) := by
  cases pop with
  | nil => exact absurd rfl h
  | cons a r =>
    simp only [List.map_cons, pyMaxList, maxId, List.foldl_map]
    congr 2
    funext m b
    rw [Int.max_def]
    split <;> split <;> omega

theorem gen_pyIndex_nat {α : Type} (l : List α) (i : Nat) : pyIndex l (i : Int) = l[i]? := by
  simp [pyIndex]

theorem gen_pyIndex_last {α : Type} (l : List α) (h : l ≠ []) :
    pyIndex l (-1) = l[l.length - 1]? := by
  have : 0 < l.length := List.length_pos_iff.mpr h
  unfold pyIndex
  rw [if_neg (by omega), if_pos (by omega)]
  congr 1
  omega

theorem gen_compM_eq {α β : Type} (f : α → Option β) (g : α → β) :
    ∀ (l : List α), (∀ x ∈ l, f x = some (g x)) → compM f l = some (l.map g)
  | [], _ => rfl
  | x :: r, h => by
    simp only [compM, h x (by simp), gen_compM_eq f g r (fun y hy => h y (List.mem_cons_of_mem _ hy)),
      List.map_cons]

theorem gen_pyFor_append {ι σ : Type} (body : ι → σ → Option σ) :
    ∀ (l₁ l₂ : List ι) (s : σ), pyFor body (l₁ ++ l₂) s = (pyFor body l₁ s).bind (pyFor body l₂)
  | [], l₂, s => by simp [pyFor]
  | i :: r, l₂, s => by
    simp only [List.cons_append, pyFor]
    cases body i s with
    | none => rfl
    | some s' => exact gen_pyFor_append body r l₂ s'

/-! ### `np.argsort`: the specification of a sorting permutation -/

/-- `p` is a result `np.argsort(xs)` may return: a permutation of the positions that lists the
    values in ascending order (ties in any order) -/
def IsArgsort {α : Type} [Inhabited α] (le : α → α → Bool) (xs : List α) (p : List Nat) : Prop :=
  p.length = xs.length ∧ (∀ i, i < xs.length → i ∈ p) ∧
  ∀ a b, a < b → b < p.length →
    le (xs.getD (p.getD a 0) default) (xs.getD (p.getD b 0) default) = true

theorem isArgsort_iff {α : Type} [Inhabited α] (le : α → α → Bool) (xs : List α) (p : List Nat) :
    isArgsort le xs p = true ↔ IsArgsort le xs p := by
  unfold isArgsort IsArgsort
  simp only [Bool.and_eq_true, beq_iff_eq, List.all_eq_true, List.mem_range, List.contains_iff_mem]
  constructor
  · rintro ⟨⟨h1, h2⟩, h3⟩
    exact ⟨h1, h2, fun a b hab hb => h3 b hb a hab⟩
  · rintro ⟨h1, h2, h3⟩
    exact ⟨⟨h1, h2⟩, fun b hb a hab => h3 a b hab hb⟩

theorem IsArgsort.perm {α : Type} [Inhabited α] {le : α → α → Bool} {xs : List α} {p : List Nat}
    (h : IsArgsort le xs p) : (List.range xs.length).Perm p := by
  apply List.Subperm.perm_of_length_le
  · apply List.nodup_range.subperm
    intro i hi
    exact h.2.1 i (List.mem_range.mp hi)
  · simp [h.1]

theorem IsArgsort.nodup {α : Type} [Inhabited α] {le : α → α → Bool} {xs : List α} {p : List Nat}
    (h : IsArgsort le xs p) : p.Nodup := (h.perm.nodup_iff).mp List.nodup_range

theorem IsArgsort.lt {α : Type} [Inhabited α] {le : α → α → Bool} {xs : List α} {p : List Nat}
    (h : IsArgsort le xs p) {a : Nat} (ha : a < xs.length) : p.getD a 0 < xs.length := by
  have hm : p.getD a 0 ∈ p := by
    rw [List.getD_eq_getElem?_getD, List.getElem?_eq_getElem (by rw [h.1]; exact ha)]
    exact List.getElem_mem _
  exact List.mem_range.mp ((h.perm.mem_iff).mpr hm)

theorem IsArgsort.inj {α : Type} [Inhabited α] {le : α → α → Bool} {xs : List α} {p : List Nat}
    (h : IsArgsort le xs p) {a b : Nat} (ha : a < xs.length) (hb : b < xs.length)
    (he : p.getD a 0 = p.getD b 0) : a = b := by
  have ha' : a < p.length := by rw [h.1]; exact ha
  have hb' : b < p.length := by rw [h.1]; exact hb
  rw [List.getD_eq_getElem?_getD, List.getD_eq_getElem?_getD, List.getElem?_eq_getElem ha',
    List.getElem?_eq_getElem hb'] at he
  exact (h.nodup.getElem_inj_iff).mp he

/-- every position occurs in a sorting permutation -/
theorem IsArgsort.surj {α : Type} [Inhabited α] {le : α → α → Bool} {xs : List α} {p : List Nat}
    (h : IsArgsort le xs p) {i : Nat} (hi : i < xs.length) : ∃ a, a < xs.length ∧ p.getD a 0 = i := by
  obtain ⟨a, ha, he⟩ := List.mem_iff_getElem.mp (h.2.1 i hi)
  refine ⟨a, by rw [← h.1]; exact ha, ?_⟩
  rw [List.getD_eq_getElem?_getD, List.getElem?_eq_getElem ha]
  exact he

/-- a strictly increasing map of `0 … n-1` into itself is the identity -/
theorem strictMono_id (n : Nat) (f : Nat → Nat) (hlt : ∀ a, a < n → f a < n)
    (hm : ∀ a b, a < b → b < n → f a < f b) : ∀ a, a < n → f a = a := by
  have ge : ∀ a, a < n → a ≤ f a := by
    intro a
    induction a with
    | zero => intro _; omega
    | succ a ih =>
      intro h
      have := ih (by omega)
      have := hm a (a + 1) (by omega) h
      omega
  have le : ∀ k a, a + k + 1 = n → f a ≤ a := by
    intro k
    induction k with
    | zero => intro a h; have := hlt a (by omega); omega
    | succ k ih =>
      intro a h
      have := ih (a + 1) (by omega)
      have := hm a (a + 1) (by omega) (by omega)
      omega
  intro a ha
  have := ge a ha
  have := le (n - a - 1) a (by omega)
  omega

/-- `np.argsort(x).argsort()` is a ranking: if `s0` sorts the means and `s1` sorts `s0`, then `s1`
    is injective and a smaller entry of `s1` never belongs to a strictly larger mean -/
theorem isRanking_of_argsort {ks : List Key} {s0 s1 : List Nat}
    (h0 : IsArgsort keyLe ks s0) (h1 : IsArgsort natLe s0 s1) : IsRanking ks s1 := by
  have hl0 := h0.1
  have hl1 : s1.length = ks.length := by rw [h1.1, hl0]
  -- s0 ∘ s1 = id
  have hid : ∀ a, a < ks.length → s0.getD (s1.getD a 0) 0 = a := by
    apply strictMono_id
    · intro a ha
      exact h0.lt (by rw [← hl0]; exact h1.lt (by rw [hl0]; exact ha))
    · intro a b hab hb
      have hle := h1.2.2 a b hab (by rw [hl1]; exact hb)
      simp only [natLe, decide_eq_true_eq] at hle
      have hne : s0.getD (s1.getD a 0) 0 ≠ s0.getD (s1.getD b 0) 0 := by
        intro he
        have h1a := h1.lt (a := a) (by rw [hl0]; omega)
        have h1b := h1.lt (a := b) (by rw [hl0]; omega)
        rw [hl0] at h1a h1b
        have := h0.inj h1a h1b he
        have := h1.inj (a := a) (b := b) (by rw [hl0]; omega) (by rw [hl0]; omega) this
        omega
      have : (default : Nat) = 0 := rfl
      rw [this] at hle
      omega
  refine ⟨hl1, ?_, ?_⟩
  · intro i j hi hj he
    exact h1.inj (by rw [hl0]; exact hi) (by rw [hl0]; exact hj) he
  · intro i j hi hj hlt
    have hj' : s1.getD j 0 < s0.length := h1.lt (by rw [hl0]; exact hj)
    have := h0.2.2 _ _ hlt hj'
    rw [hid i hi, hid j hj, gen_keyLe_eq] at this
    exact this

/-- `np.argsort(rank)[-1]` is the position of the largest rank -/
theorem last_argsort_eq_elitePos {ks : List Key} {rank s2 : List Nat} (hr : IsRanking ks rank)
    (hne : ks ≠ []) (h2 : IsArgsort natLe rank s2) :
    pyIndex s2 (-1) = some (elitePos rank) := by
  have hn : 0 < ks.length := List.length_pos_iff.mpr hne
  have hl2 : s2.length = ks.length := by rw [h2.1, hr.1]
  have hs2ne : s2 ≠ [] := by intro e; rw [e] at hl2; simp at hl2; omega
  rw [gen_pyIndex_last _ hs2ne, List.getElem?_eq_getElem (by omega)]
  congr 1
  obtain ⟨hlt, hmax, _⟩ := elitePos_spec hr hne
  have he : s2[s2.length - 1] = s2.getD (s2.length - 1) 0 := by
    rw [List.getD_eq_getElem?_getD, List.getElem?_eq_getElem (by omega)]; rfl
  rw [he]
  have hlast : s2.getD (s2.length - 1) 0 < ks.length := by
    have := h2.lt (a := s2.length - 1) (by rw [hr.1]; omega)
    rwa [hr.1] at this
  apply hr.2.1 _ _ hlast hlt
  apply Nat.le_antisymm (hmax _ hlast)
  -- the elite position occurs somewhere in `s2`, at or before the last place
  obtain ⟨a, ha, hea⟩ := h2.surj (i := elitePos rank) (by rw [hr.1]; exact hlt)
  rw [hr.1] at ha
  rcases Nat.lt_or_ge a (s2.length - 1) with hlt' | hge
  · have := h2.2.2 a (s2.length - 1) hlt' (by omega)
    simp only [natLe, decide_eq_true_eq] at this
    rw [hea] at this
    exact this
  · have : a = s2.length - 1 := by omega
    rw [← this, hea]


/-! ### the methods -/

/-- the model's configuration as the generated record (`self`) -/
def toGen (c : Cfg) : TournamentSelection :=
  { tournament_size := c.tsize, elitism := c.elitism, population_size := c.popSize, eval_loop := c.evalLoop }

/-- the model's agent record seen through the generated interface, with an arbitrary `clone` -/
def opsWith (clone : Agent → Option Int → Bool → Agent) : AgentOps Agent :=
  { fitness := fun a => a.fitness, index := fun a => a.index, clone := clone }

/-- the model's `clone`: everything copied, the index replaced if one is given; `wrap` is irrelevant -/
def modelClone (a : Agent) (i : Option Int) (_wrap : Bool) : Agent := a.cloneAs (i.getD a.index)

/-- `__init__`: exactly the configurations with three positive sizes are accepted, the fields are
    the arguments -/
theorem gen_init_iff (t : Int) (e : Bool) (p w : Int) (s : TournamentSelection) :
    TournamentSelection.__init__ t e p w = some s ↔
      0 < t ∧ 0 < p ∧ 0 < w ∧ s = { tournament_size := t, elitism := e, population_size := p, eval_loop := w } := by
  unfold TournamentSelection.__init__
  -- written so that reordered / equivalently phrased assertions (`0 < t`, `w >= 1`) are absorbed
  by_cases hall : 0 < t ∧ 0 < p ∧ 0 < w
  · obtain ⟨h1, h2, h3⟩ := hall
    repeat (first | rw [if_pos (by omega)] | rw [if_pos trivial])
    simp [h1, h2, h3, eq_comm]
  · constructor
    · intro h
      split_ifs at h <;> first | (exact absurd ⟨by omega, by omega, by omega⟩ hall) | (cases h)
    · intro h
      exact absurd ⟨h.1, h.2.1, h.2.2.1⟩ hall

theorem gen_init_eq (c : Cfg) :
    TournamentSelection.__init__ c.tsize c.elitism c.popSize c.evalLoop =
      if c.valid then some (toGen c) else none := by
  by_cases hv : c.valid
  · rw [if_pos hv]
    obtain ⟨h1, h2, h3⟩ := hv
    exact (gen_init_iff _ _ _ _ _).mpr ⟨by omega, by omega, by omega, rfl⟩
  · rw [if_neg hv]
    cases h : TournamentSelection.__init__ c.tsize c.elitism c.popSize c.evalLoop with
    | none => rfl
    | some s =>
      obtain ⟨h1, h2, h3, _⟩ := (gen_init_iff _ _ _ _ _).mp h
      exact absurd ⟨by omega, by omega, by omega⟩ hv

theorem isDraw_iff (n : Nat) (k : Int) (ds : List Nat) (hk : 0 < k) :
    isDraw 0 (n : Int) k ds = true ↔ ((ds.length : Int) = k ∧ ∀ d ∈ ds, d < n) := by
  unfold isDraw
  simp only [Bool.and_eq_true, decide_eq_true_eq, List.all_eq_true]
  constructor
  · rintro ⟨⟨_, h2⟩, h3⟩
    exact ⟨h2, fun d hd => by have := (h3 d hd).2; omega⟩
  · rintro ⟨h2, h3⟩
    refine ⟨⟨?_, h2⟩, fun d hd => ⟨by omega, by have := h3 d hd; omega⟩⟩
    cases ds with
    | nil => simp at h2; omega
    | cons d r => have := h3 d (by simp); omega

/-- `_tournament(rank)` with the draw `ds`: if `ds` is a possible result of
    `np.random.randint(0, len(rank), size=tournament_size)` the method returns the model's `winner`,
    anything else is not a result of that call -/
theorem gen_tournament_eq (c : Cfg) (hv : c.valid) (rank ds : List Nat) :
    (toGen c)._tournament rank ds =
      if ds.length = c.tsize ∧ ∀ d ∈ ds, d < rank.length then some (winner rank ds) else none := by
  have hk : (0 : Int) < (toGen c).tournament_size := by simp only [toGen]; have := hv.1; omega
  unfold TournamentSelection._tournament
  by_cases h : ds.length = c.tsize ∧ ∀ d ∈ ds, d < rank.length
  · rw [if_pos h, if_pos ((isDraw_iff _ _ _ hk).mpr ⟨by simp only [toGen]; omega, h.2⟩)]
    have hne : ds ≠ [] := by
      intro e; rw [e] at h; have := hv.1; simp at h; omega
    have hc : compM (fun (x0 : Nat) => pyIndex rank (x0 : Int)) ds = some (ds.map fun d => rank.getD d 0) := by
      apply gen_compM_eq
      intro d hd
      rw [gen_pyIndex_nat, List.getD_eq_getElem?_getD, List.getElem?_eq_getElem (h.2 d hd)]
      rfl
    have hvne : (ds.map fun d => rank.getD d 0) ≠ [] := by simpa using hne
    have hlt : argmaxFirst (ds.map fun d => rank.getD d 0) < ds.length := by
      simpa using (argmaxFirst_spec _ hvne).1
    simp only [hc, gen_npArgmax_eq _ hvne]
    simp only [gen_pyIndex_nat, List.getElem?_eq_getElem hlt]
    unfold winner
    rw [List.getD_eq_getElem?_getD, List.getElem?_eq_getElem hlt]
    rfl
  · rw [if_neg h, if_neg]
    intro hd
    obtain ⟨h1, h2⟩ := (isDraw_iff _ _ _ hk).mp hd
    exact h ⟨by simp only [toGen] at h1; omega, h2⟩

theorem gen_keys_eq (clone : Agent → Option Int → Bool → Agent) (c : Cfg) (hv : c.valid) (pop : List Agent) :
    pop.map (fun (x0 : Agent) => npMean (pySliceFrom ((opsWith clone).fitness x0) (-(toGen c).eval_loop))) =
      keys c.evalLoop pop := by
  unfold keys key
  apply List.map_congr_left
  intro a _
  simp only [opsWith, toGen, gen_slice_eq hv.2.2, gen_npMean_eq]

/-- `_elitism` with the three `np.argsort` results `s0 s1 s2`: if each is a sorting permutation of
    what it sorts (else it is not a result of that call), the method returns a `clone()` of the
    model's elite position, `s1` as rank array — a ranking in the model's sense — and `maxId` -/
theorem gen_elitism_eq (clone : Agent → Option Int → Bool → Agent) (c : Cfg) (hv : c.valid)
    (pop : List Agent) (hne : pop ≠ []) (s0 s1 s2 : List Nat)
    (h0 : IsArgsort keyLe (keys c.evalLoop pop) s0) (h1 : IsArgsort natLe s0 s1)
    (h2 : IsArgsort natLe s1 s2) :
    (toGen c)._elitism (opsWith clone) pop s0 s1 s2 =
      some (clone (pop.getD (elitePos s1) default) none true, s1, maxId pop) ∧
    IsRanking (keys c.evalLoop pop) s1 := by
  have hr := isRanking_of_argsort h0 h1
  refine ⟨?_, hr⟩
  have hkne : keys c.evalLoop pop ≠ [] := by simpa [keys] using hne
  have hlt := (elitePos_spec hr hkne).1
  rw [show (keys c.evalLoop pop).length = pop.length by simp [keys]] at hlt
  have hidx : (opsWith clone).index = fun a => a.index := rfl
  simp only [TournamentSelection._elitism, gen_keys_eq clone c hv, hidx]
  simp only [(isArgsort_iff _ _ _).mpr h0, (isArgsort_iff _ _ _).mpr h1, (isArgsort_iff _ _ _).mpr h2,
    if_true, gen_pyMaxList_eq pop hne, last_argsort_eq_elitePos hr hkne h2, gen_pyIndex_nat,
    List.getElem?_eq_getElem hlt, List.getD_eq_getElem?_getD, Option.getD_some, opsWith]

/-- a `for` loop over `range(n)` whose body increments a counter and appends one element -/
theorem pyFor_range_closed {A : Type} (body : Nat → Int × List A → Option (Int × List A))
    (g : Nat → Int → A) (n : Nat)
    (hb : ∀ t, t < n → ∀ m l, body t (m, l) = some (m + 1, l ++ [g t (m + 1)])) (m0 : Int) (l0 : List A) :
    pyFor body (List.range n) (m0, l0) =
      some (m0 + n, l0 ++ (List.range n).map (fun t => g t (m0 + 1 + (t : Int)))) := by
  induction n with
  | zero => simp [pyFor]
  | succ n ih =>
    rw [List.range_succ, gen_pyFor_append, ih (fun t ht => hb t (by omega))]
    simp only [Option.bind_some, pyFor, hb n (by omega), List.map_append, List.map_cons, List.map_nil,
      List.append_assoc]
    rw [show m0 + (n : Int) + 1 = m0 + 1 + n by omega,
      show m0 + ((n + 1 : Nat) : Int) = m0 + 1 + n by push_cast; omega]

/-- `select` for ANY `clone`: the returned elite is `clone()` of the model's elite position; with
    elitism the first member is `clone(wrap=False)` of that elite; member `t` of the rest is
    `clone(max_id + 1 + t, wrap=False)` of the model's tournament winner of the draw `draws t` -/
theorem gen_select_eq_clone (clone : Agent → Option Int → Bool → Agent) (c : Cfg) (hv : c.valid)
    (pop : List Agent) (hne : pop ≠ []) (s0 s1 s2 : List Nat) (draws : Nat → List Nat)
    (h0 : IsArgsort keyLe (keys c.evalLoop pop) s0) (h1 : IsArgsort natLe s0 s1)
    (h2 : IsArgsort natLe s1 s2)
    (hd : ∀ t, t < selSize c → (draws t).length = c.tsize ∧ ∀ d ∈ draws t, d < pop.length) :
    (toGen c).select (opsWith clone) pop s0 s1 s2 draws =
      some (clone (pop.getD (elitePos s1) default) none true,
        (if c.elitism then [clone (clone (pop.getD (elitePos s1) default) none true) none false] else []) ++
        (tournChildren c s1 pop draws).map
          (fun ch => clone (pop.getD ch.parent default) (some ch.index) false)) := by
  obtain ⟨hel, hr⟩ := gen_elitism_eq clone c hv pop hne s0 s1 s2 h0 h1 h2
  have hl1 : s1.length = pop.length := by rw [hr.1]; simp [keys]
  have hsel : (if (toGen c).elitism = true then (toGen c).population_size - 1 else (toGen c).population_size).toNat
      = selSize c := by
    simp only [toGen, selSize]
    have := hv.2.1
    by_cases he : c.elitism = true <;> simp [he]
  unfold TournamentSelection.select
  simp only [hel]
  rw [show ∀ (x y : List Agent) (a b : Int), (if (toGen c).elitism = true then (x, a) else (y, b)) =
      (if (toGen c).elitism = true then x else y, if (toGen c).elitism = true then a else b) from
      fun x y a b => by split <;> rfl]
  simp only [hsel]
  rw [pyFor_range_closed (g := fun t m => clone (pop.getD (winner s1 (draws t)) default) (some m) false)]
  · simp only [tournChildren, List.map_map, toGen, List.nil_append, opsWith]
    congr 2
  · intro t ht m l
    obtain ⟨hdl, hdr⟩ := hd t ht
    have hcond : (draws t).length = c.tsize ∧ ∀ d ∈ draws t, d < s1.length := ⟨hdl, by rw [hl1]; exact hdr⟩
    have hne' : draws t ≠ [] := by
      intro e; rw [e] at hdl; have := hv.1; simp at hdl; omega
    have hw : winner s1 (draws t) < pop.length := by
      have hlen : (keys c.evalLoop pop).length = pop.length := by simp [keys]
      exact hdr _ (winner_spec hr (draws t) hne' (by rw [hlen]; exact hdr)).1
    have hswap : (1 : Int) + m = m + 1 := by omega       -- `1 + max_id` is `max_id + 1`
    simp only [gen_tournament_eq c hv, if_pos hcond, gen_pyIndex_nat, List.getElem?_eq_getElem hw,
      List.getD_eq_getElem?_getD, Option.getD_some, opsWith, hswap]

/-- **generated = model.**  With the model's `clone` the translated `select` returns exactly
    `(eliteOf, newPop)` of `Model/Tournament.lean`, for the ranking `s1 = argsort(argsort(means))` -/
theorem gen_select_eq (c : Cfg) (hv : c.valid) (pop : List Agent) (hne : pop ≠ [])
    (s0 s1 s2 : List Nat) (draws : Nat → List Nat)
    (h0 : IsArgsort keyLe (keys c.evalLoop pop) s0) (h1 : IsArgsort natLe s0 s1)
    (h2 : IsArgsort natLe s1 s2)
    (hd : ∀ t, t < selSize c → (draws t).length = c.tsize ∧ ∀ d ∈ draws t, d < pop.length) :
    (toGen c).select (opsWith modelClone) pop s0 s1 s2 draws =
      some (eliteOf s1 pop, newPop c s1 pop draws) ∧ IsRanking (keys c.evalLoop pop) s1 := by
  refine ⟨?_, isRanking_of_argsort h0 h1⟩
  rw [gen_select_eq_clone modelClone c hv pop hne s0 s1 s2 draws h0 h1 h2 hd]
  simp only [eliteOf, newPop, plan, modelClone, Option.getD_none, Option.getD_some, cloneAs_self]
  cases c.elitism <;> simp [Child.build, cloneAs_self]


/-- what numpy guarantees about the runtime values `select` consumes: every `np.argsort` result is a
    sorting permutation of its argument (`s0` of the means, `s1` of `s0`, `s2` of `s1`) and the draw of
    every tournament has `tournament_size` entries in `[0, len(population))` -/
structure NumpyOk (c : Cfg) (pop : List Agent) (s0 s1 s2 : List Nat) (draws : Nat → List Nat) : Prop where
  h0 : IsArgsort keyLe (keys c.evalLoop pop) s0
  h1 : IsArgsort natLe s0 s1
  h2 : IsArgsort natLe s1 s2
  hd : ∀ t, t < selSize c → (draws t).length = c.tsize ∧ ∀ d ∈ draws t, d < pop.length

theorem NumpyOk.ranking {c : Cfg} {pop : List Agent} {s0 s1 s2 : List Nat} {draws : Nat → List Nat}
    (ok : NumpyOk c pop s0 s1 s2 draws) : IsRanking (keys c.evalLoop pop) s1 :=
  isRanking_of_argsort ok.h0 ok.h1

/-- a result that numpy cannot return is not a result: `select` with a first sort parameter that is
    not a sorting permutation of the means raises (`none`) -/
theorem gen_select_bad_sort (clone : Agent → Option Int → Bool → Agent) (c : Cfg) (hv : c.valid)
    (pop : List Agent) (s0 s1 s2 : List Nat) (draws : Nat → List Nat)
    (h : ¬ IsArgsort keyLe (keys c.evalLoop pop) s0) :
    (toGen c).select (opsWith clone) pop s0 s1 s2 draws = none := by
  have hb : isArgsort keyLe (keys c.evalLoop pop) s0 = false := by
    cases hh : isArgsort keyLe (keys c.evalLoop pop) s0 with
    | false => rfl
    | true => exact absurd ((isArgsort_iff _ _ _).mp hh) h
  have hidx : (opsWith clone).index = fun a => a.index := rfl
  have : (toGen c)._elitism (opsWith clone) pop s0 s1 s2 = none := by
    simp only [TournamentSelection._elitism, gen_keys_eq clone c hv, hidx]
    simp only [hb]
    -- whatever is evaluated before the guard (e.g. `max(...)`), every path through it ends in `none`
    repeat (first | rfl | split)
  simp only [TournamentSelection.select, this]

/-! ### the invariants are satisfiable, the functions are not trivially `none` -/

def exPopG : List Agent :=
  [ { index := 0, fitness := [1, 2, 3], tag := 10 },      -- mean of the last 2 = 5/2
    { index := 1, fitness := [4, 1],    tag := 11 },      -- 5/2
    { index := 2, fitness := [-2, 1],   tag := 12 },      -- -1/2
    { index := 7, fitness := [5/2],     tag := 13 } ]     -- 5/2 (shorter than the window)
def exCfgG : Cfg := { tsize := 2, elitism := true, popSize := 4, evalLoop := 2 }
def exDrawsG : Nat → List Nat := fun t => [[2, 1], [2, 2], [0, 3]].getD t []

example : TournamentSelection.__init__ 2 true 4 2 = some (toGen exCfgG) := by decide
example : TournamentSelection.__init__ 0 true 4 2 = none := by decide
example : TournamentSelection.__init__ 2 true (-1) 2 = none := by decide
example : TournamentSelection.__init__ 2 false 4 0 = none := by decide

/-- one sorting permutation of the means `[5/2, 5/2, -1/2, 5/2]` (the three-way tie is listed 3, 0, 1),
    its inverse, and the inverse of that -/
example : NumpyOk exCfgG exPopG [2, 3, 0, 1] [2, 3, 0, 1] [2, 3, 0, 1] exDrawsG := by
  refine ⟨(isArgsort_iff _ _ _).mp (by decide +kernel), (isArgsort_iff _ _ _).mp (by decide +kernel),
    (isArgsort_iff _ _ _).mp (by decide +kernel), ?_⟩
  intro t ht
  have : t < 3 := ht
  match t, this with
  | 0, _ => decide
  | 1, _ => decide
  | 2, _ => decide

/-- the translated `select` evaluated on it: the elite is agent 1 (rank 3), kept first with its own
    index; the tournaments `[2,1] [2,2] [0,3]` are won by agents 1, 2, 0 (ranks 3 > 0, 0, 2 > 1), which
    get the indices 8, 9, 10 -/
example : ((toGen exCfgG).select (opsWith modelClone) exPopG [2, 3, 0, 1] [2, 3, 0, 1] [2, 3, 0, 1] exDrawsG).map
    (fun r => ((r.1.index, r.1.tag), r.2.map (fun a => (a.index, a.tag)))) =
    some ((1, 11), [(1, 11), (8, 11), (9, 12), (10, 10)]) := by decide +kernel
/-- another tie order numpy may return: `[2, 1, 3, 0]` — the elite is then agent 0 -/
example : ((toGen exCfgG).select (opsWith modelClone) exPopG [2, 1, 3, 0] [3, 1, 0, 2] [2, 1, 3, 0] exDrawsG).map
    (fun r => ((r.1.index, r.1.tag), r.2.map (fun a => (a.index, a.tag)))) =
    some ((0, 10), [(0, 10), (8, 11), (9, 12), (10, 10)]) := by decide +kernel
/-- not a sorting permutation (agent 2 has the smallest mean and must come first) / a draw out of range /
    a draw of the wrong size: not results of the numpy calls -/
example : (toGen exCfgG).select (opsWith modelClone) exPopG [3, 2, 0, 1] [2, 3, 1, 0] [3, 2, 0, 1] exDrawsG = none := by
  decide +kernel
example : (toGen exCfgG).select (opsWith modelClone) exPopG [2, 3, 0, 1] [2, 3, 0, 1] [2, 3, 0, 1]
    (fun _ => [4, 0]) = none := by decide +kernel
example : (toGen exCfgG).select (opsWith modelClone) exPopG [2, 3, 0, 1] [2, 3, 0, 1] [2, 3, 0, 1]
    (fun _ => [1]) = none := by decide +kernel
example : (toGen exCfgG)._tournament [2, 3, 0, 1] [0, 3] = some 0 := by decide
example : (toGen exCfgG)._tournament [2, 3, 0, 1] [1, 1] = some 1 := by decide

end Tournament
