import Mathlib.Tactic.Linarith
import Mathlib.Algebra.Order.Field.Rat
import Model.Tournament

/-! Helper lemmas for C05: the order on means, `argmaxFirst`, rankings, the stable instance. -/
namespace Tournament

/-! ### the order `kle` (NaN on top) is a total preorder, antisymmetric on values -/

theorem kle_refl (a : Key) : kle a a = true := by
  cases a <;> simp [kle]

theorem kle_total (a b : Key) : kle a b = true ∨ kle b a = true := by
  cases a <;> cases b <;> simp [kle]
  exact le_total _ _

theorem kle_trans {a b c : Key} (h1 : kle a b = true) (h2 : kle b c = true) : kle a c = true := by
  cases a <;> cases b <;> cases c <;> simp_all [kle]
  exact le_trans h1 h2

theorem kle_antisymm {a b : Key} (h1 : kle a b = true) (h2 : kle b a = true) : a = b := by
  cases a <;> cases b <;> simp_all [kle]
  exact le_antisymm h1 h2

theorem kle_some {x y : Rat} : kle (some x) (some y) = true ↔ x ≤ y := by simp [kle]

theorem klt_iff_not_kle {a b : Key} : klt a b = true ↔ kle b a = false := by
  unfold klt
  rcases kle_total a b with h | h
  · simp [h]
  · simp [h]

theorem klt_trans {a b c : Key} (h1 : klt a b = true) (h2 : klt b c = true) : klt a c = true := by
  rw [klt_iff_not_kle] at *
  cases hca : kle c a with
  | false => rfl
  | true =>
    -- c ≤ a, and a ≤ b (from totality) would give c ≤ b
    have hab : kle a b = true := by
      rcases kle_total a b with h | h
      · exact h
      · rw [h] at h1; cases h1
    have := kle_trans hca hab
    rw [this] at h2; cases h2

/-! ### `argmaxFirst` -/

theorem argmaxFirst_spec : ∀ (vs : List Nat), vs ≠ [] →
    argmaxFirst vs < vs.length ∧ ∀ i, i < vs.length → vs.getD i 0 ≤ vs.getD (argmaxFirst vs) 0
  | [], h => absurd rfl h
  | [v], _ => by
    refine ⟨by simp [argmaxFirst], ?_⟩
    intro i hi
    have : i = 0 := by simpa using hi
    subst this; simp [argmaxFirst]
  | v :: w :: ws, _ => by
    obtain ⟨hlt, hmax⟩ := argmaxFirst_spec (w :: ws) (by simp)
    have hdef : argmaxFirst (v :: w :: ws) =
        if (w :: ws).getD (argmaxFirst (w :: ws)) 0 > v then argmaxFirst (w :: ws) + 1 else 0 := by
      simp [argmaxFirst]
    rw [hdef]
    split
    · next hgt =>
      refine ⟨by simp at hlt ⊢; omega, ?_⟩
      intro i hi
      cases i with
      | zero => simp only [List.getD_cons_zero, List.getD_cons_succ]; omega
      | succ k =>
        simp only [List.getD_cons_succ]
        exact hmax k (by simpa using hi)
    · next hgt =>
      refine ⟨by simp, ?_⟩
      intro i hi
      cases i with
      | zero => simp
      | succ k =>
        have := hmax k (by simpa using hi)
        simp only [List.getD_cons_succ, List.getD_cons_zero]
        omega

/-! ### consequences of `IsRanking` -/

/-- a position with a (weakly) larger rank has a (weakly) larger mean -/
theorem IsRanking.kle_of_rank_le {ks : List Key} {rank : List Nat} (h : IsRanking ks rank)
    {i j : Nat} (hi : i < ks.length) (hj : j < ks.length)
    (hr : rank.getD i 0 ≤ rank.getD j 0) : kle (ks.getD i none) (ks.getD j none) = true := by
  rcases Nat.lt_or_eq_of_le hr with hlt | heq
  · exact h.2.2 i j hi hj hlt
  · have := h.2.1 i j hi hj heq
    subst this; exact kle_refl _

/-- the elite position is in range and carries a maximal mean -/
theorem elitePos_spec {ks : List Key} {rank : List Nat} (h : IsRanking ks rank) (hne : ks ≠ []) :
    elitePos rank < ks.length ∧
    (∀ i, i < ks.length → rank.getD i 0 ≤ rank.getD (elitePos rank) 0) ∧
    (∀ i, i < ks.length → kle (ks.getD i none) (ks.getD (elitePos rank) none) = true) := by
  have hrne : rank ≠ [] := by
    intro e; apply hne; have := h.1; rw [e] at this; exact List.length_eq_zero_iff.mp this.symm
  obtain ⟨hlt, hmax⟩ := argmaxFirst_spec rank hrne
  have hlt' : elitePos rank < ks.length := by rw [← h.1]; exact hlt
  refine ⟨hlt', ?_, ?_⟩
  · intro i hi; exact hmax i (by rw [h.1]; exact hi)
  · intro i hi
    exact h.kle_of_rank_le hi hlt' (hmax i (by rw [h.1]; exact hi))

/-- the tournament winner is one of the drawn positions and no drawn position has a larger rank
    or a larger mean -/
theorem winner_spec {ks : List Key} {rank : List Nat} (h : IsRanking ks rank)
    (ds : List Nat) (hne : ds ≠ []) (hr : ∀ d ∈ ds, d < ks.length) :
    winner rank ds ∈ ds ∧
    (∀ d ∈ ds, rank.getD d 0 ≤ rank.getD (winner rank ds) 0) ∧
    (∀ d ∈ ds, kle (ks.getD d none) (ks.getD (winner rank ds) none) = true) := by
  have hvne : (ds.map fun d => rank.getD d 0) ≠ [] := by simpa using hne
  obtain ⟨hlt, hmax⟩ := argmaxFirst_spec _ hvne
  set a := argmaxFirst (ds.map fun d => rank.getD d 0) with ha
  have hlt' : a < ds.length := by simpa using hlt
  have hw : winner rank ds = ds[a] := by
    unfold winner; rw [← ha]; simp [List.getD_eq_getElem?_getD, hlt']
  have hmem : winner rank ds ∈ ds := by rw [hw]; exact List.getElem_mem _
  have hrank : ∀ d ∈ ds, rank.getD d 0 ≤ rank.getD (winner rank ds) 0 := by
    intro d hd
    obtain ⟨i, hi, rfl⟩ := List.getElem_of_mem hd
    have := hmax i (by simpa using hi)
    simpa [List.getD_eq_getElem?_getD, hi, hlt', hw] using this
  refine ⟨hmem, hrank, ?_⟩
  intro d hd
  exact h.kle_of_rank_le (hr d hd) (hr _ hmem) (hrank d hd)

/-! ### the stable ranking is a ranking -/

theorem filter_length_mono {α} (p q : α → Bool) : ∀ (l : List α),
    (∀ y ∈ l, p y = true → q y = true) → (l.filter p).length ≤ (l.filter q).length
  | [], _ => by simp
  | y :: l, himp => by
    have ih := filter_length_mono p q l (fun z hz => himp z (List.mem_cons_of_mem _ hz))
    have hy := himp y (by simp)
    cases hp : p y with
    | false =>
      cases hq : q y with
      | false => simpa [List.filter_cons, hp, hq] using ih
      | true => simp only [List.filter_cons, hp, hq]; simp; omega
    | true =>
      have hq := hy hp
      simpa [List.filter_cons, hp, hq] using ih

theorem filter_length_lt {α} (p q : α → Bool) : ∀ (l : List α) (x : α), x ∈ l →
    (∀ y ∈ l, p y = true → q y = true) → q x = true → p x = false →
    (l.filter p).length < (l.filter q).length
  | [], _, hx, _, _, _ => by cases hx
  | y :: l, x, hx, himp, hq, hp => by
    have himp' : ∀ z ∈ l, p z = true → q z = true := fun z hz => himp z (List.mem_cons_of_mem _ hz)
    rcases List.mem_cons.mp hx with rfl | hxl
    · have := filter_length_mono p q l himp'
      simp only [List.filter_cons, hp, hq]; simp; omega
    · have ih := filter_length_lt p q l x hxl himp' hq hp
      have hy := himp y (by simp)
      cases hpy : p y with
      | false =>
        cases hqy : q y with
        | false => simpa [List.filter_cons, hpy, hqy] using ih
        | true => simp only [List.filter_cons, hpy, hqy]; simp; omega
      | true =>
        have hqy := hy hpy
        simpa [List.filter_cons, hpy, hqy] using ih

/-- `before ks` is a strict total order on positions -/
theorem before_irrefl (ks : List Key) (i : Nat) : before ks i i = false := by
  unfold before
  have : klt (ks.getD i none) (ks.getD i none) = false := by
    unfold klt; simp [kle_refl]
  rw [this]; simp

theorem before_total (ks : List Key) {i j : Nat} (hne : i ≠ j) :
    before ks i j = true ∨ before ks j i = true := by
  unfold before
  cases h1 : klt (ks.getD i none) (ks.getD j none) with
  | true => simp
  | false =>
    cases h2 : klt (ks.getD j none) (ks.getD i none) with
    | true => simp
    | false => simp; omega

theorem before_trans (ks : List Key) {i j k : Nat}
    (h1 : before ks i j = true) (h2 : before ks j k = true) : before ks i k = true := by
  unfold before at *
  generalize ks.getD i none = a at *
  generalize ks.getD j none = b at *
  generalize ks.getD k none = c at *
  simp only [Bool.or_eq_true, Bool.and_eq_true, Bool.not_eq_true', decide_eq_true_eq] at *
  -- a<b or (¬ b<a and i<j);  b<c or (¬ c<b and j<k)
  have tri : ∀ {x y : Key}, klt x y = false → kle y x = true := by
    intro x y h
    rcases kle_total y x with h' | h'
    · exact h'
    · unfold klt at h; simp [h'] at h; exact h
  have lt_of_lt_of_le : ∀ {x y z : Key}, klt x y = true → kle y z = true → klt x z = true := by
    intro x y z hxy hyz
    rw [klt_iff_not_kle] at *
    cases hzx : kle z x with
    | false => rfl
    | true => have := kle_trans hyz hzx; rw [this] at hxy; cases hxy
  have lt_of_le_of_lt : ∀ {x y z : Key}, kle x y = true → klt y z = true → klt x z = true := by
    intro x y z hxy hyz
    rw [klt_iff_not_kle] at *
    cases hzx : kle z x with
    | false => rfl
    | true => have := kle_trans hzx hxy; rw [this] at hyz; cases hyz
  rcases h1 with h1 | ⟨h1a, h1b⟩ <;> rcases h2 with h2 | ⟨h2a, h2b⟩
  · exact Or.inl (klt_trans h1 h2)
  · exact Or.inl (lt_of_lt_of_le h1 (tri h2a))
  · exact Or.inl (lt_of_le_of_lt (tri h1a) h2)
  · right
    refine ⟨?_, by omega⟩
    -- c < a would give, with a ≤ b (from ¬ b<a), c < b: contradiction with ¬ c<b
    cases hca : klt c a with
    | false => rfl
    | true =>
      have := lt_of_lt_of_le hca (tri h1a)
      rw [this] at h2a; cases h2a

theorem stableRank_getD (ks : List Key) {i : Nat} (hi : i < ks.length) :
    (stableRank ks).getD i 0 = ((List.range ks.length).filter fun j => before ks j i).length := by
  unfold stableRank
  simp [List.getD_eq_getElem?_getD, hi]

theorem stableRank_lt_of_before (ks : List Key) {i j : Nat} (hi : i < ks.length) (hj : j < ks.length)
    (hb : before ks i j = true) : (stableRank ks).getD i 0 < (stableRank ks).getD j 0 := by
  rw [stableRank_getD ks hi, stableRank_getD ks hj]
  apply filter_length_lt _ _ _ i (List.mem_range.mpr hi)
  · intro y _ hy; exact before_trans ks hy hb
  · exact hb
  · exact before_irrefl ks i

/-- the executable test is the specification -/
theorem isRankingB_iff (ks : List Key) (rank : List Nat) :
    isRankingB ks rank = true ↔ IsRanking ks rank := by
  unfold isRankingB IsRanking
  simp only [Bool.and_eq_true, beq_iff_eq, List.all_eq_true, List.mem_range, Bool.or_eq_true,
    bne_iff_ne, ne_eq, Bool.not_eq_true', decide_eq_false_iff_not]
  constructor
  · rintro ⟨hl, h⟩
    refine ⟨hl, ?_, ?_⟩
    · intro i j hi hj heq
      rcases (h i hi j hj).1 with h1 | h1
      · exact absurd heq h1
      · exact h1
    · intro i j hi hj hlt
      rcases (h i hi j hj).2 with h1 | h1
      · exact absurd hlt h1
      · exact h1
  · rintro ⟨hl, h1, h2⟩
    refine ⟨hl, ?_⟩
    intro i hi j hj
    constructor
    · by_cases he : rank.getD i 0 = rank.getD j 0
      · exact Or.inr (h1 i j hi hj he)
      · exact Or.inl he
    · by_cases hlt : rank.getD i 0 < rank.getD j 0
      · exact Or.inr (h2 i j hi hj hlt)
      · exact Or.inl hlt

/-- the driver's ranking satisfies the relational specification -/
theorem stableRank_isRanking (ks : List Key) : IsRanking ks (stableRank ks) := by
  refine ⟨by simp [stableRank], ?_, ?_⟩
  · intro i j hi hj heq
    by_contra hne
    rcases before_total ks hne with h | h
    · have := stableRank_lt_of_before ks hi hj h; omega
    · have := stableRank_lt_of_before ks hj hi h; omega
  · intro i j hi hj hlt
    rcases kle_total (ks.getD i none) (ks.getD j none) with h | h
    · exact h
    · -- otherwise key j < key i strictly or equal; strict gives before j i, contradiction
      cases hk : kle (ks.getD i none) (ks.getD j none) with
      | true => rfl
      | false =>
        have hb : before ks j i = true := by
          unfold before
          have : klt (ks.getD j none) (ks.getD i none) = true := by
            rw [klt_iff_not_kle]; exact hk
          rw [this]; simp
        have := stableRank_lt_of_before ks hj hi hb
        omega

end Tournament
