import Mathlib.Data.List.Nodup
import Proofs.TournamentRank

/-! Helper lemmas for C05: `maxId`, shape and indices of the new population, the store. -/
namespace Tournament

theorem foldl_max_spec : ∀ (r : List Agent) (m : Int),
    m ≤ r.foldl (fun m b => max m b.index) m ∧
    ∀ a ∈ r, a.index ≤ r.foldl (fun m b => max m b.index) m
  | [], m => by simp
  | b :: r, m => by
    obtain ⟨h1, h2⟩ := foldl_max_spec r (max m b.index)
    simp only [List.foldl_cons]
    refine ⟨le_trans (le_max_left _ _) h1, ?_⟩
    intro a ha
    rcases List.mem_cons.mp ha with rfl | ha
    · exact le_trans (le_max_right _ _) h1
    · exact h2 a ha

/-- `max_id` bounds every index of the old population -/
theorem le_maxId : ∀ (pop : List Agent), ∀ a ∈ pop, a.index ≤ maxId pop
  | [], _, h => by cases h
  | b :: r, a, h => by
    obtain ⟨h1, h2⟩ := foldl_max_spec r b.index
    rcases List.mem_cons.mp h with rfl | h
    · exact h1
    · exact h2 a h

theorem getD_mem {pop : List Agent} {i : Nat} (h : i < pop.length) : pop.getD i default ∈ pop := by
  simp [List.getD_eq_getElem?_getD, h]

theorem cloneAs_self (a : Agent) : a.cloneAs a.index = a := by cases a; rfl

@[simp] theorem cloneAs_index (a : Agent) (i : Int) : (a.cloneAs i).index = i := rfl
@[simp] theorem cloneAs_fitness (a : Agent) (i : Int) : (a.cloneAs i).fitness = a.fitness := rfl
@[simp] theorem cloneAs_tag (a : Agent) (i : Int) : (a.cloneAs i).tag = a.tag := rfl

@[simp] theorem tournChildren_length (c : Cfg) (rank : List Nat) (pop : List Agent) (draws : Nat → List Nat) :
    (tournChildren c rank pop draws).length = selSize c := by
  simp [tournChildren]

theorem plan_length (c : Cfg) (hv : c.valid) (rank : List Nat) (pop : List Agent) (draws : Nat → List Nat) :
    (plan c rank pop draws).2.length = c.popSize := by
  obtain ⟨_, hp, _⟩ := hv
  unfold plan
  cases he : c.elitism <;> simp [selSize, he]
  omega

theorem newPop_length (c : Cfg) (hv : c.valid) (rank : List Nat) (pop : List Agent) (draws : Nat → List Nat) :
    (newPop c rank pop draws).length = c.popSize := by
  simp [newPop, plan_length c hv]

/-- the index list of the new population, spelled out -/
theorem newPop_indices (c : Cfg) (rank : List Nat) (pop : List Agent) (draws : Nat → List Nat) :
    (newPop c rank pop draws).map (·.index) =
      (if c.elitism then [(pop.getD (elitePos rank) default).index] else []) ++
      (List.range (selSize c)).map (fun (t : Nat) => maxId pop + 1 + (t : Int)) := by
  unfold newPop plan
  cases c.elitism <;> simp [tournChildren, Child.build, List.map_map, Function.comp_def]

theorem fresh_nodup (m : Int) (n : Nat) :
    ((List.range n).map (fun (t : Nat) => m + 1 + (t : Int))).Nodup := by
  refine List.Nodup.map ?_ List.nodup_range
  intro a b h
  simp only at h
  omega

/-- the indices of a new population are pairwise distinct, whatever the old indices were -/
theorem newPop_indices_nodup (c : Cfg) (rank : List Nat) (pop : List Agent) (draws : Nat → List Nat)
    (he : elitePos rank < pop.length) :
    ((newPop c rank pop draws).map (·.index)).Nodup := by
  rw [newPop_indices]
  cases c.elitism
  · simpa using fresh_nodup _ _
  · simp only [if_true, List.singleton_append, List.nodup_cons]
    refine ⟨?_, fresh_nodup _ _⟩
    intro hmem
    obtain ⟨t, _, ht⟩ := List.mem_map.mp hmem
    have := le_maxId pop _ (getD_mem he)
    omega

/-! ### the store -/

theorem selectHeap_store (c : Cfg) (rank : List Nat) (store : List Agent) (draws : Nat → List Nat) :
    (selectHeap c rank store draws).1 = store ++ [eliteOf rank store] ++ newPop c rank store draws := rfl

end Tournament
